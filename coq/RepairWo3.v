(* WHAT THE REPAIR-ON-OPEN WRITES, part 3: the writer-model functions the repair calls while the raw stands at the
   end of the file (jls_core_wr_index / _summary, jls_core_update_item_head, jls_track_update / _wr_head,
   wr_fsr.c: wr_summary, jls_core_fsr_summary1 / summaryN, jls_fsr_close).  A simulation between the writer
   model's raw state and the classifier state after the log so far (rx_raw), preserved by every operation
   (rx_tstep), in the style of WmWriteOnce.v but relative to a file that already exists.
   Every top-level name starts with rx_. *)
From Coq Require Import NArith ZArith List Bool Lia Arith.
From Coq Require Import ZifyBool ZifyN ZifyNat.
From JLS Require Import Generated CrcDefs Spec Format FormatProofs WriteOnce WriteOnceProofs WmRaw WmCore WmFsr WriterModel WmProofs
  WmWriteOnce WmWriteOnce2 RepairRaw RawReadProofs RepairModel RepairProofs RepairWo RepairWo2.
Import ListNotations.
Local Open Scope N_scope.
Ltac Zify.zify_post_hook ::= Z.div_mod_to_equations.

Local Opaque crc32c.

(* ================================================================ the state after one write *)
Lemma rx_after_inplace : forall st off b s, rw_n st = rp_len (rw_g st) -> off + rp_len b <= rw_n st ->
  rw_after st (WmWrite off b) s =
  {| rw_g := firstn (N.to_nat off) (rw_g st) ++ b ++ skipn (N.to_nat off + length b) (rw_g st); rw_n := rw_n st;
     rw_hist := (firstn (N.to_nat off) (rw_g st) ++ b ++ skipn (N.to_nat off + length b) (rw_g st)) :: rw_hist st; rw_stg := s |}.
Proof.
  intros st off b s Hn Hle. unfold rw_after. rewrite Hn in *. rewrite rw_apply_write_inplace by exact Hle. reflexivity.
Qed.
Lemma rx_after_append : forall st b s, rw_n st = rp_len (rw_g st) ->
  rw_after st (WmWrite (rw_n st) b) s =
  {| rw_g := rw_g st ++ b; rw_n := rw_n st + rp_len b; rw_hist := (rw_g st ++ b) :: rw_hist st; rw_stg := s |}.
Proof.
  intros st b s Hn. unfold rw_after. rewrite Hn. rewrite rw_apply_write_append. reflexivity.
Qed.
Lemma rx_len_inplace : forall (g b : list N) off, off + rp_len b <= rp_len g ->
  rp_len (firstn (N.to_nat off) g ++ b ++ skipn (N.to_nat off + length b) g) = rp_len g.
Proof. intros g b off H. unfold rp_len in *. rewrite !app_length, firstn_length, skipn_length. lia. Qed.

Definition rx_mono (st st' : rw_st) : Prop := incl (rw_hist st) (rw_hist st') /\ rw_n st <= rw_n st'.
Lemma rx_mono_refl : forall st, rx_mono st st.
Proof. intros. split; [apply incl_refl | lia]. Qed.
Lemma rx_mono_trans : forall a b c, rx_mono a b -> rx_mono b c -> rx_mono a c.
Proof. intros a b c [H1 H2] [H3 H4]. split; [eapply incl_tran; eauto | lia]. Qed.

(* headers of the ghost disk that could be a head table's (payload_length <= 128) stood in the file *)
Definition rx_disk (hist : list (list N)) (disk : list (N * fm_chunk_header)) : Prop :=
  forall o h, wm_disk_get disk o = Some h -> fm_payload_length h <= SIZEOF_track_head -> rw_seen_pl hist o (fm_payload_length h) = true.
Lemma rx_disk_mono : forall hist hist' d, incl hist hist' -> rx_disk hist d -> rx_disk hist' d.
Proof. intros hist hist' d Hi H o h Hg Hl. eapply rw_seen_pl_incl; [exact Hi | eapply H; eauto]. Qed.
Lemma rx_seen_pl_intro : forall hist g o h0, In g hist -> rw_hdr_at g o = Some h0 -> rw_seen_pl hist o (fm_payload_length h0) = true.
Proof.
  intros hist g o h0 Hin Hh. apply existsb_exists. exists g. split; [exact Hin |]. rewrite Hh. apply N.eqb_refl.
Qed.
Lemma rx_disk_put : forall hist disk g o h h', rx_disk hist disk -> rw_hdr_at g o = Some h' ->
  fm_payload_length h' = fm_payload_length h mod 4294967296 -> rx_disk (g :: hist) ((o, h) :: disk).
Proof.
  intros hist disk g o h h' Hd Hh Hpl o' h0 Hg Hl. cbn [wm_disk_get] in Hg. destruct (o =? o') eqn:E.
  - apply N.eqb_eq in E. subst o'. inversion Hg; subst h0.
    replace (fm_payload_length h) with (fm_payload_length h') by (rewrite Hpl; unfold SIZEOF_track_head in Hl; lia).
    eapply rx_seen_pl_intro; [now left | exact Hh].
  - eapply rw_seen_pl_incl; [| eapply Hd; eauto]. intros x Hx. now right.
Qed.

Section RX.
Variable f : list N.
Variable pos : N.
Let T := rw_T f pos.

(* ================================================================ the simulation *)
Definition rx_raw (st0 st : rw_st) (r : wm_raw) : Prop :=
  In st (rw_runs false f pos st0 (rev (wm_rlog r))) /\ rw_stg st = RwIdle /\ rw_n st = rp_len (rw_g st) /\
  wm_fpos r = rw_n st /\ wm_fend r = rw_n st /\ wm_offset r = rw_n st /\ T <= rw_n st /\ 32 <= rw_n st /\
  wm_fault r = false /\ rx_disk (rw_hist st) (wm_disk r) /\ fm_tag (wm_hdr r) = JLS_TAG_INVALID.

Lemma rx_raw_mk : forall st0 st r, rx_raw st0 st r ->
  r = wm_mk_raw (rw_n st) (rw_n st) (rw_n st) (wm_hdr r) (wm_last_pl r) (wm_disk r) (wm_rlog r) false.
Proof.
  intros st0 st r (_ & _ & _ & Hp & He & Ho & _ & _ & Hf & _ & _). destruct r as [fpos fend off hdr lpl disk log flt].
  cbv [wm_offset wm_fpos wm_fend wm_fault] in Hp, He, Ho, Hf. subst off fpos fend flt. reflexivity.
Qed.

Definition rx_tk (st : rw_st) (t : wm_track) : Prop :=
  wm_ck_offset (wm_tk_head t) <> 0 /\ wm_ck_offset (wm_tk_head t) + 168 <= T /\
  rw_seen_head (rw_hist st) (wm_ck_offset (wm_tk_head t)) = true /\
  length (wm_tk_offsets t) = 16%nat /\ wm_tk_type t = JLS_TRACK_TYPE_FSR /\
  Forall (rw_ck (rw_hist st) (rw_n st)) (wm_tk_index_head t) /\ Forall (rw_ck (rw_hist st) (rw_n st)) (wm_tk_summary_head t).
Lemma rx_tk_mono : forall st st' t, rx_mono st st' -> rx_tk st t -> rx_tk st' t.
Proof.
  intros st st' t [Hi Hn] (A & B & C & D & E & F & G). unfold rx_tk.
  split; [exact A |]. split; [exact B |]. split; [eapply rw_seen_head_incl; eauto |]. split; [exact D |]. split; [exact E |].
  split; eapply rw_Forall_ck_mono; eauto.
Qed.

Definition rx_tstep (st0 : rw_st) (b : wm_base) (t : wm_track) (b' : wm_base) (t' : wm_track) : Prop :=
  wmw_ble b b' /\
  forall st, rx_raw st0 st (wm_b_raw b) -> rx_tk st t -> wm_fault (wm_b_raw b') = false ->
    exists st', rx_raw st0 st' (wm_b_raw b') /\ rx_tk st' t' /\ rx_mono st st'.

Lemma rx_tstep_refl : forall st0 b t, rx_tstep st0 b t b t.
Proof.
  intros. split; [apply wmw_le_refl |]. intros st Hr Ht _. exists st. split; [exact Hr |]. split; [exact Ht | apply rx_mono_refl].
Qed.
Lemma rx_tstep_trans : forall st0 b t b1 t1 b2 t2, rx_tstep st0 b t b1 t1 -> rx_tstep st0 b1 t1 b2 t2 -> rx_tstep st0 b t b2 t2.
Proof.
  intros st0 b t b1 t1 b2 t2 [L1 S1] [L2 S2]. split; [eapply wmw_le_trans; eauto |].
  intros st Hr Ht Hf.
  assert (Hf1 : wm_fault (wm_b_raw b1) = false) by (eapply wmw_le_nofault; [exact L2 | exact Hf]).
  destruct (S1 st Hr Ht Hf1) as (st1 & Hr1 & Ht1 & M1).
  destruct (S2 st1 Hr1 Ht1 Hf) as (st2 & Hr2 & Ht2 & M2).
  exists st2. split; [exact Hr2 |]. split; [exact Ht2 | eapply rx_mono_trans; eauto].
Qed.
Lemma rx_tstep_fault : forall st0 b t t', rx_tstep st0 b t (wm_b_fault b) t'.
Proof. intros. split; [apply wmw_le_fault; reflexivity |]. intros st _ _ Hf. cbn in Hf. discriminate Hf. Qed.

(* ================================================================ append *)
Lemma rx_is_app_hdr : forall h, fm_item_next h = 0 ->
  (fm_tag h = JLS_TAG_TRACK_FSR_INDEX \/ fm_tag h = JLS_TAG_TRACK_FSR_SUMMARY) ->
  rw_is_app (fm_encode_chunk_header h) = Some (RwHdr (fm_payload_length h mod 4294967296)).
Proof.
  intros h Hn Ht. unfold rw_is_app.
  destruct (rw_decode_encode h []) as (h' & A & _ & C & D & E). rewrite app_nil_r in A. rewrite A.
  unfold rp_len. rewrite fm_encode_chunk_header_length. change (N.of_nat 32 =? 32) with true.
  rewrite C, Hn. change (0 mod fm_two64 =? 0) with true. cbn [andb].
  rewrite D, E. destruct Ht as [Ht | Ht]; rewrite Ht; reflexivity.
Qed.

(* jls_raw_wr of a fresh INDEX / SUMMARY chunk at the end of the file *)
Lemma rx_append : forall st0 st r prev tag meta plen payload r1 h1,
  rx_raw st0 st r -> (tag = JLS_TAG_TRACK_FSR_INDEX \/ tag = JLS_TAG_TRACK_FSR_SUMMARY) -> plen <> 0 ->
  wm_raw_wr r (wm_mk_hdr prev tag meta plen) payload = (r1, h1) -> wm_fault r1 = false ->
  exists st1, rx_raw st0 st1 r1 /\ rx_mono st st1 /\
    rw_ck (rw_hist st1) (rw_n st1) {| wm_ck_offset := rw_n st; wm_ck_hdr := h1 |}.
Proof.
  intros st0 st r prev tag meta plen payload r1 h1 Hr Htag Hpl Heq Hf.
  pose proof Hr as (Hin & Hs & Hn & Hp & He & Ho & HT & H32 & Hflt & Hd & Hinv).
  rewrite (rx_raw_mk _ _ _ Hr) in Heq.
  assert (Ht0 : fm_tag (wm_mk_hdr prev tag meta plen) <> JLS_TAG_INVALID) by (cbn; destruct Htag as [-> | ->]; discriminate).
  rewrite (wmw_raw_wr_eq _ _ _ _ _ _ payload Ht0) in Heq. cbv zeta in Heq.
  cbn [wm_mk_hdr fm_payload_length] in Heq.
  replace (plen =? 0) with false in Heq by (symmetry; apply N.eqb_neq; exact Hpl).
  set (a := rw_n st) in *. set (hh := wm_hdr_set_ppl (wm_mk_hdr prev tag meta plen) (wm_last_pl r)) in *.
  set (body := firstn (N.to_nat plen) payload) in *.
  inversion Heq; subst r1 h1. clear Heq.
  unfold wm_mk_raw in Hf. cbv [wm_fault] in Hf. apply N.ltb_ge in Hf.
  assert (Hlb : N.of_nat (length body) = plen) by (unfold body; rewrite firstn_length; lia).
  rewrite Hlb in *.
  (* the three events *)
  set (e1 := WmWrite a (fm_encode_chunk_header hh)).
  set (e2 := WmWrite (a + 32) body).
  set (e3 := WmWrite (a + 32 + plen) (wm_footer plen (crc32c body))).
  assert (N1 : In (RwHdr (plen mod 4294967296)) (rw_next false f pos st e1)).
  { apply (rw_in_idle f pos st a _ _ 1%nat Hs). cbn [nth_error]. f_equal. fold a. rewrite N.eqb_refl.
    rewrite rx_is_app_hdr; [reflexivity | reflexivity | exact Htag]. }
  set (st1 := rw_after st e1 (RwHdr (plen mod 4294967296))).
  assert (A1 : st1 = {| rw_g := rw_g st ++ fm_encode_chunk_header hh; rw_n := a + 32;
                        rw_hist := (rw_g st ++ fm_encode_chunk_header hh) :: rw_hist st; rw_stg := RwHdr (plen mod 4294967296) |}).
  { unfold st1, e1, a. rewrite rx_after_append by exact Hn. unfold rp_len. rewrite fm_encode_chunk_header_length. reflexivity. }
  assert (L1 : rw_n st1 = rp_len (rw_g st1)).
  { rewrite A1. cbn [rw_n rw_g]. rewrite rpp_len_app. unfold rp_len at 2. rewrite fm_encode_chunk_header_length. fold a in Hn. rewrite <- Hn. reflexivity. }
  assert (N2 : In (RwPay body) (rw_next false f pos st1 e2)).
  { rewrite A1. cbn [rw_next rw_stg rw_n e2]. rewrite N.eqb_refl. unfold rp_len. rewrite Hlb.
    replace (plen =? 0) with false by (symmetry; apply N.eqb_neq; exact Hpl). rewrite N.eqb_refl. now left. }
  set (st2 := rw_after st1 e2 (RwPay body)).
  assert (A2 : st2 = {| rw_g := rw_g st1 ++ body; rw_n := a + 32 + plen; rw_hist := (rw_g st1 ++ body) :: rw_hist st1; rw_stg := RwPay body |}).
  { unfold st2, e2. replace (a + 32) with (rw_n st1) by (rewrite A1; reflexivity). rewrite rx_after_append by exact L1.
    rewrite A1. cbn [rw_n]. unfold rp_len. rewrite Hlb. reflexivity. }
  assert (L2 : rw_n st2 = rp_len (rw_g st2)).
  { rewrite A2. cbn [rw_n rw_g]. rewrite rpp_len_app, <- L1. rewrite A1. cbn [rw_n]. unfold rp_len. rewrite Hlb. reflexivity. }
  assert (N3 : In RwIdle (rw_next false f pos st2 e3)).
  { rewrite A2. cbn [rw_next rw_stg rw_n e3]. rewrite N.eqb_refl. unfold rp_len. rewrite Hlb.
    replace (fm_list_eqb (wm_footer plen (crc32c body)) (wm_footer plen (crc32c body))) with true by (symmetry; apply fm_list_eqb_eq; reflexivity).
    now left. }
  set (st3 := rw_after st2 e3 RwIdle).
  assert (A3 : st3 = {| rw_g := rw_g st2 ++ wm_footer plen (crc32c body); rw_n := a + 32 + plen + (fm_pad_len plen + 4);
                        rw_hist := (rw_g st2 ++ wm_footer plen (crc32c body)) :: rw_hist st2; rw_stg := RwIdle |}).
  { unfold st3, e3. replace (a + 32 + plen) with (rw_n st2) by (rewrite A2; reflexivity). rewrite rx_after_append by exact L2.
    rewrite A2. cbn [rw_n]. unfold rp_len. rewrite wm_footer_length. reflexivity. }
  assert (L3 : rw_n st3 = rp_len (rw_g st3)).
  { rewrite A3. cbn [rw_n rw_g]. rewrite rpp_len_app, <- L2. rewrite A2. cbn [rw_n]. unfold rp_len. rewrite wm_footer_length. reflexivity. }
  (* the header that now stands at a *)
  assert (HA : exists h', rw_hdr_at (rw_g st1) a = Some h' /\ rw_rest h' = rw_rest hh /\
                          fm_payload_length h' = fm_payload_length hh mod 4294967296).
  { rewrite A1. cbn [rw_g]. fold a in Hn.
    destruct (rw_hdr_at_written (rw_g st) a hh []) as (h' & X1 & X2 & X3 & _).
    - rewrite Hn. unfold rp_len. lia.
    - exists h'. rewrite app_nil_r in X1. rewrite firstn_all2 in X1 by (rewrite Hn; unfold rp_len; lia).
      split; [exact X1 |]. split; [exact X2 | exact X3]. }
  destruct HA as (h' & HA1 & HA2 & HA3).
  assert (Hin1 : In (rw_g st1) (rw_hist st3)).
  { rewrite A3. cbn [rw_hist]. right. rewrite A2. cbn [rw_hist]. right. rewrite A1. cbn [rw_hist rw_g]. now left. }
  assert (Hinc : incl (rw_hist st) (rw_hist st3)).
  { rewrite A3. cbn [rw_hist]. rewrite A2. cbn [rw_hist]. rewrite A1. cbn [rw_hist]. intros x Hx. right. right. right. exact Hx. }
  exists st3. split; [| split].
  - unfold rx_raw, wm_mk_raw. cbv [wm_rlog wm_fpos wm_fend wm_offset wm_fault wm_disk wm_hdr].
    split.
    { cbn [rev]. rewrite <- !app_assoc. cbn [app].
      eapply rw_runs_app; [exact Hin |]. change [e1; e2; e3] with ([e1] ++ [e2] ++ [e3]).
      eapply rw_runs_app; [apply rw_runs_one; exact N1 |]. eapply rw_runs_app; [apply rw_runs_one; exact N2 |].
      apply rw_runs_one. exact N3. }
    split; [rewrite A3; reflexivity |]. split; [exact L3 |].
    rewrite A3. cbn [rw_n]. split; [reflexivity |]. split; [reflexivity |]. split; [reflexivity |].
    split; [fold a in HT; lia |]. split; [fold a in H32; lia |]. split; [apply N.ltb_ge; lia |].
    split; [| reflexivity].
    rewrite <- A3. apply (rx_disk_mono (rw_g st1 :: rw_hist st)).
    + intros x [Hx | Hx]; [subst x; exact Hin1 | apply Hinc; exact Hx].
    + eapply rx_disk_put; [exact Hd | exact HA1 | exact HA3].
  - split; [exact Hinc |]. rewrite A3. cbn [rw_n]. fold a. lia.
  - right. cbn [wm_ck_offset wm_ck_hdr]. split; [rewrite A3; cbn [rw_n]; lia |]. right.
    rewrite <- HA2. eapply rw_seen_intro; [exact Hin1 | exact HA1].
Qed.

(* ================================================================ link *)
Lemma rx_link : forall st0 st r head next r2 c,
  rx_raw st0 st r -> rw_ck (rw_hist st) (rw_n st) head ->
  wm_update_item_head r head next = (r2, c) -> wm_fault r2 = false ->
  exists st2, rx_raw st0 st2 r2 /\ c = next /\ rx_mono st st2 /\ rw_n st2 = rw_n st.
Proof.
  intros st0 st r head next r2 c Hr Hck Heq Hf.
  pose proof Hr as (Hin & Hs & Hn & Hp & He & Ho & HT & H32 & Hflt & Hd & Hinv).
  destruct Hck as [H0 | (Hle & Hk)].
  { unfold wm_update_item_head in Heq. rewrite H0 in Heq. cbn [N.eqb] in Heq. inversion Heq; subst.
    exists st. split; [exact Hr |]. split; [reflexivity |]. split; [apply rx_mono_refl | reflexivity]. }
  destruct (N.eq_dec (wm_ck_offset head) 0) as [H0 | H0].
  { unfold wm_update_item_head in Heq. rewrite H0 in Heq. cbn [N.eqb] in Heq. inversion Heq; subst.
    exists st. split; [exact Hr |]. split; [reflexivity |]. split; [apply rx_mono_refl | reflexivity]. }
  rewrite (rx_raw_mk _ _ _ Hr) in Heq.
  rewrite wmw_update_item_head_eq in Heq by lia. cbv zeta in Heq.
  set (a := rw_n st) in *. set (o := wm_ck_offset head) in *.
  set (h := wm_hdr_set_next (wm_ck_hdr head) (wm_ck_offset next)) in *.
  inversion Heq; subst r2 c. clear Heq.
  set (e1 := WmWrite o (fm_encode_chunk_header h)).
  assert (N1 : In RwIdle (rw_next false f pos st e1)).
  { apply rw_link_next; [exact Hs | exact H0 | exact Hle |]. unfold h. rewrite rw_rest_set_next. exact Hk. }
  set (st1 := rw_after st e1 RwIdle).
  assert (Hb32 : rp_len (fm_encode_chunk_header h) = 32) by (unfold rp_len; rewrite fm_encode_chunk_header_length; reflexivity).
  set (g1 := firstn (N.to_nat o) (rw_g st) ++ fm_encode_chunk_header h ++ skipn (N.to_nat o + length (fm_encode_chunk_header h)) (rw_g st)).
  assert (A1 : st1 = {| rw_g := g1; rw_n := a; rw_hist := g1 :: rw_hist st; rw_stg := RwIdle |}).
  { unfold st1, e1. rewrite rx_after_inplace; [reflexivity | exact Hn | rewrite Hb32; exact Hle]. }
  assert (L1 : rw_n st1 = rp_len (rw_g st1)).
  { rewrite A1. cbn [rw_n rw_g]. unfold g1.
    rewrite rx_len_inplace; [exact Hn | rewrite Hb32; fold a in Hn; rewrite <- Hn; exact Hle]. }
  destruct (rw_hdr_at_written (rw_g st) o h (skipn (N.to_nat o + length (fm_encode_chunk_header h)) (rw_g st))) as (h' & X1 & _ & X3 & _).
  { fold a in Hn. rewrite Hn in Hle. unfold rp_len in Hle. lia. }
  fold g1 in X1.
  exists st1. split; [| split; [reflexivity | split]].
  - unfold rx_raw, wm_mk_raw. cbv [wm_rlog wm_fpos wm_fend wm_offset wm_fault wm_disk wm_hdr].
    split; [cbn [rev]; eapply rw_runs_snoc; [exact Hin | exact N1] |].
    split; [rewrite A1; reflexivity |]. split; [exact L1 |].
    rewrite A1. cbn [rw_n rw_hist]. repeat (split; [reflexivity || assumption |]).
    split; [| reflexivity].
    eapply rx_disk_put; [exact Hd | exact X1 | exact X3].
  - split; [rewrite A1; cbn [rw_hist]; intros x Hx; now right | rewrite A1; cbn [rw_n]; fold a; lia].
  - rewrite A1. reflexivity.
Qed.

(* ================================================================ head table *)
Lemma rx_tbl : forall st0 st b id t offs' b' t',
  wm_track_wr_head b id (wm_tk_set_offsets t offs') = (b', t') ->
  rx_raw st0 st (wm_b_raw b) -> rx_tk st t -> length offs' = 16%nat -> wm_fault (wm_b_raw b') = false ->
  exists st', rx_raw st0 st' (wm_b_raw b') /\ rx_tk st' t' /\ rx_mono st st'.
Proof.
  intros st0 st b id t offs' b' t' Heq Hr Ht Lo Hf.
  pose proof Hr as (Hin & Hs & Hn & Hp & He & Ho & HT & H32 & Hflt & Hd & Hinv).
  pose proof Ht as (T1 & T2 & T3 & T4 & T5 & T6 & T7).
  unfold wm_track_wr_head in Heq. cbv zeta in Heq. cbn [wm_tk_head wm_tk_offsets wm_tk_set_offsets] in Heq.
  replace (wm_ck_offset (wm_tk_head t) =? 0) with false in Heq by (symmetry; apply N.eqb_neq; exact T1).
  inversion Heq; subst b' t'. clear Heq. cbn [wm_b_raw wm_b_set_raw] in Hf |- *.
  set (ho := wm_ck_offset (wm_tk_head t)) in *. set (a := rw_n st) in *.
  assert (Ha : wm_raw_chunk_tell (wm_b_raw b) = a) by (unfold wm_raw_chunk_tell; exact Ho).
  rewrite Ha in Hf |- *.
  set (payload := wm_head_payload offs') in *.
  assert (Hpl : N.of_nat (length payload) = SIZEOF_track_head) by (apply wmw_head_payload_length; exact Lo).
  rewrite (rx_raw_mk _ _ _ Hr) in Hf |- *. fold a in Hf |- *.
  destruct (rw_tbl_eq a a a (wm_hdr (wm_b_raw b)) (wm_last_pl (wm_b_raw b)) (wm_disk (wm_b_raw b)) (wm_rlog (wm_b_raw b)) ho payload a _
              T1 ltac:(fold T in T2; lia) ltac:(lia) Hpl eq_refl Hf) as (hd & Hdg & Hle & Hlb & Hr').
  cbv zeta in Hlb, Hr'. rewrite Hr'. clear Hr' Hf.
  set (hl := fm_payload_length hd) in *. set (body := firstn (N.to_nat hl) payload) in *.
  pose proof (rw_pad_le_136 hl Hle) as Hp136.
  set (e1 := WmWrite (ho + 32) body). set (e2 := WmWrite (ho + 32 + hl) (wm_footer hl (crc32c body))).
  assert (Hrl : rp_len body = hl) by exact Hlb.
  assert (N1 : In (RwTbl ho body) (rw_next false f pos st e1)).
  { replace ho with (ho + 32 - 32) at 1 by lia.
    apply (rw_in_idle f pos st (ho + 32) body _ 3%nat Hs). cbn [nth_error]. f_equal.
    unfold rw_opt. replace (rw_is_tbl false (rw_hist st) (rw_n st) (ho + 32) body) with true; [reflexivity |].
    symmetry. unfold rw_is_tbl. rewrite Hrl. replace (ho + 32 - 32) with ho by lia.
    replace (32 <? ho + 32) with true by (symmetry; apply N.ltb_lt; lia).
    replace (ho + 32 + 136 <=? rw_n st) with true by (symmetry; apply N.leb_le; fold a; fold T in T2; lia).
    replace (hl <=? SIZEOF_track_head) with true by (symmetry; apply N.leb_le; exact Hle).
    pose proof (Hd ho hd Hdg Hle) as Q. fold hl in Q. rewrite Q, T3. reflexivity. }
  set (st1 := rw_after st e1 (RwTbl ho body)).
  assert (I1 : ho + 32 + rp_len body <= rw_n st) by (rewrite Hrl; fold a; fold T in T2; unfold SIZEOF_track_head in Hle; lia).
  assert (A1 : st1 = {| rw_g := firstn (N.to_nat (ho + 32)) (rw_g st) ++ body ++ skipn (N.to_nat (ho + 32) + length body) (rw_g st);
                        rw_n := a;
                        rw_hist := (firstn (N.to_nat (ho + 32)) (rw_g st) ++ body ++ skipn (N.to_nat (ho + 32) + length body) (rw_g st)) :: rw_hist st;
                        rw_stg := RwTbl ho body |}).
  { unfold st1, e1. rewrite rx_after_inplace; [reflexivity | exact Hn | exact I1]. }
  assert (L1 : rw_n st1 = rp_len (rw_g st1)).
  { rewrite A1. cbn [rw_n rw_g]. rewrite rx_len_inplace; [exact Hn | fold a in Hn; rewrite <- Hn; exact I1]. }
  assert (N2 : In RwIdle (rw_next false f pos st1 e2)).
  { rewrite A1. cbn [rw_next rw_stg e2]. rewrite Hrl, N.eqb_refl.
    replace (fm_list_eqb (wm_footer hl (crc32c body)) (wm_footer hl (crc32c body))) with true by (symmetry; apply fm_list_eqb_eq; reflexivity).
    now left. }
  set (st2 := rw_after st1 e2 RwIdle).
  assert (Hfl : rp_len (wm_footer hl (crc32c body)) = fm_pad_len hl + 4) by (unfold rp_len; apply wm_footer_length).
  assert (I2 : ho + 32 + hl + rp_len (wm_footer hl (crc32c body)) <= rw_n st1).
  { rewrite Hfl, A1. cbn [rw_n]. fold T in T2. lia. }
  assert (A2 : rw_n st2 = a /\ rw_stg st2 = RwIdle /\ rw_hist st2 = rw_g st2 :: rw_hist st1 /\ rw_n st2 = rp_len (rw_g st2)).
  { unfold st2, e2. rewrite rx_after_inplace; [| exact L1 | exact I2]. cbn [rw_n rw_stg rw_hist rw_g].
    split; [rewrite A1; reflexivity |]. split; [reflexivity |]. split; [reflexivity |].
    rewrite rx_len_inplace; [exact L1 | rewrite <- L1; exact I2]. }
  destruct A2 as (B1 & B2 & B3 & B4).
  assert (Hinc : incl (rw_hist st) (rw_hist st2)).
  { rewrite B3, A1. cbn [rw_hist]. intros x Hx. right. right. exact Hx. }
  assert (M : rx_mono st st2) by (split; [exact Hinc | rewrite B1; fold a; lia]).
  exists st2. split; [| split; [| exact M]].
  - unfold rx_raw, wm_mk_raw. cbv [wm_rlog wm_fpos wm_fend wm_offset wm_fault wm_disk wm_hdr].
    split.
    { cbn [rev]. rewrite <- app_assoc. cbn [app]. eapply rw_runs_app; [exact Hin |].
      change [e1; e2] with ([e1] ++ [e2]). eapply rw_runs_app; [apply rw_runs_one; exact N1 | apply rw_runs_one; exact N2]. }
    split; [exact B2 |]. split; [exact B4 |]. rewrite B1.
    repeat (split; [reflexivity || assumption |]).
    split; [| reflexivity].
    eapply rx_disk_mono; [exact Hinc | exact Hd].
  - eapply rx_tk_mono; [exact M |]. unfold rx_tk. cbn [wm_tk_head wm_tk_offsets wm_tk_type wm_tk_index_head wm_tk_summary_head wm_tk_set_offsets].
    repeat (split; [assumption |]). assumption.
Qed.

(* ================================================================ core.c / track.c *)
Lemma rx_Forall_upd : forall (P : wm_chunk -> Prop) n x l, Forall P l -> P x -> Forall P (wm_upd n x l).
Proof. intros. now apply wmw_Forall_upd. Qed.

Lemma rx_track_update : forall st0 b id t level off b' t',
  wm_track_update b id t level off = (b', t') -> rx_tstep st0 b t b' t'.
Proof.
  intros st0 b id t level off b' t' Heq.
  split; [exact (proj1 (wmw_track_update_step id JLS_TRACK_TYPE_FSR _ _ _ _ _ _ Heq)) |].
  intros st Hr Ht Hf. unfold wm_track_update in Heq.
  destruct (wm_get_off (wm_tk_offsets t) level =? 0).
  - eapply rx_tbl; [exact Heq | exact Hr | exact Ht | | exact Hf].
    rewrite wmw_upd_length. apply Ht.
  - inversion Heq; subst b' t'. exists st. split; [exact Hr |]. split; [exact Ht | apply rx_mono_refl].
Qed.

Lemma rx_track_tag : forall t k, wm_tk_type t = JLS_TRACK_TYPE_FSR ->
  (k = JLS_TRACK_CHUNK_INDEX -> fm_track_tag (wm_tk_type t) k = JLS_TAG_TRACK_FSR_INDEX) /\
  (k = JLS_TRACK_CHUNK_SUMMARY -> fm_track_tag (wm_tk_type t) k = JLS_TAG_TRACK_FSR_SUMMARY).
Proof. intros t k H. rewrite H. split; intros ->; reflexivity. Qed.

(* a chunk appended to one of the two lists of the track and linked *)
Lemma rx_append_link : forall st0 st r head tag meta plen payload r1 h1 r2 c,
  rx_raw st0 st r -> rw_ck (rw_hist st) (rw_n st) head ->
  (tag = JLS_TAG_TRACK_FSR_INDEX \/ tag = JLS_TAG_TRACK_FSR_SUMMARY) -> plen <> 0 ->
  wm_raw_wr r (wm_mk_hdr (wm_ck_offset head) tag meta plen) payload = (r1, h1) ->
  wm_update_item_head r1 head {| wm_ck_offset := wm_raw_chunk_tell r; wm_ck_hdr := h1 |} = (r2, c) ->
  wm_fault r2 = false ->
  exists st2, rx_raw st0 st2 r2 /\ rx_mono st st2 /\ rw_ck (rw_hist st2) (rw_n st2) c.
Proof.
  intros st0 st r head tag meta plen payload r1 h1 r2 c Hr Hck Htag Hpl E1 E2 Hf.
  assert (Hf1 : wm_fault r1 = false).
  { pose proof (wmw_le_update_item_head r1 head {| wm_ck_offset := wm_raw_chunk_tell r; wm_ck_hdr := h1 |}) as L.
    rewrite E2 in L. cbn [fst] in L. exact (wmw_le_nofault _ _ L Hf). }
  destruct (rx_append st0 st r _ tag meta plen payload r1 h1 Hr Htag Hpl E1 Hf1) as (st1 & Hr1 & M1 & Hc1).
  assert (Hoff : wm_raw_chunk_tell r = rw_n st) by (unfold wm_raw_chunk_tell; apply Hr).
  rewrite Hoff in E2.
  assert (Hck1 : rw_ck (rw_hist st1) (rw_n st1) head) by (destruct M1; eapply rw_ck_mono; eauto).
  destruct (rx_link st0 st1 r1 head _ r2 c Hr1 Hck1 E2 Hf) as (st2 & Hr2 & Hc & M2 & Hn2).
  exists st2. split; [exact Hr2 |]. split; [eapply rx_mono_trans; eauto |].
  subst c. destruct M2 as [I2 _]. eapply rw_ck_mono; [exact I2 | | exact Hc1]. lia.
Qed.

Lemma rx_core_wr_summary : forall st0 b id t level payload plen b' t',
  wm_core_wr_summary b id t level payload plen = (b', t') -> plen <> 0 -> rx_tstep st0 b t b' t'.
Proof.
  intros st0 b id t level payload plen b' t' Heq Hpl.
  split; [exact (proj1 (wmw_core_wr_summary_step id JLS_TRACK_TYPE_FSR _ _ _ _ _ _ _ Heq)) |].
  intros st Hr Ht Hf. unfold wm_core_wr_summary in Heq. cbv zeta in Heq.
  destruct (wm_raw_wr _ _ _) as [r1 h1] eqn:E1. destruct (wm_update_item_head _ _ _) as [r2 nh] eqn:E2.
  inversion Heq; subst b' t'. clear Heq. cbn [wm_b_raw wm_b_set_raw] in Hf |- *.
  pose proof Ht as (T1 & T2 & T3 & T4 & T5 & T6 & T7).
  destruct (rx_track_tag t JLS_TRACK_CHUNK_SUMMARY T5) as [_ G]. rewrite (G eq_refl) in E1.
  destruct (rx_append_link st0 st _ _ _ _ plen payload r1 h1 r2 nh Hr (rw_Forall_get _ _ _ level T7) (or_intror eq_refl) Hpl E1 E2 Hf)
    as (st2 & Hr2 & M2 & Hc).
  exists st2. split; [exact Hr2 |]. split; [| exact M2].
  pose proof (rx_tk_mono _ _ _ M2 Ht) as (U1 & U2 & U3 & U4 & U5 & U6 & U7).
  unfold rx_tk. cbn [wm_tk_head wm_tk_offsets wm_tk_type wm_tk_index_head wm_tk_summary_head wm_tk_set_summary_head].
  repeat (split; [assumption |]). apply rx_Forall_upd; assumption.
Qed.

Lemma rx_core_wr_index : forall st0 b id t level payload plen b' t',
  wm_core_wr_index b id t level payload plen = (b', t') -> plen <> 0 -> rx_tstep st0 b t b' t'.
Proof.
  intros st0 b id t level payload plen b' t' Heq Hpl.
  split; [exact (proj1 (wmw_core_wr_index_step id JLS_TRACK_TYPE_FSR _ _ _ _ _ _ _ Heq)) |].
  intros st Hr Ht Hf. unfold wm_core_wr_index in Heq. cbv zeta in Heq.
  destruct (wm_raw_wr _ _ _) as [r1 h1] eqn:E1. destruct (wm_update_item_head _ _ _) as [r2 nh] eqn:E2.
  destruct (rx_track_update st0 _ _ _ _ _ _ _ Heq) as [L2 S2].
  assert (Hf2 : wm_fault r2 = false) by (apply (wmw_le_nofault _ _ L2 Hf)).
  pose proof Ht as (T1 & T2 & T3 & T4 & T5 & T6 & T7).
  destruct (rx_track_tag t JLS_TRACK_CHUNK_INDEX T5) as [G _]. rewrite (G eq_refl) in E1.
  destruct (rx_append_link st0 st _ _ _ _ plen payload r1 h1 r2 nh Hr (rw_Forall_get _ _ _ level T6) (or_introl eq_refl) Hpl E1 E2 Hf2)
    as (st2 & Hr2 & M2 & Hc).
  assert (Ht2 : rx_tk st2 (wm_tk_set_index_head t (wm_upd (N.to_nat level) nh (wm_tk_index_head t)))).
  { pose proof (rx_tk_mono _ _ _ M2 Ht) as (U1 & U2 & U3 & U4 & U5 & U6 & U7).
    unfold rx_tk. cbn [wm_tk_head wm_tk_offsets wm_tk_type wm_tk_index_head wm_tk_summary_head wm_tk_set_index_head].
    repeat (split; [assumption |]). split; [apply rx_Forall_upd; assumption | assumption]. }
  destruct (S2 st2 Hr2 Ht2 Hf) as (st3 & Hr3 & Ht3 & M3).
  exists st3. split; [exact Hr3 |]. split; [exact Ht3 | eapply rx_mono_trans; eauto].
Qed.

(* ================================================================ wr_fsr.c *)
Definition rx_fxstep (st0 : rw_st) (x x' : wm_fx) : Prop :=
  rx_tstep st0 (wm_fx_base x) (wm_fx_tk x) (wm_fx_base x') (wm_fx_tk x').
Lemma rx_fxstep_refl : forall st0 x, rx_fxstep st0 x x.
Proof. intros. apply rx_tstep_refl. Qed.
Lemma rx_fxstep_trans : forall st0 x y z, rx_fxstep st0 x y -> rx_fxstep st0 y z -> rx_fxstep st0 x z.
Proof. intros st0 x y z. apply rx_tstep_trans. Qed.
Lemma rx_fxstep_fault : forall st0 x, rx_fxstep st0 x (wm_fx_fault x).
Proof. intros. apply rx_tstep_fault. Qed.
Lemma rx_fxstep_set_fsr : forall st0 x y fs, rx_fxstep st0 x y -> rx_fxstep st0 x (wm_fx_set_fsr y fs).
Proof. intros st0 x y fs H. exact H. Qed.

Section RX_FSR.
Variable summ1 : N -> list N -> wm_sentry.
Variable summN : bool -> list wm_sentry -> wm_sentry.

Lemma rx_fsr_wr_summary : forall fuel st0 d level x, rx_fxstep st0 x (wm_fsr_wr_summary summN fuel d level x).
Proof.
  induction fuel as [| fu IH]; intros st0 d level x; cbn [wm_fsr_wr_summary].
  - apply rx_fxstep_fault.
  - destruct (wm_f_get_level (wm_fx_fsr x) level) as [lv |]; [| apply rx_fxstep_fault].
    match goal with |- rx_fxstep _ _ (if ?c then _ else _) => destruct c end; [apply rx_fxstep_refl |].
    cbv zeta.
    assert (H1 : exists b1 t1,
      (if wm_fl_nidx lv =? 0 then (wm_fx_base x, wm_fx_tk x)
       else wm_core_wr_index (wm_fx_base x) (sg_id d) (wm_fx_tk x) level
              (wm_fsr_index_payload (wm_fl_its lv) (wm_fl_nidx lv) (wm_rev (wm_fl_idx lv)))
              (SIZEOF_payload_header + 8 * wm_fl_nidx lv)) = (b1, t1) /\
      rx_tstep st0 (wm_fx_base x) (wm_fx_tk x) b1 t1).
    { destruct (wm_fl_nidx lv =? 0).
      - do 2 eexists. split; [reflexivity | apply rx_tstep_refl].
      - match goal with |- context [wm_core_wr_index ?a ?b ?c ?e ?g ?h] =>
          destruct (wm_core_wr_index a b c e g h) as [b1 t1] eqn:E1 end.
        do 2 eexists. split; [reflexivity |]. eapply rx_core_wr_index; [exact E1 | unfold SIZEOF_payload_header; lia]. }
    destruct H1 as (b1 & t1 & E1 & S1). rewrite E1.
    match goal with |- context [wm_core_wr_summary ?a ?b ?c ?e ?g ?h] =>
      destruct (wm_core_wr_summary a b c e g h) as [b2 t2] eqn:E2 end.
    assert (H12 : rx_tstep st0 (wm_fx_base x) (wm_fx_tk x) b2 t2).
    { eapply rx_tstep_trans; [exact S1 | eapply rx_core_wr_summary; [exact E2 | unfold SIZEOF_payload_header; lia]]. }
    destruct (JLS_SUMMARY_LEVEL_COUNT <=? level + 1).
    + eapply rx_fxstep_trans; [| apply rx_fxstep_fault]. exact H12.
    + match goal with |- rx_fxstep _ _ (match wm_f_get_level (wm_fx_fsr ?x4) level with Some lv4 => _ | None => _ end) =>
        assert (H4 : rx_fxstep st0 x x4) end.
      { match goal with |- rx_fxstep _ _ (match ?g with Some _ => _ | None => _ end) => destruct g as [up |] end;
          [match goal with |- rx_fxstep _ _ (if ?c then _ else _) => destruct c end |].
        - eapply rx_fxstep_trans; [| apply IH]. exact H12.
        - exact H12.
        - exact H12. }
      match goal with |- rx_fxstep _ _ (match ?g with Some lv4 => _ | None => _ end) => destruct g end.
      * apply rx_fxstep_set_fsr. exact H4.
      * exact H4.
Qed.

Lemma rx_fsr_summary1 : forall st0 d p samples x, rx_fxstep st0 x (wm_fsr_summary1 summ1 summN d p samples x).
Proof.
  intros st0 d p samples x. unfold wm_fsr_summary1. cbv zeta.
  destruct (wm_f_get_level (wm_fsr_level_alloc (wm_fx_fsr x) 1) 1) as [dst |]; [| apply rx_fxstep_fault].
  match goal with |- rx_fxstep _ _ (if ?c then _ else _) => destruct c end.
  - eapply rx_fxstep_trans; [| apply rx_fsr_wr_summary]. apply rx_fxstep_set_fsr, rx_fxstep_refl.
  - apply rx_fxstep_set_fsr, rx_fxstep_refl.
Qed.

Lemma rx_fsr_summary_close : forall st0 d x level, rx_fxstep st0 x (wm_fsr_summary_close summN d x level).
Proof.
  intros st0 d x level. unfold wm_fsr_summary_close.
  destruct (wm_f_get_level (wm_fx_fsr x) level); [| apply rx_fxstep_refl].
  apply rx_fxstep_set_fsr. apply rx_fsr_wr_summary.
Qed.

(* jls_fsr_close of a track_fsr without a sample buffer (the repair frees it before): no DATA chunk *)
Lemma rx_fsr_close : forall st0 d x, wm_f_alloc (wm_fx_fsr x) = false -> rx_fxstep st0 x (wm_fsr_close summ1 summN d x).
Proof.
  intros st0 d x Ha. unfold wm_fsr_close. cbv zeta. rewrite Ha.
  assert (G : forall l y, rx_fxstep st0 x y -> rx_fxstep st0 x (fold_left (wm_fsr_summary_close summN d) l y)).
  { induction l as [| lv l IH]; intros y Hy; cbn [fold_left]; [exact Hy |].
    apply IH. eapply rx_fxstep_trans; [exact Hy | apply rx_fsr_summary_close]. }
  apply G. apply rx_fxstep_refl.
Qed.

End RX_FSR.

End RX.
