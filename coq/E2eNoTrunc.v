(* END TO END, layer 1 (writer model side): the only O_TRUNC / ftruncate entry of any log of the byte-exact writer model
   is its oldest entry (jls_raw_open "w"); every function of WmRaw / WmCore / WmTs / WmFsr / WriterModel only adds write
   and fsync entries.  Unconditional (any state, any arguments, faults included): the relation e2_rle is reflexive,
   transitive and holds between the raw state before and after every function.  This is the guard e2_trunc_first of
   E2eLog.v. *)
From Coq Require Import NArith ZArith List Bool Lia.
From JLS Require Import Generated CrcDefs Spec Format WmRaw WmCore WmTs WmFsr WriterModel WmProofs RefineLog E2eLog.
Import ListNotations.
Local Open Scope N_scope.

Definition e2_nt (l : wm_log) : Prop := Forall (fun e => e2_is_trunc e = false) l.
Definition e2_rle (r r' : wm_raw) : Prop := exists l, wm_rlog r' = l ++ wm_rlog r /\ e2_nt l.
Definition e2_ble (b b' : wm_base) : Prop := e2_rle (wm_b_raw b) (wm_b_raw b').

Lemma e2_rle_refl : forall r, e2_rle r r.
Proof. intro r. exists []. split; [reflexivity|constructor]. Qed.
Lemma e2_rle_trans : forall a b c, e2_rle a b -> e2_rle b c -> e2_rle a c.
Proof.
  intros a b c (l1 & L1 & N1) (l2 & L2 & N2). exists (l2 ++ l1). split; [rewrite L2, L1; apply app_assoc|].
  apply Forall_app. split; assumption.
Qed.
Lemma e2_rle_same : forall r r', wm_rlog r' = wm_rlog r -> e2_rle r r'.
Proof. intros r r' H. exists []. split; [exact H|constructor]. Qed.
Lemma e2_rle_fwrite : forall r b, e2_rle r (wm_bk_fwrite r b).
Proof. intros r b. exists [WmWrite (wm_fpos r) b]. split; [reflexivity|]. constructor; [reflexivity|constructor]. Qed.
Lemma e2_rle_flush : forall r, e2_rle r (wm_raw_flush r).
Proof. intro r. exists [WmSync]. split; [reflexivity|]. constructor; [reflexivity|constructor]. Qed.

Ltac rle_same := apply e2_rle_same; reflexivity.
Ltac rle_step := first [ apply e2_rle_refl | rle_same | eapply e2_rle_trans; [eassumption|] ].

Lemma e2_rle_chunk_seek : forall r o, e2_rle r (wm_raw_chunk_seek r o).
Proof. intros r o. apply e2_rle_same. apply wm_raw_chunk_seek_log. Qed.

Lemma e2_rle_file_header : forall r, e2_rle r (wm_wr_file_header r).
Proof.
  intro r. unfold wm_wr_file_header.
  assert (H : e2_rle r (wm_bk_fwrite (wm_bk_fseek r 0) (wm_file_header_bytes (wm_fend r)))).
  { eapply e2_rle_trans; [|apply e2_rle_fwrite]. rle_same. }
  destruct (wm_fpos r =? 0); (eapply e2_rle_trans; [exact H|rle_same]).
Qed.
Lemma e2_rle_close : forall r, e2_rle r (wm_raw_close r).
Proof. exact e2_rle_file_header. Qed.

Lemma e2_rle_wr_header : forall r h, e2_rle r (fst (wm_raw_wr_header r h)).
Proof.
  intros r h. unfold wm_raw_wr_header. cbn [fst].
  set (r1 := if wm_offset r =? wm_fpos r then r else wm_bk_fseek (wm_invalidate r) (wm_offset r)).
  assert (L1 : e2_rle r r1) by (subst r1; destruct (wm_offset r =? wm_fpos r); [apply e2_rle_refl|rle_same]).
  eapply e2_rle_trans; [exact L1|]. eapply e2_rle_trans; [apply e2_rle_fwrite|]. rle_same.
Qed.

Lemma e2_rle_rd_header : forall r, e2_rle r (wm_raw_rd_header r).
Proof. intro r. apply e2_rle_same. apply wm_raw_rd_header_log. Qed.

Lemma e2_rle_wr_payload : forall r n p, e2_rle r (wm_raw_wr_payload r n p).
Proof.
  intros r n p. unfold wm_raw_wr_payload.
  pose proof (e2_rle_rd_header r) as Hrd. set (r1 := wm_raw_rd_header r) in *.
  destruct (wm_fault r1); [exact Hrd|]. eapply e2_rle_trans; [exact Hrd|].
  destruct (n =? 0).
  - destruct (wm_fend r1 <=? wm_fpos r1); [rle_same|apply e2_rle_refl].
  - set (r2 := if N.of_nat (length p) <? fm_payload_length (wm_hdr r1) then wm_set_fault r1 else r1).
    assert (L2 : e2_rle r1 r2) by (subst r2; destruct (N.of_nat (length p) <? fm_payload_length (wm_hdr r1)); [rle_same|apply e2_rle_refl]).
    eapply e2_rle_trans; [exact L2|]. eapply e2_rle_trans; [apply e2_rle_fwrite|]. eapply e2_rle_trans; [apply e2_rle_fwrite|].
    match goal with |- e2_rle _ (if ?c then _ else _) => destruct c end; [rle_same|apply e2_rle_refl].
Qed.

Lemma e2_rle_raw_wr : forall r h p, e2_rle r (fst (wm_raw_wr r h p)).
Proof.
  intros r h p. unfold wm_raw_wr. pose proof (e2_rle_wr_header r h) as H1.
  destruct (wm_raw_wr_header r h) as [r1 h1]. cbn [fst] in *.
  eapply e2_rle_trans; [exact H1|]. eapply e2_rle_trans; [apply e2_rle_wr_payload|]. rle_same.
Qed.

Lemma e2_rle_update_item_head : forall r head next, e2_rle r (fst (wm_update_item_head r head next)).
Proof.
  intros r head next. unfold wm_update_item_head. destruct (wm_ck_offset head =? 0); [apply e2_rle_refl|].
  pose proof (e2_rle_wr_header (wm_raw_chunk_seek r (wm_ck_offset head)) (wm_hdr_set_next (wm_ck_hdr head) (wm_ck_offset next))) as H.
  destruct (wm_raw_wr_header _ _) as [r2 h2]. cbn [fst] in *.
  eapply e2_rle_trans; [apply e2_rle_chunk_seek|]. eapply e2_rle_trans; [exact H|]. apply e2_rle_chunk_seek.
Qed.

(* raw_wr followed by the link update: the pattern of every chunk append *)
Lemma e2_rle_wr_link : forall r h p head off,
  e2_rle r (fst (let '(r1, h1) := wm_raw_wr r h p in wm_update_item_head r1 head {| wm_ck_offset := off; wm_ck_hdr := h1 |})).
Proof.
  intros r h p head off. pose proof (e2_rle_raw_wr r h p) as H1. destruct (wm_raw_wr r h p) as [r1 h1]. cbn [fst] in H1.
  eapply e2_rle_trans; [exact H1|]. apply e2_rle_update_item_head.
Qed.

(* ---- WmCore ---- *)
Lemma e2_ble_refl : forall b, e2_ble b b.
Proof. intro b. apply e2_rle_refl. Qed.
Lemma e2_ble_trans : forall a b c, e2_ble a b -> e2_ble b c -> e2_ble a c.
Proof. intros a b c. apply e2_rle_trans. Qed.
Lemma e2_ble_fault : forall b, e2_ble b (wm_b_fault b).
Proof. intro b. unfold e2_ble. rle_same. Qed.

Lemma e2_ble_track_wr_def : forall b id ty, e2_ble b (wm_track_wr_def b id ty).
Proof.
  intros b id ty. unfold wm_track_wr_def, e2_ble.
  pose proof (e2_rle_wr_link (wm_b_raw b) (wm_mk_hdr (wm_ck_offset (wm_b_signal_head b)) (fm_track_tag ty JLS_TRACK_CHUNK_DEF) id 0) []
                (wm_b_signal_head b) (wm_raw_chunk_tell (wm_b_raw b))) as H.
  destruct (wm_raw_wr _ _ _) as [r1 h1]. destruct (wm_update_item_head r1 _ _) as [r2 sh]. cbn [fst] in H. exact H.
Qed.

Lemma e2_ble_track_wr_head : forall b id t, e2_ble b (fst (wm_track_wr_head b id t)).
Proof.
  intros b id t. unfold wm_track_wr_head, e2_ble. destruct (wm_ck_offset (wm_tk_head t) =? 0).
  - pose proof (e2_rle_wr_link (wm_b_raw b)
                  (wm_mk_hdr (wm_ck_offset (wm_b_signal_head b)) (fm_track_tag (wm_tk_type t) JLS_TRACK_CHUNK_HEAD) id SIZEOF_track_head)
                  (wm_head_payload (wm_tk_offsets t)) (wm_b_signal_head b) (wm_raw_chunk_tell (wm_b_raw b))) as H.
    destruct (wm_raw_wr _ _ _) as [r1 h1]. destruct (wm_update_item_head r1 _ _) as [r2 sh]. cbn [fst] in H |- *. exact H.
  - cbn [fst wm_b_raw wm_b_set_raw].
    eapply e2_rle_trans; [apply e2_rle_chunk_seek|]. eapply e2_rle_trans; [apply e2_rle_wr_payload|]. apply e2_rle_chunk_seek.
Qed.

Lemma e2_ble_track_update : forall b id t level pos, e2_ble b (fst (wm_track_update b id t level pos)).
Proof.
  intros b id t level pos. unfold wm_track_update. destruct (wm_get_off (wm_tk_offsets t) level =? 0).
  - apply e2_ble_track_wr_head.
  - apply e2_ble_refl.
Qed.

Lemma e2_ble_core_wr_data : forall b id t payload plen, e2_ble b (fst (wm_core_wr_data b id t payload plen)).
Proof.
  intros b id t payload plen. unfold wm_core_wr_data.
  pose proof (e2_rle_wr_link (wm_b_raw b)
                (wm_mk_hdr (wm_ck_offset (wm_tk_data_head t)) (fm_track_tag (wm_tk_type t) JLS_TRACK_CHUNK_DATA) (wm_meta id 0) plen)
                payload (wm_tk_data_head t) (wm_raw_chunk_tell (wm_b_raw b))) as H.
  destruct (wm_raw_wr _ _ _) as [r1 h1]. destruct (wm_update_item_head r1 _ _) as [r2 dh]. cbn [fst] in H.
  match goal with |- e2_ble _ (fst (if ?c then _ else _)) => destruct c end.
  - eapply e2_ble_trans; [|apply e2_ble_track_wr_head]. exact H.
  - exact H.
Qed.

Lemma e2_ble_core_wr_summary : forall b id t level payload plen, e2_ble b (fst (wm_core_wr_summary b id t level payload plen)).
Proof.
  intros b id t level payload plen. unfold wm_core_wr_summary.
  pose proof (e2_rle_wr_link (wm_b_raw b)
                (wm_mk_hdr (wm_ck_offset (wm_get_chunk (wm_tk_summary_head t) level)) (fm_track_tag (wm_tk_type t) JLS_TRACK_CHUNK_SUMMARY) (wm_meta id level) plen)
                payload (wm_get_chunk (wm_tk_summary_head t) level) (wm_raw_chunk_tell (wm_b_raw b))) as H.
  destruct (wm_raw_wr _ _ _) as [r1 h1]. destruct (wm_update_item_head r1 _ _) as [r2 nh]. cbn [fst] in H |- *. exact H.
Qed.

Lemma e2_ble_core_wr_index : forall b id t level payload plen, e2_ble b (fst (wm_core_wr_index b id t level payload plen)).
Proof.
  intros b id t level payload plen. unfold wm_core_wr_index.
  pose proof (e2_rle_wr_link (wm_b_raw b)
                (wm_mk_hdr (wm_ck_offset (wm_get_chunk (wm_tk_index_head t) level)) (fm_track_tag (wm_tk_type t) JLS_TRACK_CHUNK_INDEX) (wm_meta id level) plen)
                payload (wm_get_chunk (wm_tk_index_head t) level) (wm_raw_chunk_tell (wm_b_raw b))) as H.
  destruct (wm_raw_wr _ _ _) as [r1 h1]. destruct (wm_update_item_head r1 _ _) as [r2 nh]. cbn [fst] in H.
  eapply e2_ble_trans; [|apply e2_ble_track_update]. exact H.
Qed.

Lemma e2_ble_core_wr_end : forall b, e2_ble b (wm_core_wr_end b).
Proof.
  intro b. unfold wm_core_wr_end. pose proof (e2_rle_raw_wr (wm_b_raw b) (wm_mk_hdr 0 JLS_TAG_END 0 0) []) as H.
  destruct (wm_raw_wr _ _ _) as [r1 h1]. cbn [fst] in H. exact H.
Qed.

(* ---- WmTs ---- *)
Definition e2_tle (x x' : wm_tx) : Prop := e2_ble (wm_tx_base x) (wm_tx_base x').

Lemma e2_tle_commit : forall fuel id close level x, e2_tle x (wm_ts_commit fuel id close level x).
Proof.
  induction fuel as [|fu IH]; intros id close level x; cbn [wm_ts_commit]; [apply e2_ble_fault|].
  destruct (wm_ts_get (wm_tx_ts x) level) as [lv|]; [|apply e2_ble_refl].
  destruct (wm_tl_nidx lv =? 0); [apply e2_ble_refl|].
  destruct (negb close && (JLS_SUMMARY_LEVEL_COUNT <=? level + 1)); [apply e2_ble_fault|].
  cbv zeta.
  match goal with |- context [wm_core_wr_index ?b ?i ?t ?l ?p ?n] => pose proof (e2_ble_core_wr_index b i t l p n) as H1; destruct (wm_core_wr_index b i t l p n) as [b1 t1] end.
  cbn [fst] in H1.
  match goal with |- context [wm_core_wr_summary ?b ?i ?t ?l ?p ?n] => pose proof (e2_ble_core_wr_summary b i t l p n) as H2; destruct (wm_core_wr_summary b i t l p n) as [b2 t2] end.
  cbn [fst] in H2.
  unfold e2_tle. cbn [wm_tx_set_ts wm_tx_base].
  match goal with |- e2_ble _ (wm_tx_base ?X) => assert (H3 : e2_ble b2 (wm_tx_base X)) end.
  { match goal with |- context [match ?m with Some up => _ | None => _ end] => destruct m as [up|] end; [|apply e2_ble_refl].
    match goal with |- context [if ?c then _ else _] => destruct c end; [apply (IH id close (level + 1))|apply e2_ble_refl]. }
  eapply e2_ble_trans; [exact H1|]. eapply e2_ble_trans; [exact H2|exact H3].
Qed.

Lemma e2_tle_add : forall id x ts off se, e2_tle x (wm_ts_add id x ts off se).
Proof.
  intros id x ts off se. unfold wm_ts_add. generalize wm_level_count. intro fu. destruct (wm_ts_dec (wm_tx_ts x) <=? 1); [apply e2_ble_fault|].
  destruct (wm_ts_get _ 1) as [lv|]; [|apply e2_ble_fault].
  match goal with |- context [if ?c then _ else _] => destruct c end; [|apply e2_ble_refl].
  match goal with |- e2_tle _ (wm_ts_commit ?f ?i ?c ?l ?y) => exact (e2_tle_commit f i c l y) end.
Qed.

Lemma e2_tle_close : forall id x, e2_tle x (wm_ts_close id x).
Proof.
  intros id x. unfold wm_ts_close. generalize wm_close_levels. generalize wm_level_count. intros fu l. revert x.
  induction l as [|lv l IH]; intro x; cbn [fold_left]; [apply e2_ble_refl|].
  eapply e2_ble_trans; [apply (e2_tle_commit fu id true lv x)|apply IH].
Qed.

(* ---- WmFsr ---- *)
Section E2_NT_FSR.
Variable summ1 : N -> list N -> wm_sentry.
Variable summN : bool -> list wm_sentry -> wm_sentry.

Definition e2_fle (x x' : wm_fx) : Prop := e2_ble (wm_fx_base x) (wm_fx_base x').
Lemma e2_fle_refl : forall x, e2_fle x x.
Proof. intro x. apply e2_ble_refl. Qed.
Lemma e2_fle_trans : forall a b c, e2_fle a b -> e2_fle b c -> e2_fle a c.
Proof. intros a b c. apply e2_ble_trans. Qed.

Lemma e2_fle_wr_summary : forall fuel d level x, e2_fle x (wm_fsr_wr_summary summN fuel d level x).
Proof.
  induction fuel as [|fu IH]; intros d level x; cbn [wm_fsr_wr_summary]; [apply e2_ble_fault|].
  destruct (wm_f_get_level (wm_fx_fsr x) level) as [lv|]; [|apply e2_ble_fault].
  match goal with |- context [if ?c then x else _] => destruct c end; [apply e2_ble_refl|].
  cbv zeta.
  match goal with |- context [let '(b1, t1) := ?E in _] => assert (H1 : e2_ble (wm_fx_base x) (fst E)); [|destruct E as [b1 t1]] end.
  { destruct (wm_fl_nidx lv =? 0); [apply e2_ble_refl|apply e2_ble_core_wr_index]. }
  cbn [fst] in H1.
  match goal with |- context [wm_core_wr_summary ?b ?i ?t ?l ?p ?n] => pose proof (e2_ble_core_wr_summary b i t l p n) as H2; destruct (wm_core_wr_summary b i t l p n) as [b2 t2] end.
  cbn [fst] in H2.
  assert (H12 : e2_ble (wm_fx_base x) b2) by (eapply e2_ble_trans; eassumption).
  destruct (JLS_SUMMARY_LEVEL_COUNT <=? level + 1).
  { unfold e2_fle. cbn [wm_fx_fault wm_fx_base]. eapply e2_ble_trans; [exact H12|apply e2_ble_fault]. }
  match goal with |- e2_fle _ (match wm_f_get_level (wm_fx_fsr ?X4) level with _ => _ end) => assert (H4 : e2_ble b2 (wm_fx_base X4)) end.
  { match goal with |- context [match ?m with Some up => _ | None => _ end] => destruct m as [up|] end; [|apply e2_ble_refl].
    match goal with |- context [if ?c then _ else _] => destruct c end; [|apply e2_ble_refl].
    match goal with |- e2_ble _ (wm_fx_base (wm_fsr_wr_summary _ _ _ _ ?y)) => exact (IH d (level + 1) y) end. }
  match goal with |- e2_fle _ (match ?m with Some _ => _ | None => _ end) => destruct m end;
    unfold e2_fle; cbn [wm_fx_set_fsr wm_fx_base]; (eapply e2_ble_trans; [exact H12|exact H4]).
Qed.

Lemma e2_fle_summary1 : forall d pos samples x, e2_fle x (wm_fsr_summary1 summ1 summN d pos samples x).
Proof.
  intros d pos samples x. unfold wm_fsr_summary1. generalize wm_level_count. intro fu.
  destruct (wm_f_get_level _ 1) as [dst|]; [|apply e2_ble_fault].
  match goal with |- context [if ?c then _ else _] => destruct c end; [|apply e2_ble_refl].
  match goal with |- e2_fle _ (wm_fsr_wr_summary _ ?f ?d ?l ?y) => exact (e2_fle_wr_summary f d l y) end.
Qed.

Lemma e2_fle_wr_data : forall d x, e2_fle x (wm_fsr_wr_data summ1 summN d x).
Proof.
  intros d x. unfold wm_fsr_wr_data. destruct (wm_f_count (wm_fx_fsr x) =? 0); [apply e2_ble_refl|]. cbv zeta.
  match goal with |- context [let '(x1, pos1) := ?E in _] => assert (H1 : e2_fle x (fst E)); [|destruct E as [x1 pos1]] end.
  { match goal with |- context [if ?c then (x, 0) else _] => destruct c end; [apply e2_ble_refl|].
    match goal with |- context [wm_core_wr_data ?b ?i ?t ?p ?n] => pose proof (e2_ble_core_wr_data b i t p n) as H; destruct (wm_core_wr_data b i t p n) as [b1 t1] end.
    exact H. }
  cbn [fst] in H1. unfold e2_fle. cbn [wm_fx_set_fsr wm_fx_base].
  eapply e2_ble_trans; [exact H1|]. apply e2_fle_summary1.
Qed.

Lemma e2_fle_summary_close : forall d x level, e2_fle x (wm_fsr_summary_close summN d x level).
Proof.
  intros d x level. unfold wm_fsr_summary_close. generalize wm_level_count. intro fu.
  destruct (wm_f_get_level (wm_fx_fsr x) level); [|apply e2_ble_refl].
  apply (e2_fle_trans _ (wm_fsr_wr_summary summN fu d level x)); [apply e2_fle_wr_summary|apply e2_ble_refl].
Qed.

Lemma e2_fle_close : forall d x, e2_fle x (wm_fsr_close summ1 summN d x).
Proof.
  intros d x. unfold wm_fsr_close.
  match goal with |- e2_fle _ (fold_left _ _ ?X1) => assert (H1 : e2_fle x X1) end.
  { destruct (wm_f_alloc (wm_fx_fsr x)); [|apply e2_ble_refl]. unfold e2_fle. cbn [wm_fx_set_fsr wm_fx_base]. apply e2_fle_wr_data. }
  eapply e2_fle_trans; [exact H1|]. generalize wm_fsr_close_levels. intro l.
  match goal with |- e2_fle ?A _ => generalize A end. clear H1.
  induction l as [|lv l IH]; intro y; cbn [fold_left]; [apply e2_ble_refl|].
  eapply e2_fle_trans; [apply e2_fle_summary_close|apply IH].
Qed.

Lemma e2_fle_wr_inner : forall fuel d x data n, e2_fle x (wm_fsr_wr_inner summ1 summN fuel d x data n).
Proof.
  induction fuel as [|fu IH]; intros d x data n; cbn [wm_fsr_wr_inner].
  - destruct (n =? 0); [apply e2_ble_refl|apply e2_ble_fault].
  - destruct (n =? 0); [apply e2_ble_refl|]. cbv zeta.
    eapply e2_fle_trans; [|apply IH].
    match goal with |- context [if ?c then _ else _] => destruct c end; [|apply e2_ble_refl].
    match goal with |- e2_fle _ (wm_fsr_wr_data _ _ ?d ?y) => exact (e2_fle_wr_data d y) end.
Qed.

Lemma e2_fle_gap_loop : forall fuel d x skip bs, e2_fle x (wm_fsr_gap_loop summ1 summN fuel d x skip bs).
Proof.
  induction fuel as [|fu IH]; intros d x skip bs; cbn [wm_fsr_gap_loop].
  - destruct (skip =? 0); [apply e2_ble_refl|apply e2_ble_fault].
  - destruct (skip =? 0); [apply e2_ble_refl|]. cbv zeta.
    eapply e2_fle_trans; [|apply IH]. apply e2_fle_wr_inner.
Qed.

Lemma e2_fle_data : forall d x sid samples, e2_fle x (wm_fsr_data summ1 summN d x sid samples).
Proof.
  intros d x sid samples. unfold wm_fsr_data. destruct (N.of_nat (length samples) =? 0); [apply e2_ble_refl|]. cbv zeta.
  match goal with |- context [wm_fx_set_fsr x ?F1] => set (x1 := wm_fx_set_fsr x F1) end.
  assert (H1 : e2_fle x x1) by apply e2_ble_refl.
  destruct (_ =? _)%Z; [eapply e2_fle_trans; [exact H1|apply e2_fle_wr_inner]|].
  destruct (_ <? _)%Z.
  - destruct (_ <=? _)%Z; [exact H1|]. eapply e2_fle_trans; [exact H1|apply e2_fle_wr_inner].
  - eapply e2_fle_trans; [exact H1|]. eapply e2_fle_trans; [apply e2_fle_gap_loop|apply e2_fle_wr_inner].
Qed.

(* ---- WriterModel ---- *)
Definition e2_sle (st st' : wm_state) : Prop := e2_ble (wm_st_base st) (wm_st_base st').
Lemma e2_sle_refl : forall st, e2_sle st st.
Proof. intro st. apply e2_ble_refl. Qed.
Lemma e2_sle_trans : forall a b c, e2_sle a b -> e2_sle b c -> e2_sle a c.
Proof. intros a b c. apply e2_ble_trans. Qed.

Lemma e2_sle_user_data : forall st u, e2_sle st (fst (wm_api_user_data st u)).
Proof.
  intros st u. unfold wm_api_user_data. destruct (3 <? ud_stype u); [apply e2_ble_refl|]. cbv zeta.
  match goal with |- context [wm_raw_wr ?r ?h ?p] =>
    pose proof (e2_rle_wr_link r h p (wm_b_ud_head (wm_st_base st)) (wm_raw_chunk_tell (wm_b_raw (wm_st_base st)))) as H;
    destruct (wm_raw_wr r h p) as [r1 h1] end.
  destruct (wm_update_item_head r1 _ _) as [r2 uh]. cbn [fst] in H |- *. exact H.
Qed.

Lemma e2_sle_source_def : forall st d, e2_sle st (fst (wm_api_source_def st d)).
Proof.
  intros st d. unfold wm_api_source_def. destruct (JLS_SOURCE_COUNT <=? so_id d); [apply e2_ble_refl|].
  destruct (existsb _ _); [apply e2_ble_refl|]. destruct (negb _); [apply e2_ble_refl|]. cbv zeta.
  match goal with |- context [wm_raw_wr ?r ?h ?p] =>
    pose proof (e2_rle_wr_link r h p (wm_b_source_head (wm_st_base st)) (wm_raw_chunk_tell (wm_b_raw (wm_st_base st)))) as H;
    destruct (wm_raw_wr r h p) as [r1 h1] end.
  destruct (wm_update_item_head r1 _ _) as [r2 sh]. cbn [fst] in H |- *. exact H.
Qed.

Lemma e2_ble_def_track : forall b id ty, e2_ble b (fst (wm_def_track b id ty)).
Proof.
  intros b id ty. unfold wm_def_track. eapply e2_ble_trans; [apply e2_ble_track_wr_def|apply e2_ble_track_wr_head].
Qed.

Lemma e2_sle_signal_def : forall st d0, e2_sle st (fst (wm_api_signal_def st d0)).
Proof.
  intros st d0. unfold wm_api_signal_def.
  destruct (JLS_SIGNAL_COUNT <=? sg_id d0); [apply e2_ble_refl|].
  destruct (JLS_SOURCE_COUNT <=? sg_src d0); [apply e2_ble_refl|].
  destruct (negb (existsb _ _)); [apply e2_ble_refl|].
  destruct (wm_find_sig st (sg_id d0)); [apply e2_ble_refl|].
  destruct (negb (_ || _)); [apply e2_ble_refl|].
  destruct (negb (_ && _)); [apply e2_ble_refl|].
  destruct (negb (wm_dt_valid _)); [apply e2_ble_refl|].
  destruct (wm_sig_align d0) as [d|]; [|apply e2_ble_refl].
  destruct (_ && _); [apply e2_ble_refl|]. cbv zeta.
  match goal with |- context [wm_raw_wr ?r ?h ?p] =>
    pose proof (e2_rle_wr_link r h p (wm_b_signal_head (wm_st_base st)) (wm_raw_chunk_tell (wm_b_raw (wm_st_base st)))) as H;
    destruct (wm_raw_wr r h p) as [r1 h1] end.
  destruct (wm_update_item_head r1 _ _) as [r2 sh]. cbn [fst] in H.
  set (b1 := wm_b_set_signal_head (wm_b_set_raw (wm_st_base st) r2) sh).
  assert (H1 : e2_ble (wm_st_base st) b1) by exact H.
  destruct (sg_type d =? JLS_SIGNAL_TYPE_FSR).
  - pose proof (e2_ble_def_track b1 (sg_id d) JLS_TRACK_TYPE_FSR) as T1. destruct (wm_def_track b1 _ _) as [b2 tf]. cbn [fst] in T1.
    pose proof (e2_ble_def_track b2 (sg_id d) JLS_TRACK_TYPE_ANNOTATION) as T2. destruct (wm_def_track b2 _ _) as [b3 ta]. cbn [fst] in T2.
    pose proof (e2_ble_def_track b3 (sg_id d) JLS_TRACK_TYPE_UTC) as T3. destruct (wm_def_track b3 _ _) as [b4 tu]. cbn [fst] in T3.
    unfold e2_sle. cbn [fst wm_st_base].
    eapply e2_ble_trans; [exact H1|]. eapply e2_ble_trans; [exact T1|]. eapply e2_ble_trans; [exact T2|exact T3].
  - pose proof (e2_ble_def_track b1 (sg_id d) JLS_TRACK_TYPE_VSR) as T1. destruct (wm_def_track b1 _ _) as [b2 tv]. cbn [fst] in T1.
    pose proof (e2_ble_def_track b2 (sg_id d) JLS_TRACK_TYPE_ANNOTATION) as T2. destruct (wm_def_track b2 _ _) as [b3 ta]. cbn [fst] in T2.
    unfold e2_sle. cbn [fst wm_st_base].
    eapply e2_ble_trans; [exact H1|]. eapply e2_ble_trans; [exact T1|exact T2].
Qed.

Lemma e2_sle_omit : forall st sig en, e2_sle st (fst (wm_api_fsr_omit_data st sig en)).
Proof.
  intros st sig en. unfold wm_api_fsr_omit_data.
  destruct (wm_signal_validate_typed st sig JLS_SIGNAL_TYPE_FSR) as [rc os]. destruct rc; [|apply e2_ble_refl].
  destruct os as [s|]; [|apply e2_ble_refl]. destruct (wm_sg_fsr s); [apply e2_ble_refl|apply e2_ble_fault].
Qed.

Lemma e2_sle_ts_write : forall st sig s (ts : wm_ts) t h payload key se (setf : wm_signal -> wm_track -> option wm_ts -> wm_signal),
  e2_sle st
    (fst (let b := wm_st_base st in let r := wm_b_raw b in let offset := wm_raw_chunk_tell r in
          let '(r1, h1) := wm_raw_wr r h payload in
          let '(r2, dh) := wm_update_item_head r1 (wm_tk_data_head t) {| wm_ck_offset := offset; wm_ck_hdr := h1 |} in
          let '(b1, t1) := wm_track_update (wm_b_set_raw b r2) sig (wm_tk_set_data_head t dh) 0 offset in
          let x := wm_ts_add sig {| wm_tx_base := b1; wm_tx_tk := t1; wm_tx_ts := ts |} key offset se in
          (wm_put_sig st (wm_tx_base x) (setf s (wm_tx_tk x) (Some (wm_tx_ts x))), 0))).
Proof.
  intros st sig s ts t h payload key se setf. cbv zeta.
  pose proof (e2_rle_wr_link (wm_b_raw (wm_st_base st)) h payload (wm_tk_data_head t) (wm_raw_chunk_tell (wm_b_raw (wm_st_base st)))) as H.
  destruct (wm_raw_wr _ _ _) as [r1 h1]. destruct (wm_update_item_head r1 _ _) as [r2 dh]. cbn [fst] in H.
  match goal with |- context [wm_track_update ?b ?i ?t ?l ?p] => pose proof (e2_ble_track_update b i t l p) as H2; destruct (wm_track_update b i t l p) as [b1 t1] end.
  cbn [fst] in H2 |- *. unfold e2_sle. cbn [wm_put_sig wm_st_base].
  apply (e2_ble_trans _ (wm_b_set_raw (wm_st_base st) r2)); [exact H|]. eapply e2_ble_trans; [exact H2|].
  match goal with |- e2_ble _ (wm_tx_base (wm_ts_add ?i ?x ?k ?o ?e)) => exact (e2_tle_add i x k o e) end.
Qed.

Lemma e2_sle_annotation : forall st sig a, e2_sle st (fst (wm_api_annotation st sig a)).
Proof.
  intros st sig a. unfold wm_api_annotation.
  destruct (wm_signal_validate st sig) as [rc os]. destruct rc; [|apply e2_ble_refl].
  destruct os as [s|]; [|apply e2_ble_refl].
  destruct (256 <=? an_type a); [apply e2_ble_refl|]. destruct (256 <=? an_stype a); [apply e2_ble_refl|].
  destruct (negb _); [apply e2_ble_refl|].
  destruct (wm_sg_anno s) as [ts|]; [|apply e2_ble_fault].
  apply (e2_sle_ts_write st sig s ts (wm_sg_tk_anno s) _ _ _ _ wm_sg_set_anno).
Qed.

Lemma e2_sle_utc : forall st sig sid utc, e2_sle st (fst (wm_api_utc st sig sid utc)).
Proof.
  intros st sig sid utc. unfold wm_api_utc.
  destruct (wm_signal_validate_typed st sig JLS_SIGNAL_TYPE_FSR) as [rc os]. destruct rc; [|apply e2_ble_refl].
  destruct os as [s|]; [|apply e2_ble_refl].
  destruct (wm_sg_utc s) as [ts|]; [|apply e2_ble_fault].
  apply (e2_sle_ts_write st sig s ts (wm_sg_tk_utc s) _ _ _ _ wm_sg_set_utc).
Qed.

Lemma e2_sle_flush : forall st, e2_sle st (fst (wm_api_flush st)).
Proof. intro st. unfold wm_api_flush, e2_sle, e2_ble. cbn [fst wm_st_set_base wm_st_base wm_b_set_raw wm_b_raw]. apply e2_rle_flush. Qed.

Lemma e2_sle_fsr : forall st sig sid samples, e2_sle st (fst (wm_api_fsr summ1 summN st sig sid samples)).
Proof.
  intros st sig sid samples. unfold wm_api_fsr.
  destruct (wm_signal_validate_typed st sig JLS_SIGNAL_TYPE_FSR) as [rc os]. destruct rc; [|apply e2_ble_refl].
  destruct os as [s|]; [|apply e2_ble_refl].
  destruct (wm_sg_fsr s) as [f|]; [|apply e2_ble_fault].
  unfold e2_sle. cbn [fst wm_put_sig wm_st_base].
  match goal with |- e2_ble _ (wm_fx_base (wm_fsr_data _ _ ?d ?x ?i ?sm)) => exact (e2_fle_data d x i sm) end.
Qed.

Lemma e2_sle_close_signal : forall st id, e2_sle st (wm_close_signal summ1 summN st id).
Proof.
  intros st id. unfold wm_close_signal. destruct (wm_find_sig st id) as [s|]; [|apply e2_ble_refl].
  match goal with |- context [let '(b1, s1) := ?E in _] => assert (H1 : e2_ble (wm_st_base st) (fst E)); [|destruct E as [b1 s1]] end.
  { destruct (wm_sg_fsr s) as [f|]; [|apply e2_ble_refl]. cbn [fst].
    match goal with |- e2_ble _ (wm_fx_base (wm_fsr_close _ _ ?d ?x)) => exact (e2_fle_close d x) end. }
  cbn [fst] in H1.
  match goal with |- context [let '(b2, s2) := ?E in _] => assert (H2 : e2_ble b1 (fst E)); [|destruct E as [b2 s2]] end.
  { destruct (wm_sg_anno s1) as [ts|]; [|apply e2_ble_refl]. cbn [fst].
    match goal with |- e2_ble _ (wm_tx_base (wm_ts_close ?i ?x)) => exact (e2_tle_close i x) end. }
  cbn [fst] in H2.
  match goal with |- context [let '(b3, s3) := ?E in _] => assert (H3 : e2_ble b2 (fst E)); [|destruct E as [b3 s3]] end.
  { destruct (wm_sg_utc s2) as [ts|]; [|apply e2_ble_refl]. cbn [fst].
    match goal with |- e2_ble _ (wm_tx_base (wm_ts_close ?i ?x)) => exact (e2_tle_close i x) end. }
  cbn [fst] in H3. unfold e2_sle. cbn [wm_put_sig wm_st_base].
  eapply e2_ble_trans; [exact H1|]. eapply e2_ble_trans; [exact H2|exact H3].
Qed.

Lemma e2_sle_close : forall st, e2_sle st (wm_api_close summ1 summN st).
Proof.
  intro st. unfold wm_api_close. cbv zeta.
  assert (H1 : forall l st0, e2_sle st0 (fold_left (wm_close_signal summ1 summN) l st0)).
  { induction l as [|id l IH]; intro st0; cbn [fold_left]; [apply e2_ble_refl|].
    eapply e2_sle_trans; [apply e2_sle_close_signal|apply IH]. }
  eapply e2_sle_trans; [apply (H1 wm_signal_ids st)|].
  unfold e2_sle, e2_ble. cbn [wm_st_set_base wm_st_base wm_b_set_raw wm_b_raw].
  eapply e2_rle_trans; [apply e2_ble_core_wr_end|apply e2_rle_close].
Qed.

Lemma e2_sle_step : forall st o, e2_sle st (fst (wm_step_rc summ1 summN st o)).
Proof.
  intros st o. destruct o; cbn [wm_step_rc].
  - apply e2_sle_source_def.
  - apply e2_sle_signal_def.
  - apply e2_sle_fsr.
  - apply e2_sle_omit.
  - apply e2_sle_annotation.
  - apply e2_sle_utc.
  - apply e2_sle_user_data.
  - apply e2_sle_flush.
Qed.

Lemma e2_sle_steps : forall p st rcs, e2_sle st (fst (wm_steps summ1 summN st p rcs)).
Proof.
  induction p as [|o p IH]; intros st rcs; cbn [wm_steps]; [apply e2_ble_refl|].
  pose proof (e2_sle_step st o) as H. destruct (wm_step_rc summ1 summN st o) as [st1 rc]. cbn [fst] in H.
  eapply e2_sle_trans; [exact H|apply IH].
Qed.
End E2_NT_FSR.

Lemma e2_sle_open : e2_sle wm_state0 wm_api_open.
Proof.
  unfold wm_api_open.
  pose proof (e2_sle_user_data wm_state0 {| ud_meta := 0; ud_stype := JLS_STORAGE_TYPE_INVALID; ud_data := [] |}) as H1.
  destruct (wm_api_user_data wm_state0 _) as [st1 rc1]. cbn [fst] in H1.
  pose proof (e2_sle_source_def st1 source0) as H2. destruct (wm_api_source_def st1 source0) as [st2 rc2]. cbn [fst] in H2.
  pose proof (e2_sle_signal_def st2 wm_signal0_raw) as H3. destruct (wm_api_signal_def st2 wm_signal0_raw) as [st3 rc3]. cbn [fst] in H3.
  eapply e2_sle_trans; [exact H1|]. eapply e2_sle_trans; [exact H2|exact H3].
Qed.

Lemma e2_sle_trunc_first : forall st, e2_sle wm_state0 st -> e2_trunc_first (wm_st_log st).
Proof.
  intros st (l & L & Hn). unfold wm_st_log. rewrite L.
  change (wm_rlog (wm_b_raw (wm_st_base wm_state0))) with [WmWrite 0 (wm_file_header_bytes 0); WmTrunc 0].
  unfold e2_trunc_first.
  replace (l ++ [WmWrite 0 (wm_file_header_bytes 0); WmTrunc 0]) with ((l ++ [WmWrite 0 (wm_file_header_bytes 0)]) ++ [WmTrunc 0])
    by (rewrite <- app_assoc; reflexivity).
  rewrite removelast_last. apply Forall_app. split; [exact Hn|]. constructor; [reflexivity|constructor].
Qed.

(* every log of the writer model, with or without jls_wr_close *)
Theorem e2_steps_trunc_first : forall summ1 summN p,
  e2_trunc_first (wm_st_log (fst (wm_steps summ1 summN wm_api_open p []))).
Proof.
  intros. apply e2_sle_trunc_first. eapply e2_sle_trans; [apply e2_sle_open|apply e2_sle_steps].
Qed.

Theorem e2_run_trunc_first : forall summ1 summN p,
  e2_trunc_first (wm_st_log (fst (wm_run_full summ1 summN p))).
Proof.
  intros. apply e2_sle_trunc_first. unfold wm_run_full.
  pose proof (e2_sle_steps summ1 summN p wm_api_open []) as H.
  destruct (wm_steps summ1 summN wm_api_open p []) as [st rcs]. cbn [fst] in *.
  eapply e2_sle_trans; [apply e2_sle_open|]. eapply e2_sle_trans; [exact H|apply e2_sle_close].
Qed.
