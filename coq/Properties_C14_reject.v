(* C14, corollary users rely on: A REJECTED CALL WRITES NOTHING AND LEAVES THE WRITER AS IT WAS.

   On the byte-exact model of the synchronous writer (WmRaw / WmCore / WmTs / WmFsr / WriterModel: raw.c, core.c,
   track.c, wr_ts.c, wr_fsr.c, writer.c; tied to the C by the byte-for-byte comparison of write logs and return
   codes, tools/props/WM.py).  One call = one Spec.wop (WSrc WSig WFsr WOmit WAnno WUtc WUd WFlush);
   wm_step_rc summ1 summN st o = (new state, return code of the C call); wm_st_log = the backend log (every
   truncate / write / fsync, newest first); summ1 / summN = arbitrary summary oracles.

   The statements need NO invariant: they hold for every model state, in particular for every state reachable by
   jls_wr_open followed by any calls (C14_rejected_call_reachable), faulted or not.  "The writer as it was" is plain
   equality of the WHOLE model state: file position and size, current-chunk cache, the log, the three list heads, the
   defined source ids, every signal's definition, four tracks (head chunk, head table, data/index/summary heads), FSR
   block buffer + omit flag + summary levels, annotation / utc pyramids, and the fault flag.  No scratch field is
   exempt.  (What the model does not carry and the C does touch on a rejected call: signal_info[id].signal_def and
   source_info[id].source_def are overwritten with the rejected arguments and their strings are saved in the 1 MiB
   string block, core.buf is reset - none of it reaches the file or a later return code, see WriterModel.v.)

   Classes of (op, error): ALL of them - every non-zero code the model's calls can return (C14_reject_codes:
   PARAMETER_INVALID, ALREADY_EXISTS, TOO_BIG, NOT_FOUND, NOT_SUPPORTED) comes from a check that precedes the first
   backend call.  There is NO refutation witness on the model.  The C's error returns that FOLLOW a backend write
   (every ROE after jls_raw_wr in writer.c, wr_ts.c, wr_fsr.c, core.c, track.c) need an I/O error, an allocation
   failure or pyramid level 16; the model has no return code for these, it sets its sticky fault flag
   (C14_late_error_is_fault: hand-built state, not replayable).  Hence the tie to the C holds for runs whose final
   state has wm_st_fault = false, as for the other C14 writer theorems.
   One C rejection the model does not have: jls_wr_fsr_data returns PARAMETER_INVALID when sample_id >
   INT64_MAX - data_length - samples_per_data (wr_fsr.c); it also precedes every write and every state change.
   Proofs: WmReject.v. *)
From Coq Require Import NArith ZArith List Bool.
From JLS Require Import Generated CrcDefs Spec Format WmRaw WmCore WmTs WmFsr WriterModel WmProofs WmReject.
Import ListNotations.
Local Open Scope N_scope.

(* A call that returns a non-zero code leaves the backend log exactly as it was: no write, no truncate, no fsync.
   Any state, any call, any oracles. *)
Theorem C14_rejected_call_writes_nothing :
  forall (summ1 : N -> list N -> wm_sentry) (summN : bool -> list wm_sentry -> wm_sentry) (st : wm_state) (o : wop),
  snd (wm_step_rc summ1 summN st o) <> 0 ->
  wm_st_log (fst (wm_step_rc summ1 summN st o)) = wm_st_log st.
Proof. exact wmr_rejected_log. Qed.
Print Assumptions C14_rejected_call_writes_nothing.

(* ... and the whole writer state is the one it was given (every field, no exception). *)
Theorem C14_rejected_call_changes_nothing :
  forall (summ1 : N -> list N -> wm_sentry) (summN : bool -> list wm_sentry -> wm_sentry) (st : wm_state) (o : wop),
  snd (wm_step_rc summ1 summN st o) <> 0 ->
  fst (wm_step_rc summ1 summN st o) = st.
Proof. exact wmr_rejected_same. Qed.
Print Assumptions C14_rejected_call_changes_nothing.

(* The reachable form: after jls_wr_open and any program p, a rejected call o gives back the same state, the same
   log, and running p ++ [o] ends where p ended. *)
Theorem C14_rejected_call_reachable :
  forall (summ1 : N -> list N -> wm_sentry) (summN : bool -> list wm_sentry -> wm_sentry) (p : list wop) (o : wop),
  let st := fst (wm_steps summ1 summN wm_api_open p []) in
  snd (wm_step_rc summ1 summN st o) <> 0 ->
  fst (wm_step_rc summ1 summN st o) = st /\
  wm_st_log (fst (wm_step_rc summ1 summN st o)) = wm_st_log st /\
  fst (wm_steps summ1 summN wm_api_open (p ++ [o]) []) = st.
Proof. exact wmr_reach_rejected. Qed.
Print Assumptions C14_rejected_call_reachable.

(* [wmr_reach] (jls_wr_open, then any calls) is exactly "the state after some program". *)
Theorem C14_reject_reachable_is_program :
  forall (summ1 : N -> list N -> wm_sentry) (summN : bool -> list wm_sentry -> wm_sentry) (st : wm_state),
  wmr_reach summ1 summN st -> exists p, st = fst (wm_steps summ1 summN wm_api_open p []).
Proof. exact wmr_reach_is_prog. Qed.
Print Assumptions C14_reject_reachable_is_program.

(* The per-call view used by the harness (wm_step = the backend calls of ONE API call): a rejected call makes none. *)
Theorem C14_rejected_call_no_backend_call :
  forall (summ1 : N -> list N -> wm_sentry) (summN : bool -> list wm_sentry -> wm_sentry) (st : wm_state) (o : wop),
  snd (wm_step_rc summ1 summN st o) <> 0 ->
  wm_step summ1 summN st o = (wm_st_clear_log st, []).
Proof. exact wmr_rejected_entries. Qed.
Print Assumptions C14_rejected_call_no_backend_call.

(* A rejected call does not touch the fault flag either. *)
Theorem C14_rejected_call_keeps_fault :
  forall (summ1 : N -> list N -> wm_sentry) (summN : bool -> list wm_sentry -> wm_sentry) (st : wm_state) (o : wop),
  snd (wm_step_rc summ1 summN st o) <> 0 ->
  wm_st_fault (fst (wm_step_rc summ1 summN st o)) = wm_st_fault st.
Proof. exact wmr_rejected_fault. Qed.
Print Assumptions C14_rejected_call_keeps_fault.

(* Contrapositive: a call that changed anything - a fortiori one that wrote - returned 0. *)
Theorem C14_changing_call_returned_zero :
  forall (summ1 : N -> list N -> wm_sentry) (summN : bool -> list wm_sentry -> wm_sentry) (st : wm_state) (o : wop),
  fst (wm_step_rc summ1 summN st o) <> st -> snd (wm_step_rc summ1 summN st o) = 0.
Proof. exact wmr_changed_accepted. Qed.
Print Assumptions C14_changing_call_returned_zero.

(* The return code is the explicit function [wmr_code] (WmReject.v: the C's checks in the C's order) ... *)
Theorem C14_reject_code_spec :
  forall (summ1 : N -> list N -> wm_sentry) (summN : bool -> list wm_sentry -> wm_sentry) (st : wm_state) (o : wop),
  snd (wm_step_rc summ1 summN st o) = wmr_code st o.
Proof. exact wmr_step_code. Qed.
Print Assumptions C14_reject_code_spec.

(* ... which reads only the defined source ids, the defined signals and the arguments: never the file, the log, the
   list heads (first statement), nor anything else when the definitions agree (second statement; the signals' track
   and buffer state is in wm_st_sigs, but wmr_code reads only the id and the signal type of each). *)
Theorem C14_reject_code_ignores_file :
  forall (st : wm_state) (b : wm_base) (o : wop), wmr_code (wm_st_set_base st b) o = wmr_code st o.
Proof. exact wmr_code_base. Qed.
Print Assumptions C14_reject_code_ignores_file.

Theorem C14_reject_code_same_definitions :
  forall (st st' : wm_state) (o : wop),
  wm_st_srcs st' = wm_st_srcs st -> wm_st_sigs st' = wm_st_sigs st -> wmr_code st' o = wmr_code st o.
Proof. exact wmr_code_same_defs. Qed.
Print Assumptions C14_reject_code_same_definitions.

(* The codes the model's calls can return. *)
Theorem C14_reject_codes :
  forall (st : wm_state) (o : wop),
  In (wmr_code st o) [0; JLS_ERROR_PARAMETER_INVALID; JLS_ERROR_ALREADY_EXISTS; JLS_ERROR_TOO_BIG; JLS_ERROR_NOT_FOUND;
                      JLS_ERROR_NOT_SUPPORTED].
Proof. exact wmr_code_range. Qed.
Print Assumptions C14_reject_codes.

(* Every class of rejection (WmrIdRange WmrDuplicate WmrNoSource WmrNoSignal WmrWrongType WmrBadArgs
   WmrStringTooBig; wmr_classify = WmrAccepted iff the code is 0): the call is rejected and the state is unchanged. *)
Theorem C14_reject_every_class :
  forall (summ1 : N -> list N -> wm_sentry) (summN : bool -> list wm_sentry -> wm_sentry) (st : wm_state) (o : wop),
  wmr_classify st o <> WmrAccepted ->
  snd (wm_step_rc summ1 summN st o) <> 0 /\ fst (wm_step_rc summ1 summN st o) = st.
Proof. exact wmr_class_rejected_same. Qed.
Print Assumptions C14_reject_every_class.

Theorem C14_reject_class_accepted :
  forall (st : wm_state) (o : wop), wmr_classify st o = WmrAccepted <-> wmr_code st o = 0.
Proof. exact wmr_classify_accepted. Qed.
Print Assumptions C14_reject_class_accepted.

(* Whole programs: erase the rejected calls of p (wmr_erase walks p and keeps the calls that return 0).  jls_wr_open;
   p; jls_wr_close and jls_wr_open; erased p; jls_wr_close end in the same state with the same backend log, and
   every call of the erased program returns 0. *)
Theorem C14_rejected_calls_erasable :
  forall (summ1 : N -> list N -> wm_sentry) (summN : bool -> list wm_sentry -> wm_sentry) (p : list wop),
  fst (wm_run_full summ1 summN (wmr_erase summ1 summN wm_api_open p)) = fst (wm_run_full summ1 summN p) /\
  wm_run summ1 summN (wmr_erase summ1 summN wm_api_open p) = wm_run summ1 summN p /\
  forallb (N.eqb 0) (snd (wm_run_full summ1 summN (wmr_erase summ1 summN wm_api_open p))) = true.
Proof. exact wmr_run_erase. Qed.
Print Assumptions C14_rejected_calls_erasable.

(* The premises are satisfiable on a non-trivial state.  Script (Spec constructors, WmReject.v):
     wmr_ex_pre      = [WSrc src 3; WSig FSR u8 signal 5 on source 3; WFsr 5 100 <70 samples 0..69>; WAnno 5 ts=3 string]
   all accepted, no fault; the log grows 21 (open) -> 25 -> 47 -> 56 (2 DATA chunks of 32 samples) -> 61 entries.
   Nine calls rejected in that state by nine different checks (codes 17 16 5 3 5 17 16 5 5):
     wmr_ex_rejected = [duplicate signal 5; annotation on undefined signal 9; user data with storage type 4;
                        utc on the VSR signal 0; fsr on signal id 300; duplicate source 3; signal on undefined
                        source 7; annotation with storage type 0; FSR signal with sample rate 0 (after align)]
   each leaves the state as it was and makes no backend call. *)
Example C14_reject_example :
  let st := wmr_ex_state in
  wmr_reach wm_zero_summ1 wm_zero_summN st /\
  snd (wm_steps wm_zero_summ1 wm_zero_summN wm_api_open wmr_ex_pre []) = [0; 0; 0; 0] /\
  wm_st_fault st = false /\
  length (wm_st_log wm_api_open) = 21%nat /\ length (wm_st_log st) = 61%nat /\
  map (fun o => snd (wm_step_rc wm_zero_summ1 wm_zero_summN st o)) wmr_ex_rejected =
    [JLS_ERROR_ALREADY_EXISTS; JLS_ERROR_NOT_FOUND; JLS_ERROR_PARAMETER_INVALID; JLS_ERROR_NOT_SUPPORTED;
     JLS_ERROR_PARAMETER_INVALID; JLS_ERROR_ALREADY_EXISTS; JLS_ERROR_NOT_FOUND; JLS_ERROR_PARAMETER_INVALID;
     JLS_ERROR_PARAMETER_INVALID] /\
  map (wmr_classify st) wmr_ex_rejected =
    [WmrDuplicate; WmrNoSignal; WmrBadArgs; WmrWrongType; WmrIdRange; WmrDuplicate; WmrNoSource; WmrBadArgs; WmrBadArgs] /\
  (forall o, In o wmr_ex_rejected ->
     fst (wm_step_rc wm_zero_summ1 wm_zero_summN st o) = st /\
     wm_step wm_zero_summ1 wm_zero_summN st o = (wm_st_clear_log st, [])).
Proof. exact wmr_ex_facts. Qed.
Print Assumptions C14_reject_example.

(* The limit of the statement.  A C error that surfaces AFTER writes is not a return code of the model but its fault
   flag.  wmr_deep_state = the example state with the annotation pyramid of signal 5 one record short of filling
   levels 1..15 (decimate factor 10: it stands for 10^15 - 1 annotations; built by hand, NOT a replay).  The next
   annotation appends the DATA chunk and the INDEX / SUMMARY chunks of levels 1..14 (116 backend calls), then
   commit(15) needs level 16, where the C returns JLS_ERROR_PARAMETER_INVALID from index_alloc: the model's code is
   0 and the fault flag goes up.  Runs with wm_st_fault = false (all replayable ones) are not concerned. *)
Example C14_late_error_is_fault :
  let st := wmr_deep_state in
  let r := wm_step_rc wm_zero_summ1 wm_zero_summN st (WAnno 5 (wmr_ex_anno 2)) in
  wm_st_fault st = false /\ wm_st_log st = wm_st_log wmr_ex_state /\
  snd r = 0 /\ wm_st_fault (fst r) = true /\
  length (wm_st_log (fst r)) = (length (wm_st_log st) + 116)%nat.
Proof. exact wmr_late_error_is_fault_witness. Qed.
Print Assumptions C14_late_error_is_fault.
