(* Proofs about the interleaving model of the threaded writer (TwrModel.v).
   All theorems are by induction over tw_reach: every schedule, every program set that is
   well formed (tw_wf), every capacity.  fx = false is the protocol as it is in /repo,
   fx = true the repaired one (see TwrModel.v). *)
From Coq Require Import NArith List Bool Lia Arith.
From JLS Require Import Generated MrbModel MrbProofs TwrModel.
Import ListNotations.
Local Open Scope N_scope.

Ltac tw_proj :=
  cbn [tw_q tw_fault tw_mM tw_mP tw_mE tw_flag tw_signalled tw_quit tw_drop tw_opened tw_send_id tw_proc_id tw_now
       tw_prods tw_cpc tw_held tw_accepted tw_applied tw_trace
       tw_set_q tw_set_fault tw_set_mM tw_set_mP tw_set_mE tw_set_flag tw_set_signalled tw_set_quit tw_set_drop
       tw_set_opened tw_set_send_id tw_set_proc_id tw_set_now tw_set_prods tw_set_cpc tw_set_held tw_set_accepted
       tw_set_applied tw_set_trace tw_log tw_setp tw_with_pc tw_pt_pc tw_pt_calls tw_pt_idx tw_tick fst snd] in *.

(* ---------- lists ---------- *)
Lemma tw_upd_length : forall (A : Type) (l : list A) i v, length (tw_upd l i v) = length l.
Proof. induction l as [|x r IH]; intros [|i] v; cbn; auto. Qed.

Lemma tw_nth_upd_eq : forall (A : Type) (l : list A) i v x,
  nth_error l i = Some x -> nth_error (tw_upd l i v) i = Some v.
Proof. induction l as [|y r IH]; intros [|i] v x H; cbn in *; try discriminate; eauto. Qed.

Lemma tw_nth_upd_neq : forall (A : Type) (l : list A) i j v,
  i <> j -> nth_error (tw_upd l i v) j = nth_error l j.
Proof.
  induction l as [|y r IH]; intros [|i] [|j] v H; cbn; auto; try congruence; try (apply IH; congruence).
Qed.

(* ---------- the part of the state that local code between calls does not touch ---------- *)
Definition tw_frame (s s' : tw_state) : Prop :=
  tw_q s' = tw_q s /\ tw_fault s' = tw_fault s /\ tw_mM s' = tw_mM s /\ tw_mP s' = tw_mP s /\ tw_mE s' = tw_mE s /\
  tw_flag s' = tw_flag s /\ tw_signalled s' = tw_signalled s /\ tw_opened s' = tw_opened s /\
  tw_send_id s' = tw_send_id s /\ tw_proc_id s' = tw_proc_id s /\ tw_now s' = tw_now s /\ tw_prods s' = tw_prods s /\
  tw_cpc s' = tw_cpc s /\ tw_held s' = tw_held s /\ tw_accepted s' = tw_accepted s /\ tw_applied s' = tw_applied s.

Lemma tw_frame_refl : forall s, tw_frame s s.
Proof. intros s. repeat split. Qed.
Lemma tw_frame_trans : forall a b c, tw_frame a b -> tw_frame b c -> tw_frame a c.
Proof. unfold tw_frame. intros a b c H1 H2. intuition congruence. Qed.

Ltac tw_frame_tac := unfold tw_frame; tw_proj; repeat split; reflexivity.

(* control locations at which a call starts / a finished thread rests *)
Definition tw_bpc (pc : tw_ppc) : bool :=
  match pc with TwPDone | TwPDefLock _ | TwPSendLock _ | TwPTicketLock | TwPHJoin => true | _ => false end.

Lemma tw_begin_frame : forall cs i s idx s' p',
  tw_begin i s cs idx = (s', p') -> tw_frame s s' /\ tw_quit s' = tw_quit s /\ tw_bpc (tw_pt_pc p') = true.
Proof.
  induction cs as [|c r IH]; intros i s idx s' p' H; cbn [tw_begin] in H.
  - injection H as <- <-. split; [tw_frame_tac|]. split; reflexivity.
  - destruct c.
    + injection H as <- <-. split; [tw_frame_tac|]. split; reflexivity.
    + destruct (tw_is_fsr k && tw_drop s).
      * injection H as <- <-. split; [tw_frame_tac|]. split; reflexivity.
      * unfold tw_send_begin in H. injection H as <- <-. split; [tw_frame_tac|]. split; reflexivity.
    + injection H as <- <-. split; [tw_frame_tac|]. split; reflexivity.
    + apply IH in H. destruct H as (F & Q & B). split; [|split; [exact Q|exact B]].
      eapply tw_frame_trans; [|exact F]. tw_frame_tac.
    + destruct (Nat.ltb 1 (tw_nprod s)).
      * injection H as <- <-. split; [tw_frame_tac|]. split; reflexivity.
      * unfold tw_send_begin in H. injection H as <- <-. split; [tw_frame_tac|]. split; reflexivity.
Qed.

Lemma tw_ret_frame : forall i s p rc s' p',
  tw_ret i s p rc = (s', p') -> tw_frame s s' /\ tw_quit s' = tw_quit s /\ tw_bpc (tw_pt_pc p') = true.
Proof.
  intros i s p rc s' p' H. unfold tw_ret in H. destruct (tw_pt_calls p) as [|c r].
  - apply tw_begin_frame in H. exact H.
  - apply tw_begin_frame in H. destruct H as (F & Q & B). split; [|split; [exact Q|exact B]].
    eapply tw_frame_trans; [|exact F]. tw_frame_tac.
Qed.

(* locations a producer can be at after msg_send returned *)
Definition tw_dpc (pc : tw_ppc) : bool :=
  match pc with TwPFlushSleep _ _ _ | TwPJoin | TwPSigLock TwKClose => true | _ => tw_bpc pc end.

Lemma tw_send_done_frame : forall fx i s p k ok s' p',
  tw_send_done fx i s p k ok = (s', p') ->
  tw_frame s s' /\ tw_dpc (tw_pt_pc p') = true /\ tw_quit s' = tw_quit s.
Proof.
  intros fx i s p k ok s' p' H. unfold tw_send_done in H. destruct k as [|id mark|].
  - apply tw_ret_frame in H. destruct H as (F & Q & B). split; [exact F|]. split; [|exact Q].
    unfold tw_dpc; destruct (tw_pt_pc p'); auto; discriminate.
  - destruct (id <=? tw_proc_id (tw_log (TwEvNow (TwTProd i) (tw_now s)) s)).
    + apply tw_ret_frame in H. destruct H as (F & Q & B). split; [|split; [|exact Q]].
      * eapply tw_frame_trans; [|exact F]. tw_frame_tac.
      * unfold tw_dpc; destruct (tw_pt_pc p'); auto; discriminate.
    + injection H as <- <-. split; [tw_frame_tac|]. split; [reflexivity|reflexivity].
  - destruct (ok || negb fx) eqn:E.
    + injection H as <- <-. split; [tw_frame_tac|]. split; [reflexivity|reflexivity].
    + unfold tw_send_begin in H. injection H as <- <-. split; [tw_frame_tac|]. split; [reflexivity|reflexivity].
Qed.

(* ---------- mutual exclusion: owner field <-> control location ---------- *)
Section LockInv.
Variable own : tw_state -> option tw_tid.
Variable ph : tw_ppc -> bool.
Variable ch : tw_cctl -> bool.

Definition tw_LI (s : tw_state) : Prop :=
  (forall i, own s = Some (TwTProd i) <-> exists p, nth_error (tw_prods s) i = Some p /\ ph (tw_pt_pc p) = true) /\
  (own s = Some TwTCons <-> ch (tw_cpc s) = true).

Lemma tw_LI_pstep : forall s s' i p p', tw_LI s -> nth_error (tw_prods s) i = Some p ->
  tw_prods s' = tw_upd (tw_prods s) i p' -> tw_cpc s' = tw_cpc s ->
  own s' = (if ph (tw_pt_pc p') then Some (TwTProd i) else if ph (tw_pt_pc p) then None else own s) ->
  (ph (tw_pt_pc p') = true -> ph (tw_pt_pc p) = false -> own s = None) -> tw_LI s'.
Proof.
  intros s s' i p p' [HP HC] Hn Hpr Hc Ho Hfree.
  assert (Hi : ph (tw_pt_pc p) = true -> own s = Some (TwTProd i)).
  { intro E. apply HP. exists p. auto. }
  assert (Hi' : own s = Some (TwTProd i) -> ph (tw_pt_pc p) = true).
  { intro E. apply HP in E. destruct E as (p0 & E1 & E2). rewrite Hn in E1. injection E1 as <-. exact E2. }
  split.
  - intro j. rewrite Hpr. destruct (Nat.eq_dec i j) as [<-|Hne].
    + rewrite (tw_nth_upd_eq _ _ _ _ _ Hn). split.
      * intro E. exists p'. split; [reflexivity|]. rewrite Ho in E.
        destruct (ph (tw_pt_pc p')); [reflexivity|]. destruct (ph (tw_pt_pc p)) eqn:E2; [discriminate|].
        apply Hi' in E. congruence.
      * intros (p0 & E1 & E2). injection E1 as <-. rewrite Ho, E2. reflexivity.
    + rewrite (tw_nth_upd_neq _ _ _ _ _ Hne). rewrite <- HP. rewrite Ho.
      destruct (ph (tw_pt_pc p')) eqn:E1.
      * split; [intro E; injection E; congruence|]. intro E.
        destruct (ph (tw_pt_pc p)) eqn:E2; [rewrite (Hi eq_refl) in E; injection E; congruence|].
        rewrite (Hfree eq_refl eq_refl) in E. discriminate.
      * destruct (ph (tw_pt_pc p)) eqn:E2; [|tauto].
        split; [discriminate|]. intro E. rewrite (Hi eq_refl) in E. injection E; congruence.
  - rewrite Hc, <- HC, Ho. destruct (ph (tw_pt_pc p')) eqn:E1.
    + split; [discriminate|]. intro E.
      destruct (ph (tw_pt_pc p)) eqn:E2; [rewrite (Hi eq_refl) in E; discriminate|].
      rewrite (Hfree eq_refl eq_refl) in E. discriminate.
    + destruct (ph (tw_pt_pc p)) eqn:E2; [|tauto].
      split; [discriminate|]. intro E. rewrite (Hi eq_refl) in E. discriminate.
Qed.

Lemma tw_LI_cstep : forall s s', tw_LI s -> tw_prods s' = tw_prods s ->
  own s' = (if ch (tw_cpc s') then Some TwTCons else if ch (tw_cpc s) then None else own s) ->
  (ch (tw_cpc s') = true -> ch (tw_cpc s) = false -> own s = None) -> tw_LI s'.
Proof.
  intros s s' [HP HC] Hpr Ho Hfree. split.
  - intro j. rewrite Hpr, <- HP, Ho. destruct (ch (tw_cpc s')) eqn:E1.
    + split; [discriminate|]. intro E. destruct (ch (tw_cpc s)) eqn:E2.
      * assert (own s = Some TwTCons) by (apply HC; reflexivity). congruence.
      * rewrite (Hfree eq_refl eq_refl) in E. discriminate.
    + destruct (ch (tw_cpc s)) eqn:E2; [|tauto]. split; [discriminate|].
      assert (own s = Some TwTCons) by (apply HC; reflexivity). congruence.
  - rewrite Ho. destruct (ch (tw_cpc s')) eqn:E1; [tauto|].
    destruct (ch (tw_cpc s)) eqn:E2; [split; discriminate|]. rewrite HC. tauto.
Qed.

Lemma tw_LI_same : forall s s', tw_LI s -> tw_prods s' = tw_prods s -> tw_cpc s' = tw_cpc s -> own s' = own s -> tw_LI s'.
Proof. intros s s' [HP HC] E1 E2 E3. split; [intro j|]; rewrite ?E1, ?E2, E3; auto. Qed.

Lemma tw_LI_excl : forall s t1 t2, tw_LI s ->
  (match t1 with TwTCons => ch (tw_cpc s) = true | TwTProd i => exists p, nth_error (tw_prods s) i = Some p /\ ph (tw_pt_pc p) = true end) ->
  (match t2 with TwTCons => ch (tw_cpc s) = true | TwTProd i => exists p, nth_error (tw_prods s) i = Some p /\ ph (tw_pt_pc p) = true end) ->
  t1 = t2.
Proof.
  intros s t1 t2 [HP HC] H1 H2.
  assert (E1 : own s = Some t1) by (destruct t1; [apply HP|apply HC]; exact H1).
  assert (E2 : own s = Some t2) by (destruct t2; [apply HP|apply HC]; exact H2).
  congruence.
Qed.
End LockInv.

Definition tw_lock_inv (s : tw_state) : Prop :=
  tw_LI tw_mM tw_pholdsM tw_choldsM s /\ tw_LI tw_mP tw_pholdsP tw_choldsP s /\ tw_LI tw_mE tw_pholdsE tw_choldsE s.

Lemma tw_dpc_noholds : forall pc, tw_dpc pc = true ->
  tw_pholdsM pc = false /\ tw_pholdsP pc = false /\ tw_pholdsE pc = false.
Proof. destruct pc; cbn; intros; try discriminate; auto. Qed.
Lemma tw_bpc_dpc : forall pc, tw_bpc pc = true -> tw_dpc pc = true.
Proof. destruct pc; cbn; intros; try discriminate; auto. Qed.

Definition tw_LC (own : tw_state -> option tw_tid) (ph : tw_ppc -> bool) (s s1 : tw_state) (i : nat) (p p1 : tw_pthread) : Prop :=
  own s1 = (if ph (tw_pt_pc p1) then Some (TwTProd i) else if ph (tw_pt_pc p) then None else own s) /\
  (ph (tw_pt_pc p1) = true -> ph (tw_pt_pc p) = false -> own s = None).

Lemma tw_lock_pgen : forall s i p s1 p1, tw_lock_inv s -> nth_error (tw_prods s) i = Some p ->
  tw_prods s1 = tw_prods s -> tw_cpc s1 = tw_cpc s ->
  tw_LC tw_mM tw_pholdsM s s1 i p p1 -> tw_LC tw_mP tw_pholdsP s s1 i p p1 -> tw_LC tw_mE tw_pholdsE s s1 i p p1 ->
  tw_lock_inv (tw_setp s1 i p1).
Proof.
  intros s i p s1 p1 (LM & LP & LE) Hn Hp Hc (M1 & M2) (P1 & P2) (E1 & E2).
  split; [|split].
  - eapply tw_LI_pstep with (p := p) (p' := p1) (i := i); eauto; tw_proj; congruence.
  - eapply tw_LI_pstep with (p := p) (p' := p1) (i := i); eauto; tw_proj; congruence.
  - eapply tw_LI_pstep with (p := p) (p' := p1) (i := i); eauto; tw_proj; congruence.
Qed.

Lemma tw_free_none : forall o, tw_free o = true -> o = None.
Proof. destruct o; cbn; intros; [discriminate|reflexivity]. Qed.

(* unpack a frame fact into rewrites *)
Ltac tw_use_frame F :=
  let a := fresh "Fq" in let b := fresh "Ff" in let c := fresh "FM" in let d := fresh "FP" in let e := fresh "FE" in
  let f := fresh "Ffl" in let g := fresh "Fsg" in let h := fresh "Fop" in let i := fresh "Fsi" in let j := fresh "Fpi" in
  let k := fresh "Fnow" in let l := fresh "Fpr" in let m := fresh "Fcpc" in let n := fresh "Fh" in let o := fresh "Fac" in
  let p := fresh "Fap" in
  destruct F as (a & b & c & d & e & f & g & h & i & j & k & l & m & n & o & p); tw_proj.

Ltac tw_lc_solve Epc :=
  unfold tw_LC; tw_proj; rewrite ?Epc; cbn [tw_pholdsM tw_pholdsP tw_pholdsE tw_pt_pc];
  split; [try reflexivity; try congruence | intros; try discriminate; try congruence; auto].

Lemma tw_lock_same : forall s s', tw_lock_inv s -> tw_prods s' = tw_prods s -> tw_cpc s' = tw_cpc s ->
  tw_mM s' = tw_mM s -> tw_mP s' = tw_mP s -> tw_mE s' = tw_mE s -> tw_lock_inv s'.
Proof. intros s s' (A & B & C) ? ? ? ? ?. split; [|split]; eapply tw_LI_same; eauto. Qed.

Ltac tw_helper_case HS Epc frame_lemma s p :=
  match type of HS with
  | Some (tw_setp (fst ?X) _ (snd ?X)) = Some _ =>
    let s2 := fresh "s2" in let p2 := fresh "p2" in let EX := fresh "EX" in
    destruct X as [s2 p2] eqn:EX; injection HS as <-;
    let F := fresh "F" in let B := fresh "B" in
    pose proof (frame_lemma _ _ _ _ _ _ EX) as (F & _ & B)
  end.

Lemma tw_lock_pstep : forall fx s i p s', tw_lock_inv s -> nth_error (tw_prods s) i = Some p ->
  tw_pstep fx s i p = Some s' -> tw_lock_inv s'.
Proof.
  intros fx s i p s' HI Hn HS. unfold tw_pstep in HS.
  assert (Hdone : forall s1 s2 p2 k ok, tw_send_done fx i s1 p k ok = (s2, p2) ->
            tw_prods s1 = tw_prods s -> tw_cpc s1 = tw_cpc s ->
            tw_LC tw_mM tw_pholdsM s s1 i p (tw_with_pc p TwPJoin) -> tw_LC tw_mP tw_pholdsP s s1 i p (tw_with_pc p TwPJoin) ->
            tw_LC tw_mE tw_pholdsE s s1 i p (tw_with_pc p TwPJoin) -> tw_lock_inv (tw_setp s2 i p2)).
  { intros s1 s2 p2 k ok ED Hp Hc LM LP LE.
    pose proof (tw_send_done_frame _ _ _ _ _ _ _ _ ED) as (F & B & _).
    apply tw_dpc_noholds in B. destruct B as (B1 & B2 & B3). tw_use_frame F.
    apply tw_lock_pgen with (s := s) (p := p); auto; try congruence;
      [destruct LM as (L1 & L2)|destruct LP as (L1 & L2)|destruct LE as (L1 & L2)];
      unfold tw_LC; cbn [tw_with_pc tw_pt_pc tw_pholdsM tw_pholdsP tw_pholdsE] in *;
      rewrite ?B1, ?B2, ?B3; (split; [congruence|discriminate]). }
  destruct (tw_pt_pc p) eqn:Epc.
  - (* PStart *)
    destruct (Nat.eqb i 0 || tw_opened s); [|discriminate].
    destruct (tw_begin i _ (tw_pt_calls p) (tw_pt_idx p)) as [s2 p2] eqn:EB. injection HS as <-.
    pose proof (tw_begin_frame _ _ _ _ _ _ EB) as (F & _ & B). apply tw_bpc_dpc, tw_dpc_noholds in B. destruct B as (B1 & B2 & B3).
    tw_use_frame F.
    apply tw_lock_pgen with (s := s) (p := p); auto; try (destruct (Nat.eqb i 0); tw_proj; congruence);
      unfold tw_LC; rewrite ?B1, ?B2, ?B3, Epc; cbn [tw_pholdsM tw_pholdsP tw_pholdsE];
      (split; [destruct (Nat.eqb i 0); tw_proj; congruence|discriminate]).
  - (* PHJoin *)
    destruct (tw_others_done s i); [|discriminate]. unfold tw_send_begin in HS. injection HS as <-.
    apply tw_lock_pgen with (s := s) (p := p); auto; tw_lc_solve Epc.
  - (* PDefLock *)
    destruct (tw_free (tw_mP s)) eqn:Ef; [|discriminate]. injection HS as <-. apply tw_free_none in Ef.
    apply tw_lock_pgen with (s := s) (p := p); auto; tw_lc_solve Epc.
  - (* PDefUnlock *)
    destruct (tw_ret i _ p None) as [s2 p2] eqn:ER. injection HS as <-.
    pose proof (tw_ret_frame _ _ _ _ _ _ ER) as (F & _ & B). apply tw_bpc_dpc, tw_dpc_noholds in B. destruct B as (B1 & B2 & B3).
    tw_use_frame F.
    apply tw_lock_pgen with (s := s) (p := p); auto; unfold tw_LC; rewrite ?B1, ?B2, ?B3, Epc; cbn [tw_pholdsM tw_pholdsP tw_pholdsE];
      (split; [congruence|discriminate]).
  - (* PTicketLock *)
    destruct (tw_free (tw_mM s)) eqn:Ef; [|discriminate]. injection HS as <-. apply tw_free_none in Ef.
    apply tw_lock_pgen with (s := s) (p := p); auto; tw_lc_solve Epc.
  - (* PTicketUnlock *)
    unfold tw_send_begin in HS. injection HS as <-.
    apply tw_lock_pgen with (s := s) (p := p); auto; tw_lc_solve Epc.
  - (* PSendLock *)
    destruct (tw_free (tw_mM s)) eqn:Ef; [|discriminate]. apply tw_free_none in Ef.
    destruct (alloc_fixed (tw_q s) (len (tw_sd_msg c))) as [[q1 [a|]]|f].
    + destruct (fill_fast q1 a (tw_sd_msg c)) as [q2|f]; injection HS as <-.
      * apply tw_lock_pgen with (s := s) (p := p); auto; tw_lc_solve Epc.
      * eapply tw_lock_same; eauto.
    + injection HS as <-. apply tw_lock_pgen with (s := s) (p := p); auto; tw_lc_solve Epc.
    + injection HS as <-. eapply tw_lock_same; eauto.
  - (* PSendUnlock *)
    destruct ok; [|destruct (tw_sd_retry c)].
    + injection HS as <-. apply tw_lock_pgen with (s := s) (p := p); auto; tw_lc_solve Epc.
    + injection HS as <-. apply tw_lock_pgen with (s := s) (p := p); auto; tw_lc_solve Epc.
    + destruct (tw_send_done fx i _ p (tw_sd_k c) false) as [s2 p2] eqn:ED. injection HS as <-.
      eapply Hdone; [exact ED|reflexivity|reflexivity|tw_lc_solve Epc|tw_lc_solve Epc|tw_lc_solve Epc].
  - (* PSigLock *)
    destruct (tw_free (tw_mE s)) eqn:Ef; [|discriminate]. injection HS as <-. apply tw_free_none in Ef.
    apply tw_lock_pgen with (s := s) (p := p); auto; tw_lc_solve Epc.
  - (* PSigSignal *)
    injection HS as <-.
    match goal with |- tw_lock_inv (tw_setp ?X _ _) => set (s1 := X) end.
    assert (A1 : tw_prods s1 = tw_prods s) by (unfold s1; destruct (tw_cpc s); reflexivity).
    assert (A2 : tw_cpc s1 = tw_cpc s) by (unfold s1; destruct (tw_cpc s) eqn:E; tw_proj; congruence).
    assert (A3 : tw_mM s1 = tw_mM s) by (unfold s1; destruct (tw_cpc s); reflexivity).
    assert (A4 : tw_mP s1 = tw_mP s) by (unfold s1; destruct (tw_cpc s); reflexivity).
    assert (A5 : tw_mE s1 = tw_mE s) by (unfold s1; destruct (tw_cpc s); reflexivity).
    assert (A6 : tw_mE s = Some (TwTProd i)).
    { destruct HI as (_ & _ & (HE & _)). apply HE. exists p. rewrite Epc. auto. }
    apply tw_lock_pgen with (s := s) (p := p); auto; unfold tw_LC; rewrite Epc;
      cbn [tw_with_pc tw_pt_pc tw_pholdsM tw_pholdsP tw_pholdsE]; (split; [congruence|discriminate]).
  - (* PSigUnlock *)
    destruct (tw_send_done fx i _ p k true) as [s2 p2] eqn:ED. injection HS as <-.
    eapply Hdone; [exact ED|reflexivity|reflexivity|tw_lc_solve Epc|tw_lc_solve Epc|tw_lc_solve Epc].
  - (* PSendSleep *)
    injection HS as <-. apply tw_lock_pgen with (s := s) (p := p); auto; tw_lc_solve Epc.
  - (* PSendWake *)
    destruct (wake <=? tw_now s); [|discriminate]. destruct (tw_now s <=? tw_sd_stop c).
    + injection HS as <-. apply tw_lock_pgen with (s := s) (p := p); auto; tw_lc_solve Epc.
    + destruct (tw_send_done fx i _ p (tw_sd_k c) false) as [s2 p2] eqn:ED. injection HS as <-.
      eapply Hdone; [exact ED|reflexivity|reflexivity|tw_lc_solve Epc|tw_lc_solve Epc|tw_lc_solve Epc].
  - (* PFlushSleep *)
    injection HS as <-. apply tw_lock_pgen with (s := s) (p := p); auto; tw_lc_solve Epc.
  - (* PFlushWake *)
    destruct (wake <=? tw_now s); [|discriminate].
    assert (Hret : forall s1 rc s2 p2, tw_ret i s1 p rc = (s2, p2) -> tw_prods s1 = tw_prods s -> tw_cpc s1 = tw_cpc s ->
              tw_mM s1 = tw_mM s -> tw_mP s1 = tw_mP s -> tw_mE s1 = tw_mE s -> tw_lock_inv (tw_setp s2 i p2)).
    { intros s1 rc s2 p2 ER Hp Hc HM HP HE.
      pose proof (tw_ret_frame _ _ _ _ _ _ ER) as (F & _ & B). apply tw_bpc_dpc, tw_dpc_noholds in B. destruct B as (B1 & B2 & B3).
      tw_use_frame F.
      apply tw_lock_pgen with (s := s) (p := p); auto; try congruence; unfold tw_LC; rewrite ?B1, ?B2, ?B3, Epc;
        cbn [tw_pholdsM tw_pholdsP tw_pholdsE]; (split; [congruence|discriminate]). }
    destruct (stop <? tw_now s); [|destruct (id <=? tw_proc_id s)].
    + destruct (tw_ret i _ p (Some tw_ETIMEDOUT)) as [s2 p2] eqn:ER. injection HS as <-. eapply Hret; [exact ER|..]; reflexivity.
    + destruct (tw_ret i _ p (Some 0)) as [s2 p2] eqn:ER. injection HS as <-. eapply Hret; [exact ER|..]; reflexivity.
    + injection HS as <-. apply tw_lock_pgen with (s := s) (p := p); auto; tw_lc_solve Epc.
  - (* PJoin *)
    destruct (tw_cpc s) eqn:Ec; try discriminate.
    destruct (tw_ret i _ p (Some 0)) as [s2 p2] eqn:ER. injection HS as <-.
    pose proof (tw_ret_frame _ _ _ _ _ _ ER) as (F & _ & B). apply tw_bpc_dpc, tw_dpc_noholds in B. destruct B as (B1 & B2 & B3).
    tw_use_frame F.
    apply tw_lock_pgen with (s := s) (p := p); auto; try congruence; unfold tw_LC; rewrite ?B1, ?B2, ?B3, Epc;
      cbn [tw_pholdsM tw_pholdsP tw_pholdsE]; (split; [congruence|discriminate]).
  - discriminate.
Qed.

Lemma tw_lock_cgen : forall s s', tw_lock_inv s -> tw_prods s' = tw_prods s ->
  (tw_mM s' = (if tw_choldsM (tw_cpc s') then Some TwTCons else if tw_choldsM (tw_cpc s) then None else tw_mM s) /\
   (tw_choldsM (tw_cpc s') = true -> tw_choldsM (tw_cpc s) = false -> tw_mM s = None)) ->
  (tw_mP s' = (if tw_choldsP (tw_cpc s') then Some TwTCons else if tw_choldsP (tw_cpc s) then None else tw_mP s) /\
   (tw_choldsP (tw_cpc s') = true -> tw_choldsP (tw_cpc s) = false -> tw_mP s = None)) ->
  (tw_mE s' = (if tw_choldsE (tw_cpc s') then Some TwTCons else if tw_choldsE (tw_cpc s) then None else tw_mE s) /\
   (tw_choldsE (tw_cpc s') = true -> tw_choldsE (tw_cpc s) = false -> tw_mE s = None)) ->
  tw_lock_inv s'.
Proof.
  intros s s' (A & B & C) Hp (M1 & M2) (P1 & P2) (E1 & E2).
  split; [|split]; eapply tw_LI_cstep; eauto.
Qed.

Ltac tw_cg Ec := tw_proj; rewrite ?Ec; cbn [tw_choldsM tw_choldsP tw_choldsE];
  (split; [try reflexivity; try congruence|intros; try discriminate; try congruence; auto]).

Lemma tw_lock_cstep : forall s s', tw_lock_inv s -> tw_cstep s = Some s' -> tw_lock_inv s'.
Proof.
  intros s s' HI HS. unfold tw_cstep in HS.
  assert (HEown : tw_choldsE (tw_cpc s) = true -> tw_mE s = Some TwTCons).
  { destruct HI as (_ & _ & (_ & HE)). apply HE. }
  destruct (tw_cpc s) eqn:Ec.
  - destruct (tw_quit s); injection HS as <-; apply tw_lock_cgen with (s := s); auto; tw_cg Ec.
  - destruct (tw_free (tw_mE s)) eqn:Ef; [|discriminate]. apply tw_free_none in Ef.
    destruct (tw_flag s); injection HS as <-; apply tw_lock_cgen with (s := s); auto; tw_cg Ec.
  - injection HS as <-. apply tw_lock_cgen with (s := s); auto; tw_cg Ec.
  - destruct (tw_signalled s && tw_free (tw_mE s)) eqn:Ef; [|discriminate].
    apply andb_prop in Ef. destruct Ef as (_ & Ef). apply tw_free_none in Ef.
    destruct (tw_flag s); injection HS as <-; apply tw_lock_cgen with (s := s); auto; tw_cg Ec.
  - injection HS as <-. apply tw_lock_cgen with (s := s); auto; tw_cg Ec.
  - destruct (tw_free (tw_mM s)) eqn:Ef; [|discriminate]. apply tw_free_none in Ef.
    match type of HS with match ?X with _ => _ end = _ => destruct X as [s3|f] eqn:EX end.
    + injection HS as <-.
      assert (A : tw_prods s3 = tw_prods s /\ tw_mM s3 = Some TwTCons /\ tw_mP s3 = tw_mP s /\ tw_mE s3 = tw_mE s /\ tw_cpc s3 = tw_cpc s).
      { destruct (tw_held s) as [x|]; cbn [bind] in EX.
        - destruct (pop (tw_q s)) as [[q1 r1]|f1]; cbn [bind] in EX; [|discriminate]. tw_proj.
          destruct (peek q1) as [[q2 r2]|f2]; cbn [bind] in EX; [|discriminate]. injection EX as <-. tw_proj. auto.
        - tw_proj. destruct (peek (tw_q s)) as [[q2 r2]|f2]; cbn [bind] in EX; [|discriminate]. injection EX as <-. tw_proj. auto. }
      destruct A as (A1 & A2 & A3 & A4 & A5).
      apply tw_lock_cgen with (s := s); tw_proj; rewrite ?Ec; cbn [tw_choldsM tw_choldsP tw_choldsE]; auto;
        (split; [congruence|intros; try discriminate; auto]).
    + injection HS as <-. eapply tw_lock_same; eauto.
  - destruct (tw_held s); [|destruct (tw_quit s)]; injection HS as <-; apply tw_lock_cgen with (s := s); auto; tw_cg Ec.
  - destruct (tw_free (tw_mP s)) eqn:Ef; [|discriminate]. apply tw_free_none in Ef.
    destruct (tw_held s) as [[a sz]|].
    + destruct (read_msg (tw_q s) a sz) as [m|f]; injection HS as <-.
      * unfold tw_dispatch.
        destruct (tw_kind_of m =? 0); [|destruct (tw_kind_of m =? 1)];
          apply tw_lock_cgen with (s := s); auto; tw_cg Ec.
      * eapply tw_lock_same; eauto.
    + injection HS as <-. apply tw_lock_cgen with (s := s); auto; tw_cg Ec.
  - injection HS as <-. apply tw_lock_cgen with (s := s); auto; tw_cg Ec.
  - discriminate.
Qed.

Lemma tw_lock_init : forall cap progs, tw_lock_inv (tw_init cap progs).
Proof.
  intros cap progs. unfold tw_lock_inv, tw_LI, tw_init. tw_proj.
  assert (H : forall i p, nth_error (map (fun cs => tw_mk_pt TwPStart cs 0) progs) i = Some p -> tw_pt_pc p = TwPStart).
  { intros i p E. apply nth_error_In in E. apply in_map_iff in E. destruct E as (cs & <- & _). reflexivity. }
  repeat split; try discriminate; intros E; try discriminate;
    destruct E as (p & E1 & E2); apply H in E1; rewrite E1 in E2; discriminate.
Qed.

Lemma tw_lock_reach : forall fx cap progs s, tw_reach fx cap progs s -> tw_lock_inv s.
Proof.
  induction 1 as [|s t s' HR IH HS|s d HR IH].
  - apply tw_lock_init.
  - unfold tw_step in HS. destruct (tw_fault s); [discriminate|]. destruct t as [i|].
    + destruct (nth_error (tw_prods s) i) as [p|] eqn:En; [|discriminate]. eapply tw_lock_pstep; eauto.
    + eapply tw_lock_cstep; eauto.
  - eapply tw_lock_same; eauto.
Qed.

(* mutual exclusion: for each of the three mutexes, at most one thread is between its lock and its unlock *)
Lemma tw_mutex_excl : forall fx cap progs s m t1 t2, tw_reach fx cap progs s ->
  tw_in_crit s m t1 = true -> tw_in_crit s m t2 = true -> t1 = t2.
Proof.
  intros fx cap progs s m t1 t2 HR H1 H2. apply tw_lock_reach in HR. destruct HR as (LM & LP & LE).
  unfold tw_in_crit in *.
  assert (G : forall (own : tw_state -> option tw_tid) ph ch, tw_LI own ph ch s ->
     (match t1 with TwTCons => ch (tw_cpc s) | TwTProd i => match nth_error (tw_prods s) i with None => false | Some p => ph (tw_pt_pc p) end end) = true ->
     (match t2 with TwTCons => ch (tw_cpc s) | TwTProd i => match nth_error (tw_prods s) i with None => false | Some p => ph (tw_pt_pc p) end end) = true ->
     t1 = t2).
  { intros own ph ch LI G1 G2. eapply tw_LI_excl; [exact LI| |].
    - destruct t1 as [i|]; [|exact G1]. destruct (nth_error (tw_prods s) i) as [p|]; [exists p; auto|discriminate].
    - destruct t2 as [i|]; [|exact G2]. destruct (nth_error (tw_prods s) i) as [p|]; [exists p; auto|discriminate]. }
  destruct (m =? 0); [|destruct (m =? 1)].
  - apply (G _ _ _ LM).
    + destruct t1 as [i|]; [destruct (nth_error (tw_prods s) i)|]; exact H1.
    + destruct t2 as [i|]; [destruct (nth_error (tw_prods s) i)|]; exact H2.
  - apply (G _ _ _ LP).
    + destruct t1 as [i|]; [destruct (nth_error (tw_prods s) i)|]; exact H1.
    + destruct t2 as [i|]; [destruct (nth_error (tw_prods s) i)|]; exact H2.
  - apply (G _ _ _ LE).
    + destruct t1 as [i|]; [destruct (nth_error (tw_prods s) i)|]; exact H1.
    + destruct t2 as [i|]; [destruct (nth_error (tw_prods s) i)|]; exact H2.
Qed.

(* ---------- programs stay well formed ---------- *)
Lemma tw_nth_upd_inv : forall (A : Type) (l : list A) i j v q,
  nth_error (tw_upd l i v) j = Some q -> q = v \/ nth_error l j = Some q.
Proof.
  induction l as [|y r IH]; intros [|i] [|j] v q H; cbn in *; try discriminate; auto.
  - injection H as <-. auto.
  - eapply IH; eauto.
Qed.

(* case analysis of a producer step: one goal per path through tw_pstep, HS : Some <new state> = Some s' *)
Ltac tw_pcases HS :=
  repeat match type of HS with
    | (if ?c then _ else _) = Some _ => let E := fresh "Ec" in destruct c eqn:E
    | (match ?x with TwCDone => _ | _ => _ end) = Some _ => let E := fresh "Ecp" in destruct x eqn:E
    | (let '(_, _) := tw_send_begin _ _ _ _ in _) = Some _ => unfold tw_send_begin in HS
    | (match alloc_fixed ?a ?b with _ => _ end) = Some _ => let E := fresh "Eal" in destruct (alloc_fixed a b) as [[? [?|]]|?] eqn:E
    | (match fill_fast ?a ?b ?c with _ => _ end) = Some _ => let E := fresh "Efi" in destruct (fill_fast a b c) eqn:E
    end; try discriminate.
(* name the result of a helper (tw_begin / tw_ret / tw_send_done) and get its frame facts *)
Ltac tw_helper HS :=
  match type of HS with
  | Some (tw_setp (fst ?X) _ (snd ?X)) = Some _ =>
    let s2 := fresh "s2" in let p2 := fresh "p2" in let EX := fresh "EX" in
    destruct X as [s2 p2] eqn:EX; cbn [fst snd] in HS;
    let F := fresh "F" in let FQ := fresh "FQ" in let FB := fresh "FB" in
    first [ pose proof (tw_begin_frame _ _ _ _ _ _ EX) as (F & FQ & FB)
          | pose proof (tw_ret_frame _ _ _ _ _ _ EX) as (F & FQ & FB)
          | pose proof (tw_send_done_frame _ _ _ _ _ _ _ _ EX) as (F & FB & FQ) ]
  end.

(* case analysis of a consumer step *)
Ltac tw_ccases HS :=
  repeat match type of HS with
    | (if ?c then _ else _) = Some _ => let E := fresh "Ec" in destruct c eqn:E
    | (match tw_held ?s with _ => _ end) = Some _ => let E := fresh "Eh" in destruct (tw_held s) as [[ha hsz]|] eqn:E
    | (match read_msg ?a ?b ?c with _ => _ end) = Some _ => let E := fresh "Erd" in destruct (read_msg a b c) as [rm|rf] eqn:E
    end; try discriminate.

Lemma tw_cstep_lockM : forall s s3 s1,
  bind (match tw_held s with
        | None => Ok s1
        | Some _ => bind (pop (tw_q s)) (fun x => Ok (tw_log (TwEvPop TwTCons (snd x)) (tw_set_q s1 (fst x))))
        end)
       (fun s2 => bind (peek (tw_q s2)) (fun x => Ok (tw_set_held (tw_log (TwEvPeek TwTCons (snd x)) (tw_set_q s2 (fst x))) (snd x)))) = Ok s3 ->
  tw_q s1 = tw_q s ->
  exists (qa : mrb) (ra : option (N * N)) (qb : mrb) (rb : option (N * N)) (tr : list tw_ev),
    (match tw_held s return Prop with None => qa = tw_q s | Some _ => pop (tw_q s) = Ok (qa, ra) end) /\
    peek qa = Ok (qb, rb) /\ s3 = tw_set_held (tw_set_trace (tw_set_q s1 qb) tr) rb /\
    exists evs, tr = evs ++ tw_trace s1 /\
      Forall (fun e => match e with TwEvPop _ _ | TwEvPeek _ _ => True | _ => False end) evs.
Proof.
  intros s s3 s1 EX Eq. destruct (tw_held s) as [x|]; cbn [bind] in EX.
  - destruct (pop (tw_q s)) as [[q1 r1]|f1]; cbn [bind] in EX; [|discriminate]. tw_proj.
    destruct (peek q1) as [[q2 r2]|f2] eqn:EP; cbn [bind] in EX; [|discriminate]. injection EX as <-.
    exists q1, r1, q2, r2. eexists. split; [reflexivity|]. split; [exact EP|]. tw_proj. split; [reflexivity|].
    exists [TwEvPeek TwTCons r2; TwEvPop TwTCons r1]. split; [reflexivity|]. repeat constructor.
  - rewrite Eq in EX. destruct (peek (tw_q s)) as [[q2 r2]|f2] eqn:EP; cbn [bind] in EX; [|discriminate]. injection EX as <-.
    exists (tw_q s), None, q2, r2. eexists. split; [reflexivity|]. split; [exact EP|]. tw_proj. split; [reflexivity|].
    exists [TwEvPeek TwTCons r2]. split; [reflexivity|]. repeat constructor.
Qed.

Lemma tw_cstep_prods : forall s s', tw_cstep s = Some s' -> tw_prods s' = tw_prods s.
Proof.
  intros s s' HS. unfold tw_cstep in HS.
  destruct (tw_cpc s) eqn:Ecpc; tw_ccases HS;
    try (injection HS as <-; unfold tw_dispatch;
         repeat match goal with |- context [if ?c then _ else _] => destruct c end; reflexivity).
  match type of HS with match ?X with _ => _ end = _ => destruct X as [s3|f] eqn:EX end; injection HS as <-; [|reflexivity].
  apply tw_cstep_lockM in EX; [|reflexivity]. destruct EX as (qa & ra & qb & rb & tr & _ & _ & -> & _). reflexivity.
Qed.

(* ---------- the queue: exactly once, in order ---------- *)
Lemma tw_msgs_of_app : forall a b, tw_msgs_of (a ++ b) = tw_msgs_of a ++ tw_msgs_of b.
Proof. induction a as [|x r IH]; intros b; cbn; auto. destruct x; cbn; rewrite ?IH; auto. Qed.

Definition tw_cactive (pc : tw_cctl) : bool :=
  match pc with TwCLockM | TwCUnlockM | TwCLockP | TwCUnlockP => true | _ => false end.

Definition tw_fifo (cap : N) (s : tw_state) : Prop :=
  tw_fault s = None /\ (tw_cactive (tw_cpc s) = false -> tw_held s = None) /\
  exists es, Rep (tw_q s) es /\ count (tw_q s) = nlen es /\ size (tw_q s) = cap /\
    (forall x, tw_held s = Some x -> exists r, es = x :: r /\ fst x + snd x <= cap) /\
    tw_acc_msgs s = tw_processed s ++ tw_unprocessed s.

Definition tw_fifo_same (s s' : tw_state) : Prop :=
  tw_q s' = tw_q s /\ tw_fault s' = tw_fault s /\ tw_held s' = tw_held s /\ tw_cpc s' = tw_cpc s /\
  tw_accepted s' = tw_accepted s /\ tw_processed s' = tw_processed s.

Lemma tw_fifo_same_inv : forall cap s s', tw_fifo cap s -> tw_fifo_same s s' -> tw_fifo cap s'.
Proof.
  intros cap s s' (Hf & Hz & es & HR & HC & HS & HH & HA) (E1 & E2 & E3 & E4 & E5 & E6).
  split; [congruence|]. split; [rewrite E3, E4; exact Hz|]. exists es. rewrite E1, E3.
  split; [exact HR|]. split; [exact HC|]. split; [exact HS|]. split; [exact HH|].
  unfold tw_acc_msgs, tw_unprocessed, tw_cdone in *. rewrite ?E1, ?E3, ?E4, ?E5, ?E6. exact HA.
Qed.

Lemma tw_frame_fifo_same : forall s s', tw_frame s s' -> tw_fifo_same s s'.
Proof.
  intros s s' F. tw_use_frame F. unfold tw_fifo_same, tw_processed. repeat split; congruence.
Qed.

(* jls_mrb_alloc (as it is in /repo now) + copy of the message *)
Lemma tw_alloc_ok : forall q es m cap, Rep q es -> count q = nlen es -> size q = cap ->
  alloc_fixed q (len m) = Ok (q, None) \/
  exists q1 a q2, alloc_fixed q (len m) = Ok (q1, Some a) /\ fill_fast q1 a m = Ok q2 /\
    Rep q2 (es ++ [(a, len m)]) /\ count q2 = nlen (es ++ [(a, len m)]) /\ size q2 = cap /\ mrb_abs q2 = mrb_abs q ++ [m].
Proof.
  intros q es m cap HR HC HS. destruct (N.le_gt_cases (len m + 8) cap) as [Hu|Hbig].
  - assert (HU : usable (size q) (len m)) by (unfold usable; lia).
    destruct (alloc_usable q (len m) HU) as (_ & EA). rewrite EA.
    destruct (alloc_body_spec q es (len m) HR HU) as [(E & _)|(q1 & a & E & _)]; [left; exact E|right].
    destruct (alloc_fill_spec q es (len m) q1 a m HR HC HU E eq_refl)
      as ((R1 & C1) & (q2 & EF & R2 & C2 & S2 & A2) & S1 & _).
    exists q1, a, q2. split; [exact E|]. split.
    + rewrite fill_fast_eq; [exact EF|]. destruct R1 as (HL & _). exact HL.
    + split; [exact R2|]. split; [exact C2|]. split; [congruence|exact A2].
  - left. apply alloc_fixed_unusable. unfold usable. lia.
Qed.

Lemma tw_peek_ok : forall q es, Rep q es ->
  match es with
  | [] => peek q = Ok (q, None)
  | x :: r => exists q', peek q = Ok (q', Some x) /\ Rep q' es /\ count q' = count q /\ size q' = size q /\
                         mrb_abs q' = mrb_abs q /\ fst x + snd x <= size q
  end.
Proof.
  intros q es HR. pose proof (peek_spec q es HR) as HP. destruct es as [|x r]; [exact HP|].
  destruct HP as (q' & EP & HR' & Hb & Hc & Hs & _ & _ & Hlt). exists q'.
  split; [exact EP|]. split; [exact HR'|]. split; [exact Hc|]. split; [exact Hs|]. split; [|lia].
  rewrite (abs_Rep _ _ HR'), (abs_Rep _ _ HR), Hb. reflexivity.
Qed.

Lemma tw_pop_ok : forall q es, Rep q es -> count q = nlen es ->
  match es with
  | [] => pop q = Ok (q, None)
  | x :: r => exists q', pop q = Ok (q', Some x) /\ Rep q' r /\ count q' = nlen r /\ size q' = size q /\ mrb_abs q' = tl (mrb_abs q)
  end.
Proof.
  intros q es HR HC. pose proof (pop_spec q es HR HC) as HP. destruct es as [|x r]; [exact HP|].
  destruct HP as (q' & EP & HR' & Hc & Hb & Hs & _). exists q'.
  split; [exact EP|]. split; [exact HR'|]. split; [exact Hc|]. split; [exact Hs|].
  rewrite (abs_Rep _ _ HR'), (abs_Rep _ _ HR), Hb. reflexivity.
Qed.

Lemma tw_read_ok : forall q a sz r, Rep q ((a, sz) :: r) -> a + sz <= size q ->
  exists m, read_msg q a sz = Ok m /\ mrb_abs q = m :: tl (mrb_abs q).
Proof.
  intros q a sz r HR Hle. exists (slice (buf q) a sz). split; [apply read_msg_ok; exact Hle|].
  rewrite (abs_Rep _ _ HR). reflexivity.
Qed.

Lemma tw_fifo_same_setp : forall s s1 i p1, tw_fifo_same s s1 -> tw_fifo_same s (tw_setp s1 i p1).
Proof. intros s s1 i p1 H. exact H. Qed.

Lemma tw_fifo_same_trans : forall a b c, tw_fifo_same a b -> tw_fifo_same b c -> tw_fifo_same a c.
Proof. unfold tw_fifo_same. intros a b c H1 H2. intuition congruence. Qed.

Ltac tw_fs_direct :=
  unfold tw_fifo_same, tw_processed; tw_proj; rewrite ?tw_msgs_of_app; cbn [tw_msgs_of]; rewrite ?app_nil_r;
  repeat split; reflexivity.

Lemma tw_fifo_pstep : forall cap fx s i p s', tw_fifo cap s -> nth_error (tw_prods s) i = Some p ->
  tw_pstep fx s i p = Some s' -> tw_fifo cap s'.
Proof.
  intros cap fx s i p s' HI Hn HS. unfold tw_pstep in HS.
  destruct (tw_pt_pc p) eqn:Epc.
  7: { (* PSendLock *)
    destruct (tw_free (tw_mM s)); [|discriminate].
    destruct HI as (Hf & Hz & es & HR & HC & HS' & HH & HA).
    destruct (tw_alloc_ok _ _ (tw_sd_msg c) _ HR HC HS') as [EA|(q1 & a & q2 & EA & EF & R2 & C2 & S2 & A2)]; rewrite EA in HS.
    - injection HS as <-. split; [exact Hf|]. split; [exact Hz|]. exists es. tw_proj. auto.
    - rewrite EF in HS. injection HS as <-. split; [exact Hf|]. split; [exact Hz|].
      exists (es ++ [(a, len (tw_sd_msg c))]). tw_proj.
      split; [exact R2|]. split; [exact C2|]. split; [exact S2|]. split.
      + intros x Hx. destruct (HH x Hx) as (r & -> & Hb). exists (r ++ [(a, len (tw_sd_msg c))]). split; [reflexivity|exact Hb].
      + unfold tw_acc_msgs, tw_unprocessed, tw_cdone in *. tw_proj. rewrite map_app, HA, A2. cbn [map snd].
        rewrite <- app_assoc. f_equal.
        destruct (match tw_cpc s with TwCLockM | TwCUnlockP => match tw_held s with Some _ => true | None => false end | _ => false end) eqn:Ed; [|reflexivity].
        assert (Hne : exists x, tw_held s = Some x) by (destruct (tw_cpc s); try discriminate; destruct (tw_held s); try discriminate; eauto).
        destruct Hne as (x & Hx). destruct (HH x Hx) as (r & -> & _).
        rewrite (abs_Rep _ _ HR). reflexivity. }
  all: tw_pcases HS;
    try (tw_helper HS; injection HS as <-; eapply tw_fifo_same_inv; [exact HI|];
         apply tw_fifo_same_setp; eapply tw_fifo_same_trans; [|apply tw_frame_fifo_same; exact F];
         try (destruct (Nat.eqb i 0)); tw_fs_direct);
    try (injection HS as <-; eapply tw_fifo_same_inv; [exact HI|]; try (destruct (tw_cpc s)); tw_fs_direct).
Qed.

Lemma tw_fifo_cstep : forall cap s s', tw_fifo cap s -> tw_cstep s = Some s' -> tw_fifo cap s'.
Proof.
  intros cap s s' HI HS. unfold tw_cstep in HS.
  pose proof HI as (Hf & Hz & es & HR & HC & HSz & HH & HA).
  assert (Hsame : forall s1, tw_q s1 = tw_q s -> tw_fault s1 = None -> tw_held s1 = tw_held s -> tw_accepted s1 = tw_accepted s ->
            tw_applied s1 = tw_applied s -> tw_cdone s1 = tw_cdone s -> (tw_cactive (tw_cpc s1) = false -> tw_held s = None) -> tw_fifo cap s1).
  { intros s1 E1 E2 E3 E4 E5 E6 E7. split; [exact E2|]. split; [rewrite E3; exact E7|]. exists es. rewrite E1, E3.
    split; [exact HR|]. split; [exact HC|]. split; [exact HSz|]. split; [exact HH|].
    unfold tw_acc_msgs, tw_processed, tw_unprocessed in *. rewrite E1, E4, E5, E6. exact HA. }
  destruct (tw_cpc s) eqn:Ecpc; cbn [tw_cactive] in Hz.
  - (* CStart *) destruct (tw_quit s); injection HS as <-; apply Hsame; auto; unfold tw_cdone; tw_proj; rewrite Ecpc; reflexivity.
  - destruct (tw_free (tw_mE s)); [|discriminate].
    destruct (tw_flag s); injection HS as <-; apply Hsame; auto; unfold tw_cdone; tw_proj; rewrite Ecpc, ?Hz; reflexivity.
  - injection HS as <-; apply Hsame; auto; unfold tw_cdone; tw_proj; rewrite Ecpc; reflexivity.
  - destruct (tw_signalled s && tw_free (tw_mE s)); [|discriminate].
    destruct (tw_flag s); injection HS as <-; apply Hsame; auto; unfold tw_cdone; tw_proj; rewrite Ecpc, ?Hz; reflexivity.
  - injection HS as <-; apply Hsame; auto; unfold tw_cdone; tw_proj; rewrite Ecpc, ?Hz; reflexivity.
  - (* CLockM *)
    destruct (tw_free (tw_mM s)); [|discriminate].
    match type of HS with match ?X with _ => _ end = _ => destruct X as [s3|f] eqn:EX end.
    + injection HS as <-. apply tw_cstep_lockM in EX; [|reflexivity].
      destruct EX as (qa & ra & qb & rb & tr & Epop & Epeek & -> & _).
      assert (A : exists esa, Rep qa esa /\ count qa = nlen esa /\ size qa = cap /\
                  mrb_abs qa = tw_unprocessed s).
      { unfold tw_unprocessed, tw_cdone. rewrite Ecpc. destruct (tw_held s) as [x|] eqn:Eh.
        - destruct (HH x eq_refl) as (r & -> & _). pose proof (tw_pop_ok _ _ HR HC) as HP. cbn in HP.
          destruct HP as (q' & EP & HR' & HC' & HS' & HA'). rewrite EP in Epop. injection Epop as <- <-.
          exists r. split; [exact HR'|]. split; [exact HC'|]. split; [congruence|exact HA'].
        - subst qa. exists es. split; [exact HR|]. split; [exact HC|]. split; [exact HSz|reflexivity]. }
      destruct A as (esa & Ra & Ca & Sa & Aa).
      pose proof (tw_peek_ok _ _ Ra) as HP.
      split; [exact Hf|]. split; [tw_proj; discriminate|]. tw_proj.
      destruct esa as [|x r].
      * rewrite HP in Epeek. injection Epeek as <- <-. exists []. tw_proj.
        split; [exact Ra|]. split; [exact Ca|]. split; [exact Sa|]. split; [discriminate|].
        rewrite <- Aa in HA. unfold tw_acc_msgs, tw_processed, tw_unprocessed, tw_cdone. tw_proj. exact HA.
      * destruct HP as (q' & EP & HR' & HC' & HS' & HA' & Hb). rewrite EP in Epeek. injection Epeek as <- <-.
        exists (x :: r). tw_proj.
        split; [exact HR'|]. split; [congruence|]. split; [congruence|]. split.
        -- intros y Hy. injection Hy as <-. exists r. split; [reflexivity|]. lia.
        -- rewrite <- Aa in HA. unfold tw_acc_msgs, tw_processed, tw_unprocessed, tw_cdone. tw_proj. rewrite HA'. exact HA.
    + exfalso. (* no fault: pop / peek succeed under the invariant *)
      destruct (tw_held s) as [x|] eqn:Eh; cbn [bind] in EX.
      * destruct (HH x eq_refl) as (r & -> & _). pose proof (tw_pop_ok _ _ HR HC) as HP. cbn in HP.
        destruct HP as (q' & EP & HR' & HC' & HS' & HA'). rewrite EP in EX. cbn [bind fst snd] in EX. tw_proj.
        pose proof (tw_peek_ok _ _ HR') as HP. destruct r as [|y r'].
        -- rewrite HP in EX. discriminate.
        -- destruct HP as (q'' & EP' & _). rewrite EP' in EX. discriminate.
      * tw_proj. pose proof (tw_peek_ok _ _ HR) as HP. destruct es as [|y r'].
        -- rewrite HP in EX. discriminate.
        -- destruct HP as (q'' & EP' & _). rewrite EP' in EX. discriminate.
  - (* CUnlockM *)
    destruct (tw_held s) as [x|] eqn:Eh; [|destruct (tw_quit s)]; injection HS as <-; apply Hsame; auto;
      unfold tw_cdone; tw_proj; rewrite ?Ecpc, ?Eh; try reflexivity; discriminate.
  - (* CLockP *)
    destruct (tw_free (tw_mP s)); [|discriminate].
    destruct (tw_held s) as [[a sz]|] eqn:Eh.
    + destruct (HH (a, sz) eq_refl) as (r & -> & Hb). cbn [fst snd] in Hb.
      destruct (tw_read_ok _ _ _ _ HR ltac:(lia)) as (m & ER & EA). rewrite ER in HS. injection HS as <-.
      assert (G : forall s1, tw_q s1 = tw_q s -> tw_fault s1 = None -> tw_held s1 = tw_held s -> tw_accepted s1 = tw_accepted s ->
                   tw_applied s1 = tw_applied s ++ [TwAMsg m] -> tw_fifo cap (tw_set_cpc s1 TwCUnlockP)).
      { intros s1 E1 E2 E3 E4 E5. split; [exact E2|]. split; [tw_proj; discriminate|]. exists ((a, sz) :: r). tw_proj. rewrite E1, E3, Eh.
        split; [exact HR|]. split; [exact HC|]. split; [exact HSz|]. split; [exact HH|].
        unfold tw_acc_msgs, tw_processed, tw_unprocessed, tw_cdone in *. tw_proj. rewrite ?E1, ?E3, ?E4, ?E5, ?Eh, tw_msgs_of_app.
        cbn [tw_msgs_of]. rewrite HA, Ecpc, <- app_assoc. f_equal. exact EA. }
      unfold tw_dispatch. destruct (tw_kind_of m =? 0); [|destruct (tw_kind_of m =? 1)]; apply G; tw_proj; auto.
    + injection HS as <-. apply Hsame; auto; unfold tw_cdone; tw_proj; rewrite ?Ecpc, ?Eh; try reflexivity; discriminate.
  - (* CUnlockP *)
    injection HS as <-. apply Hsame; auto; unfold tw_cdone; tw_proj; rewrite ?Ecpc; try reflexivity; discriminate.
  - discriminate.
Qed.

Lemma tw_fifo_init : forall cap progs, cap <= 2147483648 -> tw_fifo cap (tw_init cap progs).
Proof.
  intros cap progs Hcap. unfold tw_fifo, tw_init. tw_proj. split; [reflexivity|]. split; [reflexivity|].
  destruct (init_MInv cap Hcap) as (es & HR & HC).
  assert (es = []) as ->.
  { apply (proj2 (Rep_empty _ _ HR)). reflexivity. }
  exists []. split; [exact HR|]. split; [exact HC|]. split; [reflexivity|]. split; [discriminate|].
  unfold tw_acc_msgs, tw_processed, tw_unprocessed, tw_cdone. tw_proj. rewrite (abs_Rep _ _ HR). reflexivity.
Qed.

Lemma tw_fifo_reach : forall fx cap progs s, tw_wf cap progs -> tw_reach fx cap progs s -> tw_fifo cap s.
Proof.
  intros fx cap progs s Hwf HR. induction HR as [|s t s' HR IH HS|s d HR IH].
  - destruct Hwf as (_ & Hc). apply tw_fifo_init; auto.
  -     unfold tw_step in HS. destruct (tw_fault s); [discriminate|]. destruct t as [i|].
    + destruct (nth_error (tw_prods s) i) as [p|] eqn:En; [|discriminate]. eapply tw_fifo_pstep; eauto.
    + eapply tw_fifo_cstep; eauto.
  - eapply tw_fifo_same_inv; [exact IH|]. unfold tw_fifo_same, tw_processed. tw_proj. repeat split.
Qed.

(* C06 fifo_inv: what was handed to the writer, followed by what is still in the queue, is exactly
   what was accepted - nothing lost, duplicated, reordered or torn; and no queue access leaves the buffer *)
Lemma tw_fifo_inv : forall fx cap progs s, tw_wf cap progs -> tw_reach fx cap progs s ->
  tw_fault s = None /\ MInv (tw_q s) /\ tw_processed s ++ tw_unprocessed s = tw_acc_msgs s.
Proof.
  intros fx cap progs s Hwf HR. destruct (tw_fifo_reach _ _ _ _ Hwf HR) as (Hf & _ & es & HRep & HC & _ & _ & HA).
  split; [exact Hf|]. split; [exists es; auto|]. symmetry. exact HA.
Qed.

(* ---------- control location <-> current call ---------- *)
Definition tw_cont_head (k : tw_cont) (cs : list tw_call) : Prop :=
  match k with
  | TwKRet => exists mk body r, cs = TwCSend mk body :: r
  | TwKFlush _ _ => exists r, cs = TwCFlush :: r
  | TwKClose => exists r, cs = TwCClose :: r
  end.
Definition tw_send_head (c : tw_send) (cs : list tw_call) : Prop :=
  match tw_sd_k c with
  | TwKRet => exists mk body r, cs = TwCSend mk body :: r /\ tw_sd_msg c = tw_user_msg mk body
  | TwKFlush id _ => (exists r, cs = TwCFlush :: r) /\ tw_sd_msg c = tw_flush_msg id
  | TwKClose => (exists r, cs = TwCClose :: r) /\ tw_sd_msg c = tw_close_msg
  end.
Definition tw_pc_head (pc : tw_ppc) (cs : list tw_call) : Prop :=
  match pc with
  | TwPStart => True
  | TwPDone => cs = []
  | TwPHJoin | TwPJoin => exists r, cs = TwCClose :: r
  | TwPDefLock _ | TwPDefUnlock => exists d r, cs = TwCDef d :: r
  | TwPTicketLock | TwPTicketUnlock _ _ | TwPFlushSleep _ _ _ | TwPFlushWake _ _ _ _ => exists r, cs = TwCFlush :: r
  | TwPSendLock c | TwPSendUnlock c _ | TwPSendSleep c | TwPSendWake c _ => tw_send_head c cs
  | TwPSigLock k | TwPSigSignal k | TwPSigUnlock k => tw_cont_head k cs
  end.
Definition tw_head_ok (p : tw_pthread) : Prop := tw_pc_head (tw_pt_pc p) (tw_pt_calls p).
Definition tw_head_inv (s : tw_state) : Prop := forall i p, nth_error (tw_prods s) i = Some p -> tw_head_ok p.

Lemma tw_send_cont_head : forall c cs, tw_send_head c cs -> tw_cont_head (tw_sd_k c) cs.
Proof.
  intros c cs H. unfold tw_send_head in H. unfold tw_cont_head. destruct (tw_sd_k c).
  - destruct H as (mk & body & r & -> & _). eauto.
  - destruct H as (H & _). exact H.
  - destruct H as (H & _). exact H.
Qed.

Lemma tw_begin_head : forall cs i s idx s' p', tw_begin i s cs idx = (s', p') -> tw_head_ok p'.
Proof.
  induction cs as [|c r IH]; intros i s idx s' p' H; cbn [tw_begin] in H.
  - injection H as <- <-. reflexivity.
  - destruct c.
    + injection H as <- <-. unfold tw_head_ok; cbn. eauto.
    + destruct (tw_is_fsr k && tw_drop s).
      * injection H as <- <-. unfold tw_head_ok, tw_send_head; cbn. eauto 6.
      * unfold tw_send_begin in H. injection H as <- <-. unfold tw_head_ok, tw_send_head; cbn. eauto 6.
    + injection H as <- <-. unfold tw_head_ok; cbn. eauto.
    + eapply IH; eauto.
    + destruct (Nat.ltb 1 (tw_nprod s)).
      * injection H as <- <-. unfold tw_head_ok; cbn. eauto.
      * unfold tw_send_begin in H. injection H as <- <-. unfold tw_head_ok, tw_send_head; cbn. eauto.
Qed.

Lemma tw_ret_head : forall i s p rc s' p', tw_ret i s p rc = (s', p') -> tw_head_ok p'.
Proof. intros i s p rc s' p' H. unfold tw_ret in H. destruct (tw_pt_calls p); eapply tw_begin_head; eauto. Qed.

Lemma tw_send_done_head : forall fx i s p k ok s' p', tw_cont_head k (tw_pt_calls p) ->
  tw_send_done fx i s p k ok = (s', p') -> tw_head_ok p'.
Proof.
  intros fx i s p k ok s' p' Hk H. unfold tw_send_done in H. destruct k as [|id mark|]; cbn [tw_cont_head] in Hk.
  - eapply tw_ret_head; eauto.
  - destruct (id <=? _); [eapply tw_ret_head; eauto|]. injection H as <- <-. exact Hk.
  - destruct (ok || negb fx); [|unfold tw_send_begin in H]; injection H as <- <-; [exact Hk|].
    unfold tw_head_ok, tw_send_head; cbn. auto.
Qed.

Lemma tw_head_setp : forall s i p1, tw_head_inv s -> tw_head_ok p1 -> forall s1, tw_prods s1 = tw_prods s ->
  tw_head_inv (tw_setp s1 i p1).
Proof.
  intros s i p1 HI H1 s1 E j q Hq. tw_proj. rewrite E in Hq. apply tw_nth_upd_inv in Hq.
  destruct Hq as [->|Hq]; [exact H1|eapply HI; eauto].
Qed.

Ltac tw_frame_prods F := destruct F as (_&_&_&_&_&_&_&_&_&_&_&F&_); rewrite F; tw_proj.

Lemma tw_head_pstep : forall fx s i p s', tw_head_inv s -> nth_error (tw_prods s) i = Some p ->
  tw_pstep fx s i p = Some s' -> tw_head_inv s'.
Proof.
  intros fx s i p s' HI Hn HS. pose proof (HI _ _ Hn) as Hp. unfold tw_head_ok in Hp.
  unfold tw_pstep in HS.
  destruct (tw_pt_pc p) eqn:Epc; cbn [tw_pc_head] in Hp; tw_pcases HS;
    try (tw_helper HS; injection HS as <-;
         eapply tw_head_setp; [exact HI| |tw_frame_prods F; try (destruct (Nat.eqb i 0)); reflexivity];
         first [solve [eapply tw_begin_head; eauto] | solve [eapply tw_ret_head; eauto]
               | solve [eapply tw_send_done_head; eauto using tw_send_cont_head] ]);
    try (injection HS as <-; first
      [ eapply tw_head_setp; [exact HI| |tw_proj; try (destruct (tw_cpc s)); reflexivity];
        unfold tw_head_ok; cbn [tw_with_pc tw_pt_pc tw_pt_calls tw_pc_head]; eauto using tw_send_cont_head;
        unfold tw_send_head; cbn [tw_sd_k tw_sd_msg]; eauto
      | intros j q Hq; tw_proj; eapply HI; eauto ]).
Qed.

Lemma tw_head_init : forall cap progs, tw_head_inv (tw_init cap progs).
Proof.
  intros cap progs i p E. unfold tw_init in E. tw_proj.
  apply nth_error_In, in_map_iff in E. destruct E as (cs & <- & _). exact I.
Qed.

Lemma tw_head_reach : forall fx cap progs s, tw_reach fx cap progs s -> tw_head_inv s.
Proof.
  induction 1 as [|s t s' HR IH HS|s d HR IH].
  - apply tw_head_init.
  - unfold tw_step in HS. destruct (tw_fault s); [discriminate|]. destruct t as [i|].
    + destruct (nth_error (tw_prods s) i) as [p|] eqn:En; [|discriminate]. eapply tw_head_pstep; eauto.
    + intros i p E. rewrite (tw_cstep_prods _ _ HS) in E. eapply IH; eauto.
  - exact IH.
Qed.

(* ---------- jls_twr_close is the last call of producer 0 and occurs nowhere else ---------- *)
Definition tw_close_last (cs : list tw_call) : Prop := forall pre post, cs = pre ++ TwCClose :: post -> post = [].
Definition tw_close_ok (i : nat) (cs : list tw_call) : Prop :=
  match i with O => tw_close_last cs | S _ => ~ In TwCClose cs end.
Definition tw_wf_close (progs : list (list tw_call)) : Prop :=
  forall i cs, nth_error progs i = Some cs -> tw_close_ok i cs.
Definition tw_cw_inv (s : tw_state) : Prop :=
  forall i p, nth_error (tw_prods s) i = Some p -> tw_close_ok i (tw_pt_calls p).

Lemma tw_close_ok_suffix : forall i pre cs, tw_close_ok i (pre ++ cs) -> tw_close_ok i cs.
Proof.
  intros [|i] pre cs H; cbn in *.
  - intros a b E. apply (H (pre ++ a) b). rewrite E, app_assoc. reflexivity.
  - intro Hin. apply H. apply in_or_app. auto.
Qed.

Lemma tw_begin_suffix : forall cs i s idx s' p', tw_begin i s cs idx = (s', p') -> exists pre, cs = pre ++ tw_pt_calls p'.
Proof.
  induction cs as [|c r IH]; intros i s idx s' p' H; cbn [tw_begin] in H.
  - injection H as <- <-. exists []. reflexivity.
  - destruct c;
      try (injection H as <- <-; exists []; reflexivity).
    + destruct (tw_is_fsr k && tw_drop s); [|unfold tw_send_begin in H]; injection H as <- <-; exists []; reflexivity.
    + apply IH in H. destruct H as (pre & ->). exists (TwCFlags drop :: pre). reflexivity.
    + destruct (Nat.ltb 1 (tw_nprod s)); [|unfold tw_send_begin in H]; injection H as <- <-; exists []; reflexivity.
Qed.

Lemma tw_ret_suffix : forall i s p rc s' p', tw_ret i s p rc = (s', p') -> exists pre, tw_pt_calls p = pre ++ tw_pt_calls p'.
Proof.
  intros i s p rc s' p' H. unfold tw_ret in H. destruct (tw_pt_calls p) as [|c r].
  - apply tw_begin_suffix in H. exact H.
  - apply tw_begin_suffix in H. destruct H as (pre & ->). exists (c :: pre). reflexivity.
Qed.

Lemma tw_send_done_suffix : forall fx i s p k ok s' p', tw_send_done fx i s p k ok = (s', p') ->
  exists pre, tw_pt_calls p = pre ++ tw_pt_calls p'.
Proof.
  intros fx i s p k ok s' p' H. unfold tw_send_done in H. destruct k as [|id mark|].
  - eapply tw_ret_suffix; eauto.
  - destruct (id <=? _); [eapply tw_ret_suffix; eauto|]. injection H as <- <-. exists []. reflexivity.
  - destruct (ok || negb fx); [|unfold tw_send_begin in H]; injection H as <- <-; exists []; reflexivity.
Qed.

Lemma tw_cw_pstep : forall fx s i p s', tw_cw_inv s -> nth_error (tw_prods s) i = Some p ->
  tw_pstep fx s i p = Some s' -> tw_cw_inv s'.
Proof.
  intros fx s i p s' HI Hn HS. pose proof (HI _ _ Hn) as Hp.
  assert (G : forall s1 p1, tw_prods s1 = tw_prods s -> (exists pre, tw_pt_calls p = pre ++ tw_pt_calls p1) -> tw_cw_inv (tw_setp s1 i p1)).
  { intros s1 p1 E (pre & Epre) j q Hq. tw_proj. rewrite E in Hq.
    destruct (Nat.eq_dec i j) as [<-|Hne].
    - rewrite (tw_nth_upd_eq _ _ _ _ _ Hn) in Hq. injection Hq as <-. rewrite Epre in Hp. eapply tw_close_ok_suffix; eauto.
    - rewrite (tw_nth_upd_neq _ _ _ _ _ Hne) in Hq. eapply HI; eauto. }
  unfold tw_pstep in HS.
  destruct (tw_pt_pc p) eqn:Epc; tw_pcases HS;
    try (tw_helper HS; injection HS as <-; apply G; [tw_frame_prods F; try (destruct (Nat.eqb i 0)); reflexivity|];
         first [solve [eapply tw_begin_suffix; eauto] | solve [eapply tw_ret_suffix; eauto] | solve [eapply tw_send_done_suffix; eauto]]);
    try (injection HS as <-; first
      [ apply G; [tw_proj; try (destruct (tw_cpc s)); reflexivity|exists []; reflexivity]
      | intros j q Hq; tw_proj; eapply HI; eauto ]).
Qed.

Lemma tw_cw_reach : forall fx cap progs s, tw_wf_close progs -> tw_reach fx cap progs s -> tw_cw_inv s.
Proof.
  intros fx cap progs s Hwf HR. induction HR as [|s t s' HR IH HS|s d HR IH].
  - intros i p E. unfold tw_init in E. tw_proj. rewrite nth_error_map in E.
    destruct (nth_error progs i) as [cs|] eqn:En; [|discriminate]. injection E as <-. cbn. eapply Hwf; eauto.
  - unfold tw_step in HS. destruct (tw_fault s); [discriminate|]. destruct t as [i|].
    + destruct (nth_error (tw_prods s) i) as [p|] eqn:En; [|discriminate]. eapply tw_cw_pstep; eauto.
    + intros i p E. rewrite (tw_cstep_prods _ _ HS) in E. eapply IH; eauto.
  - exact IH.
Qed.

(* ---------- summary of what one producer step can do to the shared state ---------- *)
Definition tw_in_close (pc : tw_ppc) : bool :=
  match pc with
  | TwPSendLock c | TwPSendUnlock c _ | TwPSendSleep c | TwPSendWake c _ => match tw_sd_k c with TwKClose => true | _ => false end
  | TwPSigLock TwKClose | TwPSigSignal TwKClose | TwPSigUnlock TwKClose | TwPJoin => true
  | _ => false
  end.
(* after the CLOSE message was queued / quit was set by the repaired close: producer 0 sends nothing any more *)
Definition tw_closing_pc (pc : tw_ppc) : bool :=
  match pc with
  | TwPSendUnlock c true => match tw_sd_k c with TwKClose => true | _ => false end
  | TwPSigLock TwKClose | TwPSigSignal TwKClose | TwPSigUnlock TwKClose | TwPJoin | TwPDone => true
  | _ => false
  end.

Lemma tw_begin_in_close : forall cs i s idx s' p', tw_begin i s cs idx = (s', p') -> tw_in_close (tw_pt_pc p') = true ->
  In TwCClose cs /\ Nat.ltb 1 (tw_nprod s) = false.
Proof.
  induction cs as [|c r IH]; intros i s idx s' p' H Hc; cbn [tw_begin] in H.
  - injection H as <- <-. discriminate.
  - destruct c; try (injection H as <- <-; discriminate).
    + destruct (tw_is_fsr k && tw_drop s); [|unfold tw_send_begin in H]; injection H as <- <-; discriminate.
    + apply IH in H; auto. destruct H as (H1 & H2). split; [right; exact H1|exact H2].
    + destruct (Nat.ltb 1 (tw_nprod s)) eqn:E; [injection H as <- <-; discriminate|]. split; [left; reflexivity|reflexivity].
Qed.

Lemma tw_ret_in_close : forall i s p rc s' p', tw_ret i s p rc = (s', p') -> tw_in_close (tw_pt_pc p') = true ->
  In TwCClose (tw_pt_calls p) /\ Nat.ltb 1 (tw_nprod s) = false.
Proof.
  intros i s p rc s' p' H Hc. unfold tw_ret in H. destruct (tw_pt_calls p) as [|c r].
  - eapply tw_begin_in_close in H; eauto.
  - eapply tw_begin_in_close in H; eauto. destruct H as (H1 & H2). split; [right; exact H1|exact H2].
Qed.

Lemma tw_send_done_in_close : forall fx i s p k ok s' p', tw_send_done fx i s p k ok = (s', p') ->
  tw_in_close (tw_pt_pc p') = true -> k = TwKClose \/ (In TwCClose (tw_pt_calls p) /\ Nat.ltb 1 (tw_nprod s) = false).
Proof.
  intros fx i s p k ok s' p' H Hc. unfold tw_send_done in H. destruct k as [|id mark|]; auto.
  - right. eapply tw_ret_in_close; eauto.
  - right. destruct (id <=? _); [eapply tw_ret_in_close in H; eauto|injection H as <- <-; discriminate].
Qed.

Definition tw_is_flags (c : tw_call) : Prop := exists b, c = TwCFlags b.

Lemma tw_begin_calls : forall cs i s idx s' p', tw_begin i s cs idx = (s', p') ->
  exists fl, cs = fl ++ tw_pt_calls p' /\ Forall tw_is_flags fl.
Proof.
  induction cs as [|c r IH]; intros i s idx s' p' H; cbn [tw_begin] in H.
  - injection H as <- <-. exists []. auto.
  - destruct c; try (injection H as <- <-; exists []; auto).
    + destruct (tw_is_fsr k && tw_drop s); [|unfold tw_send_begin in H]; injection H as <- <-; exists []; auto.
    + apply IH in H. destruct H as (fl & -> & Hf). exists (TwCFlags drop :: fl). split; [reflexivity|].
      constructor; [exists drop; reflexivity|exact Hf].
    + destruct (Nat.ltb 1 (tw_nprod s)); [|unfold tw_send_begin in H]; injection H as <- <-; exists []; auto.
Qed.

Lemma tw_ret_calls : forall i s p rc s' p' c r, tw_pt_calls p = c :: r -> tw_ret i s p rc = (s', p') ->
  exists fl, r = fl ++ tw_pt_calls p' /\ Forall tw_is_flags fl.
Proof.
  intros i s p rc s' p' c r Ec H. unfold tw_ret in H. rewrite Ec in H. eapply tw_begin_calls; eauto.
Qed.

Lemma tw_send_done_calls : forall fx i s p k ok s' p' c r, tw_pt_calls p = c :: r -> tw_send_done fx i s p k ok = (s', p') ->
  tw_pt_calls p' = tw_pt_calls p \/ (k <> TwKClose /\ exists fl, r = fl ++ tw_pt_calls p' /\ Forall tw_is_flags fl).
Proof.
  intros fx i s p k ok s' p' c r Ec H. unfold tw_send_done in H. destruct k as [|id mark|].
  - right. split; [discriminate|]. eapply tw_ret_calls; eauto.
  - destruct (id <=? _).
    + right. split; [discriminate|]. eapply tw_ret_calls; eauto.
    + injection H as <- <-. left. reflexivity.
  - destruct (ok || negb fx); [|unfold tw_send_begin in H]; injection H as <- <-; left; reflexivity.
Qed.

(* which calls a step consumes *)
Definition tw_consumed (p p1 : tw_pthread) : Prop :=
  tw_pt_calls p1 = tw_pt_calls p \/
  (tw_pt_pc p = TwPStart /\ exists fl, tw_pt_calls p = fl ++ tw_pt_calls p1 /\ Forall tw_is_flags fl) \/
  (exists c r fl, tw_pt_calls p = c :: r /\ r = fl ++ tw_pt_calls p1 /\ Forall tw_is_flags fl /\
                  (c = TwCClose -> tw_pt_pc p = TwPJoin)).

Definition tw_psum (fx : bool) (s : tw_state) (i : nat) (p : tw_pthread) (s' : tw_state) : Prop :=
  exists s1 p1, s' = tw_setp s1 i p1 /\
    tw_prods s1 = tw_prods s /\ tw_cpc s1 = tw_cpc s /\ tw_held s1 = tw_held s /\ tw_fault s1 = tw_fault s /\
    tw_flag s1 = (if tw_pholdsE (tw_pt_pc p1) && negb (tw_pholdsE (tw_pt_pc p)) then true else tw_flag s) /\
    tw_quit s1 = tw_quit s /\
    ((tw_q s1 = tw_q s /\ tw_accepted s1 = tw_accepted s) \/
     (exists c q1 a, tw_pt_pc p = TwPSendLock c /\ tw_mM s = None /\ alloc_fixed (tw_q s) (len (tw_sd_msg c)) = Ok (q1, Some a) /\
        fill_fast q1 a (tw_sd_msg c) = Ok (tw_q s1) /\ tw_accepted s1 = tw_accepted s ++ [(i, tw_pt_idx p, tw_sd_msg c)] /\
        tw_pt_pc p1 = TwPSendUnlock c true)) /\
    (tw_in_close (tw_pt_pc p1) = true -> tw_in_close (tw_pt_pc p) = true \/
       (In TwCClose (tw_pt_calls p) /\ (tw_others_done s i = true \/ Nat.ltb 1 (tw_nprod s) = false))) /\
    (tw_closing_pc (tw_pt_pc p) = true -> (forall r, tw_pt_calls p = TwCClose :: r -> r = []) -> tw_closing_pc (tw_pt_pc p1) = true) /\
    (exists pre, tw_pt_calls p = pre ++ tw_pt_calls p1) /\
    (tw_applied s1 = tw_applied s \/ (exists d, tw_applied s1 = tw_applied s ++ [TwADef i d]) \/
     (tw_pt_pc p = TwPJoin /\ tw_cpc s = TwCDone /\ tw_applied s1 = tw_applied s ++ [TwAEnd] /\ tw_bpc (tw_pt_pc p1) = true)) /\
    tw_consumed p p1.

Lemma tw_dpc_noholdsE : forall pc, tw_dpc pc = true -> tw_pholdsE pc = false.
Proof. intros pc H. apply tw_dpc_noholds in H. tauto. Qed.

Lemma tw_alloc_none_same : forall q sz q1, alloc_fixed q sz = Ok (q1, None) -> q1 = q.
Proof.
  intros q sz q1 H. unfold alloc_fixed, alloc_body, place in H.
  repeat match type of H with
  | (if ?c then _ else _) = _ => destruct c
  | bind ?x _ = _ => destruct x; cbn [bind] in H
  end; try discriminate; congruence.
Qed.

Lemma tw_pstep_sum : forall fx s i p s', tw_head_ok p -> tw_pstep fx s i p = Some s' ->
  tw_psum fx s i p s' \/ (exists f, s' = tw_set_fault s (Some f)).
Proof.
  intros fx s i p s' Hp HS. unfold tw_head_ok in Hp. unfold tw_pstep in HS.
  destruct (tw_pt_pc p) eqn:Epc; cbn [tw_pc_head] in Hp.
  7: { (* PSendLock *)
    destruct (tw_free (tw_mM s)) eqn:Ef; [|discriminate]. apply tw_free_none in Ef.
    destruct (alloc_fixed (tw_q s) (len (tw_sd_msg c))) as [[q1 [a|]]|f] eqn:Eal.
    - destruct (fill_fast q1 a (tw_sd_msg c)) as [q2|f] eqn:Efi; [|right; injection HS as <-; eexists; reflexivity].
      left. injection HS as <-. cbn [fst snd].
      match goal with |- tw_psum _ _ _ _ (tw_setp ?A _ ?B) => exists A, B end. rewrite Epc. tw_proj.
      repeat (split; [reflexivity|]).
      split; [right; exists c, q1, a; repeat split; auto|].
      split; [intro Hic; left; exact Hic|]. split; [discriminate|]. split; [exists []; reflexivity|]. split; [left; reflexivity|left; reflexivity].
    - apply tw_alloc_none_same in Eal. subst q1. left. injection HS as <-. cbn [fst snd].
      match goal with |- tw_psum _ _ _ _ (tw_setp ?A _ ?B) => exists A, B end. rewrite Epc. tw_proj.
      repeat (split; [reflexivity|]).
      split; [left; split; reflexivity|].
      split; [intro Hic; left; exact Hic|]. split; [discriminate|]. split; [exists []; reflexivity|]. split; [left; reflexivity|left; reflexivity].
    - right. injection HS as <-. eexists; reflexivity. }
  all: tw_pcases HS; try (right; injection HS as <-; eexists; reflexivity).
  all: left.
  all: try match type of HS with context [if (?j =? 0)%nat then tw_set_opened ?s0 true else ?s0] => destruct (j =? 0)%nat end.
  (* paths through a helper *)
  all: try (tw_helper HS; injection HS as <-; exists s2, p2; rewrite Epc;
            pose proof F as F0; tw_use_frame F0;
            split; [reflexivity|]; split; [tw_proj; congruence|];
            split; [tw_proj; congruence|]; split; [tw_proj; congruence|];
            split; [tw_proj; congruence|];
            split; [rewrite (tw_dpc_noholdsE (tw_pt_pc p2)) by (first [exact FB|apply tw_bpc_dpc; exact FB]);
                    cbn [andb]; tw_proj; congruence|];
            split; [tw_proj; congruence|];
            split; [left; split; tw_proj; congruence|];
            split; [intro Hic;
                    first [ pose proof (tw_begin_in_close _ _ _ _ _ _ EX Hic) as (I1 & I2)
                          | pose proof (tw_ret_in_close _ _ _ _ _ _ EX Hic) as (I1 & I2)
                          | pose proof (tw_send_done_in_close _ _ _ _ _ _ _ _ EX Hic) as [I0|(I1 & I2)] ];
                    first [ right; split; [exact I1|right; exact I2]
                          | left; cbn [tw_in_close]; rewrite ?I0; reflexivity ] |];
            split; [cbn [tw_closing_pc]; intros Hcl Hlast;
                    first [ discriminate
                          | destruct k; try discriminate; unfold tw_send_done in EX; cbn [orb] in EX; injection EX as <- <-; reflexivity
                          | destruct Hp as (r & Er); pose proof (Hlast _ Er); subst r; unfold tw_ret in EX; rewrite Er in EX;
                            cbn [tw_begin] in EX; injection EX as <- <-; reflexivity ]|];
            split; [first [solve [eapply tw_begin_suffix; eauto] | solve [eapply tw_ret_suffix; eauto] | solve [eapply tw_send_done_suffix; eauto]]|];
            split; [first [left; tw_proj; congruence
                          |right; right; split; [reflexivity|]; split; [assumption|]; split; [tw_proj; congruence|exact FB]]|];
            unfold tw_consumed; rewrite ?Epc;
            first [ (* tw_begin from PStart *)
                    right; left; split; [reflexivity|]; solve [eapply tw_begin_calls; eauto]
                  | (* a call returns / msg_send returns *)
                    let c0 := fresh "c0" in let r0 := fresh "r0" in let Ecs := fresh "Ecs" in
                    destruct (tw_pt_calls p) as [|c0 r0] eqn:Ecs;
                    [ exfalso; unfold tw_send_head, tw_cont_head in Hp;
                      repeat match goal with H : exists _, _ |- _ => destruct H | H : _ /\ _ |- _ => destruct H
                                        | H : match ?k with TwKRet => _ | TwKFlush _ _ => _ | TwKClose => _ end |- _ => destruct k end;
                      discriminate
                    | first [ pose proof (tw_ret_calls _ _ _ _ _ _ _ _ Ecs EX) as (fl0 & Efl & Hfl);
                              right; right; exists c0, r0, fl0; split; [reflexivity|]; split; [exact Efl|]; split; [exact Hfl|]
                            | pose proof (tw_send_done_calls _ _ _ _ _ _ _ _ _ _ Ecs EX) as [Esame|(Hk & fl0 & Efl & Hfl)];
                              [left; congruence
                              |right; right; exists c0, r0, fl0; split; [reflexivity|]; split; [exact Efl|]; split; [exact Hfl|]] ];
                      intro Ecl; subst c0; try reflexivity; exfalso; unfold tw_send_head, tw_cont_head in Hp;
                      repeat match goal with H : exists _, _ |- _ => destruct H | H : _ /\ _ |- _ => destruct H
                                        | H : match ?k with TwKRet => _ | TwKFlush _ _ => _ | TwKClose => _ end |- _ => destruct k end;
                      congruence ] ]).
  (* direct paths *)
  all: try (injection HS as <-; cbn [fst snd];
            match goal with |- tw_psum _ _ _ _ (tw_setp ?A _ ?B) => exists A, B end; rewrite ?Epc; tw_proj;
            split; [reflexivity|]; split; [try (destruct (tw_cpc s)); reflexivity|];
            split; [try (destruct (tw_cpc s) eqn:Ecc); tw_proj; congruence|];
            split; [try (destruct (tw_cpc s)); reflexivity|]; split; [try (destruct (tw_cpc s)); reflexivity|];
            split; [cbn [tw_pholdsE andb negb]; try (destruct (tw_cpc s)); reflexivity|];
            split; [try (destruct (tw_cpc s)); reflexivity|];
            split; [first [left; split; try (destruct (tw_cpc s)); reflexivity | idtac]|];
            split; [intro Hic; cbn [tw_in_close tw_sd_k] in *;
                    first [discriminate | left; exact Hic | left; reflexivity
                          | right; split; [destruct Hp as (r0 & ->); left; reflexivity|left; assumption] ]|];
            split; [cbn [tw_closing_pc tw_sd_k] in *; intros Hcl Hlast;
                    first [discriminate | exact Hcl | reflexivity | destruct (tw_sd_k c); try discriminate; reflexivity]|];
            split; [exists []; reflexivity|];
            split; [first [left; try (destruct (tw_cpc s)); reflexivity | right; left; eexists; reflexivity]|left; reflexivity]).
Qed.


(* ---------- close: the CLOSE message is the last message; the consumer exits with an empty queue ---------- *)
Definition tw_others_done_p (s : tw_state) (i : nat) : Prop :=
  forall j q, nth_error (tw_prods s) j = Some q -> j <> i -> tw_pt_pc q = TwPDone.
Definition tw_has_close (s : tw_state) : Prop := exists e, In e (tw_accepted s) /\ tw_kind_of (snd e) = 0.

Lemma tw_combine_seq_in : forall (A : Type) (l : list A) a j q, nth_error l j = Some q -> In ((a + j)%nat, q) (combine (seq a (length l)) l).
Proof.
  induction l as [|x r IH]; intros a [|j] q H; cbn in *; try discriminate.
  - injection H as <-. left. f_equal. lia.
  - right. replace (a + S j)%nat with (S a + j)%nat by lia. apply IH. exact H.
Qed.

Lemma tw_others_done_true : forall s i, tw_others_done s i = true -> tw_others_done_p s i.
Proof.
  intros s i H j q Hn Hne. unfold tw_others_done in H. rewrite forallb_forall in H.
  pose proof (tw_combine_seq_in _ _ 0%nat _ _ Hn) as Hin. cbn in Hin.
  assert (Hx : (Nat.eqb j i || tw_pdone q) = true).
  { apply H. apply in_map_iff. exists (j, q). split; [reflexivity|exact Hin]. }
  apply Bool.orb_true_iff in Hx. destruct Hx as [Hx|Hx]; [apply Nat.eqb_eq in Hx; contradiction|].
  unfold tw_pdone in Hx. destruct (tw_pt_pc q); try discriminate. reflexivity.
Qed.

Lemma tw_single_others_done : forall s, Nat.ltb 1 (tw_nprod s) = false -> tw_others_done_p s 0.
Proof.
  intros s H j q Hn Hne. apply Nat.ltb_ge in H. unfold tw_nprod in H.
  assert (j < length (tw_prods s))%nat by (apply nth_error_Some; congruence). lia.
Qed.

Definition tw_close_inv (s : tw_state) : Prop :=
  (forall i p, nth_error (tw_prods s) i = Some p -> tw_in_close (tw_pt_pc p) = true -> i = 0%nat /\ tw_others_done_p s 0) /\
  (tw_quit s = true \/ tw_has_close s ->
     exists p0, nth_error (tw_prods s) 0 = Some p0 /\ tw_closing_pc (tw_pt_pc p0) = true /\ tw_others_done_p s 0) /\
  (tw_cpc s = TwCUnlockM -> tw_held s = None -> mrb_abs (tw_q s) = []) /\
  (tw_cpc s = TwCDone -> tw_quit s = true /\ mrb_abs (tw_q s) = []) /\
  (tw_quit s = true -> tw_cactive (tw_cpc s) = true \/ tw_cpc s = TwCDone).

Lemma tw_kind_user : forall k body, tw_kind_of (tw_user_msg k body) <> 0.
Proof. intros k body. unfold tw_kind_of, tw_user_msg. cbn. destruct k; cbn; discriminate. Qed.
Lemma tw_kind_flush : forall id, tw_kind_of (tw_flush_msg id) = 1.
Proof. reflexivity. Qed.

Lemma tw_done_no_step : forall fx s i p, tw_pt_pc p = TwPDone -> tw_pstep fx s i p = None.
Proof. intros fx s i p E. unfold tw_pstep. rewrite E. reflexivity. Qed.

Lemma tw_close_pstep : forall fx cap s i p s', tw_head_inv s -> tw_cw_inv s -> tw_lock_inv s -> tw_fifo cap s ->
  tw_close_inv s -> nth_error (tw_prods s) i = Some p -> tw_pstep fx s i p = Some s' -> tw_close_inv s'.
Proof.
  intros fx cap s i p s' HH HW HL HF (K1 & K2 & K3 & K4 & K5) Hn HS.
  pose proof (tw_fifo_pstep _ _ _ _ _ _ HF Hn HS) as HF'.
  destruct (tw_pstep_sum _ _ _ _ _ (HH _ _ Hn) HS) as [SUM|(f & ->)].
  2: { destruct HF' as (Hf & _). discriminate. }
  destruct SUM as (s1 & p1 & -> & Sp & Sc & Sh & Sf & Sfl & Sq & Sa & SE1 & SE2 & (pre & Spre) & Sap & Scs).
  (* the stepping thread is not finished *)
  assert (Hnd : tw_pt_pc p <> TwPDone).
  { intro E. rewrite (tw_done_no_step _ _ _ _ E) in HS. discriminate. }
  (* others stay where they are *)
  assert (Hoth : forall j q, j <> i -> nth_error (tw_prods (tw_setp s1 i p1)) j = Some q -> nth_error (tw_prods s) j = Some q).
  { intros j q Hne Hq. tw_proj. rewrite Sp in Hq. rewrite tw_nth_upd_neq in Hq by congruence. exact Hq. }
  assert (Hself : nth_error (tw_prods (tw_setp s1 i p1)) i = Some p1).
  { tw_proj. rewrite Sp. eapply tw_nth_upd_eq; eauto. }
  assert (Hod : tw_others_done_p s 0 -> i = 0%nat -> tw_others_done_p (tw_setp s1 i p1) 0).
  { intros Ho -> j q Hq Hne. apply (Ho j q); auto. }
  (* the stepping thread is thread 0 whenever all others are done *)
  assert (Hi0 : tw_others_done_p s 0 -> i = 0%nat).
  { intros Ho. destruct (Nat.eq_dec i 0); auto. exfalso. apply Hnd. eapply Ho; eauto. }
  (* entering the close call *)
  assert (Henter : tw_in_close (tw_pt_pc p1) = true -> i = 0%nat /\ tw_others_done_p s 0).
  { intro Hic. destruct (SE1 Hic) as [Hold|(Hin & Hdone)]; [eapply K1; eauto|].
    assert (i = 0%nat) as ->.
    { pose proof (HW _ _ Hn) as Hc. destruct i; auto. cbn in Hc. contradiction. }
    split; auto. destruct Hdone as [Hd|Hd]; [apply tw_others_done_true; exact Hd|apply tw_single_others_done; exact Hd]. }
  split; [|split; [|split; [|split]]].
  - (* K1 *)
    intros j q Hq Hic. destruct (Nat.eq_dec j i) as [->|Hne].
    + rewrite Hself in Hq. injection Hq as <-. destruct (Henter Hic) as (-> & Ho). split; auto.
    + apply Hoth in Hq; auto. destruct (K1 _ _ Hq Hic) as (-> & Ho). exfalso. apply Hne. symmetry. apply Hi0. exact Ho.
  - (* K2 *)
    intros Hprem.
    assert (Hcases : (tw_quit s = true \/ tw_has_close s) \/ (tw_in_close (tw_pt_pc p) = true /\ tw_closing_pc (tw_pt_pc p1) = true)).
    { unfold tw_has_close in *. tw_proj. destruct Hprem as [Hq|(e & Hin & Hk)].
      - left; left; congruence.
      - destruct Sa as [(_ & Sa)|(c & q1 & a & Epc & _ & _ & _ & Sa & Epc1)].
        + left. right. exists e. rewrite <- Sa. auto.
        + rewrite Sa in Hin. apply in_app_or in Hin. destruct Hin as [Hin|[<-|[]]]; [left; right; exists e; auto|].
          cbn [snd] in Hk. right. pose proof (HH _ _ Hn) as Hhd. unfold tw_head_ok in Hhd. rewrite Epc in Hhd. cbn [tw_pc_head] in Hhd.
          rewrite Epc, Epc1. cbn [tw_in_close tw_closing_pc]. unfold tw_send_head in Hhd. destruct (tw_sd_k c).
          * destruct Hhd as (mk & body & r & _ & Em). rewrite Em in Hk. exfalso. eapply tw_kind_user; eauto.
          * destruct Hhd as (_ & Em). rewrite Em, tw_kind_flush in Hk. discriminate.
          * auto. }
    destruct Hcases as [Hold|(Hic & Hcl)].
    + destruct (K2 Hold) as (p0 & Hn0 & Hcl0 & Ho). pose proof (Hi0 Ho) as ->. rewrite Hn in Hn0. injection Hn0 as <-.
      exists p1. split; [exact Hself|]. split; [|apply Hod; auto].
      apply SE2; auto. intros r Er. pose proof (HW _ _ Hn) as Hc. cbn in Hc. apply (Hc [] r). exact Er.
    + destruct (K1 _ _ Hn Hic) as (-> & Ho). exists p1. split; [exact Hself|]. split; [exact Hcl|apply Hod; auto].
  - (* K3 *)
    tw_proj. rewrite Sc, Sh. intros Ec Eh. destruct Sa as [(Sa & _)|(c & q1 & a & Epc & EM & _)].
    + rewrite Sa. auto.
    + exfalso. destruct HL as ((_ & HC) & _). assert (tw_mM s = Some TwTCons) by (apply HC; rewrite Ec; reflexivity). congruence.
  - (* K4 *)
    tw_proj. rewrite Sc. intro Ec. destruct (K4 Ec) as (Hq & Ha).
    assert (Hq1 : tw_quit s1 = true) by congruence.
    split; [exact Hq1|]. destruct Sa as [(Sa & _)|(c & q1 & a & Epc & _)]; [rewrite Sa; exact Ha|].
    exfalso. destruct (K2 (or_introl Hq)) as (p0 & Hn0 & Hcl0 & Ho). pose proof (Hi0 Ho) as ->.
    rewrite Hn in Hn0. injection Hn0 as <-. rewrite Epc in Hcl0. discriminate.
  - (* K5 *)
    tw_proj. rewrite Sc, Sq. exact K5.
Qed.

Lemma tw_lockM_empty : forall cap s s', tw_fifo cap s -> tw_cpc s = TwCLockM -> tw_cstep s = Some s' ->
  tw_held s' = None -> mrb_abs (tw_q s') = [].
Proof.
  intros cap s s' (Hf & Hz & es & HR & HC & HSz & HH & HA) Ec HS Hh. unfold tw_cstep in HS. rewrite Ec in HS.
  destruct (tw_free (tw_mM s)); [|discriminate].
  match type of HS with match ?X with _ => _ end = _ => destruct X as [s3|f] eqn:EX end; injection HS as <-.
  2: { cbn in Hh. tw_proj.
       (* fault branch: state unchanged except fault; held = None means the queue part is as before; impossible by fifo anyway *)
       exfalso. destruct (tw_held s) as [x|] eqn:Eh; cbn [bind] in EX.
       - destruct (HH x eq_refl) as (r & -> & _). pose proof (tw_pop_ok _ _ HR HC) as HP. cbn in HP.
         destruct HP as (q' & EP & HR' & HC' & HS' & HA'). rewrite EP in EX. cbn [bind fst snd] in EX. tw_proj.
         pose proof (tw_peek_ok _ _ HR') as HP. destruct r as [|y r'].
         + rewrite HP in EX. discriminate.
         + destruct HP as (q'' & EP' & _). rewrite EP' in EX. discriminate.
       - tw_proj. pose proof (tw_peek_ok _ _ HR) as HP. destruct es as [|y r'].
         + rewrite HP in EX. discriminate.
         + destruct HP as (q'' & EP' & _). rewrite EP' in EX. discriminate. }
  apply tw_cstep_lockM in EX; [|reflexivity]. destruct EX as (qa & ra & qb & rb & tr & Epop & Epeek & -> & _).
  tw_proj. subst rb.
  assert (A : exists esa, Rep qa esa).
  { destruct (tw_held s) as [x|] eqn:Eh.
    - destruct (HH x eq_refl) as (r & -> & _). pose proof (tw_pop_ok _ _ HR HC) as HP. cbn in HP.
      destruct HP as (q' & EP & HR' & _). rewrite EP in Epop. injection Epop as <- <-. eauto.
    - subst qa. eauto. }
  destruct A as (esa & Ra). pose proof (tw_peek_ok _ _ Ra) as HP. destruct esa as [|x r].
  - rewrite HP in Epeek. injection Epeek as <-. rewrite (abs_Rep _ _ Ra). reflexivity.
  - destruct HP as (q' & EP & _). rewrite EP in Epeek. discriminate.
Qed.

(* facts about one consumer step *)
Definition tw_ctrans (a b : tw_cctl) : bool :=
  match a, b with
  | TwCStart, TwCWaitLock | TwCStart, TwCDone | TwCWaitLock, TwCWaitUnlock | TwCWaitLock, TwCWaitCond
  | TwCWaitCond, TwCWaitReacq | TwCWaitReacq, TwCWaitUnlock | TwCWaitReacq, TwCWaitCond | TwCWaitUnlock, TwCLockM
  | TwCLockM, TwCUnlockM | TwCLockM, TwCLockM | TwCUnlockM, TwCDone | TwCUnlockM, TwCWaitLock | TwCUnlockM, TwCLockP
  | TwCLockP, TwCUnlockP | TwCLockP, TwCLockP | TwCUnlockP, TwCLockM => true
  | _, _ => false
  end.

Lemma tw_cstep_facts : forall s s', tw_cstep s = Some s' ->
  tw_ctrans (tw_cpc s) (tw_cpc s') = true /\ tw_accepted s' = tw_accepted s /\
  (tw_cpc s' = TwCDone -> tw_quit s = true /\ tw_quit s' = true /\ tw_q s' = tw_q s /\
                          (tw_cpc s = TwCStart \/ (tw_cpc s = TwCUnlockM /\ tw_held s = None))) /\
  (tw_quit s = true -> tw_quit s' = true) /\
  (tw_quit s' = true -> tw_quit s = true \/
     (tw_cpc s = TwCLockP /\ tw_cpc s' = TwCUnlockP /\ exists a sz m, tw_held s = Some (a, sz) /\ read_msg (tw_q s) a sz = Ok m /\ tw_kind_of m = 0)) /\
  (tw_applied s' = tw_applied s \/ exists m, tw_applied s' = tw_applied s ++ [TwAMsg m]).
Proof.
  intros s s' HS. unfold tw_cstep in HS.
  destruct (tw_cpc s) eqn:Ecpc; tw_ccases HS;
    try solve [injection HS as <-; tw_proj; cbn [tw_ctrans]; repeat split; intros; try discriminate; try congruence; auto].
  - (* CLockM *)
    match type of HS with match ?X with _ => _ end = _ => destruct X as [s3|f] eqn:EX end; injection HS as <-.
    + apply tw_cstep_lockM in EX; [|reflexivity]. destruct EX as (qa & ra & qb & rb & tr & _ & _ & -> & _). tw_proj.
      cbn [tw_ctrans]. repeat split; intros; try discriminate; auto.
    + tw_proj. rewrite Ecpc. cbn [tw_ctrans]. repeat split; intros; try discriminate; auto.
  - (* CLockP, message read *)
    injection HS as <-. unfold tw_dispatch. destruct (tw_kind_of rm =? 0) eqn:Ek; [|destruct (tw_kind_of rm =? 1)]; tw_proj;
      cbn [tw_ctrans]; repeat split; intros; try discriminate; auto.
    all: try (right; eexists; reflexivity).
    right. repeat split; auto. exists ha, hsz, rm. repeat split; auto. apply N.eqb_eq. exact Ek.
  - (* CLockP, fault *)
    injection HS as <-. tw_proj. rewrite Ecpc. cbn [tw_ctrans]. repeat split; intros; try discriminate; auto.
Qed.

Lemma tw_close_cstep : forall cap s s', tw_fifo cap s -> tw_close_inv s -> tw_cstep s = Some s' -> tw_close_inv s'.
Proof.
  intros cap s s' HF (K1 & K2 & K3 & K4 & K5) HS.
  pose proof (tw_cstep_prods _ _ HS) as Hp.
  pose proof (tw_fifo_cstep _ _ _ HF HS) as HF'.
  destruct (tw_cstep_facts _ _ HS) as (Htr & Ha & Hdone & Hq2 & Hq1 & _).
  (* quit only by dispatching a message of kind 0, which is in accepted *)
  assert (Hq1' : tw_quit s' = true -> tw_quit s = true \/ tw_has_close s).
  { intro Hq. destruct (Hq1 Hq) as [Hq0|(Ec & Ec' & a & sz & m & Eh & ER & Ek)]; [auto|]. right.
    destruct HF as (Hf & Hz & es & HR & HC & HSz & HH & HA).
    destruct (HH _ Eh) as (r & -> & Hb). cbn [fst snd] in Hb.
    destruct (tw_read_ok _ _ _ _ HR ltac:(lia)) as (m' & ER' & EA). rewrite ER in ER'. injection ER' as <-.
    assert (Hin : In m (tw_acc_msgs s)).
    { rewrite HA. apply in_or_app. right. unfold tw_unprocessed, tw_cdone. rewrite Ec. rewrite EA. left. reflexivity. }
    unfold tw_acc_msgs in Hin. apply in_map_iff in Hin. destruct Hin as (e & <- & Hin). exists e. auto. }
  split; [|split; [|split; [|split]]].
  - intros i p Hn Hic. rewrite Hp in Hn. destruct (K1 _ _ Hn Hic) as (-> & Ho). split; auto.
    intros j q Hq. rewrite Hp in Hq. eauto.
  - intros Hprem. assert (Hold : tw_quit s = true \/ tw_has_close s).
    { destruct Hprem as [Hq|(e & Hin & Hk)]; [auto|]. right. exists e. rewrite <- Ha. auto. }
    destruct (K2 Hold) as (p0 & Hn0 & Hcl & Ho). exists p0. rewrite Hp. split; [exact Hn0|]. split; [exact Hcl|].
    intros j q Hq Hne. rewrite Hp in Hq. eapply Ho; eauto.
  - intros Ec Eh.
    assert (Ecs : tw_cpc s = TwCLockM) by (rewrite Ec in Htr; destruct (tw_cpc s); try discriminate; reflexivity).
    exact (tw_lockM_empty cap s s' HF Ecs HS Eh).
  - intros Ec. destruct (Hdone Ec) as (Hq & Hq' & Eq & [Es|(Es & Eh)]).
    + destruct (K5 Hq) as [Hx|Hx]; rewrite Es in Hx; discriminate.
    + split; auto. rewrite Eq. auto.
  - intros Hq'. destruct (tw_cpc s') eqn:Ec'; cbn [tw_cactive]; auto; exfalso.
    all: destruct (Hq1 Hq') as [Hq0|(Ec & Ec'' & _)]; try congruence.
    all: destruct (K5 Hq0) as [Hx|Hx]; [|rewrite Hx in Htr; discriminate].
    all: destruct (tw_cpc s) eqn:Ecs; try discriminate.
    (* from CUnlockM to CWaitLock the consumer has seen quit = false *)
    unfold tw_cstep in HS. rewrite Ecs in HS. destruct (tw_held s); [injection HS as <-; tw_proj; discriminate|].
    rewrite Hq0 in HS. injection HS as <-. tw_proj. discriminate.
Qed.

(* ---------- jls_wr_close (AEnd) is the last operation; by then everything accepted has been applied ---------- *)
Definition tw_joined_inv (s : tw_state) : Prop :=
  In TwAEnd (tw_applied s) ->
  (forall i p, nth_error (tw_prods s) i = Some p -> tw_pt_pc p = TwPDone) /\ tw_cpc s = TwCDone /\
  exists l, tw_applied s = l ++ [TwAEnd] /\ ~ In TwAEnd l.

Definition tw_all_inv (cap : N) (s : tw_state) : Prop :=
  tw_lock_inv s /\ tw_fifo cap s /\ tw_head_inv s /\ tw_cw_inv s /\ tw_close_inv s /\ tw_joined_inv s.

Lemma tw_closing_bpc_done : forall pc, tw_closing_pc pc = true -> tw_bpc pc = true -> pc = TwPDone.
Proof. destruct pc; cbn; intros; try discriminate; auto. Qed.

Lemma tw_joined_pstep : forall fx cap s i p s', tw_all_inv cap s -> nth_error (tw_prods s) i = Some p ->
  tw_pstep fx s i p = Some s' -> tw_joined_inv s'.
Proof.
  intros fx cap s i p s' (HL & HF & HH & HW & (K1 & K2 & K3 & K4 & K5) & HJ) Hn HS.
  pose proof (tw_fifo_pstep _ _ _ _ _ _ HF Hn HS) as HF'.
  assert (Hnd : tw_pt_pc p <> TwPDone).
  { intro E. rewrite (tw_done_no_step _ _ _ _ E) in HS. discriminate. }
  destruct (tw_pstep_sum _ _ _ _ _ (HH _ _ Hn) HS) as [SUM|(f & ->)].
  2: { destruct HF' as (Hf & _). discriminate. }
  destruct SUM as (s1 & p1 & -> & Sp & Sc & Sh & Sf & Sfl & Sq & Sa & SE1 & SE2 & (pre & Spre) & Sap & Scs).
  intro Hin. tw_proj.
  assert (Hno : ~ In TwAEnd (tw_applied s)).
  { intro Hx. destruct (HJ Hx) as (Hall & _). apply Hnd. eapply Hall; eauto. }
  destruct Sap as [Sap|[(d & Sap)|(Epc & Ec & Sap & Hb)]].
  - rewrite Sap in Hin. contradiction.
  - rewrite Sap in Hin. apply in_app_or in Hin. destruct Hin as [Hin|[Hin|[]]]; [contradiction|discriminate].
  - destruct (K4 Ec) as (Hq & _). destruct (K2 (or_introl Hq)) as (p0 & Hn0 & Hcl0 & Ho).
    assert (i = 0%nat) as ->.
    { destruct (Nat.eq_dec i 0); auto. exfalso. apply Hnd. eapply Ho; eauto. }
    assert (Hp1 : tw_pt_pc p1 = TwPDone).
    { apply tw_closing_bpc_done; auto. apply SE2; [rewrite Epc; reflexivity|].
      intros r Er. pose proof (HW _ _ Hn) as Hc. cbn in Hc. apply (Hc [] r). exact Er. }
    split; [|split; [congruence|exists (tw_applied s); auto]].
    intros j q Hq'. rewrite Sp in Hq'. destruct (Nat.eq_dec j 0) as [->|Hne].
    + rewrite (tw_nth_upd_eq _ _ _ _ _ Hn) in Hq'. injection Hq' as <-. exact Hp1.
    + rewrite tw_nth_upd_neq in Hq' by congruence. eapply Ho; eauto.
Qed.

Lemma tw_joined_cstep : forall s s', tw_joined_inv s -> tw_cstep s = Some s' -> tw_joined_inv s'.
Proof.
  intros s s' HJ HS Hin. destruct (tw_cstep_facts _ _ HS) as (Htr & _ & _ & _ & _ & Hap).
  assert (Hin0 : In TwAEnd (tw_applied s)).
  { destruct Hap as [Hap|(m & Hap)]; rewrite Hap in Hin; auto.
    apply in_app_or in Hin. destruct Hin as [Hin|[Hin|[]]]; [auto|discriminate]. }
  destruct (HJ Hin0) as (_ & Ec & _). unfold tw_cstep in HS. rewrite Ec in HS. discriminate.
Qed.

Lemma tw_close_init : forall cap progs, tw_close_inv (tw_init cap progs) /\ tw_joined_inv (tw_init cap progs).
Proof.
  intros cap progs. unfold tw_close_inv, tw_joined_inv, tw_has_close, tw_init. tw_proj.
  split; [|intros []].
  split; [|split; [|split; [|split]]]; try discriminate.
  - intros i p E Hic. apply nth_error_In, in_map_iff in E. destruct E as (cs & <- & _). discriminate.
  - intros [H|(e & [] & _)]. discriminate.
Qed.

Lemma tw_all_reach : forall fx cap progs s, tw_wf cap progs -> tw_wf_close progs -> tw_reach fx cap progs s -> tw_all_inv cap s.
Proof.
  intros fx cap progs s Hwf Hwc HR.
  assert (HL := tw_lock_reach _ _ _ _ HR).
  assert (HF := tw_fifo_reach _ _ _ _ Hwf HR). assert (HH := tw_head_reach _ _ _ _ HR).
  assert (HW := tw_cw_reach _ _ _ _ Hwc HR).
  assert (G : tw_close_inv s /\ tw_joined_inv s).
  { clear HL HF HH HW. induction HR as [|s t s' HR IH HS|s d HR IH].
    - apply tw_close_init.
    - assert (HL := tw_lock_reach _ _ _ _ HR).
      assert (HF := tw_fifo_reach _ _ _ _ Hwf HR). assert (HH := tw_head_reach _ _ _ _ HR).
      assert (HW := tw_cw_reach _ _ _ _ Hwc HR). destruct IH as (IC & IJ).
      unfold tw_step in HS. destruct (tw_fault s); [discriminate|]. destruct t as [i|].
      + destruct (nth_error (tw_prods s) i) as [p|] eqn:En; [|discriminate]. split.
        * exact (tw_close_pstep fx cap s i p s' HH HW HL HF IC En HS).
        * apply (tw_joined_pstep fx cap s i p s'); auto.
          exact (conj HL (conj HF (conj HH (conj HW (conj IC IJ))))).
      + split; [eapply tw_close_cstep; eauto|eapply tw_joined_cstep; eauto].
    - exact IH. }
  destruct G as (G1 & G2). exact (conj HL (conj HF (conj HH (conj HW (conj G1 G2))))).
Qed.

(* C07 close_post / C06 file_refines_sync: once jls_twr_close has called jls_wr_close (AEnd), the writer
   thread has ended, every producer has finished, the queue is empty, the operations handed to the
   synchronous writer are exactly the accepted messages in acceptance order (definitions interleaved
   at their process-lock positions) followed by the close, and nothing follows the close *)
Lemma tw_close_post : forall fx cap progs s, tw_wf cap progs -> tw_wf_close progs -> tw_reach fx cap progs s ->
  In TwAEnd (tw_applied s) ->
  tw_cpc s = TwCDone /\ tw_final s = true /\ mrb_abs (tw_q s) = [] /\ tw_held s = None /\
  tw_msgs_of (tw_applied s) = tw_acc_msgs s /\
  exists l, tw_applied s = l ++ [TwAEnd] /\ ~ In TwAEnd l.
Proof.
  intros fx cap progs s Hwf Hwc HR Hin.
  destruct (tw_all_reach _ _ _ _ Hwf Hwc HR) as (HL & HF & HH & HW & (K1 & K2 & K3 & K4 & K5) & HJ).
  destruct (HJ Hin) as (Hall & Ec & Hl). destruct (K4 Ec) as (Hq & Ha).
  destruct HF as (Hf & Hz & es & HRep & HC & HSz & HHd & HA).
  assert (Hh : tw_held s = None) by (apply Hz; rewrite Ec; reflexivity).
  split; [exact Ec|]. split.
  - unfold tw_final. rewrite Ec, Bool.andb_true_r. apply forallb_forall. intros p Hp. apply In_nth_error in Hp.
    destruct Hp as (i & Hp). unfold tw_pdone. rewrite (Hall _ _ Hp). reflexivity.
  - split; [exact Ha|]. split; [exact Hh|]. split; [|exact Hl].
    unfold tw_processed, tw_unprocessed, tw_cdone in HA. rewrite Ec, Ha, app_nil_r in HA. symmetry. exact HA.
Qed.

(* ---------- schedules ---------- *)
Lemma tw_run_reach : forall fx cap progs l s s', tw_reach fx cap progs s -> tw_run fx s l = Some s' -> tw_reach fx cap progs s'.
Proof.
  induction l as [|d r IH]; intros s s' HR H; cbn [tw_run] in H.
  - injection H as <-. exact HR.
  - destruct d as [t|d].
    + destruct (tw_step fx s t) as [s1|] eqn:E; [|discriminate]. eapply IH; [|exact H]. eapply tw_reach_step; eauto.
    + eapply IH; [|exact H]. apply tw_reach_tick. exact HR.
Qed.

Lemma tw_not_enabled_all : forall fx s, tw_some_enabled fx s = false -> forall t, tw_step fx s t = None.
Proof.
  intros fx s H t. unfold tw_some_enabled in H.
  assert (G : forall t', In t' (tw_tids s) -> tw_step fx s t' = None).
  { intros t' Hin. destruct (tw_step fx s t') eqn:E; auto.
    assert (existsb (tw_enabled fx s) (tw_tids s) = true); [|congruence].
    apply existsb_exists. exists t'. split; auto. unfold tw_enabled. rewrite E. reflexivity. }
  destruct t as [i|]; [|apply G; left; reflexivity].
  destruct (nth_error (tw_prods s) i) as [p|] eqn:En.
  - apply G. right. apply in_map. apply in_seq. split; [lia|]. cbn. apply nth_error_Some. congruence.
  - unfold tw_step. destruct (tw_fault s); auto. rewrite En. reflexivity.
Qed.

(* C07, the protocol as it is in /repo: jls_twr_close ignores a failed msg_send(CLOSE); the writer thread
   then waits for an event that never comes while jls_bkt_finalize waits for the writer thread.
   Witness: capacity 128, one producer [user_data 60 bytes; user_data 20 bytes; close], the consumer is
   not scheduled while 5001 ms pass inside jls_twr_close. *)
Definition tw_hang_check : bool :=
  match tw_run false (tw_init 128 tw_hang_prog) tw_hang_sched with
  | None => false
  | Some s =>
    tw_deadlocked false s &&
    match map tw_pt_pc (tw_prods s) with [TwPJoin] => true | _ => false end &&
    match tw_cpc s with TwCWaitReacq => true | _ => false end &&
    negb (tw_signalled s) && Nat.eqb (length (tw_acc_msgs s)) 2 &&
    (if list_eq_dec (list_eq_dec N.eq_dec) (tw_processed s) (tw_acc_msgs s) then true else false) &&
    negb (existsb (fun a => match a with TwAEnd => true | _ => false end) (tw_applied s))
  end.

Lemma tw_hang_check_true : tw_hang_check = true.
Proof. vm_compute. reflexivity. Qed.

Lemma tw_hang_wf : tw_wf 128 tw_hang_prog /\ tw_wf_close tw_hang_prog.
Proof.
  split.
  - split; lia.
  - intros [|[|i]] cs H; cbn in H; try discriminate.
    injection H as <-. cbn. intros pre post Hx.
    destruct pre as [|a [|b [|c pre]]]; cbn in Hx; try discriminate.
    + injection Hx as _ _ Hx. subst. reflexivity.
    + injection Hx as _ _ _ Hx. destruct pre; discriminate.
Qed.

Lemma tw_close_hang : exists s,
  tw_wf 128 tw_hang_prog /\ tw_wf_close tw_hang_prog /\
  tw_run false (tw_init 128 tw_hang_prog) tw_hang_sched = Some s /\ tw_reach false 128 tw_hang_prog s /\
  (forall t, tw_step false s t = None) /\ tw_some_sleeping s = false /\ tw_final s = false /\ tw_fault s = None /\
  map tw_pt_pc (tw_prods s) = [TwPJoin] /\ tw_cpc s = TwCWaitReacq /\ tw_signalled s = false /\
  length (tw_acc_msgs s) = 2%nat /\ tw_processed s = tw_acc_msgs s /\ ~ In TwAEnd (tw_applied s).
Proof.
  pose proof tw_hang_check_true as H. unfold tw_hang_check in H.
  destruct (tw_run false (tw_init 128 tw_hang_prog) tw_hang_sched) as [s|] eqn:E; [|discriminate H].
  exists s. destruct tw_hang_wf as (Hwf & Hwc).
  apply andb_prop in H. destruct H as (H & C6). apply andb_prop in H. destruct H as (H & C5).
  apply andb_prop in H. destruct H as (H & C4). apply andb_prop in H. destruct H as (H & C3).
  apply andb_prop in H. destruct H as (H & C2). apply andb_prop in H. destruct H as (H & C1).
  split; [exact Hwf|]. split; [exact Hwc|]. split; [first [exact E|reflexivity]|].
  split; [eapply tw_run_reach; [apply tw_reach_init|exact E]|]. clear E.
  unfold tw_deadlocked in H. apply andb_prop in H. destruct H as (D & Df). apply andb_prop in D. destruct D as (D & Dfin).
  apply andb_prop in D. destruct D as (Den & Dsl).
  split; [apply tw_not_enabled_all; apply Bool.negb_true_iff; exact Den|].
  split; [apply Bool.negb_true_iff; exact Dsl|]. split; [apply Bool.negb_true_iff; exact Dfin|].
  split; [destruct (tw_fault s); [discriminate|reflexivity]|].
  split. { destruct (map tw_pt_pc (tw_prods s)) as [|[] [|? ?]]; try discriminate. reflexivity. }
  split. { destruct (tw_cpc s); try discriminate. reflexivity. }
  split. { apply Bool.negb_true_iff. exact C3. }
  split. { apply Nat.eqb_eq. exact C4. }
  split. { destruct (list_eq_dec (list_eq_dec N.eq_dec) (tw_processed s) (tw_acc_msgs s)); [assumption|discriminate]. }
  intro Hin. apply Bool.negb_true_iff in C6.
  assert (Hy : existsb (fun a => match a with TwAEnd => true | _ => false end) (tw_applied s) = true);
    [apply existsb_exists; exists TwAEnd; auto|congruence].
Qed.


(* the same decisions on the repaired protocol: producer 0 is not at the join but sending CLOSE again *)
Definition tw_hang_repaired_check : bool :=
  match tw_run true (tw_init 128 tw_hang_prog) (map TwDStep (repeat (TwTProd 0) 14) ++ [TwDTick 5001; TwDStep (TwTProd 0)]) with
  | None => false
  | Some s => tw_some_enabled true s &&
              match map tw_pt_pc (tw_prods s) with [TwPSendLock c] => match tw_sd_k c with TwKClose => true | _ => false end | _ => false end
  end.
Lemma tw_hang_repaired_check_true : tw_hang_repaired_check = true.
Proof. vm_compute. reflexivity. Qed.

(* ---------- a complete run: the hypotheses of the theorems are satisfiable ---------- *)
Definition tw_ex_check : bool :=
  match tw_run false (tw_init 128 tw_ex_prog) tw_ex_sched, tw_run true (tw_init 128 tw_ex_prog) tw_ex_sched with
  | Some s, Some s' =>
    tw_final s && tw_final s' && Nat.eqb (length (tw_acc_msgs s)) 5 && Nat.eqb (length (tw_applied s)) 6 &&
    existsb (fun a => match a with TwAEnd => true | _ => false end) (tw_applied s) &&
    existsb (fun a => match a with TwAEnd => true | _ => false end) (tw_applied s') &&
    (existsb (fun e => match e with TwEvFlushed (TwTProd 0) 2 3 => true | _ => false end) (tw_trace s) && Nat.eqb (tw_ntickets s) 2)
  | _, _ => false
  end.
Lemma tw_ex_check_true : tw_ex_check = true.
Proof. vm_compute. reflexivity. Qed.

Lemma tw_ex_wf : tw_wf 128 tw_ex_prog /\ tw_wf_close tw_ex_prog.
Proof.
  split.
  - split; lia.
  - intros [|[|[|i]]] cs H; cbn in H; try discriminate; injection H as <-; cbn.
    + intros pre post Hx. destruct pre as [|a [|b [|c [|d pre]]]]; cbn in Hx; try discriminate.
      * injection Hx as _ _ _ Hx. subst. reflexivity.
      * injection Hx as _ _ _ _ Hx. destruct pre; discriminate.
    + intros [H|[]]. discriminate.
Qed.

Lemma tw_ex_run : forall fx, exists s,
  tw_wf 128 tw_ex_prog /\ tw_wf_close tw_ex_prog /\ tw_reach fx 128 tw_ex_prog s /\
  In TwAEnd (tw_applied s) /\ tw_final s = true.
Proof.
  intros fx. pose proof tw_ex_check_true as H. unfold tw_ex_check in H.
  destruct (tw_run false (tw_init 128 tw_ex_prog) tw_ex_sched) as [s|] eqn:E; [|discriminate H].
  destruct (tw_run true (tw_init 128 tw_ex_prog) tw_ex_sched) as [s'|] eqn:E'; [|discriminate H].
  destruct tw_ex_wf as (Hwf & Hwc).
  apply andb_prop in H. destruct H as (H & C6). apply andb_prop in H. destruct H as (H & C5).
  apply andb_prop in H. destruct H as (H & C4). apply andb_prop in H. destruct H as (H & C3).
  apply andb_prop in H. destruct H as (H & C2). apply andb_prop in H. destruct H as (C0 & C1).
  assert (G : forall l, existsb (fun a => match a with TwAEnd => true | _ => false end) l = true -> In TwAEnd l).
  { clear. intros l Hx. apply existsb_exists in Hx. destruct Hx as (a & Hin & Ha). destruct a; try discriminate Ha. exact Hin. }
  destruct fx.
  - exists s'. split; [exact Hwf|]. split; [exact Hwc|].
    split; [eapply tw_run_reach; [apply tw_reach_init|exact E']|]. clear E E'. split; [apply G; exact C5|exact C1].
  - exists s. split; [exact Hwf|]. split; [exact Hwc|].
    split; [eapply tw_run_reach; [apply tw_reach_init|exact E]|]. clear E E'. split; [apply G; exact C4|exact C0].
Qed.

(* ---------- second summary of a producer step (event flag, open, origin of the closing phase) ---------- *)
Definition tw_at_signal (pc : tw_ppc) : bool := match pc with TwPSigSignal _ => true | _ => false end.
(* a producer that has queued a message and is about to set the event flag *)
Definition tw_on_way (pc : tw_ppc) : bool := match pc with TwPSendUnlock _ true | TwPSigLock _ => true | _ => false end.
Definition tw_is_reacq (pc : tw_cctl) : bool := match pc with TwCWaitReacq => true | _ => false end.

Lemma tw_send_done_closing : forall fx i s p k ok s' p', tw_send_done fx i s p k ok = (s', p') ->
  tw_closing_pc (tw_pt_pc p') = true -> tw_pt_pc p' <> TwPDone -> k = TwKClose /\ (ok = true \/ fx = false).
Proof.
  intros fx i s p k ok s' p' H Hcl Hnd. unfold tw_send_done in H. destruct k as [|id mark|].
  - pose proof (tw_ret_frame _ _ _ _ _ _ H) as (_ & _ & B). exfalso. apply Hnd. apply tw_closing_bpc_done; auto.
  - destruct (id <=? _).
    + pose proof (tw_ret_frame _ _ _ _ _ _ H) as (_ & _ & B). exfalso. apply Hnd. apply tw_closing_bpc_done; auto.
    + injection H as <- <-. discriminate.
  - split; auto. destruct ok; auto. destruct fx; auto. cbn [orb negb] in H. unfold tw_send_begin in H. injection H as <- <-. discriminate.
Qed.

Definition tw_psum2 (fx : bool) (s : tw_state) (i : nat) (p : tw_pthread) (s' : tw_state) : Prop :=
  exists s1 p1, s' = tw_setp s1 i p1 /\ tw_prods s1 = tw_prods s /\
    tw_signalled s1 = (if tw_at_signal (tw_pt_pc p) && tw_is_reacq (tw_cpc s) then true else tw_signalled s) /\
    (tw_opened s1 = true \/ (tw_opened s1 = tw_opened s /\ tw_pt_pc p <> TwPStart)) /\
    (tw_closing_pc (tw_pt_pc p1) = true -> tw_pt_pc p1 <> TwPDone ->
       tw_closing_pc (tw_pt_pc p) = true \/
       (exists c, tw_pt_pc p = TwPSendLock c /\ tw_pt_pc p1 = TwPSendUnlock c true /\
                  tw_accepted s1 = tw_accepted s ++ [(i, tw_pt_idx p, tw_sd_msg c)]) \/ fx = false) /\
    (forall k, tw_pt_pc p1 = TwPSigUnlock k -> tw_at_signal (tw_pt_pc p) = true) /\
    (tw_on_way (tw_pt_pc p) = true -> tw_on_way (tw_pt_pc p1) = true \/ tw_flag s1 = true).

Lemma tw_pstep_sum2 : forall fx s i p s', tw_pstep fx s i p = Some s' ->
  tw_psum2 fx s i p s' \/ (exists f, s' = tw_set_fault s (Some f)).
Proof.
  intros fx s i p s' HS. unfold tw_pstep in HS.
  destruct (tw_pt_pc p) eqn:Epc.
  7: { (* PSendLock *)
    destruct (tw_free (tw_mM s)) eqn:Ef; [|discriminate].
    destruct (alloc_fixed (tw_q s) (len (tw_sd_msg c))) as [[q1 [a|]]|f] eqn:Eal.
    - destruct (fill_fast q1 a (tw_sd_msg c)) as [q2|f] eqn:Efi; [|right; injection HS as <-; eexists; reflexivity].
      left. injection HS as <-. cbn [fst snd].
      match goal with |- tw_psum2 _ _ _ _ (tw_setp ?A _ ?B) => exists A, B end. rewrite Epc. tw_proj.
      repeat (split; [reflexivity|]). split; [right; split; [reflexivity|discriminate]|].
      split; [intros _ _; right; left; exists c; repeat split; reflexivity|]. split; discriminate.
    - left. injection HS as <-. cbn [fst snd].
      match goal with |- tw_psum2 _ _ _ _ (tw_setp ?A _ ?B) => exists A, B end. rewrite Epc. tw_proj.
      repeat (split; [reflexivity|]). split; [right; split; [reflexivity|discriminate]|]. split; [discriminate|]. split; discriminate.
    - right. injection HS as <-. eexists; reflexivity. }
  all: tw_pcases HS; try (right; injection HS as <-; eexists; reflexivity).
  all: left.
  all: try match type of HS with context [if (?j =? 0)%nat then tw_set_opened ?s0 true else ?s0] => destruct (j =? 0)%nat eqn:Ei0 end.
  all: try (tw_helper HS; injection HS as <-; exists s2, p2; rewrite Epc;
            pose proof F as F0; tw_use_frame F0;
            split; [reflexivity|]; split; [tw_proj; congruence|];
            split; [cbn [tw_at_signal andb]; tw_proj; congruence|];
            split; [first [left; tw_proj; cbn [orb] in *; congruence | right; split; [tw_proj; congruence|discriminate]]|];
            split; [intros Hcl Hnd;
            first [ exfalso; apply Hnd; apply tw_closing_bpc_done; [exact Hcl|exact FB]
                  | pose proof (tw_send_done_closing _ _ _ _ _ _ _ _ EX Hcl Hnd) as (Hk & [Hok|Hfx]);
                    [ first [discriminate Hok | left; cbn [tw_closing_pc]; rewrite ?Hk; reflexivity]
                    | right; right; exact Hfx ] ]|];
            split; [intros k0 Hk0; rewrite Hk0 in FB; discriminate FB|cbn [tw_on_way]; discriminate]).
  all: try (injection HS as <-; cbn [fst snd];
            match goal with |- tw_psum2 _ _ _ _ (tw_setp ?A _ ?B) => exists A, B end; rewrite ?Epc; tw_proj;
            split; [reflexivity|]; split; [try (destruct (tw_cpc s)); reflexivity|];
            split; [cbn [tw_at_signal andb tw_is_reacq]; try (destruct (tw_cpc s)); reflexivity|];
            split; [right; split; [try (destruct (tw_cpc s)); reflexivity|discriminate]|];
            split; [cbn [tw_closing_pc tw_sd_k] in *; intros Hcl Hnd;
                    first [discriminate | left; exact Hcl | left; reflexivity]|];
            split; [intros k0 Hk0; first [discriminate Hk0 | reflexivity]|];
            cbn [tw_on_way]; intro How; first [discriminate How | left; reflexivity | right; reflexivity]).
Qed.

(* ---------- no lost wake-up, no deadlock (repaired close) ---------- *)
Definition tw_cidle (s : tw_state) : bool :=
  match tw_cpc s with
  | TwCStart | TwCWaitLock | TwCWaitCond | TwCWaitReacq => true
  | TwCUnlockM => match tw_held s with None => true | Some _ => false end
  | _ => false
  end.
Definition tw_ends_close (cs : list tw_call) : Prop := exists pre, cs = pre ++ [TwCClose].
Definition tw_wf_live (progs : list (list tw_call)) : Prop := exists cs rest, progs = cs :: rest /\ tw_ends_close cs.

Definition tw_live_inv (fx : bool) (s : tw_state) : Prop :=
  (tw_cpc s = TwCWaitCond -> tw_flag s = false) /\
  (tw_cpc s = TwCWaitReacq -> tw_signalled s = false -> tw_flag s = true ->
     exists i p, nth_error (tw_prods s) i = Some p /\ tw_at_signal (tw_pt_pc p) = true) /\
  (tw_cidle s = true -> tw_unprocessed s <> [] ->
     tw_flag s = true \/ exists i p, nth_error (tw_prods s) i = Some p /\ tw_on_way (tw_pt_pc p) = true) /\
  (fx = true -> forall i p, nth_error (tw_prods s) i = Some p -> tw_closing_pc (tw_pt_pc p) = true -> tw_pt_pc p <> TwPDone -> tw_has_close s) /\
  ((exists m, In m (tw_processed s) /\ tw_kind_of m = 0) -> tw_quit s = true) /\
  (tw_opened s = false -> forall i p, nth_error (tw_prods s) i = Some p -> tw_pt_pc p = TwPStart) /\
  (exists p0, nth_error (tw_prods s) 0 = Some p0 /\
     ((tw_pt_pc p0 <> TwPDone /\ tw_ends_close (tw_pt_calls p0)) \/
      (tw_pt_pc p0 = TwPDone /\ tw_cpc s = TwCDone /\ tw_others_done_p s 0))).

Lemma tw_ends_close_suffix : forall a b, tw_ends_close (a ++ b) -> b <> [] -> tw_ends_close b.
Proof.
  intros a b (pre & E) Hb. destruct (exists_last Hb) as (b' & x & ->).
  rewrite app_assoc in E. apply app_inj_tail in E. destruct E as (_ & ->). exists b'. reflexivity.
Qed.

Lemma tw_flags_not_close : forall fl, Forall tw_is_flags fl -> ~ tw_ends_close fl.
Proof.
  intros fl Hf (pre & E). rewrite E in Hf. apply Forall_app in Hf. destruct Hf as (_ & Hf).
  inversion Hf as [|? ? (b & Hb) _]. discriminate.
Qed.

Lemma tw_join_step : forall fx s i p s', tw_pt_pc p = TwPJoin -> tw_pstep fx s i p = Some s' -> tw_cpc s = TwCDone.
Proof. intros fx s i p s' E H. unfold tw_pstep in H. rewrite E in H. destruct (tw_cpc s); try discriminate. reflexivity. Qed.

Lemma tw_unprocessed_same : forall s s', tw_q s' = tw_q s -> tw_cpc s' = tw_cpc s -> tw_held s' = tw_held s ->
  tw_unprocessed s' = tw_unprocessed s /\ tw_cidle s' = tw_cidle s.
Proof. intros s s' E1 E2 E3. unfold tw_unprocessed, tw_cdone, tw_cidle. rewrite E1, E2, E3. auto. Qed.

Lemma tw_has_close_mono : forall s s' x, tw_has_close s -> (tw_accepted s' = tw_accepted s \/ tw_accepted s' = tw_accepted s ++ x) -> tw_has_close s'.
Proof.
  intros s s' x (e & Hin & Hk) [E|E]; exists e; rewrite E; auto. split; auto. apply in_or_app. auto.
Qed.

Lemma tw_live_pstep : forall fx cap s i p s', tw_all_inv cap s -> tw_all_inv cap s' -> tw_live_inv fx s ->
  nth_error (tw_prods s) i = Some p -> tw_pstep fx s i p = Some s' -> tw_live_inv fx s'.
Proof.
  intros fx cap s i p s' HA HA' (W0 & W1 & W2 & J1 & Q2 & O1 & D1) Hn HS.
  destruct HA as (HL & HF & HH & HW & (K1 & K2 & K3 & K4 & K5) & HJ).
  destruct HA' as (HL' & HF' & HH' & HW' & HK' & HJ').
  assert (Hnd : tw_pt_pc p <> TwPDone).
  { intro E. rewrite (tw_done_no_step _ _ _ _ E) in HS. discriminate. }
  destruct (tw_pstep_sum _ _ _ _ _ (HH _ _ Hn) HS) as [SUM|(f & ->)].
  2: { destruct HF' as (Hf & _). discriminate. }
  destruct (tw_pstep_sum2 _ _ _ _ _ HS) as [SUM2|(f & ->)].
  2: { destruct HF' as (Hf & _). discriminate. }
  destruct SUM as (s1 & p1 & Es' & Sp & Sc & Sh & Sf & Sfl & Sq & Sa & SE1 & SE2 & (pre & Spre) & Sap & Scs).
  destruct SUM2 as (s1' & p1' & Es'' & Sp' & Ssg & Sop & SJ & SU & SW).
  assert (Hself : nth_error (tw_prods s') i = Some p1).
  { rewrite Es'. tw_proj. rewrite Sp. eapply tw_nth_upd_eq; eauto. }
  assert (Hp1 : p1' = p1).
  { assert (nth_error (tw_prods s') i = Some p1') by (rewrite Es''; tw_proj; rewrite Sp'; eapply tw_nth_upd_eq; eauto). congruence. }
  subst p1'.
  assert (Hoth : forall j q, j <> i -> nth_error (tw_prods s') j = Some q -> nth_error (tw_prods s) j = Some q).
  { intros j q Hne Hq. rewrite Es' in Hq. tw_proj. rewrite Sp in Hq. rewrite tw_nth_upd_neq in Hq by congruence. exact Hq. }
  assert (Hoth' : forall j q, j <> i -> nth_error (tw_prods s) j = Some q -> nth_error (tw_prods s') j = Some q).
  { intros j q Hne Hq. rewrite Es'. tw_proj. rewrite Sp. rewrite tw_nth_upd_neq by congruence. exact Hq. }
  assert (Ecpc : tw_cpc s' = tw_cpc s) by (rewrite Es'; tw_proj; exact Sc).
  assert (Eheld : tw_held s' = tw_held s) by (rewrite Es'; tw_proj; exact Sh).
  assert (Eflag : tw_flag s' = (if tw_pholdsE (tw_pt_pc p1) && negb (tw_pholdsE (tw_pt_pc p)) then true else tw_flag s)) by (rewrite Es'; tw_proj; exact Sfl).
  assert (Esig : tw_signalled s' = (if tw_at_signal (tw_pt_pc p) && tw_is_reacq (tw_cpc s) then true else tw_signalled s)) by (rewrite Es''; tw_proj; exact Ssg).
  assert (Equit : tw_quit s' = tw_quit s) by (rewrite Es'; tw_proj; exact Sq).
  assert (Eflag1 : tw_flag s1' = tw_flag s') by (rewrite Es''; reflexivity).
  assert (Eacc : tw_accepted s' = tw_accepted s \/ tw_accepted s' = tw_accepted s ++ [(i, tw_pt_idx p, match tw_pt_pc p with TwPSendLock c => tw_sd_msg c | _ => [] end)]).
  { rewrite Es'. tw_proj. destruct Sa as [(_ & Sa)|(c & q1 & a & Epc & _ & _ & _ & Sa & _)]; [left; exact Sa|right; rewrite Sa, Epc; reflexivity]. }
  assert (Eproc : tw_processed s' = tw_processed s).
  { unfold tw_processed. rewrite Es'. tw_proj. destruct Sap as [Sap|[(d & Sap)|(_ & _ & Sap & _)]]; rewrite Sap; auto;
      rewrite tw_msgs_of_app; cbn; rewrite app_nil_r; reflexivity. }
  (* a thread holding the event mutex excludes the consumer holding it *)
  assert (HnoE : tw_pholdsE (tw_pt_pc p1) = true -> tw_choldsE (tw_cpc s') = false).
  { intros Hh. destruct (tw_choldsE (tw_cpc s')) eqn:Ec; auto. exfalso.
    destruct HL' as (_ & _ & LE). assert (T : TwTProd i = TwTCons); [|discriminate].
    eapply (tw_LI_excl _ _ _ _ _ _ LE); cbn; eauto. }
  split; [|split; [|split; [|split; [|split; [|split]]]]].
  - (* W0 *)
    intro Ec. rewrite Eflag. destruct (tw_pholdsE (tw_pt_pc p1) && negb (tw_pholdsE (tw_pt_pc p))) eqn:Eh.
    + apply andb_prop in Eh. destruct Eh as (Eh & _). apply HnoE in Eh. rewrite Ec in Eh. discriminate.
    + apply W0. congruence.
  - (* W1 *)
    intros Ec Es Ef. rewrite Ecpc in Ec. rewrite Esig in Es.
    assert (Hnas : tw_at_signal (tw_pt_pc p) = false).
    { destruct (tw_at_signal (tw_pt_pc p)) eqn:E; auto. rewrite Ec in Es. discriminate. }
    rewrite Hnas in Es. cbn [andb] in Es. rewrite Eflag in Ef.
    destruct (tw_pholdsE (tw_pt_pc p1) && negb (tw_pholdsE (tw_pt_pc p))) eqn:Eh.
    + exists i, p1. split; [exact Hself|]. apply andb_prop in Eh. destruct Eh as (Eh1 & Eh2).
      destruct (tw_pt_pc p1) eqn:E1; try discriminate; auto. rewrite (SU _ eq_refl) in Hnas. discriminate.
    + destruct (W1 Ec Es Ef) as (j & q & Hq & Hs). destruct (Nat.eq_dec j i) as [->|Hne].
      * rewrite Hn in Hq. injection Hq as <-. congruence.
      * exists j, q. split; auto.
  - (* W2 *)
    intros Hidle Hun.
    destruct Sa as [(Sa1 & Sa2)|(c & q1 & a & Epc & _ & _ & _ & _ & Epc1)].
    + destruct (tw_unprocessed_same s s') as (Eun & Eid); auto; try (rewrite Es'; tw_proj; congruence).
      rewrite Eun in Hun. rewrite Eid in Hidle. destruct (W2 Hidle Hun) as [Hf|(j & q & Hq & Hw)].
      * left. rewrite Eflag, Hf. destruct (_ && _); reflexivity.
      * destruct (Nat.eq_dec j i) as [->|Hne].
        -- rewrite Hn in Hq. injection Hq as <-. destruct (SW Hw) as [Hw'|Hf'].
           ++ right. exists i, p1. auto.
           ++ left. congruence.
        -- right. exists j, q. auto.
    + right. exists i, p1. split; [exact Hself|]. rewrite Epc1. reflexivity.
  - (* J1 *)
    intros Hfx j q Hq Hcl Hndq. destruct (Nat.eq_dec j i) as [->|Hne].
    + rewrite Hself in Hq. injection Hq as <-.
      destruct (SJ Hcl Hndq) as [Hold|[(c & Epc & Epc1 & Eacc1)|Hf]]; [| |congruence].
      * eapply tw_has_close_mono; [eapply J1; eauto|exact Eacc].
      * (* the CLOSE message has just been queued *)
        rewrite Epc1 in Hcl. cbn [tw_closing_pc] in Hcl.
        pose proof (HH _ _ Hn) as Hhd. unfold tw_head_ok in Hhd. rewrite Epc in Hhd. cbn [tw_pc_head] in Hhd.
        unfold tw_send_head in Hhd. destruct (tw_sd_k c); try discriminate. destruct Hhd as (_ & Em).
        exists (i, tw_pt_idx p, tw_sd_msg c). split; [|cbn [snd]; rewrite Em; reflexivity].
        rewrite Es''. tw_proj. rewrite Eacc1. apply in_or_app. right. left. reflexivity.
    + eapply tw_has_close_mono; [eapply (J1 Hfx j q); eauto|exact Eacc].
  - (* Q2 *)
    rewrite Eproc, Equit. exact Q2.
  - (* O1 *)
    intro Hop. exfalso. assert (Eo : tw_opened s' = tw_opened s1') by (rewrite Es''; reflexivity).
    destruct Sop as [Ho|(Ho & Hps)]; [congruence|]. apply Hps. eapply O1; [congruence|exact Hn].
  - (* D1 *)
    destruct D1 as (p0 & Hn0 & D1). destruct (Nat.eq_dec i 0) as [->|Hne].
    + rewrite Hn in Hn0. injection Hn0 as <-. exists p1. split; [exact Hself|].
      destruct D1 as [(_ & Hec)|(Hd & _)]; [|contradiction].
      pose proof (HH' _ _ Hself) as Hhd1. unfold tw_head_ok in Hhd1.
      assert (Hne1 : tw_pt_calls p1 <> [] -> tw_pt_pc p1 <> TwPDone).
      { intros Hx Hy. rewrite Hy in Hhd1. cbn in Hhd1. contradiction. }
      destruct Scs as [Scs|[(Eps & fl & Efl & Hfl)|(c0 & r0 & fl & Ec0 & Er0 & Hfl & Hcl)]].
      * left. rewrite Scs. split; auto. apply Hne1. rewrite Scs. destruct Hec as (pre0 & ->). destruct pre0; discriminate.
      * destruct (tw_pt_calls p1) as [|x r] eqn:E1.
        -- exfalso. rewrite app_nil_r in Efl. rewrite Efl in Hec. eapply tw_flags_not_close; eauto.
        -- left. split; [apply Hne1; discriminate|]. rewrite Efl in Hec. eapply tw_ends_close_suffix; eauto. discriminate.
      * destruct (tw_pt_calls p1) as [|x r] eqn:E1.
        -- (* the last call returned: it is close, the step is the join *)
           rewrite app_nil_r in Er0. subst r0. rewrite Ec0 in Hec.
           assert (fl = [] /\ c0 = TwCClose) as (-> & ->).
           { destruct Hec as (pre0 & Epre). destruct fl as [|f0 fl'] using rev_ind.
             - destruct pre0 as [|y pre0]; cbn in Epre; [injection Epre as ->; auto|].
               injection Epre as _ Epre. destruct pre0; discriminate.
             - exfalso. rewrite app_comm_cons in Epre. apply app_inj_tail in Epre. destruct Epre as (_ & ->).
               apply Forall_app in Hfl. destruct Hfl as (_ & Hfl). inversion Hfl as [|? ? (b & Hb) _]. discriminate. }
           pose proof (Hcl eq_refl) as Epj. pose proof (tw_join_step _ _ _ _ _ Epj HS) as Ecd.
           right. destruct (K4 Ecd) as (Hq & _). destruct (K2 (or_introl Hq)) as (p0' & Hn0' & _ & Ho).
           assert (Hp1d : tw_pt_pc p1 = TwPDone).
           { assert (Hc1 : tw_closing_pc (tw_pt_pc p1) = true).
             { apply SE2; [rewrite Epj; reflexivity|]. intros r Er. rewrite Ec0 in Er. injection Er as <-. reflexivity. }
             destruct (tw_pt_pc p1); cbn in Hhd1, Hc1; try discriminate; auto;
               repeat match goal with H : exists _, _ |- _ => destruct H end; try discriminate;
               unfold tw_send_head, tw_cont_head in *;
               repeat match goal with H : exists _, _ |- _ => destruct H | H : _ /\ _ |- _ => destruct H
                                 | H : match ?k with TwKRet => _ | TwKFlush _ _ => _ | TwKClose => _ end |- _ => destruct k end; discriminate. }
           split; [exact Hp1d|]. split; [congruence|].
           intros j q Hq' Hnej. apply (Ho j q); auto.
        -- left. split; [apply Hne1; discriminate|]. rewrite Ec0, Er0 in Hec.
           change (c0 :: fl ++ x :: r) with ((c0 :: fl) ++ x :: r) in Hec. eapply tw_ends_close_suffix; eauto. discriminate.
    + exists p0. split; [apply Hoth'; auto|]. destruct D1 as [D1|(Hd & Hcd & Ho)]; [left; exact D1|].
      exfalso. apply Hnd. eapply Ho; eauto.
Qed.

Lemma tw_app_self_nil : forall (A : Type) (l x : list A), l = l ++ x -> x = [].
Proof. intros A l x H. rewrite <- (app_nil_r l) in H at 1. apply app_inv_head in H. auto. Qed.

Lemma tw_cstep_live_facts : forall cap s s', tw_fifo cap s -> tw_cstep s = Some s' ->
  tw_opened s' = tw_opened s /\
  (tw_cpc s' = TwCWaitCond -> tw_flag s' = false) /\
  (tw_cpc s' = TwCWaitReacq -> tw_cpc s = TwCWaitCond /\ tw_flag s' = tw_flag s) /\
  (tw_cidle s' = true -> (tw_cpc s = TwCLockM /\ tw_unprocessed s' = []) \/
                         (tw_cidle s = true /\ tw_unprocessed s' = tw_unprocessed s /\ tw_flag s' = tw_flag s)) /\
  (forall m, tw_applied s' = tw_applied s ++ [TwAMsg m] -> tw_kind_of m = 0 -> tw_quit s' = true).
Proof.
  intros cap s s' HF HS. pose proof HS as HS0. unfold tw_cstep in HS.
  destruct (tw_cpc s) eqn:Ecpc; tw_ccases HS.
  all: try solve [injection HS as <-;
    split; [tw_proj; reflexivity|];
    split; [tw_proj; intros; try discriminate; try congruence; auto|];
    split; [tw_proj; intros; try discriminate; split; try reflexivity; congruence|];
    split; [unfold tw_cidle; tw_proj; intro Hid; try discriminate Hid; right;
            unfold tw_unprocessed, tw_cdone; tw_proj; rewrite ?Ecpc;
            repeat match goal with H : tw_held _ = _ |- _ => rewrite ?H; clear H end;
            repeat split; try reflexivity; congruence|];
    intros m Hm; tw_proj; apply tw_app_self_nil in Hm; discriminate].
  - (* CLockM *)
    match type of HS with match ?X with _ => _ end = _ => destruct X as [s3|f] eqn:EX end; injection HS as <-.
    + pose proof EX as EX0. apply tw_cstep_lockM in EX; [|reflexivity]. destruct EX as (qa & ra & qb & rb & tr & _ & _ & Es3 & _).
      split; [rewrite Es3; reflexivity|]. split; [discriminate|]. split; [discriminate|]. split.
      * intro Hid. left. split; [reflexivity|]. unfold tw_cidle in Hid. tw_proj.
        destruct (tw_held s3) eqn:Eh3; [discriminate|].
        assert (Hab : mrb_abs (tw_q (tw_set_cpc s3 TwCUnlockM)) = []).
        { eapply (tw_lockM_empty cap s); eauto. }
        unfold tw_unprocessed, tw_cdone. tw_proj. rewrite ?Eh3. exact Hab.
      * intros m Hm. rewrite Es3 in Hm. tw_proj. apply tw_app_self_nil in Hm. discriminate.
    + split; [reflexivity|]. split; [tw_proj; rewrite Ecpc; discriminate|]. split; [tw_proj; rewrite Ecpc; discriminate|].
      split; [unfold tw_cidle; tw_proj; rewrite Ecpc; discriminate|].
      intros m Hm. tw_proj. apply tw_app_self_nil in Hm. discriminate.
  - (* CLockP with a message *)
    injection HS as <-. unfold tw_dispatch, tw_cidle.
    destruct (tw_kind_of rm =? 0) eqn:Ek; [|destruct (tw_kind_of rm =? 1) eqn:Ek1]; tw_proj;
      (split; [reflexivity|]; split; [discriminate|]; split; [discriminate|]; split; [discriminate|]);
      intros m Hm Hk; try reflexivity;
      apply app_inv_head in Hm; injection Hm as <-; apply N.eqb_neq in Ek; contradiction.
  - (* CLockP fault *)
    injection HS as <-. split; [reflexivity|]. split; [tw_proj; rewrite Ecpc; discriminate|]. split; [tw_proj; rewrite Ecpc; discriminate|].
    split; [unfold tw_cidle; tw_proj; rewrite Ecpc; discriminate|].
    intros m Hm. tw_proj. apply tw_app_self_nil in Hm. discriminate.
Qed.

Lemma tw_live_cstep : forall fx cap s s', tw_all_inv cap s -> tw_live_inv fx s -> tw_cstep s = Some s' -> tw_live_inv fx s'.
Proof.
  intros fx cap s s' HA (W0 & W1 & W2 & J1 & Q2 & O1 & D1) HS.
  destruct HA as (HL & HF & HH & HW & (K1 & K2 & K3 & K4 & K5) & HJ).
  pose proof (tw_cstep_prods _ _ HS) as Hp.
  destruct (tw_cstep_facts _ _ HS) as (Htr & Ha & Hdone & Hq2 & Hq1 & Hap).
  destruct (tw_cstep_live_facts _ _ _ HF HS) as (Hop & Hwc & Hwr & Hid & Hk0).
  split; [|split; [|split; [|split; [|split; [|split]]]]].
  - exact Hwc.
  - intros Ec Es Ef. destruct (Hwr Ec) as (Ec0 & Efl). rewrite Efl, (W0 Ec0) in Ef. discriminate.
  - intros Hidle Hun. destruct (Hid Hidle) as [(_ & Hem)|(Hi0 & Hu0 & Hf0)]; [contradiction|].
    rewrite Hu0 in Hun. rewrite Hf0, Hp. apply W2; auto.
  - intros Hfx i p Hn Hcl Hnd. rewrite Hp in Hn. destruct (J1 Hfx i p Hn Hcl Hnd) as (e & Hin & Hk). exists e. rewrite Ha. auto.
  - intros (m & Hin & Hk). unfold tw_processed in Hin. destruct Hap as [Hap|(m' & Hap)]; rewrite Hap in Hin.
    + apply Hq2. apply Q2. exists m. auto.
    + rewrite tw_msgs_of_app in Hin. apply in_app_or in Hin. destruct Hin as [Hin|[<-|[]]].
      * apply Hq2. apply Q2. exists m. auto.
      * eapply Hk0; eauto.
  - intros Ho i p Hn. rewrite Hp in Hn. rewrite Hop in Ho. eauto.
  - destruct D1 as (p0 & Hn0 & D1). exists p0. rewrite Hp. split; [exact Hn0|].
    destruct D1 as [D1|(Hd & Hcd & Ho)]; [left; exact D1|].
    exfalso. unfold tw_cstep in HS. rewrite Hcd in HS. discriminate.
Qed.

Lemma tw_live_init : forall fx cap progs, cap <= 2147483648 -> tw_wf_live progs -> tw_live_inv fx (tw_init cap progs).
Proof.
  intros fx cap progs Hcap (cs & rest & -> & Hec).
  unfold tw_live_inv, tw_init, tw_cidle, tw_unprocessed, tw_cdone, tw_processed, tw_has_close. tw_proj.
  assert (Hst : forall i p, nth_error (map (fun cs0 => tw_mk_pt TwPStart cs0 0) (cs :: rest)) i = Some p -> tw_pt_pc p = TwPStart).
  { intros i p E. apply nth_error_In, in_map_iff in E. destruct E as (c0 & <- & _). reflexivity. }
  split; [discriminate|]. split; [discriminate|]. split.
  { intros _ Hun. exfalso. apply Hun. apply abs_init. exact Hcap. }
  split. { intros _ i p Hn Hcl. rewrite (Hst _ _ Hn) in Hcl. discriminate. }
  split. { intros (m & [] & _). }
  split. { intros _. exact Hst. }
  exists (tw_mk_pt TwPStart cs 0). split; [reflexivity|]. left. split; [discriminate|exact Hec].
Qed.

Lemma tw_live_reach : forall fx cap progs s, tw_wf cap progs -> tw_wf_close progs -> tw_wf_live progs ->
  tw_reach fx cap progs s -> tw_live_inv fx s.
Proof.
  intros fx cap progs s Hwf Hwc Hwl HR. induction HR as [|s t s' HR IH HS|s d HR IH].
  - destruct Hwf as (_ & Hc). apply tw_live_init; auto.
  - pose proof (tw_all_reach _ _ _ _ Hwf Hwc HR) as HA.
    pose proof (tw_all_reach _ _ _ _ Hwf Hwc (tw_reach_step _ _ _ _ _ _ HR HS)) as HA'.
    unfold tw_step in HS. destruct (tw_fault s); [discriminate|]. destruct t as [i|].
    + destruct (nth_error (tw_prods s) i) as [p|] eqn:En; [|discriminate]. exact (tw_live_pstep fx cap s i p s' HA HA' IH En HS).
    + exact (tw_live_cstep fx cap s s' HA IH HS).
  - destruct IH as (W0 & W1 & W2 & J1 & Q2 & O1 & D1). unfold tw_live_inv, tw_cidle, tw_unprocessed, tw_cdone, tw_processed, tw_has_close in *. tw_proj.
    repeat split; auto.
Qed.

(* ---- when can a thread not take a step ---- *)
Lemma tw_pstep_none : forall fx s i p, tw_pstep fx s i p = None ->
  tw_pt_pc p = TwPDone \/ (tw_pt_pc p = TwPStart /\ i <> 0%nat /\ tw_opened s = false) \/
  (tw_pt_pc p = TwPHJoin /\ tw_others_done s i = false) \/
  (tw_pt_pc p = TwPJoin /\ tw_cpc s <> TwCDone) \/ tw_psleeping s p = true \/
  ((exists d, tw_pt_pc p = TwPDefLock d) /\ tw_mP s <> None) \/
  ((tw_pt_pc p = TwPTicketLock \/ exists c, tw_pt_pc p = TwPSendLock c) /\ tw_mM s <> None) \/
  ((exists k, tw_pt_pc p = TwPSigLock k) /\ tw_mE s <> None).
Proof.
  intros fx s i p H. unfold tw_pstep in H. unfold tw_psleeping.
  destruct (tw_pt_pc p) eqn:Epc; auto;
    repeat match type of H with
    | (if ?c then _ else _) = None => let E := fresh "Ec" in destruct c eqn:E
    | (match ?x with TwCDone => _ | _ => _ end) = None => let E := fresh "Ecp" in destruct x eqn:E
    | (let '(_, _) := tw_send_begin _ _ _ _ in _) = None => unfold tw_send_begin in H
    | (match alloc_fixed ?a ?b with _ => _ end) = None => destruct (alloc_fixed a b) as [[? [?|]]|?]
    | (match fill_fast ?a ?b ?c with _ => _ end) = None => destruct (fill_fast a b c)
    end; try discriminate.
  - right. left. apply Bool.orb_false_iff in Ec. destruct Ec as (E1 & E2). apply Nat.eqb_neq in E1. auto.
  - right. right. left. auto.
  - do 5 right. left. split; [eauto|]. destruct (tw_mP s); [discriminate|discriminate].
  - do 6 right. left. split; [auto|]. destruct (tw_mM s); [discriminate|discriminate].
  - do 6 right. left. split; [eauto|]. destruct (tw_mM s); [discriminate|discriminate].
  - do 7 right. split; [eauto|]. destruct (tw_mE s); [discriminate|discriminate].
  - do 4 right. left. apply N.leb_gt in Ec. apply N.ltb_lt. exact Ec.
  - do 4 right. left. apply N.leb_gt in Ec. apply N.ltb_lt. exact Ec.
  - do 3 right. left. split; auto. congruence.
  - do 3 right. left. split; auto. congruence.
  - do 3 right. left. split; auto. congruence.
  - do 3 right. left. split; auto. congruence.
  - do 3 right. left. split; auto. congruence.
  - do 3 right. left. split; auto. congruence.
  - do 3 right. left. split; auto. congruence.
  - do 3 right. left. split; auto. congruence.
  - do 3 right. left. split; auto. congruence.
Qed.

Lemma tw_free_false : forall o, tw_free o = false -> o <> None.
Proof. destruct o; cbn; intros; [discriminate|discriminate]. Qed.

Lemma tw_cstep_none : forall s, tw_cstep s = None ->
  tw_cpc s = TwCDone \/ (tw_cpc s = TwCWaitReacq /\ tw_signalled s = false) \/
  ((tw_cpc s = TwCWaitLock \/ tw_cpc s = TwCWaitReacq) /\ tw_mE s <> None) \/
  (tw_cpc s = TwCLockM /\ tw_mM s <> None) \/ (tw_cpc s = TwCLockP /\ tw_mP s <> None).
Proof.
  intros s H. unfold tw_cstep in H. destruct (tw_cpc s) eqn:Ec; auto.
  all: repeat match type of H with
       | (if ?c then _ else _) = None => let E := fresh "Ex" in destruct c eqn:E
       | (match ?x with _ => _ end) = None => destruct x
       end; try discriminate.
  - right. right. left. split; auto. apply tw_free_false; auto.
  - apply Bool.andb_false_iff in Ex. destruct Ex as [Ex|Ex]; [right; left; auto|].
    right. right. left. split; auto. apply tw_free_false; auto.
  - right. right. right. left. split; auto. apply tw_free_false; auto.
  - right. right. right. right. split; auto. apply tw_free_false; auto.
Qed.

(* whoever holds a mutex can take a step *)
Lemma tw_holder_enabled : forall fx s t, tw_lock_inv s -> tw_fault s = None ->
  tw_mM s = Some t \/ tw_mP s = Some t \/ tw_mE s = Some t -> tw_step fx s t <> None.
Proof.
  intros fx s t ((M1 & M2) & (P1 & P2) & (E1 & E2)) Hf Hown. unfold tw_step. rewrite Hf.
  destruct t as [i|].
  - assert (Hp : exists p, nth_error (tw_prods s) i = Some p /\
               (tw_pholdsM (tw_pt_pc p) = true \/ tw_pholdsP (tw_pt_pc p) = true \/ tw_pholdsE (tw_pt_pc p) = true)).
    { destruct Hown as [H|[H|H]]; [apply M1 in H|apply P1 in H|apply E1 in H]; destruct H as (p & Hn & Hh); exists p; auto. }
    destruct Hp as (p & Hn & Hh). rewrite Hn. unfold tw_pstep.
    destruct (tw_pt_pc p); cbn in Hh; try (destruct Hh as [Hh|[Hh|Hh]]; discriminate);
      try discriminate;
      repeat match goal with
      | |- context [let '(_, _) := tw_send_begin _ _ _ _ in _] => unfold tw_send_begin
      | |- (if ?c then _ else _) <> None => destruct c
      end; discriminate.
  - assert (Hc : tw_choldsM (tw_cpc s) = true \/ tw_choldsP (tw_cpc s) = true \/ tw_choldsE (tw_cpc s) = true).
    { destruct Hown as [H|[H|H]]; [apply M2 in H|apply P2 in H|apply E2 in H]; auto. }
    unfold tw_cstep. destruct (tw_cpc s); cbn in Hc; try (destruct Hc as [Hc|[Hc|Hc]]; discriminate);
      repeat match goal with
      | |- (match ?x with Some _ => _ | None => _ end) <> None => destruct x
      | |- (if ?c then _ else _) <> None => destruct c
      end; discriminate.
Qed.

Lemma tw_forallb_false : forall (A : Type) (f : A -> bool) l, forallb f l = false -> exists x, In x l /\ f x = false.
Proof.
  induction l as [|a r IH]; cbn; intros H; [discriminate|].
  destruct (f a) eqn:E; [|exists a; auto]. destruct (IH H) as (x & Hin & Hx). exists x. auto.
Qed.

Lemma tw_combine_seq_nth : forall (A : Type) (l : list A) a j q,
  In (j, q) (combine (seq a (length l)) l) -> (a <= j)%nat /\ nth_error l (j - a) = Some q.
Proof.
  induction l as [|x r IH]; intros a j q Hin; cbn in Hin; [contradiction|].
  destruct Hin as [Hin|Hin].
  - injection Hin as <- <-. split; [lia|]. rewrite Nat.sub_diag. reflexivity.
  - apply IH in Hin. destruct Hin as (Hle & Hn). split; [lia|].
    replace (j - a)%nat with (S (j - S a)) by lia. exact Hn.
Qed.

Lemma tw_others_done_false : forall s i, tw_others_done s i = false ->
  exists j q, nth_error (tw_prods s) j = Some q /\ j <> i /\ tw_pt_pc q <> TwPDone.
Proof.
  intros s i H. unfold tw_others_done in H. apply tw_forallb_false in H. destruct H as (b & Hin & Hb). subst b.
  apply in_map_iff in Hin. destruct Hin as ((j & q) & Hx & Hin). cbn [fst snd] in Hx.
  apply Bool.orb_false_iff in Hx. destruct Hx as (H1 & H2). apply Nat.eqb_neq in H1.
  apply tw_combine_seq_nth in Hin. destruct Hin as (_ & Hn). rewrite Nat.sub_0_r in Hn.
  exists j, q. split; auto. split; auto. intro E. unfold tw_pdone in H2. rewrite E in H2. discriminate.
Qed.

(* C07 no_deadlock, repaired close: in every reachable state either everything is finished, or some thread
   sleeps (time will wake it), or some thread can take a step *)
Lemma tw_no_deadlock : forall cap progs s, tw_wf cap progs -> tw_wf_close progs -> tw_wf_live progs ->
  tw_reach true cap progs s ->
  tw_final s = true \/ tw_some_sleeping s = true \/ exists t, tw_step true s t <> None.
Proof.
  intros cap progs s Hwf Hwc Hwl HR.
  destruct (tw_final s) eqn:Efin; auto. destruct (tw_some_sleeping s) eqn:Esl; auto. right. right.
  destruct (tw_some_enabled true s) eqn:Een.
  { unfold tw_some_enabled in Een. apply existsb_exists in Een. destruct Een as (t & _ & Ht). exists t.
    unfold tw_enabled in Ht. destruct (tw_step true s t); [discriminate|discriminate]. }
  exfalso. pose proof (tw_not_enabled_all _ _ Een) as Hnone.
  destruct (tw_all_reach _ _ _ _ Hwf Hwc HR) as (HL & HF & HH & HW & (K1 & K2 & K3 & K4 & K5) & HJ).
  destruct (tw_live_reach _ _ _ _ Hwf Hwc Hwl HR) as (W0 & W1 & W2 & J1 & Q2 & O1 & D1).
  pose proof HF as (Hf & Hz & es & HRep & HC & HSz & HHd & HA).
  (* no mutex is held *)
  assert (HM : tw_mM s = None).
  { destruct (tw_mM s) as [t|] eqn:E; auto. exfalso. apply (tw_holder_enabled true s t HL Hf); auto. }
  assert (HP : tw_mP s = None).
  { destruct (tw_mP s) as [t|] eqn:E; auto. exfalso. apply (tw_holder_enabled true s t HL Hf); auto. }
  assert (HE : tw_mE s = None).
  { destruct (tw_mE s) as [t|] eqn:E; auto. exfalso. apply (tw_holder_enabled true s t HL Hf); auto. }
  (* nobody sleeps *)
  assert (Hns : forall i p, nth_error (tw_prods s) i = Some p -> tw_psleeping s p = false).
  { intros i p Hn. unfold tw_some_sleeping in Esl. destruct (tw_psleeping s p) eqn:E; auto.
    assert (existsb (tw_psleeping s) (tw_prods s) = true); [|congruence].
    apply existsb_exists. exists p. split; auto. eapply nth_error_In; eauto. }
  (* where a blocked producer can be *)
  assert (Hpb : forall i p, nth_error (tw_prods s) i = Some p ->
            tw_pt_pc p = TwPDone \/ (tw_pt_pc p = TwPStart /\ i <> 0%nat /\ tw_opened s = false) \/
            (tw_pt_pc p = TwPHJoin /\ tw_others_done s i = false) \/ (tw_pt_pc p = TwPJoin /\ tw_cpc s <> TwCDone)).
  { intros i p Hn. pose proof (Hnone (TwTProd i)) as Hs. unfold tw_step in Hs. rewrite Hf, Hn in Hs.
    destruct (tw_pstep_none _ _ _ _ Hs) as [H|[H|[H|[H|[H|[(_ & H)|[(_ & H)|(_ & H)]]]]]]]; auto; try congruence.
    rewrite (Hns _ _ Hn) in H. discriminate. }
  (* the consumer *)
  assert (Hcb : tw_cpc s = TwCDone \/ (tw_cpc s = TwCWaitReacq /\ tw_signalled s = false)).
  { pose proof (Hnone TwTCons) as Hs. unfold tw_step in Hs. rewrite Hf in Hs.
    destruct (tw_cstep_none _ Hs) as [H|[H|[(_ & H)|[(_ & H)|(_ & H)]]]]; auto; congruence. }
  destruct D1 as (p0 & Hn0 & D1).
  destruct D1 as [(Hnd0 & Hec)|(Hd0 & Hcd & Ho)].
  2: { (* everything is finished *)
    unfold tw_final in Efin. rewrite Hcd, Bool.andb_true_r in Efin. apply tw_forallb_false in Efin.
    destruct Efin as (q & Hin & Hq). apply In_nth_error in Hin. destruct Hin as (j & Hj).
    unfold tw_pdone in Hq. destruct (Nat.eq_dec j 0) as [->|Hne].
    - rewrite Hn0 in Hj. injection Hj as <-. rewrite Hd0 in Hq. discriminate.
    - rewrite (Ho _ _ Hj Hne) in Hq. discriminate. }
  destruct (Hpb _ _ Hn0) as [H|[(_ & H & _)|[(Hpc & Hod)|(Hpc & Hcn)]]]; [contradiction|contradiction| |].
  - (* producer 0 waits for another producer: that one is blocked too, but cannot be *)
    destruct (tw_others_done_false _ _ Hod) as (j & q & Hj & Hne & Hqd).
    destruct (Hpb _ _ Hj) as [H|[(Hs & _ & Hop)|[(Hq & _)|(Hq & _)]]]; [contradiction| | |].
    + rewrite (O1 Hop _ _ Hn0) in Hpc. discriminate.
    + pose proof (HH _ _ Hj) as Hhd. unfold tw_head_ok in Hhd. rewrite Hq in Hhd. destruct Hhd as (r & Er).
      pose proof (HW _ _ Hj) as Hc. destruct j; [contradiction|]. cbn in Hc. apply Hc. rewrite Er. left. reflexivity.
    + pose proof (HH _ _ Hj) as Hhd. unfold tw_head_ok in Hhd. rewrite Hq in Hhd. destruct Hhd as (r & Er).
      pose proof (HW _ _ Hj) as Hc. destruct j; [contradiction|]. cbn in Hc. apply Hc. rewrite Er. left. reflexivity.
  - (* producer 0 waits for the writer thread, which waits for the event *)
    destruct Hcb as [Hc|(Hc & Hsg)]; [contradiction|].
    assert (Hcl : tw_has_close s) by (apply (J1 eq_refl 0%nat p0); auto; rewrite Hpc; reflexivity).
    destruct Hcl as (e & Hin & Hk).
    assert (Hm : In (snd e) (tw_acc_msgs s)) by (unfold tw_acc_msgs; apply in_map; exact Hin).
    rewrite HA in Hm. apply in_app_or in Hm. destruct Hm as [Hm|Hm].
    + assert (Hq : tw_quit s = true) by (apply Q2; exists (snd e); auto).
      destruct (K5 Hq) as [Hx|Hx]; rewrite Hc in Hx; discriminate.
    + assert (Hun : tw_unprocessed s <> []) by (intro E; rewrite E in Hm; contradiction).
      assert (Hid : tw_cidle s = true) by (unfold tw_cidle; rewrite Hc; reflexivity).
      destruct (W2 Hid Hun) as [Hfl|(j & q & Hj & Hw)].
      * destruct (W1 Hc Hsg Hfl) as (j & q & Hj & Hs).
        destruct (Hpb _ _ Hj) as [H|[(H & _)|[(H & _)|(H & _)]]]; rewrite H in Hs; discriminate.
      * destruct (Hpb _ _ Hj) as [H|[(H & _)|[(H & _)|(H & _)]]]; rewrite H in Hw; discriminate.
Qed.

Lemma tw_ex_wf_live : tw_wf_live tw_ex_prog /\ tw_wf_live tw_hang_prog.
Proof.
  split.
  - eexists. eexists. split; [reflexivity|]. exists [TwCFlush; TwCSend TwMkUser (repeat 7 59); TwCFlush]. reflexivity.
  - eexists. eexists. split; [reflexivity|]. exists [TwCSend TwMkUser (repeat 7 59); TwCSend TwMkUser (repeat 8 19)]. reflexivity.
Qed.

(* ---------- flush tickets ---------- *)
Definition tw_is_flushed (e : tw_ev) : bool := match e with TwEvFlushed _ _ _ => true | _ => false end.
Definition tw_tickets_of (s : tw_state) : list tw_ev := filter tw_is_ticket (tw_trace s).
Definition tw_flushed_of (s : tw_state) : list tw_ev := filter tw_is_flushed (tw_trace s).

(* producer i is inside jls_twr_flush with ticket id taken when `mark` messages had been accepted *)
Definition tw_in_flush (pc : tw_ppc) (id : N) (mark : nat) : Prop :=
  match pc with
  | TwPTicketUnlock id' mark' | TwPFlushSleep id' mark' _ | TwPFlushWake id' mark' _ _ => id' = id /\ mark' = mark
  | TwPSendLock c | TwPSendUnlock c _ | TwPSendSleep c | TwPSendWake c _ => tw_sd_k c = TwKFlush id mark
  | TwPSigLock k | TwPSigSignal k | TwPSigUnlock k => k = TwKFlush id mark
  | _ => False
  end.

Lemma tw_begin_ghost : forall cs i s idx s' p', tw_begin i s cs idx = (s', p') ->
  tw_tickets_of s' = tw_tickets_of s /\ tw_flushed_of s' = tw_flushed_of s /\ (forall id mark, ~ tw_in_flush (tw_pt_pc p') id mark).
Proof.
  unfold tw_tickets_of, tw_flushed_of.
  induction cs as [|c r IH]; intros i s idx s' p' H; cbn [tw_begin] in H.
  - injection H as <- <-. repeat split; auto.
  - destruct c.
    + injection H as <- <-. repeat split; auto.
    + destruct (tw_is_fsr k && tw_drop s); [|unfold tw_send_begin in H]; injection H as <- <-; repeat split; auto;
        intros id mark Hx; cbn in Hx; discriminate.
    + injection H as <- <-. repeat split; auto.
    + apply IH in H. destruct H as (H1 & H2 & H3). rewrite H1, H2. repeat split; auto.
    + destruct (Nat.ltb 1 (tw_nprod s)); [|unfold tw_send_begin in H]; injection H as <- <-; repeat split; auto;
        intros id mark Hx; cbn in Hx; discriminate.
Qed.

Lemma tw_ret_ghost : forall i s p rc s' p', tw_ret i s p rc = (s', p') ->
  tw_tickets_of s' = tw_tickets_of s /\ tw_flushed_of s' = tw_flushed_of s /\ (forall id mark, ~ tw_in_flush (tw_pt_pc p') id mark).
Proof.
  intros i s p rc s' p' H. unfold tw_ret in H. destruct (tw_pt_calls p) as [|c r].
  - eapply tw_begin_ghost; eauto.
  - apply tw_begin_ghost in H. destruct H as (H1 & H2 & H3). unfold tw_tickets_of, tw_flushed_of in *. tw_proj.
    cbn [filter tw_is_ticket tw_is_flushed] in *. auto.
Qed.

Lemma tw_send_done_ghost : forall fx i s p k ok s' p', tw_send_done fx i s p k ok = (s', p') ->
  tw_tickets_of s' = tw_tickets_of s /\
  (tw_flushed_of s' = tw_flushed_of s \/
   (exists id mark, k = TwKFlush id mark /\ id <= tw_proc_id s /\
      tw_flushed_of s' = TwEvFlushed (TwTProd i) (tw_pt_idx p) mark :: tw_flushed_of s)) /\
  (forall id mark, tw_in_flush (tw_pt_pc p') id mark -> k = TwKFlush id mark /\ tw_pt_idx p' = tw_pt_idx p).
Proof.
  intros fx i s p k ok s' p' H. unfold tw_send_done in H. destruct k as [|id mark|].
  - apply tw_ret_ghost in H. destruct H as (H1 & H2 & H3). split; auto. split; auto. intros id mark Hx. exfalso. eapply H3; eauto.
  - destruct (id <=? tw_proc_id (tw_log (TwEvNow (TwTProd i) (tw_now s)) s)) eqn:E.
    + apply tw_ret_ghost in H. destruct H as (H1 & H2 & H3). unfold tw_tickets_of, tw_flushed_of in *. tw_proj.
      cbn [filter tw_is_ticket tw_is_flushed] in *. split; auto. split.
      * right. exists id, mark. split; auto. split; [apply N.leb_le; exact E|exact H2].
      * intros id' mark' Hx. exfalso. eapply H3; eauto.
    + injection H as <- <-. unfold tw_tickets_of, tw_flushed_of. tw_proj. cbn [filter tw_is_ticket tw_is_flushed].
      split; auto. split; auto. intros id' mark' (-> & ->). auto.
  - destruct (ok || negb fx); [|unfold tw_send_begin in H]; injection H as <- <-; unfold tw_tickets_of, tw_flushed_of; tw_proj;
      cbn [filter tw_is_ticket tw_is_flushed]; (split; auto; split; auto); intros id mark Hx; cbn in Hx; try contradiction; discriminate.
Qed.

Definition tw_psum3 (s : tw_state) (i : nat) (p : tw_pthread) (s' : tw_state) : Prop :=
  exists p1, nth_error (tw_prods s') i = Some p1 /\
    tw_proc_id s' = tw_proc_id s /\
    ((tw_tickets_of s' = tw_tickets_of s /\ tw_send_id s' = tw_send_id s) \/
     (tw_pt_pc p = TwPTicketLock /\
      tw_send_id s' = (tw_send_id s + 1) mod 18446744073709551616 /\
      tw_tickets_of s' = TwEvTicket (TwTProd i) (tw_pt_idx p) ((tw_send_id s + 1) mod 18446744073709551616) (length (tw_accepted s)) :: tw_tickets_of s /\
      tw_pt_pc p1 = TwPTicketUnlock ((tw_send_id s + 1) mod 18446744073709551616) (length (tw_accepted s)) /\ tw_pt_idx p1 = tw_pt_idx p)) /\
    (tw_flushed_of s' = tw_flushed_of s \/
     (exists id mark, tw_in_flush (tw_pt_pc p) id mark /\ id <= tw_proc_id s /\
        tw_flushed_of s' = TwEvFlushed (TwTProd i) (tw_pt_idx p) mark :: tw_flushed_of s)) /\
    (forall id mark, tw_in_flush (tw_pt_pc p1) id mark ->
       (tw_in_flush (tw_pt_pc p) id mark /\ tw_pt_idx p1 = tw_pt_idx p) \/ tw_pt_pc p = TwPTicketLock).

Lemma tw_pstep_sum3 : forall fx s i p s', nth_error (tw_prods s) i = Some p -> tw_pstep fx s i p = Some s' ->
  tw_psum3 s i p s' \/ (exists f, s' = tw_set_fault s (Some f)).
Proof.
  intros fx s i p s' Hn HS. unfold tw_pstep in HS.
  assert (Hnth : forall X Y, tw_prods X = tw_prods s -> nth_error (tw_prods (tw_setp X i Y)) i = Some Y).
  { intros X Y E. tw_proj. rewrite E. eapply tw_nth_upd_eq; eauto. }
  destruct (tw_pt_pc p) eqn:Epc; tw_pcases HS; try (right; injection HS as <-; eexists; reflexivity).
  all: left.
  all: try match type of HS with context [if (?j =? 0)%nat then tw_set_opened ?s0 true else ?s0] => destruct (j =? 0)%nat eqn:Ei0 end.
  all: try (tw_helper HS; injection HS as <-; exists p2; rewrite ?Epc;
            pose proof F as F0; tw_use_frame F0;
            split; [apply Hnth; tw_proj; congruence|];
            split; [tw_proj; congruence|];
            first [ pose proof (tw_begin_ghost _ _ _ _ _ _ EX) as (G1 & G2 & G3)
                  | pose proof (tw_ret_ghost _ _ _ _ _ _ EX) as (G1 & G2 & G3)
                  | pose proof (tw_send_done_ghost _ _ _ _ _ _ _ _ EX) as (G1 & G2 & G3) ];
            unfold tw_tickets_of, tw_flushed_of in *; tw_proj; cbn [filter tw_is_ticket tw_is_flushed] in *;
            split; [left; split; [exact G1|congruence]|];
            split; [first [left; exact G2
                          |destruct G2 as [G2|(id0 & mark0 & Gk & Gle & G2)];
                           [left; exact G2|right; exists id0, mark0; cbn [tw_in_flush]; rewrite ?Gk; repeat split; auto]]|];
            intros id0 mark0 Hif;
            first [ exfalso; eapply G3; eauto
                  | destruct (G3 _ _ Hif) as (Gk & Gi); left; cbn [tw_in_flush]; rewrite ?Gk; auto ]).
  all: try (injection HS as <-; cbn [fst snd];
     match goal with |- tw_psum3 _ _ _ (tw_setp ?A _ ?B) => exists B end; rewrite ?Epc;
     split; [apply Hnth; tw_proj; try (destruct (tw_cpc s)); reflexivity|];
     split; [tw_proj; try (destruct (tw_cpc s)); reflexivity|];
     unfold tw_tickets_of, tw_flushed_of; tw_proj; cbn [filter tw_is_ticket tw_is_flushed];
     split; [first [left; split; try (destruct (tw_cpc s)); reflexivity | right; repeat split; reflexivity]|];
     split; [left; try (destruct (tw_cpc s)); reflexivity|];
     intros id0 mark0 Hif; cbn [tw_in_flush tw_with_pc tw_pt_pc tw_sd_k] in *;
     first [ contradiction | discriminate Hif | right; reflexivity
           | left; split; [exact Hif|reflexivity]
           | left; split; [injection Hif; auto|reflexivity] ]).
  (* jls_twr_flush returns 0 after a poll *)
  tw_helper HS. injection HS as <-. exists p2. rewrite ?Epc. pose proof F as F0. tw_use_frame F0.
  pose proof (tw_ret_ghost _ _ _ _ _ _ EX) as (G1 & G2 & G3).
  unfold tw_tickets_of, tw_flushed_of in *. tw_proj. cbn [filter tw_is_ticket tw_is_flushed] in *.
  split; [apply Hnth; tw_proj; congruence|]. split; [congruence|].
  split; [left; split; [exact G1|congruence]|].
  split; [right; exists id, mark; cbn [tw_in_flush]; split; [auto|]; split; [|exact G2]|].
  - match goal with H : (id <=? tw_proc_id s) = true |- _ => apply N.leb_le in H; exact H end.
  - intros id0 mark0 Hif. exfalso. eapply G3; eauto.
Qed.

Lemma tw_filter_poppeek : forall (f : tw_ev -> bool) evs l,
  (forall t r, f (TwEvPop t r) = false) -> (forall t r, f (TwEvPeek t r) = false) ->
  Forall (fun e => match e with TwEvPop _ _ | TwEvPeek _ _ => True | _ => False end) evs ->
  filter f (evs ++ l) = filter f l.
Proof.
  intros f evs l H1 H2 H. induction H as [|e r He Hr IH]; [reflexivity|].
  cbn. destruct e; try contradiction; rewrite ?H1, ?H2; exact IH.
Qed.

Lemma tw_cstep_ghost : forall s s', tw_cstep s = Some s' ->
  tw_tickets_of s' = tw_tickets_of s /\ tw_flushed_of s' = tw_flushed_of s /\ tw_send_id s' = tw_send_id s /\
  ((tw_processed s' = tw_processed s /\ tw_proc_id s' = tw_proc_id s) \/
   (exists m, tw_processed s' = tw_processed s ++ [m] /\
      tw_proc_id s' = (if tw_kind_of m =? 1 then N.max (tw_flush_id m) (tw_proc_id s) else tw_proc_id s))).
Proof.
  intros s s' HS. unfold tw_cstep in HS. unfold tw_tickets_of, tw_flushed_of, tw_processed.
  destruct (tw_cpc s) eqn:Ecpc; tw_ccases HS;
    try solve [injection HS as <-; tw_proj; cbn [filter tw_is_ticket tw_is_flushed]; repeat split; auto].
  - match type of HS with match ?X with _ => _ end = _ => destruct X as [s3|f] eqn:EX end; injection HS as <-.
    + apply tw_cstep_lockM in EX; [|reflexivity]. destruct EX as (qa & ra & qb & rb & tr & Epop & Epeek & -> & evs & -> & Hev).
      tw_proj. rewrite !tw_filter_poppeek by (auto; intros; reflexivity). cbn [filter tw_is_ticket tw_is_flushed]. repeat split; auto.
    + tw_proj. repeat split; auto.
  - injection HS as <-. unfold tw_dispatch.
    destruct (tw_kind_of rm =? 0) eqn:E0; [|destruct (tw_kind_of rm =? 1) eqn:E1]; tw_proj;
      cbn [filter tw_is_ticket tw_is_flushed]; rewrite tw_msgs_of_app; cbn [tw_msgs_of];
      (split; [reflexivity|]; split; [reflexivity|]; split; [reflexivity|]); right; exists rm; rewrite ?E1; auto.
    apply N.eqb_eq in E0. rewrite E0. auto.
Qed.

(* ---------- flush_post ---------- *)
Lemma tw_of_le_le : forall n x, tw_of_le (tw_le n x) = x mod 256 ^ N.of_nat n.
Proof.
  induction n as [|n IH]; intros x.
  - cbn. rewrite N.mod_1_r. reflexivity.
  - cbn [tw_le tw_of_le fold_right]. fold (tw_of_le (tw_le n (x / 256))). rewrite IH.
    rewrite Nat2N.inj_succ, N.pow_succ_r'. rewrite N.mod_mul_r; [reflexivity|discriminate|].
    apply N.pow_nonzero. discriminate.
Qed.

Lemma tw_flush_id_msg : forall id, tw_flush_id (tw_flush_msg id) = id mod 18446744073709551616.
Proof.
  intros id. unfold tw_flush_id, tw_flush_msg.
  change (skipn 32 (1 :: repeat 0 31 ++ tw_le 8 id)) with (tw_le 8 id).
  change (firstn 8 (tw_le 8 id)) with (tw_le 8 id). rewrite tw_of_le_le. reflexivity.
Qed.

Definition tw_NW (s : tw_state) : Prop := N.of_nat (length (tw_tickets_of s)) < 18446744073709551616.

Definition tw_flush_inv (s : tw_state) : Prop :=
  (tw_NW s -> tw_send_id s = N.of_nat (length (tw_tickets_of s))) /\
  (forall t idx id mark, In (TwEvTicket t idx id mark) (tw_tickets_of s) ->
     (mark <= length (tw_accepted s))%nat /\ (tw_NW s -> 1 <= id /\ id <= tw_send_id s)) /\
  (tw_NW s -> forall e, In e (tw_accepted s) -> tw_kind_of (snd e) = 1 -> tw_flush_id (snd e) <= tw_send_id s) /\
  (tw_NW s -> forall k e, nth_error (tw_accepted s) k = Some e -> tw_kind_of (snd e) = 1 ->
     forall t idx id mark, In (TwEvTicket t idx id mark) (tw_tickets_of s) -> id <= tw_flush_id (snd e) -> (mark <= k)%nat) /\
  (forall i p id mark, nth_error (tw_prods s) i = Some p -> tw_in_flush (tw_pt_pc p) id mark ->
     In (TwEvTicket (TwTProd i) (tw_pt_idx p) id mark) (tw_tickets_of s)) /\
  (tw_proc_id s = 0 \/ exists k m, nth_error (tw_processed s) k = Some m /\ tw_kind_of m = 1 /\ tw_flush_id m = tw_proc_id s) /\
  (tw_NW s -> forall t idx mark, In (TwEvFlushed t idx mark) (tw_flushed_of s) ->
     exists k m id, (mark <= k)%nat /\ nth_error (tw_processed s) k = Some m /\ tw_kind_of m = 1 /\
                    In (TwEvTicket t idx id mark) (tw_tickets_of s)).

Lemma tw_kind_user1 : forall k body, tw_kind_of (tw_user_msg k body) <> 1.
Proof. intros k body. unfold tw_kind_of, tw_user_msg. cbn. destruct k; cbn; discriminate. Qed.

Lemma tw_flush_cstep : forall s s', tw_flush_inv s -> tw_cstep s = Some s' -> tw_flush_inv s'.
Proof.
  intros s s' (F0 & F4 & F3 & F2 & F7 & F8 & FP) HS.
  pose proof (tw_cstep_prods _ _ HS) as Hp.
  destruct (tw_cstep_facts _ _ HS) as (_ & Ha & _).
  destruct (tw_cstep_ghost _ _ HS) as (Gt & Gf & Gs & Gp).
  unfold tw_flush_inv, tw_NW. rewrite Gt, Gf, Gs, Ha, Hp.
  split; [exact F0|]. split; [exact F4|]. split; [exact F3|]. split; [exact F2|]. split; [exact F7|].
  destruct Gp as [(Gp1 & Gp2)|(m & Gp1 & Gp2)].
  - rewrite Gp1, Gp2. split; [exact F8|exact FP].
  - rewrite Gp1, Gp2. split.
    + destruct (tw_kind_of m =? 1) eqn:Ek.
      * apply N.eqb_eq in Ek. destruct (N.max_spec (tw_flush_id m) (tw_proc_id s)) as [(Hlt & ->)|(Hle & ->)].
        -- destruct F8 as [F8|(k & m0 & Hk & Hk1 & Hk2)]; [left; exact F8|right].
           exists k, m0. split; [rewrite nth_error_app1; auto; apply nth_error_Some; congruence|auto].
        -- right. exists (length (tw_processed s)), m. split; [rewrite nth_error_app2, Nat.sub_diag; auto|auto].
      * destruct F8 as [F8|(k & m0 & Hk & Hk1 & Hk2)]; [left; exact F8|right].
        exists k, m0. split; [rewrite nth_error_app1; auto; apply nth_error_Some; congruence|auto].
    + intros HN t idx mark Hin. destruct (FP HN t idx mark Hin) as (k & m0 & id0 & Hle & Hk & Hk1 & Htk).
      exists k, m0, id0. split; auto. split; [|auto]. rewrite nth_error_app1; auto. apply nth_error_Some. congruence.
Qed.

Lemma tw_flush_pstep : forall fx cap s i p s', tw_all_inv cap s -> tw_fifo cap s' -> tw_flush_inv s ->
  nth_error (tw_prods s) i = Some p -> tw_pstep fx s i p = Some s' -> tw_flush_inv s'.
Proof.
  intros fx cap s i p s' HA HF' (F0 & F4 & F3 & F2 & F7 & F8 & FP) Hn HS.
  destruct HA as (HL & HF & HH & HW & HK & HJ).
  destruct (tw_pstep_sum _ _ _ _ _ (HH _ _ Hn) HS) as [SUM|(f & ->)].
  2: { destruct HF' as (Hf & _). discriminate. }
  destruct (tw_pstep_sum3 _ _ _ _ _ Hn HS) as [SUM3|(f & ->)].
  2: { destruct HF' as (Hf & _). discriminate. }
  destruct SUM as (s1 & p1 & Es' & Sp & Sc & Sh & Sf & Sfl & Sq & Sa & SE1 & SE2 & (pre & Spre) & Sap & Scs).
  destruct SUM3 as (p1' & Hself & Gproc & Gt & Gf & Gin).
  assert (p1' = p1) as ->.
  { assert (nth_error (tw_prods s') i = Some p1) by (rewrite Es'; tw_proj; rewrite Sp; eapply tw_nth_upd_eq; eauto). congruence. }
  assert (Hoth : forall j q, j <> i -> nth_error (tw_prods s') j = Some q -> nth_error (tw_prods s) j = Some q).
  { intros j q Hne Hq. rewrite Es' in Hq. tw_proj. rewrite Sp in Hq. rewrite tw_nth_upd_neq in Hq by congruence. exact Hq. }
  assert (Eproc : tw_processed s' = tw_processed s).
  { unfold tw_processed. rewrite Es'. tw_proj. destruct Sap as [Sap|[(d & Sap)|(_ & _ & Sap & _)]]; rewrite Sap; auto;
      rewrite tw_msgs_of_app; cbn; rewrite app_nil_r; reflexivity. }
  (* accepted: unchanged, or one message appended by a send *)
  assert (Eacc : tw_accepted s' = tw_accepted s \/
                 (exists c, tw_pt_pc p = TwPSendLock c /\ tw_accepted s' = tw_accepted s ++ [(i, tw_pt_idx p, tw_sd_msg c)])).
  { rewrite Es'. tw_proj. destruct Sa as [(_ & Sa)|(c & q1 & a & Epc & _ & _ & _ & Sa & _)]; [left; exact Sa|right; exists c; auto]. }
  assert (Hlen : (length (tw_accepted s) <= length (tw_accepted s'))%nat).
  { destruct Eacc as [->|(c & _ & ->)]; [lia|rewrite app_length; lia]. }
  (* tickets: unchanged, or one new ticket *)
  assert (Htsub : forall e, In e (tw_tickets_of s) -> In e (tw_tickets_of s')).
  { intros e He. destruct Gt as [(-> & _)|(_ & _ & -> & _)]; [exact He|right; exact He]. }
  assert (HNW : tw_NW s' -> tw_NW s).
  { unfold tw_NW. destruct Gt as [(-> & _)|(_ & _ & -> & _)]; [auto|]. cbn [length]. lia. }
  assert (Hsid : tw_NW s' -> tw_send_id s <= tw_send_id s').
  { intro HN. destruct Gt as [(_ & ->)|(_ & -> & Et & _)]; [lia|].
    pose proof (F0 (HNW HN)) as E0. unfold tw_NW in HN. rewrite Et in HN. cbn [length] in HN.
    rewrite N.mod_small by lia. lia. }
  split; [|split; [|split; [|split; [|split; [|split]]]]].
  - (* F0 *)
    intro HN. pose proof (F0 (HNW HN)) as E0. destruct Gt as [(Et & Es)|(_ & Es & Et & _)].
    + rewrite Et, Es. exact E0.
    + rewrite Es, Et. cbn [length]. unfold tw_NW in HN. rewrite Et in HN. cbn [length] in HN. rewrite N.mod_small by lia. lia.
  - (* F4 *)
    intros t idx id mark Hin.
    assert (Hold : In (TwEvTicket t idx id mark) (tw_tickets_of s) -> (mark <= length (tw_accepted s'))%nat /\ (tw_NW s' -> 1 <= id /\ id <= tw_send_id s')).
    { intro Ho. destruct (F4 _ _ _ _ Ho) as (H1 & H2). split; [lia|]. intro HN. destruct (H2 (HNW HN)). pose proof (Hsid HN). lia. }
    destruct Gt as [(Et & Es)|(Epc & Es & Et & _)]; [rewrite Et in Hin; auto|].
    rewrite Et in Hin. destruct Hin as [Hin|Hin]; [|auto]. injection Hin as <- <- <- <-.
    split; [exact Hlen|]. intro HN. rewrite Es. pose proof (F0 (HNW HN)) as E0. unfold tw_NW in HN. rewrite Et in HN. cbn [length] in HN.
    rewrite N.mod_small by lia. lia.
  - (* F3 *)
    intros HN e Hin Hk. pose proof (Hsid HN) as Hs. destruct Eacc as [Ea|(c & Epc & Ea)]; rewrite Ea in Hin.
    + pose proof (F3 (HNW HN) e Hin Hk). lia.
    + apply in_app_or in Hin. destruct Hin as [Hin|[<-|[]]]; [pose proof (F3 (HNW HN) e Hin Hk); lia|].
      cbn [snd] in *. pose proof (HH _ _ Hn) as Hhd. unfold tw_head_ok in Hhd. rewrite Epc in Hhd. cbn [tw_pc_head] in Hhd.
      unfold tw_send_head in Hhd. destruct (tw_sd_k c) as [|id mark|] eqn:Ek.
      * destruct Hhd as (mk & body & r & _ & Em). rewrite Em in Hk. exfalso. eapply tw_kind_user1; eauto.
      * destruct Hhd as (_ & Em). rewrite Em, tw_flush_id_msg.
        assert (Hif : tw_in_flush (tw_pt_pc p) id mark) by (rewrite Epc; exact Ek).
        destruct (F4 _ _ _ _ (F7 _ _ _ _ Hn Hif)) as (_ & H2). destruct (H2 (HNW HN)) as (H3 & H4).
        pose proof (N.mod_le id 18446744073709551616 ltac:(discriminate)). lia.
      * destruct Hhd as (_ & Em). rewrite Em in Hk. discriminate.
  - (* F2 *)
    intros HN k e Hk Hk1 t idx id mark Hin Hle.
    assert (Hkold : (k < length (tw_accepted s))%nat -> nth_error (tw_accepted s) k = Some e).
    { intro Hlt. destruct Eacc as [Ea|(c & _ & Ea)]; rewrite Ea in Hk; auto. rewrite nth_error_app1 in Hk; auto. }
    destruct (Nat.lt_ge_cases k (length (tw_accepted s))) as [Hlt|Hge].
    + (* an old entry *)
      pose proof (Hkold Hlt) as Hk0.
      destruct Gt as [(Et & Es)|(Epc & Es & Et & _)]; rewrite Et in Hin.
      * eapply (F2 (HNW HN)); eauto.
      * destruct Hin as [Hin|Hin]; [|eapply (F2 (HNW HN)); eauto].
        injection Hin as <- <- <- <-. exfalso.
        pose proof (F3 (HNW HN) e (nth_error_In _ _ Hk0) Hk1) as H3. pose proof (F0 (HNW HN)) as E0.
        unfold tw_NW in HN. rewrite Et in HN. cbn [length] in HN. rewrite N.mod_small in Hle by lia. lia.
    + (* the entry that has just been queued: every ticket was taken before *)
      assert (Hm : (mark <= length (tw_accepted s))%nat).
      { destruct Gt as [(Et & Es)|(Epc & Es & Et & _)]; rewrite Et in Hin.
        - destruct (F4 _ _ _ _ Hin); auto.
        - destruct Hin as [Hin|Hin]; [injection Hin as <- <- <- <-; lia|destruct (F4 _ _ _ _ Hin); auto]. }
      lia.
  - (* F7 *)
    intros j q id mark Hq Hif. destruct (Nat.eq_dec j i) as [->|Hne].
    + rewrite Hself in Hq. injection Hq as <-. destruct (Gin _ _ Hif) as [(Hold & Hidx)|Epc].
      * rewrite Hidx. apply Htsub. eapply F7; eauto.
      * destruct Gt as [(Et & Es)|(_ & Es & Et & Epc1 & Hidx)].
        -- exfalso. rewrite Epc in *. (* tickets unchanged at the ticket step: impossible *)
           clear - HS Et Epc. unfold tw_pstep in HS. rewrite Epc in HS. destruct (tw_free (tw_mM s)); [|discriminate].
           injection HS as <-. unfold tw_tickets_of in Et. tw_proj. cbn [filter tw_is_ticket] in Et.
           apply (f_equal (@length _)) in Et. cbn [length] in Et. lia.
        -- rewrite Et, Hidx. rewrite Epc1 in Hif. destruct Hif as (<- & <-). left. reflexivity.
    + apply Htsub. eapply F7; eauto.
  - (* F8 *)
    rewrite Gproc, Eproc. exact F8.
  - (* FP *)
    intros HN t idx mark Hin. rewrite Eproc.
    assert (Hold : In (TwEvFlushed t idx mark) (tw_flushed_of s) ->
              exists k m id, (mark <= k)%nat /\ nth_error (tw_processed s) k = Some m /\ tw_kind_of m = 1 /\
                             In (TwEvTicket t idx id mark) (tw_tickets_of s')).
    { intro Ho. destruct (FP (HNW HN) _ _ _ Ho) as (k & m & id & H1 & H2 & H3 & H4). exists k, m, id. auto. }
    destruct Gf as [Ef|(id & mark0 & Hif & Hle & Ef)]; rewrite Ef in Hin; [auto|].
    destruct Hin as [Hin|Hin]; [|auto]. injection Hin as <- <- <-.
    pose proof (F7 _ _ _ _ Hn Hif) as Htk. destruct (F4 _ _ _ _ Htk) as (_ & H2). destruct (H2 (HNW HN)) as (H3 & H4).
    destruct F8 as [F8|(k & m & Hk & Hk1 & Hk2)]; [lia|].
    exists k, m, id. split; [|auto].
    (* the processed flush message is in accepted at the same position *)
    destruct HF as (_ & _ & es & _ & _ & _ & _ & HAq).
    assert (Hacc : nth_error (tw_acc_msgs s) k = Some m).
    { rewrite HAq. rewrite nth_error_app1; auto. apply nth_error_Some. congruence. }
    unfold tw_acc_msgs in Hacc. rewrite nth_error_map in Hacc. destruct (nth_error (tw_accepted s) k) as [e|] eqn:Ee; [|discriminate].
    injection Hacc as Hm. eapply (F2 (HNW HN) k e Ee); [rewrite Hm; exact Hk1|exact Htk|rewrite Hm; lia].
Qed.

Lemma tw_flush_reach : forall fx cap progs s, tw_wf cap progs -> tw_wf_close progs -> tw_reach fx cap progs s -> tw_flush_inv s.
Proof.
  intros fx cap progs s Hwf Hwc HR. induction HR as [|s t s' HR IH HS|s d HR IH].
  - unfold tw_flush_inv, tw_NW, tw_tickets_of, tw_flushed_of, tw_processed, tw_init. tw_proj. cbn [filter length].
    split; [reflexivity|]. split; [intros ? ? ? ? []|]. split; [intros _ ? []|]. split; [intros _ [|?] ? Hx; discriminate|].
    split; [|split; [left; reflexivity|intros _ ? ? ? []]].
    intros i p id mark Hn Hif. apply nth_error_In, in_map_iff in Hn. destruct Hn as (cs & <- & _). contradiction.
  - pose proof (tw_all_reach _ _ _ _ Hwf Hwc HR) as HA.
    pose proof (tw_fifo_reach _ _ _ _ Hwf (tw_reach_step _ _ _ _ _ _ HR HS)) as HF'.
    unfold tw_step in HS. destruct (tw_fault s); [discriminate|]. destruct t as [i|].
    + destruct (nth_error (tw_prods s) i) as [p|] eqn:En; [|discriminate]. exact (tw_flush_pstep fx cap s i p s' HA HF' IH En HS).
    + exact (tw_flush_cstep s s' IH HS).
  - destruct IH as (F0 & F4 & F3 & F2 & F7 & F8 & FP). unfold tw_flush_inv, tw_NW, tw_tickets_of, tw_flushed_of, tw_processed in *. tw_proj.
    cbn [filter tw_is_ticket tw_is_flushed].
    split; [exact F0|]. split; [exact F4|]. split; [exact F3|]. split; [exact F2|]. split; [exact F7|]. split; [exact F8|exact FP].
Qed.

(* C07 flush_post: if jls_twr_flush of thread t (its call idx) has returned 0 - the ghost event TwEvFlushed is logged in
   the step in which it returns - and its ticket was taken when `mark` messages had been accepted (TwEvTicket), then
   the first `mark` accepted messages have all been handed to the writer, in order, and a FLUSH message
   (jls_wr_flush: fsync) has been processed after the last of them.  Holds from the state in which the flush
   returns onwards (the processed list only grows).  Premise: fewer than 2^64 flush tickets so far. *)
Lemma tw_flush_post : forall fx cap progs s t idx mark,
  tw_wf cap progs -> tw_wf_close progs -> tw_reach fx cap progs s ->
  N.of_nat (tw_ntickets s) < 18446744073709551616 ->
  In (TwEvFlushed t idx mark) (tw_trace s) ->
  (exists id, In (TwEvTicket t idx id mark) (tw_trace s)) /\
  firstn mark (tw_acc_msgs s) = firstn mark (tw_processed s) /\
  exists k m, (mark <= k)%nat /\ nth_error (tw_processed s) k = Some m /\ tw_kind_of m = 1.
Proof.
  intros fx cap progs s t idx mark Hwf Hwc HR HN Hin.
  destruct (tw_flush_reach _ _ _ _ Hwf Hwc HR) as (_ & _ & _ & _ & _ & _ & FP).
  assert (Hin' : In (TwEvFlushed t idx mark) (tw_flushed_of s)) by (unfold tw_flushed_of; apply filter_In; auto).
  destruct (FP HN _ _ _ Hin') as (k & m & id & Hle & Hk & Hk1 & Htk).
  split; [exists id; unfold tw_tickets_of in Htk; apply filter_In in Htk; tauto|].
  split; [|exists k, m; auto].
  destruct (tw_fifo_reach _ _ _ _ Hwf HR) as (_ & _ & es & _ & _ & _ & _ & HA).
  rewrite HA. assert (Hlen : (mark <= length (tw_processed s))%nat).
  { assert (k < length (tw_processed s))%nat by (apply nth_error_Some; congruence). lia. }
  rewrite firstn_app. replace (mark - length (tw_processed s))%nat with 0%nat by lia. cbn [firstn]. rewrite app_nil_r. reflexivity.
Qed.

Lemma tw_ex_flush : exists s,
  tw_wf 128 tw_ex_prog /\ tw_wf_close tw_ex_prog /\ tw_reach false 128 tw_ex_prog s /\
  N.of_nat (tw_ntickets s) < 18446744073709551616 /\ In (TwEvFlushed (TwTProd 0) 2 3) (tw_trace s).
Proof.
  pose proof tw_ex_check_true as H. unfold tw_ex_check in H.
  destruct (tw_run false (tw_init 128 tw_ex_prog) tw_ex_sched) as [s|] eqn:E; [|discriminate H].
  destruct (tw_run true (tw_init 128 tw_ex_prog) tw_ex_sched) as [s'|] eqn:E'; [|discriminate H].
  destruct tw_ex_wf as (Hwf & Hwc).
  apply andb_prop in H. destruct H as (_ & C6). apply andb_prop in C6. destruct C6 as (C6 & C7).
  exists s. split; [exact Hwf|]. split; [exact Hwc|].
  split; [eapply tw_run_reach; [apply tw_reach_init|exact E]|]. clear E E'.
  apply Nat.eqb_eq in C7. rewrite C7. split; [reflexivity|].
  apply existsb_exists in C6. destruct C6 as (e & Hin & He).
  destruct e as [| | | | | | | | | | | | | | | | |t idx mark| |]; try discriminate He.
  destruct t as [[|i]|]; try discriminate He. destruct idx as [|[|[|idx]]]; try discriminate He.
  destruct mark as [|[|[|[|mark]]]]; try discriminate He. exact Hin.
Qed.

(* ---------- a call that returned an error leaves no trace; a call that returned 0 is accepted exactly once ---------- *)
Definition tw_msgs_with_id (i idx : nat) (acc : list (nat * nat * msg)) : list msg :=
  map snd (filter (fun e => Nat.eqb (fst (fst e)) i && Nat.eqb (snd (fst e)) idx) acc).

(* what the queue must have accepted from the current call of a thread (None: no statement) *)
Definition tw_expect (p : tw_pthread) : option (list msg) :=
  match tw_pt_pc p with
  | TwPSendUnlock c true => Some [tw_sd_msg c]
  | TwPSigLock TwKRet | TwPSigSignal TwKRet | TwPSigUnlock TwKRet =>
    match tw_pt_calls p with TwCSend k body :: _ => Some [tw_user_msg k body] | _ => None end
  | TwPSendLock _ | TwPSendUnlock _ false | TwPSendSleep _ | TwPSendWake _ _ | TwPStart | TwPDefLock _ | TwPDefUnlock
  | TwPTicketLock | TwPTicketUnlock _ _ | TwPHJoin | TwPDone => Some []
  | _ => None
  end.

Definition tw_new_rets (i : nat) (lo hi : nat) (old new : list tw_ev) (special : tw_ev -> Prop) : Prop :=
  forall t j c rc, In (TwEvRet t j c rc) new ->
    In (TwEvRet t j c rc) old \/ special (TwEvRet t j c rc) \/
    (t = TwTProd i /\ (lo <= j < hi)%nat /\ exists b, c = TwCFlags b).

Lemma tw_begin_rets : forall cs i s idx s' p', tw_begin i s cs idx = (s', p') ->
  (idx <= tw_pt_idx p')%nat /\ tw_expect p' = Some [] /\
  tw_new_rets i idx (tw_pt_idx p') (tw_trace s) (tw_trace s') (fun _ => False).
Proof.
  induction cs as [|c r IH]; intros i s idx s' p' H; cbn [tw_begin] in H.
  - injection H as <- <-. split; [cbn; lia|]. split; [reflexivity|]. intros t j c rc Hin. tw_proj. destruct Hin as [Hin|Hin]; [discriminate|auto].
  - destruct c.
    + injection H as <- <-. split; [cbn; lia|]. split; [reflexivity|]. intros t j c rc Hin. tw_proj. destruct Hin as [Hin|Hin]; [discriminate|auto].
    + destruct (tw_is_fsr k && tw_drop s); [|unfold tw_send_begin in H]; injection H as <- <-;
        (split; [cbn; lia|]; split; [reflexivity|]); intros t j c rc Hin; tw_proj;
        repeat (destruct Hin as [Hin|Hin]; [discriminate|]); auto.
    + injection H as <- <-. split; [cbn; lia|]. split; [reflexivity|]. intros t j c rc Hin. tw_proj. destruct Hin as [Hin|Hin]; [discriminate|auto].
    + apply IH in H. destruct H as (Hle & Hex & Hnew). split; [lia|]. split; [exact Hex|].
      intros t j c rc Hin. destruct (Hnew _ _ _ _ Hin) as [Ho|[[]|(-> & Hj & Hb)]].
      * tw_proj. destruct Ho as [Ho|[Ho|Ho]]; [|discriminate|auto].
        injection Ho as <- <- <- <-. right. right. split; [reflexivity|]. split; [lia|]. eauto.
      * right. right. split; [reflexivity|]. split; [lia|exact Hb].
    + destruct (Nat.ltb 1 (tw_nprod s)); [|unfold tw_send_begin in H]; injection H as <- <-;
        (split; [cbn; lia|]; split; [reflexivity|]); intros t j c rc Hin; tw_proj;
        repeat (destruct Hin as [Hin|Hin]; [discriminate|]); auto.
Qed.

Lemma tw_ret_rets : forall i s p rc s' p' c r, tw_pt_calls p = c :: r -> tw_ret i s p rc = (s', p') ->
  (tw_pt_idx p < tw_pt_idx p')%nat /\ tw_expect p' = Some [] /\
  tw_new_rets i (S (tw_pt_idx p)) (tw_pt_idx p') (tw_trace s) (tw_trace s')
              (fun e => e = TwEvRet (TwTProd i) (tw_pt_idx p) c rc).
Proof.
  intros i s p rc s' p' c r Ec H. unfold tw_ret in H. rewrite Ec in H.
  apply tw_begin_rets in H. destruct H as (Hle & Hex & Hnew). split; [lia|]. split; [exact Hex|].
  intros t j c0 rc0 Hin. destruct (Hnew _ _ _ _ Hin) as [Ho|[[]|H3]]; [|auto].
  tw_proj. destruct Ho as [Ho|Ho]; [right; left; symmetry; exact Ho|auto].
Qed.

Definition tw_ret_info (pc : tw_ppc) (rc : option N) : Prop :=
  (rc = Some 0 /\ pc = TwPSigUnlock TwKRet) \/
  (rc = Some tw_EBUSY /\ exists c, tw_sd_k c = TwKRet /\ (pc = TwPSendUnlock c false \/ exists w, pc = TwPSendWake c w)).

Lemma tw_send_done_rets : forall fx i s p k ok s' p' c r, tw_pt_calls p = c :: r -> tw_send_done fx i s p k ok = (s', p') ->
  (tw_pt_idx p' = tw_pt_idx p /\ (forall t j c0 rc0, In (TwEvRet t j c0 rc0) (tw_trace s') -> In (TwEvRet t j c0 rc0) (tw_trace s)) /\
   (tw_expect p' = None \/ (tw_expect p' = Some [] /\ k = TwKClose /\ ok = false))) \/
  ((tw_pt_idx p < tw_pt_idx p')%nat /\ tw_expect p' = Some [] /\ k <> TwKClose /\
   tw_new_rets i (S (tw_pt_idx p)) (tw_pt_idx p') (tw_trace s) (tw_trace s')
     (fun e => e = TwEvRet (TwTProd i) (tw_pt_idx p) c (match k with TwKRet => Some (if ok then 0 else tw_EBUSY) | _ => Some 0 end))).
Proof.
  intros fx i s p k ok s' p' c r Ec H. unfold tw_send_done in H. destruct k as [|id mark|].
  - right. destruct (tw_ret_rets _ _ _ _ _ _ _ _ Ec H) as (H1 & H2 & H3). split; auto. split; auto. split; [discriminate|exact H3].
  - destruct (id <=? _).
    + right. destruct (tw_ret_rets _ _ _ _ _ _ _ _ Ec H) as (H1 & H2 & H3). split; auto. split; auto. split; [discriminate|].
      intros t j c0 rc0 Hin. destruct (H3 _ _ _ _ Hin) as [Ho|[Ho|Ho]]; auto.
      tw_proj. destruct Ho as [Ho|[Ho|Ho]]; [discriminate|discriminate|auto].
    + injection H as <- <-. left. split; [reflexivity|]. split; [|left; reflexivity].
      intros t j c0 rc0 Hin. tw_proj. destruct Hin as [Hin|Hin]; [discriminate|auto].
  - destruct (ok || negb fx) eqn:Eok; [|unfold tw_send_begin in H]; injection H as <- <-; left.
    + split; [reflexivity|]. split; [auto|left; reflexivity].
    + split; [reflexivity|]. split; [|right; split; [reflexivity|split; [reflexivity|destruct ok; [discriminate|reflexivity]]]].
      intros t j c0 rc0 Hin. tw_proj. repeat (destruct Hin as [Hin|Hin]; [discriminate|]). auto.
Qed.

Definition tw_psum5 (s : tw_state) (i : nat) (p : tw_pthread) (s' : tw_state) : Prop :=
  exists p1, nth_error (tw_prods s') i = Some p1 /\ (tw_pt_idx p <= tw_pt_idx p1)%nat /\
  (forall t j c rc, In (TwEvRet t j c rc) (tw_trace s') -> In (TwEvRet t j c rc) (tw_trace s) \/
       (t = TwTProd i /\ (tw_pt_idx p <= j < tw_pt_idx p1)%nat /\
        (forall k body, c = TwCSend k body ->
           j = tw_pt_idx p /\ tw_ret_info (tw_pt_pc p) rc /\ exists r, tw_pt_calls p = c :: r))) /\
  ((tw_pt_idx p1 = tw_pt_idx p /\
    (tw_expect p1 = None \/ tw_expect p1 = tw_expect p \/
     (exists c, tw_pt_pc p = TwPSendLock c /\ tw_pt_pc p1 = TwPSendUnlock c true /\
                tw_accepted s' = tw_accepted s ++ [(i, tw_pt_idx p, tw_sd_msg c)]))) \/
   ((tw_pt_idx p < tw_pt_idx p1)%nat /\ tw_expect p1 = Some [])).

Lemma tw_pstep_sum5 : forall fx s i p s', nth_error (tw_prods s) i = Some p -> tw_head_ok p -> tw_pstep fx s i p = Some s' ->
  tw_psum5 s i p s' \/ (exists f, s' = tw_set_fault s (Some f)).
Proof.
  intros fx s i p s' Hn Hp HS. unfold tw_head_ok in Hp. unfold tw_pstep in HS.
  assert (Hnth : forall X Y, tw_prods X = tw_prods s -> nth_error (tw_prods (tw_setp X i Y)) i = Some Y).
  { intros X Y E. tw_proj. rewrite E. eapply tw_nth_upd_eq; eauto. }
  destruct (tw_pt_pc p) eqn:Epc; cbn [tw_pc_head] in Hp; tw_pcases HS; try (right; injection HS as <-; eexists; reflexivity).
  all: left.
  all: try match type of HS with context [if (?j =? 0)%nat then tw_set_opened ?s0 true else ?s0] => destruct (j =? 0)%nat eqn:Ei0 end.
  (* PStart *)
  1,2: tw_helper HS; injection HS as <-; exists p2; pose proof F as F0; tw_use_frame F0;
       destruct (tw_begin_rets _ _ _ _ _ _ EX) as (R1 & R2 & R3);
       (split; [apply Hnth; tw_proj; congruence|]); (split; [exact R1|]);
       (split; [intros t j c rc Hin; destruct (R3 _ _ _ _ Hin) as [Ho|[[]|(-> & Hj & (b & ->))]];
                [tw_proj; destruct Ho as [Ho|Ho]; [discriminate|auto]
                |right; split; [reflexivity|]; split; [exact Hj|intros; discriminate]]|]);
       destruct (Nat.eq_dec (tw_pt_idx p2) (tw_pt_idx p)) as [E|E];
       [left; split; [exact E|right; left; unfold tw_expect at 2; rewrite Epc; exact R2]|right; split; [lia|exact R2]].
  (* a call returns through tw_ret: definitions, flush, close *)
  all: try (tw_helper HS; injection HS as <-; exists p2; pose proof F as F0; tw_use_frame F0;
     let c0 := fresh "c0" in let r0 := fresh "r0" in let Ecs := fresh "Ecs" in
     destruct (tw_pt_calls p) as [|c0 r0] eqn:Ecs;
     [ exfalso; repeat match goal with H : exists _, _ |- _ => destruct H end; discriminate |];
     destruct (tw_ret_rets _ _ _ _ _ _ _ _ Ecs EX) as (R1 & R2 & R3);
     (split; [apply Hnth; tw_proj; congruence|]); (split; [lia|]);
     (split; [intros t j c rc Hin; destruct (R3 _ _ _ _ Hin) as [Ho|[Ho|(-> & Hj & (b & ->))]];
              [ tw_proj; repeat (destruct Ho as [Ho|Ho]; [discriminate|]); auto
              | injection Ho as -> -> -> ->; right; split; [reflexivity|]; split; [lia|];
                intros k0 b0 ->; exfalso; repeat match goal with H : exists _, _ |- _ => destruct H end; congruence
              | right; split; [reflexivity|]; split; [lia|intros; discriminate] ]|]);
     right; split; [lia|exact R2]).
  (* msg_send returns *)
  all: try (tw_helper HS; injection HS as <-; exists p2; pose proof F as F0; tw_use_frame F0;
     let c0 := fresh "c0" in let r0 := fresh "r0" in let Ecs := fresh "Ecs" in
     destruct (tw_pt_calls p) as [|c0 r0] eqn:Ecs;
     [ exfalso; unfold tw_send_head, tw_cont_head in Hp;
       repeat match goal with H : exists _, _ |- _ => destruct H | H : _ /\ _ |- _ => destruct H
                         | H : match ?k with TwKRet => _ | TwKFlush _ _ => _ | TwKClose => _ end |- _ => destruct k end;
       discriminate |];
     destruct (tw_send_done_rets _ _ _ _ _ _ _ _ _ _ Ecs EX) as [(A1 & A2 & A3)|(B1 & B2 & B3 & B4)];
     [ (split; [apply Hnth; tw_proj; congruence|]); (split; [lia|]);
       (split; [intros t j c rc Hin; left; apply A2 in Hin; tw_proj; repeat (destruct Hin as [Hin|Hin]; [discriminate|]); auto|]);
       left; split; [exact A1|]; destruct A3 as [A3|(A3 & A4 & A5)];
       [left; exact A3|right; left; rewrite A3; unfold tw_expect; rewrite Epc; first [reflexivity | discriminate A5]]
     | (split; [apply Hnth; tw_proj; congruence|]); (split; [lia|]);
       (split; [intros t j c rc Hin; destruct (B4 _ _ _ _ Hin) as [Ho|[Ho|(-> & Hj & (b & ->))]];
                [ tw_proj; repeat (destruct Ho as [Ho|Ho]; [discriminate|]); auto
                | injection Ho as -> -> -> ->; right; split; [reflexivity|]; split; [lia|];
                  intros k0 b0 ->; split; [reflexivity|]; split; [|eauto];
                  unfold tw_send_head, tw_cont_head, tw_ret_info in *;
                  repeat match goal with H : exists _, _ |- _ => destruct H | H : _ /\ _ |- _ => destruct H end;
                  first [ match goal with H : match ?k with TwKRet => _ | TwKFlush _ _ => _ | TwKClose => _ end |- _ => destruct k eqn:Ek end
                        | idtac ];
                  repeat match goal with H : exists _, _ |- _ => destruct H | H : _ /\ _ |- _ => destruct H end;
                  try congruence;
                  first [ left; split; [reflexivity|exact Epc]
                        | right; split; [reflexivity|]; eexists; split; [eassumption|]; first [left; exact Epc | right; eexists; exact Epc] ]
                | right; split; [reflexivity|]; split; [lia|intros; discriminate] ]|]);
       right; split; [lia|exact B2] ]).
  (* direct paths *)
  all: try (injection HS as <-; cbn [fst snd];
     match goal with |- tw_psum5 _ _ _ (tw_setp ?A _ ?B) => exists B end;
     (split; [apply Hnth; tw_proj; try (destruct (tw_cpc s)); reflexivity|]); (split; [cbn [tw_with_pc tw_pt_idx]; lia|]);
     (split; [intros t j c0 rc0 Hin; left; tw_proj; try (destruct (tw_cpc s); tw_proj);
              repeat (destruct Hin as [Hin|Hin]; [discriminate|]); exact Hin|]);
     left; split; [reflexivity|]; unfold tw_expect; cbn [tw_with_pc tw_pt_pc tw_pt_calls]; rewrite ?Epc;
     first [ right; left; reflexivity | left; reflexivity
           | right; right; eexists; split; [reflexivity|split; reflexivity]
           | (* PSendUnlock c true -> PSigLock (sd_k c) *)
             unfold tw_send_head in Hp; destruct (tw_sd_k c) eqn:Ek;
             [ destruct Hp as (mk & body & r & Ecalls & Em); rewrite Ecalls, Em; right; left; reflexivity
             | left; reflexivity | left; reflexivity ]
           | destruct k; first [right; left; reflexivity | left; reflexivity] ]).
  - tw_helper HS. injection HS as <-. exists p2. pose proof F as F0. tw_use_frame F0.
    destruct (tw_pt_calls p) as [|c0 r0] eqn:Ecs.
    { exfalso. unfold tw_send_head, tw_cont_head in Hp.
       repeat match goal with H : exists _, _ |- _ => destruct H | H : _ /\ _ |- _ => destruct H
                         | H : match ?k with TwKRet => _ | TwKFlush _ _ => _ | TwKClose => _ end |- _ => destruct k end;
       discriminate. }
    destruct (tw_send_done_rets _ _ _ _ _ _ _ _ _ _ Ecs EX) as [(A1 & A2 & A3)|(B1 & B2 & B3 & B4)].
    + split; [apply Hnth; tw_proj; congruence|]. split; [lia|].
      split. { intros t j c1 rc Hin; left; apply A2 in Hin; tw_proj; repeat (destruct Hin as [Hin|Hin]; [discriminate|]); auto. }
      left; split; [exact A1|]; destruct A3 as [A3|(A3 & A4 & A5)];
       [left; exact A3|right; left; rewrite A3; unfold tw_expect; rewrite Epc; first [reflexivity | discriminate A5]].
    + split; [apply Hnth; tw_proj; congruence|]. split; [lia|].
      split.
      { intros t j c1 rc Hin; destruct (B4 _ _ _ _ Hin) as [Ho|[Ho|(-> & Hj & (b & ->))]].
        - tw_proj; repeat (destruct Ho as [Ho|Ho]; [discriminate|]); auto.
        - injection Ho as -> -> -> ->; right; split; [reflexivity|]; split; [lia|].
          intros k0 b0 ->; split; [reflexivity|]; split; [|eauto].
          unfold tw_send_head, tw_cont_head, tw_ret_info in *.
          destruct (tw_sd_k c) eqn:Ek.
          * right. split; [reflexivity|]. exists c. split; [exact Ek|]. left. exact Epc.
          * destruct Hp as ((r & Er) & _). congruence.
          * congruence.
        - right; split; [reflexivity|]; split; [lia|intros; discriminate]. }
      right; split; [lia|exact B2].
  - tw_helper HS. injection HS as <-. exists p2. pose proof F as F0. tw_use_frame F0.
    destruct (tw_pt_calls p) as [|c0 r0] eqn:Ecs.
    { exfalso. unfold tw_send_head, tw_cont_head in Hp.
       repeat match goal with H : exists _, _ |- _ => destruct H | H : _ /\ _ |- _ => destruct H
                         | H : match ?k with TwKRet => _ | TwKFlush _ _ => _ | TwKClose => _ end |- _ => destruct k end;
       discriminate. }
    destruct (tw_send_done_rets _ _ _ _ _ _ _ _ _ _ Ecs EX) as [(A1 & A2 & A3)|(B1 & B2 & B3 & B4)].
    + split; [apply Hnth; tw_proj; congruence|]. split; [lia|].
      split. { intros t j c1 rc Hin; left; apply A2 in Hin; tw_proj; repeat (destruct Hin as [Hin|Hin]; [discriminate|]); auto. }
      left; split; [exact A1|]; destruct A3 as [A3|(A3 & A4 & A5)];
       [left; exact A3|right; left; rewrite A3; unfold tw_expect; rewrite Epc; first [reflexivity | discriminate A5]].
    + split; [apply Hnth; tw_proj; congruence|]. split; [lia|].
      split.
      { intros t j c1 rc Hin; destruct (B4 _ _ _ _ Hin) as [Ho|[Ho|(-> & Hj & (b & ->))]].
        - tw_proj; repeat (destruct Ho as [Ho|Ho]; [discriminate|]); auto.
        - injection Ho as -> -> -> ->; right; split; [reflexivity|]; split; [lia|].
          intros k0 b0 ->; split; [reflexivity|]; split; [|eauto].
          unfold tw_send_head, tw_cont_head, tw_ret_info in *.
          destruct (tw_sd_k c) eqn:Ek.
          * right. split; [reflexivity|]. exists c. split; [exact Ek|]. right. eexists. exact Epc.
          * destruct Hp as ((r & Er) & _). congruence.
          * congruence.
        - right; split; [reflexivity|]; split; [lia|intros; discriminate]. }
      right; split; [lia|exact B2].
Qed.

Lemma tw_cstep_rets : forall s s' t j c rc, tw_cstep s = Some s' -> In (TwEvRet t j c rc) (tw_trace s') -> In (TwEvRet t j c rc) (tw_trace s).
Proof.
  intros s s' t j c rc HS Hin. unfold tw_cstep in HS.
  destruct (tw_cpc s) eqn:Ecpc; tw_ccases HS;
    try solve [injection HS as <-; unfold tw_dispatch in *;
               repeat match goal with H : context [if ?b then _ else _] |- _ => destruct b end;
               tw_proj; repeat (destruct Hin as [Hin|Hin]; [discriminate|]); exact Hin].
  match type of HS with match ?X with _ => _ end = _ => destruct X as [s3|f] eqn:EX end; injection HS as <-; [|exact Hin].
  apply tw_cstep_lockM in EX; [|reflexivity]. destruct EX as (qa & ra & qb & rb & tr & _ & _ & -> & evs & -> & Hev).
  tw_proj. apply in_app_or in Hin. destruct Hin as [Hin|Hin].
  - exfalso. rewrite Forall_forall in Hev. apply Hev in Hin. exact Hin.
  - destruct Hin as [Hin|Hin]; [discriminate|exact Hin].
Qed.

Lemma tw_msgs_with_id_app : forall i idx a e,
  tw_msgs_with_id i idx (a ++ [e]) = tw_msgs_with_id i idx a ++ (if Nat.eqb (fst (fst e)) i && Nat.eqb (snd (fst e)) idx then [snd e] else []).
Proof.
  intros. unfold tw_msgs_with_id. rewrite filter_app, map_app. cbn [filter]. destruct (_ && _); reflexivity.
Qed.

Definition tw_ret_inv (s : tw_state) : Prop :=
  (forall i p idx, nth_error (tw_prods s) i = Some p -> (tw_pt_idx p < idx)%nat -> tw_msgs_with_id i idx (tw_accepted s) = []) /\
  (forall i p l, nth_error (tw_prods s) i = Some p -> tw_expect p = Some l -> tw_msgs_with_id i (tw_pt_idx p) (tw_accepted s) = l) /\
  (forall i p idx k body rc, nth_error (tw_prods s) i = Some p -> In (TwEvRet (TwTProd i) idx (TwCSend k body) rc) (tw_trace s) ->
     (idx < tw_pt_idx p)%nat /\
     ((rc = Some 0 /\ tw_msgs_with_id i idx (tw_accepted s) = [tw_user_msg k body]) \/
      (rc = Some tw_EBUSY /\ tw_msgs_with_id i idx (tw_accepted s) = []))) /\
  (forall t idx c rc, In (TwEvRet t idx c rc) (tw_trace s) -> exists i p, t = TwTProd i /\ nth_error (tw_prods s) i = Some p).

Lemma tw_ret_pstep : forall fx cap s i p s', tw_all_inv cap s -> tw_fifo cap s' -> tw_ret_inv s ->
  nth_error (tw_prods s) i = Some p -> tw_pstep fx s i p = Some s' -> tw_ret_inv s'.
Proof.
  intros fx cap s i p s' HA HF' (R1 & R2 & R3 & R5) Hn HS.
  destruct HA as (HL & HF & HH & HW & HK & HJ).
  destruct (tw_pstep_sum _ _ _ _ _ (HH _ _ Hn) HS) as [SUM|(f & ->)].
  2: { destruct HF' as (Hf & _). discriminate. }
  destruct (tw_pstep_sum5 _ _ _ _ _ Hn (HH _ _ Hn) HS) as [SUM5|(f & ->)].
  2: { destruct HF' as (Hf & _). discriminate. }
  destruct SUM as (s1 & p1 & Es' & Sp & Sc & Sh & Sf & Sfl & Sq & Sa & SE1 & SE2 & (pre & Spre) & Sap & Scs).
  destruct SUM5 as (p1' & Hself & Hidx & Hev & Hex).
  assert (p1' = p1) as ->.
  { assert (nth_error (tw_prods s') i = Some p1) by (rewrite Es'; tw_proj; rewrite Sp; eapply tw_nth_upd_eq; eauto). congruence. }
  assert (Hoth : forall j q, j <> i -> nth_error (tw_prods s') j = Some q -> nth_error (tw_prods s) j = Some q).
  { intros j q Hne Hq. rewrite Es' in Hq. tw_proj. rewrite Sp in Hq. rewrite tw_nth_upd_neq in Hq by congruence. exact Hq. }
  (* accepted: same, or the message of the current call appended *)
  assert (Eacc : (tw_accepted s' = tw_accepted s /\ forall c, tw_pt_pc p1 <> TwPSendUnlock c true \/ tw_pt_pc p <> TwPSendLock c) \/
                 (exists c, tw_pt_pc p = TwPSendLock c /\ tw_pt_pc p1 = TwPSendUnlock c true /\
                            tw_accepted s' = tw_accepted s ++ [(i, tw_pt_idx p, tw_sd_msg c)] /\ tw_pt_idx p1 = tw_pt_idx p)).
  { destruct Hex as [(Hi & [Hx|[Hx|(c & Ep & Ep1 & Ea)]])|(Hi & Hx)].
    4: { left. rewrite Es'. tw_proj. destruct Sa as [(_ & Sa)|(c & q1 & a & Epc & _ & _ & _ & _ & Epc1)].
         - split; [exact Sa|]. intros c. destruct (tw_pt_pc p1) eqn:E1; try (left; discriminate). destruct ok; [|left; discriminate].
           unfold tw_expect in Hx. rewrite E1 in Hx. discriminate.
         - unfold tw_expect in Hx. rewrite Epc1 in Hx. discriminate. }
    3: { right. exists c. auto. }
    - left. rewrite Es'. tw_proj. destruct Sa as [(_ & Sa)|(c & q1 & a & Epc & _ & _ & _ & _ & Epc1)].
      + split; [exact Sa|]. intros c. destruct (tw_pt_pc p1) eqn:E1; try (left; discriminate). destruct ok; [|left; discriminate].
        unfold tw_expect in Hx. rewrite E1 in Hx. discriminate.
      + unfold tw_expect in Hx. rewrite Epc1 in Hx. discriminate.
    - left. rewrite Es'. tw_proj. destruct Sa as [(_ & Sa)|(c & q1 & a & Epc & _ & _ & _ & _ & Epc1)].
      + split; [exact Sa|]. intros c. destruct (tw_pt_pc p) eqn:E0; try (right; discriminate).
        destruct (tw_pt_pc p1) eqn:E1; try (left; discriminate). destruct ok; [|left; discriminate].
        unfold tw_expect in Hx. rewrite E0, E1 in Hx. discriminate.
      + unfold tw_expect in Hx. rewrite Epc, Epc1 in Hx. discriminate. }
  assert (Hm_other : forall j idx, (j <> i \/ idx <> tw_pt_idx p) -> tw_msgs_with_id j idx (tw_accepted s') = tw_msgs_with_id j idx (tw_accepted s)).
  { intros j idx Hd. destruct Eacc as [(Ea & _)|(c & _ & _ & Ea & _)]; rewrite Ea; [reflexivity|].
    rewrite tw_msgs_with_id_app. cbn [fst snd].
    destruct (Nat.eqb i j && Nat.eqb (tw_pt_idx p) idx) eqn:E; [|apply app_nil_r].
    apply andb_prop in E. destruct E as (E1 & E2). apply Nat.eqb_eq in E1, E2. subst. destruct Hd; congruence. }
  split; [|split; [|split]].
  - (* R1 *)
    intros j q idx Hq Hlt. destruct (Nat.eq_dec j i) as [->|Hne].
    + rewrite Hself in Hq. injection Hq as <-. rewrite Hm_other by (right; lia). eapply R1; eauto. lia.
    + rewrite Hm_other by (left; exact Hne). eapply R1; eauto.
  - (* R2 *)
    intros j q l Hq Hl. destruct (Nat.eq_dec j i) as [->|Hne].
    + rewrite Hself in Hq. injection Hq as <-.
      destruct Eacc as [(Ea & Hnot)|(c & Ep & Ep1 & Ea & Hi)].
      * rewrite Ea. destruct Hex as [(Hi & [Hx|[Hx|(c & Ep & Ep1 & Ea')]])|(Hi & Hx)].
        -- congruence.
        -- rewrite Hi. apply (R2 _ _ _ Hn). congruence.
        -- destruct (Hnot c); contradiction.
        -- rewrite Hx in Hl. injection Hl as <-. eapply R1; eauto.
      * rewrite Ea, Hi, tw_msgs_with_id_app. cbn [fst snd]. rewrite !Nat.eqb_refl. cbn [andb].
        unfold tw_expect in Hl. rewrite Ep1 in Hl. injection Hl as <-.
        rewrite (R2 _ _ [] Hn); [reflexivity|]. unfold tw_expect. rewrite Ep. reflexivity.
    + rewrite Hm_other by (left; exact Hne). eapply R2; eauto.
  - (* R3 *)
    intros j q idx k body rc Hq Hin. destruct (Hev _ _ _ _ Hin) as [Hold|(Ht & Hj & Hsend)].
    + destruct (Nat.eq_dec j i) as [->|Hne].
      * rewrite Hself in Hq. injection Hq as <-. destruct (R3 _ _ _ _ _ _ Hn Hold) as (Hlt & Hres).
        split; [lia|]. rewrite Hm_other by (right; lia). exact Hres.
      * pose proof (Hoth _ _ Hne Hq) as Hq0. destruct (R3 _ _ _ _ _ _ Hq0 Hold) as (Hlt & Hres).
        split; [exact Hlt|]. rewrite Hm_other by (left; exact Hne). exact Hres.
    + injection Ht as ->. rewrite Hself in Hq. injection Hq as <-.
      destruct (Hsend _ _ eq_refl) as (-> & Hri & (r & Ecalls)). split; [lia|].
      assert (Ea : tw_accepted s' = tw_accepted s).
      { destruct Eacc as [(Ea & _)|(c & Ep & _)]; [exact Ea|]. exfalso.
        destruct Hri as [(_ & Hpc)|(_ & c' & _ & [Hpc|(w & Hpc)])]; congruence. }
      rewrite Ea. destruct Hri as [(-> & Hpc)|(-> & c' & Hk & Hpc)].
      * left. split; [reflexivity|]. apply (R2 _ _ _ Hn). unfold tw_expect. rewrite Hpc, Ecalls. reflexivity.
      * right. split; [reflexivity|]. apply (R2 _ _ _ Hn). unfold tw_expect. destruct Hpc as [Hpc|(w & Hpc)]; rewrite Hpc; reflexivity.
  - (* R5 *)
    intros t idx c rc Hin. destruct (Hev _ _ _ _ Hin) as [Hold|(-> & _)].
    + destruct (R5 _ _ _ _ Hold) as (j & q & -> & Hq). destruct (Nat.eq_dec j i) as [->|Hne].
      * exists i, p1. auto.
      * exists j, q. split; auto. rewrite Es'. tw_proj. rewrite Sp, tw_nth_upd_neq by congruence. exact Hq.
    + exists i, p1. auto.
Qed.

Lemma tw_ret_reach : forall fx cap progs s, tw_wf cap progs -> tw_wf_close progs -> tw_reach fx cap progs s -> tw_ret_inv s.
Proof.
  intros fx cap progs s Hwf Hwc HR. induction HR as [|s t s' HR IH HS|s d HR IH].
  - unfold tw_ret_inv, tw_init. tw_proj. repeat split; try reflexivity; try (intros; contradiction).
    intros i p l Hn Hl. apply nth_error_In, in_map_iff in Hn. destruct Hn as (cs & <- & _). cbn in Hl. injection Hl as <-. reflexivity.
  - pose proof (tw_all_reach _ _ _ _ Hwf Hwc HR) as HA.
    pose proof (tw_fifo_reach _ _ _ _ Hwf (tw_reach_step _ _ _ _ _ _ HR HS)) as HF'.
    unfold tw_step in HS. destruct (tw_fault s); [discriminate|]. destruct t as [i|].
    + destruct (nth_error (tw_prods s) i) as [p|] eqn:En; [|discriminate]. exact (tw_ret_pstep fx cap s i p s' HA HF' IH En HS).
    + destruct IH as (R1 & R2 & R3 & R5). pose proof (tw_cstep_prods _ _ HS) as Hp.
      destruct (tw_cstep_facts _ _ HS) as (_ & Ha & _).
      unfold tw_ret_inv. rewrite Hp, Ha.
      split; [exact R1|]. split; [exact R2|]. split.
      * intros i p idx k body rc Hn Hin. apply (tw_cstep_rets _ _ _ _ _ _ HS) in Hin. eauto.
      * intros t idx c rc Hin. apply (tw_cstep_rets _ _ _ _ _ _ HS) in Hin. eauto.
  - destruct IH as (R1 & R2 & R3 & R5). unfold tw_ret_inv. tw_proj.
    split; [exact R1|]. split; [exact R2|]. split.
    + intros i p idx k body rc Hn [Hin|Hin]; [discriminate|eauto].
    + intros t idx c rc [Hin|Hin]; [discriminate|eauto].
Qed.

(* C06 rejected_leaves_no_trace: a send call (user_data / fsr / omit / annotation / utc) that returned an error has
   no message in the accepted list (hence, by fifo_inv, none is ever handed to the writer); a call that returned 0
   has exactly one, with exactly its bytes.  These are the only two return codes. *)
Lemma tw_rejected_leaves_no_trace : forall fx cap progs s i idx k body rc,
  tw_wf cap progs -> tw_wf_close progs -> tw_reach fx cap progs s ->
  In (TwEvRet (TwTProd i) idx (TwCSend k body) rc) (tw_trace s) ->
  (rc = Some 0 /\ tw_msgs_with_id i idx (tw_accepted s) = [tw_user_msg k body]) \/
  (rc = Some tw_EBUSY /\ tw_msgs_with_id i idx (tw_accepted s) = []).
Proof.
  intros fx cap progs s i idx k body rc Hwf Hwc HR Hin.
  destruct (tw_ret_reach _ _ _ _ Hwf Hwc HR) as (_ & _ & R3 & R5).
  destruct (R5 _ _ _ _ Hin) as (j & p & Ej & Hn). injection Ej as <-.
  destruct (R3 _ _ _ _ _ _ Hn Hin) as (_ & H). exact H.
Qed.

Lemma tw_ex_ret : exists s i idx k body,
  tw_wf 128 tw_ex_prog /\ tw_wf_close tw_ex_prog /\ tw_reach false 128 tw_ex_prog s /\
  In (TwEvRet (TwTProd i) idx (TwCSend k body) (Some 0)) (tw_trace s).
Proof.
  pose proof tw_ex_check_true as H. unfold tw_ex_check in H.
  destruct (tw_run false (tw_init 128 tw_ex_prog) tw_ex_sched) as [s|] eqn:E; [|discriminate H].
  destruct tw_ex_wf as (Hwf & Hwc). clear H.
  assert (Hchk : match tw_run false (tw_init 128 tw_ex_prog) tw_ex_sched with
                 | Some s0 => existsb (fun e => match e with TwEvRet (TwTProd 0) 1 (TwCSend TwMkUser _) (Some 0) => true | _ => false end) (tw_trace s0)
                 | None => false end = true) by (vm_compute; reflexivity).
  rewrite E in Hchk. apply existsb_exists in Hchk. destruct Hchk as (e & Hin & He).
  destruct e as [| | | | | | | | | | | | | | | |t idx c rc| | |]; try discriminate He.
  destruct t as [[|i]|]; try discriminate He. destruct idx as [|[|idx]]; try discriminate He.
  destruct c as [|k body| | |]; try discriminate He. destruct k; try discriminate He.
  destruct rc as [[|rc]|]; try discriminate He.
  exists s, 0%nat, 1%nat, TwMkUser, body. split; [exact Hwf|]. split; [exact Hwc|].
  split; [eapply tw_run_reach; [apply tw_reach_init|exact E]|exact Hin].
Qed.
