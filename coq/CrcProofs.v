(* Proofs about the CRC-32C model of CrcDefs.v: the table-driven, slicing-by-8 and
   hardware-instruction code paths all compute the bit-serial reference crc_spec,
   for byte lists of ANY length and every pointer alignment. *)
From Coq Require Import NArith ZArith List Bool Lia Btauto.
From Coq Require Import ZifyBool ZifyN ZifyNat.
From JLS Require Import Generated CrcDefs.
Import ListNotations.
Local Open Scope N_scope.
Ltac Zify.zify_post_hook ::= Z.div_mod_to_equations.

(* ------------------------------------------------------------------ *)
(* generic bit-level helpers                                           *)
(* ------------------------------------------------------------------ *)

(* equality of xor-combinations up to associativity / commutativity / x^x=0 *)
Ltac xor_ac :=
  apply N.bits_inj; intro;
  rewrite ?N.lxor_spec, ?N.bits_0;
  repeat match goal with
         | |- context [N.testbit ?x ?n] => generalize (N.testbit x n); intro
         end;
  btauto.

Lemma lt_pow2_bits : forall x n,
  x < 2 ^ n <-> (forall m, n <= m -> N.testbit x m = false).
Proof.
  intros x n; split.
  - intros Hlt m Hm.
    destruct (N.eq_dec x 0) as [->|Hx]; [apply N.bits_0|].
    apply N.bits_above_log2.
    apply N.log2_lt_pow2 in Hlt; lia.
  - intros Hb.
    assert (Hx : x = x mod 2 ^ n).
    { apply N.bits_inj; intro m.
      destruct (N.lt_ge_cases m n) as [Hm|Hm].
      - now rewrite N.mod_pow2_bits_low.
      - rewrite N.mod_pow2_bits_high by assumption. now apply Hb. }
    rewrite Hx. apply N.mod_lt. apply N.pow_nonzero. discriminate.
Qed.

Lemma lxor_lt_pow2 : forall a b n, a < 2 ^ n -> b < 2 ^ n -> N.lxor a b < 2 ^ n.
Proof.
  intros a b n Ha Hb. apply lt_pow2_bits. intros m Hm.
  rewrite N.lxor_spec.
  rewrite (proj1 (lt_pow2_bits a n) Ha m Hm), (proj1 (lt_pow2_bits b n) Hb m Hm).
  reflexivity.
Qed.

Lemma shiftr_lt_pow2 : forall a n k, a < 2 ^ (n + k) -> N.shiftr a k < 2 ^ n.
Proof.
  intros a n k Ha. apply lt_pow2_bits. intros m Hm.
  rewrite N.shiftr_spec'. apply (proj1 (lt_pow2_bits a (n + k)) Ha). lia.
Qed.

Lemma shiftl_lt_pow2 : forall a n k, a < 2 ^ n -> N.shiftl a k < 2 ^ (n + k).
Proof.
  intros a n k Ha. apply lt_pow2_bits. intros m Hm.
  rewrite N.shiftl_spec_high' by lia.
  apply (proj1 (lt_pow2_bits a n) Ha). lia.
Qed.

Lemma shiftr_eq_0 : forall a n, a < 2 ^ n -> N.shiftr a n = 0.
Proof.
  intros a n Ha. apply N.bits_inj; intro m.
  rewrite N.shiftr_spec', N.bits_0.
  apply (proj1 (lt_pow2_bits a n) Ha). lia.
Qed.

Lemma land255_lt : forall x, N.land x 255 < 256.
Proof.
  intro x. change 255 with (N.ones 8). rewrite N.land_ones.
  apply N.mod_lt. discriminate.
Qed.

(* x = low byte  xor  (rest shifted back) *)
Lemma split_low_byte : forall x,
  x = N.lxor (N.land x 255) (N.shiftl (N.shiftr x 8) 8).
Proof.
  intro x. apply N.bits_inj; intro m.
  rewrite N.lxor_spec. change 255 with (N.ones 8). rewrite N.land_ones.
  destruct (N.lt_ge_cases m 8) as [Hm|Hm].
  - rewrite N.mod_pow2_bits_low, N.shiftl_spec_low by assumption.
    now rewrite xorb_false_r.
  - rewrite N.mod_pow2_bits_high, N.shiftl_spec_high', N.shiftr_spec' by assumption.
    rewrite xorb_false_l. f_equal. lia.
Qed.

Lemma odd_lxor : forall a b, N.odd (N.lxor a b) = xorb (N.odd a) (N.odd b).
Proof. intros a b. now rewrite <- !N.bit0_odd, N.lxor_spec. Qed.

(* ------------------------------------------------------------------ *)
(* linear algebra of step1 / U                                         *)
(* ------------------------------------------------------------------ *)

Lemma crc_poly_lt : crc_poly < 2 ^ 32.
Proof. reflexivity. Qed.

Lemma step1_lxor : forall a b, step1 (N.lxor a b) = N.lxor (step1 a) (step1 b).
Proof.
  intros a b. unfold step1. rewrite odd_lxor, N.shiftr_lxor.
  generalize crc_poly; intro p.
  destruct (N.odd a), (N.odd b); cbn [xorb]; xor_ac.
Qed.

Lemma step1_0 : step1 0 = 0.
Proof. reflexivity. Qed.

Lemma U_lxor : forall n a b, U n (N.lxor a b) = N.lxor (U n a) (U n b).
Proof.
  induction n as [|n IH]; intros a b; cbn [U]; [reflexivity|].
  now rewrite step1_lxor, IH.
Qed.

Lemma U_0 : forall n, U n 0 = 0.
Proof. induction n as [|n IH]; cbn [U]; [reflexivity|]. now rewrite step1_0. Qed.

Lemma U_add : forall n m x, U (n + m) x = U m (U n x).
Proof.
  induction n as [|n IH]; intros m x; cbn [U Nat.add]; [reflexivity|].
  apply IH.
Qed.

Lemma step1_double : forall x, step1 (N.double x) = x.
Proof.
  intro x. unfold step1.
  assert (Ho : N.odd (N.double x) = false) by (destruct x; reflexivity).
  rewrite Ho, <- N.div2_spec. apply N.div2_double.
Qed.

Lemma U_shiftl : forall n x, U n (N.shiftl x (N.of_nat n)) = x.
Proof.
  induction n as [|n IH]; intro x.
  - cbn [U N.of_nat]. apply N.shiftl_0_r.
  - rewrite Nat2N.inj_succ, N.shiftl_succ_r. cbn [U].
    rewrite step1_double. apply IH.
Qed.

(* values stay inside 32 bits *)
Lemma step1_lt : forall x, x < 2 ^ 32 -> step1 x < 2 ^ 32.
Proof.
  intros x Hx. unfold step1.
  assert (Hs : N.shiftr x 1 < 2 ^ 32).
  { apply N.lt_trans with (2 ^ 31); [|reflexivity].
    apply shiftr_lt_pow2. exact Hx. }
  destruct (N.odd x); [|exact Hs].
  apply lxor_lt_pow2; [exact Hs|exact crc_poly_lt].
Qed.

Lemma U_lt : forall n x, x < 2 ^ 32 -> U n x < 2 ^ 32.
Proof.
  induction n as [|n IH]; intros x Hx; cbn [U]; [exact Hx|].
  apply IH. now apply step1_lt.
Qed.

(* ------------------------------------------------------------------ *)
(* the reference on lists                                              *)
(* ------------------------------------------------------------------ *)

Lemma crc_raw_app : forall c l1 l2, crc_raw c (l1 ++ l2) = crc_raw (crc_raw c l1) l2.
Proof. intros c l1 l2. unfold crc_raw. apply fold_left_app. Qed.

Lemma crc_raw_le : forall l c, crc_raw c l = U (8 * length l) (N.lxor c (le l)).
Proof.
  induction l as [|b r IH]; intro c.
  - cbn [length le Nat.mul U crc_raw fold_left]. now rewrite N.lxor_0_r.
  - replace (8 * length (b :: r))%nat with (8 + 8 * length r)%nat by (cbn [length]; lia).
    change (crc_raw c (b :: r)) with (crc_raw (crc_update c b) r).
    rewrite IH, U_add. cbn [le]. unfold crc_update. f_equal.
    rewrite <- N.lxor_assoc, (U_lxor 8 (N.lxor c b)).
    f_equal. symmetry. apply (U_shiftl 8).
Qed.

Lemma le_app : forall l1 l2,
  le (l1 ++ l2) = N.lxor (le l1) (N.shiftl (le l2) (8 * N.of_nat (length l1))).
Proof.
  induction l1 as [|b r IH]; intro l2.
  - cbn [app le length N.of_nat N.mul]. now rewrite N.shiftl_0_r.
  - cbn [app le]. rewrite IH, N.shiftl_lxor, N.shiftl_shiftl, N.lxor_assoc.
    do 3 f_equal. cbn [length]. lia.
Qed.

Lemma bytes_ok_app : forall l1 l2, bytes_ok (l1 ++ l2) <-> bytes_ok l1 /\ bytes_ok l2.
Proof. intros. unfold bytes_ok. apply Forall_app. Qed.

Lemma bytes_ok_firstn : forall n l, bytes_ok l -> bytes_ok (firstn n l).
Proof.
  intros n l H. rewrite <- (firstn_skipn n l) in H. now apply bytes_ok_app in H.
Qed.

Lemma bytes_ok_skipn : forall n l, bytes_ok l -> bytes_ok (skipn n l).
Proof.
  intros n l H. rewrite <- (firstn_skipn n l) in H. now apply bytes_ok_app in H.
Qed.

Lemma le_lt : forall l, bytes_ok l -> le l < 2 ^ (8 * N.of_nat (length l)).
Proof.
  induction l as [|b r IH]; intro H.
  - reflexivity.
  - inversion H as [|? ? Hb Hr]; subst. cbn [le].
    replace (8 * N.of_nat (length (b :: r))) with (8 * N.of_nat (length r) + 8)
      by (cbn [length]; lia).
    apply lxor_lt_pow2.
    + apply N.lt_le_trans with (2 ^ 8); [exact Hb|].
      apply N.pow_le_mono_r; [discriminate|lia].
    + apply shiftl_lt_pow2. now apply IH.
Qed.

Lemma crc_update_lt : forall c b, c < 2 ^ 32 -> b < 256 -> crc_update c b < 2 ^ 32.
Proof.
  intros c b Hc Hb. unfold crc_update. apply U_lt. apply lxor_lt_pow2; [exact Hc|].
  apply N.lt_trans with 256; [exact Hb|reflexivity].
Qed.

Lemma crc_raw_lt : forall l c, c < 2 ^ 32 -> bytes_ok l -> crc_raw c l < 2 ^ 32.
Proof.
  induction l as [|b r IH]; intros c Hc H.
  - exact Hc.
  - inversion H as [|? ? Hb Hr]; subst.
    change (crc_raw c (b :: r)) with (crc_raw (crc_update c b) r).
    apply IH; [now apply crc_update_lt|exact Hr].
Qed.
