(* Proofs about the CRC-32C model of CrcDefs.v: the table-driven, slicing-by-8 and
   hardware-instruction code paths all compute the bit-serial reference crc_spec,
   for byte lists of ANY length and every pointer alignment. *)
From Coq Require Import NArith ZArith List Bool Lia Btauto.
From Coq Require Import ZifyBool ZifyN ZifyNat.
From JLS Require Import Generated CrcDefs.
Import ListNotations.
Local Open Scope N_scope.
Ltac Zify.zify_post_hook ::= Z.div_mod_to_equations.

(* ------------------------------------------------------------------ *)
(* generic bit-level helpers                                           *)
(* ------------------------------------------------------------------ *)

(* equality of xor-combinations up to associativity / commutativity / x^x=0 *)
Ltac xor_ac :=
  apply N.bits_inj; intro;
  rewrite ?N.lxor_spec, ?N.bits_0;
  repeat match goal with
         | |- context [N.testbit ?x ?n] => generalize (N.testbit x n); intro
         end;
  btauto.

Lemma lt_pow2_bits : forall x n,
  x < 2 ^ n <-> (forall m, n <= m -> N.testbit x m = false).
Proof.
  intros x n; split.
  - intros Hlt m Hm.
    destruct (N.eq_dec x 0) as [->|Hx]; [apply N.bits_0|].
    apply N.bits_above_log2.
    apply N.log2_lt_pow2 in Hlt; lia.
  - intros Hb.
    assert (Hx : x = x mod 2 ^ n).
    { apply N.bits_inj; intro m.
      destruct (N.lt_ge_cases m n) as [Hm|Hm].
      - now rewrite N.mod_pow2_bits_low.
      - rewrite N.mod_pow2_bits_high by assumption. now apply Hb. }
    rewrite Hx. apply N.mod_lt. apply N.pow_nonzero. discriminate.
Qed.

Lemma lxor_lt_pow2 : forall a b n, a < 2 ^ n -> b < 2 ^ n -> N.lxor a b < 2 ^ n.
Proof.
  intros a b n Ha Hb. apply lt_pow2_bits. intros m Hm.
  rewrite N.lxor_spec.
  rewrite (proj1 (lt_pow2_bits a n) Ha m Hm), (proj1 (lt_pow2_bits b n) Hb m Hm).
  reflexivity.
Qed.

Lemma shiftr_lt_pow2 : forall a n k, a < 2 ^ (n + k) -> N.shiftr a k < 2 ^ n.
Proof.
  intros a n k Ha. apply lt_pow2_bits. intros m Hm.
  rewrite N.shiftr_spec'. apply (proj1 (lt_pow2_bits a (n + k)) Ha). lia.
Qed.

Lemma shiftl_lt_pow2 : forall a n k, a < 2 ^ n -> N.shiftl a k < 2 ^ (n + k).
Proof.
  intros a n k Ha. apply lt_pow2_bits. intros m Hm.
  rewrite N.shiftl_spec_high' by lia.
  apply (proj1 (lt_pow2_bits a n) Ha). lia.
Qed.

Lemma shiftr_eq_0 : forall a n, a < 2 ^ n -> N.shiftr a n = 0.
Proof.
  intros a n Ha. apply N.bits_inj; intro m.
  rewrite N.shiftr_spec', N.bits_0.
  apply (proj1 (lt_pow2_bits a n) Ha). lia.
Qed.

Lemma land255_lt : forall x, N.land x 255 < 256.
Proof.
  intro x. change 255 with (N.ones 8). rewrite N.land_ones.
  apply N.mod_lt. discriminate.
Qed.

(* x = low byte  xor  (rest shifted back) *)
Lemma split_low_byte : forall x,
  x = N.lxor (N.land x 255) (N.shiftl (N.shiftr x 8) 8).
Proof.
  intro x. apply N.bits_inj; intro m.
  rewrite N.lxor_spec. change 255 with (N.ones 8). rewrite N.land_ones.
  destruct (N.lt_ge_cases m 8) as [Hm|Hm].
  - rewrite N.mod_pow2_bits_low, N.shiftl_spec_low by assumption.
    now rewrite xorb_false_r.
  - rewrite N.mod_pow2_bits_high, N.shiftl_spec_high', N.shiftr_spec' by assumption.
    rewrite xorb_false_l. f_equal. lia.
Qed.

Lemma odd_lxor : forall a b, N.odd (N.lxor a b) = xorb (N.odd a) (N.odd b).
Proof. intros a b. now rewrite <- !N.bit0_odd, N.lxor_spec. Qed.

(* ------------------------------------------------------------------ *)
(* linear algebra of step1 / U                                         *)
(* ------------------------------------------------------------------ *)

Lemma crc_poly_lt : crc_poly < 2 ^ 32.
Proof. reflexivity. Qed.

Lemma step1_lxor : forall a b, step1 (N.lxor a b) = N.lxor (step1 a) (step1 b).
Proof.
  intros a b. unfold step1. rewrite odd_lxor, N.shiftr_lxor.
  generalize crc_poly; intro p.
  destruct (N.odd a), (N.odd b); cbn [xorb]; xor_ac.
Qed.

Lemma step1_0 : step1 0 = 0.
Proof. reflexivity. Qed.

Lemma U_lxor : forall n a b, U n (N.lxor a b) = N.lxor (U n a) (U n b).
Proof.
  induction n as [|n IH]; intros a b; cbn [U]; [reflexivity|].
  now rewrite step1_lxor, IH.
Qed.

Lemma U_0 : forall n, U n 0 = 0.
Proof. induction n as [|n IH]; cbn [U]; [reflexivity|]. now rewrite step1_0. Qed.

Lemma U_add : forall n m x, U (n + m) x = U m (U n x).
Proof.
  induction n as [|n IH]; intros m x; cbn [U Nat.add]; [reflexivity|].
  apply IH.
Qed.

Lemma step1_double : forall x, step1 (N.double x) = x.
Proof.
  intro x. unfold step1.
  assert (Ho : N.odd (N.double x) = false) by (destruct x; reflexivity).
  rewrite Ho, <- N.div2_spec. apply N.div2_double.
Qed.

Lemma U_shiftl : forall n x, U n (N.shiftl x (N.of_nat n)) = x.
Proof.
  induction n as [|n IH]; intro x.
  - cbn [U N.of_nat]. apply N.shiftl_0_r.
  - rewrite Nat2N.inj_succ, N.shiftl_succ_r. cbn [U].
    rewrite step1_double. apply IH.
Qed.

(* values stay inside 32 bits *)
Lemma step1_lt : forall x, x < 2 ^ 32 -> step1 x < 2 ^ 32.
Proof.
  intros x Hx. unfold step1.
  assert (Hs : N.shiftr x 1 < 2 ^ 32).
  { apply N.lt_trans with (2 ^ 31); [|reflexivity].
    apply shiftr_lt_pow2. exact Hx. }
  destruct (N.odd x); [|exact Hs].
  apply lxor_lt_pow2; [exact Hs|exact crc_poly_lt].
Qed.

Lemma U_lt : forall n x, x < 2 ^ 32 -> U n x < 2 ^ 32.
Proof.
  induction n as [|n IH]; intros x Hx; cbn [U]; [exact Hx|].
  apply IH. now apply step1_lt.
Qed.

(* ------------------------------------------------------------------ *)
(* the reference on lists                                              *)
(* ------------------------------------------------------------------ *)

Lemma crc_raw_app : forall c l1 l2, crc_raw c (l1 ++ l2) = crc_raw (crc_raw c l1) l2.
Proof. intros c l1 l2. unfold crc_raw. apply fold_left_app. Qed.

Lemma crc_raw_le : forall l c, crc_raw c l = U (8 * length l) (N.lxor c (le l)).
Proof.
  induction l as [|b r IH]; intro c.
  - cbn [length le Nat.mul U crc_raw fold_left]. now rewrite N.lxor_0_r.
  - replace (8 * length (b :: r))%nat with (8 + 8 * length r)%nat by (cbn [length]; lia).
    change (crc_raw c (b :: r)) with (crc_raw (crc_update c b) r).
    rewrite IH, U_add. cbn [le]. unfold crc_update. f_equal.
    rewrite <- N.lxor_assoc, (U_lxor 8 (N.lxor c b)).
    f_equal. symmetry. apply (U_shiftl 8).
Qed.

Lemma le_app : forall l1 l2,
  le (l1 ++ l2) = N.lxor (le l1) (N.shiftl (le l2) (8 * N.of_nat (length l1))).
Proof.
  induction l1 as [|b r IH]; intro l2.
  - cbn [app le length N.of_nat N.mul]. now rewrite N.shiftl_0_r.
  - cbn [app le]. rewrite IH, N.shiftl_lxor, N.shiftl_shiftl, N.lxor_assoc.
    do 3 f_equal. cbn [length]. lia.
Qed.

Lemma bytes_ok_app : forall l1 l2, bytes_ok (l1 ++ l2) <-> bytes_ok l1 /\ bytes_ok l2.
Proof. intros. unfold bytes_ok. apply Forall_app. Qed.

Lemma bytes_ok_firstn : forall n l, bytes_ok l -> bytes_ok (firstn n l).
Proof.
  intros n l H. rewrite <- (firstn_skipn n l) in H. now apply bytes_ok_app in H.
Qed.

Lemma bytes_ok_skipn : forall n l, bytes_ok l -> bytes_ok (skipn n l).
Proof.
  intros n l H. rewrite <- (firstn_skipn n l) in H. now apply bytes_ok_app in H.
Qed.

Lemma le_lt : forall l, bytes_ok l -> le l < 2 ^ (8 * N.of_nat (length l)).
Proof.
  induction l as [|b r IH]; intro H.
  - reflexivity.
  - inversion H as [|? ? Hb Hr]; subst. cbn [le].
    replace (8 * N.of_nat (length (b :: r))) with (8 * N.of_nat (length r) + 8)
      by (cbn [length]; lia).
    apply lxor_lt_pow2.
    + apply N.lt_le_trans with (2 ^ 8); [exact Hb|].
      apply N.pow_le_mono_r; [discriminate|lia].
    + apply shiftl_lt_pow2. now apply IH.
Qed.

Lemma crc_update_lt : forall c b, c < 2 ^ 32 -> b < 256 -> crc_update c b < 2 ^ 32.
Proof.
  intros c b Hc Hb. unfold crc_update. apply U_lt. apply lxor_lt_pow2; [exact Hc|].
  apply N.lt_trans with 256; [exact Hb|reflexivity].
Qed.

Lemma crc_raw_lt : forall l c, c < 2 ^ 32 -> bytes_ok l -> crc_raw c l < 2 ^ 32.
Proof.
  induction l as [|b r IH]; intros c Hc H.
  - exact Hc.
  - inversion H as [|? ? Hb Hr]; subst.
    change (crc_raw c (b :: r)) with (crc_raw (crc_update c b) r).
    apply IH; [now apply crc_update_lt|exact Hr].
Qed.

(* ------------------------------------------------------------------ *)
(* the generated tables are the images of single bytes                 *)
(* ------------------------------------------------------------------ *)

Definition tables_check : bool :=
  forallb (fun k =>
    forallb (fun i => tbl k (N.of_nat i) =? U (8 * (k + 1)) (N.of_nat i)) (seq 0 256))
    (seq 0 8).

Lemma tables_check_ok : tables_check = true.
Proof. vm_compute. reflexivity. Qed.

Lemma tables_ok : forall k i, (k < 8)%nat -> i < 256 -> tbl k i = U (8 * (k + 1)) i.
Proof.
  intros k i Hk Hi.
  pose proof tables_check_ok as H. unfold tables_check in H.
  rewrite forallb_forall in H.
  specialize (H k). rewrite in_seq in H. specialize (H ltac:(lia)).
  rewrite forallb_forall in H.
  specialize (H (N.to_nat i)). rewrite in_seq in H. specialize (H ltac:(lia)).
  rewrite N2Nat.id in H. now apply N.eqb_eq in H.
Qed.

(* peel the low byte off a (8*(k+1))-fold shift *)
Lemma U_peel : forall k x, (k < 8)%nat ->
  U (8 * (k + 1)) x = N.lxor (tbl k (N.land x 255)) (U (8 * k) (N.shiftr x 8)).
Proof.
  intros k x Hk.
  rewrite (split_low_byte x) at 1. rewrite U_lxor. f_equal.
  - symmetry. apply tables_ok; [exact Hk|apply land255_lt].
  - replace (8 * (k + 1))%nat with (8 + 8 * k)%nat by lia.
    rewrite U_add. f_equal. apply (U_shiftl 8).
Qed.

Lemma U8_tbl : forall x, U 8 x = N.lxor (tbl 0 (N.land x 255)) (N.shiftr x 8).
Proof. intro x. apply (U_peel 0 x). lia. Qed.

Lemma tstep_eq : forall c b, b < 256 -> tstep c b = crc_update c b.
Proof.
  intros c b Hb. unfold tstep, crc_update. rewrite U8_tbl. f_equal.
  rewrite N.shiftr_lxor, (shiftr_eq_0 b 8) by exact Hb. now rewrite N.lxor_0_r.
Qed.

Lemma crc_table_eq_gen : forall l c, bytes_ok l -> crc_table_raw c l = crc_raw c l.
Proof.
  induction l as [|b r IH]; intros c H; [reflexivity|].
  inversion H as [|? ? Hb Hr]; subst.
  change (crc_table_raw c (b :: r)) with (crc_table_raw (tstep c b) r).
  change (crc_raw c (b :: r)) with (crc_raw (crc_update c b) r).
  rewrite tstep_eq by exact Hb. now apply IH.
Qed.

Lemma crc_table_eq : forall l c, bytes_ok l -> c < 2 ^ 32 -> crc_table_raw c l = crc_raw c l.
Proof. intros l c H _. now apply crc_table_eq_gen. Qed.

Lemma crc32c_eq : forall l, bytes_ok l -> crc32c l = crc_spec l.
Proof. intros l H. unfold crc32c, crc_spec. now rewrite crc_table_eq_gen. Qed.

(* ------------------------------------------------------------------ *)
(* list helpers                                                        *)
(* ------------------------------------------------------------------ *)

Lemma firstn_add_app : forall (A : Type) a b (l : list A),
  firstn (a + b) l = firstn a l ++ firstn b (skipn a l).
Proof.
  induction a as [|a IH]; intros b l; [reflexivity|].
  destruct l as [|x l]; cbn [Nat.add firstn skipn app].
  - now rewrite firstn_nil.
  - now rewrite IH.
Qed.

Lemma skipn_add : forall (A : Type) a b (l : list A),
  skipn (a + b) l = skipn b (skipn a l).
Proof.
  induction a as [|a IH]; intros b l; [reflexivity|].
  destruct l as [|x l]; cbn [Nat.add skipn].
  - now rewrite skipn_nil.
  - apply IH.
Qed.

Lemma crc_raw_chunk : forall n c l, (n <= length l)%nat ->
  crc_raw c (firstn n l) = U (8 * n) (N.lxor c (le (firstn n l))).
Proof.
  intros n c l Hn. rewrite crc_raw_le. now rewrite firstn_length_le.
Qed.

(* ------------------------------------------------------------------ *)
(* slicing-by-8                                                        *)
(* ------------------------------------------------------------------ *)

Lemma slice8_step_eq : forall c w0 w1, c < 2 ^ 32 -> w0 < 2 ^ 32 -> w1 < 2 ^ 32 ->
  slice8_step c w0 w1 = U 64 (N.lxor (N.lxor c w0) (N.shiftl w1 32)).
Proof.
  intros c w0 w1 Hc Hw0 Hw1.
  unfold slice8_step; cbv zeta.
  assert (Hc1 : N.lxor c w0 < 2 ^ 32) by now apply lxor_lt_pow2.
  set (c1 := N.lxor c w0) in *.
  rewrite U_lxor.
  assert (H2 : U 64 (N.shiftl w1 32) = U 32 w1).
  { change 64%nat with (32 + 32)%nat. rewrite U_add. f_equal. apply (U_shiftl 32). }
  rewrite H2.
  change 64%nat with (8 * (7 + 1))%nat. rewrite U_peel by lia.
  change (8 * 7)%nat with (8 * (6 + 1))%nat. rewrite U_peel by lia.
  change (8 * 6)%nat with (8 * (5 + 1))%nat. rewrite U_peel by lia.
  change (8 * 5)%nat with (8 * (4 + 1))%nat. rewrite U_peel by lia.
  change 32%nat with (8 * (3 + 1))%nat. rewrite U_peel by lia.
  change (8 * 3)%nat with (8 * (2 + 1))%nat. rewrite U_peel by lia.
  change (8 * 2)%nat with (8 * (1 + 1))%nat. rewrite U_peel by lia.
  change (8 * 1)%nat with (8 * (0 + 1))%nat. rewrite U_peel by lia.
  rewrite !N.shiftr_shiftr.
  change (8 + 8 + 8 + 8) with 32. change (8 + 8 + 8) with 24.
  change (16 + 8) with 24. change (8 + 8) with 16.
  rewrite (shiftr_eq_0 c1 32) by exact Hc1.
  rewrite (shiftr_eq_0 w1 32) by exact Hw1.
  rewrite U_0. cbn [U Nat.mul].
  xor_ac.
Qed.

Lemma le_first8 : forall l, (8 <= length l)%nat ->
  N.lxor (le (firstn 4 l)) (N.shiftl (le (firstn 4 (skipn 4 l))) 32) = le (firstn 8 l).
Proof.
  intros l Hl. change (firstn 8 l) with (firstn (4 + 4) l).
  rewrite firstn_add_app, le_app, firstn_length_le by lia. reflexivity.
Qed.

Lemma slice8_body_eq : forall n c l, c < 2 ^ 32 -> bytes_ok l -> (8 * n <= length l)%nat ->
  slice8_body n c l = (crc_raw c (firstn (8 * n) l), skipn (8 * n) l).
Proof.
  induction n as [|n IH]; intros c l Hc Hl Hn.
  - reflexivity.
  - cbn [slice8_body].
    assert (Hw0 : le (firstn 4 l) < 2 ^ 32).
    { pose proof (le_lt (firstn 4 l) (bytes_ok_firstn 4 l Hl)) as H.
      rewrite firstn_length_le in H by lia. exact H. }
    assert (Hw1 : le (firstn 4 (skipn 4 l)) < 2 ^ 32).
    { pose proof (le_lt (firstn 4 (skipn 4 l))
                    (bytes_ok_firstn 4 _ (bytes_ok_skipn 4 l Hl))) as H.
      rewrite firstn_length_le in H by (rewrite skipn_length; lia). exact H. }
    rewrite slice8_step_eq by assumption.
    rewrite N.lxor_assoc, le_first8 by lia.
    change 64%nat with (8 * 8)%nat.
    rewrite <- (crc_raw_chunk 8 c l) by lia.
    rewrite IH.
    + replace (8 * S n)%nat with (8 + 8 * n)%nat by lia.
      now rewrite firstn_add_app, crc_raw_app, skipn_add.
    + apply crc_raw_lt; [exact Hc|now apply bytes_ok_firstn].
    + now apply bytes_ok_skipn.
    + rewrite skipn_length. lia.
Qed.

Lemma slice8_eq : forall a c l, c < 2 ^ 32 -> bytes_ok l -> slice8 a c l = crc_raw c l.
Proof.
  intros a c l Hc Hl. unfold slice8; cbv zeta.
  set (len := N.of_nat (length l)).
  set (initial := N.min len ((4 - a) mod 4)).
  assert (Hi : (N.to_nat initial <= length l)%nat) by lia.
  rewrite crc_table_eq_gen by now apply bytes_ok_firstn.
  rewrite slice8_body_eq.
  - rewrite crc_table_eq_gen by (now apply bytes_ok_skipn; apply bytes_ok_skipn).
    rewrite <- !crc_raw_app, app_assoc, <- firstn_add_app, <- skipn_add.
    now rewrite firstn_skipn.
  - apply crc_raw_lt; [exact Hc|now apply bytes_ok_firstn].
  - now apply bytes_ok_skipn.
  - rewrite skipn_length.
    assert (Hd : (len - initial) / 8 * 8 <= len - initial).
    { rewrite N.mul_comm. apply N.mul_div_le. discriminate. }
    lia.
Qed.

Theorem crc_slice8_eq : forall a l, bytes_ok l -> crc_slice8 a l = crc_spec l.
Proof.
  intros a l Hl. unfold crc_slice8, crc_spec.
  rewrite slice8_eq; [reflexivity|reflexivity|exact Hl].
Qed.

(* ------------------------------------------------------------------ *)
(* CRC instructions                                                    *)
(* ------------------------------------------------------------------ *)

Lemma hw_body_eq : forall n c l, (8 * n <= length l)%nat ->
  hw_body n c l = (crc_raw c (firstn (8 * n) l), skipn (8 * n) l).
Proof.
  induction n as [|n IH]; intros c l Hn.
  - reflexivity.
  - cbn [hw_body]. unfold mm_crc32_u64.
    change 64%nat with (8 * 8)%nat.
    rewrite <- (crc_raw_chunk 8 c l) by lia.
    rewrite IH by (rewrite skipn_length; lia).
    replace (8 * S n)%nat with (8 + 8 * n)%nat by lia.
    now rewrite firstn_add_app, crc_raw_app, skipn_add.
Qed.

Lemma crc_hw_eq_gen : forall a l, crc_hw a l = crc_spec l.
Proof.
  intros a l. unfold crc_hw, crc_spec; cbv zeta.
  set (len := N.of_nat (length l)).
  set (h := hw_head_len a len).
  assert (Hh : h <= len) by (unfold h, hw_head_len; lia).
  change (fold_left mm_crc32_u8) with (fun l c => crc_raw c l). cbv beta.
  rewrite hw_body_eq.
  - rewrite <- !crc_raw_app, app_assoc, <- firstn_add_app, <- skipn_add.
    now rewrite firstn_skipn.
  - rewrite skipn_length.
    assert (Hd : (len - h) / 8 * 8 <= len - h).
    { rewrite N.mul_comm. apply N.mul_div_le. discriminate. }
    lia.
Qed.

Theorem crc_hw_eq : forall a l, bytes_ok l -> crc_hw a l = crc_spec l.
Proof. intros a l _. apply crc_hw_eq_gen. Qed.

(* ------------------------------------------------------------------ *)
(* header CRC (first 28 of 32 bytes)                                   *)
(* ------------------------------------------------------------------ *)

Lemma mm_u64_chunk : forall c l, length l = 8%nat -> mm_crc32_u64 c (le l) = crc_raw c l.
Proof. intros c l Hl. unfold mm_crc32_u64. now rewrite crc_raw_le, Hl. Qed.

Lemma mm_u32_chunk : forall c l, length l = 4%nat -> mm_crc32_u32 c (le l) = crc_raw c l.
Proof. intros c l Hl. unfold mm_crc32_u32. now rewrite crc_raw_le, Hl. Qed.

Lemma crc_hdr_hw_eq_gen : forall h, length h = 32%nat ->
  crc_hdr_hw h = crc_spec (firstn 28 h).
Proof.
  intros h Hlen. unfold crc_hdr_hw, crc_spec; cbv zeta.
  change (8 * 0)%nat with 0%nat. change (8 * 1)%nat with 8%nat.
  change (8 * 2)%nat with 16%nat. change (skipn 0 h) with h.
  rewrite !mm_u64_chunk, mm_u32_chunk
    by (rewrite firstn_length_le; [reflexivity|rewrite ?skipn_length; lia]).
  rewrite <- !crc_raw_app. do 2 f_equal.
  change 28%nat with (8 + (8 + (8 + 4)))%nat.
  rewrite !firstn_add_app, <- !skipn_add. reflexivity.
Qed.

Theorem crc_hdr_hw_eq : forall h, bytes_ok h -> length h = 32%nat ->
  crc_hdr_hw h = crc_spec (firstn 28 h).
Proof. intros h _. apply crc_hdr_hw_eq_gen. Qed.

Lemma crc_hdr_hw32_eq_gen : forall h, length h = 32%nat ->
  crc_hdr_hw32 h = crc_spec (firstn 28 h).
Proof.
  intros h Hlen. unfold crc_hdr_hw32, crc_spec; cbv zeta.
  cbn [seq fold_left].
  change (4 * 0)%nat with 0%nat. change (4 * 1)%nat with 4%nat.
  change (4 * 2)%nat with 8%nat. change (4 * 3)%nat with 12%nat.
  change (4 * 4)%nat with 16%nat. change (4 * 5)%nat with 20%nat.
  change (4 * 6)%nat with 24%nat. change (skipn 0 h) with h.
  rewrite !mm_u32_chunk
    by (rewrite firstn_length_le; [reflexivity|rewrite ?skipn_length; lia]).
  rewrite <- !crc_raw_app. do 2 f_equal.
  change 28%nat with (4 + (4 + (4 + (4 + (4 + (4 + 4))))))%nat.
  rewrite !firstn_add_app, <- !skipn_add. reflexivity.
Qed.

Theorem crc_hdr_hw32_eq : forall h, bytes_ok h -> length h = 32%nat ->
  crc_hdr_hw32 h = crc_spec (firstn 28 h).
Proof. intros h _. apply crc_hdr_hw32_eq_gen. Qed.

Theorem crc_hdr_slice8_eq : forall a h, bytes_ok h -> length h = 32%nat ->
  crc_hdr_slice8 a h = crc_spec (firstn 28 h).
Proof.
  intros a h Hb _. unfold crc_hdr_slice8. apply crc_slice8_eq. now apply bytes_ok_firstn.
Qed.

(* ------------------------------------------------------------------ *)
(* the standard check value                                            *)
(* ------------------------------------------------------------------ *)

Lemma crc_check : crc_spec [49;50;51;52;53;54;55;56;57] = 0xE3069283.
Proof. vm_compute. reflexivity. Qed.

Lemma crc_spec_app : forall l1 l2,
  crc_spec (l1 ++ l2) = N.lxor (crc_raw (crc_raw crc_init l1) l2) 0xFFFFFFFF.
Proof. intros. unfold crc_spec. now rewrite crc_raw_app. Qed.

Lemma crc_spec_lt : forall l, bytes_ok l -> crc_spec l < 2 ^ 32.
Proof.
  intros l H. unfold crc_spec. apply lxor_lt_pow2; [|reflexivity].
  apply crc_raw_lt; [reflexivity|exact H].
Qed.

(* ------------------------------------------------------------------ *)
(* the hypotheses of the property theorems are satisfiable, and every   *)
(* code path reproduces the check value on a misaligned buffer          *)
(* ------------------------------------------------------------------ *)

Definition ex_msg : list N := [49;50;51;52;53;54;55;56;57].
Definition ex_hdr : list N := map N.of_nat (seq 100 32).

Lemma bytes_ok_dec : forall l, forallb (fun b => b <? 256) l = true -> bytes_ok l.
Proof.
  intros l H. apply Forall_forall. intros b Hb.
  rewrite forallb_forall in H. apply N.ltb_lt. now apply H.
Qed.

Example ex_msg_ok : bytes_ok ex_msg.
Proof. apply bytes_ok_dec. reflexivity. Qed.

Example ex_hdr_ok : bytes_ok ex_hdr /\ length ex_hdr = 32%nat.
Proof. split; [apply bytes_ok_dec|]; reflexivity. Qed.

Example ex_paths_agree :
  crc32c ex_msg = 0xE3069283 /\
  crc_slice8 1 (ex_msg ++ ex_msg ++ ex_msg) = crc_spec (ex_msg ++ ex_msg ++ ex_msg) /\
  crc_hw 3 (ex_msg ++ ex_msg ++ ex_msg) = crc_spec (ex_msg ++ ex_msg ++ ex_msg) /\
  crc_hdr_hw ex_hdr = crc_hdr_slice8 2 ex_hdr /\
  crc_hdr_hw32 ex_hdr = crc_hdr_hw ex_hdr.
Proof. vm_compute. repeat split; reflexivity. Qed.
