(* C17, part 2: what a writer program means, call by call.
   [cp_step]: one call on the content denoted by the calls accepted so far is accepted exactly when the static check
   [cp_wf_at] passes, and then the content is the denotation of the extended program.  Consequences:
     spec_of p = cp_denote (cp_accepted p)          for EVERY program p
     cp_wf (cp_accepted p) = true
     cp_wf q = true  ->  cp_ok q /\ spec_of q = cp_denote q /\ cp_accepted q = q. *)
From Coq Require Import NArith ZArith List Bool Lia ZifyBool ZifyN ZifyNat.
From JLS Require Import Generated Spec SpecProofs CopyModel.
Import ListNotations.
Local Open Scope N_scope.

(* ------------------------------------------------------------------ *)
(* generic list facts                                                   *)

Lemma cp_mem_in : forall i l, cp_mem i l = true <-> In i l.
Proof.
  unfold cp_mem. intros i l. rewrite existsb_exists. split.
  - intros (x & Hx & E). apply N.eqb_eq in E. subst x. exact Hx.
  - intros H. exists i. split; [exact H|apply N.eqb_refl].
Qed.

Lemma cp_mem_false : forall i l, cp_mem i l = false <-> ~ In i l.
Proof.
  intros i l. split.
  - intros H Hin. apply cp_mem_in in Hin. congruence.
  - intros H. destruct (cp_mem i l) eqn:E; [|reflexivity]. exfalso. apply H. apply cp_mem_in. exact E.
Qed.

Lemma cp_find_none_mem : forall (A : Type) (key : A -> N) i l,
  (match find (fun s => key s =? i) l with None => true | Some _ => false end) = negb (cp_mem i (map key l)).
Proof.
  intros A key i l. induction l as [|a l IH]; cbn [find map cp_mem existsb]; [reflexivity|].
  rewrite (N.eqb_sym i). destruct (key a =? i); cbn [orb negb]; [reflexivity|exact IH].
Qed.

Lemma cp_find_some_mem : forall (A : Type) (key : A -> N) i l,
  (match find (fun s => key s =? i) l with None => false | Some _ => true end) = cp_mem i (map key l).
Proof.
  intros A key i l. pose proof (cp_find_none_mem A key i l) as H.
  destruct (find (fun s => key s =? i) l); destruct (cp_mem i (map key l)); cbn in H; congruence.
Qed.

Lemma cp_find_map : forall (A B : Type) (f : A -> B) (pa : A -> bool) (pb : B -> bool) l,
  (forall x, pb (f x) = pa x) -> find pb (map f l) = option_map f (find pa l).
Proof.
  intros A B f pa pb l H. induction l as [|a l IH]; cbn [find map option_map]; [reflexivity|].
  rewrite H. destruct (pa a); [reflexivity|exact IH].
Qed.

Lemma cp_nodup_inj : forall (A : Type) (key : A -> N) l x y,
  NoDup (map key l) -> In x l -> In y l -> key x = key y -> x = y.
Proof.
  intros A key l. induction l as [|a l IH]; intros x y ND Hx Hy E; [destruct Hx|].
  cbn [map] in ND. inversion ND as [|k r Hnot ND']; subst.
  destruct Hx as [->|Hx]; destruct Hy as [->|Hy].
  - reflexivity.
  - exfalso. apply Hnot. rewrite E. apply in_map. exact Hy.
  - exfalso. apply Hnot. rewrite <- E. apply in_map. exact Hx.
  - apply IH; assumption.
Qed.

Lemma cp_find_unique : forall (A : Type) (key : A -> N) l x,
  NoDup (map key l) -> In x l -> find (fun y => key y =? key x) l = Some x.
Proof.
  intros A key l. induction l as [|a l IH]; intros x ND Hin; [destruct Hin|].
  cbn [map] in ND. inversion ND as [|k r Hnot ND']; subst. cbn [find].
  destruct Hin as [->|Hin]; [rewrite N.eqb_refl; reflexivity|].
  destruct (key a =? key x) eqn:E; [|apply IH; assumption].
  apply N.eqb_eq in E. exfalso. apply Hnot. rewrite E. apply in_map. exact Hin.
Qed.

Lemma cp_find_key : forall (A : Type) (key : A -> N) l i x,
  find (fun y => key y =? i) l = Some x -> In x l /\ key x = i.
Proof.
  intros A key l i x H. apply find_some in H. destruct H as [H1 H2]. apply N.eqb_eq in H2. split; assumption.
Qed.

Lemma cp_find_none_key : forall (A : Type) (key : A -> N) l i,
  find (fun y => key y =? i) l = None -> ~ In i (map key l).
Proof.
  intros A key l i H Hin. apply in_map_iff in Hin. destruct Hin as (x & E & Hx).
  pose proof (find_none _ _ H x Hx) as Hn. cbn in Hn. apply N.eqb_neq in Hn. contradiction.
Qed.

Lemma cp_find_in_key : forall (A : Type) (key : A -> N) l i,
  In i (map key l) -> exists x, find (fun y => key y =? i) l = Some x.
Proof.
  intros A key l i Hin. destruct (find (fun y => key y =? i) l) as [x|] eqn:F; [exists x; reflexivity|].
  exfalso. eapply cp_find_none_key; eassumption.
Qed.

(* ------------------------------------------------------------------ *)
(* the tracks of an extended program                                    *)

Lemma cp_srcs_app : forall p q, cp_srcs (p ++ q) = cp_srcs p ++ cp_srcs q.
Proof. intros. apply flat_map_app. Qed.
Lemma cp_sigs_app : forall p q, cp_sigs (p ++ q) = cp_sigs p ++ cp_sigs q.
Proof. intros. apply flat_map_app. Qed.
Lemma cp_fsr_app : forall i p q, cp_fsr i (p ++ q) = cp_fsr i p ++ cp_fsr i q.
Proof. intros. apply flat_map_app. Qed.
Lemma cp_annos_app : forall i p q, cp_annos i (p ++ q) = cp_annos i p ++ cp_annos i q.
Proof. intros. apply flat_map_app. Qed.
Lemma cp_utcs_app : forall i p q, cp_utcs i (p ++ q) = cp_utcs i p ++ cp_utcs i q.
Proof. intros. apply flat_map_app. Qed.
Lemma cp_uds_app : forall p q, cp_uds (p ++ q) = cp_uds p ++ cp_uds q.
Proof. intros. apply flat_map_app. Qed.

Lemma cp_defs_app : forall p q, cp_defs (p ++ q) = cp_defs p ++ map sp_align (cp_sigs q).
Proof. intros. unfold cp_defs. rewrite cp_sigs_app, map_app. reflexivity. Qed.

Lemma cp_align_id : forall d, sg_id (sp_align d) = sg_id d.
Proof. reflexivity. Qed.

Lemma cp_defs_ids : forall p, map sg_id (cp_defs p) = 0 :: map sg_id (cp_sigs p).
Proof.
  intros p. unfold cp_defs. cbn [map]. rewrite map_map. f_equal.
Qed.

Lemma cp_track_def : forall p d, ss_def (cp_track_state p d) = d.
Proof. reflexivity. Qed.

Lemma cp_track_same : forall p p' d,
  cp_fsr (sg_id d) p' = cp_fsr (sg_id d) p -> cp_annos (sg_id d) p' = cp_annos (sg_id d) p ->
  cp_utcs (sg_id d) p' = cp_utcs (sg_id d) p -> cp_track_state p' d = cp_track_state p d.
Proof. intros p p' d H1 H2 H3. unfold cp_track_state. rewrite H1, H2, H3. reflexivity. Qed.

Lemma cp_content_eq : forall a b,
  c_sources a = c_sources b -> c_signals a = c_signals b -> c_udata a = c_udata b -> a = b.
Proof. intros [a1 a2 a3] [b1 b2 b3]; cbn; intros; subst; reflexivity. Qed.

(* ------------------------------------------------------------------ *)
(* FSR writes touch the stream fields only                              *)

Lemma cp_fsr_write_def : forall s sid smp, ss_def (fsr_write s sid smp) = ss_def s.
Proof.
  intros s sid smp. unfold fsr_write. destruct smp as [|x r]; [reflexivity|].
  destruct (ss_first s); reflexivity.
Qed.

Lemma cp_fold_def : forall bl s, ss_def (fold_left cp_fsr_apply bl s) = ss_def s.
Proof.
  induction bl as [|b bl IH]; intros s; cbn [fold_left]; [reflexivity|].
  rewrite IH. apply cp_fsr_write_def.
Qed.

Lemma cp_fsr_write_shape : forall s sid smp A U,
  fsr_write {| ss_def := ss_def s; ss_first := ss_first s; ss_samples := ss_samples s; ss_annos := A; ss_utcs := U |} sid smp
  = {| ss_def := ss_def s; ss_first := ss_first (fsr_write s sid smp); ss_samples := ss_samples (fsr_write s sid smp);
       ss_annos := A; ss_utcs := U |}.
Proof.
  intros s sid smp A U. unfold fsr_write. destruct smp as [|x r]; [reflexivity|].
  cbn [ss_first ss_samples ss_def ss_annos ss_utcs].
  destruct (ss_first s) as [f|]; [|reflexivity].
  cbn [ss_first ss_samples ss_def ss_annos ss_utcs]. reflexivity.
Qed.

(* ------------------------------------------------------------------ *)
(* the invariant of accepted prefixes                                   *)

Definition cp_inv (pre : list wop) : Prop :=
  NoDup (map sg_id (cp_defs pre)) /\
  (forall i, ~ In i (map sg_id (cp_defs pre)) -> cp_fsr i pre = [] /\ cp_annos i pre = [] /\ cp_utcs i pre = []).

Lemma cp_inv_nil : cp_inv [].
Proof.
  split.
  - cbn. constructor; [intros []|constructor].
  - intros i _. repeat split; reflexivity.
Qed.

Lemma cp_find_sig_denote : forall pre i,
  find_sig (cp_denote pre) i = option_map (cp_track_state pre) (cp_find_def pre i).
Proof.
  intros pre i. unfold find_sig, cp_find_def. cbn [cp_denote c_signals].
  apply cp_find_map. intros d. reflexivity.
Qed.

Lemma cp_find_src_denote : forall pre i,
  (match find_src (cp_denote pre) i with None => true | Some _ => false end)
  = negb (cp_mem i (0 :: map so_id (cp_srcs pre))).
Proof.
  intros pre i. unfold find_src. cbn [cp_denote c_sources].
  rewrite (cp_find_none_mem srcdef so_id i (source0 :: cp_srcs pre)). reflexivity.
Qed.

Lemma cp_find_src_denote' : forall pre i,
  (match find_src (cp_denote pre) i with None => false | Some _ => true end)
  = cp_mem i (0 :: map so_id (cp_srcs pre)).
Proof.
  intros pre i. unfold find_src. cbn [cp_denote c_sources].
  rewrite (cp_find_some_mem srcdef so_id i (source0 :: cp_srcs pre)). reflexivity.
Qed.

Lemma cp_find_sig_none_denote : forall pre i,
  (match find_sig (cp_denote pre) i with None => true | Some _ => false end)
  = negb (cp_mem i (0 :: map sg_id (cp_sigs pre))).
Proof.
  intros pre i. rewrite cp_find_sig_denote. unfold cp_find_def.
  rewrite <- cp_defs_ids. rewrite <- (cp_find_none_mem sigdef sg_id i (cp_defs pre)).
  destruct (find (fun d => sg_id d =? i) (cp_defs pre)); reflexivity.
Qed.

Lemma cp_signals_denote : forall p, c_signals (cp_denote p) = map (cp_track_state p) (cp_defs p).
Proof. reflexivity. Qed.

(* a data call on signal [sg_id d]: only d's track changes *)
Lemma cp_upd_denote : forall pre pre' d s',
  cp_inv pre -> In d (cp_defs pre) -> ss_def s' = d -> cp_track_state pre' d = s' ->
  (forall d', sg_id d' <> sg_id d -> cp_track_state pre' d' = cp_track_state pre d') ->
  c_signals (upd_sig (cp_denote pre) s') = map (cp_track_state pre') (cp_defs pre).
Proof.
  intros pre pre' d s' [ND _] Hin Hdef Htr Hoth.
  cbn [upd_sig c_signals cp_denote]. rewrite map_map. apply map_ext_in. intros d' Hin'.
  rewrite cp_track_def, Hdef.
  destruct (sg_id d' =? sg_id d) eqn:E.
  - apply N.eqb_eq in E. assert (d' = d) by (eapply cp_nodup_inj; eassumption). subst d'. symmetry. exact Htr.
  - apply N.eqb_neq in E. symmetry. apply Hoth. exact E.
Qed.

Ltac cp_snoc :=
  rewrite ?cp_srcs_app, ?cp_sigs_app, ?cp_fsr_app, ?cp_annos_app, ?cp_utcs_app, ?cp_uds_app, ?cp_defs_app;
  cbn [cp_srcs cp_sigs cp_fsr cp_annos cp_utcs cp_uds flat_map map];
  rewrite ?app_nil_r.

Lemma cp_track_other : forall pre o d,
  match o with WFsr j _ _ | WAnno j _ | WUtc j _ _ => j <> sg_id d | _ => True end ->
  cp_track_state (pre ++ [o]) d = cp_track_state pre d.
Proof.
  intros pre o d H. destruct o; apply cp_track_same; cp_snoc; try reflexivity;
    (apply N.eqb_neq in H; rewrite H; cbn [app]; rewrite ?app_nil_r; reflexivity).
Qed.

(* ------------------------------------------------------------------ *)
(* one call                                                             *)

Lemma cp_step_src : forall pre d, cp_inv pre ->
  wstep (cp_denote pre) (WSrc d)
  = ((if cp_wf_at pre (WSrc d) then cp_denote (pre ++ [WSrc d]) else cp_denote pre), cp_wf_at pre (WSrc d)).
Proof.
  intros pre d Hinv. cbn [wstep cp_wf_at]. rewrite cp_find_src_denote.
  destruct ((so_id d <? JLS_SOURCE_COUNT) && negb (cp_mem (so_id d) (0 :: map so_id (cp_srcs pre))) && str_fits (so_name d)
            && str_fits (so_vendor d) && str_fits (so_model d) && str_fits (so_version d) && str_fits (so_serial d)); [|reflexivity].
  f_equal. apply cp_content_eq; cbn [c_sources c_signals c_udata cp_denote].
  - cp_snoc. reflexivity.
  - cp_snoc. apply map_ext. intros d'. symmetry. apply cp_track_other. exact I.
  - cp_snoc. reflexivity.
Qed.

Lemma cp_step_sig : forall pre d, cp_inv pre ->
  wstep (cp_denote pre) (WSig d)
  = ((if cp_wf_at pre (WSig d) then cp_denote (pre ++ [WSig d]) else cp_denote pre), cp_wf_at pre (WSig d)).
Proof.
  intros pre d [ND Hun]. cbn [wstep cp_wf_at]. rewrite cp_find_src_denote', cp_find_sig_none_denote.
  destruct (cp_mem (sg_id d) (0 :: map sg_id (cp_sigs pre))) eqn:M; cbn [negb].
  { rewrite !andb_false_r. cbn [andb]. reflexivity. }
  destruct ((sg_id d <? JLS_SIGNAL_COUNT) && (sg_src d <? JLS_SOURCE_COUNT) && cp_mem (sg_src d) (0 :: map so_id (cp_srcs pre)) && true
            && ((sg_type d =? JLS_SIGNAL_TYPE_FSR) || (sg_type d =? JLS_SIGNAL_TYPE_VSR)) && dt_valid (sg_dtype d)
            && ((sg_type d =? JLS_SIGNAL_TYPE_VSR) || negb (sg_rate d =? 0)) && str_fits (sg_name d) && str_fits (sg_units d)); [|reflexivity].
  f_equal. apply cp_content_eq; cbn [c_sources c_signals c_udata cp_denote].
  - cp_snoc. reflexivity.
  - cp_snoc. rewrite map_app. cbn [map]. f_equal.
    + apply map_ext. intros d'. symmetry. apply cp_track_other. exact I.
    + f_equal. apply cp_mem_false in M. rewrite <- cp_defs_ids in M.
      destruct (Hun (sg_id d) M) as (H1 & H2 & H3).
      unfold cp_track_state. rewrite cp_align_id. cp_snoc. rewrite H1, H2, H3. reflexivity.
  - cp_snoc. reflexivity.
Qed.

Lemma cp_step_fsr : forall pre i sid smp, cp_inv pre ->
  wstep (cp_denote pre) (WFsr i sid smp)
  = ((if cp_wf_at pre (WFsr i sid smp) then cp_denote (pre ++ [WFsr i sid smp]) else cp_denote pre), cp_wf_at pre (WFsr i sid smp)).
Proof.
  intros pre i sid smp Hinv. cbn [wstep cp_wf_at]. unfold cp_is_fsr. rewrite cp_find_sig_denote.
  destruct (cp_find_def pre i) as [d|] eqn:F; cbn [option_map]; [|reflexivity].
  rewrite cp_track_def. destruct (sg_type d =? JLS_SIGNAL_TYPE_FSR); [|reflexivity].
  apply cp_find_key in F. destruct F as [Hin Hid]. subst i.
  f_equal. apply cp_content_eq.
  - cbn [c_sources c_udata cp_denote upd_sig]. cp_snoc. reflexivity.
  - rewrite (cp_signals_denote (pre ++ _)). cp_snoc. apply (cp_upd_denote pre _ d); try assumption.
    + rewrite cp_fsr_write_def. reflexivity.
    + unfold cp_track_state. cp_snoc. rewrite N.eqb_refl. rewrite fold_left_app. cbn [fold_left app].
      set (s0 := fold_left cp_fsr_apply (cp_fsr (sg_id d) pre) (new_sig d)).
      assert (Hd : ss_def s0 = d) by (unfold s0; rewrite cp_fold_def; reflexivity).
      unfold cp_fsr_apply at 1 2. cbn [fst snd].
      pose proof (cp_fsr_write_shape s0 sid smp (cp_annos (sg_id d) pre) (cp_utcs (sg_id d) pre)) as W.
      rewrite Hd in W. symmetry. exact W.
    + intros d' Hne. apply cp_track_other. intros E. apply Hne. symmetry. exact E.
  - cbn [c_sources c_udata cp_denote upd_sig]. cp_snoc. reflexivity.
Qed.

Lemma cp_denote_same : forall pre o,
  match o with WOmit _ _ | WFlush => True | _ => False end -> cp_denote (pre ++ [o]) = cp_denote pre.
Proof.
  intros pre o H. apply cp_content_eq; cbn [c_sources c_signals c_udata cp_denote]; destruct o; try contradiction;
    cp_snoc; try reflexivity; apply map_ext; intros d'; apply cp_track_other; exact I.
Qed.

Lemma cp_step_omit : forall pre i en, cp_inv pre ->
  wstep (cp_denote pre) (WOmit i en)
  = ((if cp_wf_at pre (WOmit i en) then cp_denote (pre ++ [WOmit i en]) else cp_denote pre), cp_wf_at pre (WOmit i en)).
Proof.
  intros pre i en Hinv. cbn [wstep cp_wf_at]. unfold cp_is_fsr. rewrite cp_find_sig_denote.
  destruct (cp_find_def pre i) as [d|] eqn:F; cbn [option_map]; [|reflexivity].
  rewrite cp_track_def. destruct (sg_type d =? JLS_SIGNAL_TYPE_FSR); [|reflexivity].
  rewrite cp_denote_same by exact I. reflexivity.
Qed.

Lemma cp_step_anno : forall pre i a, cp_inv pre ->
  wstep (cp_denote pre) (WAnno i a)
  = ((if cp_wf_at pre (WAnno i a) then cp_denote (pre ++ [WAnno i a]) else cp_denote pre), cp_wf_at pre (WAnno i a)).
Proof.
  intros pre i a Hinv. cbn [wstep cp_wf_at]. rewrite cp_find_sig_denote.
  destruct (cp_find_def pre i) as [d|] eqn:F; cbn [option_map]; [|reflexivity].
  destruct (stype_ok_anno (an_stype a) && (an_type a <? 256)); [|reflexivity].
  apply cp_find_key in F. destruct F as [Hin Hid]. subst i.
  f_equal. apply cp_content_eq.
  - cbn [c_sources c_udata cp_denote upd_sig]. cp_snoc. reflexivity.
  - rewrite (cp_signals_denote (pre ++ _)). cp_snoc. apply (cp_upd_denote pre _ d); try assumption.
    + reflexivity.
    + unfold cp_track_state. cp_snoc. rewrite N.eqb_refl. cbn [ss_def ss_first ss_samples ss_annos ss_utcs]. reflexivity.
    + intros d' Hne. apply cp_track_other. intros E. apply Hne. symmetry. exact E.
  - cbn [c_sources c_udata cp_denote upd_sig]. cp_snoc. reflexivity.
Qed.

Lemma cp_step_utc : forall pre i sid utc, cp_inv pre ->
  wstep (cp_denote pre) (WUtc i sid utc)
  = ((if cp_wf_at pre (WUtc i sid utc) then cp_denote (pre ++ [WUtc i sid utc]) else cp_denote pre), cp_wf_at pre (WUtc i sid utc)).
Proof.
  intros pre i sid utc Hinv. cbn [wstep cp_wf_at]. unfold cp_is_fsr. rewrite cp_find_sig_denote.
  destruct (cp_find_def pre i) as [d|] eqn:F; cbn [option_map]; [|reflexivity].
  rewrite cp_track_def. destruct (sg_type d =? JLS_SIGNAL_TYPE_FSR); [|reflexivity].
  apply cp_find_key in F. destruct F as [Hin Hid]. subst i.
  f_equal. apply cp_content_eq.
  - cbn [c_sources c_udata cp_denote upd_sig]. cp_snoc. reflexivity.
  - rewrite (cp_signals_denote (pre ++ _)). cp_snoc. apply (cp_upd_denote pre _ d); try assumption.
    + reflexivity.
    + unfold cp_track_state. cp_snoc. rewrite N.eqb_refl. cbn [ss_def ss_first ss_samples ss_annos ss_utcs]. reflexivity.
    + intros d' Hne. apply cp_track_other. intros E. apply Hne. symmetry. exact E.
  - cbn [c_sources c_udata cp_denote upd_sig]. cp_snoc. reflexivity.
Qed.

Lemma cp_step_ud : forall pre u, cp_inv pre ->
  wstep (cp_denote pre) (WUd u)
  = ((if cp_wf_at pre (WUd u) then cp_denote (pre ++ [WUd u]) else cp_denote pre), cp_wf_at pre (WUd u)).
Proof.
  intros pre u Hinv. cbn [wstep cp_wf_at].
  destruct (stype_ok_ud (ud_stype u)); [|reflexivity].
  assert (Hs : forall X, map (cp_track_state (pre ++ [WUd u])) X = map (cp_track_state pre) X)
    by (intros X; apply map_ext; intros d'; apply cp_track_other; exact I).
  destruct (ud_stype u =? 0) eqn:E; f_equal; apply cp_content_eq; cbn [c_sources c_signals c_udata cp_denote];
    cp_snoc; rewrite ?Hs; try reflexivity.
  - rewrite flat_map_app. cbn [flat_map].
    assert (Hu : cp_ud_store u = []) by (unfold cp_ud_store; rewrite E; reflexivity).
    rewrite Hu. cbn [app]. rewrite app_nil_r. reflexivity.
  - rewrite flat_map_app. cbn [flat_map]. rewrite app_nil_r.
    unfold cp_ud_store at 3. rewrite E. reflexivity.
Qed.

Theorem cp_step : forall pre o, cp_inv pre ->
  wstep (cp_denote pre) o = ((if cp_wf_at pre o then cp_denote (pre ++ [o]) else cp_denote pre), cp_wf_at pre o).
Proof.
  intros pre o Hinv. destruct o.
  - apply cp_step_src; exact Hinv.
  - apply cp_step_sig; exact Hinv.
  - apply cp_step_fsr; exact Hinv.
  - apply cp_step_omit; exact Hinv.
  - apply cp_step_anno; exact Hinv.
  - apply cp_step_utc; exact Hinv.
  - apply cp_step_ud; exact Hinv.
  - cbn [wstep cp_wf_at]. rewrite cp_denote_same by exact I. reflexivity.
Qed.

(* ------------------------------------------------------------------ *)
(* the invariant is kept by every accepted call                         *)

Lemma cp_nodup_snoc : forall (l : list N) x, NoDup l -> ~ In x l -> NoDup (l ++ [x]).
Proof.
  induction l as [|a l IH]; intros x ND Hx; cbn [app].
  - constructor; [intros []|constructor].
  - inversion ND as [|k r Hnot ND']; subst. constructor.
    + intros Hin. apply in_app_or in Hin. destruct Hin as [Hin|[->|[]]]; [contradiction|].
      apply Hx. left. reflexivity.
    + apply IH; [exact ND'|]. intros Hin. apply Hx. right. exact Hin.
Qed.

Lemma cp_find_def_in : forall pre i d, cp_find_def pre i = Some d -> In d (cp_defs pre) /\ sg_id d = i.
Proof. intros pre i d H. unfold cp_find_def in H. apply cp_find_key in H. exact H. Qed.

Lemma cp_find_def_ids : forall pre i, (exists d, cp_find_def pre i = Some d) <-> In i (map sg_id (cp_defs pre)).
Proof.
  intros pre i. split.
  - intros (d & H). apply cp_find_def_in in H. destruct H as [H1 H2]. subst i. apply in_map. exact H1.
  - intros H. apply cp_find_in_key in H. exact H.
Qed.

Lemma cp_wf_at_defined : forall pre o, cp_wf_at pre o = true ->
  match o with WFsr j _ _ | WAnno j _ | WUtc j _ _ | WOmit j _ => In j (map sg_id (cp_defs pre)) | _ => True end.
Proof.
  intros pre o H. destruct o; try exact I; cbn [cp_wf_at] in H; unfold cp_is_fsr in H;
    apply cp_find_def_ids; destruct (cp_find_def pre sig) as [d|]; try discriminate; exists d; reflexivity.
Qed.

Lemma cp_inv_step : forall pre o, cp_inv pre -> cp_wf_at pre o = true -> cp_inv (pre ++ [o]).
Proof.
  intros pre o [ND Hun] W. split.
  - rewrite cp_defs_ids in *. destruct o; cp_snoc; try exact ND.
    cbn [cp_wf_at] in W. rewrite map_app. cbn [map].
    change (NoDup ((0 :: map sg_id (cp_sigs pre)) ++ [sg_id d])).
    apply cp_nodup_snoc; [exact ND|].
    destruct (cp_mem (sg_id d) (0 :: map sg_id (cp_sigs pre))) eqn:M.
    + rewrite !andb_false_r in W. cbn [andb] in W. discriminate.
    + apply cp_mem_false. exact M.
  - intros i Hi. pose proof (cp_wf_at_defined pre o W) as Hdef.
    assert (Hi' : ~ In i (map sg_id (cp_defs pre))).
    { intros Hin. apply Hi. rewrite cp_defs_app, map_app. apply in_or_app. left. exact Hin. }
    destruct (Hun i Hi') as (H1 & H2 & H3).
    assert (Hne : forall j, In j (map sg_id (cp_defs pre)) -> (j =? i) = false).
    { intros j Hj. apply N.eqb_neq. intros ->. contradiction. }
    destruct o; cp_snoc; rewrite ?H1, ?H2, ?H3; try (repeat split; reflexivity);
      rewrite (Hne _ Hdef); repeat split; reflexivity.
Qed.

(* ------------------------------------------------------------------ *)
(* whole programs                                                       *)

Lemma cp_run_cons : forall c o r,
  run_spec c (o :: r) = (fst (run_spec (fst (wstep c o)) r), snd (wstep c o) :: snd (run_spec (fst (wstep c o)) r)).
Proof.
  intros c o r. cbn [run_spec]. destruct (wstep c o) as [c1 a]. cbn [fst snd].
  destruct (run_spec c1 r) as [c2 l]. reflexivity.
Qed.

Lemma cp_run_acc : forall p pre, cp_inv pre ->
  fst (run_spec (cp_denote pre) p) = cp_denote (pre ++ cp_acc (cp_denote pre) p) /\
  cp_wf_from pre (cp_acc (cp_denote pre) p) = true /\
  cp_inv (pre ++ cp_acc (cp_denote pre) p).
Proof.
  induction p as [|o r IH]; intros pre Hinv.
  - cbn [run_spec cp_acc fst cp_wf_from]. rewrite app_nil_r. split; [reflexivity|]. split; [reflexivity|exact Hinv].
  - rewrite cp_run_cons. cbn [cp_acc fst]. rewrite (cp_step pre o Hinv). cbn [fst snd].
    destruct (cp_wf_at pre o) eqn:W.
    + destruct (IH (pre ++ [o]) (cp_inv_step pre o Hinv W)) as (I1 & I2 & I3).
      rewrite <- app_assoc in I1, I3. cbn [app] in I1, I3.
      split; [exact I1|]. split; [|exact I3]. cbn [cp_wf_from]. rewrite W, I2. reflexivity.
    + apply IH. exact Hinv.
Qed.

Lemma cp_run_wf : forall q pre, cp_inv pre -> cp_wf_from pre q = true ->
  run_spec (cp_denote pre) q = (cp_denote (pre ++ q), map (fun _ => true) q) /\
  cp_inv (pre ++ q) /\ cp_acc (cp_denote pre) q = q.
Proof.
  induction q as [|o r IH]; intros pre Hinv W.
  - cbn [run_spec map cp_acc]. rewrite app_nil_r. split; [reflexivity|]. split; [exact Hinv|reflexivity].
  - cbn [cp_wf_from] in W. apply andb_prop in W. destruct W as [W1 W2].
    rewrite cp_run_cons. cbn [cp_acc]. rewrite (cp_step pre o Hinv). rewrite W1. cbn [fst snd].
    destruct (IH (pre ++ [o]) (cp_inv_step pre o Hinv W1) W2) as (I1 & I2 & I3).
    rewrite <- app_assoc in I1, I2. cbn [app] in I1, I2.
    rewrite I1, I3. cbn [fst snd map]. split; [reflexivity|]. split; [exact I2|reflexivity].
Qed.

Lemma cp_ok_wf_from : forall q pre, cp_inv pre ->
  forallb (fun b => b) (snd (run_spec (cp_denote pre) q)) = true -> cp_wf_from pre q = true.
Proof.
  induction q as [|o r IH]; intros pre Hinv H; [reflexivity|].
  rewrite cp_run_cons in H. cbn [snd forallb] in H. rewrite (cp_step pre o Hinv) in H. cbn [fst snd] in H.
  apply andb_prop in H. destruct H as [W H]. rewrite W in H.
  cbn [cp_wf_from]. rewrite W. cbn [andb]. apply IH; [apply cp_inv_step; assumption|exact H].
Qed.

Lemma cp_denote_nil : cp_denote [] = content0.
Proof. reflexivity. Qed.

(* the content of ANY program is the denotation of its accepted calls *)
Theorem cp_spec_accepted : forall p, spec_of p = cp_denote (cp_accepted p).
Proof.
  intros p. unfold spec_of, cp_accepted. rewrite <- cp_denote_nil.
  destruct (cp_run_acc p [] cp_inv_nil) as (H & _). exact H.
Qed.

Theorem cp_accepted_wf : forall p, cp_wf (cp_accepted p) = true.
Proof.
  intros p. unfold cp_wf, cp_accepted. rewrite <- cp_denote_nil.
  destruct (cp_run_acc p [] cp_inv_nil) as (_ & H & _). exact H.
Qed.

Theorem cp_accepted_inv : forall p, cp_inv (cp_accepted p).
Proof.
  intros p. unfold cp_accepted. rewrite <- cp_denote_nil.
  destruct (cp_run_acc p [] cp_inv_nil) as (_ & _ & H). exact H.
Qed.

Theorem cp_wf_ok : forall q, cp_wf q = true -> cp_ok q /\ spec_of q = cp_denote q /\ cp_accepted q = q /\ cp_inv q.
Proof.
  intros q W. destruct (cp_run_wf q [] cp_inv_nil W) as (H1 & H2 & H3).
  rewrite cp_denote_nil in H1, H3. cbn [app] in H1, H2.
  unfold cp_ok, cp_flags, spec_of, cp_accepted. rewrite H1. cbn [fst snd].
  split; [|split; [reflexivity|split; [exact H3|exact H2]]].
  clear. induction q as [|o r IH]; [reflexivity|exact IH].
Qed.

Theorem cp_ok_iff_wf : forall q, cp_ok q <-> cp_wf q = true.
Proof.
  intros q. split.
  - intros H. unfold cp_ok, cp_flags in H. rewrite <- cp_denote_nil in H. apply (cp_ok_wf_from q [] cp_inv_nil H).
  - intros H. apply cp_wf_ok. exact H.
Qed.
