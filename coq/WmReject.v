(* A REJECTED CALL WRITES NOTHING AND LEAVES THE WRITER AS IT WAS - on the byte-exact model of the synchronous
   writer (WriterModel.v).

     wmr_code st o            the return code of call [o] in state [st], as an explicit function of the DEFINED
                              source ids, the DEFINED signals and the arguments (never of the file, the log, the
                              track state or the buffered data)
     wmr_step_code            snd (wm_step_rc st o) = wmr_code st o
     wmr_rejected_same        rc <> 0 -> the new state IS the old state (every field: log, file position, heads,
                              definitions, tracks, buffers, fault flag)
     wmr_rejected_log / _entries / _fault      the log, the entries of wm_step, the fault flag
     wmr_code_base            the code does not depend on wm_st_base (raw file state, log, list heads)
     wmr_erase / wmr_run_erase     the rejected calls of a program can be erased: same final state, same log
   No invariant is needed: the statements hold for EVERY model state, hence for every reachable one
   ([wmr_reach]: jls_wr_open then any calls).
   Lemmas only; the property statements are in Properties_C14_reject.v. *)
From Coq Require Import NArith ZArith List Bool Lia.
From JLS Require Import Generated CrcDefs Spec Format WmRaw WmCore WmTs WmFsr WriterModel WmProofs.
Import ListNotations.
Local Open Scope N_scope.

(* ---- the return code as a function of the definitions and the arguments ---- *)
Definition wmr_code_source_def (st : wm_state) (d : srcdef) : N :=
  if JLS_SOURCE_COUNT <=? so_id d then JLS_ERROR_PARAMETER_INVALID
  else if existsb (N.eqb (so_id d)) (wm_st_srcs st) then JLS_ERROR_ALREADY_EXISTS
  else if negb (wm_str_fits (so_name d) && wm_str_fits (so_vendor d) && wm_str_fits (so_model d)
                && wm_str_fits (so_version d) && wm_str_fits (so_serial d)) then JLS_ERROR_TOO_BIG
  else 0.

Definition wmr_code_signal_def (st : wm_state) (d0 : sigdef) : N :=
  if JLS_SIGNAL_COUNT <=? sg_id d0 then JLS_ERROR_PARAMETER_INVALID
  else if JLS_SOURCE_COUNT <=? sg_src d0 then JLS_ERROR_PARAMETER_INVALID
  else if negb (existsb (N.eqb (sg_src d0)) (wm_st_srcs st)) then JLS_ERROR_NOT_FOUND
  else match wm_find_sig st (sg_id d0) with Some _ => JLS_ERROR_ALREADY_EXISTS | None =>
  if negb ((sg_type d0 =? JLS_SIGNAL_TYPE_FSR) || (sg_type d0 =? JLS_SIGNAL_TYPE_VSR)) then JLS_ERROR_PARAMETER_INVALID
  else if negb (wm_str_fits (sg_name d0) && wm_str_fits (sg_units d0)) then JLS_ERROR_TOO_BIG
  else if negb (wm_dt_valid (sg_dtype d0)) then JLS_ERROR_PARAMETER_INVALID
  else match wm_sig_align d0 with None => JLS_ERROR_PARAMETER_INVALID | Some d =>
    if (sg_type d =? JLS_SIGNAL_TYPE_FSR) && (sg_rate d =? 0) then JLS_ERROR_PARAMETER_INVALID else 0
  end end.

(* jls_core_signal_validate / _typed: the code alone *)
Definition wmr_code_validate (st : wm_state) (sig : N) : N :=
  if JLS_SIGNAL_COUNT <=? sig then JLS_ERROR_PARAMETER_INVALID
  else match wm_find_sig st sig with None => JLS_ERROR_NOT_FOUND | Some _ => 0 end.
Definition wmr_code_validate_typed (st : wm_state) (sig ty : N) : N :=
  if JLS_SIGNAL_COUNT <=? sig then JLS_ERROR_PARAMETER_INVALID
  else match wm_find_sig st sig with
       | None => JLS_ERROR_NOT_FOUND
       | Some s => if sg_type (wm_sg_def s) =? ty then 0 else JLS_ERROR_NOT_SUPPORTED
       end.

Definition wmr_code_annotation (st : wm_state) (sig : N) (a : anno) : N :=
  match wmr_code_validate st sig with
  | 0 => if 256 <=? an_type a then JLS_ERROR_PARAMETER_INVALID
         else if 256 <=? an_stype a then JLS_ERROR_PARAMETER_INVALID
         else if negb ((1 <=? an_stype a) && (an_stype a <=? 3)) then JLS_ERROR_PARAMETER_INVALID
         else 0
  | rc => rc
  end.

Definition wmr_code_user_data (u : udata) : N := if 3 <? ud_stype u then JLS_ERROR_PARAMETER_INVALID else 0.

Definition wmr_code (st : wm_state) (o : wop) : N :=
  match o with
  | WSrc d => wmr_code_source_def st d
  | WSig d => wmr_code_signal_def st d
  | WFsr sig _ _ => wmr_code_validate_typed st sig JLS_SIGNAL_TYPE_FSR
  | WOmit sig _ => wmr_code_validate_typed st sig JLS_SIGNAL_TYPE_FSR
  | WAnno sig a => wmr_code_annotation st sig a
  | WUtc sig _ _ => wmr_code_validate_typed st sig JLS_SIGNAL_TYPE_FSR
  | WUd u => wmr_code_user_data u
  | WFlush => 0
  end.

(* which of the C's checks rejected the call (the classes of (op, error)) *)
Inductive wmr_class :=
| WmrAccepted
| WmrIdRange            (* source / signal id >= 256 *)
| WmrDuplicate          (* source / signal already defined *)
| WmrNoSource           (* signal definition naming an undefined source *)
| WmrNoSignal           (* data call on an undefined signal *)
| WmrWrongType          (* fsr / omit / utc call on a VSR signal *)
| WmrBadArgs            (* signal type, data type, alignment, sample rate, annotation / storage type *)
| WmrStringTooBig.

(* ---- tactics ---- *)
Ltac wmr_brk :=
  repeat match goal with
         | |- context [if ?x then _ else _] => destruct x eqn:?
         | |- context [match ?x with _ => _ end] => destruct x eqn:?
         end.

Ltac wmr_ok :=
  wmr_brk; cbn [fst snd]; (split; [reflexivity|]);
  let H := fresh "H" in intros H; exfalso; apply H; reflexivity.

Lemma wmr_nz : forall p : positive, N.pos p <> 0.
Proof. intros p H. discriminate H. Qed.

(* ---- validation ---- *)
Lemma wmr_validate_shape : forall st sig,
  (exists s, wm_signal_validate st sig = (0, Some s) /\ wm_find_sig st sig = Some s /\ wmr_code_validate st sig = 0) \/
  (exists rc, wm_signal_validate st sig = (rc, None) /\ rc <> 0 /\ wmr_code_validate st sig = rc).
Proof.
  intros st sig. unfold wm_signal_validate, wmr_code_validate.
  destruct (JLS_SIGNAL_COUNT <=? sig).
  - right. exists JLS_ERROR_PARAMETER_INVALID. repeat split. discriminate.
  - destruct (wm_find_sig st sig) as [s|].
    + left. exists s. repeat split.
    + right. exists JLS_ERROR_NOT_FOUND. repeat split. discriminate.
Qed.

Lemma wmr_validate_typed_shape : forall st sig ty,
  (exists s, wm_signal_validate_typed st sig ty = (0, Some s) /\ wm_find_sig st sig = Some s /\
             sg_type (wm_sg_def s) = ty /\ wmr_code_validate_typed st sig ty = 0) \/
  (exists rc, wm_signal_validate_typed st sig ty = (rc, None) /\ rc <> 0 /\ wmr_code_validate_typed st sig ty = rc).
Proof.
  intros st sig ty. unfold wm_signal_validate_typed, wm_signal_validate, wmr_code_validate_typed.
  destruct (JLS_SIGNAL_COUNT <=? sig).
  - right. exists JLS_ERROR_PARAMETER_INVALID. repeat split. discriminate.
  - destruct (wm_find_sig st sig) as [s|].
    + destruct (sg_type (wm_sg_def s) =? ty) eqn:E.
      * left. exists s. repeat split. apply N.eqb_eq. exact E.
      * right. exists JLS_ERROR_NOT_SUPPORTED. repeat split. discriminate.
    + right. exists JLS_ERROR_NOT_FOUND. repeat split. discriminate.
Qed.

(* ---- one lemma per API call: the code, and "rejected -> same state" ---- *)
Lemma wmr_user_data : forall st u,
  snd (wm_api_user_data st u) = wmr_code_user_data u /\
  (wmr_code_user_data u <> 0 -> fst (wm_api_user_data st u) = st).
Proof.
  intros st u. unfold wm_api_user_data, wmr_code_user_data. cbv zeta.
  destruct (3 <? ud_stype u).
  - split; [reflexivity|]. intros _. reflexivity.
  - wmr_ok.
Qed.

Lemma wmr_source_def : forall st d,
  snd (wm_api_source_def st d) = wmr_code_source_def st d /\
  (wmr_code_source_def st d <> 0 -> fst (wm_api_source_def st d) = st).
Proof.
  intros st d. unfold wm_api_source_def, wmr_code_source_def. cbv zeta.
  destruct (JLS_SOURCE_COUNT <=? so_id d); [split; [reflexivity|intros _; reflexivity]|].
  destruct (existsb (N.eqb (so_id d)) (wm_st_srcs st)); [split; [reflexivity|intros _; reflexivity]|].
  destruct (negb _); [split; [reflexivity|intros _; reflexivity]|].
  wmr_ok.
Qed.

Lemma wmr_signal_def : forall st d,
  snd (wm_api_signal_def st d) = wmr_code_signal_def st d /\
  (wmr_code_signal_def st d <> 0 -> fst (wm_api_signal_def st d) = st).
Proof.
  intros st d0. unfold wm_api_signal_def, wmr_code_signal_def. cbv zeta.
  destruct (JLS_SIGNAL_COUNT <=? sg_id d0); [split; [reflexivity|intros _; reflexivity]|].
  destruct (JLS_SOURCE_COUNT <=? sg_src d0); [split; [reflexivity|intros _; reflexivity]|].
  destruct (negb (existsb _ _)); [split; [reflexivity|intros _; reflexivity]|].
  destruct (wm_find_sig st (sg_id d0)); [split; [reflexivity|intros _; reflexivity]|].
  destruct (negb (_ || _)); [split; [reflexivity|intros _; reflexivity]|].
  destruct (negb (_ && _)); [split; [reflexivity|intros _; reflexivity]|].
  destruct (negb (wm_dt_valid _)); [split; [reflexivity|intros _; reflexivity]|].
  destruct (wm_sig_align d0) as [d|]; [|split; [reflexivity|intros _; reflexivity]].
  destruct ((sg_type d =? JLS_SIGNAL_TYPE_FSR) && (sg_rate d =? 0)); [split; [reflexivity|intros _; reflexivity]|].
  wmr_ok.
Qed.

Lemma wmr_fsr_omit_data : forall st sig en,
  snd (wm_api_fsr_omit_data st sig en) = wmr_code_validate_typed st sig JLS_SIGNAL_TYPE_FSR /\
  (wmr_code_validate_typed st sig JLS_SIGNAL_TYPE_FSR <> 0 -> fst (wm_api_fsr_omit_data st sig en) = st).
Proof.
  intros st sig en. unfold wm_api_fsr_omit_data.
  destruct (wmr_validate_typed_shape st sig JLS_SIGNAL_TYPE_FSR) as [(s & E & _ & _ & C)|(rc & E & Hrc & C)];
    rewrite E, C.
  - destruct (wm_sg_fsr s); cbn [fst snd]; (split; [reflexivity|]); intros H; exfalso; apply H; reflexivity.
  - destruct rc as [|p]; [exfalso; apply Hrc; reflexivity|]. cbn [fst snd]. split; [reflexivity|]. intros _. reflexivity.
Qed.

Lemma wmr_utc : forall st sig sid utc,
  snd (wm_api_utc st sig sid utc) = wmr_code_validate_typed st sig JLS_SIGNAL_TYPE_FSR /\
  (wmr_code_validate_typed st sig JLS_SIGNAL_TYPE_FSR <> 0 -> fst (wm_api_utc st sig sid utc) = st).
Proof.
  intros st sig sid utc. unfold wm_api_utc. cbv zeta.
  destruct (wmr_validate_typed_shape st sig JLS_SIGNAL_TYPE_FSR) as [(s & E & _ & _ & C)|(rc & E & Hrc & C)];
    rewrite E, C.
  - destruct (wm_sg_utc s).
    + wmr_ok.
    + cbn [fst snd]. split; [reflexivity|]. intros H. exfalso. apply H. reflexivity.
  - destruct rc as [|p]; [exfalso; apply Hrc; reflexivity|]. cbn [fst snd]. split; [reflexivity|]. intros _. reflexivity.
Qed.

Lemma wmr_annotation : forall st sig a,
  snd (wm_api_annotation st sig a) = wmr_code_annotation st sig a /\
  (wmr_code_annotation st sig a <> 0 -> fst (wm_api_annotation st sig a) = st).
Proof.
  intros st sig a. unfold wm_api_annotation, wmr_code_annotation. cbv zeta.
  destruct (wmr_validate_shape st sig) as [(s & E & _ & C)|(rc & E & Hrc & C)]; rewrite E, C.
  - destruct (256 <=? an_type a); [split; [reflexivity|intros _; reflexivity]|].
    destruct (256 <=? an_stype a); [split; [reflexivity|intros _; reflexivity]|].
    destruct (negb _); [split; [reflexivity|intros _; reflexivity]|].
    destruct (wm_sg_anno s).
    + wmr_ok.
    + cbn [fst snd]. split; [reflexivity|]. intros H. exfalso. apply H. reflexivity.
  - destruct rc as [|p]; [exfalso; apply Hrc; reflexivity|]. cbn [fst snd]. split; [reflexivity|]. intros _. reflexivity.
Qed.

Section WMR.
Variable summ1 : N -> list N -> wm_sentry.
Variable summN : bool -> list wm_sentry -> wm_sentry.

Lemma wmr_fsr : forall st sig sid samples,
  snd (wm_api_fsr summ1 summN st sig sid samples) = wmr_code_validate_typed st sig JLS_SIGNAL_TYPE_FSR /\
  (wmr_code_validate_typed st sig JLS_SIGNAL_TYPE_FSR <> 0 -> fst (wm_api_fsr summ1 summN st sig sid samples) = st).
Proof.
  intros st sig sid samples. unfold wm_api_fsr. cbv zeta.
  destruct (wmr_validate_typed_shape st sig JLS_SIGNAL_TYPE_FSR) as [(s & E & _ & _ & C)|(rc & E & Hrc & C)];
    rewrite E, C.
  - destruct (wm_sg_fsr s); cbn [fst snd]; (split; [reflexivity|]); intros H; exfalso; apply H; reflexivity.
  - destruct rc as [|p]; [exfalso; apply Hrc; reflexivity|]. cbn [fst snd]. split; [reflexivity|]. intros _. reflexivity.
Qed.

Lemma wmr_step_both : forall st o,
  snd (wm_step_rc summ1 summN st o) = wmr_code st o /\
  (wmr_code st o <> 0 -> fst (wm_step_rc summ1 summN st o) = st).
Proof.
  intros st o. destruct o as [d|d|sig sid samples|sig en|sig a|sig sid utc|u|]; cbn [wm_step_rc wmr_code].
  - apply wmr_source_def.
  - apply wmr_signal_def.
  - apply wmr_fsr.
  - apply wmr_fsr_omit_data.
  - apply wmr_annotation.
  - apply wmr_utc.
  - apply wmr_user_data.
  - unfold wm_api_flush. cbn [fst snd]. split; [reflexivity|]. intros H. exfalso. apply H. reflexivity.
Qed.

(* the return code is [wmr_code] *)
Lemma wmr_step_code : forall st o, snd (wm_step_rc summ1 summN st o) = wmr_code st o.
Proof. intros st o. apply wmr_step_both. Qed.

(* THE statement: a rejected call returns the state it was given *)
Lemma wmr_rejected_same : forall st o,
  snd (wm_step_rc summ1 summN st o) <> 0 -> fst (wm_step_rc summ1 summN st o) = st.
Proof. intros st o Hrc. apply wmr_step_both. rewrite <- wmr_step_code. exact Hrc. Qed.

Lemma wmr_rejected_log : forall st o,
  snd (wm_step_rc summ1 summN st o) <> 0 -> wm_st_log (fst (wm_step_rc summ1 summN st o)) = wm_st_log st.
Proof. intros st o Hrc. rewrite (wmr_rejected_same st o Hrc). reflexivity. Qed.

Lemma wmr_rejected_fault : forall st o,
  snd (wm_step_rc summ1 summN st o) <> 0 -> wm_st_fault (fst (wm_step_rc summ1 summN st o)) = wm_st_fault st.
Proof. intros st o Hrc. rewrite (wmr_rejected_same st o Hrc). reflexivity. Qed.

(* contrapositive: a call that changes anything (a fortiori one that writes) returned 0 *)
Lemma wmr_changed_accepted : forall st o,
  fst (wm_step_rc summ1 summN st o) <> st -> snd (wm_step_rc summ1 summN st o) = 0.
Proof.
  intros st o Hne. destruct (N.eq_dec (snd (wm_step_rc summ1 summN st o)) 0) as [E|E]; [exact E|].
  exfalso. apply Hne. apply wmr_rejected_same. exact E.
Qed.

(* ---- the code does not look at the base (file state, log, list heads) ---- *)
Lemma wmr_code_base : forall st b o, wmr_code (wm_st_set_base st b) o = wmr_code st o.
Proof. intros st b o. destruct o; reflexivity. Qed.

Lemma wmr_code_same_defs : forall st st' o,
  wm_st_srcs st' = wm_st_srcs st -> wm_st_sigs st' = wm_st_sigs st -> wmr_code st' o = wmr_code st o.
Proof.
  intros st st' o Hs Hg.
  destruct o; cbn [wmr_code]; unfold wmr_code_source_def, wmr_code_signal_def, wmr_code_validate_typed,
    wmr_code_annotation, wmr_code_validate, wm_find_sig; rewrite ?Hs, ?Hg; reflexivity.
Qed.

(* ---- wm_step (the backend calls of ONE call): none when the call is rejected ---- *)
Lemma wmr_clear_log_log : forall st, wm_st_log (wm_st_clear_log st) = [].
Proof. intros st. reflexivity. Qed.

Lemma wmr_clear_log_idem : forall st, wm_st_clear_log (wm_st_clear_log st) = wm_st_clear_log st.
Proof. intros st. reflexivity. Qed.

Lemma wmr_rejected_entries : forall st o,
  snd (wm_step_rc summ1 summN st o) <> 0 -> wm_step summ1 summN st o = (wm_st_clear_log st, []).
Proof.
  intros st o Hrc. unfold wm_step.
  assert (Hrc' : snd (wm_step_rc summ1 summN (wm_st_clear_log st) o) <> 0).
  { rewrite wmr_step_code. unfold wm_st_clear_log. rewrite wmr_code_base. rewrite <- wmr_step_code. exact Hrc. }
  rewrite (wmr_rejected_same _ o Hrc'). reflexivity.
Qed.

(* ---- reachable states: jls_wr_open, then any calls ---- *)
Inductive wmr_reach : wm_state -> Prop :=
| wmr_reach_open : wmr_reach wm_api_open
| wmr_reach_step : forall st o, wmr_reach st -> wmr_reach (fst (wm_step_rc summ1 summN st o)).

Lemma wmr_steps_fst : forall p st rcs rcs',
  fst (wm_steps summ1 summN st p rcs) = fst (wm_steps summ1 summN st p rcs').
Proof.
  induction p as [|o r IH]; intros st rcs rcs'; cbn [wm_steps]; [reflexivity|].
  destruct (wm_step_rc summ1 summN st o) as [st1 rc]. apply IH.
Qed.

Lemma wmr_reach_steps : forall p st rcs, wmr_reach st -> wmr_reach (fst (wm_steps summ1 summN st p rcs)).
Proof.
  induction p as [|o r IH]; intros st rcs Hr; cbn [wm_steps]; [exact Hr|].
  pose proof (wmr_reach_step st o Hr) as H1.
  destruct (wm_step_rc summ1 summN st o) as [st1 rc]. cbn [fst] in H1. apply IH. exact H1.
Qed.

Lemma wmr_reach_prog : forall p, wmr_reach (fst (wm_steps summ1 summN wm_api_open p [])).
Proof. intros p. apply wmr_reach_steps. apply wmr_reach_open. Qed.

Lemma wmr_reach_is_prog : forall st, wmr_reach st -> exists p, st = fst (wm_steps summ1 summN wm_api_open p []).
Proof.
  assert (Happ : forall p st rcs o,
            fst (wm_steps summ1 summN st (p ++ [o]) rcs) =
            fst (wm_step_rc summ1 summN (fst (wm_steps summ1 summN st p rcs)) o)).
  { induction p as [|q r IH]; intros st rcs o; cbn [wm_steps app].
    - cbn [fst]. destruct (wm_step_rc summ1 summN st o) as [st1 rc]. reflexivity.
    - destruct (wm_step_rc summ1 summN st q) as [st1 rc]. apply IH. }
  intros st Hr. induction Hr as [|st o Hr (p & IH)].
  - exists []. cbn [wm_steps fst]. reflexivity.
  - exists (p ++ [o]). rewrite Happ. rewrite <- IH. reflexivity.
Qed.

(* ---- erasing the rejected calls of a program ---- *)
Fixpoint wmr_erase (st : wm_state) (p : list wop) : list wop :=
  match p with
  | [] => []
  | o :: r => let st1 := fst (wm_step_rc summ1 summN st o) in
              if snd (wm_step_rc summ1 summN st o) =? 0 then o :: wmr_erase st1 r else wmr_erase st1 r
  end.

Lemma wmr_erase_steps : forall p st rcs rcs',
  fst (wm_steps summ1 summN st (wmr_erase st p) rcs') = fst (wm_steps summ1 summN st p rcs).
Proof.
  induction p as [|o r IH]; intros st rcs rcs'; cbn [wmr_erase wm_steps]; [reflexivity|].
  destruct (snd (wm_step_rc summ1 summN st o) =? 0) eqn:E.
  - cbn [wm_steps]. destruct (wm_step_rc summ1 summN st o) as [st1 rc]. cbn [fst]. apply IH.
  - apply N.eqb_neq in E. pose proof (wmr_rejected_same st o E) as Hs.
    destruct (wm_step_rc summ1 summN st o) as [st1 rc]. cbn [fst] in *. subst st1. apply IH.
Qed.

Lemma wmr_erase_all_accepted : forall p st rcs,
  forallb (N.eqb 0) (snd (wm_steps summ1 summN st (wmr_erase st p) rcs)) = forallb (N.eqb 0) (wm_rev rcs).
Proof.
  assert (Hrev : forall (l acc : list N), forallb (N.eqb 0) (rev_append l acc) = forallb (N.eqb 0) l && forallb (N.eqb 0) acc).
  { induction l as [|x l IH]; intros acc; cbn [rev_append forallb]; [reflexivity|].
    rewrite IH. cbn [forallb]. destruct (0 =? x), (forallb (N.eqb 0) l), (forallb (N.eqb 0) acc); reflexivity. }
  induction p as [|o r IH]; intros st rcs; cbn [wmr_erase wm_steps]; [reflexivity|].
  destruct (snd (wm_step_rc summ1 summN st o) =? 0) eqn:E.
  - cbn [wm_steps]. destruct (wm_step_rc summ1 summN st o) as [st1 rc]. cbn [fst snd] in *.
    rewrite IH. unfold wm_rev. cbn [rev_append]. rewrite (Hrev rcs [rc]), (Hrev rcs []). cbn [forallb].
    apply N.eqb_eq in E. subst rc. cbn [N.eqb andb]. rewrite Bool.andb_true_r. reflexivity.
  - apply N.eqb_neq in E. pose proof (wmr_rejected_same st o E) as Hs. rewrite Hs. apply IH.
Qed.

Lemma wmr_run_erase : forall p,
  fst (wm_run_full summ1 summN (wmr_erase wm_api_open p)) = fst (wm_run_full summ1 summN p) /\
  wm_run summ1 summN (wmr_erase wm_api_open p) = wm_run summ1 summN p /\
  forallb (N.eqb 0) (snd (wm_run_full summ1 summN (wmr_erase wm_api_open p))) = true.
Proof.
  intros p.
  assert (H1 : fst (wm_run_full summ1 summN (wmr_erase wm_api_open p)) = fst (wm_run_full summ1 summN p)).
  { unfold wm_run_full. pose proof (wmr_erase_steps p wm_api_open [] []) as H.
    destruct (wm_steps summ1 summN wm_api_open (wmr_erase wm_api_open p) []) as [sa ra].
    destruct (wm_steps summ1 summN wm_api_open p []) as [sb rb]. cbn [fst] in *. subst sa. reflexivity. }
  split; [exact H1|]. split.
  - unfold wm_run. rewrite H1. reflexivity.
  - unfold wm_run_full. pose proof (wmr_erase_all_accepted p wm_api_open []) as H.
    destruct (wm_steps summ1 summN wm_api_open (wmr_erase wm_api_open p) []) as [sa ra]. cbn [snd] in *. exact H.
Qed.

End WMR.

(* ---- classification of the code ---- *)
Definition wmr_classify (st : wm_state) (o : wop) : wmr_class :=
  let rc := wmr_code st o in
  if rc =? 0 then WmrAccepted
  else if rc =? JLS_ERROR_ALREADY_EXISTS then WmrDuplicate
  else if rc =? JLS_ERROR_TOO_BIG then WmrStringTooBig
  else if rc =? JLS_ERROR_NOT_SUPPORTED then WmrWrongType
  else if rc =? JLS_ERROR_NOT_FOUND then (match o with WSig _ => WmrNoSource | _ => WmrNoSignal end)
  else match o with
       | WSrc d => WmrIdRange
       | WSig d => if (JLS_SIGNAL_COUNT <=? sg_id d) || (JLS_SOURCE_COUNT <=? sg_src d) then WmrIdRange else WmrBadArgs
       | WFsr sig _ _ | WOmit sig _ | WUtc sig _ _ => WmrIdRange
       | WAnno sig _ => if JLS_SIGNAL_COUNT <=? sig then WmrIdRange else WmrBadArgs
       | _ => WmrBadArgs
       end.

(* the only codes the model's calls return *)
Lemma wmr_code_range : forall st o,
  In (wmr_code st o) [0; JLS_ERROR_PARAMETER_INVALID; JLS_ERROR_ALREADY_EXISTS; JLS_ERROR_TOO_BIG; JLS_ERROR_NOT_FOUND;
                      JLS_ERROR_NOT_SUPPORTED].
Proof.
  intros st o. destruct o; cbn [wmr_code];
    unfold wmr_code_source_def, wmr_code_signal_def, wmr_code_validate_typed, wmr_code_annotation, wmr_code_validate,
           wmr_code_user_data;
    wmr_brk; cbn [In]; try (intuition congruence).
Qed.

(* ---- the premises are satisfiable: a state with a source, an FSR signal, 70 samples (2 DATA chunks written, 6
        buffered), one annotation; eight calls, each rejected by a different check ---- *)
Definition wmr_ex_sig5 : sigdef :=
  {| sg_id := 5; sg_src := 3; sg_type := 0; sg_dtype := JLS_DATATYPE_U8; sg_rate := 1000; sg_spd := 32; sg_sdf := 32;
     sg_eps := 10; sg_sumdf := 10; sg_adf := 10; sg_udf := 10; sg_name := SBytes [120]; sg_units := SNull |}.
Definition wmr_ex_src3 : srcdef :=
  {| so_id := 3; so_name := SBytes [97; 98]; so_vendor := SNull; so_model := SBytes []; so_version := SNull; so_serial := SNull |}.
Definition wmr_ex_anno (stype : N) : anno :=
  {| an_ts := 3%Z; an_y := 0x3f800000; an_type := 1; an_group := 2; an_stype := stype; an_data := [104; 105; 0] |}.
Definition wmr_ex_pre : list wop :=
  [ WSrc wmr_ex_src3; WSig wmr_ex_sig5; WFsr 5 100%Z (map N.of_nat (seq 0 70)); WAnno 5 (wmr_ex_anno 2) ].
Definition wmr_ex_rejected : list wop :=
  [ WSig wmr_ex_sig5;                                                   (* duplicate signal id            17 *)
    WAnno 9 (wmr_ex_anno 2);                                            (* annotation, undefined signal   16 *)
    WUd {| ud_meta := 1; ud_stype := 4; ud_data := [1; 2] |};           (* user data, storage type 4       5 *)
    WUtc 0 100%Z 0%Z;                                                   (* utc on the VSR signal 0         3 *)
    WFsr 300 0%Z [1; 2; 3];                                             (* fsr, signal id >= 256           5 *)
    WSrc wmr_ex_src3;                                                   (* duplicate source id            17 *)
    WSig {| sg_id := 6; sg_src := 7; sg_type := 0; sg_dtype := JLS_DATATYPE_U8; sg_rate := 1000; sg_spd := 0; sg_sdf := 0;
            sg_eps := 0; sg_sumdf := 0; sg_adf := 0; sg_udf := 0; sg_name := SNull; sg_units := SNull |};   (* source 7 undefined  16 *)
    WAnno 5 (wmr_ex_anno 0);                                            (* annotation, storage type 0      5 *)
    WSig {| sg_id := 6; sg_src := 3; sg_type := 0; sg_dtype := JLS_DATATYPE_U8; sg_rate := 0; sg_spd := 0; sg_sdf := 0;
            sg_eps := 0; sg_sumdf := 0; sg_adf := 0; sg_udf := 0; sg_name := SNull; sg_units := SNull |} ]. (* FSR, sample rate 0 (checked after align)  5 *)
Definition wmr_ex_state : wm_state := fst (wm_steps wm_zero_summ1 wm_zero_summN wm_api_open wmr_ex_pre []).

Lemma wmr_ex_facts :
  let st := wmr_ex_state in
  wmr_reach wm_zero_summ1 wm_zero_summN st /\
  snd (wm_steps wm_zero_summ1 wm_zero_summN wm_api_open wmr_ex_pre []) = [0; 0; 0; 0] /\
  wm_st_fault st = false /\
  length (wm_st_log wm_api_open) = 21%nat /\ length (wm_st_log st) = 61%nat /\
  map (fun o => snd (wm_step_rc wm_zero_summ1 wm_zero_summN st o)) wmr_ex_rejected =
    [JLS_ERROR_ALREADY_EXISTS; JLS_ERROR_NOT_FOUND; JLS_ERROR_PARAMETER_INVALID; JLS_ERROR_NOT_SUPPORTED;
     JLS_ERROR_PARAMETER_INVALID; JLS_ERROR_ALREADY_EXISTS; JLS_ERROR_NOT_FOUND; JLS_ERROR_PARAMETER_INVALID;
     JLS_ERROR_PARAMETER_INVALID] /\
  map (wmr_classify st) wmr_ex_rejected =
    [WmrDuplicate; WmrNoSignal; WmrBadArgs; WmrWrongType; WmrIdRange; WmrDuplicate; WmrNoSource; WmrBadArgs; WmrBadArgs] /\
  (forall o, In o wmr_ex_rejected ->
     fst (wm_step_rc wm_zero_summ1 wm_zero_summN st o) = st /\
     wm_step wm_zero_summ1 wm_zero_summN st o = (wm_st_clear_log st, [])).
Proof.
  cbv zeta.
  assert (Hc : map (fun o => snd (wm_step_rc wm_zero_summ1 wm_zero_summN wmr_ex_state o)) wmr_ex_rejected =
    [JLS_ERROR_ALREADY_EXISTS; JLS_ERROR_NOT_FOUND; JLS_ERROR_PARAMETER_INVALID; JLS_ERROR_NOT_SUPPORTED;
     JLS_ERROR_PARAMETER_INVALID; JLS_ERROR_ALREADY_EXISTS; JLS_ERROR_NOT_FOUND; JLS_ERROR_PARAMETER_INVALID;
     JLS_ERROR_PARAMETER_INVALID]) by (vm_compute; reflexivity).
  split; [apply wmr_reach_prog|].
  split; [vm_compute; reflexivity|].
  split; [vm_compute; reflexivity|].
  split; [vm_compute; reflexivity|].
  split; [vm_compute; reflexivity|].
  split; [exact Hc|].
  split; [vm_compute; reflexivity|].
  intros o Hin.
  assert (Hnz : snd (wm_step_rc wm_zero_summ1 wm_zero_summN wmr_ex_state o) <> 0).
  { assert (Hall : Forall (fun rc => rc <> 0) (map (fun o => snd (wm_step_rc wm_zero_summ1 wm_zero_summN wmr_ex_state o)) wmr_ex_rejected)).
    { rewrite Hc. repeat constructor; discriminate. }
    rewrite Forall_forall in Hall. apply Hall. apply in_map_iff. exists o. split; [reflexivity|exact Hin]. }
  split; [apply wmr_rejected_same; exact Hnz|apply wmr_rejected_entries; exact Hnz].
Qed.

(* ---- where the C CAN fail after it has written: not a return code of the model but its FAULT flag ----
   The C paths that return an error after a backend write need an I/O error, an allocation failure, or pyramid level
   16 (wr_ts.c commit(15, NORMAL) -> index_alloc(16) -> JLS_ERROR_PARAMETER_INVALID; wr_fsr.c level[16]).  The model
   leaves its domain there: [wm_fault] is set and the code stays 0.  A hand-built state (NOT obtained by a replay: it
   stands for 10^15 - 1 annotations at decimate factor 10): the example state with the annotation pyramid of signal 5
   one record short of filling levels 1..15. *)
Definition wmr_deep_level : wm_ts_level :=
  {| wm_tl_nidx := 9; wm_tl_idx := repeat (0%Z, 32) 9; wm_tl_nsum := 9; wm_tl_sum := repeat wm_zero16 9 |}.
Definition wmr_deep_ts : wm_ts := {| wm_ts_dec := 10; wm_ts_levels := None :: repeat (Some wmr_deep_level) 15 |}.
Definition wmr_deep_state : wm_state :=
  match wm_find_sig wmr_ex_state 5 with
  | Some s => wm_put_sig wmr_ex_state (wm_st_base wmr_ex_state) (wm_sg_set_anno s (wm_sg_tk_anno s) (Some wmr_deep_ts))
  | None => wmr_ex_state
  end.

Lemma wmr_late_error_is_fault_witness :
  let st := wmr_deep_state in
  let r := wm_step_rc wm_zero_summ1 wm_zero_summN st (WAnno 5 (wmr_ex_anno 2)) in
  wm_st_fault st = false /\ wm_st_log st = wm_st_log wmr_ex_state /\
  snd r = 0 /\ wm_st_fault (fst r) = true /\
  length (wm_st_log (fst r)) = (length (wm_st_log st) + 116)%nat.
Proof. vm_compute. repeat split. Qed.

(* ---- by class ---- *)
Lemma wmr_classify_accepted : forall st o, wmr_classify st o = WmrAccepted <-> wmr_code st o = 0.
Proof.
  intros st o. unfold wmr_classify. cbv zeta. destruct (wmr_code st o =? 0) eqn:E.
  - apply N.eqb_eq in E. split; intros _; [exact E|reflexivity].
  - apply N.eqb_neq in E. split; [|intros H; exfalso; exact (E H)].
    wmr_brk; intros H; discriminate H.
Qed.

Lemma wmr_class_rejected_same : forall summ1 summN st o,
  wmr_classify st o <> WmrAccepted ->
  snd (wm_step_rc summ1 summN st o) <> 0 /\ fst (wm_step_rc summ1 summN st o) = st.
Proof.
  intros summ1 summN st o Hc.
  assert (Hnz : snd (wm_step_rc summ1 summN st o) <> 0).
  { rewrite wmr_step_code. intros H. apply Hc. apply wmr_classify_accepted. exact H. }
  split; [exact Hnz|apply wmr_rejected_same; exact Hnz].
Qed.

(* reachable form, as one statement *)
Lemma wmr_reach_rejected : forall summ1 summN p o,
  let st := fst (wm_steps summ1 summN wm_api_open p []) in
  snd (wm_step_rc summ1 summN st o) <> 0 ->
  fst (wm_step_rc summ1 summN st o) = st /\
  wm_st_log (fst (wm_step_rc summ1 summN st o)) = wm_st_log st /\
  fst (wm_steps summ1 summN wm_api_open (p ++ [o]) []) = st.
Proof.
  intros summ1 summN p o st Hnz.
  pose proof (wmr_rejected_same summ1 summN st o Hnz) as Hs.
  split; [exact Hs|]. split; [rewrite Hs; reflexivity|].
  assert (Happ : forall q s rcs,
            fst (wm_steps summ1 summN s (q ++ [o]) rcs) =
            fst (wm_step_rc summ1 summN (fst (wm_steps summ1 summN s q rcs)) o)).
  { induction q as [|a r IH]; intros s rcs; cbn [wm_steps app].
    - cbn [fst]. destruct (wm_step_rc summ1 summN s o) as [s1 rc]. reflexivity.
    - destruct (wm_step_rc summ1 summN s a) as [s1 rc]. apply IH. }
  rewrite Happ. exact Hs.
Qed.
