(* Error-detection algebra of CRC-32C, on the operators step1 / U of CrcDefs.v, for
   protected regions of ANY length.

   Layout being modelled (as in the jls file format): a message m (header bytes
   0..27, or a chunk payload) is followed by the 4 bytes of crc_spec m, little
   endian.  The PROTECTED REGION is  m ++ crc bytes.  An error is a pair
   (e, esb): e is xor-ed onto the message (same length), esb (4 bytes) is xor-ed
   onto the stored CRC bytes, i.e. the stored value becomes crc_spec m xor le esb.
   The reader's check is   crc_spec (received message) =? received stored value.

   Main facts proved here (everything is closed under the global context):
   * crc_raw is affine over xor (crc_raw_affine), hence the check passes on the
     corrupted data iff the SYNDROME  crc_raw 0 e xor es  is zero (undetected_iff);
   * with E = le (e ++ esb) the error pattern of the whole region read as one
     little-endian integer (bit 8*i+j of E = bit j of byte i) and n = its length in
     bits, the check passes iff  U n E = 0  (region_undetected_iff).  Bursts that
     straddle the message / CRC boundary are therefore covered uniformly;
   * step1 and U are injective on 32-bit words (step1_inj, U_inj);
   * step1 preserves the parity of the number of one bits, so every error with an
     odd number of flipped bits is detected (odd_weight_detected);
   * every error confined to a window of 32 consecutive bits of the region is
     detected (burst_detected);
   * the LFSR has period 2^31-1 on 32-bit words (U_period: 31 matrix squarings by
     vm_compute), 2^31-1 is prime (verified trial division), so U d 1 <> 1 for all
     0 < d < 2^31-1 (two_bit_unbounded; plus an independent direct sweep
     two_bit_bounded for d <= 2^24), hence any two flipped bits are detected in
     regions of at most 2^31-1 bits (two_bit_detected);
   * detects: in a region of at most 2^31-1 bits every non-zero error of weight
     <= 3 and every 32-bit burst makes the check fail. *)
From Coq Require Import NArith ZArith List Bool Lia Btauto.
From Coq Require Import ZifyBool ZifyN ZifyNat.
From JLS Require Import Generated CrcDefs CrcProofs.
Import ListNotations.
Local Open Scope N_scope.
Ltac Zify.zify_post_hook ::= Z.div_mod_to_equations.

(* ------------------------------------------------------------------ *)
(* 1. affinity, check, syndrome                                        *)
(* ------------------------------------------------------------------ *)

Fixpoint xor_bytes (m e : list N) : list N :=
  match m, e with
  | a :: m', b :: e' => N.lxor a b :: xor_bytes m' e'
  | _, _ => []
  end.

Lemma xor_bytes_length : forall m e, length m = length e ->
  length (xor_bytes m e) = length m.
Proof.
  induction m as [|a m IH]; intros [|b e] H; try discriminate; [reflexivity|].
  cbn [xor_bytes length]. f_equal. apply IH. now inversion H.
Qed.

Lemma le_xor_bytes : forall m e, length m = length e ->
  le (xor_bytes m e) = N.lxor (le m) (le e).
Proof.
  induction m as [|a m IH]; intros [|b e] H; try discriminate; [reflexivity|].
  cbn [xor_bytes le]. rewrite IH by now inversion H.
  rewrite N.shiftl_lxor. xor_ac.
Qed.

Lemma xor_bytes_ok : forall m e, bytes_ok m -> bytes_ok e -> bytes_ok (xor_bytes m e).
Proof.
  induction m as [|a m IH]; intros [|b e] Hm He; try constructor.
  - inversion Hm; inversion He; subst. now apply (lxor_lt_pow2 a b 8).
  - inversion Hm; inversion He; subst. now apply IH.
Qed.

Theorem crc_raw_affine : forall c m e, length m = length e ->
  crc_raw c (xor_bytes m e) = N.lxor (crc_raw c m) (crc_raw 0 e).
Proof.
  intros c m e H. rewrite !crc_raw_le, xor_bytes_length, le_xor_bytes by exact H.
  rewrite <- H, <- U_lxor. f_equal. xor_ac.
Qed.

(* the reader's test: recomputed CRC equals the stored one *)
Definition check (m : list N) (s : N) : bool := crc_spec m =? s.

Definition syndrome (e : list N) (es : N) : N := N.lxor (crc_raw 0 e) es.

Theorem undetected_iff : forall m e es, length m = length e ->
  (check (xor_bytes m e) (N.lxor (crc_spec m) es) = true <-> syndrome e es = 0).
Proof.
  intros m e es H. unfold check, syndrome, crc_spec.
  rewrite N.eqb_eq, crc_raw_affine by exact H.
  set (A := crc_raw crc_init m). set (R := crc_raw 0 e). set (F := 4294967295).
  split; intro H1.
  - replace (N.lxor R es)
      with (N.lxor (N.lxor (N.lxor A R) F) (N.lxor (N.lxor A F) es)) by xor_ac.
    rewrite H1. apply N.lxor_nilpotent.
  - apply N.lxor_eq in H1. rewrite H1. xor_ac.
Qed.

(* ------------------------------------------------------------------ *)
(* 2. injectivity on 32-bit words                                      *)
(* ------------------------------------------------------------------ *)

Lemma step1_eq_0 : forall x, x < 2 ^ 32 -> step1 x = 0 -> x = 0.
Proof.
  intros x Hx H. unfold step1 in H.
  assert (Hs : N.shiftr x 1 < 2 ^ 31) by (apply shiftr_lt_pow2; exact Hx).
  pose proof (N.div2_odd x) as Hd. rewrite N.div2_spec in Hd.
  destruct (N.odd x).
  - apply N.lxor_eq in H. rewrite H in Hs. exfalso. revert Hs. vm_compute. discriminate.
  - rewrite H in Hd. cbn [N.b2n] in Hd. lia.
Qed.

Theorem step1_inj : forall a b, a < 2 ^ 32 -> b < 2 ^ 32 -> step1 a = step1 b -> a = b.
Proof.
  intros a b Ha Hb H. apply N.lxor_eq. apply step1_eq_0.
  - now apply lxor_lt_pow2.
  - rewrite step1_lxor, H. apply N.lxor_nilpotent.
Qed.

Lemma U_eq_0 : forall n x, x < 2 ^ 32 -> U n x = 0 -> x = 0.
Proof.
  induction n as [|n IH]; intros x Hx H; cbn [U] in H; [exact H|].
  apply step1_eq_0; [exact Hx|]. apply IH; [now apply step1_lt|exact H].
Qed.

Theorem U_inj : forall n a b, a < 2 ^ 32 -> b < 2 ^ 32 -> U n a = U n b -> a = b.
Proof.
  intros n a b Ha Hb H. apply N.lxor_eq. apply (U_eq_0 n).
  - now apply lxor_lt_pow2.
  - rewrite U_lxor, H. apply N.lxor_nilpotent.
Qed.

(* ------------------------------------------------------------------ *)
(* 3. weight and parity                                                *)
(* ------------------------------------------------------------------ *)

Fixpoint pweight (p : positive) : nat :=
  match p with xH => 1 | xO q => pweight q | xI q => S (pweight q) end.
(* number of one bits *)
Definition weight (x : N) : nat := match x with 0 => 0%nat | N.pos p => pweight p end.

Fixpoint ppar (p : positive) : bool :=
  match p with xH => true | xO q => ppar q | xI q => negb (ppar q) end.
(* xor of all bits *)
Definition parity (x : N) : bool := match x with 0 => false | N.pos p => ppar p end.

Lemma parity_weight : forall x, parity x = Nat.odd (weight x).
Proof.
  intros [|p]; [reflexivity|]. cbn [parity weight].
  induction p as [q IH|q IH|]; cbn [ppar pweight]; [|exact IH|reflexivity].
  rewrite Nat.odd_succ, <- Nat.negb_odd. now rewrite IH.
Qed.

Lemma pweight_pos : forall p, (0 < pweight p)%nat.
Proof. induction p; cbn [pweight]; lia. Qed.

Lemma weight_0 : forall x, weight x = 0%nat -> x = 0.
Proof. intros [|p] H; [reflexivity|]. cbn [weight] in H. pose proof (pweight_pos p). lia. Qed.

Lemma parity_Ndouble : forall x, parity (Pos.Ndouble x) = parity x.
Proof. intros [|p]; reflexivity. Qed.

Lemma parity_Nsucc_double : forall x, parity (Pos.Nsucc_double x) = negb (parity x).
Proof. intros [|p]; reflexivity. Qed.

Lemma parity_lxor : forall a b, parity (N.lxor a b) = xorb (parity a) (parity b).
Proof.
  intros [|p] [|q]; cbn [N.lxor parity]; try reflexivity.
  - now destruct (ppar q).
  - now destruct (ppar p).
  - revert q. induction p as [p IH|p IH|]; intros [q|q|]; cbn [Pos.lxor ppar parity];
      rewrite ?parity_Ndouble, ?parity_Nsucc_double, ?IH;
      repeat match goal with |- context [ppar ?z] => destruct (ppar z) end; reflexivity.
Qed.

Lemma parity_shiftr1 : forall x, parity x = xorb (N.odd x) (parity (N.shiftr x 1)).
Proof.
  intro x. rewrite <- N.div2_spec. destruct x as [|[p|p|]]; cbn [N.odd N.div2 parity ppar];
    try reflexivity; destruct (ppar p); reflexivity.
Qed.

Lemma parity_step1 : forall x, parity (step1 x) = parity x.
Proof.
  intro x. unfold step1. rewrite (parity_shiftr1 x).
  destruct (N.odd x); [|now destruct (parity (N.shiftr x 1))].
  rewrite parity_lxor. change (parity crc_poly) with true.
  destruct (parity (N.shiftr x 1)); reflexivity.
Qed.

Lemma parity_U : forall n x, parity (U n x) = parity x.
Proof.
  induction n as [|n IH]; intro x; cbn [U]; [reflexivity|].
  now rewrite IH, parity_step1.
Qed.

(* the polynomial has an odd number (17) of coefficients below x^32 *)
Example crc_poly_weight : weight crc_poly = 17%nat.
Proof. reflexivity. Qed.

Theorem odd_weight_U : forall n E, Nat.odd (weight E) = true -> U n E <> 0.
Proof.
  intros n E H H0. rewrite <- parity_weight, <- (parity_U n), H0 in H. discriminate.
Qed.

(* ------------------------------------------------------------------ *)
(* 4. bursts                                                           *)
(* ------------------------------------------------------------------ *)

Theorem burst_U : forall n k v, (k <= n)%nat -> v < 2 ^ 32 -> v <> 0 ->
  U n (N.shiftl v (N.of_nat k)) <> 0.
Proof.
  intros n k v Hk Hv Hv0 H.
  replace n with (k + (n - k))%nat in H by lia.
  rewrite U_add, U_shiftl in H. apply Hv0. now apply (U_eq_0 (n - k)).
Qed.

(* ------------------------------------------------------------------ *)
(* 5. GF(2) matrices on 32-bit words                                   *)
(* ------------------------------------------------------------------ *)

(* a matrix is the list of its columns: element i is the image of 2^i *)
Fixpoint mat_apply (M : list N) (u : N) : N :=
  match M with
  | [] => 0
  | c :: M' => N.lxor (if N.odd u then c else 0) (mat_apply M' (N.div2 u))
  end.

Definition mat_mul (X Y : list N) : list N := map (mat_apply X) Y.

Lemma div2_lxor : forall a b, N.div2 (N.lxor a b) = N.lxor (N.div2 a) (N.div2 b).
Proof. intros. rewrite !N.div2_spec. apply N.shiftr_lxor. Qed.

Lemma mat_apply_0 : forall M, mat_apply M 0 = 0.
Proof. induction M as [|c M IH]; cbn [mat_apply N.odd N.div2]; [reflexivity|]. now rewrite IH. Qed.

Lemma mat_apply_lxor : forall M a b,
  mat_apply M (N.lxor a b) = N.lxor (mat_apply M a) (mat_apply M b).
Proof.
  induction M as [|c M IH]; intros a b; cbn [mat_apply]; [reflexivity|].
  rewrite odd_lxor, div2_lxor, IH.
  destruct (N.odd a), (N.odd b); cbn [xorb]; xor_ac.
Qed.

Theorem mat_mul_apply : forall X Y u,
  mat_apply (mat_mul X Y) u = mat_apply X (mat_apply Y u).
Proof.
  intros X Y. unfold mat_mul. induction Y as [|c Y IH]; intro u; cbn [map mat_apply].
  - now rewrite mat_apply_0.
  - rewrite mat_apply_lxor, IH. destruct (N.odd u); [reflexivity|].
    now rewrite mat_apply_0.
Qed.

Fixpoint basis_from (k : N) (n : nat) : list N :=
  match n with O => [] | S n' => N.shiftl 1 k :: basis_from (N.succ k) n' end.

Lemma split_low_bit : forall u,
  u = N.lxor (if N.odd u then 1 else 0) (N.double (N.div2 u)).
Proof. intros [|[p|p|]]; reflexivity. Qed.

Lemma shiftl_double : forall d k, N.shiftl (N.double d) k = N.shiftl d (N.succ k).
Proof.
  intros d k. rewrite N.shiftl_succ_r, !N.double_spec, !N.shiftl_mul_pow2.
  generalize (2 ^ k); intro P. lia.
Qed.

Lemma div2_lt : forall u n, u < 2 ^ N.succ n -> N.div2 u < 2 ^ n.
Proof.
  intros u n H. rewrite N.pow_succ_r' in H.
  pose proof (N.div2_odd u) as Hd. set (P := 2 ^ n) in *.
  destruct (N.odd u); cbn [N.b2n] in Hd; lia.
Qed.

(* a xor-linear map is represented on n-bit words by the images of the basis *)
Lemma linear_repr : forall f : N -> N,
  (forall a b, f (N.lxor a b) = N.lxor (f a) (f b)) ->
  forall n k u, u < 2 ^ N.of_nat n ->
  f (N.shiftl u k) = mat_apply (map f (basis_from k n)) u.
Proof.
  intros f Hlin.
  assert (Hf0 : f 0 = 0).
  { pose proof (Hlin 0 0) as H. rewrite N.lxor_nilpotent in H.
    rewrite N.lxor_nilpotent in H. exact H. }
  induction n as [|n IH]; intros k u Hu.
  - cbn [N.of_nat] in Hu. assert (u = 0) by lia. subst u.
    now rewrite N.shiftl_0_l.
  - cbn [basis_from map mat_apply].
    rewrite Nat2N.inj_succ in Hu.
    rewrite <- IH by now apply div2_lt.
    rewrite (split_low_bit u) at 1.
    rewrite N.shiftl_lxor, Hlin, shiftl_double. f_equal.
    destruct (N.odd u); [reflexivity|]. now rewrite N.shiftl_0_l.
Qed.

Definition id32 : list N := basis_from 0 32.
Definition stepM : list N := map step1 id32.

Lemma stepM_apply : forall u, u < 2 ^ 32 -> mat_apply stepM u = step1 u.
Proof.
  intros u Hu. unfold stepM, id32.
  rewrite <- (linear_repr step1 step1_lxor 32 0 u Hu). now rewrite N.shiftl_0_r.
Qed.

Lemma id32_apply : forall u, u < 2 ^ 32 -> mat_apply id32 u = u.
Proof.
  intros u Hu. unfold id32. rewrite <- (map_id (basis_from 0 32)).
  rewrite <- (linear_repr (fun x => x) (fun a b => eq_refl) 32 0 u Hu).
  apply N.shiftl_0_r.
Qed.

(* matrix power by binary recursion on the exponent *)
Fixpoint mpow (A : list N) (p : positive) : list N :=
  match p with
  | xH => A
  | xO q => let B := mpow A q in mat_mul B B
  | xI q => let B := mpow A q in mat_mul A (mat_mul B B)
  end.

Lemma mpow_U : forall p u, u < 2 ^ 32 ->
  mat_apply (mpow stepM p) u = U (N.to_nat (N.pos p)) u.
Proof.
  induction p as [q IH|q IH|]; intros u Hu; cbn [mpow N.to_nat].
  - rewrite !mat_mul_apply, (IH u Hu), IH by now apply U_lt.
    rewrite stepM_apply by (now do 2 apply U_lt).
    rewrite Pos2Nat.inj_xI.
    replace (S (2 * Pos.to_nat q)) with (Pos.to_nat q + Pos.to_nat q + 1)%nat by lia.
    now rewrite !U_add.
  - rewrite !mat_mul_apply, (IH u Hu), IH by now apply U_lt.
    rewrite Pos2Nat.inj_xO.
    replace (2 * Pos.to_nat q)%nat with (Pos.to_nat q + Pos.to_nat q)%nat by lia.
    now rewrite U_add.
  - rewrite Pos2Nat.inj_1. now apply stepM_apply.
Qed.

(* the period of the LFSR *)
Definition period : N := 2147483647.   (* 2^31 - 1 *)

Lemma mpow_period : mpow stepM 2147483647 = id32.
Proof. vm_compute. reflexivity. Qed.

Theorem U_period : forall u, u < 2 ^ 32 -> U (N.to_nat period) u = u.
Proof.
  intros u Hu. unfold period. rewrite <- mpow_U by exact Hu.
  rewrite mpow_period. now apply id32_apply.
Qed.

Lemma U_mul_fix : forall d x, U d x = x -> forall a, U (a * d) x = x.
Proof.
  intros d x H. induction a as [|a IH]; [reflexivity|].
  cbn [Nat.mul]. now rewrite U_add, H.
Qed.

(* ------------------------------------------------------------------ *)
(* 6. 2^31 - 1 is prime (verified trial division)                      *)
(* ------------------------------------------------------------------ *)

Definition nodiv_step (st : N * bool) : N * bool :=
  (N.succ (fst st), snd st && negb (period mod (fst st) =? 0)).

Lemma nodiv_iter : forall n k0 b,
  fst (N.iter n nodiv_step (k0, b)) = k0 + n /\
  (snd (N.iter n nodiv_step (k0, b)) = true ->
   b = true /\ forall k, k0 <= k < k0 + n -> period mod k <> 0).
Proof.
  induction n as [|n IH] using N.peano_ind; intros k0 b.
  - cbn [N.iter fst snd]. split; [lia|]. intros ->. split; [reflexivity|]. intros k Hk. lia.
  - rewrite N.iter_succ. destruct (IH k0 b) as [IH1 IH2].
    unfold nodiv_step at 1. cbn [fst snd]. rewrite IH1. split; [lia|].
    intro H. apply andb_true_iff in H. destruct H as [H1 H2].
    destruct (IH2 H1) as [Hb Hall]. split; [exact Hb|].
    intros k Hk. destruct (N.eq_dec k (k0 + n)) as [->|Hne].
    + apply negb_true_iff in H2. rewrite ?IH1 in H2. now apply N.eqb_neq in H2.
    + apply Hall. lia.
Qed.

Lemma nodiv_check_ok : snd (N.iter 46340 nodiv_step (2, true)) = true.
Proof. vm_compute. reflexivity. Qed.

Lemma period_nodiv_small : forall k, 2 <= k < 46342 -> period mod k <> 0.
Proof.
  intros k Hk.
  destruct (nodiv_iter 46340 2 true) as [_ H2].
  destruct (H2 nodiv_check_ok) as [_ Hall]. apply Hall. lia.
Qed.

Theorem period_prime : forall k, 1 < k < period -> period mod k <> 0.
Proof.
  intros k Hk Hm.
  destruct (N.lt_ge_cases k 46342) as [Hs|Hs].
  - apply (period_nodiv_small k); [lia|exact Hm].
  - pose proof (N.div_mod period k ltac:(lia)) as Hd. rewrite Hm, N.add_0_r in Hd.
    set (q := period / k) in *.
    assert (Hq2 : 2 <= q).
    { destruct (N.lt_ge_cases q 2) as [Hq|Hq]; [|exact Hq].
      assert (Hq' : q = 0 \/ q = 1) by lia.
      destruct Hq' as [Hq'|Hq']; rewrite Hq' in Hd; unfold period in *; lia. }
    assert (Hqs : q < 46342).
    { destruct (N.lt_ge_cases q 46342) as [Hq|Hq]; [exact Hq|].
      pose proof (N.mul_le_mono 46342 k 46342 q Hs Hq) as Hmul.
      rewrite <- Hd in Hmul. unfold period in Hmul. lia. }
    apply (period_nodiv_small q); [lia|].
    rewrite Hd. apply N.mod_mul. lia.
Qed.

Lemma period_coprime : forall d, 0 < d < period -> N.gcd d period = 1.
Proof.
  intros d Hd.
  set (g := N.gcd d period).
  assert (Hgd : (g | d)) by apply N.gcd_divide_l.
  assert (Hgp : (g | period)) by apply N.gcd_divide_r.
  assert (Hg0 : g <> 0).
  { intro H0. apply N.gcd_eq_0_l in H0. lia. }
  assert (Hgle : g <= d) by (apply N.divide_pos_le; [lia|exact Hgd]).
  destruct (N.eq_dec g 1) as [H1|H1]; [exact H1|].
  exfalso. apply (period_prime g); [lia|].
  apply N.mod_divide; assumption.
Qed.

(* ------------------------------------------------------------------ *)
(* 7. two flipped bits                                                 *)
(* ------------------------------------------------------------------ *)

(* (ii) unbounded: below the period no shift maps the word 1 to itself *)
Theorem two_bit_unbounded : forall d : nat,
  (0 < d)%nat -> N.of_nat d < 2147483647 -> U d 1 <> 1.
Proof.
  intros d Hd0 Hd H.
  assert (Hg : N.gcd (N.of_nat d) period = 1) by (apply period_coprime; unfold period; lia).
  destruct (N.gcd_bezout_pos (N.of_nat d) period ltac:(lia)) as [a [b Hab]].
  rewrite Hg in Hab.
  apply (f_equal N.to_nat) in Hab.
  rewrite N2Nat.inj_add, !N2Nat.inj_mul, Nat2N.id in Hab.
  change (N.to_nat 1) with 1%nat in Hab.
  pose proof (U_mul_fix d 1 H (N.to_nat a)) as H1.
  rewrite Hab, U_add in H1.
  change (U 1 1) with (step1 1) in H1.
  assert (Hs : step1 1 = crc_poly) by reflexivity.
  rewrite Hs in H1.
  rewrite (U_mul_fix (N.to_nat period) crc_poly (U_period crc_poly crc_poly_lt)) in H1.
  discriminate H1.
Qed.

(* (i) bounded: an independent direct sweep of the first 2^24 shifts *)
Definition sweep_step (st : N * bool) : N * bool :=
  let y := step1 (fst st) in (y, snd st && negb (y =? 1)).

Definition sweep (n : N) : bool := snd (N.iter n sweep_step (1, true)).

Lemma sweep_iter : forall n,
  fst (N.iter n sweep_step (1, true)) = U (N.to_nat n) 1 /\
  (sweep n = true ->
   forall d : nat, (0 < d)%nat -> N.of_nat d <= n -> U d 1 <> 1).
Proof.
  unfold sweep. induction n as [|n IH] using N.peano_ind.
  - cbn [N.iter fst snd N.to_nat U]. split; [reflexivity|]. intros _ d H0 H. lia.
  - rewrite N.iter_succ. destruct IH as [IH1 IH2].
    unfold sweep_step at 1. cbn [fst snd]. rewrite IH1.
    assert (HS : step1 (U (N.to_nat n) 1) = U (N.to_nat (N.succ n)) 1).
    { rewrite N2Nat.inj_succ. replace (S (N.to_nat n)) with (N.to_nat n + 1)%nat by lia.
      now rewrite U_add. }
    split; [exact HS|].
    intro H. apply andb_true_iff in H. destruct H as [H1 H2].
    intros d H0 Hd.
    destruct (N.eq_dec (N.of_nat d) (N.succ n)) as [He|Hne].
    + apply negb_true_iff in H2. apply N.eqb_neq in H2.
      rewrite ?IH1, HS in H2. rewrite <- He, Nat2N.id in H2. exact H2.
    + apply IH2; [exact H1|exact H0|lia].
Qed.

Lemma sweep_ok : sweep 16777216 = true.
Proof. vm_compute. reflexivity. Qed.

Theorem two_bit_bounded : forall d : nat,
  (0 < d)%nat -> N.of_nat d <= 16777216 -> U d 1 <> 1.
Proof.
  intros d H0 Hd. destruct (sweep_iter 16777216) as [_ H]. apply H; [|exact H0|exact Hd].
  exact sweep_ok.
Qed.

(* ------------------------------------------------------------------ *)
(* 8. shape of words of weight 1 and 2                                 *)
(* ------------------------------------------------------------------ *)

Lemma weight1_form : forall x, weight x = 1%nat -> exists i : nat, x = N.shiftl 1 (N.of_nat i).
Proof.
  intros [|p]; [discriminate|]. cbn [weight].
  induction p as [q IH|q IH|]; cbn [pweight]; intro H.
  - pose proof (pweight_pos q). lia.
  - destruct (IH H) as [i Hi]. exists (S i).
    rewrite Nat2N.inj_succ, N.shiftl_succ_r, <- Hi. reflexivity.
  - exists 0%nat. reflexivity.
Qed.

Lemma succ_double_lxor : forall y, N.succ_double y = N.lxor 1 (N.double y).
Proof. intros [|p]; reflexivity. Qed.

(* weight 2: two set bits, at positions i and i+d with d > 0 *)
Lemma weight2_form : forall x, weight x = 2%nat ->
  exists i d : nat, (0 < d)%nat /\
    x = N.shiftl (N.lxor 1 (N.shiftl 1 (N.of_nat d))) (N.of_nat i).
Proof.
  intros [|p]; [discriminate|]. cbn [weight].
  induction p as [q IH|q IH|]; cbn [pweight]; intro H.
  - assert (H1 : weight (N.pos q) = 1%nat) by (cbn [weight]; lia).
    destruct (weight1_form _ H1) as [i Hi].
    exists 0%nat, (S i). split; [lia|].
    change (N.of_nat 0) with 0. rewrite N.shiftl_0_r.
    change (N.pos q~1) with (N.succ_double (N.pos q)).
    rewrite succ_double_lxor, Hi, Nat2N.inj_succ, N.shiftl_succ_r. reflexivity.
  - destruct (IH H) as [i [d [Hd Hx]]]. exists (S i), d. split; [exact Hd|].
    rewrite Nat2N.inj_succ, N.shiftl_succ_r, <- Hx. reflexivity.
  - discriminate.
Qed.

Lemma two_bit_pos : forall (i d : nat) n, (0 < d)%nat ->
  N.shiftl (N.lxor 1 (N.shiftl 1 (N.of_nat d))) (N.of_nat i) < 2 ^ N.of_nat n ->
  (i + d < n)%nat.
Proof.
  intros i d n Hd H.
  destruct (Nat.lt_ge_cases (i + d) n) as [Hlt|Hge]; [exact Hlt|exfalso].
  pose proof (proj1 (lt_pow2_bits _ _) H (N.of_nat (i + d)) ltac:(lia)) as Hb.
  rewrite N.shiftl_spec_high' in Hb by lia.
  replace (N.of_nat (i + d) - N.of_nat i) with (N.of_nat d) in Hb by lia.
  rewrite N.lxor_spec, N.shiftl_spec_high', N.sub_diag in Hb by lia.
  rewrite (N.bits_above_log2 1 (N.of_nat d)) in Hb by (cbn [N.log2]; lia).
  discriminate Hb.
Qed.

Theorem two_bit_U : forall (n i d : nat),
  (0 < d)%nat -> (i + d < n)%nat -> N.of_nat n <= 2147483647 ->
  U n (N.shiftl (N.lxor 1 (N.shiftl 1 (N.of_nat d))) (N.of_nat i)) <> 0.
Proof.
  intros n i d Hd Hlt Hn H.
  replace n with (i + (d + (n - i - d)))%nat in H by lia.
  rewrite U_add, U_shiftl, U_lxor, !U_add, U_shiftl, <- U_lxor in H.
  apply U_eq_0 in H.
  - apply N.lxor_eq in H. revert H. apply two_bit_unbounded; lia.
  - apply lxor_lt_pow2; [|reflexivity]. apply U_lt. reflexivity.
Qed.

(* ------------------------------------------------------------------ *)
(* 9. the combined statement on the region integer                     *)
(* ------------------------------------------------------------------ *)

(* the non-zero bits of E lie in a window of 32 consecutive bit positions k..k+31
   that starts inside the n-bit region *)
Definition burst32 (E : N) (n : nat) : Prop :=
  exists (v : N) (k : nat), 0 < v /\ v < 2 ^ 32 /\ (k <= n)%nat /\ E = N.shiftl v (N.of_nat k).

Theorem detects_U : forall (n : nat) (E : N),
  N.of_nat n <= 2147483647 -> E <> 0 -> E < 2 ^ N.of_nat n ->
  ((weight E <= 3)%nat \/ burst32 E n) -> U n E <> 0.
Proof.
  intros n E Hn HE Hlt [Hw|[v [k [Hv0 [Hv [Hk ->]]]]]].
  - destruct (weight E) as [|[|[|[|w]]]] eqn:HwE; try lia.
    + exfalso. apply HE. now apply weight_0.
    + apply odd_weight_U. now rewrite HwE.
    + destruct (weight2_form E HwE) as [i [d [Hd ->]]].
      apply two_bit_U; [exact Hd| |exact Hn]. now apply (two_bit_pos i d n).
    + apply odd_weight_U. now rewrite HwE.
  - apply burst_U; [exact Hk|exact Hv|lia].
Qed.

(* ------------------------------------------------------------------ *)
(* 10. back to bytes: message ++ stored CRC as one protected region    *)
(* ------------------------------------------------------------------ *)

Theorem region_undetected_iff : forall m e esb,
  length m = length e -> length esb = 4%nat -> bytes_ok e -> bytes_ok esb ->
  (check (xor_bytes m e) (N.lxor (crc_spec m) (le esb)) = true <->
   U (8 * length (e ++ esb)) (le (e ++ esb)) = 0).
Proof.
  intros m e esb Hlen H4 He Hs.
  rewrite undetected_iff by exact Hlen. unfold syndrome.
  assert (Hreg : U (8 * length (e ++ esb)) (le (e ++ esb))
                 = U 32 (N.lxor (crc_raw 0 e) (le esb))).
  { rewrite <- (N.lxor_0_l (le (e ++ esb))), <- crc_raw_le, crc_raw_app.
    rewrite (crc_raw_le esb), H4. reflexivity. }
  rewrite Hreg.
  assert (Hb : N.lxor (crc_raw 0 e) (le esb) < 2 ^ 32).
  { apply lxor_lt_pow2.
    - apply crc_raw_lt; [reflexivity|exact He].
    - pose proof (le_lt esb Hs) as H. now rewrite H4 in H. }
  split; intro H.
  - rewrite H. apply U_0.
  - now apply (U_eq_0 32).
Qed.

(* error-free data passes *)
Lemma check_clean : forall m, check m (crc_spec m) = true.
Proof. intro m. unfold check. apply N.eqb_refl. Qed.

Lemma region_bits : forall e esb, bytes_ok e -> bytes_ok esb ->
  le (e ++ esb) < 2 ^ N.of_nat (8 * length (e ++ esb)).
Proof.
  intros e esb He Hs. pose proof (le_lt (e ++ esb)) as H.
  rewrite Nat2N.inj_mul. apply H. now apply bytes_ok_app.
Qed.

Section Detection.
  Variables (m e esb : list N).
  Hypothesis Hlen : length m = length e.
  Hypothesis H4 : length esb = 4%nat.
  Hypothesis He : bytes_ok e.
  Hypothesis Hs : bytes_ok esb.

  Let E := le (e ++ esb).
  Let n := (8 * length (e ++ esb))%nat.

  Lemma detected_of_U : U n E <> 0 ->
    check (xor_bytes m e) (N.lxor (crc_spec m) (le esb)) = false.
  Proof.
    intro H. apply not_true_is_false. intro Hc. apply H.
    now apply (region_undetected_iff m e esb).
  Qed.

  Theorem odd_weight_detected :
    Nat.odd (weight (le (e ++ esb))) = true ->
    check (xor_bytes m e) (N.lxor (crc_spec m) (le esb)) = false.
  Proof. intro H. apply detected_of_U. now apply odd_weight_U. Qed.

  Theorem burst_detected :
    (exists (v : N) (k : nat), 0 < v /\ v < 2 ^ 32 /\ (k <= 8 * length (e ++ esb))%nat /\
        le (e ++ esb) = N.shiftl v (N.of_nat k)) ->
    check (xor_bytes m e) (N.lxor (crc_spec m) (le esb)) = false.
  Proof.
    intros [v [k [Hv0 [Hv [Hk HE]]]]]. apply detected_of_U. unfold E. rewrite HE.
    apply burst_U; [exact Hk|exact Hv|lia].
  Qed.

  Theorem two_bit_detected : forall i j : nat,
    N.of_nat (8 * length (e ++ esb)) <= 2147483647 ->
    (i < j)%nat -> (j < 8 * length (e ++ esb))%nat ->
    le (e ++ esb) = N.lxor (N.shiftl 1 (N.of_nat i)) (N.shiftl 1 (N.of_nat j)) ->
    check (xor_bytes m e) (N.lxor (crc_spec m) (le esb)) = false.
  Proof.
    intros i j Hn Hij Hj HE. apply detected_of_U. unfold E. rewrite HE.
    replace (N.lxor (N.shiftl 1 (N.of_nat i)) (N.shiftl 1 (N.of_nat j)))
      with (N.shiftl (N.lxor 1 (N.shiftl 1 (N.of_nat (j - i)))) (N.of_nat i)).
    - apply two_bit_U; [lia|lia|exact Hn].
    - rewrite N.shiftl_lxor, N.shiftl_shiftl. do 2 f_equal. lia.
  Qed.

  Theorem detects :
    N.of_nat (8 * length (e ++ esb)) <= 2147483647 ->
    le (e ++ esb) <> 0 ->
    ((weight (le (e ++ esb)) <= 3)%nat \/
     (exists (v : N) (k : nat), 0 < v /\ v < 2 ^ 32 /\ (k <= 8 * length (e ++ esb))%nat /\
        le (e ++ esb) = N.shiftl v (N.of_nat k))) ->
    check (xor_bytes m e) (N.lxor (crc_spec m) (le esb)) = false.
  Proof.
    intros Hn HE0 H. apply detected_of_U. apply detects_U.
    - exact Hn.
    - exact HE0.
    - now apply region_bits.
    - exact H.
  Qed.
End Detection.

(* ------------------------------------------------------------------ *)
(* 11. weight (le l) really counts the flipped bits of the byte list;   *)
(*     le l = 0 iff every byte is 0                                     *)
(* ------------------------------------------------------------------ *)

Lemma double_lxor : forall a b, N.double (N.lxor a b) = N.lxor (N.double a) (N.double b).
Proof. intros [|p] [|q]; reflexivity. Qed.

Lemma weight_bit_double : forall (c : bool) z,
  weight (N.lxor (if c then 1 else 0) (N.double z)) = ((if c then 1 else 0) + weight z)%nat.
Proof. intros [|] [|p]; reflexivity. Qed.

Lemma weight_concat : forall (k : nat) b x, b < 2 ^ N.of_nat k ->
  weight (N.lxor b (N.shiftl x (N.of_nat k))) = (weight b + weight x)%nat.
Proof.
  induction k as [|k IH]; intros b x Hb.
  - change (N.of_nat 0) with 0 in *. assert (b = 0) by (cbn in Hb; lia). subst b.
    now rewrite N.shiftl_0_r, N.lxor_0_l.
  - rewrite Nat2N.inj_succ in *.
    pose proof (split_low_bit b) as Hs. pose proof (div2_lt b _ Hb) as Hd.
    revert Hs Hd. generalize (N.div2 b) (N.odd b). intros b' c Hs Hd. subst b.
    rewrite N.shiftl_succ_r, N.lxor_assoc, <- double_lxor, !weight_bit_double.
    rewrite IH by exact Hd. lia.
Qed.

Theorem weight_le : forall l, bytes_ok l -> weight (le l) = list_sum (map weight l).
Proof.
  induction l as [|b r IH]; intro H; [reflexivity|].
  inversion H as [|? ? Hb Hr]; subst. cbn [le map list_sum].
  change (N.shiftl (le r) 8) with (N.shiftl (le r) (N.of_nat 8)).
  rewrite (weight_concat 8 b (le r)) by exact Hb. now rewrite IH.
Qed.

Theorem le_eq_0_iff : forall l, bytes_ok l -> (le l = 0 <-> Forall (fun b => b = 0) l).
Proof.
  induction l as [|b r IH]; intro H.
  - split; [constructor|reflexivity].
  - inversion H as [|? ? Hb Hr]; subst. cbn [le]. split; intro H0.
    + apply N.lxor_eq in H0. rewrite N.shiftl_mul_pow2 in H0.
      assert (Hr0 : le r = 0) by lia.
      constructor; [lia|]. now apply IH.
    + inversion H0 as [|? ? Hb0 Hr0]; subst.
      apply IH in Hr0; [|exact Hr]. rewrite Hr0. reflexivity.
Qed.

(* ------------------------------------------------------------------ *)
(* 12. the hypotheses are satisfiable: concrete instances               *)
(* ------------------------------------------------------------------ *)

(* one flipped payload bit *)
Example ex_detects_single :
  check (xor_bytes ex_msg [0;0;4;0;0;0;0;0;0]) (N.lxor (crc_spec ex_msg) (le [0;0;0;0])) = false.
Proof.
  apply detects; try reflexivity; try (apply bytes_ok_dec; reflexivity).
  - vm_compute. discriminate.
  - discriminate.
  - left. vm_compute. lia.
Qed.

(* a 32-bit burst that starts in the last payload bit and covers 31 bits of the
   stored CRC *)
Example ex_detects_straddling_burst :
  check (xor_bytes ex_msg [0;0;0;0;0;0;0;0;128])
        (N.lxor (crc_spec ex_msg) (le [255;255;255;127])) = false.
Proof.
  apply burst_detected; try reflexivity; try (apply bytes_ok_dec; reflexivity).
  exists 4294967295, 71%nat. repeat split; try reflexivity. cbn [length app]. lia.
Qed.

(* two flipped bits, one in the payload and one in the stored CRC *)
Example ex_detects_two_bits :
  check (xor_bytes ex_msg [1;0;0;0;0;0;0;0;0])
        (N.lxor (crc_spec ex_msg) (le [0;0;0;128])) = false.
Proof.
  apply (two_bit_detected ex_msg [1;0;0;0;0;0;0;0;0] [0;0;0;128] eq_refl eq_refl
           ltac:(apply bytes_ok_dec; reflexivity) ltac:(apply bytes_ok_dec; reflexivity)
           0%nat 103%nat).
  - vm_compute. discriminate.
  - lia.
  - cbn [length app]. lia.
  - reflexivity.
Qed.

(* the bound on the region length is tight: at distance exactly 2^31-1 the two
   set bits cancel (this is U_period at the word 1) *)
Example two_bit_period_collision : U (N.to_nat period) 1 = 1.
Proof. apply U_period. reflexivity. Qed.
