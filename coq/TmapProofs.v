(* Proofs about TmapModel (model of /repo/src/tmap.c).  The property theorems were first proved
   for the code before the two repairs (names ending in _old: bisection from high = length, may read x[length];
   0/0 on a zero-width segment) and are transferred to the CURRENT code at the end of the file:
     rounding        rdiv = round-half-away of a quotient; Qround_haz_half, Qtrunc_lt1
     search_old      search_loop_ok, search_junk_independent_lemma (no sortedness needed),
                     search_loop_spec / search_seg_ok / seg_ok_unique (what the bisection selects on a
                     sorted array), search_oob_iff_lemma (exact condition of the old over-read)
     search          search_fixed_seg_ok, search_fixed_eq (same segment as the old code),
                     search_total (never reads at or beyond length; no hypothesis)
     interp_old      interp_monotone, interp_anchor, interp_linear_lemma, interp_at_half, interp_inverse
     old tmap level  tmap_old_* ; tmap_reachable (invariant of jls_tmap_alloc + jls_tmap_add);
                     tmap_old_oob_refuted, tmap_old_equal_times_refuted (the fixed defects)
     transfer        tmap_cur_s2t / tmap_cur_t2s: current code = old code on a heap object with
                     spare cells (where the old code was defined)
     current code    tmap_total, tmap_anchor_exact, tmap_monotone(_rev), tmap_interp_linear,
                     tmap_within_one_tick, tmap_extrap_nearest_segment, tmap_inverse_within_one_sample
     binary64 gap    c_binary64_within_one_partial: PARTIAL - what is proved is the error of the
                     expression under the standard model of rounding (hypothesis fl_err); that gcc's
                     binary64 arithmetic satisfies fl_err (it does for round-to-nearest without
                     underflow; Flocq relative_error_N) and that the int64 -> double casts are exact
                     (|dk|,|ds|,|dt| <= 2^53) is not proved here; the correspondence check measures it. *)
From Coq Require Import ZArith QArith Qabs List Bool Arith Lia Lqa ZifyBool ZifyNat.
From JLS Require Import Generated TmapModel.
Import ListNotations.
Ltac Zify.zify_post_hook ::= Z.to_euclidean_division_equations.
Local Open Scope Z_scope.

(* ------------------------------------------------------------------ *)

(* ---------- rounding ---------- *)
Definition rdiv (a b : Z) : Z :=
  if 0 <=? a then (2 * a + b) / (2 * b) else - ((2 * (- a) + b) / (2 * b)).

Lemma Qround_haz_make : forall a p, Qround_haz (a # p) = rdiv a (Zpos p).
Proof. reflexivity. Qed.

Lemma div_bounds : forall a b, 0 < b -> b * (a / b) <= a < b * (a / b) + b.
Proof.
  intros a b Hb. pose proof (Z.div_mod a b ltac:(lia)). pose proof (Z.mod_pos_bound a b Hb). lia.
Qed.

Lemma rdiv_half : forall a b, 0 < b -> 2 * rdiv a b * b - b <= 2 * a <= 2 * rdiv a b * b + b.
Proof.
  intros a b Hb. unfold rdiv. destruct (0 <=? a) eqn:Ha.
  - pose proof (div_bounds (2 * a + b) (2 * b) ltac:(lia)) as H.
    set (q := (2 * a + b) / (2 * b)) in *. nia.
  - pose proof (div_bounds (2 * - a + b) (2 * b) ltac:(lia)) as H.
    set (q := (2 * - a + b) / (2 * b)) in *. nia.
Qed.

Lemma rdiv_0 : forall b, 0 < b -> rdiv 0 b = 0.
Proof.
  intros b Hb. unfold rdiv. cbn [Z.leb Z.compare]. rewrite Z.mul_0_r, Z.add_0_l.
  apply Z.div_small. lia.
Qed.

Lemma rdiv_nonneg : forall a b, 0 < b -> 0 <= a -> 0 <= rdiv a b.
Proof.
  intros a b Hb Ha. unfold rdiv. replace (0 <=? a) with true by lia.
  apply Z.div_pos; lia.
Qed.

Lemma rdiv_nonpos : forall a b, 0 < b -> a <= 0 -> rdiv a b <= 0.
Proof.
  intros a b Hb Ha. unfold rdiv. destruct (0 <=? a) eqn:E.
  - assert (a = 0) by lia. subst a. rewrite Z.mul_0_r, Z.add_0_l. rewrite Z.div_small; lia.
  - assert (0 <= (2 * - a + b) / (2 * b)) by (apply Z.div_pos; lia). lia.
Qed.

Lemma rdiv_mono : forall a1 a2 b, 0 < b -> a1 <= a2 -> rdiv a1 b <= rdiv a2 b.
Proof.
  intros a1 a2 b Hb H.
  destruct (Z_le_gt_dec 0 a1) as [H1|H1].
  - unfold rdiv. replace (0 <=? a1) with true by lia. replace (0 <=? a2) with true by lia.
    apply Z.div_le_mono; lia.
  - destruct (Z_le_gt_dec 0 a2) as [H2|H2].
    + pose proof (rdiv_nonneg a2 b Hb H2). pose proof (rdiv_nonpos a1 b Hb ltac:(lia)). lia.
    + unfold rdiv. replace (0 <=? a1) with false by lia. replace (0 <=? a2) with false by lia.
      assert ((2 * - a2 + b) / (2 * b) <= (2 * - a1 + b) / (2 * b)) by (apply Z.div_le_mono; lia).
      lia.
Qed.

Lemma rdiv_exact : forall k b, 0 < b -> rdiv (k * b) b = k.
Proof.
  intros k b Hb. pose proof (rdiv_half (k * b) b Hb) as H.
  set (r := rdiv (k * b) b) in *. nia.
Qed.

Lemma rdiv_le : forall a k b, 0 < b -> a <= k * b -> rdiv a b <= k.
Proof. intros a k b Hb H. rewrite <- (rdiv_exact k b Hb). apply rdiv_mono; assumption. Qed.

Lemma rdiv_ge : forall a k b, 0 < b -> k * b <= a -> k <= rdiv a b.
Proof. intros a k b Hb H. rewrite <- (rdiv_exact k b Hb). apply rdiv_mono; assumption. Qed.

(* the C expression dk * (dt / ds), evaluated in Q, then round() *)
Lemma interp_k_eq : forall dk ds dt, 0 < ds -> interp_k dk ds dt = rdiv (dk * dt) ds.
Proof.
  intros dk ds dt Hds. destruct ds as [|p|p]; try lia.
  unfold interp_k, Qdiv, Qinv, Qmult, inject_Z. cbn [Qnum Qden].
  rewrite Qround_haz_make. f_equal.
  - ring.
Qed.

Lemma Qround_haz_half : forall q : Q, (Qabs (inject_Z (Qround_haz q) - q) <= 1 # 2)%Q.
Proof.
  intros [n d]. rewrite Qround_haz_make.
  pose proof (rdiv_half n (Zpos d) ltac:(lia)) as H.
  apply Qabs_Qle_condition. unfold Qle, Qminus, Qplus, Qopp, inject_Z. cbn [Qnum Qden].
  split; lia.
Qed.

Lemma Qtrunc_make : forall a p, Qtrunc (a # p) = Z.quot a (Zpos p).
Proof. reflexivity. Qed.

Lemma Qtrunc_lt1 : forall q : Q, (Qabs (inject_Z (Qtrunc q) - q) < 1)%Q.
Proof.
  intros [n d]. rewrite Qtrunc_make.
  apply Qabs_Qlt_condition. unfold Qlt, Qminus, Qplus, Qopp, inject_Z. cbn [Qnum Qden].
  split; lia.
Qed.

(* ------------------------------------------------------------------ *)

(* ---------- memory reads ---------- *)
Lemma rd_in : forall j ph xs i, (i < length xs)%nat -> rd j ph xs i = TmOk (nth i xs 0).
Proof. intros j ph xs i H. unfold rd. replace (i <? length xs)%nat with true by lia. reflexivity. Qed.

Lemma rd_junk : forall j ph xs i, (length xs <= i)%nat -> (i < ph)%nat -> rd j ph xs i = TmOk j.
Proof.
  intros j ph xs i H1 H2. unfold rd.
  replace (i <? length xs)%nat with false by lia. replace (i <? ph)%nat with true by lia. reflexivity.
Qed.

Lemma rd_oob : forall j ph xs i, (length xs <= i)%nat -> (ph <= i)%nat -> rd j ph xs i = TmFault Tm_OOB_read.
Proof.
  intros j ph xs i H1 H2. unfold rd.
  replace (i <? length xs)%nat with false by lia. replace (i <? ph)%nat with false by lia. reflexivity.
Qed.

Lemma mid_bounds : forall low high : nat, (low < high)%nat ->
  (low < (low + high + 1) / 2 <= high)%nat.
Proof. intros. lia. Qed.

(* ---------- the loop terminates without tm_fault when x[length] is inside the heap object ---------- *)
Lemma search_loop_ok : forall fuel j ph xs x0 low high,
  (low <= high <= length xs)%nat -> (length xs < ph)%nat -> (high - low < fuel)%nat ->
  exists r, search_loop fuel j ph xs x0 low high = TmOk r /\ (low <= r <= high)%nat.
Proof.
  induction fuel as [|f IH]; intros j ph xs x0 low high Hlh Hph Hf; [lia|].
  cbn [search_loop].
  destruct (low <? high)%nat eqn:Elt; [|exists low; split; [reflexivity|lia]].
  pose proof (mid_bounds low high ltac:(lia)) as Hm.
  set (mid := ((low + high + 1) / 2)%nat) in *.
  assert (Hrd : exists xm, rd j ph xs mid = TmOk xm).
  { destruct (Nat.lt_ge_cases mid (length xs)).
    - eexists; apply rd_in; assumption.
    - eexists; apply rd_junk; lia. }
  destruct Hrd as [xm ->].
  destruct (x0 =? xm) eqn:Eeq; [exists mid; split; [reflexivity|lia]|].
  destruct (x0 <? xm) eqn:Elt2.
  - destruct (IH j ph xs x0 low (mid - 1)%nat ltac:(lia) Hph ltac:(lia)) as [r [Hr Hb]].
    exists r; split; [exact Hr|lia].
  - destruct (IH j ph xs x0 mid high ltac:(lia) Hph ltac:(lia)) as [r [Hr Hb]].
    exists r; split; [exact Hr|lia].
Qed.

(* ---------- junk independence: no sortedness needed ---------- *)
Lemma search_loop_junk : forall fuel j j' ph xs x0 low high,
  (low <= high <= length xs)%nat -> (length xs < ph)%nat -> (high - low < fuel)%nat ->
  search_loop fuel j ph xs x0 low high = search_loop fuel j' ph xs x0 low high \/
  exists a b, search_loop fuel j ph xs x0 low high = TmOk a /\ search_loop fuel j' ph xs x0 low high = TmOk b /\
              (length xs - 1 <= a)%nat /\ (length xs - 1 <= b)%nat.
Proof.
  induction fuel as [|f IH]; intros j j' ph xs x0 low high Hlh Hph Hf; [lia|].
  cbn [search_loop].
  destruct (low <? high)%nat eqn:Elt; [|left; reflexivity].
  pose proof (mid_bounds low high ltac:(lia)) as Hm.
  set (mid := ((low + high + 1) / 2)%nat) in *.
  destruct (Nat.lt_ge_cases mid (length xs)) as [Hin|Hout].
  - rewrite !(rd_in _ _ _ _ Hin).
    destruct (x0 =? nth mid xs 0); [left; reflexivity|].
    destruct (x0 <? nth mid xs 0).
    + apply IH; lia.
    + apply IH; lia.
  - (* mid = length: low = length - 1, high = length; whatever the junk, the result is >= length - 1 *)
    assert (Hmid : mid = length xs) by lia.
    assert (Hlow : low = (length xs - 1)%nat) by (subst mid; lia).
    assert (Hhigh : high = length xs) by lia.
    right.
    assert (Hany : forall jj, exists a, (match rd jj ph xs mid with
                     | TmFault e => TmFault e
                     | TmOk xm => if x0 =? xm then TmOk mid
                                else if x0 <? xm then search_loop f jj ph xs x0 low (mid - 1)%nat
                                else search_loop f jj ph xs x0 mid high end) = TmOk a /\ (length xs - 1 <= a)%nat).
    { intros jj. rewrite (rd_junk jj ph xs mid ltac:(lia) ltac:(lia)).
      destruct (x0 =? jj); [exists mid; split; [reflexivity|lia]|].
      destruct (x0 <? jj).
      - destruct (search_loop_ok f jj ph xs x0 low (mid - 1)%nat ltac:(lia) Hph ltac:(lia)) as [r [Hr Hb]].
        exists r; split; [exact Hr|lia].
      - destruct (search_loop_ok f jj ph xs x0 mid high ltac:(lia) Hph ltac:(lia)) as [r [Hr Hb]].
        exists r; split; [exact Hr|lia]. }
    destruct (Hany j) as [a [Ha Hab]]. destruct (Hany j') as [b [Hb Hbb]].
    exists a, b. repeat split; assumption.
Qed.

Lemma clamp_top : forall len a, (len - 1 <= a)%nat -> clamp len a = (len - 2)%nat.
Proof. intros len a H. unfold clamp. replace (len - 1 <=? a)%nat with true by lia. reflexivity. Qed.

Theorem search_junk_independent_lemma : forall j j' ph xs x0,
  (length xs < ph)%nat -> search_old j ph xs x0 = search_old j' ph xs x0.
Proof.
  intros j j' ph xs x0 Hph. unfold search_old.
  destruct (search_loop_junk (S (length xs)) j j' ph xs x0 0%nat (length xs) ltac:(lia) Hph ltac:(lia))
    as [->|[a [b [-> [-> [Ha Hb]]]]]]; [reflexivity|].
  rewrite (clamp_top _ _ Ha), (clamp_top _ _ Hb). reflexivity.
Qed.

Theorem search_no_oob_lemma : forall j ph xs x0,
  (length xs < ph)%nat ->
  exists c, search_old j ph xs x0 = TmOk c /\ (c <= length xs)%nat /\ (2 <= length xs -> c + 2 <= length xs)%nat.
Proof.
  intros j ph xs x0 Hph. unfold search_old.
  destruct (search_loop_ok (S (length xs)) j ph xs x0 0%nat (length xs) ltac:(lia) Hph ltac:(lia)) as [r [-> Hb]].
  eexists; split; [reflexivity|]. unfold clamp.
  destruct (length xs - 1 <=? r)%nat eqn:E; lia.
Qed.

(* ------------------------------------------------------------------ *)

Lemma sorted_lt_le : forall xs, sorted_lt xs -> sorted_le xs.
Proof.
  intros xs H i j Hij. destruct (Nat.eq_dec i j) as [->|Hne]; [lia|].
  pose proof (H i j ltac:(lia)). lia.
Qed.

(* ---------- what the loop computes on a sorted array ---------- *)
Lemma search_loop_spec : forall fuel j ph xs x0 low high,
  sorted_lt xs ->
  (low <= high <= length xs)%nat -> ((high < length xs)%nat \/ (length xs < ph)%nat) -> (high - low < fuel)%nat ->
  (forall i, (0 < i <= low)%nat -> (i < length xs)%nat -> nth i xs 0 <= x0) ->
  (forall i, (high < i < length xs)%nat -> x0 < nth i xs 0) ->
  exists r, search_loop fuel j ph xs x0 low high = TmOk r /\ (low <= r <= high)%nat /\
    (forall i, (0 < i <= r)%nat -> (i < length xs)%nat -> nth i xs 0 <= x0) /\
    (forall i, (r < i < length xs)%nat -> x0 < nth i xs 0).
Proof.
  induction fuel as [|f IH]; intros j ph xs x0 low high Hs Hlh Hph Hf Hlo Hhi; [lia|].
  cbn [search_loop].
  destruct (low <? high)%nat eqn:Elt.
  2:{ exists low. split; [reflexivity|]. split; [lia|]. split; [exact Hlo|].
      intros i Hi. apply Hhi. lia. }
  pose proof (mid_bounds low high ltac:(lia)) as Hm.
  set (mid := ((low + high + 1) / 2)%nat) in *.
  destruct (Nat.lt_ge_cases mid (length xs)) as [Hin|Hout].
  - rewrite (rd_in _ _ _ _ Hin).
    destruct (x0 =? nth mid xs 0) eqn:Eeq.
    + exists mid. split; [reflexivity|]. split; [lia|]. split.
      * intros i Hi Hil. destruct (Nat.eq_dec i mid) as [->|Hne]; [lia|].
        pose proof (Hs i mid ltac:(lia)). lia.
      * intros i Hi. pose proof (Hs mid i ltac:(lia)). lia.
    + destruct (x0 <? nth mid xs 0) eqn:Elt2.
      * destruct (IH j ph xs x0 low (mid - 1)%nat Hs ltac:(lia) ltac:(lia) ltac:(lia) Hlo) as [r [Hr [Hb [H1 H2]]]].
        { intros i Hi. destruct (Nat.eq_dec i mid) as [->|Hne]; [lia|].
          pose proof (Hs mid i ltac:(lia)). lia. }
        exists r. split; [exact Hr|]. split; [lia|]. split; assumption.
      * destruct (IH j ph xs x0 mid high Hs ltac:(lia) ltac:(lia) ltac:(lia)) as [r [Hr [Hb [H1 H2]]]].
        { intros i Hi Hil. destruct (Nat.eq_dec i mid) as [->|Hne]; [lia|].
          pose proof (Hs i mid ltac:(lia)). lia. }
        { exact Hhi. }
        exists r. split; [exact Hr|]. split; [lia|]. split; assumption.
  - assert (Hmid : mid = length xs) by lia.
    assert (Hlow : low = (length xs - 1)%nat) by (subst mid; lia).
    assert (Hhigh : high = length xs) by lia.
    rewrite (rd_junk j ph xs mid ltac:(lia) ltac:(lia)).
    assert (Hall : forall i, (0 < i)%nat -> (i < length xs)%nat -> nth i xs 0 <= x0).
    { intros i Hi Hil. apply Hlo; lia. }
    destruct (x0 =? j) eqn:Eeq.
    + exists mid. split; [reflexivity|]. split; [lia|]. split.
      * intros i Hi Hil. apply Hall; lia.
      * intros i Hi. lia.
    + destruct (x0 <? j) eqn:Elt2.
      * destruct (IH j ph xs x0 low (mid - 1)%nat Hs ltac:(lia) ltac:(lia) ltac:(lia) Hlo) as [r [Hr [Hb [H1 H2]]]].
        { intros i Hi. lia. }
        exists r. split; [exact Hr|]. split; [lia|]. split; assumption.
      * destruct (IH j ph xs x0 mid high Hs ltac:(lia) ltac:(lia) ltac:(lia)) as [r [Hr [Hb [H1 H2]]]].
        { intros i Hi Hil. apply Hall; lia. }
        { exact Hhi. }
        exists r. split; [exact Hr|]. split; [lia|]. split; assumption.
Qed.

Lemma search_seg_ok : forall j ph xs x0,
  sorted_lt xs -> (2 <= length xs)%nat -> (length xs < ph)%nat ->
  exists c, search_old j ph xs x0 = TmOk c /\ seg_ok xs x0 c.
Proof.
  intros j ph xs x0 Hs Hlen Hph. unfold search_old.
  destruct (search_loop_spec (S (length xs)) j ph xs x0 0%nat (length xs) Hs ltac:(lia) (or_intror Hph) ltac:(lia))
    as [r [-> [Hb [H1 H2]]]].
  { intros i Hi. lia. }
  { intros i Hi. lia. }
  eexists. split; [reflexivity|]. unfold clamp, seg_ok.
  destruct (length xs - 1 <=? r)%nat eqn:E.
  - split; [lia|]. split.
    + intros i Hi. apply H1; lia.
    + intros i Hi Hil. lia.
  - split; [lia|]. split.
    + intros i Hi. apply H1; lia.
    + intros i Hi Hil. apply H2; lia.
Qed.

Lemma seg_ok_unique : forall xs x0 c1 c2,
  sorted_le xs -> seg_ok xs x0 c1 -> seg_ok xs x0 c2 -> c1 = c2.
Proof.
  intros xs x0 c1 c2 Hs [A1 [A2 A3]] [B1 [B2 B3]].
  destruct (Nat.lt_trichotomy c1 c2) as [H|[H|H]]; [exfalso|assumption|exfalso].
  - pose proof (B2 c2 ltac:(lia)). pose proof (A3 c2 ltac:(lia) ltac:(lia)). lia.
  - pose proof (A2 c1 ltac:(lia)). pose proof (B3 c1 ltac:(lia) ltac:(lia)). lia.
Qed.

Lemma search_eq_seg : forall j ph xs x0 c,
  sorted_lt xs -> (2 <= length xs)%nat -> (length xs < ph)%nat -> seg_ok xs x0 c ->
  search_old j ph xs x0 = TmOk c.
Proof.
  intros j ph xs x0 c Hs Hlen Hph Hc.
  destruct (search_seg_ok j ph xs x0 Hs Hlen Hph) as [c' [-> Hc']].
  f_equal. eapply seg_ok_unique; eauto using sorted_lt_le.
Qed.

(* the repaired bisection (high = length - 1): same segment, no read at or beyond length,
   whatever the physical size and the junk *)
Lemma search_fixed_seg_ok : forall xs x0,
  sorted_lt xs -> (2 <= length xs)%nat ->
  exists c, search xs x0 = TmOk c /\ seg_ok xs x0 c.
Proof.
  intros xs x0 Hs Hlen. unfold search.
  destruct (search_loop_spec (length xs) 0 0%nat xs x0 0%nat (length xs - 1)%nat Hs ltac:(lia) ltac:(left; lia) ltac:(lia))
    as [r [-> [Hb [H1 H2]]]].
  { intros i Hi. lia. }
  { intros i Hi. lia. }
  eexists. split; [reflexivity|]. unfold clamp, seg_ok.
  destruct (length xs - 1 <=? r)%nat eqn:E.
  - split; [lia|]. split.
    + intros i Hi. apply H1; lia.
    + intros i Hi Hil. lia.
  - split; [lia|]. split.
    + intros i Hi. apply H1; lia.
    + intros i Hi Hil. apply H2; lia.
Qed.

Lemma search_fixed_eq : forall j ph xs x0,
  sorted_lt xs -> (2 <= length xs)%nat -> (length xs < ph)%nat ->
  search xs x0 = search_old j ph xs x0.
Proof.
  intros j ph xs x0 Hs Hlen Hph.
  destruct (search_fixed_seg_ok xs x0 Hs Hlen) as [c [-> Hc]].
  symmetry. apply search_eq_seg; assumption.
Qed.

(* segment facts *)
Lemma seg_ok_inside : forall xs q i, sorted_lt xs -> (i + 1 < length xs)%nat ->
  nth i xs 0 <= q < nth (S i) xs 0 -> seg_ok xs q i.
Proof.
  intros xs q i Hs Hi Hq. split; [lia|]. split.
  - intros k Hk. destruct (Nat.eq_dec k i) as [->|Hne]; [lia|]. pose proof (Hs k i ltac:(lia)). lia.
  - intros k Hk Hkl. destruct (Nat.eq_dec k (S i)) as [->|Hne]; [lia|]. pose proof (Hs (S i) k ltac:(lia)). lia.
Qed.

Lemma seg_ok_before : forall xs q, sorted_lt xs -> (2 <= length xs)%nat -> q < nth 0 xs 0 -> seg_ok xs q 0.
Proof.
  intros xs q Hs Hl Hq. split; [lia|]. split.
  - intros k Hk. lia.
  - intros k Hk Hkl. pose proof (Hs 0%nat k ltac:(lia)). lia.
Qed.

Lemma seg_ok_after : forall xs q, sorted_lt xs -> (2 <= length xs)%nat ->
  nth (length xs - 1) xs 0 <= q -> seg_ok xs q (length xs - 2).
Proof.
  intros xs q Hs Hl Hq. split; [lia|]. split.
  - intros k Hk. pose proof (Hs k (length xs - 1)%nat ltac:(lia)). lia.
  - intros k Hk Hkl. lia.
Qed.

(* ---------- the over-read: exact condition ---------- *)
Lemma search_loop_oob : forall fuel j ph xs x0 low,
  sorted_lt xs -> (ph <= length xs)%nat -> (low < length xs)%nat -> (length xs - low < fuel)%nat ->
  nth (length xs - 1) xs 0 < x0 ->
  search_loop fuel j ph xs x0 low (length xs) = TmFault Tm_OOB_read.
Proof.
  induction fuel as [|f IH]; intros j ph xs x0 low Hs Hph Hlow Hf Hq; [lia|].
  cbn [search_loop]. replace (low <? length xs)%nat with true by lia.
  pose proof (mid_bounds low (length xs) ltac:(lia)) as Hm.
  set (mid := ((low + length xs + 1) / 2)%nat) in *.
  destruct (Nat.lt_ge_cases mid (length xs)) as [Hin|Hout].
  - rewrite (rd_in _ _ _ _ Hin).
    assert (nth mid xs 0 <= nth (length xs - 1) xs 0).
    { destruct (Nat.eq_dec mid (length xs - 1)) as [->|Hne]; [lia|]. pose proof (Hs mid (length xs - 1)%nat ltac:(lia)). lia. }
    replace (x0 =? nth mid xs 0) with false by lia.
    replace (x0 <? nth mid xs 0) with false by lia.
    apply IH; try assumption; lia.
  - rewrite (rd_oob j ph xs mid ltac:(lia) ltac:(lia)). reflexivity.
Qed.

Lemma search_loop_inb : forall fuel j ph xs x0 low high,
  sorted_lt xs -> (low <= high <= length xs)%nat -> (high - low < fuel)%nat ->
  (high = length xs -> low + 1 < length xs)%nat ->
  x0 <= nth (length xs - 1) xs 0 ->
  exists r, search_loop fuel j ph xs x0 low high = TmOk r.
Proof.
  induction fuel as [|f IH]; intros j ph xs x0 low high Hs Hlh Hf Hinv Hq; [lia|].
  cbn [search_loop].
  destruct (low <? high)%nat eqn:Elt; [|eexists; reflexivity].
  pose proof (mid_bounds low high ltac:(lia)) as Hm.
  set (mid := ((low + high + 1) / 2)%nat) in *.
  assert (Hin : (mid < length xs)%nat).
  { destruct (Nat.eq_dec high (length xs)) as [He|Hne]; [|lia]. specialize (Hinv He). subst mid. lia. }
  rewrite (rd_in _ _ _ _ Hin).
  destruct (x0 =? nth mid xs 0) eqn:Eeq; [eexists; reflexivity|].
  destruct (x0 <? nth mid xs 0) eqn:Elt2.
  - apply IH; try assumption; lia.
  - apply IH; try assumption; try lia.
    intros He.
    destruct (Nat.eq_dec mid (length xs - 1)) as [Hm1|Hm1]; [rewrite Hm1 in *; lia|lia].
Qed.

Theorem search_oob_iff_lemma : forall j ph xs x0,
  sorted_lt xs -> (2 <= length xs)%nat -> (ph <= length xs)%nat ->
  (search_old j ph xs x0 = TmFault Tm_OOB_read <-> nth (length xs - 1) xs 0 < x0).
Proof.
  intros j ph xs x0 Hs Hl Hph. unfold search_old. split.
  - intros H. destruct (Z_lt_ge_dec (nth (length xs - 1) xs 0) x0) as [Hq|Hq]; [assumption|exfalso].
    destruct (search_loop_inb (S (length xs)) j ph xs x0 0%nat (length xs) Hs ltac:(lia) ltac:(lia) ltac:(lia) ltac:(lia)) as [r Hr].
    rewrite Hr in H. discriminate.
  - intros Hq. rewrite (search_loop_oob (S (length xs)) j ph xs x0 0%nat Hs Hph ltac:(lia) ltac:(lia) Hq). reflexivity.
Qed.

(* ------------------------------------------------------------------ *)

Lemma in64_true : forall v, in64 v = true <-> - 2 ^ 63 <= v < 2 ^ 63.
Proof. intros v. unfold in64. lia. Qed.

Lemma all_in_nth : forall B l i, all_in B l -> (i < length l)%nat -> - B <= nth i l 0 <= B.
Proof.
  intros B l i H Hi. unfold all_in in H. rewrite Forall_forall in H. apply H. apply nth_In. exact Hi.
Qed.

(* the value interp_at_old returns, with round() expressed by rdiv *)
Definition ival (xs ys : list Z) (c : nat) (x0 : Z) : Z :=
  nth c ys 0 + rdiv ((x0 - nth c xs 0) * (nth (S c) ys 0 - nth c ys 0)) (nth (S c) xs 0 - nth c xs 0).

Lemma interp_at_inv : forall xs ys c x0 v,
  interp_at_old xs ys c x0 = TmOk v ->
  nth (S c) xs 0 - nth c xs 0 <> 0 /\
  v = nth c ys 0 + interp_k (x0 - nth c xs 0) (nth (S c) xs 0 - nth c xs 0) (nth (S c) ys 0 - nth c ys 0).
Proof.
  intros xs ys c x0 v. unfold interp_at_old.
  destruct (negb _); [discriminate|].
  destruct (_ =? 0) eqn:E; [discriminate|].
  destruct (negb _); [discriminate|].
  intros H. inversion H. split; [lia|reflexivity].
Qed.

Lemma interp_at_inv_pos : forall xs ys c x0 v,
  interp_at_old xs ys c x0 = TmOk v -> 0 < nth (S c) xs 0 - nth c xs 0 -> v = ival xs ys c x0.
Proof.
  intros xs ys c x0 v H Hds. apply interp_at_inv in H. destruct H as [_ ->].
  unfold ival. rewrite interp_k_eq by assumption. reflexivity.
Qed.

Lemma interp_at_ok : forall xs ys c x0,
  0 < nth (S c) xs 0 - nth c xs 0 ->
  in64 (x0 - nth c xs 0) = true -> in64 (nth (S c) xs 0 - nth c xs 0) = true ->
  in64 (nth (S c) ys 0 - nth c ys 0) = true ->
  in64 (ival xs ys c x0 - nth c ys 0) = true -> in64 (ival xs ys c x0) = true ->
  interp_at_old xs ys c x0 = TmOk (ival xs ys c x0).
Proof.
  intros xs ys c x0 Hds H1 H2 H3 H4 H5. unfold interp_at_old.
  rewrite H1, H2, H3. cbn [andb negb].
  replace (nth (S c) xs 0 - nth c xs 0 =? 0) with false by lia.
  rewrite interp_k_eq by assumption.
  unfold ival in H4, H5.
  replace (nth c ys 0 + rdiv ((x0 - nth c xs 0) * (nth (S c) ys 0 - nth c ys 0)) (nth (S c) xs 0 - nth c xs 0) - nth c ys 0)
    with (rdiv ((x0 - nth c xs 0) * (nth (S c) ys 0 - nth c ys 0)) (nth (S c) xs 0 - nth c xs 0)) in H4 by ring.
  rewrite H4, H5. reflexivity.
Qed.

(* within half a unit of the exact rational value, whatever the segment *)
Lemma interp_at_half : forall xs ys c x0 v,
  interp_at_old xs ys c x0 = TmOk v ->
  (Qabs (inject_Z v - exact_at xs ys c x0) <= 1 # 2)%Q.
Proof.
  intros xs ys c x0 v H. apply interp_at_inv in H. destruct H as [_ ->].
  unfold exact_at, interp_k. cbv zeta.
  set (E := (inject_Z (x0 - nth c xs 0%Z) * (inject_Z (nth (S c) ys 0%Z - nth c ys 0%Z) / inject_Z (nth (S c) xs 0%Z - nth c xs 0%Z)))%Q).
  assert (Heq : (inject_Z (nth c ys 0%Z + Qround_haz E) - (inject_Z (nth c ys 0%Z) + E) == inject_Z (Qround_haz E) - E)%Q).
  { rewrite inject_Z_plus. ring. }
  rewrite Heq. apply Qround_haz_half.
Qed.


Lemma interp_seg : forall j ph xs ys x0 c,
  sorted_lt xs -> (2 <= length xs)%nat -> (length xs < ph)%nat ->
  seg_ok xs x0 c -> interp_old j ph xs ys x0 = interp_at_old xs ys c x0.
Proof. intros j ph xs ys x0 c Hsx Hlen2 Hph Hc. unfold interp_old. rewrite (search_eq_seg j ph xs x0 c Hsx Hlen2 Hph Hc). reflexivity. Qed.

Lemma interp_has_seg : forall j ph xs ys x0,
  sorted_lt xs -> (2 <= length xs)%nat -> (length xs < ph)%nat ->
  exists c, seg_ok xs x0 c /\ interp_old j ph xs ys x0 = interp_at_old xs ys c x0.
Proof.
  intros j ph xs ys x0 Hsx Hlen2 Hph. destruct (search_seg_ok j ph xs x0 Hsx Hlen2 Hph) as [c [Hc Hs]].
  exists c. split; [assumption|]. unfold interp_old. rewrite Hc. reflexivity.
Qed.

Lemma seg_ds_pos : forall xs x0 c, sorted_lt xs -> seg_ok xs x0 c -> 0 < nth (S c) xs 0 - nth c xs 0.
Proof. intros xs x0 c Hsx [H _]. pose proof (Hsx c (S c) ltac:(lia)). lia. Qed.

Lemma seg_dt_nonneg : forall xs ys x0 c, sorted_le ys -> length ys = length xs -> seg_ok xs x0 c ->
  0 <= nth (S c) ys 0 - nth c ys 0.
Proof. intros xs ys x0 c Hsy Hly [H _]. pose proof (Hsy c (S c) ltac:(lia)). lia. Qed.

(* lower / upper bounds of the value on a segment: only ds > 0 and dt >= 0 matter *)
Lemma ival_ge_left : forall xs ys c x0,
  0 < nth (S c) xs 0 - nth c xs 0 -> 0 <= nth (S c) ys 0 - nth c ys 0 ->
  nth c xs 0 <= x0 -> nth c ys 0 <= ival xs ys c x0.
Proof.
  intros xs ys c x0 Hds Hdt Hq. unfold ival.
  assert (0 <= rdiv ((x0 - nth c xs 0) * (nth (S c) ys 0 - nth c ys 0)) (nth (S c) xs 0 - nth c xs 0)).
  { apply rdiv_nonneg; [assumption|]. apply Z.mul_nonneg_nonneg; lia. }
  lia.
Qed.

Lemma ival_le_left : forall xs ys c x0,
  0 < nth (S c) xs 0 - nth c xs 0 -> 0 <= nth (S c) ys 0 - nth c ys 0 ->
  x0 <= nth c xs 0 -> ival xs ys c x0 <= nth c ys 0.
Proof.
  intros xs ys c x0 Hds Hdt Hq. unfold ival.
  assert (rdiv ((x0 - nth c xs 0) * (nth (S c) ys 0 - nth c ys 0)) (nth (S c) xs 0 - nth c xs 0) <= 0).
  { apply rdiv_nonpos; [assumption|]. apply Z.mul_nonpos_nonneg; lia. }
  lia.
Qed.

Lemma ival_le_right : forall xs ys c x0,
  0 < nth (S c) xs 0 - nth c xs 0 -> 0 <= nth (S c) ys 0 - nth c ys 0 ->
  x0 <= nth (S c) xs 0 -> ival xs ys c x0 <= nth (S c) ys 0.
Proof.
  intros xs ys c x0 Hds Hdt Hq. unfold ival.
  assert (rdiv ((x0 - nth c xs 0) * (nth (S c) ys 0 - nth c ys 0)) (nth (S c) xs 0 - nth c xs 0) <= nth (S c) ys 0 - nth c ys 0).
  { apply rdiv_le; [assumption|]. rewrite (Z.mul_comm (nth (S c) ys 0 - nth c ys 0)).
    apply Z.mul_le_mono_nonneg_r; lia. }
  lia.
Qed.

Lemma ival_ge_right : forall xs ys c x0,
  0 < nth (S c) xs 0 - nth c xs 0 -> 0 <= nth (S c) ys 0 - nth c ys 0 ->
  nth (S c) xs 0 <= x0 -> nth (S c) ys 0 <= ival xs ys c x0.
Proof.
  intros xs ys c x0 Hds Hdt Hq. unfold ival.
  assert (nth (S c) ys 0 - nth c ys 0 <= rdiv ((x0 - nth c xs 0) * (nth (S c) ys 0 - nth c ys 0)) (nth (S c) xs 0 - nth c xs 0)).
  { apply rdiv_ge; [assumption|]. rewrite (Z.mul_comm (nth (S c) ys 0 - nth c ys 0)).
    apply Z.mul_le_mono_nonneg_r; lia. }
  lia.
Qed.

Lemma ival_mono_seg : forall xs ys c q1 q2,
  0 < nth (S c) xs 0 - nth c xs 0 -> 0 <= nth (S c) ys 0 - nth c ys 0 ->
  q1 <= q2 -> ival xs ys c q1 <= ival xs ys c q2.
Proof.
  intros xs ys c q1 q2 Hds Hdt Hq. unfold ival.
  assert (rdiv ((q1 - nth c xs 0) * (nth (S c) ys 0 - nth c ys 0)) (nth (S c) xs 0 - nth c xs 0)
          <= rdiv ((q2 - nth c xs 0) * (nth (S c) ys 0 - nth c ys 0)) (nth (S c) xs 0 - nth c xs 0)).
  { apply rdiv_mono; [assumption|]. apply Z.mul_le_mono_nonneg_r; lia. }
  lia.
Qed.

Lemma ival_left_anchor : forall xs ys c, 0 < nth (S c) xs 0 - nth c xs 0 -> ival xs ys c (nth c xs 0) = nth c ys 0.
Proof.
  intros xs ys c Hds. unfold ival. rewrite Z.sub_diag, Z.mul_0_l, rdiv_0 by assumption. lia.
Qed.

Lemma ival_right_anchor : forall xs ys c, 0 < nth (S c) xs 0 - nth c xs 0 -> ival xs ys c (nth (S c) xs 0) = nth (S c) ys 0.
Proof.
  intros xs ys c Hds. unfold ival.
  rewrite (Z.mul_comm (nth (S c) xs 0 - nth c xs 0)), rdiv_exact by assumption. lia.
Qed.

(* segments are ordered like the queries *)
Lemma seg_mono : forall xs q1 q2 c1 c2, q1 <= q2 -> seg_ok xs q1 c1 -> seg_ok xs q2 c2 -> (c1 <= c2)%nat.
Proof.
  intros xs q1 q2 c1 c2 Hq [A1 [A2 A3]] [B1 [B2 B3]].
  destruct (Nat.le_gt_cases c1 c2) as [H|H]; [assumption|exfalso].
  pose proof (A2 c1 ltac:(lia)). pose proof (B3 c1 ltac:(lia) ltac:(lia)). lia.
Qed.

(* the standing hypotheses of the generic theorems *)
Definition gen_ok (ph : nat) (xs ys : list Z) : Prop :=
  sorted_lt xs /\ sorted_le ys /\ length ys = length xs /\ (2 <= length xs)%nat /\ (length xs < ph)%nat.

Theorem interp_monotone : forall j ph xs ys q1 q2 v1 v2, gen_ok ph xs ys ->
  interp_old j ph xs ys q1 = TmOk v1 -> interp_old j ph xs ys q2 = TmOk v2 -> q1 <= q2 -> v1 <= v2.
Proof.
  intros j ph xs ys q1 q2 v1 v2 [Hsx [Hsy [Hly [Hlen2 Hph]]]] H1 H2 Hq.
  destruct (interp_has_seg j ph xs ys q1 Hsx Hlen2 Hph) as [c1 [Hc1 E1]].
  destruct (interp_has_seg j ph xs ys q2 Hsx Hlen2 Hph) as [c2 [Hc2 E2]].
  rewrite E1 in H1. rewrite E2 in H2.
  pose proof (seg_ds_pos xs q1 c1 Hsx Hc1) as D1. pose proof (seg_ds_pos xs q2 c2 Hsx Hc2) as D2.
  pose proof (seg_dt_nonneg xs ys q1 c1 Hsy Hly Hc1) as T1. pose proof (seg_dt_nonneg xs ys q2 c2 Hsy Hly Hc2) as T2.
  apply interp_at_inv_pos in H1; [|assumption].
  apply interp_at_inv_pos in H2; [|assumption].
  subst v1 v2.
  pose proof (seg_mono xs q1 q2 c1 c2 Hq Hc1 Hc2) as Hc.
  destruct (Nat.eq_dec c1 c2) as [->|Hne].
  - apply ival_mono_seg; assumption.
  - (* c1 < c2: v1 <= y[c1+1] <= y[c2] <= v2 *)
    assert (Hlt : (c1 < c2)%nat) by lia.
    destruct Hc1 as [A1 [A2 A3]]. destruct Hc2 as [B1 [B2 B3]].
    pose proof (A3 (S c1) ltac:(lia) ltac:(lia)) as Hq1.
    pose proof (B2 c2 ltac:(lia)) as Hq2.
    pose proof (ival_le_right xs ys c1 q1 D1 T1 ltac:(lia)).
    pose proof (ival_ge_left xs ys c2 q2 D2 T2 ltac:(lia)).
    pose proof (Hsy (S c1) c2 ltac:(lia)). lia.
Qed.

(* between the two anchors of its segment nothing overflows *)
Lemma interp_at_inside_ok : forall xs ys q c,
  sorted_lt xs -> sorted_le ys -> length ys = length xs ->
  all_in (2 ^ 62 - 1) xs -> all_in (2 ^ 62 - 1) ys ->
  seg_ok xs q c -> nth c xs 0 <= q <= nth (S c) xs 0 ->
  interp_at_old xs ys c q = TmOk (ival xs ys c q).
Proof.
  intros xs ys q c Hsx Hsy Hly Hbx Hby Hc Hq. pose proof Hc as [C1 _].
  pose proof (seg_ds_pos xs q c Hsx Hc). pose proof (seg_dt_nonneg xs ys q c Hsy Hly Hc).
  pose proof (all_in_nth _ xs c Hbx ltac:(lia)). pose proof (all_in_nth _ xs (S c) Hbx ltac:(lia)).
  pose proof (all_in_nth _ ys c Hby ltac:(lia)). pose proof (all_in_nth _ ys (S c) Hby ltac:(lia)).
  pose proof (ival_ge_left xs ys c q ltac:(lia) ltac:(lia) ltac:(lia)).
  pose proof (ival_le_right xs ys c q ltac:(lia) ltac:(lia) ltac:(lia)).
  apply interp_at_ok; try assumption; apply in64_true; lia.
Qed.

Theorem interp_anchor : forall j ph xs ys i, gen_ok ph xs ys ->
  all_in (2 ^ 62 - 1) xs -> all_in (2 ^ 62 - 1) ys ->
  (i < length xs)%nat -> interp_old j ph xs ys (nth i xs 0) = TmOk (nth i ys 0).
Proof.
  intros j ph xs ys i [Hsx [Hsy [Hly [Hlen2 Hph]]]] Hbx Hby Hi.
  destruct (Nat.lt_ge_cases (i + 1) (length xs)) as [Hin|Hlast].
  - assert (Hc : seg_ok xs (nth i xs 0) i).
    { apply seg_ok_inside; [assumption|lia|]. pose proof (Hsx i (S i) ltac:(lia)). lia. }
    rewrite (interp_seg j ph xs ys _ _ Hsx Hlen2 Hph Hc).
    pose proof (Hsx i (S i) ltac:(lia)).
    rewrite interp_at_inside_ok by (assumption || lia).
    rewrite ival_left_anchor by lia. reflexivity.
  - assert (Hi' : i = S (length xs - 2)) by lia.
    assert (Hc : seg_ok xs (nth i xs 0) (length xs - 2)).
    { replace i with (length xs - 1)%nat by lia. apply seg_ok_after; [assumption|lia|lia]. }
    rewrite (interp_seg j ph xs ys _ _ Hsx Hlen2 Hph Hc).
    pose proof (Hsx (length xs - 2)%nat (S (length xs - 2)) ltac:(lia)).
    rewrite interp_at_inside_ok; try assumption; [|rewrite Hi'; lia].
    rewrite Hi'. rewrite ival_right_anchor by lia. reflexivity.
Qed.

Theorem interp_linear_lemma : forall j ph xs ys i q, gen_ok ph xs ys ->
  all_in (2 ^ 62 - 1) xs -> all_in (2 ^ 62 - 1) ys ->
  (i + 1 < length xs)%nat -> nth i xs 0 <= q <= nth (S i) xs 0 ->
  interp_old j ph xs ys q = TmOk (ival xs ys i q).
Proof.
  intros j ph xs ys i q Hg Hbx Hby Hi Hq. pose proof Hg as [Hsx [Hsy [Hly [Hlen2 Hph]]]].
  destruct (Z.eq_dec q (nth (S i) xs 0)) as [->|Hne].
  - rewrite (interp_anchor j ph xs ys (S i) Hg Hbx Hby) by lia. pose proof (Hsx i (S i) ltac:(lia)).
    rewrite ival_right_anchor by lia. reflexivity.
  - assert (Hc : seg_ok xs q i) by (apply seg_ok_inside; [assumption|lia|lia]).
    rewrite (interp_seg j ph xs ys _ _ Hsx Hlen2 Hph Hc). apply interp_at_inside_ok; try assumption; lia.
Qed.

(* ------------------------------------------------------------------ *)

Lemma adj_sorted_lt : forall l, (forall i, (i + 1 < length l)%nat -> nth i l 0 < nth (S i) l 0) -> sorted_lt l.
Proof.
  intros l H i k. revert i. induction k as [|k IH]; intros i Hik; [lia|].
  destruct (Nat.eq_dec i k) as [->|Hne].
  - apply H. lia.
  - pose proof (IH i ltac:(lia)). pose proof (H k ltac:(lia)). lia.
Qed.

(* at least one unit of y per unit of x on every segment (one time tick per sample) *)
Definition slope_ge1 (xs ys : list Z) : Prop :=
  forall i, (i + 1 < length xs)%nat -> nth (S i) xs 0 - nth i xs 0 <= nth (S i) ys 0 - nth i ys 0.

Lemma round_trip_core : forall dk ds dt r m,
  0 < ds -> ds <= dt ->
  2 * r * ds - ds <= 2 * (dk * dt) <= 2 * r * ds + ds ->
  2 * m * dt - dt <= 2 * (r * ds) <= 2 * m * dt + dt ->
  -1 <= m - dk <= 1.
Proof. intros dk ds dt r m Hds Hdt H1 H2. nia. Qed.


Lemma slope_sorted : forall xs ys, sorted_lt xs -> length ys = length xs -> slope_ge1 xs ys -> sorted_lt ys.
Proof.
  intros xs ys Hsx Hly Hslope. apply adj_sorted_lt. intros i Hi. rewrite Hly in Hi.
  pose proof (Hslope i Hi). pose proof (Hsx i (S i) ltac:(lia)). lia.
Qed.

Theorem interp_inverse : forall j j' ph xs ys q t q',
  sorted_lt xs -> (2 <= length xs)%nat -> (length xs < ph)%nat -> length ys = length xs ->
  slope_ge1 xs ys ->
  interp_old j ph xs ys q = TmOk t -> interp_old j' ph ys xs t = TmOk q' -> -1 <= q' - q <= 1.
Proof.
  intros j j' ph xs ys q t q' Hsx Hlen2 Hph Hly Hslope H1 H2.
  pose proof (slope_sorted xs ys Hsx Hly Hslope) as Hsy. pose proof (sorted_lt_le _ Hsy) as Hsy'.
  destruct (interp_has_seg j ph xs ys q Hsx Hlen2 Hph) as [c1 [Hc1 E1]].
  destruct (interp_has_seg j' ph ys xs t Hsy ltac:(lia) ltac:(lia)) as [c2 [Hc2 E2]].
  rewrite E1 in H1. rewrite E2 in H2.
  pose proof (seg_ds_pos xs q c1 Hsx Hc1) as Hds1.
  pose proof (seg_ds_pos ys t c2 Hsy Hc2) as Hds2.
  pose proof (seg_dt_nonneg xs ys q c1 Hsy' Hly Hc1) as Hdt1.
  apply interp_at_inv_pos in H1; [|assumption].
  apply interp_at_inv_pos in H2; [|assumption].
  pose proof Hc1 as [A1 [A2 A3]]. pose proof Hc2 as [B1 [B2 B3]]. rewrite Hly in B1.
  pose proof (Hslope c1 ltac:(lia)) as Hsl1.
  (* t lies in the closed time range of segment c1 (open-ended at the outer segments) *)
  assert (Ta : (0 < c1)%nat -> nth c1 ys 0 <= t).
  { intros Hc. subst t. apply ival_ge_left; try assumption. apply A2. lia. }
  assert (Tb : (c1 + 2 < length xs)%nat -> t <= nth (S c1) ys 0).
  { intros Hc. subst t. apply ival_le_right; try assumption.
    pose proof (A3 (S c1) ltac:(lia) ltac:(lia)). lia. }
  assert (Hcc : c2 = c1 \/ (c2 = S c1 /\ t = nth (S c1) ys 0)).
  { destruct (Nat.lt_trichotomy c2 c1) as [Hlt|[Heq|Hgt]].
    - exfalso. pose proof (Ta ltac:(lia)). pose proof (B3 c1 ltac:(lia) ltac:(lia)). lia.
    - left; assumption.
    - right. pose proof (Tb ltac:(lia)) as Tb'. pose proof (B2 c2 ltac:(lia)) as Hb.
      destruct (Nat.eq_dec c2 (S c1)) as [->|Hne]; [split; [reflexivity|lia]|].
      exfalso. pose proof (Hsy (S c1) c2 ltac:(lia)). lia. }
  destruct Hcc as [->|[-> Ht]].
  - (* same segment: round twice *)
    unfold ival in H1, H2.
    set (dk := q - nth c1 xs 0) in *. set (ds := nth (S c1) xs 0 - nth c1 xs 0) in *.
    set (dt := nth (S c1) ys 0 - nth c1 ys 0) in *.
    set (r := rdiv (dk * dt) ds) in *.
    assert (Htr : t - nth c1 ys 0 = r) by lia.
    rewrite Htr in H2.
    set (m := rdiv (r * ds) dt) in *.
    pose proof (rdiv_half (dk * dt) ds Hds1) as R1. fold r in R1.
    pose proof (rdiv_half (r * ds) dt ltac:(lia)) as R2. fold m in R2.
    pose proof (round_trip_core dk ds dt r m Hds1 Hsl1 R1 R2). lia.
  - (* t is exactly the next anchor time *)
    rewrite Ht in H2. rewrite (ival_left_anchor ys xs (S c1) Hds2) in H2. subst q'.
    unfold ival in H1.
    set (dk := q - nth c1 xs 0) in *. set (ds := nth (S c1) xs 0 - nth c1 xs 0) in *.
    set (dt := nth (S c1) ys 0 - nth c1 ys 0) in *.
    assert (Hr : rdiv (dk * dt) ds = dt) by lia.
    pose proof (rdiv_half (dk * dt) ds Hds1) as R1. rewrite Hr in R1.
    assert (dk = ds) by nia.
    lia.
Qed.

(* ------------------------------------------------------------------ *)

(* ---------- single entry ---------- *)
Lemma time_second_eq : TMAP_TIME_SECOND = 2 ^ 30.
Proof. reflexivity. Qed.

Lemma rate_positive_iff : forall r, rate_positive r = true <-> (0 < r)%Q.
Proof. intros [n d]. unfold rate_positive, Qlt. cbn [Qnum Qden]. lia. Qed.

Lemma single_k1 : forall (r : Q) d, rate_positive r = true ->
  Qtrunc ((inject_Z d / r) * inject_Z TMAP_TIME_SECOND)%Q = Z.quot (d * Zpos (Qden r) * 2 ^ 30) (Qnum r).
Proof.
  intros [n p] d Hr. unfold rate_positive in Hr. cbn [Qnum Qden] in *.
  destruct n as [|n|n]; try discriminate.
  change TMAP_TIME_SECOND with 1073741824.
  unfold Qdiv, Qinv, Qmult, inject_Z, Qtrunc. cbn [Qnum Qden].
  rewrite Pos.mul_1_r. reflexivity.
Qed.

Lemma single_k2 : forall (r : Q) d,
  Qtrunc ((inject_Z d * (1 / inject_Z TMAP_TIME_SECOND)) * r)%Q = Z.quot (d * Qnum r) (2 ^ 30 * Zpos (Qden r)).
Proof.
  intros [n p] d. change TMAP_TIME_SECOND with 1073741824.
  unfold Qdiv, Qinv, Qmult, inject_Z, Qtrunc. cbn [Qnum Qden].
  rewrite Z.mul_1_r. reflexivity.
Qed.

Lemma quot_round_trip : forall d rn A, 0 < rn -> rn <= A ->
  -1 <= Z.quot (Z.quot (d * A) rn * rn) A - d <= 1.
Proof.
  intros d rn A Hrn HA.
  set (P := d * A). set (k1 := Z.quot P rn).
  pose proof (Z.quot_rem' P rn) as E1. fold k1 in E1.
  pose proof (Z.rem_bound_abs P rn ltac:(lia)) as B1.
  set (M := k1 * rn). set (k2 := Z.quot M A).
  pose proof (Z.quot_rem' M A) as E2. fold k2 in E2.
  pose proof (Z.rem_bound_abs M A ltac:(lia)) as B2.
  assert (A * (d - k2) = Z.rem P rn + Z.rem M A) by (unfold P, M in *; lia).
  nia.
Qed.

(* ------------------------------------------------------------------ *)

Lemma ids_length : forall t, length (ids t) = length (tm_entries t).
Proof. intros. apply map_length. Qed.
Lemma times_length : forall t, length (times t) = length (tm_entries t).
Proof. intros. apply map_length. Qed.

Lemma s2t_multi_old : forall j t q, (2 <= length (tm_entries t))%nat ->
  tmap_sample_id_to_timestamp_old j t q = qres_of (interp_old j (tm_phys t) (ids t) (times t) q).
Proof.
  intros j t q H. unfold tmap_sample_id_to_timestamp_old.
  destruct (tm_entries t) as [|[s0 u0] [|e2 l]] eqn:E; cbn [length] in H; try lia. reflexivity.
Qed.

Lemma t2s_multi_old : forall j t q, (2 <= length (tm_entries t))%nat ->
  tmap_timestamp_to_sample_id_old j t q = qres_of (interp_old j (tm_phys t) (times t) (ids t) q).
Proof.
  intros j t q H. unfold tmap_timestamp_to_sample_id_old.
  destruct (tm_entries t) as [|[s0 u0] [|e2 l]] eqn:E; cbn [length] in H; try lia. reflexivity.
Qed.

Lemma s2t_single_old : forall j t q s0 u0, tm_entries t = [(s0, u0)] ->
  tmap_sample_id_to_timestamp_old j t q =
  if rate_positive (tm_rate t) then qres_of (single_id_to_time (tm_rate t) s0 u0 q) else QErr TMAP_ERROR_UNAVAILABLE.
Proof. intros j t q s0 u0 E. unfold tmap_sample_id_to_timestamp_old. rewrite E. reflexivity. Qed.

Lemma t2s_single_old : forall j t q s0 u0, tm_entries t = [(s0, u0)] ->
  tmap_timestamp_to_sample_id_old j t q =
  if rate_positive (tm_rate t) then qres_of (single_time_to_id (tm_rate t) s0 u0 q) else QErr TMAP_ERROR_UNAVAILABLE.
Proof. intros j t q s0 u0 E. unfold tmap_timestamp_to_sample_id_old. rewrite E. reflexivity. Qed.

Lemma qres_of_val : forall r v, qres_of r = QVal v -> r = TmOk v.
Proof. intros [a|f] v H; cbn in H; inversion H; reflexivity. Qed.

Lemma entries_cases : forall t,
  tm_entries t = [] \/ (exists s0 u0, tm_entries t = [(s0, u0)]) \/ (2 <= length (tm_entries t))%nat.
Proof.
  intros t. destruct (tm_entries t) as [|[s0 u0] [|e2 l]]; [left; reflexivity|right; left; eauto|right; right; cbn; lia].
Qed.

Lemma single_id_to_time_inv : forall r s0 u0 q v, rate_positive r = true ->
  single_id_to_time r s0 u0 q = TmOk v -> v = u0 + Z.quot ((q - s0) * Zpos (Qden r) * 2 ^ 30) (Qnum r).
Proof.
  intros r s0 u0 q v Hr. unfold single_id_to_time.
  destruct (negb _); [discriminate|]. destruct (negb _); [discriminate|].
  intros H. inversion H. rewrite single_k1 by assumption. reflexivity.
Qed.

Lemma single_time_to_id_inv : forall r s0 u0 q v,
  single_time_to_id r s0 u0 q = TmOk v -> v = s0 + Z.quot ((q - u0) * Qnum r) (2 ^ 30 * Zpos (Qden r)).
Proof.
  intros r s0 u0 q v. unfold single_time_to_id.
  destruct (negb _); [discriminate|]. destruct (negb _); [discriminate|].
  intros H. inversion H. rewrite single_k2. reflexivity.
Qed.

(* ================= junk independence, no over-read ================= *)
Theorem tmap_old_junk_independent : forall j j' t q, (length (tm_entries t) < tm_phys t)%nat ->
  tmap_sample_id_to_timestamp_old j t q = tmap_sample_id_to_timestamp_old j' t q /\
  tmap_timestamp_to_sample_id_old j t q = tmap_timestamp_to_sample_id_old j' t q.
Proof.
  intros j j' t q Hph.
  destruct (entries_cases t) as [E|[[s0 [u0 E]]|E]].
  - unfold tmap_sample_id_to_timestamp_old, tmap_timestamp_to_sample_id_old. rewrite E. split; reflexivity.
  - rewrite !(s2t_single_old _ t q s0 u0 E), !(t2s_single_old _ t q s0 u0 E). split; reflexivity.
  - rewrite !s2t_multi_old, !t2s_multi_old by assumption. unfold interp_old.
    rewrite (search_junk_independent_lemma j j' (tm_phys t) (ids t) q) by (rewrite ids_length; assumption).
    rewrite (search_junk_independent_lemma j j' (tm_phys t) (times t) q) by (rewrite times_length; assumption).
    split; reflexivity.
Qed.

Lemma interp_not_oob : forall j ph xs ys q, (length xs < ph)%nat -> interp_old j ph xs ys q <> TmFault Tm_OOB_read.
Proof.
  intros j ph xs ys q Hph. unfold interp_old.
  destruct (search_no_oob_lemma j ph xs q Hph) as [c [-> _]].
  unfold interp_at_old. destruct (negb _); [discriminate|]. destruct (_ =? 0); [discriminate|].
  destruct (negb _); discriminate.
Qed.

Theorem tmap_old_no_oob : forall j t q, (length (tm_entries t) < tm_phys t)%nat ->
  tmap_sample_id_to_timestamp_old j t q <> QFault Tm_OOB_read /\
  tmap_timestamp_to_sample_id_old j t q <> QFault Tm_OOB_read.
Proof.
  intros j t q Hph.
  destruct (entries_cases t) as [E|[[s0 [u0 E]]|E]].
  - unfold tmap_sample_id_to_timestamp_old, tmap_timestamp_to_sample_id_old. rewrite E. split; discriminate.
  - rewrite (s2t_single_old _ t q s0 u0 E), (t2s_single_old _ t q s0 u0 E).
    unfold single_id_to_time, single_time_to_id.
    split; destruct (rate_positive _); try discriminate;
      destruct (negb _); try discriminate; destruct (negb _); discriminate.
  - rewrite s2t_multi_old, t2s_multi_old by assumption. split.
    + pose proof (interp_not_oob j (tm_phys t) (ids t) (times t) q ltac:(rewrite ids_length; assumption)) as H.
      destruct (interp_old _ _ _ _ _) as [a|f]; cbn; [discriminate|]. intros Hc. inversion Hc. subst f. apply H. reflexivity.
    + pose proof (interp_not_oob j (tm_phys t) (times t) (ids t) q ltac:(rewrite times_length; assumption)) as H.
      destruct (interp_old _ _ _ _ _) as [a|f]; cbn; [discriminate|]. intros Hc. inversion Hc. subst f. apply H. reflexivity.
Qed.

(* ================= the repaired code returns what the present code returns ================= *)
Lemma interp_at_fixed_eq : forall xs ys c q, nth (S c) xs 0 - nth c xs 0 <> 0 ->
  interp_at xs ys c q = interp_at_old xs ys c q.
Proof.
  intros xs ys c q H. unfold interp_at, interp_at_old.
  destruct (negb _); [reflexivity|].
  replace (nth (S c) xs 0 - nth c xs 0 =? 0) with false by lia. reflexivity.
Qed.

Lemma interp_fixed_eq : forall j ph xs ys q,
  sorted_lt xs -> (2 <= length xs)%nat -> (length xs < ph)%nat ->
  interp xs ys q = interp_old j ph xs ys q.
Proof.
  intros j ph xs ys q Hs Hl Hph. unfold interp, interp_old.
  rewrite (search_fixed_eq j ph xs q Hs Hl Hph).
  destruct (search_seg_ok j ph xs q Hs Hl Hph) as [c [-> [Hc _]]].
  apply interp_at_fixed_eq. pose proof (Hs c (S c) ltac:(lia)). lia.
Qed.

Theorem tmap_eq_old_s2t : forall j t q,
  sorted_lt (ids t) -> (length (tm_entries t) < tm_phys t)%nat ->
  tmap_sample_id_to_timestamp t q = tmap_sample_id_to_timestamp_old j t q.
Proof.
  intros j t q Hs Hph.
  assert (P1 : (length (ids t) < tm_phys t)%nat) by (rewrite ids_length; assumption).
  pose proof (ids_length t) as L1.
  unfold tmap_sample_id_to_timestamp, tmap_sample_id_to_timestamp_old.
  destruct (tm_entries t) as [|[s0 u0] [|e2 l]] eqn:E; try reflexivity.
  cbn [length] in L1.
  rewrite (interp_fixed_eq j (tm_phys t) (ids t) (times t) q Hs ltac:(lia) P1). reflexivity.
Qed.

Theorem tmap_eq_old_t2s : forall j t q,
  sorted_lt (times t) -> (length (tm_entries t) < tm_phys t)%nat ->
  tmap_timestamp_to_sample_id t q = tmap_timestamp_to_sample_id_old j t q.
Proof.
  intros j t q Hs Hph.
  assert (P2 : (length (times t) < tm_phys t)%nat) by (rewrite times_length; assumption).
  pose proof (times_length t) as L2.
  unfold tmap_timestamp_to_sample_id, tmap_timestamp_to_sample_id_old.
  destruct (tm_entries t) as [|[s0 u0] [|e2 l]] eqn:E; try reflexivity.
  cbn [length] in L2.
  rewrite (interp_fixed_eq j (tm_phys t) (times t) (ids t) q Hs ltac:(lia) P2). reflexivity.
Qed.

(* the current code = the old code run on a heap object with spare cells (where the old code was
   defined): the transfer principle for all theorems below *)
Lemma unchecked_phys : forall t, (length (tm_entries (tmap_unchecked t)) < tm_phys (tmap_unchecked t))%nat.
Proof. intros t. unfold tmap_unchecked. cbn [tm_entries tm_phys]. lia. Qed.

Theorem tmap_cur_s2t : forall j t q, sorted_lt (ids t) ->
  tmap_sample_id_to_timestamp t q = tmap_sample_id_to_timestamp_old j (tmap_unchecked t) q.
Proof.
  intros j t q Hs.
  change (tmap_sample_id_to_timestamp t q) with (tmap_sample_id_to_timestamp (tmap_unchecked t) q).
  apply tmap_eq_old_s2t; [exact Hs|apply unchecked_phys].
Qed.

Theorem tmap_cur_t2s : forall j t q, sorted_lt (times t) ->
  tmap_timestamp_to_sample_id t q = tmap_timestamp_to_sample_id_old j (tmap_unchecked t) q.
Proof.
  intros j t q Hs.
  change (tmap_timestamp_to_sample_id t q) with (tmap_timestamp_to_sample_id (tmap_unchecked t) q).
  apply tmap_eq_old_t2s; [exact Hs|apply unchecked_phys].
Qed.

(* the over-read, exact condition *)
Theorem tmap_old_oob_iff : forall j t q, sorted_lt (ids t) -> (2 <= length (tm_entries t))%nat ->
  (tm_phys t <= length (tm_entries t))%nat ->
  (tmap_sample_id_to_timestamp_old j t q = QFault Tm_OOB_read <-> nth (length (tm_entries t) - 1) (ids t) 0 < q).
Proof.
  intros j t q Hs Hl Hph. rewrite s2t_multi_old by assumption.
  pose proof (search_oob_iff_lemma j (tm_phys t) (ids t) q Hs ltac:(rewrite ids_length; assumption) ltac:(rewrite ids_length; assumption)) as H.
  rewrite ids_length in H. rewrite <- H. unfold interp_old.
  destruct (search_old j (tm_phys t) (ids t) q) as [c|f] eqn:E.
  - split; [|discriminate]. unfold interp_at_old.
    destruct (negb _); [discriminate|]. destruct (_ =? 0); [discriminate|]. destruct (negb _); discriminate.
  - cbn. split; intros H'; inversion H'; reflexivity.
Qed.

(* ------------------------------------------------------------------ *)

Lemma In_entries_nth : forall t s u, In (s, u) (tm_entries t) ->
  exists i, (i < length (tm_entries t))%nat /\ nth i (ids t) 0 = s /\ nth i (times t) 0 = u.
Proof.
  intros t s u H. destruct (In_nth _ _ (0, 0) H) as [i [Hi E]].
  exists i. split; [assumption|]. unfold ids, times.
  change 0 with (fst (0, 0)) at 1. rewrite map_nth, E. cbn [fst].
  change 0 with (snd (0, 0)). rewrite map_nth, E. split; reflexivity.
Qed.

Lemma gen_ok_s2t_old : forall t, sorted_lt (ids t) -> sorted_le (times t) ->
  (2 <= length (tm_entries t))%nat -> (length (tm_entries t) < tm_phys t)%nat ->
  gen_ok (tm_phys t) (ids t) (times t).
Proof. intros t H1 H2 H3 H4. unfold gen_ok. rewrite ids_length, times_length. auto. Qed.

Lemma gen_ok_t2s_old : forall t, sorted_lt (times t) -> sorted_lt (ids t) ->
  (2 <= length (tm_entries t))%nat -> (length (tm_entries t) < tm_phys t)%nat ->
  gen_ok (tm_phys t) (times t) (ids t).
Proof. intros t H1 H2 H3 H4. unfold gen_ok. rewrite ids_length, times_length. auto using sorted_lt_le. Qed.

(* ================= anchors ================= *)
Theorem tmap_old_anchor_exact : forall j t s u,
  sorted_lt (ids t) -> sorted_le (times t) -> (length (tm_entries t) < tm_phys t)%nat ->
  all_in (2 ^ 62 - 1) (ids t) -> all_in (2 ^ 62 - 1) (times t) -> (0 < tm_rate t)%Q ->
  In (s, u) (tm_entries t) ->
  tmap_sample_id_to_timestamp_old j t s = QVal u /\
  (sorted_lt (times t) -> tmap_timestamp_to_sample_id_old j t u = QVal s).
Proof.
  intros j t s u Hsx Hsy Hph Hbx Hby Hr Hin.
  destruct (In_entries_nth t s u Hin) as [i [Hi [Es Eu]]].
  apply rate_positive_iff in Hr.
  destruct (entries_cases t) as [E|[[s0 [u0 E]]|E]].
  - rewrite E in Hin. destruct Hin.
  - rewrite (s2t_single_old _ t s s0 u0 E), (t2s_single_old _ t u s0 u0 E), Hr.
    rewrite E in Hin. destruct Hin as [Hin|[]]. inversion Hin. subst s0 u0.
    pose proof (all_in_nth _ _ 0%nat Hbx ltac:(rewrite ids_length, E; cbn; lia)) as B1.
    pose proof (all_in_nth _ _ 0%nat Hby ltac:(rewrite times_length, E; cbn; lia)) as B2.
    unfold ids, times in B1, B2. rewrite E in B1, B2. cbn [map nth fst snd] in B1, B2.
    unfold single_id_to_time, single_time_to_id.
    rewrite !Z.sub_diag, single_k1, single_k2 by assumption.
    rewrite !Z.mul_0_l, !Z.quot_0_l.
    2:{ lia. }
    2:{ unfold rate_positive in Hr. lia. }
    cbn [in64 negb andb]. rewrite !Z.add_0_r.
    replace (in64 0) with true by reflexivity. cbn [andb negb].
    replace (in64 u) with true by (symmetry; apply in64_true; lia).
    replace (in64 s) with true by (symmetry; apply in64_true; lia).
    cbn. split; reflexivity.
  - rewrite s2t_multi_old, t2s_multi_old by assumption. split.
    + rewrite <- Es, <- Eu.
      rewrite (interp_anchor j (tm_phys t) (ids t) (times t) i (gen_ok_s2t_old t Hsx Hsy E Hph) Hbx Hby) by (rewrite ids_length; assumption).
      reflexivity.
    + intros Hst. rewrite <- Es, <- Eu.
      rewrite (interp_anchor j (tm_phys t) (times t) (ids t) i (gen_ok_t2s_old t Hst Hsx E Hph) Hby Hbx) by (rewrite times_length; assumption).
      reflexivity.
Qed.

(* ================= monotone ================= *)
Theorem tmap_old_monotone : forall j t q1 q2 v1 v2,
  sorted_lt (ids t) -> sorted_le (times t) -> (length (tm_entries t) < tm_phys t)%nat ->
  tmap_sample_id_to_timestamp_old j t q1 = QVal v1 -> tmap_sample_id_to_timestamp_old j t q2 = QVal v2 ->
  q1 <= q2 -> v1 <= v2.
Proof.
  intros j t q1 q2 v1 v2 Hsx Hsy Hph H1 H2 Hq.
  destruct (entries_cases t) as [E|[[s0 [u0 E]]|E]].
  - unfold tmap_sample_id_to_timestamp_old in H1. rewrite E in H1. discriminate.
  - rewrite (s2t_single_old _ t q1 s0 u0 E) in H1. rewrite (s2t_single_old _ t q2 s0 u0 E) in H2.
    destruct (rate_positive (tm_rate t)) eqn:Hr; [|discriminate].
    apply qres_of_val in H1. apply qres_of_val in H2.
    apply single_id_to_time_inv in H1; [|assumption]. apply single_id_to_time_inv in H2; [|assumption].
    subst v1 v2. unfold rate_positive in Hr.
    assert (Z.quot ((q1 - s0) * Zpos (Qden (tm_rate t)) * 2 ^ 30) (Qnum (tm_rate t)) <=
            Z.quot ((q2 - s0) * Zpos (Qden (tm_rate t)) * 2 ^ 30) (Qnum (tm_rate t))).
    { apply Z.quot_le_mono; [lia|]. apply Z.mul_le_mono_nonneg_r; [lia|].
      apply Z.mul_le_mono_nonneg_r; lia. }
    lia.
  - rewrite s2t_multi_old in H1 by assumption. rewrite s2t_multi_old in H2 by assumption.
    apply qres_of_val in H1. apply qres_of_val in H2.
    exact (interp_monotone j (tm_phys t) (ids t) (times t) q1 q2 v1 v2 (gen_ok_s2t_old t Hsx Hsy E Hph) H1 H2 Hq).
Qed.

Theorem tmap_old_monotone_rev : forall j t q1 q2 v1 v2,
  sorted_lt (ids t) -> sorted_lt (times t) -> (length (tm_entries t) < tm_phys t)%nat ->
  tmap_timestamp_to_sample_id_old j t q1 = QVal v1 -> tmap_timestamp_to_sample_id_old j t q2 = QVal v2 ->
  q1 <= q2 -> v1 <= v2.
Proof.
  intros j t q1 q2 v1 v2 Hsx Hsy Hph H1 H2 Hq.
  destruct (entries_cases t) as [E|[[s0 [u0 E]]|E]].
  - unfold tmap_timestamp_to_sample_id_old in H1. rewrite E in H1. discriminate.
  - rewrite (t2s_single_old _ t q1 s0 u0 E) in H1. rewrite (t2s_single_old _ t q2 s0 u0 E) in H2.
    destruct (rate_positive (tm_rate t)) eqn:Hr; [|discriminate].
    apply qres_of_val in H1. apply qres_of_val in H2.
    apply single_time_to_id_inv in H1. apply single_time_to_id_inv in H2.
    subst v1 v2. unfold rate_positive in Hr.
    assert (Z.quot ((q1 - u0) * Qnum (tm_rate t)) (2 ^ 30 * Zpos (Qden (tm_rate t))) <=
            Z.quot ((q2 - u0) * Qnum (tm_rate t)) (2 ^ 30 * Zpos (Qden (tm_rate t)))).
    { apply Z.quot_le_mono; [lia|]. apply Z.mul_le_mono_nonneg_r; lia. }
    lia.
  - rewrite t2s_multi_old in H1 by assumption. rewrite t2s_multi_old in H2 by assumption.
    apply qres_of_val in H1. apply qres_of_val in H2.
    exact (interp_monotone j (tm_phys t) (times t) (ids t) q1 q2 v1 v2 (gen_ok_t2s_old t Hsy Hsx E Hph) H1 H2 Hq).
Qed.

(* ------------------------------------------------------------------ *)

(* the rounded value written with the C's own expression, and its distance to the exact one *)
Lemma ival_as_Q : forall xs ys c q, 0 < nth (S c) xs 0%Z - nth c xs 0%Z ->
  ival xs ys c q = nth c ys 0%Z + Qround_haz (inject_Z (q - nth c xs 0%Z) * (inject_Z (nth (S c) ys 0%Z - nth c ys 0%Z) / inject_Z (nth (S c) xs 0%Z - nth c xs 0%Z)))%Q.
Proof. intros xs ys c q H. unfold ival. rewrite <- interp_k_eq by assumption. reflexivity. Qed.

Lemma half_Q : forall y (E : Q), (Qabs (inject_Z (y + Qround_haz E) - (inject_Z y + E)) <= 1 # 2)%Q.
Proof.
  intros y E.
  assert (Heq : (inject_Z (y + Qround_haz E) - (inject_Z y + E) == inject_Z (Qround_haz E) - E)%Q).
  { rewrite inject_Z_plus. ring. }
  rewrite Heq. apply Qround_haz_half.
Qed.

Lemma lt1_Q : forall y (E : Q), (Qabs (inject_Z (y + Qtrunc E) - (inject_Z y + E)) < 1)%Q.
Proof.
  intros y E.
  assert (Heq : (inject_Z (y + Qtrunc E) - (inject_Z y + E) == inject_Z (Qtrunc E) - E)%Q).
  { rewrite inject_Z_plus. ring. }
  rewrite Heq. apply Qtrunc_lt1.
Qed.

(* ================= linear interpolation between neighbours ================= *)
Theorem tmap_old_interp_linear : forall j t i q,
  sorted_lt (ids t) -> sorted_le (times t) -> (length (tm_entries t) < tm_phys t)%nat ->
  all_in (2 ^ 62 - 1) (ids t) -> all_in (2 ^ 62 - 1) (times t) ->
  (i + 1 < length (tm_entries t))%nat -> nth i (ids t) 0%Z <= q <= nth (S i) (ids t) 0%Z ->
  exists v, tmap_sample_id_to_timestamp_old j t q = QVal v /\
    v = nth i (times t) 0%Z + Qround_haz (inject_Z (q - nth i (ids t) 0%Z) * (inject_Z (nth (S i) (times t) 0%Z - nth i (times t) 0%Z) / inject_Z (nth (S i) (ids t) 0%Z - nth i (ids t) 0%Z)))%Q /\
    (Qabs (inject_Z v - (inject_Z (nth i (times t) 0%Z) + inject_Z (q - nth i (ids t) 0%Z) * (inject_Z (nth (S i) (times t) 0%Z - nth i (times t) 0%Z) / inject_Z (nth (S i) (ids t) 0%Z - nth i (ids t) 0%Z)))) <= 1 # 2)%Q /\
    nth i (times t) 0%Z <= v <= nth (S i) (times t) 0%Z.
Proof.
  intros j t i q Hsx Hsy Hph Hbx Hby Hi Hq.
  assert (E : (2 <= length (tm_entries t))%nat) by lia.
  pose proof (Hsx i (S i) ltac:(rewrite ids_length; lia)) as Hds.
  pose proof (Hsy i (S i) ltac:(rewrite times_length; lia)) as Hdt.
  exists (ival (ids t) (times t) i q). rewrite s2t_multi_old by assumption.
  rewrite (interp_linear_lemma j (tm_phys t) (ids t) (times t) i q (gen_ok_s2t_old t Hsx Hsy E Hph) Hbx Hby) by (rewrite ?ids_length; assumption).
  split; [reflexivity|]. rewrite ival_as_Q by lia. split; [reflexivity|]. split; [apply half_Q|].
  rewrite <- ival_as_Q by lia. split.
  - apply ival_ge_left; lia.
  - apply ival_le_right; lia.
Qed.

(* ================= every query: the segment and the distance to the exact value ================= *)
Theorem tmap_old_within_one_tick : forall j t q v,
  sorted_lt (ids t) -> (length (tm_entries t) < tm_phys t)%nat ->
  tmap_sample_id_to_timestamp_old j t q = QVal v ->
  (exists s0 u0, tm_entries t = [(s0, u0)] /\ (0 < tm_rate t)%Q /\
     v = u0 + Qtrunc ((inject_Z (q - s0) / tm_rate t) * inject_Z (2 ^ 30))%Q /\
     (Qabs (inject_Z v - (inject_Z u0 + (inject_Z (q - s0) / tm_rate t) * inject_Z (2 ^ 30))) < 1)%Q) \/
  (exists c, seg_ok (ids t) q c /\
     v = nth c (times t) 0%Z + Qround_haz (inject_Z (q - nth c (ids t) 0%Z) * (inject_Z (nth (S c) (times t) 0%Z - nth c (times t) 0%Z) / inject_Z (nth (S c) (ids t) 0%Z - nth c (ids t) 0%Z)))%Q /\
     (Qabs (inject_Z v - (inject_Z (nth c (times t) 0%Z) + inject_Z (q - nth c (ids t) 0%Z) * (inject_Z (nth (S c) (times t) 0%Z - nth c (times t) 0%Z) / inject_Z (nth (S c) (ids t) 0%Z - nth c (ids t) 0%Z)))) <= 1 # 2)%Q).
Proof.
  intros j t q v Hsx Hph H.
  destruct (entries_cases t) as [E|[[s0 [u0 E]]|E]].
  - unfold tmap_sample_id_to_timestamp_old in H. rewrite E in H. discriminate.
  - left. exists s0, u0. split; [assumption|].
    rewrite (s2t_single_old _ t q s0 u0 E) in H.
    destruct (rate_positive (tm_rate t)) eqn:Hr; [|discriminate].
    split; [apply rate_positive_iff; assumption|].
    apply qres_of_val in H. unfold single_id_to_time in H.
    destruct (negb _); [discriminate|]. destruct (negb _); [discriminate|]. inversion H.
    change TMAP_TIME_SECOND with (2 ^ 30). split; [reflexivity|apply lt1_Q].
  - right. rewrite s2t_multi_old in H by assumption. apply qres_of_val in H.
    destruct (interp_has_seg j (tm_phys t) (ids t) (times t) q Hsx ltac:(rewrite ids_length; assumption) ltac:(rewrite ids_length; assumption)) as [c [Hc Ec]].
    exists c. split; [assumption|]. rewrite Ec in H.
    apply interp_at_inv in H. destruct H as [_ ->]. unfold interp_k.
    split; [reflexivity|apply half_Q].
Qed.

(* ================= extrapolation uses the nearest (first / last) segment ================= *)
Theorem tmap_old_extrap_nearest_segment : forall j t q v,
  sorted_lt (ids t) -> (length (tm_entries t) < tm_phys t)%nat -> (2 <= length (tm_entries t))%nat ->
  tmap_sample_id_to_timestamp_old j t q = QVal v ->
  (q < nth 0 (ids t) 0%Z ->
     v = nth 0 (times t) 0%Z + Qround_haz (inject_Z (q - nth 0 (ids t) 0%Z) * (inject_Z (nth 1 (times t) 0%Z - nth 0 (times t) 0%Z) / inject_Z (nth 1 (ids t) 0%Z - nth 0 (ids t) 0%Z)))%Q) /\
  (nth (length (tm_entries t) - 1) (ids t) 0 <= q ->
     let c := (length (tm_entries t) - 2)%nat in
     v = nth c (times t) 0%Z + Qround_haz (inject_Z (q - nth c (ids t) 0%Z) * (inject_Z (nth (S c) (times t) 0%Z - nth c (times t) 0%Z) / inject_Z (nth (S c) (ids t) 0%Z - nth c (ids t) 0%Z)))%Q).
Proof.
  intros j t q v Hsx Hph E H.
  rewrite s2t_multi_old in H by assumption. apply qres_of_val in H.
  assert (L : (2 <= length (ids t))%nat) by (rewrite ids_length; assumption).
  assert (P : (length (ids t) < tm_phys t)%nat) by (rewrite ids_length; assumption).
  split.
  - intros Hq. rewrite (interp_seg j (tm_phys t) (ids t) (times t) q 0%nat Hsx L P (seg_ok_before _ _ Hsx L Hq)) in H.
    apply interp_at_inv in H. destruct H as [_ ->]. reflexivity.
  - intros Hq c. subst c. rewrite <- ids_length in *.
    rewrite (interp_seg j (tm_phys t) (ids t) (times t) q _ Hsx L P (seg_ok_after _ _ Hsx L Hq)) in H.
    apply interp_at_inv in H. destruct H as [_ ->]. reflexivity.
Qed.

(* ================= inverse ================= *)
Theorem tmap_old_inverse_within_one_sample : forall j j' t q tm q',
  sorted_lt (ids t) -> (length (tm_entries t) < tm_phys t)%nat ->
  (forall i, (i + 1 < length (tm_entries t))%nat ->
     nth (S i) (ids t) 0%Z - nth i (ids t) 0%Z <= nth (S i) (times t) 0%Z - nth i (times t) 0%Z) ->
  (tm_rate t <= inject_Z (2 ^ 30))%Q ->
  tmap_sample_id_to_timestamp_old j t q = QVal tm ->
  tmap_timestamp_to_sample_id_old j' t tm = QVal q' ->
  -1 <= q' - q <= 1.
Proof.
  intros j j' t q tm q' Hsx Hph Hslope Hrate H1 H2.
  destruct (entries_cases t) as [E|[[s0 [u0 E]]|E]].
  - unfold tmap_sample_id_to_timestamp_old in H1. rewrite E in H1. discriminate.
  - rewrite (s2t_single_old _ t q s0 u0 E) in H1. rewrite (t2s_single_old _ t tm s0 u0 E) in H2.
    destruct (rate_positive (tm_rate t)) eqn:Hr; [|discriminate].
    apply qres_of_val in H1. apply qres_of_val in H2.
    apply single_id_to_time_inv in H1; [|assumption]. apply single_time_to_id_inv in H2.
    subst tm q'.
    replace (u0 + Z.quot ((q - s0) * Z.pos (Qden (tm_rate t)) * 2 ^ 30) (Qnum (tm_rate t)) - u0)
      with (Z.quot ((q - s0) * Z.pos (Qden (tm_rate t)) * 2 ^ 30) (Qnum (tm_rate t))) by ring.
    unfold rate_positive in Hr. unfold Qle, inject_Z in Hrate. cbn [Qnum Qden] in Hrate.
    pose proof (quot_round_trip (q - s0) (Qnum (tm_rate t)) (2 ^ 30 * Z.pos (Qden (tm_rate t))) ltac:(lia) ltac:(lia)) as R.
    replace ((q - s0) * (2 ^ 30 * Z.pos (Qden (tm_rate t)))) with ((q - s0) * Z.pos (Qden (tm_rate t)) * 2 ^ 30) in R by ring.
    lia.
  - rewrite s2t_multi_old in H1 by assumption. rewrite t2s_multi_old in H2 by assumption.
    apply qres_of_val in H1. apply qres_of_val in H2.
    apply (interp_inverse j j' (tm_phys t) (ids t) (times t) q tm q' Hsx); try assumption;
      rewrite ?ids_length, ?times_length; try assumption; try reflexivity.
    intros i Hi. rewrite ids_length in Hi. apply Hslope. assumption.
Qed.

(* ------------------------------------------------------------------ *)

(* ================= jls_tmap_add: reachable maps ================= *)
Fixpoint incr (l : list Z) : Prop :=
  match l with
  | a :: (b :: _) as r => a < b /\ incr r
  | _ => True
  end.

Lemma incr_sorted_lt : forall l, incr l -> sorted_lt l.
Proof.
  intros l H. apply adj_sorted_lt. revert H. induction l as [|a [|b r] IH]; intros H i Hi; cbn [length] in Hi; try lia.
  destruct H as [Hab Hr]. destruct i as [|i]; [exact Hab|].
  change (nth i (b :: r) 0 < nth (S i) (b :: r) 0). apply IH; [exact Hr|cbn [length]; lia].
Qed.

Lemma incr_app_last : forall l s, incr l -> (l = [] \/ last l 0 < s) -> incr (l ++ [s]).
Proof.
  induction l as [|a [|b r] IH]; intros s Hi Hl.
  - exact I.
  - cbn. destruct Hl as [Hl|Hl]; [discriminate|]. cbn in Hl. split; [lia|exact I].
  - destruct Hi as [Hab Hr]. change ((a :: b :: r) ++ [s]) with (a :: ((b :: r) ++ [s])).
    assert (H2 : incr ((b :: r) ++ [s])).
    { apply IH; [exact Hr|]. right. destruct Hl as [Hl|Hl]; [discriminate|]. exact Hl. }
    change ((b :: r) ++ [s]) with (b :: (r ++ [s])) in *. split; assumption.
Qed.

Lemma add_last_ids : forall es s u es' rc, add_last es s u = (es', rc) ->
  map fst es' = map fst es \/
  (map fst es' = map fst es ++ [s] /\ (map fst es = [] \/ last (map fst es) 0 < s)).
Proof.
  induction es as [|e r IH]; intros s u es' rc H.
  - cbn in H. inversion H. subst. right. cbn. split; [reflexivity|left; reflexivity].
  - cbn [add_last] in H. destruct r as [|e2 r2].
    + destruct (s =? fst e) eqn:E1.
      * inversion H. subst. left. cbn. f_equal. lia.
      * destruct (s <=? fst e) eqn:E2.
        -- inversion H. subst. left. reflexivity.
        -- inversion H. subst. right. cbn. split; [reflexivity|right; lia].
    + destruct (add_last (e2 :: r2) s u) as [r' rc'] eqn:Er. inversion H. subst es' rc. clear H.
      destruct (IH s u r' rc' Er) as [I1|[I1 I2]].
      * left. cbn [map] in *. rewrite I1. reflexivity.
      * right. cbn [map] in *. rewrite I1. split; [reflexivity|].
        right. destruct I2 as [I2|I2]; [discriminate|]. exact I2.
Qed.

Lemma add_last_spec : forall es s u es' rc, add_last es s u = (es', rc) ->
  incr (map fst es) ->
  incr (map fst es') /\ (length es <= length es' <= S (length es))%nat.
Proof.
  intros es s u es' rc H Hi.
  destruct (add_last_ids es s u es' rc H) as [I1|[I1 I2]].
  - rewrite I1. split; [assumption|]. rewrite <- (map_length fst es'), I1, map_length. lia.
  - rewrite I1. split; [apply incr_app_last; assumption|].
    rewrite <- (map_length fst es'), I1, app_length, map_length. cbn. lia.
Qed.

Definition A0 : nat := N.to_nat TMAP_ENTRIES_ALLOC_INIT.

Definition reach_inv (t : tmap) : Prop :=
  incr (ids t) /\ (length (tm_entries t) <= tm_alloc t)%nat /\
  ((tm_alloc t = A0 /\ tm_phys t = A0) \/ (tm_phys t = 2 * tm_alloc t /\ 2 * A0 <= tm_alloc t)%nat).

Lemma reach_inv_alloc : forall r, reach_inv (tmap_alloc r).
Proof.
  intros r. unfold reach_inv, tmap_alloc, ids, A0. cbn [tm_entries tm_alloc tm_phys map length incr].
  split; [exact I|]. split; [lia|]. left; split; reflexivity.
Qed.

Lemma A0_pos : (0 < A0)%nat.
Proof. unfold A0. vm_compute. lia. Qed.

Lemma reach_inv_add : forall t s u, reach_inv t -> reach_inv (fst (tmap_add t s u)).
Proof.
  intros t s u [Hi [Hl Hp]]. unfold tmap_add.
  pose proof A0_pos as HA.
  assert (Hg : incr (ids (tmap_grow t)) /\ (length (tm_entries (tmap_grow t)) < tm_alloc (tmap_grow t))%nat /\
          tm_entries (tmap_grow t) = tm_entries t /\
          ((tm_alloc (tmap_grow t) = A0 /\ tm_phys (tmap_grow t) = A0) \/
           (tm_phys (tmap_grow t) = 2 * tm_alloc (tmap_grow t) /\ 2 * A0 <= tm_alloc (tmap_grow t))%nat)).
  { unfold tmap_grow. destruct (tm_alloc t <=? length (tm_entries t))%nat eqn:E.
    - unfold ids in *. cbn [tm_entries tm_alloc tm_phys].
      change (N.to_nat (SIZEOF_utc_summary_entry / TMAP_CELL_BYTES)) with 2%nat.
      split; [assumption|]. split; [lia|]. split; [reflexivity|]. right. lia.
    - split; [assumption|]. split; [lia|]. split; [reflexivity|]. assumption. }
  destruct Hg as [G1 [G2 [G3 G4]]].
  destruct (add_last (tm_entries (tmap_grow t)) s u) as [es rc] eqn:Ea. cbn [fst].
  destruct (add_last_spec _ _ _ _ _ Ea G1) as [S1 S2].
  unfold reach_inv, ids. cbn [tm_entries tm_alloc tm_phys]. split; [assumption|]. split; [lia|]. assumption.
Qed.

Lemma reach_inv_add_all : forall l t, reach_inv t -> reach_inv (tmap_add_all t l).
Proof.
  induction l as [|e l IH]; intros t H; [exact H|].
  unfold tmap_add_all. cbn [fold_left]. apply IH. apply reach_inv_add. exact H.
Qed.

(* every map built by jls_tmap_alloc + any sequence of jls_tmap_add: ids strictly increasing,
   and x[length] is outside the heap object exactly when the map holds ENTRIES_ALLOC_INIT tm_entries *)
Theorem tmap_reachable : forall r l, let t := tmap_add_all (tmap_alloc r) l in
  sorted_lt (ids t) /\ (length (tm_entries t) <= tm_phys t)%nat /\
  (length (tm_entries t) = tm_phys t <-> length (tm_entries t) = N.to_nat TMAP_ENTRIES_ALLOC_INIT /\ tm_alloc t = N.to_nat TMAP_ENTRIES_ALLOC_INIT).
Proof.
  intros r l t. destruct (reach_inv_add_all l _ (reach_inv_alloc r)) as [Hi [Hl Hp]]. fold t in Hi, Hl, Hp.
  pose proof A0_pos. fold A0. split; [apply incr_sorted_lt; assumption|]. split; [lia|]. lia.
Qed.

(* ------------------------------------------------------------------ *)

Lemma round_close : forall a b : Q, (Qabs (a - b) < 1)%Q -> -1 <= Qround_haz a - Qround_haz b <= 1.
Proof.
  intros a b H.
  pose proof (Qround_haz_half a) as Ha. pose proof (Qround_haz_half b) as Hb.
  apply Qabs_Qlt_condition in H. apply Qabs_Qle_condition in Ha. apply Qabs_Qle_condition in Hb.
  assert (Hq : (- (2) < inject_Z (Qround_haz a - Qround_haz b) < 2)%Q).
  { unfold Z.sub. rewrite inject_Z_plus, inject_Z_opp. split; lra. }
  destruct Hq as [H1 H2].
  change (- (2))%Q with (inject_Z (-2)) in H1. change 2%Q with (inject_Z 2) in H2.
  rewrite <- Zlt_Qlt in H1, H2. lia.
Qed.

Section Binary64Gap.
(* fl = rounding of a real to binary64; u = 2^-53 unit roundoff (round to nearest, no
   underflow: a quotient of two non-zero int64 values is >= 2^-63 in magnitude) *)
Variable fl : Q -> Q.
Hypothesis fl_err : forall x : Q, (Qabs (fl x - x) <= Qabs x * (1 # 2 ^ 53))%Q.

Theorem c_binary64_within_one_partial : forall dk ds dt : Z,
  let exact := (inject_Z dk * (inject_Z dt / inject_Z ds))%Q in
  let computed := fl (inject_Z dk * fl (inject_Z dt / inject_Z ds))%Q in
  (Qabs exact < inject_Z (2 ^ 51))%Q ->
  (Qabs (computed - exact) < 1)%Q /\ -1 <= Qround_haz computed - Qround_haz exact <= 1.
Proof.
  intros dk ds dt exact computed Hv.
  assert (Hc : (Qabs (computed - exact) < 1)%Q).
  { subst exact computed.
    set (s := (inject_Z dt / inject_Z ds)%Q) in *. set (k := inject_Z dk) in *.
    pose proof (fl_err s) as E1. pose proof (fl_err (k * fl s)%Q) as E2.
    set (p := (k * fl s)%Q) in *.
    assert (Hd : (fl p - k * s == (fl p - p) + k * (fl s - s))%Q) by (unfold p; ring).
    rewrite Hd.
    assert (Hks : (Qabs (k * (fl s - s)) <= Qabs (k * s) * (1 # 2 ^ 53))%Q).
    { rewrite !Qabs_Qmult. rewrite <- Qmult_assoc. rewrite (Qmult_comm (Qabs k) (Qabs (fl s - s))), (Qmult_comm (Qabs k)).
      apply Qmult_le_compat_r; [exact E1|apply Qabs_nonneg]. }
    assert (Hp : (Qabs p <= Qabs (k * s) + Qabs (k * s) * (1 # 2 ^ 53))%Q).
    { assert (Hpp : (p == k * s + k * (fl s - s))%Q) by (unfold p; ring).
      rewrite Hpp at 1. eapply Qle_trans; [apply Qabs_triangle|]. apply Qplus_le_r. exact Hks. }
    eapply Qle_lt_trans; [apply Qabs_triangle|].
    set (V := Qabs (k * s)) in *. set (P := Qabs p) in *.
    set (a := Qabs (fl p - p)) in *. set (b := Qabs (k * (fl s - s))) in *.
    assert (0 <= V)%Q by apply Qabs_nonneg.
    change (inject_Z (2 ^ 51)) with (2251799813685248 # 1)%Q in Hv.
    change (1 # 2 ^ 53)%Q with (1 # 9007199254740992)%Q in *.
    assert (a <= (V + V * (1 # 9007199254740992)) * (1 # 9007199254740992))%Q.
    { eapply Qle_trans; [exact E2|]. apply Qmult_le_compat_r; [exact Hp|discriminate]. }
    lra. }
  split; [exact Hc|apply round_close; exact Hc].
Qed.
End Binary64Gap.

Example c_binary64_hypothesis_satisfiable : forall x : Q, (Qabs ((fun y => y) x - x) <= Qabs x * (1 # 2 ^ 53))%Q.
Proof.
  intros x. assert (H : (x - x == 0)%Q) by ring. rewrite H. cbn [Qabs].
  apply Qmult_le_0_compat; [apply Qabs_nonneg|discriminate].
Qed.

(* ------------------------------------------------------------------ *)

(* boolean checkers for concrete maps *)
Fixpoint incrb (l : list Z) : bool :=
  match l with
  | a :: (b :: _) as r => (a <? b) && incrb r
  | _ => true
  end.
Lemma incrb_incr : forall l, incrb l = true -> incr l.
Proof.
  induction l as [|a [|b r] IH]; intros H; try exact I.
  cbn [incrb] in H. apply andb_true_iff in H. destruct H as [H1 H2]. split; [lia|apply IH; exact H2].
Qed.
Lemma all_in_b : forall B l, forallb (fun v => (- B <=? v) && (v <=? B)) l = true -> all_in B l.
Proof.
  intros B l H. unfold all_in. apply Forall_forall. intros v Hv.
  rewrite forallb_forall in H. specialize (H v Hv). lia.
Qed.

(* ================= concrete maps: hypotheses are satisfiable, defects are real ================= *)
(* 1 kHz signal, three anchors with irregular spacing and a drifting clock, UTC around 2^58 *)
Definition ex_map : tmap :=
  tmap_add_all (tmap_alloc (1000 # 1)) [(0, 2 ^ 58); (1000, 2 ^ 58 + 2 ^ 30); (2500, 2 ^ 58 + 5 * 2 ^ 29 + 7)].
Definition ex_single : tmap := tmap_add_all (tmap_alloc (1000 # 1)) [(5000, 2 ^ 58)].

Lemma ex_map_ok :
  sorted_lt (ids ex_map) /\ sorted_lt (times ex_map) /\ sorted_le (times ex_map) /\
  (length (tm_entries ex_map) < tm_phys ex_map)%nat /\
  all_in (2 ^ 62 - 1) (ids ex_map) /\ all_in (2 ^ 62 - 1) (times ex_map) /\ (0 < tm_rate ex_map)%Q /\
  (tm_rate ex_map <= inject_Z (2 ^ 30))%Q /\
  (forall i, (i + 1 < length (tm_entries ex_map))%nat ->
     nth (S i) (ids ex_map) 0 - nth i (ids ex_map) 0 <= nth (S i) (times ex_map) 0 - nth i (times ex_map) 0).
Proof.
  assert (S1 : sorted_lt (ids ex_map)) by (apply incr_sorted_lt, incrb_incr; vm_compute; reflexivity).
  assert (S2 : sorted_lt (times ex_map)) by (apply incr_sorted_lt, incrb_incr; vm_compute; reflexivity).
  split; [exact S1|]. split; [exact S2|]. split; [apply sorted_lt_le; exact S2|].
  split; [apply Nat.ltb_lt; vm_compute; reflexivity|].
  split; [apply all_in_b; vm_compute; reflexivity|].
  split; [apply all_in_b; vm_compute; reflexivity|].
  split; [reflexivity|]. split; [vm_compute; discriminate|].
  intros i Hi. change (length (tm_entries ex_map)) with 3%nat in Hi.
  destruct i as [|[|i]]; [apply Z.leb_le; vm_compute; reflexivity|apply Z.leb_le; vm_compute; reflexivity|lia].
Qed.

Lemma ex_map_values_old :
  tmap_sample_id_to_timestamp_old 0 ex_map 500 = QVal (2 ^ 58 + 2 ^ 29) /\
  tmap_sample_id_to_timestamp_old 12345 ex_map 1000 = QVal (2 ^ 58 + 2 ^ 30) /\
  tmap_sample_id_to_timestamp_old 0 ex_map 3000 = QVal (2 ^ 58 + 5 * 2 ^ 29 + 7 + 536870914) /\
  tmap_timestamp_to_sample_id_old 0 ex_map (2 ^ 58 + 2 ^ 29) = QVal 500 /\
  tmap_sample_id_to_timestamp_old 0 ex_single 6000 = QVal (2 ^ 58 + 2 ^ 30).
Proof. vm_compute. repeat split; reflexivity. Qed.

(* ------------------------------------------------------------------ *)

(* exactly ENTRIES_ALLOC_INIT anchors: 1 kHz, one anchor per second *)
Definition full_adds : list (Z * Z) :=
  map (fun i => (Z.of_nat i * 1000, 2 ^ 58 + Z.of_nat i * 2 ^ 30)) (seq 0 (N.to_nat TMAP_ENTRIES_ALLOC_INIT)).
Definition full_map : tmap := tmap_add_all (tmap_alloc (1000 # 1)) full_adds.

Lemma full_map_facts :
  length (tm_entries full_map) = N.to_nat TMAP_ENTRIES_ALLOC_INIT /\ tm_phys full_map = N.to_nat TMAP_ENTRIES_ALLOC_INIT /\
  incrb (ids full_map) = true /\ incrb (times full_map) = true.
Proof. vm_compute. repeat split; reflexivity. Qed.

Theorem tmap_old_oob_refuted :
  exists (t : tmap) (q : Z),
    t = tmap_add_all (tmap_alloc (1000 # 1)) full_adds /\
    sorted_lt (ids t) /\ sorted_lt (times t) /\
    length (tm_entries t) = N.to_nat TMAP_ENTRIES_ALLOC_INIT /\
    forall junk, tmap_sample_id_to_timestamp_old junk t q = QFault Tm_OOB_read /\
                 tmap_timestamp_to_sample_id_old junk t (2 ^ 58 + 1000 * 2 ^ 30) = QFault Tm_OOB_read.
Proof.
  exists full_map, 999001. split; [reflexivity|].
  destruct full_map_facts as [F1 [F2 [F3 F4]]].
  assert (S1 : sorted_lt (ids full_map)) by (apply incr_sorted_lt, incrb_incr; exact F3).
  assert (S2 : sorted_lt (times full_map)) by (apply incr_sorted_lt, incrb_incr; exact F4).
  split; [exact S1|]. split; [exact S2|]. split; [exact F1|].
  intros junk. split.
  - apply tmap_old_oob_iff; [exact S1|rewrite F1; vm_compute; lia|rewrite F1, F2; lia|].
    apply Z.ltb_lt. vm_compute. reflexivity.
  - rewrite t2s_multi_old by (rewrite F1; vm_compute; lia).
    assert (H : search_old junk (tm_phys full_map) (times full_map) (2 ^ 58 + 1000 * 2 ^ 30) = TmFault Tm_OOB_read).
    { apply search_oob_iff_lemma; [exact S2|rewrite times_length, F1; vm_compute; lia|rewrite times_length, F1, F2; lia|].
      apply Z.ltb_lt. vm_compute. reflexivity. }
    unfold interp_old. rewrite H. reflexivity.
Qed.

(* two anchors with the same time (allowed: times non-decreasing): time -> id divides by zero *)
Definition eqt_map : tmap :=
  tmap_add_all (tmap_alloc (1000 # 1)) [(0, 2 ^ 40); (1000, 2 ^ 40)].

Theorem tmap_old_equal_times_refuted :
  exists (t : tmap) (s u : Z),
    sorted_lt (ids t) /\ sorted_le (times t) /\ (length (tm_entries t) < tm_phys t)%nat /\
    In (s, u) (tm_entries t) /\
    tmap_sample_id_to_timestamp_old 0 t s = QVal u /\
    tmap_timestamp_to_sample_id_old 0 t u = QFault Tm_FP_invalid.
Proof.
  exists eqt_map, 0, (2 ^ 40).
  split; [apply incr_sorted_lt, incrb_incr; vm_compute; reflexivity|].
  split.
  { intros i k Hik. change (length (times eqt_map)) with 2%nat in Hik.
    destruct i as [|[|i]]; destruct k as [|[|k]]; try lia; apply Z.leb_le; vm_compute; reflexivity. }
  split; [apply Nat.ltb_lt; vm_compute; reflexivity|].
  split; [left; reflexivity|].
  vm_compute. split; reflexivity.
Qed.

(* ====================================================================================== *)
(* ================= CURRENT CODE (high = length - 1; ds = 0 returns y[low]) ============= *)
(* ====================================================================================== *)
Lemma search_loop_total : forall fuel j ph xs x0 low high,
  (low <= high < length xs)%nat -> (high - low < fuel)%nat ->
  exists r, search_loop fuel j ph xs x0 low high = TmOk r /\ (low <= r <= high)%nat.
Proof.
  induction fuel as [|f IH]; intros j ph xs x0 low high Hlh Hf; [lia|].
  cbn [search_loop].
  destruct (low <? high)%nat eqn:Elt; [|exists low; split; [reflexivity|lia]].
  pose proof (mid_bounds low high ltac:(lia)) as Hm.
  set (mid := ((low + high + 1) / 2)%nat) in *.
  rewrite (rd_in j ph xs mid ltac:(lia)).
  destruct (x0 =? nth mid xs 0) eqn:Eeq; [exists mid; split; [reflexivity|lia]|].
  destruct (x0 <? nth mid xs 0) eqn:Elt2.
  - destruct (IH j ph xs x0 low (mid - 1)%nat ltac:(lia) ltac:(lia)) as [r [Hr Hb]].
    exists r; split; [exact Hr|lia].
  - destruct (IH j ph xs x0 mid high ltac:(lia) ltac:(lia)) as [r [Hr Hb]].
    exists r; split; [exact Hr|lia].
Qed.

(* the bisection of the current code never reads at or beyond length and always terminates:
   no sortedness, no capacity hypothesis *)
Theorem search_total : forall xs x0, (1 <= length xs)%nat ->
  exists c, search xs x0 = TmOk c /\ (c < length xs)%nat /\ (2 <= length xs -> c + 2 <= length xs)%nat.
Proof.
  intros xs x0 Hl. unfold search.
  destruct (search_loop_total (length xs) 0 0%nat xs x0 0%nat (length xs - 1)%nat ltac:(lia) ltac:(lia)) as [r [-> Hb]].
  eexists; split; [reflexivity|]. unfold clamp.
  destruct (length xs - 1 <=? r)%nat eqn:E; lia.
Qed.

Lemma interp_fault : forall xs ys q f, (1 <= length xs)%nat -> interp xs ys q = TmFault f -> f = Tm_Int_overflow.
Proof.
  intros xs ys q f Hl. unfold interp.
  destruct (search_total xs q Hl) as [c [-> _]]. unfold interp_at.
  destruct (negb _); [intros H; inversion H; reflexivity|].
  destruct (_ =? 0); [discriminate|].
  destruct (negb _); [intros H; inversion H; reflexivity|discriminate].
Qed.

Lemma single_fault : forall r s0 u0 q f,
  (single_id_to_time r s0 u0 q = TmFault f -> f = Tm_Int_overflow) /\
  (single_time_to_id r s0 u0 q = TmFault f -> f = Tm_Int_overflow).
Proof.
  intros r s0 u0 q f. unfold single_id_to_time, single_time_to_id. split.
  - destruct (negb _); [intros H; inversion H; reflexivity|].
    destruct (negb _); [intros H; inversion H; reflexivity|discriminate].
  - destruct (negb _); [intros H; inversion H; reflexivity|].
    destruct (negb _); [intros H; inversion H; reflexivity|discriminate].
Qed.

(* every map, every query, sorted or not, equal times or not: the only tm_fault left is int64
   overflow (undefined behaviour of the C for astronomically distant queries) *)
Theorem tmap_total : forall t q f,
  tmap_sample_id_to_timestamp t q = QFault f \/ tmap_timestamp_to_sample_id t q = QFault f -> f = Tm_Int_overflow.
Proof.
  intros t q f H.
  pose proof (ids_length t) as L1. pose proof (times_length t) as L2.
  unfold tmap_sample_id_to_timestamp, tmap_timestamp_to_sample_id in H.
  destruct (tm_entries t) as [|[s0 u0] [|e2 l]] eqn:E.
  - destruct H; discriminate.
  - destruct (rate_positive (tm_rate t)); [|destruct H; discriminate].
    destruct (single_fault (tm_rate t) s0 u0 q f) as [A B].
    destruct H as [H|H].
    + destruct (single_id_to_time _ _ _ _) as [v|f'] eqn:E1; cbn in H; [discriminate|]. inversion H. subst f'. apply A. reflexivity.
    + destruct (single_time_to_id _ _ _ _) as [v|f'] eqn:E1; cbn in H; [discriminate|]. inversion H. subst f'. apply B. reflexivity.
  - cbn [length] in L1, L2. destruct H as [H|H].
    + destruct (interp (ids t) (times t) q) as [v|f'] eqn:E1; cbn in H; [discriminate|]. inversion H. subst f'.
      apply (interp_fault (ids t) (times t) q f ltac:(lia) E1).
    + destruct (interp (times t) (ids t) q) as [v|f'] eqn:E1; cbn in H; [discriminate|]. inversion H. subst f'.
      apply (interp_fault (times t) (ids t) q f ltac:(lia) E1).
Qed.

(* ---- the property theorems, transferred from the old-code proofs by tmap_cur_s2t / tmap_cur_t2s ---- *)
Theorem tmap_anchor_exact : forall t s u,
  sorted_lt (ids t) -> sorted_le (times t) ->
  all_in (2 ^ 62 - 1) (ids t) -> all_in (2 ^ 62 - 1) (times t) -> (0 < tm_rate t)%Q ->
  In (s, u) (tm_entries t) ->
  tmap_sample_id_to_timestamp t s = QVal u /\
  (sorted_lt (times t) -> tmap_timestamp_to_sample_id t u = QVal s).
Proof.
  intros t s u Hsx Hsy Hbx Hby Hr Hin.
  destruct (tmap_old_anchor_exact 0 (tmap_unchecked t) s u Hsx Hsy (unchecked_phys t) Hbx Hby Hr Hin) as [A B].
  split.
  - rewrite (tmap_cur_s2t 0 t s Hsx). exact A.
  - intros Hst. rewrite (tmap_cur_t2s 0 t u Hst). exact (B Hst).
Qed.

Theorem tmap_monotone : forall t q1 q2 v1 v2,
  sorted_lt (ids t) -> sorted_le (times t) ->
  tmap_sample_id_to_timestamp t q1 = QVal v1 -> tmap_sample_id_to_timestamp t q2 = QVal v2 ->
  q1 <= q2 -> v1 <= v2.
Proof.
  intros t q1 q2 v1 v2 Hsx Hsy H1 H2 Hq.
  rewrite (tmap_cur_s2t 0 t q1 Hsx) in H1. rewrite (tmap_cur_s2t 0 t q2 Hsx) in H2.
  exact (tmap_old_monotone 0 (tmap_unchecked t) q1 q2 v1 v2 Hsx Hsy (unchecked_phys t) H1 H2 Hq).
Qed.

Theorem tmap_monotone_rev : forall t q1 q2 v1 v2,
  sorted_lt (ids t) -> sorted_lt (times t) ->
  tmap_timestamp_to_sample_id t q1 = QVal v1 -> tmap_timestamp_to_sample_id t q2 = QVal v2 ->
  q1 <= q2 -> v1 <= v2.
Proof.
  intros t q1 q2 v1 v2 Hsx Hsy H1 H2 Hq.
  rewrite (tmap_cur_t2s 0 t q1 Hsy) in H1. rewrite (tmap_cur_t2s 0 t q2 Hsy) in H2.
  exact (tmap_old_monotone_rev 0 (tmap_unchecked t) q1 q2 v1 v2 Hsx Hsy (unchecked_phys t) H1 H2 Hq).
Qed.

Theorem tmap_interp_linear : forall t i q,
  sorted_lt (ids t) -> sorted_le (times t) ->
  all_in (2 ^ 62 - 1) (ids t) -> all_in (2 ^ 62 - 1) (times t) ->
  (i + 1 < length (tm_entries t))%nat -> nth i (ids t) 0 <= q <= nth (S i) (ids t) 0 ->
  exists v, tmap_sample_id_to_timestamp t q = QVal v /\
    v = nth i (times t) 0 + Qround_haz (inject_Z (q - nth i (ids t) 0%Z) * (inject_Z (nth (S i) (times t) 0%Z - nth i (times t) 0%Z) / inject_Z (nth (S i) (ids t) 0%Z - nth i (ids t) 0%Z)))%Q /\
    (Qabs (inject_Z v - (inject_Z (nth i (times t) 0%Z) + inject_Z (q - nth i (ids t) 0%Z) * (inject_Z (nth (S i) (times t) 0%Z - nth i (times t) 0%Z) / inject_Z (nth (S i) (ids t) 0%Z - nth i (ids t) 0%Z)))) <= 1 # 2)%Q /\
    nth i (times t) 0 <= v <= nth (S i) (times t) 0.
Proof.
  intros t i q Hsx Hsy Hbx Hby Hi Hq.
  rewrite (tmap_cur_s2t 0 t q Hsx).
  exact (tmap_old_interp_linear 0 (tmap_unchecked t) i q Hsx Hsy (unchecked_phys t) Hbx Hby Hi Hq).
Qed.

Theorem tmap_within_one_tick : forall t q v,
  sorted_lt (ids t) ->
  tmap_sample_id_to_timestamp t q = QVal v ->
  (exists s0 u0, tm_entries t = [(s0, u0)] /\ (0 < tm_rate t)%Q /\
     v = u0 + Qtrunc ((inject_Z (q - s0) / tm_rate t) * inject_Z (2 ^ 30))%Q /\
     (Qabs (inject_Z v - (inject_Z u0 + (inject_Z (q - s0) / tm_rate t) * inject_Z (2 ^ 30))) < 1)%Q) \/
  (exists c, seg_ok (ids t) q c /\
     v = nth c (times t) 0 + Qround_haz (inject_Z (q - nth c (ids t) 0%Z) * (inject_Z (nth (S c) (times t) 0%Z - nth c (times t) 0%Z) / inject_Z (nth (S c) (ids t) 0%Z - nth c (ids t) 0%Z)))%Q /\
     (Qabs (inject_Z v - (inject_Z (nth c (times t) 0%Z) + inject_Z (q - nth c (ids t) 0%Z) * (inject_Z (nth (S c) (times t) 0%Z - nth c (times t) 0%Z) / inject_Z (nth (S c) (ids t) 0%Z - nth c (ids t) 0%Z)))) <= 1 # 2)%Q).
Proof.
  intros t q v Hsx H. rewrite (tmap_cur_s2t 0 t q Hsx) in H.
  exact (tmap_old_within_one_tick 0 (tmap_unchecked t) q v Hsx (unchecked_phys t) H).
Qed.

Theorem tmap_extrap_nearest_segment : forall t q v,
  sorted_lt (ids t) -> (2 <= length (tm_entries t))%nat ->
  tmap_sample_id_to_timestamp t q = QVal v ->
  (q < nth 0 (ids t) 0 ->
     v = nth 0 (times t) 0 + Qround_haz (inject_Z (q - nth 0 (ids t) 0%Z) * (inject_Z (nth 1 (times t) 0%Z - nth 0 (times t) 0%Z) / inject_Z (nth 1 (ids t) 0%Z - nth 0 (ids t) 0%Z)))%Q) /\
  (nth (length (tm_entries t) - 1) (ids t) 0 <= q ->
     let c := (length (tm_entries t) - 2)%nat in
     v = nth c (times t) 0 + Qround_haz (inject_Z (q - nth c (ids t) 0%Z) * (inject_Z (nth (S c) (times t) 0%Z - nth c (times t) 0%Z) / inject_Z (nth (S c) (ids t) 0%Z - nth c (ids t) 0%Z)))%Q).
Proof.
  intros t q v Hsx E H. rewrite (tmap_cur_s2t 0 t q Hsx) in H.
  exact (tmap_old_extrap_nearest_segment 0 (tmap_unchecked t) q v Hsx (unchecked_phys t) E H).
Qed.

Theorem tmap_inverse_within_one_sample : forall t q tm q',
  sorted_lt (ids t) ->
  (forall i, (i + 1 < length (tm_entries t))%nat ->
     nth (S i) (ids t) 0 - nth i (ids t) 0 <= nth (S i) (times t) 0 - nth i (times t) 0) ->
  (tm_rate t <= inject_Z (2 ^ 30))%Q ->
  tmap_sample_id_to_timestamp t q = QVal tm ->
  tmap_timestamp_to_sample_id t tm = QVal q' ->
  -1 <= q' - q <= 1.
Proof.
  intros t q tm q' Hsx Hslope Hrate H1 H2.
  assert (Hst : sorted_lt (times t)).
  { apply (slope_sorted (ids t) (times t) Hsx); [rewrite ids_length, times_length; reflexivity|].
    intros i Hi. rewrite ids_length in Hi. apply Hslope. assumption. }
  rewrite (tmap_cur_s2t 0 t q Hsx) in H1. rewrite (tmap_cur_t2s 0 t tm Hst) in H2.
  exact (tmap_old_inverse_within_one_sample 0 0 (tmap_unchecked t) q tm q' Hsx (unchecked_phys t) Hslope Hrate H1 H2).
Qed.

(* concrete values of the current code: the example map, the map at capacity (beyond the last
   anchor: no tm_fault any more), the map with two equal UTC times (the anchor id, no tm_fault) *)
Lemma ex_map_values :
  tmap_sample_id_to_timestamp ex_map 500 = QVal (2 ^ 58 + 2 ^ 29) /\
  tmap_sample_id_to_timestamp ex_map 1000 = QVal (2 ^ 58 + 2 ^ 30) /\
  tmap_sample_id_to_timestamp ex_map 3000 = QVal (2 ^ 58 + 5 * 2 ^ 29 + 7 + 536870914) /\
  tmap_timestamp_to_sample_id ex_map (2 ^ 58 + 2 ^ 29) = QVal 500 /\
  tmap_sample_id_to_timestamp ex_single 6000 = QVal (2 ^ 58 + 2 ^ 30) /\
  tmap_timestamp_to_sample_id eqt_map (2 ^ 40) = QVal 0 /\
  tmap_timestamp_to_sample_id eqt_map (2 ^ 40 + 5) = QVal 0.
Proof. vm_compute. repeat split; reflexivity. Qed.

Theorem tmap_eq_old : forall j t q, (length (tm_entries t) < tm_phys t)%nat ->
  (sorted_lt (ids t) -> tmap_sample_id_to_timestamp t q = tmap_sample_id_to_timestamp_old j t q) /\
  (sorted_lt (times t) -> tmap_timestamp_to_sample_id t q = tmap_timestamp_to_sample_id_old j t q).
Proof.
  intros j t q Hph. split; intros Hs.
  - exact (tmap_eq_old_s2t j t q Hs Hph).
  - exact (tmap_eq_old_t2s j t q Hs Hph).
Qed.

(* the map holding exactly ENTRIES_ALLOC_INIT tm_entries, queried beyond its last anchor: no tm_fault *)
Lemma full_map_values :
  exists t : tmap,
    t = tmap_add_all (tmap_alloc (1000 # 1)) full_adds /\
    tmap_sample_id_to_timestamp t 999001 = QVal (2 ^ 58 + 999 * 2 ^ 30 + 1073742) /\
    tmap_timestamp_to_sample_id t (2 ^ 58 + 1000 * 2 ^ 30) = QVal 1000000.
Proof. exists full_map. split; [reflexivity|]. vm_compute. split; reflexivity. Qed.
