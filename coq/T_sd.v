From Coq Require Import NArith ZArith List Bool Lia ZifyBool ZifyN ZifyNat.
From JLS Require Import Generated SigDef SigDefProofs.
Import ListNotations.
Local Open Scope N_scope.
Ltac Zify.zify_post_hook ::= Z.div_mod_to_equations.

(* ------------------------------------------------------------------ *)
(* concrete instances: hypotheses are satisfiable, defaults are fine,  *)
(* and the witnesses that refute the unguarded statement               *)

Definition sd_zero : sigdef := mkSigDef 0 0 0 0 0 0.

Lemma in_range_b : forall d,
  (spd d <? U32) && (sdf d <? U32) && (eps d <? U32) && (sumdf d <? U32) && (anno d <? U32) && (utc d <? U32) = true ->
  in_range d.
Proof.
  intros d H. rewrite !andb_true_iff, !N.ltb_lt in H. unfold in_range. tauto.
Qed.

(* every all-defaults definition (all six fields zero) meets the guard; for 24-bit
   samples it does not (no defaults: annotation/utc factors stay zero) *)
Lemma defaults_meet_guard : forall w, In w sd_widths -> w <> 24 -> sd_guard w sd_zero.
Proof.
  intros w Hw H24. cbn [In sd_widths] in Hw.
  destruct Hw as [H|[H|[H|[H|[H|[H|[H|H]]]]]]]; [subst w ..|contradiction];
  try contradiction; apply guardb_iff; vm_compute; reflexivity.
Qed.

Lemma defaults_24_fail_guard : ~ sd_guard 24 sd_zero.
Proof. intro H. apply guardb_iff in H. vm_compute in H. discriminate. Qed.

Lemma defaults_normal_forms :
  sd_align 1 sd_zero = SdOk (mkSigDef DEF1_samples_per_data DEF1_sample_decimate_factor DEF1_entries_per_summary DEF1_summary_decimate_factor DEF32_annotation_decimate_factor DEF32_utc_decimate_factor) /\
  sd_align 4 sd_zero = SdOk (mkSigDef DEF4_samples_per_data DEF4_sample_decimate_factor DEF4_entries_per_summary DEF4_summary_decimate_factor DEF32_annotation_decimate_factor DEF32_utc_decimate_factor) /\
  sd_align 8 sd_zero = SdOk (mkSigDef DEF8_samples_per_data DEF8_sample_decimate_factor DEF8_entries_per_summary DEF8_summary_decimate_factor DEF32_annotation_decimate_factor DEF32_utc_decimate_factor) /\
  sd_align 16 sd_zero = SdOk (mkSigDef DEF16_samples_per_data DEF16_sample_decimate_factor DEF16_entries_per_summary DEF16_summary_decimate_factor DEF32_annotation_decimate_factor DEF32_utc_decimate_factor) /\
  sd_align 32 sd_zero = SdOk (mkSigDef DEF32_samples_per_data DEF32_sample_decimate_factor DEF32_entries_per_summary DEF32_summary_decimate_factor DEF32_annotation_decimate_factor DEF32_utc_decimate_factor) /\
  sd_align 64 sd_zero = SdOk (mkSigDef DEF64_samples_per_data DEF64_sample_decimate_factor DEF64_entries_per_summary DEF64_summary_decimate_factor DEF32_annotation_decimate_factor DEF32_utc_decimate_factor).
Proof. vm_compute. repeat split; reflexivity. Qed.

(* a non-trivial guarded definition: f32, (1000, 100, 33, 17, 3, 3) -> (208, 104, 34, 17, 3, 3) *)
Lemma guard_example :
  sd_guard 32 (mkSigDef 1000 100 33 17 3 3) /\
  sd_align 32 (mkSigDef 1000 100 33 17 3 3) = SdOk (mkSigDef 208 104 34 17 3 3).
Proof. split; [apply guardb_iff; vm_compute; reflexivity|vm_compute; reflexivity]. Qed.

Lemma guard_example_24 :
  sd_guard 24 (mkSigDef 100 11 100 10 5 5) /\
  sd_align 24 (mkSigDef 100 11 100 10 5 5) = SdOk (mkSigDef 100 20 100 10 5 5).
Proof. split; [apply guardb_iff; vm_compute; reflexivity|vm_compute; reflexivity]. Qed.

Lemma idem_example :
  let d := mkSigDef 8192 128 640 20 100 100 in
  In 32 sd_widths /\ Consistent 32 d /\ sdf d mod sd_multiple 32 = 0 /\
  spd d + sdf d - 1 < U32 /\ eps d + sumdf d - 1 < U32.
Proof.
  cbv zeta. split; [cbn; tauto|]. split; [apply consistentb_iff; vm_compute; reflexivity|].
  vm_compute. repeat split; reflexivity.
Qed.

(* --- witnesses --- *)

(* u64, sample_decimate_factor = 2^32-6: rounds to 2^32-4 without wrapping, then the
   rounding of samples_per_data wraps to 0, entries_per_data = 0, SIGFPE in the loop test *)
Lemma refuted_divzero_spd :
  sd_validate 1 1 JLS_SIGNAL_TYPE_FSR JLS_DATATYPE_U64 = 0 /\
  in_range (mkSigDef 0 4294967290 0 0 0 0) /\
  sd_align (sample_size JLS_DATATYPE_U64) (mkSigDef 0 4294967290 0 0 0 0) = SdFault SdDivZero.
Proof. split; [reflexivity|]. split; [apply in_range_b; reflexivity|vm_compute; reflexivity]. Qed.

(* f32, sample_decimate_factor = 2^32-1: the rounding itself wraps to 0, SIGFPE in
   round_up_to_multiple(samples_per_data, 0) *)
Lemma refuted_divzero_sdf :
  sd_validate 1 1 JLS_SIGNAL_TYPE_FSR JLS_DATATYPE_F32 = 0 /\
  in_range (mkSigDef 0 4294967295 0 0 0 0) /\
  sd_align (sample_size JLS_DATATYPE_F32) (mkSigDef 0 4294967295 0 0 0 0) = SdFault SdDivZero.
Proof. split; [reflexivity|]. split; [apply in_range_b; reflexivity|vm_compute; reflexivity]. Qed.

(* f32, entries_per_summary = 2^32-1: rounds (wraps) to 0 and is stored as 0 *)
Lemma refuted_eps_zero :
  sd_validate 1 1 JLS_SIGNAL_TYPE_FSR JLS_DATATYPE_F32 = 0 /\
  in_range (mkSigDef 0 0 4294967295 0 0 0) /\
  sd_align (sample_size JLS_DATATYPE_F32) (mkSigDef 0 0 4294967295 0 0 0) = SdOk (mkSigDef 8192 128 0 20 100 100) /\
  ~ Consistent (sample_size JLS_DATATYPE_F32) (mkSigDef 8192 128 0 20 100 100).
Proof.
  split; [reflexivity|]. split; [apply in_range_b; reflexivity|]. split; [vm_compute; reflexivity|].
  intro H. apply consistentb_iff in H. vm_compute in H. discriminate.
Qed.

(* i24, everything zero: no defaults at all; annotation/utc factors stay 0 and the
   level-1 entry covers 240 bits *)
Lemma refuted_24bit :
  sd_validate 1 1 JLS_SIGNAL_TYPE_FSR JLS_DATATYPE_I24 = 0 /\
  sd_align (sample_size JLS_DATATYPE_I24) sd_zero = SdOk (mkSigDef 10 10 10 10 0 0) /\
  ~ Consistent (sample_size JLS_DATATYPE_I24) (mkSigDef 10 10 10 10 0 0) /\
  ~ Entry256 (sample_size JLS_DATATYPE_I24) (mkSigDef 10 10 10 10 0 0).
Proof.
  split; [reflexivity|]. split; [vm_compute; reflexivity|]. split.
  - intro H. apply consistentb_iff in H. vm_compute in H. discriminate.
  - intro H. apply entry256b_iff in H. vm_compute in H. discriminate.
Qed.

(* u24 with non-zero annotation/utc factors: everything holds except "multiple of 256 bits" *)
Lemma refuted_24bit_entry256 :
  sd_guard 24 (mkSigDef 100 11 100 10 5 5) /\
  sd_align 24 (mkSigDef 100 11 100 10 5 5) = SdOk (mkSigDef 100 20 100 10 5 5) /\
  Consistent 24 (mkSigDef 100 20 100 10 5 5) /\ ~ Entry256 24 (mkSigDef 100 20 100 10 5 5).
Proof.
  split; [apply guardb_iff; vm_compute; reflexivity|]. split; [vm_compute; reflexivity|]. split.
  - apply consistentb_iff. vm_compute. reflexivity.
  - intro H. apply entry256b_iff in H. vm_compute in H. discriminate.
Qed.

(* stored parameters that satisfy every relation and fit in 32 bits, yet normalising
   them again divides by zero: u64 (3*2^30, 3*2^30, 10, 10, 100, 100) *)
Lemma refuted_idem_consistent_only :
  let d := mkSigDef 3221225472 3221225472 10 10 100 100 in
  Consistent 64 d /\ in_range d /\ sdf d mod sd_multiple 64 = 0 /\ sd_align 64 d = SdFault SdDivZero.
Proof.
  cbv zeta. split; [apply consistentb_iff; vm_compute; reflexivity|].
  split; [apply in_range_b; reflexivity|]. split; vm_compute; reflexivity.
Qed.

(* a definition inside the guard whose normal form is outside it: the second file faults *)
Lemma refuted_twice_divzero :
  let d := mkSigDef 10 3221225472 10 10 0 0 in
  let d' := mkSigDef 3221225472 3221225472 10 10 100 100 in
  sd_guard 64 d /\ sd_align 64 d = SdOk d' /\ Consistent 64 d' /\ sd_align 64 d' = SdFault SdDivZero.
Proof.
  cbv zeta. split; [apply guardb_iff; vm_compute; reflexivity|]. split; [vm_compute; reflexivity|].
  split; [apply consistentb_iff; vm_compute; reflexivity|vm_compute; reflexivity].
Qed.

(* the same through entries_per_summary: f32, summary_decimate_factor = 2^31+1; the second
   pass stores entries_per_summary = 0 *)
Lemma refuted_twice_changes :
  let d := mkSigDef 0 0 10 2147483649 0 0 in
  let d' := mkSigDef 384 128 2147483649 2147483649 100 100 in
  sd_guard 32 d /\ sd_align 32 d = SdOk d' /\ Consistent 32 d' /\
  sd_align 32 d' = SdOk (mkSigDef 384 128 0 2147483649 100 100).
Proof.
  cbv zeta. split; [apply guardb_iff; vm_compute; reflexivity|]. split; [vm_compute; reflexivity|].
  split; [apply consistentb_iff; vm_compute; reflexivity|vm_compute; reflexivity].
Qed.
