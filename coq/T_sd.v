From Coq Require Import NArith ZArith List Bool Lia ZifyBool ZifyN ZifyNat.
From JLS Require Import Generated SigDef SigDefProofs.
Import ListNotations.
Local Open Scope N_scope.
Ltac Zify.zify_post_hook ::= Z.div_mod_to_equations.
(* ------------------------------------------------------------------ *)
(* the guarded normal form                                             *)

Definition sd_eps1 (w : N) (d : sigdef) : N :=
  (sd_eps0 w d + sd_sumdf1 w d - 1) / sd_sumdf1 w d * sd_sumdf1 w d.
Definition sd_spd1 (w : N) (d : sigdef) : N :=
  (sd_spd0 w d + sd_sdf1 w d - 1) / sd_sdf1 w d * sd_sdf1 w d.

Lemma mins : forall w d,
  10 <= sd_sdf0 w d /\ 10 <= sd_spd0 w d /\ 10 <= sd_eps0 w d /\ 10 <= sd_sumdf1 w d.
Proof. intros. unfold sd_sdf0, sd_spd0, sd_eps0, sd_sumdf1. unfold_consts. lia. Qed.

Lemma align_guarded_form : forall w d, In w sd_widths ->
  guard_sdf w d -> guard_spd w d -> guard_eps w d ->
  exists k, LargestDiv (sd_eps1 w d) (sd_spd1 w d / sd_sdf1 w d) k /\
    sd_spd1 w d mod sd_sdf1 w d = 0 /\ sd_sdf1 w d * k <= sd_spd1 w d /\ sd_spd1 w d < U32 /\
    sd_align w d = SdOk (mkSigDef (sd_sdf1 w d * k) (sd_sdf1 w d) (sd_eps1 w d) (sd_sumdf1 w d)
                                   (anno (sd_defaults w d)) (utc (sd_defaults w d))).
Proof.
  intros w d Hw G1 G2 G3.
  destruct (width_facts w Hw) as (Hw0 & Hm0 & Hm256 & _ & _).
  destruct (mins w d) as (M1 & M2 & M3 & M4).
  unfold guard_sdf, guard_spd, guard_eps in *.
  pose proof (round_spec (sd_sdf0 w d) (sd_multiple w) Hm0) as (R1 & R2 & R3).
  fold (sd_sdf1 w d) in R1, R2, R3.
  assert (Hs0 : sd_sdf1 w d <> 0) by lia.
  assert (Hu0 : sd_sumdf1 w d <> 0) by lia.
  pose proof (round_spec (sd_spd0 w d) (sd_sdf1 w d) Hs0) as (S1 & S2 & S3).
  fold (sd_spd1 w d) in S1, S2, S3.
  pose proof (round_spec (sd_eps0 w d) (sd_sumdf1 w d) Hu0) as (E1 & E2 & E3).
  fold (sd_eps1 w d) in E1, E2, E3.
  assert (Hdiv : sd_spd1 w d = sd_sdf1 w d * (sd_spd1 w d / sd_sdf1 w d)) by (apply N.div_exact; assumption).
  assert (Hepd : 1 <= sd_spd1 w d / sd_sdf1 w d).
  { destruct (N.eq_dec (sd_spd1 w d / sd_sdf1 w d) 0) as [Z|Z]; [rewrite Z in Hdiv; lia|lia]. }
  destruct (fit_loop_total (sd_eps1 w d) (sd_spd1 w d / sd_sdf1 w d) Hepd) as (k & Hk & HL).
  exists k. split; [exact HL|]. split; [exact S1|].
  assert (Hle : sd_sdf1 w d * k <= sd_spd1 w d).
  { eapply N.le_trans; [|apply N.eq_le_incl; symmetry; exact Hdiv].
    apply N.mul_le_mono_l. destruct HL as (_ & B & _). exact B. }
  split; [exact Hle|]. split; [lia|].
  unfold sd_align.
  destruct (w =? 0) eqn:Ew; [apply N.eqb_eq in Ew; contradiction|].
  fold (sd_sdf0 w d) (sd_spd0 w d) (sd_eps0 w d) (sd_sumdf1 w d).
  rewrite (round_up_exact (sd_sdf0 w d) (sd_multiple w)) by (try assumption; lia).
  fold (sd_sdf1 w d). cbn [sd_bind].
  rewrite (round_up_exact (sd_eps0 w d) (sd_sumdf1 w d)) by (try assumption; lia).
  fold (sd_eps1 w d). cbn [sd_bind].
  rewrite (round_up_exact (sd_spd0 w d) (sd_sdf1 w d)) by (try assumption; lia).
  fold (sd_spd1 w d). cbn [sd_bind].
  destruct (sd_sdf1 w d =? 0) eqn:Es; [apply N.eqb_eq in Es; contradiction|].
  rewrite Hk. cbn [sd_bind].
  rewrite u32_small by lia. reflexivity.
Qed.

(* ------------------------------------------------------------------ *)
(* align_ok_partial                                                    *)

Lemma align_ok_partial : forall w d, In w sd_widths -> sd_guard w d ->
  exists d', sd_align w d = SdOk d' /\ Consistent w d' /\
             (w <> 24 -> Entry256 w d') /\
             sdf d' mod sd_multiple w = 0 /\ spd d' < U32 /\ sdf d' < U32 /\ eps d' < U32.
Proof.
  intros w d Hw (G1 & G2 & G3 & G4a & G4b).
  destruct (align_guarded_form w d Hw G1 G2 G3) as (k & (K1 & K2 & K3 & K4) & S1 & Hle & Hlt & Hal).
  destruct (width_facts w Hw) as (Hw0 & Hm0 & Hm256 & WF & _).
  destruct (mins w d) as (M1 & M2 & M3 & M4).
  unfold guard_sdf, guard_spd, guard_eps in *.
  pose proof (round_spec (sd_sdf0 w d) (sd_multiple w) Hm0) as (R1 & R2 & R3).
  fold (sd_sdf1 w d) in R1, R2, R3.
  assert (Hs0 : sd_sdf1 w d <> 0) by lia.
  assert (Hu0 : sd_sumdf1 w d <> 0) by lia.
  pose proof (round_spec (sd_eps0 w d) (sd_sumdf1 w d) Hu0) as (E1 & E2 & E3).
  fold (sd_eps1 w d) in E1, E2, E3.
  destruct (WF (sd_sdf1 w d) R1) as (W1 & W2 & W3).
  assert (Hk0 : k <> 0) by lia.
  assert (Hq : sd_sdf1 w d * k / sd_sdf1 w d = k) by (rewrite N.mul_comm; apply N.div_mul; exact Hs0).
  assert (Hr : (sd_sdf1 w d * k) mod sd_sdf1 w d = 0) by (rewrite N.mul_comm; apply N.mod_mul; exact Hs0).
  assert (Hge : sd_sdf1 w d * 1 <= sd_sdf1 w d * k) by (apply N.mul_le_mono_l; exact K1).
  eexists. split; [exact Hal|].
  split; [|split; [|split; [|split; [|split]]]]; cbn [spd sdf eps sumdf anno utc]; try assumption; try lia.
  unfold Consistent. cbn [spd sdf eps sumdf anno utc]. rewrite Hq. unfold_consts.
  repeat split; try assumption; lia.
Qed.

(* ------------------------------------------------------------------ *)
(* tightness: outside the guard the C faults or stores inconsistent    *)
(* parameters                                                          *)

Lemma align_guard_necessary : forall w d d', In w sd_widths -> in_range d ->
  sd_align w d = SdOk d' -> Consistent w d' -> sd_guard w d.
Proof.
  intros w d d' Hw Hr Hal Hc.
  destruct (width_facts w Hw) as (Hw0 & Hm0 & Hm256 & _ & _).
  destruct (mins w d) as (M1 & M2 & M3 & M4).
  pose proof (defaults_in_range w d Hw Hr) as (D1 & D2 & D3 & D4 & D5 & D6).
  assert (B1 : sd_sdf0 w d < U32) by (unfold sd_sdf0, U32 in *; unfold_consts; lia).
  assert (B2 : sd_spd0 w d < U32) by (unfold sd_spd0, U32 in *; unfold_consts; lia).
  assert (B3 : sd_eps0 w d < U32) by (unfold sd_eps0, U32 in *; unfold_consts; lia).
  assert (B4 : sd_sumdf1 w d < U32) by (unfold sd_sumdf1, U32 in *; unfold_consts; lia).
  assert (Hu0 : sd_sumdf1 w d <> 0) by lia.
  assert (Ew : (w =? 0) = false) by (apply N.eqb_neq; exact Hw0).
  (* 1: the rounding of sample_decimate_factor *)
  destruct (N.lt_ge_cases (sd_sdf0 w d + sd_multiple w - 1) U32) as [G1|G1].
  2:{ exfalso. unfold sd_align in Hal. rewrite Ew in Hal.
      fold (sd_sdf0 w d) (sd_spd0 w d) (sd_eps0 w d) (sd_sumdf1 w d) in Hal.
      rewrite (round_up_wraps (sd_sdf0 w d) (sd_multiple w)) in Hal by (unfold U32 in *; try assumption; lia).
      cbn [sd_bind] in Hal.
      destruct (sd_round_up (sd_eps0 w d) (sd_sumdf1 w d)); cbn in Hal; discriminate. }
  pose proof (round_spec (sd_sdf0 w d) (sd_multiple w) Hm0) as (R1 & R2 & R3).
  fold (sd_sdf1 w d) in R1, R2, R3.
  assert (Hs0 : sd_sdf1 w d <> 0) by lia.
  assert (Es : (sd_sdf1 w d =? 0) = false) by (apply N.eqb_neq; exact Hs0).
  (* 2: the rounding of samples_per_data *)
  destruct (N.lt_ge_cases (sd_spd0 w d + sd_sdf1 w d - 1) U32) as [G2|G2].
  2:{ exfalso. unfold sd_align in Hal. rewrite Ew in Hal.
      fold (sd_sdf0 w d) (sd_spd0 w d) (sd_eps0 w d) (sd_sumdf1 w d) in Hal.
      rewrite (round_up_exact (sd_sdf0 w d) (sd_multiple w)) in Hal by (try assumption; lia).
      fold (sd_sdf1 w d) in Hal. cbn [sd_bind] in Hal.
      destruct (sd_round_up (sd_eps0 w d) (sd_sumdf1 w d)); [|cbn in Hal; discriminate].
      cbn [sd_bind] in Hal.
      rewrite (round_up_wraps (sd_spd0 w d) (sd_sdf1 w d)) in Hal by (try assumption; lia).
      cbn [sd_bind] in Hal. rewrite Es in Hal.
      rewrite N.div_0_l in Hal by exact Hs0. cbn in Hal. discriminate. }
  (* 3: the rounding of entries_per_summary *)
  destruct (N.lt_ge_cases (sd_eps0 w d + sd_sumdf1 w d - 1) U32) as [G3|G3].
  2:{ exfalso. unfold sd_align in Hal. rewrite Ew in Hal.
      fold (sd_sdf0 w d) (sd_spd0 w d) (sd_eps0 w d) (sd_sumdf1 w d) in Hal.
      rewrite (round_up_exact (sd_sdf0 w d) (sd_multiple w)) in Hal by (try assumption; lia).
      fold (sd_sdf1 w d) in Hal. cbn [sd_bind] in Hal.
      rewrite (round_up_wraps (sd_eps0 w d) (sd_sumdf1 w d)) in Hal by (try assumption; lia).
      cbn [sd_bind] in Hal.
      destruct (sd_round_up (sd_spd0 w d) (sd_sdf1 w d)); [|cbn in Hal; discriminate].
      cbn [sd_bind] in Hal. rewrite Es in Hal.
      destruct (sd_fit_loop _ 0 _); [|cbn in Hal; discriminate].
      cbn [sd_bind] in Hal. injection Hal as <-.
      destruct Hc as (_ & _ & _ & _ & _ & _ & _ & C8 & _). cbn [eps] in C8.
      unfold_consts. lia. }
  (* 4: annotation / utc factors *)
  destruct (align_guarded_form w d Hw G1 G2 G3) as (k & _ & _ & _ & _ & Hal').
  rewrite Hal' in Hal. injection Hal as <-.
  destruct Hc as (_ & _ & _ & _ & _ & _ & _ & _ & _ & C10 & C11). cbn [anno utc] in C10, C11.
  repeat split; try assumption; lia.
Qed.

Theorem align_ok_iff : forall w d, In w sd_widths -> in_range d ->
  ((exists d', sd_align w d = SdOk d' /\ Consistent w d') <-> sd_guard w d).
Proof.
  intros w d Hw Hr. split.
  - intros (d' & Hal & Hc). eapply align_guard_necessary; eassumption.
  - intros G. destruct (align_ok_partial w d Hw G) as (d' & Hal & Hc & _). eauto.
Qed.
