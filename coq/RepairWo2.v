(* WHAT THE REPAIR-ON-OPEN WRITES, part 2: the raw layer.  Closed forms of the in-place operations of the writer
   model when they are run on the reader's raw state (not at the end of the file), and the classifier's verdict
   on the log segments of each raw operation: link (32-byte header rewrite), head table (payload + footer),
   append (header, payload, footer), END, file header, truncation, re-write of the last chunk.
   Every top-level name starts with rw_. *)
From Coq Require Import NArith ZArith List Bool Lia Arith.
From Coq Require Import ZifyBool ZifyN ZifyNat.
From JLS Require Import Generated CrcDefs Spec Format FormatProofs WriteOnce WriteOnceProofs WmRaw WmCore WmFsr WriterModel WmProofs
  WmWriteOnce RepairRaw RawReadProofs RepairModel RepairProofs RepairWo.
Import ListNotations.
Local Open Scope N_scope.
Ltac Zify.zify_post_hook ::= Z.div_mod_to_equations.

Local Opaque crc32c.

(* ================================================================ arithmetic of the framing *)
Lemma rw_pad_sum : forall pl, (pl + fm_pad_len pl + 4) mod 8 = 0 /\ fm_pad_len pl < 8.
Proof. intros pl. unfold fm_pad_len, RAW_HEADER_ALIGN, RAW_CRC_SIZE. lia. Qed.
Lemma rw_pad_le_136 : forall pl, pl <= 128 -> pl + (fm_pad_len pl + 4) <= 136.
Proof. intros pl H. unfold fm_pad_len, RAW_HEADER_ALIGN, RAW_CRC_SIZE. lia. Qed.
Lemma rw_disk_len_nz : forall pl, pl <> 0 -> fm_disk_len pl = pl + (fm_pad_len pl + 4).
Proof. intros pl H. unfold fm_disk_len. apply N.eqb_neq in H. rewrite H. unfold RAW_CRC_SIZE. lia. Qed.

(* ================================================================ closed forms: in place *)
Lemma rw_seek_eq : forall p e off hdr lpl disk log flt o, o <> 0 ->
  wm_raw_chunk_seek (wm_mk_raw p e off hdr lpl disk log flt) o = wm_mk_raw o e o (wm_hdr_set_tag hdr JLS_TAG_INVALID) lpl disk log flt.
Proof.
  intros p e off hdr lpl disk log flt o Ho. unfold wm_raw_chunk_seek, wm_mk_raw.
  replace (o =? 0) with false by (symmetry; apply N.eqb_neq; exact Ho). reflexivity.
Qed.
Lemma rw_wr_header_eq : forall p e hdr lpl disk log flt h,
  wm_raw_wr_header (wm_mk_raw p e p hdr lpl disk log flt) h =
  (let h1 := if e <=? p then wm_hdr_set_ppl h lpl else h in
   (wm_mk_raw (p + 32) (N.max e (p + 32)) p h1 lpl ((p, h1) :: disk) (WmWrite p (fm_encode_chunk_header h1) :: log) flt, h1)).
Proof.
  intros. unfold wm_raw_wr_header, wm_mk_raw. cbv [wm_fend wm_fpos wm_offset wm_last_pl]. rewrite N.eqb_refl.
  unfold wm_bk_fwrite, wm_disk_put, wm_set_hdr. cbv [wm_fpos wm_fend wm_offset wm_hdr wm_last_pl wm_disk wm_rlog wm_fault].
  rewrite wm_hdr_bytes_length. reflexivity.
Qed.
(* jls_raw_rd_header of the writer model right after a seek: the header comes from the ghost disk *)
Lemma rw_rd_header_eq : forall p e hinv lpl disk log, fm_tag hinv = JLS_TAG_INVALID -> p < e ->
  wm_raw_rd_header (wm_mk_raw p e p hinv lpl disk log false) =
  match wm_disk_get disk p with
  | Some hd => wm_mk_raw (p + 32) e p hd lpl disk log false
  | None => wm_mk_raw p e p hinv lpl disk log true
  end.
Proof.
  intros p e hinv lpl disk log Ht Hlt. unfold wm_raw_rd_header, wm_hdr_valid, wm_mk_raw. cbv [wm_hdr wm_fend wm_fpos wm_offset].
  rewrite Ht. cbn [N.eqb negb JLS_TAG_INVALID].
  replace (e <=? p) with false by (symmetry; apply N.leb_gt; exact Hlt). rewrite N.eqb_refl.
  unfold wm_set_offset. cbv [wm_fpos wm_fend wm_offset wm_hdr wm_last_pl wm_disk wm_rlog wm_fault].
  destruct (wm_disk_get disk p); reflexivity.
Qed.
(* ... and right behind the header it has just written: the same state, or a fault *)
Lemma rw_rd_header_self : forall p e h lpl disk log,
  let r1 := wm_mk_raw (p + 32) e p h lpl ((p, h) :: disk) log false in
  wm_fault (wm_raw_rd_header r1) = false -> wm_raw_rd_header r1 = r1.
Proof.
  intros p e h lpl disk log. cbv zeta. unfold wm_raw_rd_header, wm_hdr_valid, wm_mk_raw. cbv [wm_hdr wm_fend wm_fpos wm_offset].
  destruct (negb (fm_tag h =? JLS_TAG_INVALID)); [reflexivity |].
  destruct (e <=? p + 32); [cbn; intros X; discriminate X |].
  replace (p =? p + 32) with false by (symmetry; apply N.eqb_neq; lia).
  unfold wm_bk_fseek, wm_set_fpos, wm_set_offset. cbv [wm_fpos wm_fend wm_offset wm_hdr wm_last_pl wm_disk wm_rlog wm_fault wm_disk_get].
  rewrite N.eqb_refl. intros _. reflexivity.
Qed.
(* the two writes of jls_raw_wr_payload once the header is known *)
Definition rw_wr_body (r1 : wm_raw) (plen : N) (payload : list N) : wm_raw :=
  let hl := fm_payload_length (wm_hdr r1) in
  let body := firstn (N.to_nat hl) payload in
  let r2 := if N.of_nat (length payload) <? hl then wm_set_fault r1 else r1 in
  let r3 := wm_bk_fwrite r2 body in
  let r4 := wm_bk_fwrite r3 (wm_footer hl (crc32c body)) in
  if wm_fend r4 <=? wm_fpos r4 then wm_set_last_pl r4 plen else r4.
Lemma rw_wr_payload_unfold : forall r plen payload,
  wm_raw_wr_payload r plen payload =
  (let r1 := wm_raw_rd_header r in
   if wm_fault r1 then r1
   else if plen =? 0 then (if wm_fend r1 <=? wm_fpos r1 then wm_set_last_pl r1 0 else r1)
   else rw_wr_body r1 plen payload).
Proof. reflexivity. Qed.
Lemma rw_wr_body_eq : forall p e o hd lpl disk log plen payload,
  fm_payload_length hd <= N.of_nat (length payload) ->
  rw_wr_body (wm_mk_raw p e o hd lpl disk log false) plen payload =
  (let hl := fm_payload_length hd in
   let body := firstn (N.to_nat hl) payload in
   let e2 := p + hl + (fm_pad_len hl + 4) in
   let fe := N.max (N.max e (p + hl)) e2 in
   wm_mk_raw e2 fe o hd (if fe <=? e2 then plen else lpl) disk
     (WmWrite (p + hl) (wm_footer hl (crc32c body)) :: WmWrite p body :: log) false).
Proof.
  intros p e o hd lpl disk log plen payload Hlen. unfold rw_wr_body, wm_mk_raw. cbv [wm_hdr].
  replace (N.of_nat (length payload) <? fm_payload_length hd) with false by (symmetry; apply N.ltb_ge; exact Hlen).
  set (hl := fm_payload_length hd). set (body := firstn (N.to_nat hl) payload).
  assert (Hlb : N.of_nat (length body) = hl) by (unfold body; rewrite firstn_length; lia).
  unfold wm_bk_fwrite. cbv [wm_fpos wm_fend wm_offset wm_hdr wm_last_pl wm_disk wm_rlog wm_fault].
  rewrite wm_footer_length, Hlb. cbv zeta.
  match goal with |- (if ?c then _ else _) = _ => destruct c end; reflexivity.
Qed.
Lemma rw_wr_body_fault : forall r1 plen payload, N.of_nat (length payload) < fm_payload_length (wm_hdr r1) ->
  wm_fault (rw_wr_body r1 plen payload) = true.
Proof.
  intros r1 plen payload H. unfold rw_wr_body. cbv zeta.
  replace (N.of_nat (length payload) <? fm_payload_length (wm_hdr r1)) with true by (symmetry; apply N.ltb_lt; exact H).
  match goal with |- context [if ?c then _ else _] => destruct c end; reflexivity.
Qed.

(* jls_raw_chunk_seek o; jls_raw_wr_header h; jls_raw_chunk_seek back: one 32-byte write at o, the raw returns to
   the chunk at [back].  (jls_core_update_chunk_header, jls_core_update_item_head) *)
Lemma rw_link_eq : forall p e o hdr lpl disk log co h back,
  co <> 0 -> co + 32 <= e -> back <> 0 ->
  wm_raw_chunk_seek (fst (wm_raw_wr_header (wm_raw_chunk_seek (wm_mk_raw p e o hdr lpl disk log false) co) h)) back =
  wm_mk_raw back e back (wm_hdr_set_tag h JLS_TAG_INVALID) lpl ((co, h) :: disk) (WmWrite co (fm_encode_chunk_header h) :: log) false.
Proof.
  intros p e o hdr lpl disk log co h back Hco Hle Hb.
  rewrite rw_seek_eq by exact Hco. rewrite rw_wr_header_eq. cbv zeta.
  replace (e <=? co) with false by (symmetry; apply N.leb_gt; lia). cbn [fst].
  rewrite rw_seek_eq by exact Hb. rewrite (N.max_l e (co + 32)) by lia. reflexivity.
Qed.

(* jls_raw_chunk_seek ho; jls_raw_wr_payload(128 bytes); jls_raw_chunk_seek back (jls_track_wr_head, later calls):
   without a model fault the header at ho was found (ghost disk), its payload_length hl is at most the 128 bytes
   handed in, and hl bytes + pad + CRC were written at ho + 32 *)
Lemma rw_tbl_eq : forall p e o hdr lpl disk log ho payload back r',
  ho <> 0 -> ho + 168 <= e -> back <> 0 -> N.of_nat (length payload) = SIZEOF_track_head ->
  r' = wm_raw_chunk_seek (wm_raw_wr_payload (wm_raw_chunk_seek (wm_mk_raw p e o hdr lpl disk log false) ho) SIZEOF_track_head payload) back ->
  wm_fault r' = false ->
  exists hd, wm_disk_get disk ho = Some hd /\ fm_payload_length hd <= SIZEOF_track_head /\
    let hl := fm_payload_length hd in
    let body := firstn (N.to_nat hl) payload in
    N.of_nat (length body) = hl /\
    r' = wm_mk_raw back e back (wm_hdr_set_tag hd JLS_TAG_INVALID) (if e <=? ho + 32 + hl + (fm_pad_len hl + 4) then SIZEOF_track_head else lpl) disk
           (WmWrite (ho + 32 + hl) (wm_footer hl (crc32c body)) :: WmWrite (ho + 32) body :: log) false.
Proof.
  intros p e o hdr lpl disk log ho payload back r' Hho Hle Hb Hlen Hr' Hf.
  rewrite rw_seek_eq in Hr' by exact Hho.
  set (r1 := wm_mk_raw ho e ho (wm_hdr_set_tag hdr JLS_TAG_INVALID) lpl disk log false) in Hr'.
  assert (F1 : wm_fault (wm_raw_wr_payload r1 SIZEOF_track_head payload) = false).
  { pose proof (wmw_le_chunk_seek (wm_raw_wr_payload r1 SIZEOF_track_head payload) back) as L. rewrite <- Hr' in L.
    exact (wmw_le_nofault _ _ L Hf). }
  rewrite rw_wr_payload_unfold in Hr', F1. cbv zeta in Hr', F1.
  assert (R1 : wm_raw_rd_header r1 = match wm_disk_get disk ho with
                                     | Some hd => wm_mk_raw (ho + 32) e ho hd lpl disk log false
                                     | None => wm_mk_raw ho e ho (wm_hdr_set_tag hdr JLS_TAG_INVALID) lpl disk log true end).
  { unfold r1. apply rw_rd_header_eq; [reflexivity | lia]. }
  rewrite R1 in Hr', F1.
  destruct (wm_disk_get disk ho) as [hd |] eqn:Hd; [| cbn in F1; discriminate F1].
  exists hd. split; [reflexivity |].
  change (wm_fault (wm_mk_raw (ho + 32) e ho hd lpl disk log false)) with false in Hr', F1. cbv iota in Hr', F1.
  change (SIZEOF_track_head =? 0) with false in Hr', F1. cbv iota in Hr', F1.
  destruct (N.lt_ge_cases SIZEOF_track_head (fm_payload_length hd)) as [Ebig | Ebig].
  { exfalso. rewrite rw_wr_body_fault in F1; [discriminate F1 |]. rewrite Hlen. exact Ebig. }
  split; [exact Ebig |]. cbv zeta.
  rewrite rw_wr_body_eq in Hr' by (rewrite Hlen; exact Ebig). cbv zeta in Hr'.
  set (hl := fm_payload_length hd) in *.
  set (body := firstn (N.to_nat hl) payload) in *.
  assert (Hlb : N.of_nat (length body) = hl) by (unfold body; rewrite firstn_length; lia).
  split; [exact Hlb |]. rewrite Hr'. clear Hr' F1.
  pose proof (rw_pad_le_136 hl Ebig) as Hp.
  replace (N.max (N.max e (ho + 32 + hl)) (ho + 32 + hl + (fm_pad_len hl + 4))) with e by (unfold SIZEOF_track_head in *; lia).
  rewrite rw_seek_eq by exact Hb. reflexivity.
Qed.

(* jls_raw_wr of the chunk the raw stands on (reader.c "rewrite last full chunk"): header, payload, pad + CRC at
   pos; the raw ends behind the chunk *)
Lemma rw_rewrite_eq : forall e hdr lpl disk pos h payload rr,
  pos <> 0 -> pos + 32 + fm_disk_len (fm_payload_length h) <= e -> N.of_nat (length payload) = fm_payload_length h ->
  rr = wm_raw_wr (wm_mk_raw pos e pos hdr lpl disk [] false) h payload ->
  wm_fault (fst rr) = false ->
  let pl := fm_payload_length h in
  snd rr = h /\
  wm_rlog (fst rr) = (if pl =? 0 then [WmWrite pos (fm_encode_chunk_header h)]
                      else [WmWrite (pos + 32 + pl) (wm_footer pl (crc32c payload)); WmWrite (pos + 32) payload;
                            WmWrite pos (fm_encode_chunk_header h)]) /\
  wm_fend (fst rr) = e /\ wm_fpos (fst rr) = pos + 32 + fm_disk_len pl /\ wm_offset (fst rr) = pos + 32 + fm_disk_len pl /\
  wm_hdr_valid (fst rr) = false.
Proof.
  intros e hdr lpl disk pos h payload rr Hpos Hle Hlen Hrr Hf. cbv zeta.
  unfold wm_raw_wr in Hrr. rewrite rw_wr_header_eq in Hrr. cbv zeta in Hrr.
  replace (e <=? pos) with false in Hrr by (symmetry; apply N.leb_gt; lia).
  rewrite (N.max_l e (pos + 32)) in Hrr by lia.
  set (r1 := wm_mk_raw (pos + 32) e pos h lpl ((pos, h) :: disk) [WmWrite pos (fm_encode_chunk_header h)] false) in Hrr.
  set (r2 := wm_raw_wr_payload r1 (fm_payload_length h) payload) in Hrr.
  assert (F2 : wm_fault r2 = false).
  { rewrite Hrr in Hf. cbn [fst] in Hf. exact Hf. }
  assert (R1 : wm_raw_rd_header r1 = r1).
  { apply rw_rd_header_self. unfold r2 in F2. rewrite rw_wr_payload_unfold in F2. cbv zeta in F2.
    destruct (wm_fault (wm_raw_rd_header r1)) eqn:F1; [cbv iota in F2; congruence | exact F1]. }
  assert (E2 : r2 = if fm_payload_length h =? 0 then (if e <=? pos + 32 then wm_set_last_pl r1 0 else r1)
                    else rw_wr_body r1 (fm_payload_length h) payload).
  { unfold r2. rewrite rw_wr_payload_unfold. cbv zeta. rewrite R1. reflexivity. }
  rewrite Hrr. cbn [fst snd]. split; [reflexivity |].
  destruct (fm_payload_length h =? 0) eqn:E0.
  - apply N.eqb_eq in E0. assert (D0 : fm_disk_len (fm_payload_length h) = 0) by (rewrite E0; reflexivity). rewrite D0 in *.
    rewrite E2. destruct (e <=? pos + 32); cbn; repeat split; try reflexivity; lia.
  - apply N.eqb_neq in E0. rewrite (rw_disk_len_nz _ E0) in *.
    rewrite E2. unfold r1. rewrite rw_wr_body_eq by lia. cbv zeta.
    replace (N.to_nat (fm_payload_length h)) with (length payload) by lia. rewrite firstn_all.
    set (pl := fm_payload_length h) in *.
    replace (N.max (N.max e (pos + 32 + pl)) (pos + 32 + pl + (fm_pad_len pl + 4))) with e by lia.
    cbn. repeat split; try reflexivity; lia.
Qed.

(* ================================================================ what a write does to the file *)
Lemma rw_apply_write_inplace : forall g off b, off + rp_len b <= rp_len g ->
  rp_apply (g, rp_len g) (WmWrite off b) = (firstn (N.to_nat off) g ++ b ++ skipn (N.to_nat off + length b) g, rp_len g).
Proof.
  intros g off b H. cbn [rp_apply fst snd]. unfold rp_apply_write. cbv zeta.
  destruct (rp_len g <=? off) eqn:E.
  - apply N.leb_le in E. assert (Hb : rp_len b = 0) by lia. assert (Ho : off = rp_len g) by lia.
    unfold rp_len in Hb. destruct b; [| cbn in Hb; lia].
    subst off. rewrite N.sub_diag. cbn [N.to_nat repeat app length]. unfold rp_len. rewrite Nat2N.id, firstn_all, Nat.add_0_r, skipn_all.
    rewrite !app_nil_r. f_equal. lia.
  - apply N.leb_gt in E. rewrite rr_take_eq, rr_skip_eq. f_equal; [| lia].
    f_equal. f_equal. f_equal. unfold rp_len in *. lia.
Qed.
Lemma rw_apply_write_append : forall g b,
  rp_apply (g, rp_len g) (WmWrite (rp_len g) b) = (g ++ b, rp_len g + rp_len b).
Proof.
  intros g b. cbn [rp_apply fst snd]. unfold rp_apply_write. cbv zeta. rewrite N.leb_refl, N.sub_diag. reflexivity.
Qed.
Lemma rw_hdr_at_written : forall g off h r, (N.to_nat off <= length g)%nat ->
  exists h', rw_hdr_at (firstn (N.to_nat off) g ++ fm_encode_chunk_header h ++ r) off = Some h' /\ rw_rest h' = rw_rest h /\
             fm_payload_length h' = fm_payload_length h mod 4294967296 /\ fm_tag h' = fm_tag h mod 256.
Proof.
  intros g off h r H. unfold rw_hdr_at. rewrite skipn_app_exact by (rewrite firstn_length; lia).
  destruct (rw_decode_encode h r) as (h' & A & B & _ & D & E). exists h'. repeat split; assumption.
Qed.

(* ================================================================ tracked chunks *)
(* a chunk the repair holds (read from the file, or appended by itself): its offset is 0 ("none"), or its 32
   bytes lie inside the file and its cached header is all zero (jls_track_repair_pointers sets the offset only)
   or agrees in bytes 8..27 with a CRC-valid header that stood at that offset *)
Definition rw_ck (hist : list (list N)) (n : N) (c : wm_chunk) : Prop :=
  wm_ck_offset c = 0 \/
  (wm_ck_offset c + 32 <= n /\
   (rw_rest (wm_ck_hdr c) = rw_rest wm_hdr0 \/ rw_seen hist (wm_ck_offset c) (rw_rest (wm_ck_hdr c)) = true)).
Lemma rw_ck_mono : forall hist hist' n n' c, incl hist hist' -> n <= n' -> rw_ck hist n c -> rw_ck hist' n' c.
Proof.
  intros hist hist' n n' c Hi Hn [H | (H1 & H2)]; [left; exact H | right].
  split; [lia |]. destruct H2 as [H2 | H2]; [left; exact H2 | right; eapply rw_seen_incl; eauto].
Qed.
Lemma rw_ck0 : forall hist n, rw_ck hist n wm_chunk0.
Proof. intros. left. reflexivity. Qed.
Lemma rw_ck_set_next : forall hist n c x, rw_ck hist n c ->
  rw_ck hist n {| wm_ck_offset := wm_ck_offset c; wm_ck_hdr := wm_hdr_set_next (wm_ck_hdr c) x |}.
Proof. intros hist n c x H. exact H. Qed.
Lemma rw_Forall_ck_mono : forall hist hist' n n' l, incl hist hist' -> n <= n' -> Forall (rw_ck hist n) l -> Forall (rw_ck hist' n') l.
Proof. intros hist hist' n n' l Hi Hn H. eapply Forall_impl; [| exact H]. intros c Hc. eapply rw_ck_mono; eauto. Qed.
Lemma rw_Forall_get : forall hist n l level, Forall (rw_ck hist n) l -> rw_ck hist n (wm_get_chunk l level).
Proof.
  intros hist n l level H. unfold wm_get_chunk. destruct (nth_in_or_default (N.to_nat level) l wm_chunk0) as [Hin | Hd].
  - rewrite Forall_forall in H. apply H. exact Hin.
  - rewrite Hd. apply rw_ck0.
Qed.

Section RW.
Variable f : list N.
Variable pos : N.

(* ================================================================ the classifier on one raw operation *)
Lemma rw_in_idle : forall (st : rw_st) off b (s : rw_stage) (k : nat),
  rw_stg st = RwIdle ->
  nth_error [rw_opt ((off =? 0) && fm_list_eqb b (wm_file_header_bytes (rw_n st))) RwDone;
             (if off =? rw_n st then match rw_is_app b with Some s => [s] | None => [] end else []);
             rw_opt (rw_is_link false (rw_hist st) (rw_n st) off b) RwIdle;
             rw_opt (rw_is_tbl false (rw_hist st) (rw_n st) off b) (RwTbl (off - 32) b)] k = Some [s] ->
  In s (rw_next false f pos st (WmWrite off b)).
Proof.
  intros st off b s k Hs Hk. cbn [rw_next]. rewrite Hs.
  destruct k as [| [| [| [| k]]]]; cbn [nth_error] in Hk; inversion Hk as [Hk'].
  - rewrite Hk'. now left.
  - rewrite Hk'. apply in_or_app. right. now left.
  - rewrite Hk'. apply in_or_app. right. apply in_or_app. right. now left.
  - rewrite Hk'. apply in_or_app. right. apply in_or_app. right. apply in_or_app. right. now left.
  - destruct k; discriminate Hk.
Qed.

(* a link: bytes 8..27 of the written header are those of a tracked chunk *)
Lemma rw_link_next : forall st co h,
  rw_stg st = RwIdle -> co <> 0 -> co + 32 <= rw_n st ->
  (rw_rest h = rw_rest wm_hdr0 \/ rw_seen (rw_hist st) co (rw_rest h) = true) ->
  In RwIdle (rw_next false f pos st (WmWrite co (fm_encode_chunk_header h))).
Proof.
  intros st co h Hs Hco Hle Hk. apply (rw_in_idle st co _ RwIdle 2%nat Hs). cbn [nth_error]. f_equal.
  unfold rw_opt. replace (rw_is_link false (rw_hist st) (rw_n st) co (fm_encode_chunk_header h)) with true; [reflexivity |].
  symmetry. unfold rw_is_link. cbv zeta.
  rewrite rw_encode_split.
  destruct (rw_hdr_bytes_parts (fm_enc_u64 (fm_item_next h)) (rw_rest h) [] (fm_enc_length _ _) (rw_rest_length h)) as (P1 & P2 & _).
  rewrite app_nil_r in P1, P2. rewrite P1, P2.
  replace (co =? 0) with false by (symmetry; apply N.eqb_neq; exact Hco).
  replace (co + 32 <=? rw_n st) with true by (symmetry; apply N.leb_le; exact Hle).
  replace (fm_list_eqb (rw_hdr_bytes (fm_enc_u64 (fm_item_next h)) (rw_rest h)) (rw_hdr_bytes (fm_enc_u64 (fm_item_next h)) (rw_rest h))) with true
    by (symmetry; apply fm_list_eqb_eq; reflexivity).
  cbn [negb andb]. destruct Hk as [Hk | Hk].
  - rewrite Hk. replace (fm_list_eqb (rw_rest wm_hdr0) (rw_rest wm_hdr0)) with true by (symmetry; apply fm_list_eqb_eq; reflexivity).
    apply orb_true_r.
  - rewrite Hk. reflexivity.
Qed.

End RW.
