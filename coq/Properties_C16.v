(* C16 - Signal definitions normalise to consistent, stable storage parameters.

   Model: SigDef.v (sd_validate, sd_defaults, sd_round_up, sd_fit_loop, sd_align =
   jls_core_signal_def_validate, signal_def_defaults, round_up_to_multiple, the while
   loop, jls_core_signal_def_align of /repo/src/core.c, uint32 wrap-around and division by
   zero explicit).  w = sample width = (data_type >> 8) & 0xff.

   FULL STATEMENT of the property (align_total) - FALSE on the current source:

     forall sid src ty dt d, in_range d ->
       sd_validate sid src ty dt <> 0                                    (rejected)
       \/ exists d', sd_align (sample_size dt) d = SdOk d'               (stored, no fault)
            /\ Consistent (sample_size dt) d'                            (relations, minimums, ts factors >= 1)
            /\ Entry256 (sample_size dt) d'                              (level-1 entry = multiple of 256 bits)
            /\ sd_align (sample_size dt) d' = SdOk d'.                   (normalising again changes nothing)

   It is refuted by C16_refuted_* below (division by zero = SIGFPE; entries_per_summary
   stored as 0; 24-bit types without defaults and with 240-bit entries; a consistent normal
   form whose re-normalisation divides by zero / changes it).

   PROVED VERSION.  C16_align_ok_partial adds exactly the guard [sd_guard w d]:
     (1) max(sample_decimate_factor', 10) + 256/w - 1 < 2^32        (rounding 1 does not wrap)
     (2) max(samples_per_data', 10) + sdf1 - 1 < 2^32                (rounding 3 does not wrap; sdf1 = result of 1)
     (3) max(entries_per_summary', 10) + max(summary_decimate_factor', 10) - 1 < 2^32   (rounding 2)
     (4) annotation_decimate_factor' <> 0 and utc_decimate_factor' <> 0
   where x' is the field after defaults.  (4) can only fail for the 24-bit types, which take
   no defaults.  No separate guard on the products is needed: ((x+m-1)/m)*m <= x+m-1.
   C16_align_guard_exact shows that the guard is the tightest possible: for in-range
   inputs it holds IF AND ONLY IF the C returns consistent parameters.  The "multiple of
   256 bits" clause is proved for every width but 24 (for 24 it holds iff the rounded
   factor is a multiple of 32: C16_entry256_24).
   C16_align_idem adds to "consistent" the two no-wrap conditions of the second pass
   (spd + sdf - 1 < 2^32, eps + sumdf - 1 < 2^32) and, for 24-bit, the C's own grid
   (sdf multiple of 256/24 = 10); C16_refuted_idem shows they cannot be dropped. *)
From Coq Require Import NArith List Bool.
From JLS Require Import Generated SigDef SigDefProofs.
Import ListNotations.
Local Open Scope N_scope.

(* the definition of Consistent, written out *)
Theorem C16_Consistent_is : forall w d,
  Consistent w d <->
  ( (sdf d * w) mod 8 = 0 /\
    ((SAMPLE_SIZE_BYTES_MAX * 8) mod w = 0 -> (sdf d * w) mod (SAMPLE_SIZE_BYTES_MAX * 8) = 0) /\
    (sdf d <> 0 /\ spd d mod sdf d = 0) /\
    (spd d / sdf d <> 0 /\ eps d mod (spd d / sdf d) = 0) /\
    (sumdf d <> 0 /\ eps d mod sumdf d = 0) /\
    SAMPLES_PER_DATA_MIN <= spd d /\ SAMPLE_DECIMATE_FACTOR_MIN <= sdf d /\
    ENTRIES_PER_SUMMARY_MIN <= eps d /\ SUMMARY_DECIMATE_FACTOR_MIN <= sumdf d /\
    1 <= anno d /\ 1 <= utc d ).
Proof. exact (fun w d => conj (fun H => H) (fun H => H)). Qed.
Print Assumptions C16_Consistent_is.

(* under the no-overflow guard the C stores consistent parameters, for all 7 widths *)
Theorem C16_align_ok_partial : forall w d, In w [1; 4; 8; 16; 24; 32; 64] ->
  let d1 := sd_defaults w d in
  let m := (SAMPLE_SIZE_BYTES_MAX * 8) / w in
  let sdf0 := N.max (sdf d1) SAMPLE_DECIMATE_FACTOR_MIN in
  let sdf1 := (sdf0 + m - 1) / m * m in
  ( sdf0 + m - 1 < 2 ^ 32 /\
    N.max (spd d1) SAMPLES_PER_DATA_MIN + sdf1 - 1 < 2 ^ 32 /\
    N.max (eps d1) ENTRIES_PER_SUMMARY_MIN + N.max (sumdf d1) SUMMARY_DECIMATE_FACTOR_MIN - 1 < 2 ^ 32 /\
    (anno d1 <> 0 /\ utc d1 <> 0) ) ->
  exists d', sd_align w d = SdOk d' /\
    ( (sdf d' * w) mod 8 = 0 /\
      ((SAMPLE_SIZE_BYTES_MAX * 8) mod w = 0 -> (sdf d' * w) mod (SAMPLE_SIZE_BYTES_MAX * 8) = 0) /\
      (sdf d' <> 0 /\ spd d' mod sdf d' = 0) /\
      (spd d' / sdf d' <> 0 /\ eps d' mod (spd d' / sdf d') = 0) /\
      (sumdf d' <> 0 /\ eps d' mod sumdf d' = 0) /\
      SAMPLES_PER_DATA_MIN <= spd d' /\ SAMPLE_DECIMATE_FACTOR_MIN <= sdf d' /\
      ENTRIES_PER_SUMMARY_MIN <= eps d' /\ SUMMARY_DECIMATE_FACTOR_MIN <= sumdf d' /\
      1 <= anno d' /\ 1 <= utc d' ) /\
    (w <> 24 -> (sdf d' * w) mod (SAMPLE_SIZE_BYTES_MAX * 8) = 0) /\
    sdf d' mod ((SAMPLE_SIZE_BYTES_MAX * 8) / w) = 0 /\
    spd d' < 2 ^ 32 /\ sdf d' < 2 ^ 32 /\ eps d' < 2 ^ 32.
Proof. exact align_ok_partial. Qed.
Print Assumptions C16_align_ok_partial.

(* the guard is exact: for in-range inputs, "the C returns (no fault) and what it returns
   is consistent" holds if and only if the guard holds *)
Theorem C16_align_guard_exact : forall w d, In w [1; 4; 8; 16; 24; 32; 64] ->
  (spd d < 2 ^ 32 /\ sdf d < 2 ^ 32 /\ eps d < 2 ^ 32 /\ sumdf d < 2 ^ 32 /\ anno d < 2 ^ 32 /\ utc d < 2 ^ 32) ->
  ( (exists d', sd_align w d = SdOk d' /\ Consistent w d') <->
    let d1 := sd_defaults w d in
    let m := (SAMPLE_SIZE_BYTES_MAX * 8) / w in
    let sdf0 := N.max (sdf d1) SAMPLE_DECIMATE_FACTOR_MIN in
    let sdf1 := (sdf0 + m - 1) / m * m in
    ( sdf0 + m - 1 < 2 ^ 32 /\
      N.max (spd d1) SAMPLES_PER_DATA_MIN + sdf1 - 1 < 2 ^ 32 /\
      N.max (eps d1) ENTRIES_PER_SUMMARY_MIN + N.max (sumdf d1) SUMMARY_DECIMATE_FACTOR_MIN - 1 < 2 ^ 32 /\
      (anno d1 <> 0 /\ utc d1 <> 0) ) ).
Proof. exact align_ok_iff. Qed.
Print Assumptions C16_align_guard_exact.

(* 24-bit samples: the stored level-1 entry is a multiple of 256 bits iff the stored factor
   (always a multiple of 10) is also a multiple of 32 *)
Theorem C16_entry256_24 : forall d, (sdf d * 24) mod (SAMPLE_SIZE_BYTES_MAX * 8) = 0 <-> sdf d mod 32 = 0.
Proof. exact entry256_24. Qed.
Print Assumptions C16_entry256_24.

(* normalising normalised parameters changes nothing *)
Theorem C16_align_idem : forall w d, In w [1; 4; 8; 16; 24; 32; 64] ->
  Consistent w d ->
  sdf d mod ((SAMPLE_SIZE_BYTES_MAX * 8) / w) = 0 ->
  spd d + sdf d - 1 < 2 ^ 32 -> eps d + sumdf d - 1 < 2 ^ 32 ->
  sd_align w d = SdOk d.
Proof. exact align_idem. Qed.
Print Assumptions C16_align_idem.

(* a file written from a definition read out of another file uses identical parameters,
   provided the second normalisation's two roundings do not wrap *)
Theorem C16_align_twice : forall w d d', In w [1; 4; 8; 16; 24; 32; 64] ->
  sd_guard w d -> sd_align w d = SdOk d' ->
  spd d' + sdf d' - 1 < 2 ^ 32 -> eps d' + sumdf d' - 1 < 2 ^ 32 ->
  sd_align w d' = SdOk d'.
Proof. exact align_twice. Qed.
Print Assumptions C16_align_twice.

(* zero fields take the per-width defaults (annotation/utc: the 32-bit table's) *)
Theorem C16_align_defaults : forall w d, In w [1; 4; 8; 16; 24; 32; 64] -> w <> 24 ->
  exists t, sd_table w = Some t /\
    (spd t <> 0 /\ sdf t <> 0 /\ eps t <> 0 /\ sumdf t <> 0 /\ anno t <> 0 /\ utc t <> 0) /\
    let d1 := mkSigDef (if spd d =? 0 then spd t else spd d) (if sdf d =? 0 then sdf t else sdf d)
                       (if eps d =? 0 then eps t else eps d) (if sumdf d =? 0 then sumdf t else sumdf d)
                       (if anno d =? 0 then anno t else anno d) (if utc d =? 0 then utc t else utc d) in
    sd_defaults w d = d1 /\ sd_defaults w d1 = d1 /\ sd_align w d = sd_align w d1.
Proof. exact align_defaults. Qed.
Print Assumptions C16_align_defaults.

Theorem C16_defaults_normal_forms :
  sd_align 1 sd_zero = SdOk (mkSigDef DEF1_samples_per_data DEF1_sample_decimate_factor DEF1_entries_per_summary DEF1_summary_decimate_factor DEF32_annotation_decimate_factor DEF32_utc_decimate_factor) /\
  sd_align 4 sd_zero = SdOk (mkSigDef DEF4_samples_per_data DEF4_sample_decimate_factor DEF4_entries_per_summary DEF4_summary_decimate_factor DEF32_annotation_decimate_factor DEF32_utc_decimate_factor) /\
  sd_align 8 sd_zero = SdOk (mkSigDef DEF8_samples_per_data DEF8_sample_decimate_factor DEF8_entries_per_summary DEF8_summary_decimate_factor DEF32_annotation_decimate_factor DEF32_utc_decimate_factor) /\
  sd_align 16 sd_zero = SdOk (mkSigDef DEF16_samples_per_data DEF16_sample_decimate_factor DEF16_entries_per_summary DEF16_summary_decimate_factor DEF32_annotation_decimate_factor DEF32_utc_decimate_factor) /\
  sd_align 32 sd_zero = SdOk (mkSigDef DEF32_samples_per_data DEF32_sample_decimate_factor DEF32_entries_per_summary DEF32_summary_decimate_factor DEF32_annotation_decimate_factor DEF32_utc_decimate_factor) /\
  sd_align 64 sd_zero = SdOk (mkSigDef DEF64_samples_per_data DEF64_sample_decimate_factor DEF64_entries_per_summary DEF64_summary_decimate_factor DEF32_annotation_decimate_factor DEF32_utc_decimate_factor).
Proof. exact defaults_normal_forms. Qed.
Print Assumptions C16_defaults_normal_forms.

(* a definition that passes validation has one of the 7 widths *)
Theorem C16_validate_width : forall sid src ty dt,
  sd_validate sid src ty dt = 0 -> In (sample_size dt) [1; 4; 8; 16; 24; 32; 64].
Proof. exact validate_ok_width. Qed.
Print Assumptions C16_validate_width.

(* the loop: with fuel = entries_per_data it never runs out of fuel (it terminates for
   entries_per_data >= 1 with the largest divisor of entries_per_summary below it, and
   divides by zero for entries_per_data = 0) *)
Theorem C16_loop_terminates : forall e epd, 1 <= epd ->
  exists k, sd_fit_loop (N.to_nat epd) e epd = SdOk k /\
    1 <= k /\ k <= epd /\ e mod k = 0 /\ (forall j, 1 <= j -> j <= epd -> e mod j = 0 -> j <= k).
Proof. exact fit_loop_total. Qed.
Print Assumptions C16_loop_terminates.

Theorem C16_loop_never_nonterm : forall e epd, sd_fit_loop (N.to_nat epd) e epd <> SdFault SdNonterm.
Proof. exact fit_loop_never_nonterm. Qed.
Print Assumptions C16_loop_never_nonterm.

(* what the correspondence run executes (extracted sd_align_fast) is the model, on all inputs *)
Theorem C16_extracted_is_model : forall w d, sd_align_fast w d = sd_align w d.
Proof. exact align_fast_eq. Qed.
Print Assumptions C16_extracted_is_model.

(* the executable oracles evaluated on the implementation's output reflect the propositions *)
Theorem C16_consistentb_reflects : forall w d, consistentb w d = true <-> Consistent w d.
Proof. exact consistentb_iff. Qed.
Print Assumptions C16_consistentb_reflects.

Theorem C16_guardb_reflects : forall w d, sd_guardb w d = true <-> sd_guard w d.
Proof. exact guardb_iff. Qed.
Print Assumptions C16_guardb_reflects.

(* --- hypotheses are satisfiable --- *)
Example C16_defaults_meet_guard : forall w, In w [1; 4; 8; 16; 24; 32; 64] -> w <> 24 -> sd_guard w sd_zero.
Proof. exact defaults_meet_guard. Qed.
Print Assumptions C16_defaults_meet_guard.

Example C16_guard_example :
  sd_guard 32 (mkSigDef 1000 100 33 17 3 3) /\
  sd_align 32 (mkSigDef 1000 100 33 17 3 3) = SdOk (mkSigDef 208 104 34 17 3 3).
Proof. exact guard_example. Qed.
Print Assumptions C16_guard_example.

Example C16_guard_example_24 :
  sd_guard 24 (mkSigDef 100 11 100 10 5 5) /\
  sd_align 24 (mkSigDef 100 11 100 10 5 5) = SdOk (mkSigDef 100 20 100 10 5 5).
Proof. exact guard_example_24. Qed.
Print Assumptions C16_guard_example_24.

Example C16_idem_example :
  let d := mkSigDef 8192 128 640 20 100 100 in
  In 32 [1; 4; 8; 16; 24; 32; 64] /\ Consistent 32 d /\ sdf d mod ((SAMPLE_SIZE_BYTES_MAX * 8) / 32) = 0 /\
  spd d + sdf d - 1 < 2 ^ 32 /\ eps d + sumdf d - 1 < 2 ^ 32.
Proof. exact idem_example. Qed.
Print Assumptions C16_idem_example.

(* --- the unguarded statement is false of the current source --- *)

(* SIGFPE: u64, sample_decimate_factor = 2^32-6 (rounding of samples_per_data wraps to 0) *)
Theorem C16_refuted_divzero_spd :
  sd_validate 1 1 JLS_SIGNAL_TYPE_FSR JLS_DATATYPE_U64 = 0 /\
  in_range (mkSigDef 0 4294967290 0 0 0 0) /\
  sd_align (sample_size JLS_DATATYPE_U64) (mkSigDef 0 4294967290 0 0 0 0) = SdFault SdDivZero.
Proof. exact refuted_divzero_spd. Qed.
Print Assumptions C16_refuted_divzero_spd.

(* SIGFPE: f32, sample_decimate_factor = 2^32-1 (its own rounding wraps to 0) *)
Theorem C16_refuted_divzero_sdf :
  sd_validate 1 1 JLS_SIGNAL_TYPE_FSR JLS_DATATYPE_F32 = 0 /\
  in_range (mkSigDef 0 4294967295 0 0 0 0) /\
  sd_align (sample_size JLS_DATATYPE_F32) (mkSigDef 0 4294967295 0 0 0 0) = SdFault SdDivZero.
Proof. exact refuted_divzero_sdf. Qed.
Print Assumptions C16_refuted_divzero_sdf.

(* f32, entries_per_summary = 2^32-1: wraps to 0 and is stored as 0 *)
Theorem C16_refuted_eps_zero :
  sd_validate 1 1 JLS_SIGNAL_TYPE_FSR JLS_DATATYPE_F32 = 0 /\
  in_range (mkSigDef 0 0 4294967295 0 0 0) /\
  sd_align (sample_size JLS_DATATYPE_F32) (mkSigDef 0 0 4294967295 0 0 0) = SdOk (mkSigDef 8192 128 0 20 100 100) /\
  ~ Consistent (sample_size JLS_DATATYPE_F32) (mkSigDef 8192 128 0 20 100 100).
Proof. exact refuted_eps_zero. Qed.
Print Assumptions C16_refuted_eps_zero.

(* i24, all-default definition: no defaults, annotation/utc factors 0, 240-bit entries *)
Theorem C16_refuted_24bit :
  sd_validate 1 1 JLS_SIGNAL_TYPE_FSR JLS_DATATYPE_I24 = 0 /\
  sd_align (sample_size JLS_DATATYPE_I24) sd_zero = SdOk (mkSigDef 10 10 10 10 0 0) /\
  ~ Consistent (sample_size JLS_DATATYPE_I24) (mkSigDef 10 10 10 10 0 0) /\
  ~ Entry256 (sample_size JLS_DATATYPE_I24) (mkSigDef 10 10 10 10 0 0).
Proof. exact refuted_24bit. Qed.
Print Assumptions C16_refuted_24bit.

(* 24-bit inside the guard: consistent, but the level-1 entry is 480 bits *)
Theorem C16_refuted_24bit_entry256 :
  sd_guard 24 (mkSigDef 100 11 100 10 5 5) /\
  sd_align 24 (mkSigDef 100 11 100 10 5 5) = SdOk (mkSigDef 100 20 100 10 5 5) /\
  Consistent 24 (mkSigDef 100 20 100 10 5 5) /\ ~ Entry256 24 (mkSigDef 100 20 100 10 5 5).
Proof. exact refuted_24bit_entry256. Qed.
Print Assumptions C16_refuted_24bit_entry256.

(* "consistent and in range" alone does not make normalisation the identity *)
Theorem C16_refuted_idem :
  let d := mkSigDef 3221225472 3221225472 10 10 100 100 in
  Consistent 64 d /\ in_range d /\ sdf d mod sd_multiple 64 = 0 /\ sd_align 64 d = SdFault SdDivZero.
Proof. exact refuted_idem_consistent_only. Qed.
Print Assumptions C16_refuted_idem.

(* a guarded definition whose stored form faults when it is defined again (second file) *)
Theorem C16_refuted_twice_divzero :
  let d := mkSigDef 10 3221225472 10 10 0 0 in
  let d' := mkSigDef 3221225472 3221225472 10 10 100 100 in
  sd_guard 64 d /\ sd_align 64 d = SdOk d' /\ Consistent 64 d' /\ sd_align 64 d' = SdFault SdDivZero.
Proof. exact refuted_twice_divzero. Qed.
Print Assumptions C16_refuted_twice_divzero.

(* ... or is stored differently (entries_per_summary becomes 0) *)
Theorem C16_refuted_twice_changes :
  let d := mkSigDef 0 0 10 2147483649 0 0 in
  let d' := mkSigDef 384 128 2147483649 2147483649 100 100 in
  sd_guard 32 d /\ sd_align 32 d = SdOk d' /\ Consistent 32 d' /\
  sd_align 32 d' = SdOk (mkSigDef 384 128 0 2147483649 100 100).
Proof. exact refuted_twice_changes. Qed.
Print Assumptions C16_refuted_twice_changes.
