(* C16 - Signal definitions normalise to consistent, stable storage parameters.

   Model: SigDef.v.  sd_validate, sd_defaults, sd_round_up, sd_fit_loop, sd_align model
   jls_core_signal_def_validate, signal_def_defaults, round_up_to_multiple, the while loop
   and jls_core_signal_def_align of the CURRENT /repo/src/core.c (after the fixes 591c3d3,
   e7caa59 and 9149f75).  w = sample width = (data_type >> 8) & 0xff.  A definition is either
   stored (SdOk d'), rejected (SdErr JLS_ERROR_PARAMETER_INVALID) - or, only for the width 0
   that validation never lets through, divides by zero (SdFault).

   The property is proved at full strength, no guard:
     C16_align_total     every definition (7 widths, all 32-bit field values) is either rejected
                         with PARAMETER_INVALID or stored with parameters that satisfy every
                         relation - including "a level-1 entry covers a multiple of 256 bits"
                         for every width, 24 included - and all minimums (annotation/sd_utc
                         decimate factors >= 10 too).  Never a fault.
     C16_align_exact     exactly which definitions are rejected (a rounding result or a buffer
                         byte size that does not fit) and exactly what is stored otherwise.
     C16_align_idem      align (align d) = align d: whatever is stored is stored again
                         unchanged (second file = same parameters), unconditionally.
     C16_align_defaults  zero fields take the per-width defaults, 24-bit types included.
   The behaviour before the fixes is kept as sd_align_old; C16_old_* are the machine-checked
   witnesses of the five defect classes that were fixed. *)
From Coq Require Import NArith List Bool.
From JLS Require Import Generated SigDef SigDefProofs.
Import ListNotations.
Local Open Scope N_scope.

(* the definition of Consistent, written out *)
Theorem C16_Consistent_is : forall w d,
  Consistent w d <->
  ( (sdf d * w) mod 8 = 0 /\
    (sdf d * w) mod (SAMPLE_SIZE_BYTES_MAX * 8) = 0 /\
    (sdf d <> 0 /\ spd d mod sdf d = 0) /\
    (spd d / sdf d <> 0 /\ eps d mod (spd d / sdf d) = 0) /\
    (sumdf d <> 0 /\ eps d mod sumdf d = 0) /\
    SAMPLES_PER_DATA_MIN <= spd d /\ SAMPLE_DECIMATE_FACTOR_MIN <= sdf d /\
    ENTRIES_PER_SUMMARY_MIN <= eps d /\ SUMMARY_DECIMATE_FACTOR_MIN <= sumdf d /\
    SUMMARY_DECIMATE_FACTOR_MIN <= sd_anno d /\ SUMMARY_DECIMATE_FACTOR_MIN <= sd_utc d ).
Proof. exact (fun w d => conj (fun H => H) (fun H => H)). Qed.
Print Assumptions C16_Consistent_is.

(* THE PROPERTY: stored consistent, or rejected - for every width and every 32-bit input *)
Theorem C16_align_total : forall w d, In w [1; 4; 8; 16; 24; 32; 64] ->
  (spd d < 2 ^ 32 /\ sdf d < 2 ^ 32 /\ eps d < 2 ^ 32 /\ sumdf d < 2 ^ 32 /\ sd_anno d < 2 ^ 32 /\ sd_utc d < 2 ^ 32) ->
  (exists d', sd_align w d = SdOk d' /\
     ( (sdf d' * w) mod 8 = 0 /\
       (sdf d' * w) mod (SAMPLE_SIZE_BYTES_MAX * 8) = 0 /\
       (sdf d' <> 0 /\ spd d' mod sdf d' = 0) /\
       (spd d' / sdf d' <> 0 /\ eps d' mod (spd d' / sdf d') = 0) /\
       (sumdf d' <> 0 /\ eps d' mod sumdf d' = 0) /\
       SAMPLES_PER_DATA_MIN <= spd d' /\ SAMPLE_DECIMATE_FACTOR_MIN <= sdf d' /\
       ENTRIES_PER_SUMMARY_MIN <= eps d' /\ SUMMARY_DECIMATE_FACTOR_MIN <= sumdf d' /\
       SUMMARY_DECIMATE_FACTOR_MIN <= sd_anno d' /\ SUMMARY_DECIMATE_FACTOR_MIN <= sd_utc d' ) /\
     (spd d' < 2 ^ 32 /\ sdf d' < 2 ^ 32 /\ eps d' < 2 ^ 32 /\ sumdf d' < 2 ^ 32 /\ sd_anno d' < 2 ^ 32 /\ sd_utc d' < 2 ^ 32) /\
     (spd d' * w / 8 <= (2 ^ 32 - 1) / 2 /\
      eps d' * JLS_SUMMARY_FSR_COUNT * SD_SIZEOF_DOUBLE <= (2 ^ 32 - 1) / 2)) \/
  sd_align w d = SdErr JLS_ERROR_PARAMETER_INVALID.
Proof. exact align_total. Qed.
Print Assumptions C16_align_total.

(* exactly what is accepted and what is stored.  sdf1/eps1/spd1 = the three roundings computed
   without any wrap, k = largest divisor of eps1 that is <= spd1/sdf1 *)
Theorem C16_align_exact : forall w d, In w [1; 4; 8; 16; 24; 32; 64] ->
  let d1 := sd_defaults w d in
  let m := if w =? 24 then 32 else (SAMPLE_SIZE_BYTES_MAX * 8) / w in
  let sdf0 := N.max (sdf d1) SAMPLE_DECIMATE_FACTOR_MIN in
  let sdf1 := (sdf0 + m - 1) / m * m in
  let sumdf1 := N.max (sumdf d1) SUMMARY_DECIMATE_FACTOR_MIN in
  let eps0 := N.max (eps d1) ENTRIES_PER_SUMMARY_MIN in
  let eps1 := (eps0 + sumdf1 - 1) / sumdf1 * sumdf1 in
  let spd0 := N.max (spd d1) SAMPLES_PER_DATA_MIN in
  let spd1 := (spd0 + sdf1 - 1) / sdf1 * sdf1 in
  let k := sd_fit_fast eps1 (spd1 / sdf1) in
  let accepted := sdf1 <= 2 ^ 32 - 1 /\ eps1 <= 2 ^ 32 - 1 /\ spd1 <= 2 ^ 32 - 1 /\
                  sdf1 * k * w / 8 <= (2 ^ 32 - 1) / 2 /\
                  eps1 * JLS_SUMMARY_FSR_COUNT * SD_SIZEOF_DOUBLE <= (2 ^ 32 - 1) / 2 in
  (accepted /\ sd_align w d = SdOk (mkSigDef (sdf1 * k) sdf1 eps1 sumdf1 (sd_anno d1) (sd_utc d1))) \/
  (~ accepted /\ sd_align w d = SdErr JLS_ERROR_PARAMETER_INVALID).
Proof. exact align_exact. Qed.
Print Assumptions C16_align_exact.

(* ... where k is what the loop computes: the largest divisor of e not above epd *)
Theorem C16_fit_fast_is_loop : forall e epd, e < 2 ^ 32 -> 1 <= epd ->
  sd_fit_loop (N.to_nat epd) e epd = SdOk (sd_fit_fast e epd) /\
  1 <= sd_fit_fast e epd /\ sd_fit_fast e epd <= epd /\ e mod sd_fit_fast e epd = 0 /\
  (forall j, 1 <= j -> j <= epd -> e mod j = 0 -> j <= sd_fit_fast e epd).
Proof. exact (fun e epd H1 H2 => conj (fit_fast_eq e epd H1 H2) (fit_fast_largest e epd H1 H2)). Qed.
Print Assumptions C16_fit_fast_is_loop.

(* the rejection branch is not the whole story: moderate parameters are always accepted *)
Theorem C16_align_accepts_moderate : forall w d, In w [1; 4; 8; 16; 24; 32; 64] ->
  spd d <= 16777216 -> sdf d <= 16777216 -> eps d <= 16777216 -> sumdf d <= 16777216 ->
  exists d', sd_align w d = SdOk d'.
Proof. exact align_accepts_moderate. Qed.
Print Assumptions C16_align_accepts_moderate.

(* normalising normalised parameters changes nothing - no side condition *)
Theorem C16_align_idem : forall w d d', In w [1; 4; 8; 16; 24; 32; 64] ->
  sd_align w d = SdOk d' -> sd_align w d' = SdOk d'.
Proof. exact align_idem. Qed.
Print Assumptions C16_align_idem.

(* the same for any consistent definition that fits 32 bits and the buffer-size limits,
   wherever it comes from *)
Theorem C16_align_idem_consistent : forall w d, In w [1; 4; 8; 16; 24; 32; 64] ->
  Consistent w d -> spd d < 2 ^ 32 -> eps d < 2 ^ 32 ->
  (spd d * w / 8 <= (2 ^ 32 - 1) / 2 /\ eps d * JLS_SUMMARY_FSR_COUNT * SD_SIZEOF_DOUBLE <= (2 ^ 32 - 1) / 2) ->
  sd_align w d = SdOk d.
Proof. exact align_idem_consistent. Qed.
Print Assumptions C16_align_idem_consistent.

(* zero fields take the per-width defaults (annotation/sd_utc: the 32-bit table's, then raised to the
   minimum), all 7 widths *)
Theorem C16_align_defaults : forall w d, In w [1; 4; 8; 16; 24; 32; 64] ->
  exists t, sd_table w = Some t /\
    (spd t <> 0 /\ sdf t <> 0 /\ eps t <> 0 /\ sumdf t <> 0 /\ sd_anno t <> 0 /\ sd_utc t <> 0) /\
    let d1 := mkSigDef (if spd d =? 0 then spd t else spd d) (if sdf d =? 0 then sdf t else sdf d)
                       (if eps d =? 0 then eps t else eps d) (if sumdf d =? 0 then sumdf t else sumdf d)
                       (N.max (if sd_anno d =? 0 then sd_anno t else sd_anno d) SUMMARY_DECIMATE_FACTOR_MIN)
                       (N.max (if sd_utc d =? 0 then sd_utc t else sd_utc d) SUMMARY_DECIMATE_FACTOR_MIN) in
    sd_defaults w d = d1 /\ sd_defaults w d1 = d1 /\ sd_align w d = sd_align w d1.
Proof. exact align_defaults. Qed.
Print Assumptions C16_align_defaults.

Theorem C16_defaults_normal_forms :
  sd_align 1 sd_zero = SdOk (mkSigDef DEF1_samples_per_data DEF1_sample_decimate_factor DEF1_entries_per_summary DEF1_summary_decimate_factor DEF32_annotation_decimate_factor DEF32_utc_decimate_factor) /\
  sd_align 4 sd_zero = SdOk (mkSigDef DEF4_samples_per_data DEF4_sample_decimate_factor DEF4_entries_per_summary DEF4_summary_decimate_factor DEF32_annotation_decimate_factor DEF32_utc_decimate_factor) /\
  sd_align 8 sd_zero = SdOk (mkSigDef DEF8_samples_per_data DEF8_sample_decimate_factor DEF8_entries_per_summary DEF8_summary_decimate_factor DEF32_annotation_decimate_factor DEF32_utc_decimate_factor) /\
  sd_align 16 sd_zero = SdOk (mkSigDef DEF16_samples_per_data DEF16_sample_decimate_factor DEF16_entries_per_summary DEF16_summary_decimate_factor DEF32_annotation_decimate_factor DEF32_utc_decimate_factor) /\
  sd_align 24 sd_zero = SdOk (mkSigDef DEF32_samples_per_data DEF32_sample_decimate_factor DEF32_entries_per_summary DEF32_summary_decimate_factor DEF32_annotation_decimate_factor DEF32_utc_decimate_factor) /\
  sd_align 32 sd_zero = SdOk (mkSigDef DEF32_samples_per_data DEF32_sample_decimate_factor DEF32_entries_per_summary DEF32_summary_decimate_factor DEF32_annotation_decimate_factor DEF32_utc_decimate_factor) /\
  sd_align 64 sd_zero = SdOk (mkSigDef DEF64_samples_per_data DEF64_sample_decimate_factor DEF64_entries_per_summary DEF64_summary_decimate_factor DEF32_annotation_decimate_factor DEF32_utc_decimate_factor).
Proof. exact defaults_normal_forms. Qed.
Print Assumptions C16_defaults_normal_forms.

(* a definition that passes validation has one of the 7 widths *)
Theorem C16_validate_width : forall sid src ty dt,
  sd_validate sid src ty dt = 0 -> In (sample_size dt) [1; 4; 8; 16; 24; 32; 64].
Proof. exact validate_ok_width. Qed.
Print Assumptions C16_validate_width.

(* the loop: with fuel = entries_per_data it never runs out of fuel *)
Theorem C16_loop_terminates : forall e epd, 1 <= epd ->
  exists k, sd_fit_loop (N.to_nat epd) e epd = SdOk k /\
    1 <= k /\ k <= epd /\ e mod k = 0 /\ (forall j, 1 <= j -> j <= epd -> e mod j = 0 -> j <= k).
Proof. exact fit_loop_total. Qed.
Print Assumptions C16_loop_terminates.

Theorem C16_loop_never_nonterm : forall e epd, sd_fit_loop (N.to_nat epd) e epd <> SdFault SdNonterm.
Proof. exact fit_loop_never_nonterm. Qed.
Print Assumptions C16_loop_never_nonterm.

(* what the correspondence run executes (extracted sd_align_fast) is the model, on all inputs *)
Theorem C16_extracted_is_model : forall w d, sd_align_fast w d = sd_align w d.
Proof. exact align_fast_eq. Qed.
Print Assumptions C16_extracted_is_model.

(* the executable oracle evaluated on the implementation's output reflects the proposition *)
Theorem C16_consistentb_reflects : forall w d, consistentb w d = true <-> Consistent w d.
Proof. exact consistentb_iff. Qed.
Print Assumptions C16_consistentb_reflects.

(* --- concrete instances --- *)
Example C16_align_examples :
  sd_align 32 (mkSigDef 1000 100 33 17 3 3) = SdOk (mkSigDef 208 104 34 17 10 10) /\
  sd_align 24 (mkSigDef 100 11 100 10 5 5) = SdOk (mkSigDef 128 32 100 10 10 10) /\
  Consistent 24 (mkSigDef 128 32 100 10 10 10).
Proof. exact align_examples. Qed.
Print Assumptions C16_align_examples.

Example C16_reject_examples :
  sd_align 32 (mkSigDef 0 4294967295 0 0 0 0) = SdErr JLS_ERROR_PARAMETER_INVALID /\
  sd_align 64 (mkSigDef 536870912 128 4194304 16 0 0) = SdErr JLS_ERROR_PARAMETER_INVALID /\
  sd_align 32 (mkSigDef 0 0 70000000 0 0 0) = SdErr JLS_ERROR_PARAMETER_INVALID.
Proof. exact reject_examples. Qed.
Print Assumptions C16_reject_examples.

Example C16_idem_example :
  let d := mkSigDef 8192 128 640 20 100 100 in
  In 32 [1; 4; 8; 16; 24; 32; 64] /\ Consistent 32 d /\ spd d < 2 ^ 32 /\ eps d < 2 ^ 32 /\
  (spd d * 32 / 8 <= (2 ^ 32 - 1) / 2 /\ eps d * JLS_SUMMARY_FSR_COUNT * SD_SIZEOF_DOUBLE <= (2 ^ 32 - 1) / 2).
Proof. exact idem_example. Qed.
Print Assumptions C16_idem_example.

(* --- the five defect classes fixed in /repo: behaviour before (sd_align_old) and now --- *)

(* sd_sigdef-overflow-divzero *)
Theorem C16_old_divzero :
  sd_validate 1 1 JLS_SIGNAL_TYPE_FSR JLS_DATATYPE_U64 = 0 /\
  sd_align_old (sample_size JLS_DATATYPE_U64) (mkSigDef 0 4294967290 0 0 0 0) = SdFault SdDivZero /\
  sd_align (sample_size JLS_DATATYPE_U64) (mkSigDef 0 4294967290 0 0 0 0) = SdErr JLS_ERROR_PARAMETER_INVALID /\
  sd_align_old (sample_size JLS_DATATYPE_F32) (mkSigDef 0 4294967295 0 0 0 0) = SdFault SdDivZero /\
  sd_align (sample_size JLS_DATATYPE_F32) (mkSigDef 0 4294967295 0 0 0 0) = SdErr JLS_ERROR_PARAMETER_INVALID.
Proof. exact old_divzero. Qed.
Print Assumptions C16_old_divzero.

(* sd_sigdef-overflow-inconsistent *)
Theorem C16_old_eps_zero :
  sd_align_old 32 (mkSigDef 0 0 4294967295 0 0 0) = SdOk (mkSigDef 8192 128 0 20 100 100) /\
  ~ Consistent 32 (mkSigDef 8192 128 0 20 100 100) /\
  sd_align 32 (mkSigDef 0 0 4294967295 0 0 0) = SdErr JLS_ERROR_PARAMETER_INVALID.
Proof. exact old_eps_zero. Qed.
Print Assumptions C16_old_eps_zero.

(* sd_sigdef-24bit-zero-ts-factors, sd_sigdef-24bit-not-256-multiple *)
Theorem C16_old_24bit :
  sd_align_old 24 sd_zero = SdOk (mkSigDef 10 10 10 10 0 0) /\
  ~ (SUMMARY_DECIMATE_FACTOR_MIN <= sd_anno (mkSigDef 10 10 10 10 0 0)) /\ ~ Entry256 24 (mkSigDef 10 10 10 10 0 0) /\
  sd_align_old 24 (mkSigDef 100 11 100 10 5 5) = SdOk (mkSigDef 100 20 100 10 5 5) /\
  ~ Entry256 24 (mkSigDef 100 20 100 10 5 5) /\
  sd_align 24 sd_zero = SdOk (mkSigDef 8192 128 640 20 100 100) /\
  sd_align 24 (mkSigDef 100 11 100 10 5 5) = SdOk (mkSigDef 128 32 100 10 10 10).
Proof. exact old_24bit. Qed.
Print Assumptions C16_old_24bit.

(* sd_sigdef-renormalise-overflow *)
Theorem C16_old_renormalise :
  sd_align_old 64 (mkSigDef 10 3221225472 10 10 0 0) = SdOk (mkSigDef 3221225472 3221225472 10 10 100 100) /\
  Consistent 64 (mkSigDef 3221225472 3221225472 10 10 100 100) /\
  sd_align_old 64 (mkSigDef 3221225472 3221225472 10 10 100 100) = SdFault SdDivZero /\
  sd_align_old 32 (mkSigDef 0 0 10 2147483649 0 0) = SdOk (mkSigDef 384 128 2147483649 2147483649 100 100) /\
  Consistent 32 (mkSigDef 384 128 2147483649 2147483649 100 100) /\
  sd_align_old 32 (mkSigDef 384 128 2147483649 2147483649 100 100) = SdOk (mkSigDef 384 128 0 2147483649 100 100) /\
  sd_align 64 (mkSigDef 10 3221225472 10 10 0 0) = SdErr JLS_ERROR_PARAMETER_INVALID /\
  sd_align 32 (mkSigDef 0 0 10 2147483649 0 0) = SdErr JLS_ERROR_PARAMETER_INVALID.
Proof. exact old_renormalise. Qed.
Print Assumptions C16_old_renormalise.
