(* Soundness and totality of the format walker of Decode.v. *)
From Coq Require Import NArith ZArith List Bool Lia Arith FMapPositive.
From Coq Require Import ZifyBool ZifyN ZifyNat.
From JLS Require Import Generated CrcDefs CrcProofs Spec Format FormatProofs Decode.
Import ListNotations.
Local Open Scope N_scope.
Ltac Zify.zify_post_hook ::= Z.div_mod_to_equations.

(* ---------------------------------------------------------------- what conformance means *)
Definition dw_pl (c : dw_chunk) : N := fm_payload_length (dw_hdr c).

(* s = the bytes of the file from the start of chunk c on *)
Definition dw_chunk_bytes (s : list N) (c : dw_chunk) : Prop :=
  let pl := dw_pl c in
  (* the 32 header bytes are there, carry the fields of dw_hdr c, and their CRC field is the CRC-32C of the first 28 *)
  fm_decode_chunk_header s = Some (dw_hdr c) /\
  fm_u32_at OFFSETOF_chunk_crc32 s = crc_spec (firstn 28 s) /\
  fm_rsv0 (dw_hdr c) = 0 /\
  (* the chunk lies inside the file *)
  fm_chunk_size pl <= N.of_nat (length s) /\
  (* the payload *)
  dw_payload c = fm_sub 32 pl s /\ N.of_nat (length (dw_payload c)) = pl /\
  (* zero padding, then the CRC-32C of the payload (pad not covered); nothing at all for an empty payload *)
  (pl <> 0 -> Forall (fun b => b = 0) (fm_sub (32 + pl) (fm_pad_len pl) s) /\
              fm_u32_at (32 + pl + fm_pad_len pl) s = crc_spec (dw_payload c)).

Definition dw_chunk_at (f : list N) (c : dw_chunk) : Prop :=
  dw_off c mod 8 = 0 /\ dw_chunk_bytes (skipn (N.to_nat (dw_off c)) f) c.

(* the chunks follow each other without gaps from offset o to offset e *)
Inductive dw_tiles : N -> list dw_chunk -> N -> Prop :=
| dw_tiles_nil : forall o, dw_tiles o [] o
| dw_tiles_cons : forall o c r e, dw_off c = o -> dw_tiles (o + fm_chunk_size (dw_pl c)) r e -> dw_tiles o (c :: r) e.

(* payload_prev_length of every chunk = payload_length of the chunk before it (prev for the first) *)
Fixpoint dw_ppl_ok (prev : N) (l : list dw_chunk) : Prop :=
  match l with
  | [] => True
  | c :: r => fm_payload_prev_length (dw_hdr c) = prev /\ dw_ppl_ok (dw_pl c) r
  end.

(* item_next / item_prev of c lead to chunks of l on the same list, which point back *)
Definition dw_links_ok (l : list dw_chunk) (c : dw_chunk) : Prop :=
  match dw_key_of (dw_hdr c) with
  | inl _ => False
  | inr DwK_end => fm_item_next (dw_hdr c) = 0 /\ fm_item_prev (dw_hdr c) = 0
  | inr k =>
    (fm_item_next (dw_hdr c) <> 0 ->
       exists d, In d l /\ dw_off d = fm_item_next (dw_hdr c) /\ dw_off c < dw_off d /\
                 dw_key_of (dw_hdr d) = inr k /\ fm_item_prev (dw_hdr d) = dw_off c) /\
    (fm_item_prev (dw_hdr c) <> 0 ->
       exists d, In d l /\ dw_off d = fm_item_prev (dw_hdr c) /\ dw_off d < dw_off c /\
                 dw_key_of (dw_hdr d) = inr k /\ fm_item_next (dw_hdr d) = dw_off c)
  end.

(* at most one chunk per list has item_prev = 0 *)
Definition dw_heads_unique (l : list dw_chunk) : Prop :=
  forall pre c1 mid c2 post k, l = pre ++ c1 :: mid ++ c2 :: post ->
    dw_key_of (dw_hdr c1) = inr k -> dw_key_of (dw_hdr c2) = inr k -> k <> DwK_end ->
    fm_item_prev (dw_hdr c1) = 0 -> fm_item_prev (dw_hdr c2) = 0 -> False.

(* every INDEX is immediately followed by its SUMMARY *)
Definition dw_index_summary_ok (l : list dw_chunk) : Prop :=
  forall pre c post, l = pre ++ c :: post -> dw_is_kind c JLS_TRACK_CHUNK_INDEX = true ->
    exists n post', post = n :: post' /\ dw_index_summary_pair c n = true.

Record dw_conformant (strict : bool) (f : list N) (w : dw_walked) : Prop := {
  (* file header: identification, CRC, major version, recorded length = file size *)
  dw_cf_header : exists fh, fm_decode_file_header f = Some fh /\ fm_fh_length fh = N.of_nat (length f) /\
                   fm_version_major (fm_fh_version fh) = fm_version_major JLS_FORMAT_VERSION_U32;
  dw_cf_header_crc : fm_u32_at OFFSETOF_file_header_crc32 f = crc_spec (firstn 28 f);
  (* the chunks tile [32, length f) exactly *)
  dw_cf_tiles : dw_tiles 32 (dw_w_chunks w) (N.of_nat (length f));
  (* each is 8-aligned, with valid header CRC, zero pad, valid payload CRC *)
  dw_cf_chunks : Forall (dw_chunk_at f) (dw_w_chunks w);
  (* the last chunk, and only the last, is END *)
  dw_cf_end : exists pre c, dw_w_chunks w = pre ++ [c] /\ fm_tag (dw_hdr c) = JLS_TAG_END /\
                Forall (fun c => fm_tag (dw_hdr c) <> JLS_TAG_END) pre;
  (* backward walk *)
  dw_cf_ppl : strict = true -> dw_ppl_ok 0 (dw_w_chunks w);
  dw_cf_ppl_report : dw_w_ppl w = dw_ppl_mismatches 0 true (dw_w_chunks w);
  (* doubly linked lists *)
  dw_cf_links : Forall (dw_links_ok (dw_w_chunks w)) (dw_w_chunks w);
  dw_cf_heads : dw_heads_unique (dw_w_chunks w);
  dw_cf_index_summary : dw_index_summary_ok (dw_w_chunks w) }.

Lemma dw_len_eq : forall l, dw_len l = length l.
Proof.
  assert (G : forall l acc, dw_len_acc l acc = (length l + acc)%nat).
  { induction l as [|x l IH]; intros acc; cbn [dw_len_acc length]; [reflexivity|]. rewrite IH. lia. }
  intros l. unfold dw_len. rewrite G. lia.
Qed.
Lemma dw_len_N_eq : forall l, dw_len_N l = N.of_nat (length l).
Proof.
  assert (G : forall l a, fold_left (fun a (_ : N) => N.succ a) l a = a + N.of_nat (length l)).
  { induction l as [|x l IH]; intros a; cbn [fold_left length]; [lia|]. rewrite IH. lia. }
  intros l. unfold dw_len_N. rewrite G. lia.
Qed.

(* ---------------------------------------------------------------- the scan *)
Lemma dw_land7 : forall x, N.land x 7 = x mod 8.
Proof. intros x. change 7 with (N.ones 3). now rewrite N.land_ones. Qed.

Lemma dw_sub_skipn : forall a b n (s : list N), fm_sub a n (skipn b s) = fm_sub (N.of_nat b + a) n s.
Proof.
  intros a b n s. unfold fm_sub. rewrite <- skipn_add. do 2 f_equal. lia.
Qed.

Lemma dw_chunk_bytes_intro : forall (s : list N) h p rest off,
  bytes_ok s ->
  fm_decode_chunk_header s = Some h -> fm_rsv0 h = 0 ->
  fm_unframe_r (fm_payload_length h) (skipn 32 s) = FmPayload p rest ->
  dw_chunk_bytes s {| dw_off := off; dw_hdr := h; dw_payload := p |} /\
  rest = skipn (N.to_nat (fm_chunk_size (fm_payload_length h))) s /\
  N.of_nat (length s) = fm_chunk_size (fm_payload_length h) + N.of_nat (length rest).
Proof.
  intros s h p rest off Hs Hd Hr Hu.
  destruct (fm_decode_chunk_header_some _ _ Hd) as (H32 & Hf & Hc).
  destruct (fm_unframe_r_payload _ _ _ _ Hu) as (Hl & Hlen & Hpl & Hp & Hz).
  rewrite skipn_length in Hlen.
  assert (Hrest : rest = skipn (N.to_nat (fm_chunk_size (fm_payload_length h))) s).
  { unfold fm_chunk_size, SIZEOF_chunk_header.
    replace (N.to_nat (32 + fm_disk_len (fm_payload_length h))) with (32 + N.to_nat (fm_disk_len (fm_payload_length h)))%nat by lia.
    rewrite skipn_add. rewrite Hl at 1.
    rewrite skipn_app_exact; [reflexivity|]. rewrite firstn_length, skipn_length. lia. }
  unfold dw_chunk_bytes, dw_pl. cbn [dw_hdr dw_payload].
  repeat split; try assumption.
  - rewrite Hc. apply crc32c_eq. now apply bytes_ok_firstn.
  - unfold fm_chunk_size, SIZEOF_chunk_header. lia.
  - match goal with Hne : fm_payload_length h <> 0 |- _ => destruct (Hz Hne) as [Hz1 _] end. unfold fm_sub.
    replace (N.to_nat (32 + fm_payload_length h)) with (32 + N.to_nat (fm_payload_length h))%nat by lia.
    now rewrite skipn_add.
  - match goal with Hne : fm_payload_length h <> 0 |- _ => destruct (Hz Hne) as [_ Hz2] end. unfold fm_u32_at.
    replace (N.to_nat (32 + fm_payload_length h + fm_pad_len (fm_payload_length h)))
      with (32 + N.to_nat (fm_payload_length h + fm_pad_len (fm_payload_length h)))%nat by lia.
    rewrite skipn_add, Hz2. apply crc32c_eq. rewrite Hp. apply bytes_ok_firstn. now apply bytes_ok_skipn.
  - unfold fm_chunk_size, SIZEOF_chunk_header. lia.
Qed.

(* the chunks found by the scan, relative to the suffix it was started on *)
Definition dw_in_suffix (off : N) (rest : list N) (c : dw_chunk) : Prop :=
  off <= dw_off c /\ dw_off c mod 8 = 0 /\ dw_chunk_bytes (skipn (N.to_nat (dw_off c - off)) rest) c.

Lemma dw_scan_sound : forall fuel off rest l, dw_scan fuel off rest = DwOk l -> bytes_ok rest ->
  dw_tiles off l (off + N.of_nat (length rest)) /\ Forall (dw_in_suffix off rest) l /\
  (exists pre c, l = pre ++ [c] /\ fm_tag (dw_hdr c) = JLS_TAG_END /\ Forall (fun c => fm_tag (dw_hdr c) <> JLS_TAG_END) pre).
Proof.
  induction fuel as [|fuel IH]; intros off rest l H Hb; cbn [dw_scan] in H; [discriminate|].
  destruct rest as [|b0 rest0] eqn:Er; [discriminate|]. rewrite <- Er in *. clear Er b0 rest0.
  destruct (fm_ch_complete rest) eqn:Ec; cbn [negb] in H; [|discriminate].
  destruct (fm_decode_chunk_header rest) as [h|] eqn:Ed; [|discriminate].
  destruct (N.land off 7 =? 0) eqn:Ea; cbn [negb] in H; [|discriminate].
  destruct (fm_rsv0 h =? 0) eqn:Erz; cbn [negb] in H; [|discriminate].
  apply N.eqb_eq in Ea, Erz. rewrite dw_land7 in Ea.
  change (N.to_nat SIZEOF_chunk_header) with 32%nat in H.
  destruct (fm_unframe_r (fm_payload_length h) (skipn 32 rest)) as [p rest'| | |] eqn:Eu; try discriminate.
  destruct (dw_chunk_bytes_intro rest h p rest' off Hb Ed Erz Eu) as (Hcb & Hrest & Hlen).
  set (c := {| dw_off := off; dw_hdr := h; dw_payload := p |}) in *.
  assert (Hin : dw_in_suffix off rest c).
  { unfold dw_in_suffix. subst c. cbn [dw_off]. rewrite N.sub_diag. cbn [N.to_nat skipn]. split; [lia|split; [exact Ea|exact Hcb]]. }
  destruct (fm_tag h =? JLS_TAG_END) eqn:Et.
  - apply N.eqb_eq in Et. destruct rest' as [|x r']; [|discriminate]. inversion H; subst l. clear H.
    split; [|split].
    + constructor; [reflexivity|]. unfold dw_pl. cbn [dw_hdr c]. cbn [length] in Hlen.
      replace (off + N.of_nat (length rest)) with (off + fm_chunk_size (fm_payload_length h)) by lia. constructor.
    + constructor; [exact Hin|constructor].
    + exists [], c. repeat split; [exact Et|constructor].
  - apply N.eqb_neq in Et.
    destruct (dw_scan fuel (off + fm_chunk_size (fm_payload_length h)) rest') as [l'|e o] eqn:Es; [|discriminate].
    inversion H; subst l. clear H.
    assert (Hb' : bytes_ok rest') by (rewrite Hrest; now apply bytes_ok_skipn).
    destruct (IH _ _ _ Es Hb') as (Ht & Hf & pre & cl & Hl' & Hcl & Hpre).
    split; [|split].
    + constructor; [reflexivity|]. unfold dw_pl. cbn [dw_hdr c].
      replace (off + N.of_nat (length rest)) with (off + fm_chunk_size (fm_payload_length h) + N.of_nat (length rest')) by lia.
      exact Ht.
    + constructor; [exact Hin|].
      rewrite Forall_forall in *. intros d Hd. destruct (Hf d Hd) as (A & B & C).
      pose proof (fm_chunk_size_ge (fm_payload_length h)).
      unfold dw_in_suffix. split; [lia|split; [exact B|]].
      rewrite Hrest in C. rewrite <- skipn_add in C.
      replace (N.to_nat (dw_off d - off)) with (N.to_nat (fm_chunk_size (fm_payload_length h)) + N.to_nat (dw_off d - (off + fm_chunk_size (fm_payload_length h))))%nat by lia.
      exact C.
    + exists (c :: pre), cl. rewrite Hl'. repeat split; [exact Hcl|]. constructor; [exact Et|exact Hpre].
Qed.

(* each step of the scan consumes at least 32 bytes: fuel = number of bytes can not run out *)
Lemma dw_scan_no_fuel : forall fuel off rest, (length rest < fuel)%nat ->
  forall o, dw_scan fuel off rest <> DwErr DwE_fuel o.
Proof.
  induction fuel as [|fuel IH]; intros off rest Hlt o; [lia|].
  cbn [dw_scan]. destruct rest as [|b0 rest0] eqn:Er; [discriminate|]. rewrite <- Er in *.
  assert (Hlen : length rest = S (length rest0)) by (rewrite Er; reflexivity). clear Er b0.
  destruct (fm_ch_complete rest) eqn:Ec; cbn [negb]; [|discriminate].
  destruct (fm_decode_chunk_header rest) as [h|] eqn:Ed; [|discriminate].
  destruct (N.land off 7 =? 0); cbn [negb]; [|discriminate].
  destruct (fm_rsv0 h =? 0); cbn [negb]; [|discriminate].
  change (N.to_nat SIZEOF_chunk_header) with 32%nat.
  destruct (fm_unframe_r (fm_payload_length h) (skipn 32 rest)) as [p rest'| | |] eqn:Eu; try discriminate.
  destruct (fm_unframe_r_payload _ _ _ _ Eu) as (_ & Hl & _). rewrite skipn_length in Hl.
  destruct (fm_decode_chunk_header_some _ _ Ed) as (H32 & _).
  destruct (fm_tag h =? JLS_TAG_END).
  - destruct rest'; discriminate.
  - specialize (IH (off + fm_chunk_size (fm_payload_length h)) rest' ltac:(lia) o).
    destruct (dw_scan fuel (off + fm_chunk_size (fm_payload_length h)) rest') as [l'|e o'] eqn:Es; [discriminate|].
    intro K. inversion K; subst. now elim IH.
Qed.

(* ---------------------------------------------------------------- the offset map *)
Lemma dw_succ_pos_inj : forall a b, N.succ_pos a = N.succ_pos b -> a = b.
Proof.
  intros [|p] [|q] H; cbn in H; try reflexivity.
  - symmetry in H. now apply Pos.succ_not_1 in H.
  - now apply Pos.succ_not_1 in H.
  - apply Pos.succ_inj in H. now subst.
Qed.

Lemma dw_map_of_find_gen : forall l m o c,
  PositiveMap.find (N.succ_pos o) (fold_left (fun m c => PositiveMap.add (N.succ_pos (dw_off c)) c m) l m) = Some c ->
  (In c l /\ dw_off c = o) \/ PositiveMap.find (N.succ_pos o) m = Some c.
Proof.
  induction l as [|x l IH]; intros m o c H; cbn [fold_left] in H; [now right|].
  destruct (IH _ _ _ H) as [[A B]|A].
  - left. split; [now right|exact B].
  - destruct (Pos.eq_dec (N.succ_pos o) (N.succ_pos (dw_off x))) as [E|E].
    + rewrite E, PositiveMap.gss in A. inversion A; subst. left. split; [now left|].
      apply dw_succ_pos_inj in E. now symmetry.
    + rewrite PositiveMap.gso in A by exact E. now right.
Qed.

Lemma dw_lookup_some : forall l o c, dw_lookup (dw_map_of l) o = Some c -> In c l /\ dw_off c = o.
Proof.
  intros l o c H. unfold dw_lookup, dw_map_of in H.
  destruct (dw_map_of_find_gen _ _ _ _ H) as [A|A]; [exact A|]. now rewrite PositiveMap.gempty in A.
Qed.

(* ---------------------------------------------------------------- links *)
Lemma dw_key_eqb_eq : forall a b, dw_key_eqb a b = true -> a = b.
Proof.
  intros a b H. destruct a, b; cbn in H; try discriminate; try reflexivity;
    repeat (apply andb_true_iff in H as [H ?]);
    repeat match goal with E : (_ =? _) = true |- _ => apply N.eqb_eq in E end; now subst.
Qed.
Lemma dw_key_eqb_refl : forall a, dw_key_eqb a a = true.
Proof. intros a. destruct a; cbn; rewrite ?N.eqb_refl; reflexivity. Qed.

Lemma dw_has_key_true : forall d k, dw_has_key d k = true -> dw_key_of (dw_hdr d) = inr k.
Proof.
  intros d k H. unfold dw_has_key in H. destruct (dw_key_of (dw_hdr d)) as [e|k']; [discriminate|].
  apply dw_key_eqb_eq in H. now subst.
Qed.

Lemma dw_first_err_none : forall f l, dw_first_err f l = None -> Forall (fun c => f c = None) l.
Proof.
  induction l as [|c l IH]; intros H; [constructor|]. cbn in H.
  destruct (f c) eqn:E; [discriminate|]. constructor; auto.
Qed.

Lemma dw_next_check_none : forall l k c, dw_next_check (dw_map_of l) k c = None ->
  fm_item_next (dw_hdr c) <> 0 ->
  exists d, In d l /\ dw_off d = fm_item_next (dw_hdr c) /\ dw_off c < dw_off d /\
            dw_key_of (dw_hdr d) = inr k /\ fm_item_prev (dw_hdr d) = dw_off c.
Proof.
  intros l k c H Hne. unfold dw_next_check in H.
  apply N.eqb_neq in Hne. rewrite Hne in H.
  destruct (dw_lookup (dw_map_of l) (fm_item_next (dw_hdr c))) as [d|] eqn:El; [|discriminate].
  destruct (dw_lookup_some _ _ _ El) as [Hin Hoff].
  destruct (dw_off c <? fm_item_next (dw_hdr c)) eqn:E1; cbn [negb] in H; [|discriminate].
  destruct (dw_has_key d k) eqn:E2; cbn [negb] in H; [|discriminate].
  destruct (fm_item_prev (dw_hdr d) =? dw_off c) eqn:E3; cbn [negb] in H; [|discriminate].
  apply N.ltb_lt in E1. apply N.eqb_eq in E3. apply dw_has_key_true in E2.
  exists d. repeat split; try assumption. lia.
Qed.

Lemma dw_prev_check_none : forall l k c, dw_prev_check (dw_map_of l) k c = None ->
  fm_item_prev (dw_hdr c) <> 0 ->
  exists d, In d l /\ dw_off d = fm_item_prev (dw_hdr c) /\ dw_off d < dw_off c /\
            dw_key_of (dw_hdr d) = inr k /\ fm_item_next (dw_hdr d) = dw_off c.
Proof.
  intros l k c H Hne. unfold dw_prev_check in H.
  apply N.eqb_neq in Hne. rewrite Hne in H.
  destruct (dw_lookup (dw_map_of l) (fm_item_prev (dw_hdr c))) as [d|] eqn:El; [|discriminate].
  destruct (dw_lookup_some _ _ _ El) as [Hin Hoff].
  destruct (fm_item_prev (dw_hdr c) <? dw_off c) eqn:E1; cbn [negb] in H; [|discriminate].
  destruct (dw_has_key d k) eqn:E2; cbn [negb] in H; [|discriminate].
  destruct (fm_item_next (dw_hdr d) =? dw_off c) eqn:E3; cbn [negb] in H; [|discriminate].
  apply N.ltb_lt in E1. apply N.eqb_eq in E3. apply dw_has_key_true in E2.
  exists d. repeat split; try assumption. lia.
Qed.

Lemma dw_link_check_none : forall l c, dw_link_check (dw_map_of l) c = None -> dw_links_ok l c.
Proof.
  intros l c H. unfold dw_link_check in H. unfold dw_links_ok.
  destruct (dw_key_of (dw_hdr c)) as [e|k]; [discriminate|].
  destruct k;
    try (destruct (dw_next_check (dw_map_of l) _ c) eqn:En; [discriminate|];
         split; [now apply dw_next_check_none|now apply dw_prev_check_none]).
  destruct ((fm_item_next (dw_hdr c) =? 0) && (fm_item_prev (dw_hdr c) =? 0)) eqn:E; [|discriminate].
  apply andb_true_iff in E as [E1 E2]. apply N.eqb_eq in E1, E2. now split.
Qed.

(* ---------------------------------------------------------------- list heads *)
Lemma dw_find_head_in : forall k o hs, Forall (fun p => snd p <> 0) hs -> In (k, o) hs -> dw_find_head k hs <> 0.
Proof.
  induction hs as [|[k' o'] hs IH]; intros Hnz Hin; [destruct Hin|]. cbn.
  inversion Hnz as [|? ? Hz Hnz']; subst. cbn in Hz.
  destruct (dw_key_eqb k k') eqn:Ek; [exact Hz|].
  destruct Hin as [E|Hin]; [inversion E; subst; now rewrite dw_key_eqb_refl in Ek|].
  now apply IH.
Qed.

Lemma dw_heads_app : forall a b, dw_heads (a ++ b) = dw_heads a ++ dw_heads b.
Proof.
  induction a as [|c a IH]; intros b; [reflexivity|]. cbn [app dw_heads].
  destruct (dw_key_of (dw_hdr c)) as [e|k]; [apply IH|].
  destruct k; destruct (dw_is_head_of_list c); cbn [app]; now rewrite IH.
Qed.

Lemma dw_heads_nz : forall l, Forall (fun c => dw_off c <> 0) l -> Forall (fun p => snd p <> 0) (dw_heads l).
Proof.
  induction l as [|c l IH]; intros H; [constructor|]. inversion H; subst. cbn [dw_heads].
  destruct (dw_key_of (dw_hdr c)) as [e|k]; [now apply IH|].
  destruct k; try (now apply IH); (destruct (dw_is_head_of_list c); [constructor; [assumption|now apply IH]|now apply IH]).
Qed.

Lemma dw_heads_one : forall c k, dw_key_of (dw_hdr c) = inr k -> k <> DwK_end -> fm_item_prev (dw_hdr c) = 0 ->
  forall r, dw_heads (c :: r) = (k, dw_off c) :: dw_heads r.
Proof.
  intros c k Hk Hne Hp r. cbn [dw_heads]. rewrite Hk. unfold dw_is_head_of_list. rewrite Hp. cbn.
  destruct k; try reflexivity. now elim Hne.
Qed.

Lemma dw_heads_dup_app : forall a b, dw_heads_dup (a ++ b) = None -> dw_heads_dup b = None.
Proof.
  induction a as [|[k o] a IH]; intros b H; [exact H|]. cbn [app dw_heads_dup] in H.
  destruct (dw_find_head k (a ++ b) =? 0); cbn [negb] in H; [|discriminate]. now apply IH.
Qed.

Lemma dw_heads_dup_none : forall l, Forall (fun c => dw_off c <> 0) l -> dw_heads_dup (dw_heads l) = None -> dw_heads_unique l.
Proof.
  intros l Hnz H pre c1 mid c2 post k Hl Hk1 Hk2 Hne Hp1 Hp2. subst l.
  rewrite dw_heads_app in H. apply dw_heads_dup_app in H.
  rewrite (dw_heads_one c1 k Hk1 Hne Hp1) in H. cbn [dw_heads_dup] in H.
  assert (Hin : In (k, dw_off c2) (dw_heads (mid ++ c2 :: post))).
  { rewrite dw_heads_app. apply in_or_app. right. rewrite (dw_heads_one c2 k Hk2 Hne Hp2). now left. }
  assert (Hz : Forall (fun p => snd p <> 0) (dw_heads (mid ++ c2 :: post))).
  { apply dw_heads_nz. apply Forall_app in Hnz as [_ Hnz]. inversion Hnz; subst. assumption. }
  pose proof (dw_find_head_in _ _ _ Hz Hin) as Hf. apply N.eqb_neq in Hf. rewrite Hf in H. discriminate.
Qed.

(* ---------------------------------------------------------------- INDEX then SUMMARY *)
Lemma dw_adjacent_none : forall l prev, dw_adjacent_check prev l = None ->
  forall pre c post, l = pre ++ c :: post -> dw_is_kind c JLS_TRACK_CHUNK_INDEX = true ->
    exists n post', post = n :: post' /\ dw_index_summary_pair c n = true.
Proof.
  induction l as [|x l IH]; intros prev H pre c post Hl Hk; [destruct pre; discriminate|].
  cbn [dw_adjacent_check] in H.
  destruct pre as [|y pre].
  - cbn [app] in Hl. inversion Hl; subst. rewrite Hk in H.
    destruct post as [|n post'].
    + discriminate.
    + destruct (dw_index_summary_pair c n) eqn:Ep; [|discriminate]. now exists n, post'.
  - cbn [app] in Hl. inversion Hl; subst.
    destruct (if dw_is_kind y JLS_TRACK_CHUNK_INDEX then _ else None) as [e1|]; [discriminate|].
    destruct (if dw_is_kind y JLS_TRACK_CHUNK_SUMMARY then _ else None) as [e2|]; [discriminate|].
    eapply IH; eauto.
Qed.

(* ---------------------------------------------------------------- payload_prev_length *)
Lemma dw_ppl_none : forall l prev first, dw_ppl_mismatches prev first l = [] -> dw_ppl_ok prev l.
Proof.
  induction l as [|c l IH]; intros prev first H; [exact I|]. cbn [dw_ppl_mismatches] in H. cbn [dw_ppl_ok].
  destruct (fm_payload_prev_length (dw_hdr c) =? prev) eqn:E; [|discriminate].
  apply N.eqb_eq in E. split; [exact E|]. eapply IH; eauto.
Qed.

(* ---------------------------------------------------------------- the structure pass *)
Lemma dw_of_first_err_ok : forall A e (k : dw_res A) w, dw_of_first_err e k = DwOk w -> e = None /\ k = DwOk w.
Proof. intros A e k w H. destruct e as [[c o]|]; [discriminate|]. now split. Qed.

Lemma dw_structure_ok : forall strict chunks w, dw_structure strict chunks = DwOk w ->
  dw_w_chunks w = chunks /\ dw_w_ppl w = dw_ppl_mismatches 0 true chunks /\
  (strict = true -> dw_ppl_mismatches 0 true chunks = []) /\
  dw_first_err (dw_link_check (dw_map_of chunks)) chunks = None /\
  dw_heads_dup (dw_heads chunks) = None /\
  dw_adjacent_check None chunks = None.
Proof.
  intros strict chunks w H. unfold dw_structure in H.
  destruct (if strict then dw_ppl_mismatches 0 true chunks else []) as [|[[[[o ?] ?] ?] ?] ?] eqn:Ep; [|discriminate].
  apply dw_of_first_err_ok in H as [E1 H].
  destruct (dw_heads_dup (dw_heads chunks)) eqn:E2; [discriminate|].
  destruct (dw_collect_sources chunks) as [sources|]; [|discriminate].
  destruct (dw_collect_signals chunks []) as [sigs|]; [|discriminate].
  apply dw_of_first_err_ok in H as [E3 H]. apply dw_of_first_err_ok in H as [E4 H].
  inversion H; subst w. cbn. repeat split; try assumption.
  intros ->. exact Ep.
Qed.

Lemma dw_tiles_offsets : forall o l e, dw_tiles o l e -> Forall (fun c => o <= dw_off c) l.
Proof.
  intros o l e H. induction H as [|o c r e Hc Hr IH]; constructor; [lia|].
  rewrite Forall_forall in *. intros d Hd. specialize (IH d Hd). lia.
Qed.

Theorem dw_walk_gen_sound : forall strict f w, bytes_ok f -> dw_walk_gen strict f = DwOk w -> dw_conformant strict f w.
Proof.
  intros strict f w Hb H. unfold dw_walk_gen in H. rewrite dw_len_eq, dw_len_N_eq in H.
  destruct (fm_fh_complete f) eqn:Ec; cbn [negb] in H; [|discriminate].
  destruct (fm_fh_ident_ok f) eqn:Ei; cbn [negb] in H; [|discriminate].
  destruct (fm_decode_file_header f) as [fh|] eqn:Eh; [|discriminate].
  destruct (fm_version_major (fm_fh_version fh) =? fm_version_major JLS_FORMAT_VERSION_U32) eqn:Ev; cbn [negb] in H; [|discriminate].
  destruct (fm_fh_length fh =? N.of_nat (length f)) eqn:El; cbn [negb] in H; [|discriminate].
  apply N.eqb_eq in Ev, El.
  change (N.to_nat SIZEOF_file_header) with 32%nat in *. unfold SIZEOF_file_header in H.
  destruct (dw_scan (length f) 32 (skipn 32 f)) as [chunks|e o] eqn:Es; [|discriminate].
  assert (H32 : (32 <= length f)%nat) by (unfold fm_fh_complete in Ec; now apply fm_has_true in Ec).
  destruct (dw_scan_sound _ _ _ _ Es (bytes_ok_skipn _ _ Hb)) as (Ht & Hf & Hend).
  rewrite skipn_length in Ht. replace (32 + N.of_nat (length f - 32)) with (N.of_nat (length f)) in Ht by lia.
  destruct (dw_structure_ok _ _ _ H) as (Hw & Hppl & Hstrict & Hlinks & Hheads & Hadj).
  assert (Hnz : Forall (fun c => dw_off c <> 0) chunks).
  { pose proof (dw_tiles_offsets _ _ _ Ht) as Ho. rewrite Forall_forall in *. intros c Hc. specialize (Ho c Hc). lia. }
  constructor; rewrite ?Hw.
  - exists fh. repeat split; assumption.
  - unfold fm_decode_file_header in Eh. rewrite Ec, Ei in Eh. cbn [andb] in Eh.
    destruct (fm_fh_crc_ok f) eqn:Ecrc; [|discriminate]. unfold fm_fh_crc_ok in Ecrc. apply N.eqb_eq in Ecrc.
    change (N.to_nat OFFSETOF_file_header_crc32) with 28%nat in Ecrc. rewrite Ecrc. apply crc32c_eq. now apply bytes_ok_firstn.
  - exact Ht.
  - rewrite Forall_forall in *. intros c Hc. destruct (Hf c Hc) as (A & B & C). split; [exact B|].
    rewrite <- skipn_add in C. replace (32 + N.to_nat (dw_off c - 32))%nat with (N.to_nat (dw_off c)) in C by lia. exact C.
  - exact Hend.
  - intros Hs. apply (dw_ppl_none _ _ true). now apply Hstrict.
  - exact Hppl.
  - apply dw_first_err_none in Hlinks. rewrite Forall_forall in *. intros c Hc. apply dw_link_check_none. now apply Hlinks.
  - now apply dw_heads_dup_none.
  - intros pre c post Hl Hk. eapply dw_adjacent_none; eauto.
Qed.

Theorem dw_walk_sound : forall f w, bytes_ok f -> dw_walk f = DwOk w -> dw_conformant true f w.
Proof. intros f w Hb H. now apply dw_walk_gen_sound. Qed.

Theorem dw_walk_report_sound : forall f w, bytes_ok f -> dw_walk_report f = DwOk w -> dw_conformant false f w.
Proof. intros f w Hb H. now apply dw_walk_gen_sound. Qed.

(* ---------------------------------------------------------------- totality: the fuel never runs out *)
Ltac dw_split_ifs :=
  repeat match goal with
         | |- context [if ?b then _ else _] => destruct b
         end.

Lemma dw_key_of_no_fuel : forall h, dw_key_of h <> inl DwE_fuel.
Proof. intros h. unfold dw_key_of. dw_split_ifs; discriminate. Qed.

Lemma dw_next_check_no_fuel : forall m k c, dw_next_check m k c <> Some DwE_fuel.
Proof. intros. unfold dw_next_check. destruct (dw_lookup m _); dw_split_ifs; discriminate. Qed.
Lemma dw_prev_check_no_fuel : forall m k c, dw_prev_check m k c <> Some DwE_fuel.
Proof. intros. unfold dw_prev_check. destruct (dw_lookup m _); dw_split_ifs; discriminate. Qed.

Lemma dw_link_check_no_fuel : forall m c, dw_link_check m c <> Some DwE_fuel.
Proof.
  intros. unfold dw_link_check. pose proof (dw_key_of_no_fuel (dw_hdr c)) as Hk.
  destruct (dw_key_of (dw_hdr c)) as [e|k]; [congruence|].
  destruct k; try (destruct (dw_next_check m _ c) eqn:E; [rewrite <- E; apply dw_next_check_no_fuel|apply dw_prev_check_no_fuel]).
  dw_split_ifs; discriminate.
Qed.

Lemma dw_first_err_no_fuel : forall f l o, (forall c, f c <> Some DwE_fuel) -> dw_first_err f l <> Some (DwE_fuel, o).
Proof.
  intros f l o Hf. induction l as [|c l IH]; cbn; [discriminate|].
  specialize (Hf c). destruct (f c) as [e|]; [|exact IH]. intro K. inversion K; subst. now elim Hf.
Qed.

Lemma dw_collect_sources_no_fuel : forall l o, dw_collect_sources l <> DwErr DwE_fuel o.
Proof.
  induction l as [|c l IH]; intros o; cbn [dw_collect_sources]; [discriminate|].
  specialize (IH o).
  destruct (fm_tag (dw_hdr c) =? JLS_TAG_SOURCE_DEF); [|exact IH].
  destruct (fm_chunk_meta (dw_hdr c) <? JLS_SOURCE_COUNT); cbn [negb]; [|discriminate].
  destruct (dw_parse_source c); [|discriminate].
  destruct (dw_collect_sources l); [discriminate|]. intro K. inversion K; subst. now elim IH.
Qed.

Lemma dw_collect_signals_no_fuel : forall l acc o, dw_collect_signals l acc <> DwErr DwE_fuel o.
Proof.
  induction l as [|c l IH]; intros acc o; cbn [dw_collect_signals]; [discriminate|].
  destruct (fm_tag (dw_hdr c) =? JLS_TAG_SIGNAL_DEF); [|apply IH].
  destruct (fm_chunk_meta (dw_hdr c) <? JLS_SIGNAL_COUNT); cbn [negb]; [|discriminate].
  destruct (dw_sig_find _ acc); [discriminate|].
  destruct (dw_parse_signal c); [apply IH|discriminate].
Qed.

Lemma dw_adjacent_check_no_fuel : forall l prev o, dw_adjacent_check prev l <> Some (DwE_fuel, o).
Proof.
  induction l as [|c l IH]; intros prev o; cbn [dw_adjacent_check]; [discriminate|].
  destruct (dw_is_kind c JLS_TRACK_CHUNK_INDEX); destruct (dw_is_kind c JLS_TRACK_CHUNK_SUMMARY);
    destruct l as [|n l']; destruct prev as [p|];
    repeat match goal with |- context [if ?b then _ else _] => destruct b end; try discriminate; apply IH.
Qed.

Lemma dw_entry_check_no_fuel : forall m want ts e, dw_entry_check m want ts e <> Some DwE_fuel.
Proof.
  intros. unfold dw_entry_check. destruct (dw_lookup m e); [|discriminate].
  destruct (dw_has_key _ _); cbn [negb]; [|discriminate]. destruct (dw_chunk_ts _); dw_split_ifs; discriminate.
Qed.

Lemma dw_fsr_entries_check_no_fuel : forall m want lvl es ts step, dw_fsr_entries_check m want lvl ts step es <> Some DwE_fuel.
Proof.
  induction es as [|e r IH]; intros ts step; cbn [dw_fsr_entries_check]; [discriminate|].
  pose proof (dw_entry_check_no_fuel m want ts e) as He.
  destruct (e =? 0).
  - destruct (lvl =? 1); [apply IH|discriminate].
  - destruct (dw_entry_check m want ts e); [congruence|apply IH].
Qed.

Lemma dw_ts_entries_check_no_fuel : forall m want es, dw_ts_entries_check m want es <> Some DwE_fuel.
Proof.
  induction es as [|[t e] r IH]; cbn [dw_ts_entries_check]; [discriminate|].
  pose proof (dw_entry_check_no_fuel m want t e) as He.
  destruct (dw_entry_check m want t e); [congruence|apply IH].
Qed.

Lemma dw_head_entries_check_no_fuel : forall hs tt sid es lvl, dw_head_entries_check hs tt sid lvl es <> Some DwE_fuel.
Proof.
  induction es as [|e r IH]; intros lvl; cbn [dw_head_entries_check]; [discriminate|].
  destruct (dw_find_head _ hs =? e); [apply IH|discriminate].
Qed.

Lemma dw_track_check_no_fuel : forall m hs sigs c, dw_track_check m hs sigs c <> Some DwE_fuel.
Proof.
  intros. unfold dw_track_check.
  destruct (fm_is_track_tag (fm_tag (dw_hdr c))); cbn [negb]; [|discriminate].
  destruct (dw_sig_find _ sigs) as [[soff d]|]; [|discriminate].
  destruct (soff <? dw_off c); cbn [negb]; [|discriminate].
  destruct (fm_tag_chunk_kind (fm_tag (dw_hdr c)) =? JLS_TRACK_CHUNK_DEF); [dw_split_ifs; discriminate|].
  destruct (fm_tag_chunk_kind (fm_tag (dw_hdr c)) =? JLS_TRACK_CHUNK_HEAD).
  { destruct (fm_payload_length (dw_hdr c) =? SIZEOF_track_head); cbn [negb]; [apply dw_head_entries_check_no_fuel|discriminate]. }
  destruct (fm_decode_payload_header (dw_payload c)) as [ph|]; [|discriminate].
  destruct ((fm_tag_track_type (fm_tag (dw_hdr c)) =? JLS_TRACK_TYPE_ANNOTATION) && (fm_tag_chunk_kind (fm_tag (dw_hdr c)) =? JLS_TRACK_CHUNK_DATA)).
  { dw_split_ifs; discriminate. }
  destruct (fm_ph_rsv16 ph =? 0); cbn [negb]; [|discriminate].
  destruct (fm_payload_length (dw_hdr c) =? fm_entries_length ph); cbn [negb]; [|discriminate].
  destruct (fm_tag_chunk_kind (fm_tag (dw_hdr c)) =? JLS_TRACK_CHUNK_DATA); [dw_split_ifs; discriminate|].
  destruct (fm_tag_chunk_kind (fm_tag (dw_hdr c)) =? JLS_TRACK_CHUNK_INDEX); [|dw_split_ifs; discriminate].
  destruct (fm_tag_track_type (fm_tag (dw_hdr c)) =? JLS_TRACK_TYPE_FSR).
  - destruct (fm_ph_entry_size_bits ph =? 64); cbn [negb]; [|discriminate].
    destruct (dw_fsr_step d _); [apply dw_fsr_entries_check_no_fuel|discriminate].
  - destruct (fm_ph_entry_size_bits ph =? 8 * SIZEOF_index_entry); cbn [negb]; [|discriminate].
    destruct (dw_ts_entries _ _) as [|[t0 e0] r] eqn:E; [discriminate|].
    destruct (t0 =? fm_ph_timestamp ph)%Z; cbn [negb]; [apply dw_ts_entries_check_no_fuel|discriminate].
Qed.

Lemma dw_structure_no_fuel : forall strict chunks o, dw_structure strict chunks <> DwErr DwE_fuel o.
Proof.
  intros strict chunks o. unfold dw_structure.
  destruct (if strict then dw_ppl_mismatches 0 true chunks else []) as [|[[[[o1 ?] ?] ?] ?] ?]; [|discriminate].
  pose proof (dw_first_err_no_fuel (dw_link_check (dw_map_of chunks)) chunks o (dw_link_check_no_fuel _)) as H1.
  destruct (dw_first_err (dw_link_check (dw_map_of chunks)) chunks) as [[e1 o1]|]; cbn [dw_of_first_err]; [congruence|].
  destruct (dw_heads_dup (dw_heads chunks)); [discriminate|].
  pose proof (dw_collect_sources_no_fuel chunks o) as H2.
  destruct (dw_collect_sources chunks) as [sources|e2 o2]; [|congruence].
  pose proof (dw_collect_signals_no_fuel chunks [] o) as H3.
  destruct (dw_collect_signals chunks []) as [sigs|e3 o3]; [|congruence].
  pose proof (dw_adjacent_check_no_fuel chunks None o) as H4.
  destruct (dw_adjacent_check None chunks) as [[e4 o4]|]; cbn [dw_of_first_err]; [congruence|].
  pose proof (dw_first_err_no_fuel (dw_track_check (dw_map_of chunks) (dw_heads chunks) sigs) chunks o (dw_track_check_no_fuel _ _ _)) as H5.
  destruct (dw_first_err (dw_track_check (dw_map_of chunks) (dw_heads chunks) sigs) chunks) as [[e5 o5]|]; cbn [dw_of_first_err]; [congruence|].
  discriminate.
Qed.

(* for every byte list the walk answers Ok or a format error: the fuel (= number of bytes) is never exhausted *)
Theorem dw_walk_gen_total : forall strict f o, dw_walk_gen strict f <> DwErr DwE_fuel o.
Proof.
  intros strict f o. unfold dw_walk_gen. rewrite dw_len_eq, dw_len_N_eq.
  destruct (fm_fh_complete f) eqn:Ec; cbn [negb]; [|discriminate].
  destruct (fm_fh_ident_ok f); cbn [negb]; [|discriminate].
  destruct (fm_decode_file_header f) as [fh|]; [|discriminate].
  destruct (fm_version_major (fm_fh_version fh) =? fm_version_major JLS_FORMAT_VERSION_U32); cbn [negb]; [|discriminate].
  destruct (fm_fh_length fh =? N.of_nat (length f)); cbn [negb]; [|discriminate].
  assert (H32 : (32 <= length f)%nat) by (unfold fm_fh_complete in Ec; now apply fm_has_true in Ec).
  change (N.to_nat SIZEOF_file_header) with 32%nat.
  pose proof (dw_scan_no_fuel (length f) SIZEOF_file_header (skipn 32 f) ltac:(rewrite skipn_length; lia) o) as Hs.
  destruct (dw_scan (length f) SIZEOF_file_header (skipn 32 f)) as [chunks|e o']; [apply dw_structure_no_fuel|congruence].
Qed.

Theorem dw_walk_total : forall f, (exists w, dw_walk f = DwOk w) \/ (exists e o, dw_walk f = DwErr e o /\ e <> DwE_fuel).
Proof.
  intros f. destruct (dw_walk f) as [w|e o] eqn:E; [left; now exists w|].
  right. exists e, o. split; [reflexivity|]. intros ->. now apply (dw_walk_gen_total true f o).
Qed.

(* ---------------------------------------------------------------- a concrete conformant file *)
Definition dw_ex_src_payload : list N := fm_encode_source_payload [115; 114; 99] [118] [109] [49] [].
Definition dw_ex_hdr (next prev tag meta pl ppl : N) : fm_chunk_header :=
  {| fm_item_next := next; fm_item_prev := prev; fm_tag := tag; fm_rsv0 := 0; fm_chunk_meta := meta;
     fm_payload_length := pl; fm_payload_prev_length := ppl |}.
(* file header; USER_DATA (empty) at 32; SOURCE_DEF 7 with a payload at 64; END *)
Definition dw_ex_body (len : N) : list N :=
  fm_encode_file_header {| fm_fh_length := len; fm_fh_version := JLS_FORMAT_VERSION_U32 |}
  ++ fm_encode_chunk (dw_ex_hdr 0 0 JLS_TAG_USER_DATA 0 0 0) []
  ++ fm_encode_chunk (dw_ex_hdr 0 0 JLS_TAG_SOURCE_DEF 7 (N.of_nat (length dw_ex_src_payload)) 0) dw_ex_src_payload
  ++ fm_encode_chunk (dw_ex_hdr 0 0 JLS_TAG_END 0 0 (N.of_nat (length dw_ex_src_payload))) [].
Definition dw_ex_file : list N := dw_ex_body (N.of_nat (length (dw_ex_body 0))).

Example dw_example_walk_ok :
  match dw_walk dw_ex_file with
  | DwOk w => map (fun c => (dw_off c, fm_tag (dw_hdr c))) (dw_w_chunks w) = [(32, JLS_TAG_USER_DATA); (64, JLS_TAG_SOURCE_DEF); (184, JLS_TAG_END)]
              /\ map so_id (dw_c_sources (dw_w_content w)) = [7]
              /\ map (fun s => str_read (so_name s)) (dw_c_sources (dw_w_content w)) = [[115; 114; 99]]
              /\ dw_w_ppl w = []
  | DwErr _ _ => False
  end.
Proof. vm_compute. repeat split; reflexivity. Qed.

(* the checks bite: a flipped payload byte, a non-zero pad byte, a wrong length field, a wrong payload_prev_length *)
Definition dw_ex_set (i : nat) (v : N) (l : list N) : list N := firstn i l ++ [v] ++ skipn (S i) l.
Example dw_example_walk_errors :
  dw_walk (dw_ex_set 170 0 dw_ex_file) = DwErr DwE_payload_crc 64 /\
  dw_walk (dw_ex_set 177 1 dw_ex_file) = DwErr DwE_pad_not_zero 64 /\
  dw_walk (dw_ex_file ++ [0]) = DwErr DwE_file_length 0 /\
  dw_walk (dw_ex_set 40 1 dw_ex_file) = DwErr DwE_header_crc 32 /\
  match dw_walk_report (fm_encode_file_header {| fm_fh_length := 216; fm_fh_version := JLS_FORMAT_VERSION_U32 |}
        ++ fm_encode_chunk (dw_ex_hdr 0 0 JLS_TAG_USER_DATA 0 0 0) []
        ++ fm_encode_chunk (dw_ex_hdr 0 0 JLS_TAG_SOURCE_DEF 7 (N.of_nat (length dw_ex_src_payload)) 5) dw_ex_src_payload
        ++ fm_encode_chunk (dw_ex_hdr 0 0 JLS_TAG_END 0 0 (N.of_nat (length dw_ex_src_payload))) []) with
  | DwOk w => dw_w_ppl w = [(64, JLS_TAG_SOURCE_DEF, 5, 0, true)]
  | DwErr _ _ => False
  end.
Proof. vm_compute. repeat split; reflexivity. Qed.

Example dw_example_bytes_ok : bytes_ok dw_ex_file.
Proof. apply bytes_ok_dec. vm_compute. reflexivity. Qed.

(* ---------------------------------------------------------------- pointers: track head tables and index entries *)
(* entry e of an index names a chunk of l of list identity `want` whose payload header carries timestamp ts *)
Definition dw_entry_ok (l : list dw_chunk) (want : dw_key) (ts : Z) (e : N) : Prop :=
  exists d, In d l /\ dw_off d = e /\ dw_key_of (dw_hdr d) = inr want /\ dw_chunk_ts d = Some ts.

(* FSR index: entry k points to the chunk whose timestamp is ts + k * step; at level 1 a 0 entry = omitted data *)
Fixpoint dw_fsr_entries_ok (l : list dw_chunk) (want : dw_key) (lvl : N) (ts step : Z) (es : list N) : Prop :=
  match es with
  | [] => True
  | e :: r => ((e = 0 /\ lvl = 1) \/ (e <> 0 /\ dw_entry_ok l want ts e)) /\ dw_fsr_entries_ok l want lvl (ts + step)%Z step r
  end.

(* head table: entry 0 = first DATA chunk of the track, entry L = first INDEX chunk of level L, 0 if there is none *)
Fixpoint dw_head_entries_ok (hs : list (dw_key * N)) (tt sid lvl : N) (es : list N) : Prop :=
  match es with
  | [] => True
  | e :: r => dw_find_head (if lvl =? 0 then DwK_data tt sid else DwK_index tt sid lvl) hs = e /\ dw_head_entries_ok hs tt sid (lvl + 1) r
  end.

Definition dw_track_ok (l : list dw_chunk) (c : dw_chunk) : Prop :=
  let h := dw_hdr c in
  let t := fm_tag h in
  let tt := fm_tag_track_type t in
  let ck := fm_tag_chunk_kind t in
  let sid := fm_meta_signal (fm_chunk_meta h) in
  let lvl := fm_meta_level (fm_chunk_meta h) in
  let p := dw_payload c in
  fm_is_track_tag t = true ->
  (* the signal is defined by an earlier SIGNAL_DEF chunk *)
  exists sc d, In sc l /\ fm_tag (dw_hdr sc) = JLS_TAG_SIGNAL_DEF /\ fm_chunk_meta (dw_hdr sc) = sid /\
               dw_parse_signal sc = Some d /\ dw_off sc < dw_off c /\
  (ck = JLS_TRACK_CHUNK_DEF -> fm_payload_length h = 0) /\
  (ck = JLS_TRACK_CHUNK_HEAD ->
     fm_payload_length h = SIZEOF_track_head /\
     dw_head_entries_ok (dw_heads l) tt sid 0 (dw_u64s (N.to_nat JLS_SUMMARY_LEVEL_COUNT) p)) /\
  (ck = JLS_TRACK_CHUNK_INDEX ->
     exists ph, fm_decode_payload_header p = Some ph /\ fm_payload_length h = fm_entries_length ph /\
       let n := N.to_nat (fm_ph_entry_count ph) in
       let body := skipn (N.to_nat SIZEOF_payload_header) p in
       (tt = JLS_TRACK_TYPE_FSR ->
          fm_ph_entry_size_bits ph = 64 /\
          exists step, dw_fsr_step d lvl = Some step /\
            dw_fsr_entries_ok l (dw_index_target tt sid lvl) lvl (fm_ph_timestamp ph) (Z.of_N step) (dw_u64s n body)) /\
       (tt <> JLS_TRACK_TYPE_FSR ->
          fm_ph_entry_size_bits ph = 8 * SIZEOF_index_entry /\
          Forall (fun te => dw_entry_ok l (dw_index_target tt sid lvl) (fst te) (snd te)) (dw_ts_entries n body))).

Lemma dw_entry_check_none : forall l want ts e, dw_entry_check (dw_map_of l) want ts e = None -> dw_entry_ok l want ts e.
Proof.
  intros l want ts e H. unfold dw_entry_check in H.
  destruct (dw_lookup (dw_map_of l) e) as [d|] eqn:El; [|discriminate].
  destruct (dw_lookup_some _ _ _ El) as [Hin Hoff].
  destruct (dw_has_key d want) eqn:Ek; cbn [negb] in H; [|discriminate].
  destruct (dw_chunk_ts d) as [t|] eqn:Et; [|discriminate].
  destruct (t =? ts)%Z eqn:E; [|discriminate]. apply Z.eqb_eq in E. subst t.
  exists d. repeat split; try assumption. now apply dw_has_key_true.
Qed.

Lemma dw_fsr_entries_check_none : forall l want lvl es ts step,
  dw_fsr_entries_check (dw_map_of l) want lvl ts step es = None -> dw_fsr_entries_ok l want lvl ts step es.
Proof.
  induction es as [|e r IH]; intros ts step H; cbn [dw_fsr_entries_check dw_fsr_entries_ok] in *; [exact I|].
  destruct (e =? 0) eqn:E0.
  - apply N.eqb_eq in E0. destruct (lvl =? 1) eqn:E1; [|discriminate]. apply N.eqb_eq in E1.
    split; [left; now split|now apply IH].
  - apply N.eqb_neq in E0. destruct (dw_entry_check (dw_map_of l) want ts e) eqn:Ec; [discriminate|].
    split; [right; split; [exact E0|now apply dw_entry_check_none]|now apply IH].
Qed.

Lemma dw_ts_entries_check_none : forall l want es,
  dw_ts_entries_check (dw_map_of l) want es = None -> Forall (fun te => dw_entry_ok l want (fst te) (snd te)) es.
Proof.
  induction es as [|[t e] r IH]; intros H; cbn [dw_ts_entries_check] in H; [constructor|].
  destruct (dw_entry_check (dw_map_of l) want t e) eqn:Ec; [discriminate|].
  constructor; [now apply dw_entry_check_none|now apply IH].
Qed.

Lemma dw_head_entries_check_none : forall hs tt sid es lvl,
  dw_head_entries_check hs tt sid lvl es = None -> dw_head_entries_ok hs tt sid lvl es.
Proof.
  induction es as [|e r IH]; intros lvl H; cbn [dw_head_entries_check dw_head_entries_ok] in *; [exact I|].
  destruct (dw_find_head _ hs =? e) eqn:E; [|discriminate]. apply N.eqb_eq in E. split; [exact E|now apply IH].
Qed.

(* what dw_find_head says about the chunks *)
Lemma dw_heads_in : forall l k o, In (k, o) (dw_heads l) ->
  exists c, In c l /\ dw_off c = o /\ dw_key_of (dw_hdr c) = inr k /\ fm_item_prev (dw_hdr c) = 0 /\ k <> DwK_end.
Proof.
  induction l as [|c l IH]; intros k o H; cbn [dw_heads] in H; [destruct H|].
  assert (Hrec : In (k, o) (dw_heads l) -> exists c0, In c0 (c :: l) /\ dw_off c0 = o /\ dw_key_of (dw_hdr c0) = inr k /\
                                             fm_item_prev (dw_hdr c0) = 0 /\ k <> DwK_end).
  { intros Hin. destruct (IH _ _ Hin) as (c0 & A & B). exists c0. split; [now right|exact B]. }
  destruct (dw_key_of (dw_hdr c)) as [e|k'] eqn:Ek; [now apply Hrec|].
  destruct k'; try (now apply Hrec);
    (destruct (dw_is_head_of_list c) eqn:Eh; [|now apply Hrec];
     destruct H as [H|H]; [|now apply Hrec];
     inversion H; subst; exists c; unfold dw_is_head_of_list in Eh; apply N.eqb_eq in Eh;
     repeat split; [now left|assumption|assumption|discriminate]).
Qed.

Lemma dw_find_head_some : forall k hs o, dw_find_head k hs = o -> o <> 0 -> In (k, o) hs.
Proof.
  induction hs as [|[k' o'] hs IH]; intros o H Hne; cbn in H; [congruence|].
  destruct (dw_key_eqb k k') eqn:E.
  - apply dw_key_eqb_eq in E. subst. now left.
  - right. now apply IH.
Qed.

Lemma dw_find_head_none : forall k hs, Forall (fun p => snd p <> 0) hs -> dw_find_head k hs = 0 -> forall o, ~ In (k, o) hs.
Proof.
  intros k hs Hnz H o Hin. now apply (dw_find_head_in _ _ _ Hnz Hin).
Qed.

(* a head-table entry is the first chunk (item_prev = 0) of its list, and 0 only if the list has no first chunk *)
Theorem dw_find_head_spec : forall l k, Forall (fun c => dw_off c <> 0) l -> k <> DwK_end ->
  let e := dw_find_head k (dw_heads l) in
  (e <> 0 -> exists c, In c l /\ dw_off c = e /\ dw_key_of (dw_hdr c) = inr k /\ fm_item_prev (dw_hdr c) = 0) /\
  (e = 0 -> forall c, In c l -> dw_key_of (dw_hdr c) = inr k -> fm_item_prev (dw_hdr c) <> 0).
Proof.
  intros l k Hnz Hk e. split.
  - intros Hne. destruct (dw_heads_in _ _ _ (dw_find_head_some _ _ _ eq_refl Hne)) as (c & A & B & C & D & _).
    exists c. repeat split; assumption.
  - intros He c Hin Hkc Hp.
    apply in_split in Hin as (l1 & l2 & ->).
    apply (dw_find_head_none k _ (dw_heads_nz _ Hnz) He (dw_off c)).
    rewrite dw_heads_app. apply in_or_app. right. rewrite (dw_heads_one c k Hkc Hk Hp). now left.
Qed.

(* the signal table *)
Lemma dw_sig_find_in : forall id t v, dw_sig_find id t = Some v -> In (id, v) t.
Proof.
  induction t as [|[i v'] t IH]; intros v H; cbn in H; [discriminate|].
  destruct (i =? id) eqn:E; [apply N.eqb_eq in E; inversion H; subst; now left|right; now apply IH].
Qed.

Lemma dw_collect_signals_in : forall l acc t, dw_collect_signals l acc = DwOk t ->
  forall id off d, In (id, (off, d)) t ->
    In (id, (off, d)) acc \/
    exists sc, In sc l /\ fm_tag (dw_hdr sc) = JLS_TAG_SIGNAL_DEF /\ fm_chunk_meta (dw_hdr sc) = id /\ dw_off sc = off /\ dw_parse_signal sc = Some d.
Proof.
  induction l as [|c l IH]; intros acc t H id off d Hin; cbn [dw_collect_signals] in H.
  - inversion H; subst. left. now apply in_rev.
  - destruct (fm_tag (dw_hdr c) =? JLS_TAG_SIGNAL_DEF) eqn:Et.
    + destruct (fm_chunk_meta (dw_hdr c) <? JLS_SIGNAL_COUNT); cbn [negb] in H; [|discriminate].
      destruct (dw_sig_find _ acc); [discriminate|].
      destruct (dw_parse_signal c) as [d0|] eqn:Ep; [|discriminate].
      destruct (IH _ _ H _ _ _ Hin) as [[E|A]|(sc & A & B)].
      * inversion E; subst. right. exists c. apply N.eqb_eq in Et. repeat split; try assumption. now left.
      * now left.
      * right. exists sc. split; [now right|exact B].
    + destruct (IH _ _ H _ _ _ Hin) as [A|(sc & A & B)]; [now left|].
      right. exists sc. split; [now right|exact B].
Qed.

Lemma dw_track_check_none : forall l sigs c, dw_collect_signals l [] = DwOk sigs ->
  dw_track_check (dw_map_of l) (dw_heads l) sigs c = None -> dw_track_ok l c.
Proof.
  intros l sigs c Hs H. unfold dw_track_ok. intros Htt. unfold dw_track_check in H. rewrite Htt in H. cbn [negb] in H.
  destruct (dw_sig_find (fm_meta_signal (fm_chunk_meta (dw_hdr c))) sigs) as [[soff d]|] eqn:Ef; [|discriminate].
  destruct (soff <? dw_off c) eqn:Eo; cbn [negb] in H; [|discriminate]. apply N.ltb_lt in Eo.
  destruct (dw_collect_signals_in _ _ _ Hs _ _ _ (dw_sig_find_in _ _ _ Ef)) as [[]|(sc & A & B & C & D & E)].
  exists sc, d. subst soff.
  split; [exact A|]. split; [exact B|]. split; [exact C|]. split; [exact E|]. split; [exact Eo|].
  split; [|split].
  - intros Ek. rewrite Ek in H. change (JLS_TRACK_CHUNK_DEF =? JLS_TRACK_CHUNK_DEF) with true in H. cbn iota in H.
    destruct (fm_payload_length (dw_hdr c) =? 0) eqn:E0; [now apply N.eqb_eq in E0|discriminate].
  - intros Ek. rewrite Ek in H. change (JLS_TRACK_CHUNK_HEAD =? JLS_TRACK_CHUNK_DEF) with false in H.
    change (JLS_TRACK_CHUNK_HEAD =? JLS_TRACK_CHUNK_HEAD) with true in H. cbn iota in H.
    destruct (fm_payload_length (dw_hdr c) =? SIZEOF_track_head) eqn:E0; cbn [negb] in H; [|discriminate].
    split; [now apply N.eqb_eq in E0|]. now apply dw_head_entries_check_none.
  - intros Ek. rewrite Ek in H. change (JLS_TRACK_CHUNK_INDEX =? JLS_TRACK_CHUNK_DEF) with false in H.
    change (JLS_TRACK_CHUNK_INDEX =? JLS_TRACK_CHUNK_HEAD) with false in H.
    change (JLS_TRACK_CHUNK_INDEX =? JLS_TRACK_CHUNK_DATA) with false in H.
    change (JLS_TRACK_CHUNK_INDEX =? JLS_TRACK_CHUNK_INDEX) with true in H. cbn iota in H.
    rewrite andb_false_r in H.
    destruct (fm_decode_payload_header (dw_payload c)) as [ph|] eqn:Eph; [|discriminate].
    destruct (fm_ph_rsv16 ph =? 0); cbn [negb] in H; [|discriminate].
    destruct (fm_payload_length (dw_hdr c) =? fm_entries_length ph) eqn:Elen; cbn [negb] in H; [|discriminate].
    apply N.eqb_eq in Elen. exists ph. split; [reflexivity|]. split; [exact Elen|]. cbn zeta. split.
    + intros Efsr. rewrite Efsr in H. change (JLS_TRACK_TYPE_FSR =? JLS_TRACK_TYPE_FSR) with true in H. cbn iota in H.
      destruct (fm_ph_entry_size_bits ph =? 64) eqn:E64; cbn [negb] in H; [|discriminate]. apply N.eqb_eq in E64.
      split; [exact E64|].
      destruct (dw_fsr_step d _) as [step|] eqn:Est; [|discriminate].
      exists step. split; [reflexivity|]. rewrite Efsr. apply dw_fsr_entries_check_none. exact H.
    + intros Ents. apply N.eqb_neq in Ents. rewrite Ents in H.
      destruct (fm_ph_entry_size_bits ph =? 8 * SIZEOF_index_entry) eqn:E128; cbn [negb] in H; [|discriminate]. apply N.eqb_eq in E128.
      split; [exact E128|].
      destruct (dw_ts_entries _ _) as [|[t0 e0] r] eqn:Ee; [constructor|].
      destruct (t0 =? fm_ph_timestamp ph)%Z; cbn [negb] in H; [|discriminate].
      now apply dw_ts_entries_check_none.
Qed.

Lemma dw_structure_ok_tracks : forall strict chunks w, dw_structure strict chunks = DwOk w ->
  Forall (dw_track_ok chunks) chunks.
Proof.
  intros strict chunks w H. unfold dw_structure in H.
  destruct (if strict then dw_ppl_mismatches 0 true chunks else []) as [|[[[[o ?] ?] ?] ?] ?] eqn:Ep; [|discriminate].
  apply dw_of_first_err_ok in H as [E1 H].
  destruct (dw_heads_dup (dw_heads chunks)) eqn:E2; [discriminate|].
  destruct (dw_collect_sources chunks) as [sources|]; [|discriminate].
  destruct (dw_collect_signals chunks []) as [sigs|] eqn:Es; [|discriminate].
  apply dw_of_first_err_ok in H as [E3 H]. apply dw_of_first_err_ok in H as [E4 H].
  apply dw_first_err_none in E4. rewrite Forall_forall in *. intros c Hc. eapply dw_track_check_none; eauto.
Qed.

(* pointers of an accepted file: head tables and index entries *)
Theorem dw_walk_gen_sound_pointers : forall strict f w, dw_walk_gen strict f = DwOk w ->
  Forall (dw_track_ok (dw_w_chunks w)) (dw_w_chunks w).
Proof.
  intros strict f w H. unfold dw_walk_gen in H. rewrite dw_len_eq, dw_len_N_eq in H.
  destruct (fm_fh_complete f); cbn [negb] in H; [|discriminate].
  destruct (fm_fh_ident_ok f); cbn [negb] in H; [|discriminate].
  destruct (fm_decode_file_header f) as [fh|]; [|discriminate].
  destruct (fm_version_major (fm_fh_version fh) =? fm_version_major JLS_FORMAT_VERSION_U32); cbn [negb] in H; [|discriminate].
  destruct (fm_fh_length fh =? N.of_nat (length f)); cbn [negb] in H; [|discriminate].
  destruct (dw_scan _ _ _) as [chunks|e o]; [|discriminate].
  destruct (dw_structure_ok _ _ _ H) as (Hw & _). rewrite Hw. eapply dw_structure_ok_tracks; eauto.
Qed.

Theorem dw_walk_sound_pointers : forall f w, dw_walk f = DwOk w -> Forall (dw_track_ok (dw_w_chunks w)) (dw_w_chunks w).
Proof. intros f w H. now apply (dw_walk_gen_sound_pointers true f). Qed.

Theorem dw_walk_report_sound_pointers : forall f w, dw_walk_report f = DwOk w -> Forall (dw_track_ok (dw_w_chunks w)) (dw_w_chunks w).
Proof. intros f w H. now apply (dw_walk_gen_sound_pointers false f). Qed.

Theorem dw_walk_find_head_spec : forall strict f w k, bytes_ok f -> dw_walk_gen strict f = DwOk w -> k <> DwK_end ->
  let l := dw_w_chunks w in
  let e := dw_find_head k (dw_heads l) in
  (e <> 0 -> exists c, In c l /\ dw_off c = e /\ dw_key_of (dw_hdr c) = inr k /\ fm_item_prev (dw_hdr c) = 0) /\
  (e = 0 -> forall c, In c l -> dw_key_of (dw_hdr c) = inr k -> fm_item_prev (dw_hdr c) <> 0).
Proof.
  intros strict f w k Hb H Hk. pose proof (dw_walk_gen_sound _ _ _ Hb H) as C.
  apply dw_find_head_spec; [|exact Hk].
  pose proof (dw_tiles_offsets _ _ _ (dw_cf_tiles _ _ _ C)) as Ho. rewrite Forall_forall in *. intros c Hc. specialize (Ho c Hc). lia.
Qed.

(* the soundness theorem with the record spelled out (for Properties_C05.v) *)
Theorem dw_walk_sound_explicit : forall f w, bytes_ok f -> dw_walk f = DwOk w ->
  (exists fh, fm_decode_file_header f = Some fh /\ fm_fh_length fh = N.of_nat (length f) /\
              fm_version_major (fm_fh_version fh) = fm_version_major JLS_FORMAT_VERSION_U32) /\
  fm_u32_at OFFSETOF_file_header_crc32 f = crc_spec (firstn 28 f) /\
  dw_tiles 32 (dw_w_chunks w) (N.of_nat (length f)) /\
  Forall (dw_chunk_at f) (dw_w_chunks w) /\
  (exists pre c, dw_w_chunks w = pre ++ [c] /\ fm_tag (dw_hdr c) = JLS_TAG_END /\
                 Forall (fun c => fm_tag (dw_hdr c) <> JLS_TAG_END) pre) /\
  dw_ppl_ok 0 (dw_w_chunks w) /\
  Forall (dw_links_ok (dw_w_chunks w)) (dw_w_chunks w) /\
  dw_heads_unique (dw_w_chunks w) /\
  dw_index_summary_ok (dw_w_chunks w).
Proof.
  intros f w Hb H. destruct (dw_walk_sound f w Hb H) as [H1 H2 H3 H4 H5 H6 H7 H8 H9 H10].
  repeat split; try assumption. now apply H6.
Qed.

Theorem dw_walk_report_sound_explicit : forall f w, bytes_ok f -> dw_walk_report f = DwOk w ->
  (exists fh, fm_decode_file_header f = Some fh /\ fm_fh_length fh = N.of_nat (length f) /\
              fm_version_major (fm_fh_version fh) = fm_version_major JLS_FORMAT_VERSION_U32) /\
  fm_u32_at OFFSETOF_file_header_crc32 f = crc_spec (firstn 28 f) /\
  dw_tiles 32 (dw_w_chunks w) (N.of_nat (length f)) /\
  Forall (dw_chunk_at f) (dw_w_chunks w) /\
  (exists pre c, dw_w_chunks w = pre ++ [c] /\ fm_tag (dw_hdr c) = JLS_TAG_END /\
                 Forall (fun c => fm_tag (dw_hdr c) <> JLS_TAG_END) pre) /\
  dw_w_ppl w = dw_ppl_mismatches 0 true (dw_w_chunks w) /\
  (dw_w_ppl w = [] -> dw_ppl_ok 0 (dw_w_chunks w)) /\
  Forall (dw_links_ok (dw_w_chunks w)) (dw_w_chunks w) /\
  dw_heads_unique (dw_w_chunks w) /\
  dw_index_summary_ok (dw_w_chunks w).
Proof.
  intros f w Hb H. destruct (dw_walk_report_sound f w Hb H) as [H1 H2 H3 H4 H5 H6 H7 H8 H9 H10].
  repeat split; try assumption. intros E. rewrite H7 in E. now apply (dw_ppl_none _ _ true).
Qed.
