(* WHAT THE REPAIR-ON-OPEN WRITES, part 8: jls_rd_open (reader.c).  The truncation and the re-write of the last chunk,
   the exits (jls_rd_close = the file header), the END chunk; the classification theorem
       ro_open_classified : rp_fault = 0 -> rw_heads_below f -> rc not the error of jls_core_repair_fsr ->
                            rw_check false f (rw_pos f) (rp_events (rp_open f)) = true.
   Every top-level name starts with ro_. *)
From Coq Require Import NArith ZArith List Bool Lia Arith.
From Coq Require Import ZifyBool ZifyN ZifyNat.
From JLS Require Import Generated CrcDefs Spec Format FormatProofs WriteOnce WriteOnceProofs WmRaw WmCore WmFsr WriterModel WmProofs
  WmWriteOnce WmWriteOnce2 RepairRaw RawReadProofs RepairModel RepairProofs RepairProofs2 RepairProofs3
  RepairWo RepairWo2 RepairWo3 RepairWo4 RepairWo5 RepairWo6 RepairWo7.
Import ListNotations.
Local Open Scope N_scope.
Ltac Zify.zify_post_hook ::= Z.div_mod_to_equations.

Local Opaque crc32c.

(* guard: every TRACK_*_HEAD chunk the scan registered lies completely below the truncation point (in a file
   whose chunks do not overlap it does: the backward scan stops at the last chunk) *)
Definition rw_heads_ok (T : N) (l : list rp_sig) : bool :=
  forallb (fun g => forallb (fun x : bool * wm_track => negb (fst x) || (wm_ck_offset (wm_tk_head (snd x)) + 168 <=? T)) (rp_sg_tk g)) l.
Definition rw_heads_below (f : list N) : bool :=
  match rp_scan f with
  | inr c => rw_heads_ok (rw_T f (rp_offset (rp_r (rp_io_ c)))) (rp_sigs c)
  | inl _ => true
  end.

(* ================================================================ small facts about the read side *)
Lemma ro_raw_open : forall s a, rp_flen s = rp_len (rp_file s) ->
  let s' := fst (rp_raw_open s a) in
  rp_file s' = rp_file s /\ rp_flen s' = rp_flen s /\ (rp_fend (rp_r s') = rp_flen s \/ rp_fend (rp_r s') = 0) /\
  rp_r_valid (rp_r s') = false /\ (rp_flt s' = 0 -> rp_flt s = 0) /\
  rp_cur s' = rp_cur s /\ rp_buf s' = rp_buf s /\ rp_buf_len s' = rp_buf_len s.
Proof.
  intros s a Hn. cbv zeta. pose proof (rpp_raw_open_file s a) as O. cbv zeta in O. destruct O as (O1 & O2 & O3).
  split; [exact O1 |]. split; [exact O2 |]. split; [exact O3 |].
  unfold rp_raw_open, rp_read_verify, rp_bk_fread. cbv zeta.
  match goal with |- context [rp_fh_ok ?b] => destruct (rp_fh_ok b) end;
  match goal with |- context [rp_len ?b <? ?k] => destruct (rp_len b <? k) end;
  match goal with |- context [if ?c then (_, JLS_ERROR_UNSUPPORTED_FILE) else _] => destruct c end;
  cbn [fst]; (split; [reflexivity |]); (split; [| repeat split]); cbn; try (intros X; exact X);
  destruct (rp_flt s =? 0) eqn:E; try (intros X; exact X); try (intros X; discriminate X); intros _; now apply N.eqb_eq in E.
Qed.

Lemma ro_chunk_seek_rc : forall s s' o, rp_chunk_seek s o = (s', 0) -> forall s2, snd (rp_chunk_seek s2 o) = 0.
Proof.
  intros s s' o H s2. unfold rp_chunk_seek, rp_bk_fseek in *. destruct (o =? 0); [inversion H |].
  destruct (rp_two63 <=? o); [inversion H | reflexivity].
Qed.
Lemma ro_chunk_seek_keep : forall s o, rp_buf (fst (rp_chunk_seek s o)) = rp_buf s /\ rp_buf_len (fst (rp_chunk_seek s o)) = rp_buf_len s /\
  rp_cur (fst (rp_chunk_seek s o)) = rp_cur s /\ rp_fend (rp_r (fst (rp_chunk_seek s o))) = rp_fend (rp_r s) /\
  rp_last_pl (rp_r (fst (rp_chunk_seek s o))) = rp_last_pl (rp_r s).
Proof.
  intros s o. unfold rp_chunk_seek, rp_bk_fseek. destruct (o =? 0); [repeat split |]. destruct (rp_two63 <=? o); repeat split.
Qed.
Lemma ro_chunk_seek_pos : forall s o s', rp_chunk_seek s o = (s', 0) ->
  o <> 0 /\ rp_fpos (rp_r s') = o /\ rp_offset (rp_r s') = o /\ fm_tag (rp_hdr (rp_r s')) = JLS_TAG_INVALID.
Proof.
  intros s o s' H. unfold rp_chunk_seek, rp_bk_fseek in H. destruct (o =? 0) eqn:E; [inversion H |]. apply N.eqb_neq in E.
  destruct (rp_two63 <=? o); inversion H; subst s'. repeat split. exact E.
Qed.

(* a successful chunk read without cached header: where the raw stands afterwards; the file is not empty for the raw *)
Lemma ro_rd_chunk_fpos : forall s s', rp_flen s = rp_len (rp_file s) -> rp_r_valid (rp_r s) = false -> rp_rd_chunk s = (s', 0) ->
  rp_fpos (rp_r s') = rp_offset (rp_r s) + 32 + fm_disk_len (fm_payload_length (wm_ck_hdr (rp_cur s'))) /\
  rp_fend (rp_r s) <> 0 /\ rp_r_valid (rp_r s') = false.
Proof.
  intros s s' Hc Hv H.
  assert (Hfe : rp_fend (rp_r s) <> 0).
  { unfold rp_rd_chunk in H. set (s0 := rp_io_set_cur s _) in H. unfold rp_raw_rd_header in H.
    change (rp_r s0) with (rp_r s) in H. rewrite Hv in H.
    destruct (rp_fend (rp_r s) <=? rp_fpos (rp_r s)) eqn:E; [cbn [negb N.eqb JLS_ERROR_EMPTY] in H; inversion H |].
    apply N.leb_gt in E. lia. }
  split; [| split; [exact Hfe | exact (proj1 (rpp_rd_chunk_pos s s' Hc Hv H))]].
  unfold rp_rd_chunk in H.
  set (s0 := rp_io_set_cur s _) in H.
  destruct (rp_raw_rd_header s0) as [s1 rc1] eqn:E1.
  destruct (rc1 =? 0) eqn:R1; cbn [negb] in H; [apply N.eqb_eq in R1; subst rc1 | inversion H; subst; discriminate].
  destruct (rpp_rd_header_pos s0 s1 Hc Hv E1) as (O1 & P1 & B1 & L1 & F1 & T1 & _ & K1 & H1).
  change (rp_offset (rp_r s0)) with (rp_offset (rp_r s)) in *. change (rp_flen s0) with (rp_flen s) in *.
  change (rp_file s0) with (rp_file s) in *.
  set (s2 := rp_io_set_cur s1 _) in H.
  assert (V2 : rp_r_valid (rp_r s2) = true \/ rp_r_valid (rp_r s2) = false) by (destruct (rp_r_valid (rp_r s2)); auto).
  assert (Hc2 : rp_flen s2 = rp_len (rp_file s2)) by (change (rp_flen s2) with (rp_flen s1); change (rp_file s2) with (rp_file s1); congruence).
  unfold rp_raw_rd_payload in H.
  set (p := if rp_r_valid (rp_r s2) then (s2, 0) else rp_raw_rd_header s2) in H.
  assert (Q : forall s3 rc3, p = (s3, rc3) -> rc3 = 0 ->
              rp_offset (rp_r s3) = rp_offset (rp_r s) /\ rp_fpos (rp_r s3) = rp_offset (rp_r s) + 32 /\
              rp_flen s3 = rp_flen s /\ rp_file s3 = rp_file s /\ rp_cur s3 = rp_cur s2 /\
              rp_hdr (rp_r s3) = rp_hdr (rp_r s1)).
  { intros s3 rc3 Hp Hz. unfold p in Hp. destruct (rp_r_valid (rp_r s2)) eqn:V2'.
    - inversion Hp; subst s3. change (rp_r s2) with (rp_r s1). change (rp_flen s2) with (rp_flen s1). change (rp_file s2) with (rp_file s1).
      repeat split; congruence.
    - subst rc3. destruct (rpp_rd_header_pos s2 s3 Hc2 V2' Hp) as (O3 & P3 & _ & L3 & F3 & _ & _ & _ & H3).
      change (rp_offset (rp_r s2)) with (rp_offset (rp_r s1)) in *. change (rp_flen s2) with (rp_flen s1) in *.
      change (rp_file s2) with (rp_file s1) in *.
      split; [congruence |]. split; [congruence |]. split; [congruence |]. split; [congruence |].
      split.
      + pose proof (rpp_rd_header_cur s2) as CC. rewrite Hp in CC. exact CC.
      + rewrite H3, H1, O1, L1, F1. reflexivity. }
  destruct p as [s3 rc3].
  destruct (rc3 =? 0) eqn:R3; cbn [negb] in H.
  2:{ destruct (rc3 =? JLS_ERROR_TOO_BIG); [destruct (rp_fend (rp_r s3) <? _); inversion H |].
      rewrite R3 in H. inversion H; subst. rewrite N.eqb_refl in R3. discriminate. }
  apply N.eqb_eq in R3. subst rc3. destruct (Q s3 0 eq_refl eq_refl) as (O3 & P3 & L3 & F3 & C3 & H3).
  assert (CURH : wm_ck_hdr (rp_cur s2) = rp_hdr (rp_r s1)) by reflexivity.
  assert (Z1 : (0 =? JLS_ERROR_TOO_BIG) = false) by reflexivity.
  assert (Z2 : (JLS_ERROR_IO =? JLS_ERROR_TOO_BIG) = false) by reflexivity.
  assert (Z3 : (JLS_ERROR_IO =? 0) = false) by reflexivity.
  assert (Z4 : (JLS_ERROR_MESSAGE_INTEGRITY =? JLS_ERROR_TOO_BIG) = false) by reflexivity.
  assert (Z5 : (JLS_ERROR_MESSAGE_INTEGRITY =? 0) = false) by reflexivity.
  assert (Z6 : (JLS_ERROR_TOO_BIG =? JLS_ERROR_TOO_BIG) = true) by reflexivity.
  destruct (fm_payload_length (rp_hdr (rp_r s3)) =? 0) eqn:PL.
  { cbv beta iota zeta in H. rewrite Z1, N.eqb_refl in H. inversion H; subst s'.
    cbn. rewrite C3, CURH, <- H3. apply N.eqb_eq in PL. rewrite PL. change (fm_disk_len 0) with 0. lia. }
  destruct (JLS_BUF_DEFAULT_SIZE <? fm_disk_len (fm_payload_length (rp_hdr (rp_r s3)))).
  { cbv beta iota zeta in H. rewrite Z6 in H. destruct (rp_fend (rp_r s3) <? _); inversion H. }
  set (rd := fm_disk_len (fm_payload_length (rp_hdr (rp_r s3)))) in *.
  set (s4 := if rp_offset (rp_r s3) + SIZEOF_chunk_header =? rp_fpos (rp_r s3) then s3
             else rp_io_set_r s3 (rp_r_set_fpos (rp_r s3) (rp_offset (rp_r s3) + SIZEOF_chunk_header))) in H.
  assert (A4 : rp_fpos (rp_r s4) = rp_offset (rp_r s) + 32 /\ rp_flen s4 = rp_flen s /\ rp_file s4 = rp_file s /\ rp_cur s4 = rp_cur s2).
  { unfold s4. destruct (rp_offset (rp_r s3) + SIZEOF_chunk_header =? rp_fpos (rp_r s3)); cbn; repeat split; try assumption.
    rewrite O3. reflexivity. }
  destruct A4 as (P4 & L4 & F4 & C4).
  pose proof (rpp_fread_len s4 rd) as FL. rewrite L4, F4, P4 in FL. specialize (FL Hc).
  destruct (rp_bk_fread s4 rd) as [s5 b] eqn:E5. cbn [snd] in FL.
  assert (A5 : rp_fpos (rp_r s5) = rp_offset (rp_r s) + 32 + rp_len b /\ rp_cur s5 = rp_cur s2).
  { unfold rp_bk_fread in E5. inversion E5; subst s5. cbn. rewrite P4, C4. split; reflexivity. }
  destruct A5 as (P5 & C5).
  destruct (rp_len b <? rd) eqn:SH.
  { cbv beta iota zeta in H. rewrite Z2, Z3 in H. inversion H. }
  apply N.ltb_ge in SH.
  match type of H with context [negb ?c] => destruct (negb c) end.
  { cbv beta iota zeta in H. rewrite Z4, Z5 in H. inversion H. }
  cbv beta iota zeta in H. rewrite Z1, N.eqb_refl in H. inversion H; subst s'.
  cbn. rewrite P5, C5, CURH, <- H3. fold rd. lia.
Qed.

(* ================================================================ jls_core_scan_fsr_sample_id *)
Lemma ro_scan_sid_loop : forall (P : rp_sig -> Prop), (forall g z, P g -> P (rp_sg_set_sid0 g z)) -> (forall id, P (rp_sig0 id)) ->
  forall ids c, Forall P (rp_sigs c) ->
  Forall P (rp_sigs (fst (rp_scan_sid_loop ids c))) /\ ry_rd (rp_io_ c) (rp_io_ (fst (rp_scan_sid_loop ids c))).
Proof.
  intros P HP H0. induction ids as [| id rest IH]; intros c H; cbn [rp_scan_sid_loop]; [split; [exact H | apply ry_rd_refl] |].
  match goal with |- context [if ?b then rp_scan_sid_loop rest c else _] => destruct b; [apply IH; exact H |] end.
  match goal with |- context [if ?b then rp_scan_sid_loop rest c else _] => destruct b; [apply IH; exact H |] end.
  match goal with |- context [rp_chunk_seek ?a ?b] => pose proof (ry_rd_chunk_seek a b) as R1; destruct (rp_chunk_seek a b) as [s1 rc1] end.
  cbn [fst] in R1.
  destruct (negb (rc1 =? 0)); [cbn [fst]; split; [exact H | exact R1] |].
  pose proof (ry_rd_rd_chunk s1) as R2. destruct (rp_rd_chunk s1) as [s2 rc2]. cbn [fst] in R2.
  pose proof (ry_rd_trans _ _ _ R1 R2) as G2.
  destruct (negb (rc2 =? 0)); [cbn [fst]; split; [exact H | exact G2] |].
  match goal with |- context [if ?b then rp_scan_sid_loop rest _ else _] => destruct b end.
  { destruct (IH (rp_rd_set_io c s2) H) as (A & B). split; [exact A | eapply ry_rd_trans; [exact G2 | exact B]]. }
  pose proof (ry_rd_buf_sub s2 0 8) as R3. destruct (rp_buf_sub s2 0 8) as [s3 b]. cbn [fst] in R3.
  match goal with |- context [rp_scan_sid_loop rest ?c'] => destruct (IH c') as (A & B) end.
  { unfold rp_put_sig. cbn [rp_sigs rp_rd_set_sigs rp_rd_set_io]. apply wmw_Forall_upd; [exact H |]. apply HP.
    unfold rp_get_sig. destruct (nth_in_or_default (N.to_nat id) (rp_sigs c) (rp_sig0 id)) as [Hin | Hd].
    - rewrite Forall_forall in H. apply H. exact Hin.
    - rewrite Hd. apply H0. }
  split; [exact A |]. rewrite rpp_put_sig_io in B. cbn [rp_io_ rp_rd_set_io] in B.
  eapply ry_rd_trans; [exact G2 |]. eapply ry_rd_trans; [exact R3 | exact B].
Qed.

(* ================================================================ jls_rd_close on the error paths *)
Definition ro_fsr_none (c : rp_rd) : Prop := forall id, rp_sg_fsr (rp_get_sig c id) = None.
Lemma ro_fsr_none_of : forall (P : rp_sig -> Prop) c, (forall g, P g -> rp_sg_fsr g = None) -> Forall P (rp_sigs c) -> ro_fsr_none c.
Proof.
  intros P c HP H id. unfold rp_get_sig. destruct (nth_in_or_default (N.to_nat id) (rp_sigs c) (rp_sig0 id)) as [Hin | Hd].
  - apply HP. rewrite Forall_forall in H. apply H. exact Hin.
  - rewrite Hd. reflexivity.
Qed.

Section RO.
Variable f : list N.
Variable summ1 : N -> list N -> wm_sentry.
Variable summN : bool -> list wm_sentry -> wm_sentry.

Lemma ro_exit_fold : forall ids w, ro_fsr_none (rp_c w) -> fold_left (rp_exit_fsr summ1 summN) ids w = w.
Proof.
  induction ids as [| id rest IH]; intros w H; cbn [fold_left]; [reflexivity |].
  unfold rp_exit_fsr at 2. rewrite (H id). apply IH. exact H.
Qed.

Lemma ro_raw_close_log : forall w, exists b, rp_raw_close w = rp_commit w b /\
  wm_rlog (wm_b_raw b) = [WmWrite 0 (wm_file_header_bytes (rp_flen (rp_w_io w)))].
Proof.
  intros w. unfold rp_raw_close, rp_with_raw. eexists. split; [reflexivity |].
  unfold rp_wm_wr_file_header. cbv zeta. cbn [wm_b_raw wm_b_set_raw]. destruct (wm_fpos _ =? 0); reflexivity.
Qed.

Variable pos : N.

(* the file header is accepted first (nothing else was written) or after the repair's writes *)
Lemma ro_exit : forall w rc st, ry_pre f pos w st -> (rw_stg st = RwStart \/ rw_stg st = RwIdle) -> ro_fsr_none (rp_c w) ->
  rw_check false f pos (rp_events (rp_exit summ1 summN w rc)) = true.
Proof.
  intros w rc st Hp Hs Hn. unfold rp_exit. rewrite (ro_exit_fold _ _ Hn).
  destruct (ro_raw_close_log w) as (b & Eb & Lb). rewrite Eb.
  unfold rp_res, rp_res_end. cbn [rp_events]. rewrite wm_rev_eq.
  set (e := WmWrite 0 (wm_file_header_bytes (rp_flen (rp_w_io w)))).
  assert (N1 : In RwDone (rw_next false f pos st e)).
  { destruct Hp as (_ & _ & A4 & _). unfold e. rewrite <- A4. cbn [rw_next].
    assert (Q : fm_list_eqb (wm_file_header_bytes (rw_n st)) (wm_file_header_bytes (rw_n st)) = true) by (apply fm_list_eqb_eq; reflexivity).
    destruct Hs as [Hs | Hs]; rewrite Hs, N.eqb_refl, Q; now left. }
  pose proof (ry_pre_commit f pos w b st (rw_after st e RwDone) Hp) as Hq. rewrite Lb in Hq. cbn [rev app] in Hq.
  specialize (Hq (rw_runs_one _ _ _ _ _ _ N1)). destruct Hq as (R & _).
  unfold rw_check. apply existsb_exists. exists (rw_after st e RwDone). split; [exact R | reflexivity].
Qed.
Lemma ro_uninit_io : forall (c : bool) w, rp_w_io (if c then rp_w_set_uninit w else w) = rp_w_io w.
Proof. intros c w. destruct c; reflexivity. Qed.
Lemma ro_exit_fsr_flt : forall w id, rp_flt (rp_w_io (rp_exit_fsr summ1 summN w id)) = 0 -> rp_flt (rp_w_io w) = 0.
Proof.
  intros w id. unfold rp_exit_fsr. destruct (rp_sg_fsr (rp_get_sig (rp_c w) id)) as [fs |]; [| auto].
  destruct (rp_sg_track (rp_get_sig (rp_c w) id) JLS_TRACK_TYPE_FSR) as [has t].
  unfold rp_unfx. set (w1a := rp_commit w _).
  match goal with |- context [rp_put_sig (rp_c ?x)] => set (w1 := x) end.
  intros X. change (rp_flt (rp_w_io w1) = 0) in X.
  assert (Y : rp_flt (rp_w_io w1a) = 0) by (unfold w1 in X; rewrite ro_uninit_io in X; exact X).
  exact (proj1 (ry_commit_flt _ _ Y)).
Qed.
Lemma ro_exit_flt : forall w rc, rp_fault (rp_exit summ1 summN w rc) = 0 -> rp_flt (rp_w_io w) = 0.
Proof.
  intros w rc H. unfold rp_exit in H.
  destruct (ro_raw_close_log (fold_left (rp_exit_fsr summ1 summN) rp_signal_ids w)) as (b & Eb & _). rewrite Eb in H.
  pose proof (proj1 (ry_commit_flt _ _ H)) as H1. clear H Eb b. revert w H1. generalize rp_signal_ids.
  induction l as [| id rest IH]; intros w H; cbn [fold_left] in H; [exact H |].
  apply (ro_exit_fsr_flt w id). apply IH. exact H.
Qed.
Lemma ro_exit_rc : forall w rc, rp_rc (rp_exit summ1 summN w rc) = rc.
Proof. reflexivity. Qed.

(* ================================================================ the END chunk, the file header, the reopen *)
Lemma ro_repair_end : forall w9 st, ry_acc f pos w9 st ->
  rw_check false f pos (rp_events (rp_repair_end w9)) = true.
Proof.
  intros w9 st H.
  assert (Ev : rp_events (rp_repair_end w9) = rev (rp_log (rp_end_state w9))).
  { destruct (rpp_repair_end_eq w9) as (w11 & _ & _ & L & D). cbv zeta in D.
    destruct D as [D | (rc & _ & D)]; rewrite D.
    - unfold rp_finish. destruct (rp_scan_fsr_sample_id (rp_c w11)). unfold rp_res_end. cbn [rp_events rp_log rp_w_set_c]. rewrite wm_rev_eq, L. reflexivity.
    - unfold rp_res_end. cbn [rp_events]. rewrite wm_rev_eq, L. reflexivity. }
  rewrite Ev. unfold rp_end_state. cbv zeta.
  set (w9s := rp_end_seek w9).
  set (w9a := if rp_w_inplace w9s then rp_w_set_uninit w9s else w9s).
  assert (H9 : ry_acc f pos w9a st /\ rz_at_end (rp_w_io w9a)).
  { assert (X : ry_acc f pos w9s st) by (apply (ry_acc_rd f pos _ _ _ H (ry_rd_seek_end _))).
    unfold w9a. destruct (rp_w_inplace w9s); (split; [exact X | apply rz_at_end_seek_end]). }
  destruct H9 as (H9 & (E1 & E2 & E3)).
  pose proof (ry_bridge f pos w9a st 0 H9 E1 E2 E3) as Br.
  pose proof Br as (B1 & B2 & B3 & B4 & B5 & B6 & B7 & B8 & B9 & B10 & B11).
  set (b9 := rp_wm_base w9a 0) in *.
  (* jls_core_wr_end *)
  assert (WE : exists h1, wm_b_raw (wm_core_wr_end b9) =
                 wm_mk_raw (rw_n st + 32) (rw_n st + 32) (rw_n st + 32) (wm_hdr_set_tag h1 JLS_TAG_INVALID) 0
                   ((rw_n st, h1) :: wm_disk (wm_b_raw b9)) (WmWrite (rw_n st) (fm_encode_chunk_header h1) :: wm_rlog (wm_b_raw b9)) false /\
                 fm_item_next h1 = 0 /\ fm_tag h1 = JLS_TAG_END /\ fm_payload_length h1 = 0).
  { unfold wm_core_wr_end. rewrite (rx_raw_mk f pos _ _ _ Br).
    rewrite (wmw_raw_wr_eq _ _ _ _ _ (wm_mk_hdr 0 JLS_TAG_END 0 0) [] ltac:(discriminate)). cbv zeta.
    cbn [wm_mk_hdr fm_payload_length N.eqb]. eexists. split; [reflexivity |]. repeat split. }
  destruct WE as (h1 & WE & N1 & T1 & P1).
  set (e1 := WmWrite (rw_n st) (fm_encode_chunk_header h1)).
  assert (NX1 : In RwIdle (rw_next false f pos st e1)).
  { apply (rw_in_idle f pos st (rw_n st) _ _ 1%nat B2). cbn [nth_error]. f_equal. rewrite N.eqb_refl.
    unfold rw_is_app. destruct (rw_decode_encode h1 []) as (h' & A & _ & C & D & E). rewrite app_nil_r in A. rewrite A.
    unfold rp_len. rewrite fm_encode_chunk_header_length. change (N.of_nat 32 =? 32) with true.
    rewrite C, N1, D, T1, E, P1. reflexivity. }
  set (st1 := rw_after st e1 RwIdle).
  assert (A1 : rw_n st1 = rw_n st + 32 /\ rw_stg st1 = RwIdle).
  { unfold st1, e1. rewrite rx_after_append by exact B3. cbn [rw_n rw_stg]. unfold rp_len. rewrite fm_encode_chunk_header_length. split; reflexivity. }
  destruct A1 as (A1 & A1s).
  assert (Hp9 : ry_pre f pos w9a st) by (destruct H9 as (X1 & _ & X3 & X4 & X5 & _); repeat split; assumption).
  assert (Hp10 : ry_pre f pos (rp_commit w9a (wm_core_wr_end b9)) st1).
  { apply (ry_pre_commit f pos w9a _ st st1 Hp9). rewrite WE. cbn [wm_mk_raw wm_rlog].
    change (wm_rlog (wm_b_raw b9)) with (@nil wm_entry). cbn [rev app]. apply rw_runs_one. exact NX1. }
  (* jls_raw_close *)
  set (w10 := rp_commit w9a (wm_core_wr_end b9)) in *.
  destruct (ro_raw_close_log w10) as (b & Eb & Lb). rewrite Eb.
  set (e2 := WmWrite 0 (wm_file_header_bytes (rp_flen (rp_w_io w10)))).
  assert (NX2 : In RwDone (rw_next false f pos st1 e2)).
  { destruct Hp10 as (_ & _ & A4 & _). unfold e2. rewrite <- A4. cbn [rw_next]. rewrite A1s, N.eqb_refl.
    assert (Q : fm_list_eqb (wm_file_header_bytes (rw_n st1)) (wm_file_header_bytes (rw_n st1)) = true) by (apply fm_list_eqb_eq; reflexivity).
    rewrite Q. now left. }
  pose proof (ry_pre_commit f pos w10 b st1 (rw_after st1 e2 RwDone) Hp10) as Hq. rewrite Lb in Hq. cbn [rev app] in Hq.
  specialize (Hq (rw_runs_one _ _ _ _ _ _ NX2)). destruct Hq as (R & _).
  unfold rw_check. apply existsb_exists. exists (rw_after st1 e2 RwDone). split; [exact R | reflexivity].
Qed.

End RO.
