(* C10, part 1 of the proof that the synchronous writer model never faults: the raw layer (WmRaw.v) and the
   core / track layer (WmCore.v).

   Invariant of the raw state between two "units" (a chunk append + its link; a head-table rewrite):
     sf_raw_ok r :  no fault, offset = fpos <= fend, offset <> 0, every chunk header ever written (the ghost
                    wm_disk) lies strictly below the offset (and not at 0), and all headers written at the same
                    offset carry the same payload_length.
   A cached chunk (wm_chunk: offset + header) is sf_ck: offset 0 (none), or its (offset, header) pair is in the
   ghost disk.  The disk only grows (sf_ext), so sf_ck is stable.
   Every top-level name starts with sf_. *)
From Coq Require Import NArith ZArith List Bool Lia Arith.
From Coq Require Import ZifyBool ZifyN ZifyNat.
From JLS Require Import Generated CrcDefs Spec Format FormatProofs WmRaw WmCore WmProofs.
Import ListNotations.
Local Open Scope N_scope.
Ltac Zify.zify_post_hook ::= Z.div_mod_to_equations.

Local Opaque crc32c.

Definition sf_plen (h : fm_chunk_header) : N := fm_payload_length h.

Definition sf_disk_lt (d : list (N * fm_chunk_header)) (o : N) : Prop :=
  forall o' h, In (o', h) d -> o' <> 0 /\ o' < o.
Definition sf_disk_cons (d : list (N * fm_chunk_header)) : Prop :=
  forall o h h', In (o, h) d -> In (o, h') d -> sf_plen h = sf_plen h'.

Definition sf_raw_ok (r : wm_raw) : Prop :=
  wm_fault r = false /\ wm_offset r = wm_fpos r /\ wm_fpos r <= wm_fend r /\ wm_offset r <> 0 /\
  sf_disk_lt (wm_disk r) (wm_offset r) /\ sf_disk_cons (wm_disk r).

Definition sf_ext (r r' : wm_raw) : Prop := incl (wm_disk r) (wm_disk r').

Definition sf_ck (d : list (N * fm_chunk_header)) (c : wm_chunk) : Prop :=
  wm_ck_offset c = 0 \/ In (wm_ck_offset c, wm_ck_hdr c) d.

Lemma sf_ext_refl : forall r, sf_ext r r.
Proof. intro r. apply incl_refl. Qed.
Lemma sf_ext_trans : forall a b c, sf_ext a b -> sf_ext b c -> sf_ext a c.
Proof. intros a b c H1 H2. eapply incl_tran; eassumption. Qed.
Lemma sf_ck_incl : forall d d' c, incl d d' -> sf_ck d c -> sf_ck d' c.
Proof. intros d d' c Hi [H|H]; [now left | right; now apply Hi]. Qed.
Lemma sf_ck0 : forall d, sf_ck d wm_chunk0.
Proof. intro d. now left. Qed.

Lemma sf_disk_get_in : forall d o h, In (o, h) d -> exists h', wm_disk_get d o = Some h' /\ In (o, h') d.
Proof.
  induction d as [|[o1 h1] d IH]; intros o h Hin; [destruct Hin|].
  cbn [wm_disk_get]. destruct (o1 =? o) eqn:E.
  - apply N.eqb_eq in E. subst o1. exists h1. split; [reflexivity | now left].
  - destruct Hin as [Heq|Hin].
    + inversion Heq; subst. rewrite N.eqb_refl in E. discriminate.
    + destruct (IH o h Hin) as (h' & Hg & Hi). exists h'. split; [exact Hg | now right].
Qed.

(* ---------------------------------------------------------------- jls_raw_wr: append one chunk *)
Lemma sf_raw_wr : forall r h p r1 h1,
  sf_raw_ok r -> fm_tag h <> JLS_TAG_INVALID -> sf_plen h <= N.of_nat (length p) ->
  wm_raw_wr r h p = (r1, h1) ->
  sf_raw_ok r1 /\ sf_ext r r1 /\ In (wm_offset r, h1) (wm_disk r1) /\ sf_plen h1 = sf_plen h /\
  wm_offset r < wm_offset r1.
Proof.
  intros r h p r1 h1 (Hflt & Hoff & Hpe & Hnz & Hlt & Hcons) Htag Hlen H.
  destruct r as [fpos fend off hdr lpl disk log flt].
  cbn [wm_fault wm_offset wm_fpos wm_fend wm_disk] in *. subst flt off.
  unfold wm_raw_wr, wm_raw_wr_header in H.
  cbn [wm_fend wm_fpos wm_offset wm_last_pl] in H. rewrite N.eqb_refl in H.
  set (h2 := if fend <=? fpos then wm_hdr_set_ppl h lpl else h) in H.
  assert (Hpl2 : sf_plen h2 = sf_plen h) by (subst h2; destruct (fend <=? fpos); reflexivity).
  assert (Htag2 : (fm_tag h2 =? JLS_TAG_INVALID) = false).
  { apply N.eqb_neq. subst h2. destruct (fend <=? fpos); exact Htag. }
  unfold wm_bk_fwrite in H. cbn [wm_fpos wm_fend wm_offset wm_hdr wm_last_pl wm_disk wm_rlog wm_fault] in H.
  rewrite wm_hdr_bytes_length in H.
  unfold wm_disk_put, wm_set_hdr in H. cbn [wm_fpos wm_fend wm_offset wm_hdr wm_last_pl wm_disk wm_rlog wm_fault] in H.
  unfold wm_raw_wr_payload, wm_raw_rd_header, wm_hdr_valid in H.
  cbn [wm_hdr wm_fault] in H. rewrite Htag2 in H. cbn [negb wm_fault] in H.
  assert (Hdisk1 : sf_disk_lt ((fpos, h2) :: disk) (fpos + 32) /\ sf_disk_cons ((fpos, h2) :: disk)).
  { split.
    - intros o' h' [Heq|Hin]; [inversion Heq; subst; lia|]. destruct (Hlt _ _ Hin). lia.
    - intros o ha hb [Ha|Ha] [Hb|Hb].
      + inversion Ha; inversion Hb; subst. reflexivity.
      + inversion Ha; subst. destruct (Hlt _ _ Hb). lia.
      + inversion Hb; subst. destruct (Hlt _ _ Ha). lia.
      + eapply Hcons; eassumption. }
  destruct Hdisk1 as [Hlt1 Hcons1].
  assert (Hlt_mono : forall a b, a <= b -> sf_disk_lt ((fpos, h2) :: disk) a -> sf_disk_lt ((fpos, h2) :: disk) b).
  { intros a b Hab Hx o' h' Hin. destruct (Hx _ _ Hin). lia. }
  destruct (fm_payload_length h2 =? 0) eqn:E0.
  - (* empty payload *)
    cbn [wm_fend wm_fpos] in H.
    destruct (N.max fend (fpos + 32) <=? fpos + 32);
      unfold wm_invalidate, wm_set_offset, wm_set_hdr, wm_set_last_pl in H;
      cbn [wm_fpos wm_fend wm_offset wm_hdr wm_last_pl wm_disk wm_rlog wm_fault] in H;
      inversion H; subst r1 h1; clear H;
      (split; [|split; [|split; [|split]]];
       [ unfold sf_raw_ok; cbn [wm_fpos wm_fend wm_offset wm_hdr wm_last_pl wm_disk wm_rlog wm_fault];
         split; [reflexivity|]; split; [reflexivity|]; split; [lia|]; split; [lia|]; split; [exact Hlt1 | exact Hcons1]
       | unfold sf_ext; cbn; apply incl_tl, incl_refl
       | cbn; now left
       | exact Hpl2
       | cbn; lia ]).
  - cbn [wm_hdr] in H.
    assert (Hno : (N.of_nat (length p) <? fm_payload_length h2) = false).
    { apply N.ltb_ge. unfold sf_plen in *. lia. }
    rewrite Hno in H.
    unfold wm_bk_fwrite in H. cbn [wm_fpos wm_fend wm_offset wm_hdr wm_last_pl wm_disk wm_rlog wm_fault] in H.
    set (n1 := N.of_nat (length (firstn (N.to_nat (fm_payload_length h2)) p))) in H.
    set (n2 := N.of_nat (length (wm_footer (fm_payload_length h2) (crc32c (firstn (N.to_nat (fm_payload_length h2)) p))))) in H.
    match type of H with context [if ?c then wm_set_last_pl _ _ else _] => destruct c end;
      cbv zeta in H; unfold wm_invalidate, wm_set_offset, wm_set_hdr, wm_set_last_pl in H;
      cbn [wm_fpos wm_fend wm_offset wm_hdr wm_last_pl wm_disk wm_rlog wm_fault] in H;
      inversion H; subst r1 h1; clear H;
      (split; [|split; [|split; [|split]]];
       [ unfold sf_raw_ok; cbn [wm_fpos wm_fend wm_offset wm_hdr wm_last_pl wm_disk wm_rlog wm_fault];
         split; [reflexivity|]; split; [reflexivity|]; split; [lia|]; split; [lia|]; split; [|exact Hcons1];
         apply (Hlt_mono (fpos + 32)); [lia | exact Hlt1]
       | unfold sf_ext; cbn; apply incl_tl, incl_refl
       | cbn; now left
       | exact Hpl2
       | cbn; lia ]).
Qed.

(* ---------------------------------------------------------------- jls_core_update_item_head: link *)
Lemma sf_update_item_head : forall r head next r2 c,
  sf_raw_ok r -> sf_ck (wm_disk r) head ->
  wm_update_item_head r head next = (r2, c) ->
  sf_raw_ok r2 /\ sf_ext r r2 /\ c = next /\ wm_offset r2 = wm_offset r.
Proof.
  intros r head next r2 c Hok Hck H. unfold wm_update_item_head in H.
  destruct (wm_ck_offset head =? 0) eqn:E0.
  { inversion H; subst. split; [exact Hok|]. split; [apply sf_ext_refl|]. split; reflexivity. }
  apply N.eqb_neq in E0. destruct Hck as [Hz|Hin]; [congruence|].
  destruct Hok as (Hflt & Hoff & Hpe & Hnz & Hlt & Hcons).
  destruct (Hlt _ _ Hin) as [_ Hho].
  destruct r as [fpos fend off hdr lpl disk log flt].
  cbn [wm_fault wm_offset wm_fpos wm_fend wm_disk] in *. subst flt off.
  set (ho := wm_ck_offset head) in *. set (hh := wm_ck_hdr head) in *.
  unfold wm_raw_chunk_tell, wm_raw_chunk_seek, wm_invalidate, wm_bk_fseek, wm_set_hdr, wm_set_fpos, wm_set_offset in H.
  cbn [wm_fpos wm_fend wm_offset wm_hdr wm_last_pl wm_disk wm_rlog wm_fault] in H.
  destruct (ho =? 0) eqn:E1; [apply N.eqb_eq in E1; congruence|].
  unfold wm_raw_wr_header in H. cbn [wm_fpos wm_fend wm_offset wm_hdr wm_last_pl wm_disk wm_rlog wm_fault] in H.
  rewrite N.eqb_refl in H.
  set (h2 := if fend <=? ho then wm_hdr_set_ppl (wm_hdr_set_next hh (wm_ck_offset next)) lpl else wm_hdr_set_next hh (wm_ck_offset next)) in H.
  assert (Hpl2 : sf_plen h2 = sf_plen hh) by (subst h2; destruct (fend <=? ho); reflexivity).
  unfold wm_bk_fwrite, wm_disk_put, wm_set_hdr in H.
  cbn [wm_fpos wm_fend wm_offset wm_hdr wm_last_pl wm_disk wm_rlog wm_fault] in H.
  rewrite wm_hdr_bytes_length in H.
  destruct (fpos =? 0) eqn:E2; [apply N.eqb_eq in E2; congruence|].
  inversion H; subst r2 c; clear H.
  split; [|split; [|split]]; try reflexivity.
  - unfold sf_raw_ok. cbn [wm_fpos wm_fend wm_offset wm_hdr wm_last_pl wm_disk wm_rlog wm_fault].
    split; [reflexivity|]. split; [reflexivity|]. split; [lia|]. split; [exact Hnz|]. split.
    + intros o' h' [Heq|Hi]; [inversion Heq; subst; split; [exact E0 | exact Hho] | exact (Hlt _ _ Hi)].
    + intros o ha hb [Ha|Ha] [Hb|Hb].
      * inversion Ha; inversion Hb; subst. reflexivity.
      * inversion Ha; subst. rewrite Hpl2. eapply Hcons; eassumption.
      * inversion Hb; subst. rewrite Hpl2. eapply Hcons; eassumption.
      * eapply Hcons; eassumption.
  - unfold sf_ext. cbn. apply incl_tl, incl_refl.
Qed.

(* ---------------------------------------------------------------- the head-table rewrite of jls_track_wr_head *)
Lemma sf_seek_eq : forall fpos fend off hdr lpl disk log flt o, o <> 0 ->
  wm_raw_chunk_seek (wm_mk_raw fpos fend off hdr lpl disk log flt) o =
  wm_mk_raw o fend o (wm_hdr_set_tag hdr JLS_TAG_INVALID) lpl disk log flt.
Proof.
  intros. unfold wm_raw_chunk_seek. apply N.eqb_neq in H. rewrite H. reflexivity.
Qed.

Lemma sf_wr_payload_reread_eq : forall fend o hdr lpl disk log h' payload n,
  fm_tag hdr = JLS_TAG_INVALID -> o < fend -> wm_disk_get disk o = Some h' -> n <> 0 ->
  fm_payload_length h' <= N.of_nat (length payload) ->
  exists fpos' fend' lpl' log',
    wm_raw_wr_payload (wm_mk_raw o fend o hdr lpl disk log false) n payload =
    wm_mk_raw fpos' fend' o h' lpl' disk log' false /\ fpos' <= fend' /\ fend <= fend'.
Proof.
  intros fend o hdr lpl disk log h' payload n Htag Hlt Hget Hn Hlen.
  unfold wm_raw_wr_payload, wm_raw_rd_header, wm_hdr_valid, wm_mk_raw.
  cbn [wm_fpos wm_fend wm_offset wm_hdr wm_last_pl wm_disk wm_rlog wm_fault].
  rewrite Htag. cbn [N.eqb negb].
  assert (Hfe : (fend <=? o) = false) by (apply N.leb_gt; exact Hlt). rewrite Hfe, (N.eqb_refl o).
  unfold wm_set_offset, wm_set_fpos, wm_set_hdr.
  cbn [wm_fpos wm_fend wm_offset wm_hdr wm_last_pl wm_disk wm_rlog wm_fault]. rewrite Hget.
  cbn [wm_fpos wm_fend wm_offset wm_hdr wm_last_pl wm_disk wm_rlog wm_fault].
  apply N.eqb_neq in Hn. rewrite Hn.
  assert (Hno : (N.of_nat (length payload) <? fm_payload_length h') = false) by (apply N.ltb_ge; exact Hlen). rewrite Hno.
  unfold wm_bk_fwrite. cbn [wm_fpos wm_fend wm_offset wm_hdr wm_last_pl wm_disk wm_rlog wm_fault].
  match goal with |- context [if ?c then wm_set_last_pl _ _ else _] => destruct c end;
    unfold wm_set_last_pl; cbn [wm_fpos wm_fend wm_offset wm_hdr wm_last_pl wm_disk wm_rlog wm_fault];
    do 4 eexists; (split; [reflexivity|]); lia.
Qed.

Lemma sf_raw_ok_mk : forall r, sf_raw_ok r ->
  r = wm_mk_raw (wm_fpos r) (wm_fend r) (wm_fpos r) (wm_hdr r) (wm_last_pl r) (wm_disk r) (wm_rlog r) false.
Proof.
  intros r (Hf & Ho & _). destruct r as [fpos fend off hdr lpl disk log flt].
  cbn [wm_fault wm_offset wm_fpos] in Hf, Ho. subst. reflexivity.
Qed.

Lemma sf_tbl_rewrite : forall r ho hh payload,
  sf_raw_ok r -> In (ho, hh) (wm_disk r) -> sf_plen hh = SIZEOF_track_head -> SIZEOF_track_head <= N.of_nat (length payload) ->
  let r' := wm_raw_chunk_seek (wm_raw_wr_payload (wm_raw_chunk_seek r ho) SIZEOF_track_head payload) (wm_raw_chunk_tell r) in
  sf_raw_ok r' /\ wm_disk r' = wm_disk r /\ wm_offset r' = wm_offset r.
Proof.
  intros r ho hh payload Hok Hin Hpl Hlen.
  pose proof (sf_raw_ok_mk r Hok) as Hr.
  destruct Hok as (Hflt & Hoff & Hpe & Hnz & Hlt & Hcons).
  destruct (Hlt _ _ Hin) as [Hho0 Hho].
  destruct (sf_disk_get_in _ _ _ Hin) as (h' & Hget & Hin').
  assert (Hpl' : fm_payload_length h' = 128).
  { transitivity (sf_plen hh); [eapply Hcons; eassumption | exact Hpl]. }
  unfold wm_raw_chunk_tell. rewrite Hoff in *.
  set (fpos := wm_fpos r) in *. set (fend := wm_fend r) in *. set (disk := wm_disk r) in *.
  cbv zeta. rewrite Hr at 1. rewrite sf_seek_eq by exact Hho0.
  destruct (sf_wr_payload_reread_eq fend ho (wm_hdr_set_tag (wm_hdr r) JLS_TAG_INVALID) (wm_last_pl r) disk (wm_rlog r) h' payload SIZEOF_track_head)
    as (fpos' & fend' & lpl' & log' & Heq & Hle1 & Hle2); try assumption; try reflexivity; try lia; try discriminate.
  { rewrite Hpl'. exact Hlen. }
  rewrite Heq, sf_seek_eq by exact Hnz.
  split; [|split; reflexivity].
  unfold sf_raw_ok, wm_mk_raw. cbn [wm_fpos wm_fend wm_offset wm_hdr wm_last_pl wm_disk wm_rlog wm_fault].
  split; [reflexivity|]. split; [reflexivity|]. split; [lia|]. split; [exact Hnz|]. split; assumption.
Qed.
