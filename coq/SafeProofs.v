(* C10, part 1 of the proof that the synchronous writer model never faults: the raw layer (WmRaw.v) and the
   core / track layer (WmCore.v).

   Invariant of the raw state between two "units" (a chunk append + its link; a head-table rewrite):
     sf_raw_ok r :  no fault, offset = fpos <= fend, offset <> 0, every chunk header ever written (the ghost
                    wm_disk) lies strictly below the offset (and not at 0), and all headers written at the same
                    offset carry the same payload_length.
   A cached chunk (wm_chunk: offset + header) is sf_ck: offset 0 (none), or its (offset, header) pair is in the
   ghost disk.  The disk only grows (sf_ext), so sf_ck is stable.
   Every top-level name starts with sf_. *)
From Coq Require Import NArith ZArith List Bool Lia Arith.
From Coq Require Import ZifyBool ZifyN ZifyNat.
From JLS Require Import Generated CrcDefs Spec Format FormatProofs WmRaw WmCore WmProofs.
Import ListNotations.
Local Open Scope N_scope.
Ltac Zify.zify_post_hook ::= Z.div_mod_to_equations.

Local Opaque crc32c.

Definition sf_plen (h : fm_chunk_header) : N := fm_payload_length h.

Definition sf_disk_lt (d : list (N * fm_chunk_header)) (o : N) : Prop :=
  forall o' h, In (o', h) d -> o' <> 0 /\ o' < o.
Definition sf_disk_cons (d : list (N * fm_chunk_header)) : Prop :=
  forall o h h', In (o, h) d -> In (o, h') d -> sf_plen h = sf_plen h'.

Definition sf_raw_ok (r : wm_raw) : Prop :=
  wm_fault r = false /\ wm_offset r = wm_fpos r /\ wm_fpos r <= wm_fend r /\ wm_offset r <> 0 /\
  sf_disk_lt (wm_disk r) (wm_offset r) /\ sf_disk_cons (wm_disk r).

Definition sf_ext (r r' : wm_raw) : Prop := incl (wm_disk r) (wm_disk r').

Definition sf_ck (d : list (N * fm_chunk_header)) (c : wm_chunk) : Prop :=
  wm_ck_offset c = 0 \/ In (wm_ck_offset c, wm_ck_hdr c) d.

Lemma sf_ext_refl : forall r, sf_ext r r.
Proof. intro r. apply incl_refl. Qed.
Lemma sf_ext_trans : forall a b c, sf_ext a b -> sf_ext b c -> sf_ext a c.
Proof. intros a b c H1 H2. eapply incl_tran; eassumption. Qed.
Lemma sf_ck_incl : forall d d' c, incl d d' -> sf_ck d c -> sf_ck d' c.
Proof. intros d d' c Hi [H|H]; [now left | right; now apply Hi]. Qed.
Lemma sf_ck0 : forall d, sf_ck d wm_chunk0.
Proof. intro d. now left. Qed.

Lemma sf_disk_get_in : forall d o h, In (o, h) d -> exists h', wm_disk_get d o = Some h' /\ In (o, h') d.
Proof.
  induction d as [|[o1 h1] d IH]; intros o h Hin; [destruct Hin|].
  cbn [wm_disk_get]. destruct (o1 =? o) eqn:E.
  - apply N.eqb_eq in E. subst o1. exists h1. split; [reflexivity | now left].
  - destruct Hin as [Heq|Hin].
    + inversion Heq; subst. rewrite N.eqb_refl in E. discriminate.
    + destruct (IH o h Hin) as (h' & Hg & Hi). exists h'. split; [exact Hg | now right].
Qed.

(* ---------------------------------------------------------------- jls_raw_wr: append one chunk *)
Lemma sf_raw_wr : forall r h p r1 h1,
  sf_raw_ok r -> fm_tag h <> JLS_TAG_INVALID -> sf_plen h <= N.of_nat (length p) ->
  wm_raw_wr r h p = (r1, h1) ->
  sf_raw_ok r1 /\ sf_ext r r1 /\ In (wm_offset r, h1) (wm_disk r1) /\ sf_plen h1 = sf_plen h /\
  wm_offset r < wm_offset r1.
Proof.
  intros r h p r1 h1 (Hflt & Hoff & Hpe & Hnz & Hlt & Hcons) Htag Hlen H.
  destruct r as [fpos fend off hdr lpl disk log flt].
  cbn [wm_fault wm_offset wm_fpos wm_fend wm_disk] in *. subst flt off.
  unfold wm_raw_wr, wm_raw_wr_header in H.
  cbn [wm_fend wm_fpos wm_offset wm_last_pl] in H. rewrite N.eqb_refl in H.
  set (h2 := if fend <=? fpos then wm_hdr_set_ppl h lpl else h) in H.
  assert (Hpl2 : sf_plen h2 = sf_plen h) by (subst h2; destruct (fend <=? fpos); reflexivity).
  assert (Htag2 : (fm_tag h2 =? JLS_TAG_INVALID) = false).
  { apply N.eqb_neq. subst h2. destruct (fend <=? fpos); exact Htag. }
  unfold wm_bk_fwrite in H. cbn [wm_fpos wm_fend wm_offset wm_hdr wm_last_pl wm_disk wm_rlog wm_fault] in H.
  rewrite wm_hdr_bytes_length in H.
  unfold wm_disk_put, wm_set_hdr in H. cbn [wm_fpos wm_fend wm_offset wm_hdr wm_last_pl wm_disk wm_rlog wm_fault] in H.
  unfold wm_raw_wr_payload, wm_raw_rd_header, wm_hdr_valid in H.
  cbn [wm_hdr wm_fault] in H. rewrite Htag2 in H. cbn [negb wm_fault] in H.
  assert (Hdisk1 : sf_disk_lt ((fpos, h2) :: disk) (fpos + 32) /\ sf_disk_cons ((fpos, h2) :: disk)).
  { split.
    - intros o' h' [Heq|Hin]; [inversion Heq; subst; lia|]. destruct (Hlt _ _ Hin). lia.
    - intros o ha hb [Ha|Ha] [Hb|Hb].
      + inversion Ha; inversion Hb; subst. reflexivity.
      + inversion Ha; subst. destruct (Hlt _ _ Hb). lia.
      + inversion Hb; subst. destruct (Hlt _ _ Ha). lia.
      + eapply Hcons; eassumption. }
  destruct Hdisk1 as [Hlt1 Hcons1].
  assert (Hlt_mono : forall a b, a <= b -> sf_disk_lt ((fpos, h2) :: disk) a -> sf_disk_lt ((fpos, h2) :: disk) b).
  { intros a b Hab Hx o' h' Hin. destruct (Hx _ _ Hin). lia. }
  destruct (fm_payload_length h2 =? 0) eqn:E0.
  - (* empty payload *)
    cbn [wm_fend wm_fpos] in H.
    destruct (N.max fend (fpos + 32) <=? fpos + 32);
      unfold wm_invalidate, wm_set_offset, wm_set_hdr, wm_set_last_pl in H;
      cbn [wm_fpos wm_fend wm_offset wm_hdr wm_last_pl wm_disk wm_rlog wm_fault] in H;
      inversion H; subst r1 h1; clear H;
      (split; [|split; [|split; [|split]]];
       [ unfold sf_raw_ok; cbn [wm_fpos wm_fend wm_offset wm_hdr wm_last_pl wm_disk wm_rlog wm_fault];
         split; [reflexivity|]; split; [reflexivity|]; split; [lia|]; split; [lia|]; split; [exact Hlt1 | exact Hcons1]
       | unfold sf_ext; cbn; apply incl_tl, incl_refl
       | cbn; now left
       | exact Hpl2
       | cbn; lia ]).
  - cbn [wm_hdr] in H.
    assert (Hno : (N.of_nat (length p) <? fm_payload_length h2) = false).
    { apply N.ltb_ge. unfold sf_plen in *. lia. }
    rewrite Hno in H.
    unfold wm_bk_fwrite in H. cbn [wm_fpos wm_fend wm_offset wm_hdr wm_last_pl wm_disk wm_rlog wm_fault] in H.
    set (n1 := N.of_nat (length (firstn (N.to_nat (fm_payload_length h2)) p))) in H.
    set (n2 := N.of_nat (length (wm_footer (fm_payload_length h2) (crc32c (firstn (N.to_nat (fm_payload_length h2)) p))))) in H.
    match type of H with context [if ?c then wm_set_last_pl _ _ else _] => destruct c end;
      cbv zeta in H; unfold wm_invalidate, wm_set_offset, wm_set_hdr, wm_set_last_pl in H;
      cbn [wm_fpos wm_fend wm_offset wm_hdr wm_last_pl wm_disk wm_rlog wm_fault] in H;
      inversion H; subst r1 h1; clear H;
      (split; [|split; [|split; [|split]]];
       [ unfold sf_raw_ok; cbn [wm_fpos wm_fend wm_offset wm_hdr wm_last_pl wm_disk wm_rlog wm_fault];
         split; [reflexivity|]; split; [reflexivity|]; split; [lia|]; split; [lia|]; split; [|exact Hcons1];
         apply (Hlt_mono (fpos + 32)); [lia | exact Hlt1]
       | unfold sf_ext; cbn; apply incl_tl, incl_refl
       | cbn; now left
       | exact Hpl2
       | cbn; lia ]).
Qed.

(* ---------------------------------------------------------------- jls_core_update_item_head: link *)
Lemma sf_update_item_head : forall r head next r2 c,
  sf_raw_ok r -> sf_ck (wm_disk r) head ->
  wm_update_item_head r head next = (r2, c) ->
  sf_raw_ok r2 /\ sf_ext r r2 /\ c = next /\ wm_offset r2 = wm_offset r.
Proof.
  intros r head next r2 c Hok Hck H. unfold wm_update_item_head in H.
  destruct (wm_ck_offset head =? 0) eqn:E0.
  { inversion H; subst. split; [exact Hok|]. split; [apply sf_ext_refl|]. split; reflexivity. }
  apply N.eqb_neq in E0. destruct Hck as [Hz|Hin]; [congruence|].
  destruct Hok as (Hflt & Hoff & Hpe & Hnz & Hlt & Hcons).
  destruct (Hlt _ _ Hin) as [_ Hho].
  destruct r as [fpos fend off hdr lpl disk log flt].
  cbn [wm_fault wm_offset wm_fpos wm_fend wm_disk] in *. subst flt off.
  set (ho := wm_ck_offset head) in *. set (hh := wm_ck_hdr head) in *.
  unfold wm_raw_chunk_tell, wm_raw_chunk_seek, wm_invalidate, wm_bk_fseek, wm_set_hdr, wm_set_fpos, wm_set_offset in H.
  cbn [wm_fpos wm_fend wm_offset wm_hdr wm_last_pl wm_disk wm_rlog wm_fault] in H.
  destruct (ho =? 0) eqn:E1; [apply N.eqb_eq in E1; congruence|].
  unfold wm_raw_wr_header in H. cbn [wm_fpos wm_fend wm_offset wm_hdr wm_last_pl wm_disk wm_rlog wm_fault] in H.
  rewrite N.eqb_refl in H.
  set (h2 := if fend <=? ho then wm_hdr_set_ppl (wm_hdr_set_next hh (wm_ck_offset next)) lpl else wm_hdr_set_next hh (wm_ck_offset next)) in H.
  assert (Hpl2 : sf_plen h2 = sf_plen hh) by (subst h2; destruct (fend <=? ho); reflexivity).
  unfold wm_bk_fwrite, wm_disk_put, wm_set_hdr in H.
  cbn [wm_fpos wm_fend wm_offset wm_hdr wm_last_pl wm_disk wm_rlog wm_fault] in H.
  rewrite wm_hdr_bytes_length in H.
  destruct (fpos =? 0) eqn:E2; [apply N.eqb_eq in E2; congruence|].
  inversion H; subst r2 c; clear H.
  split; [|split; [|split]]; try reflexivity.
  - unfold sf_raw_ok. cbn [wm_fpos wm_fend wm_offset wm_hdr wm_last_pl wm_disk wm_rlog wm_fault].
    split; [reflexivity|]. split; [reflexivity|]. split; [lia|]. split; [exact Hnz|]. split.
    + intros o' h' [Heq|Hi]; [inversion Heq; subst; split; [exact E0 | exact Hho] | exact (Hlt _ _ Hi)].
    + intros o ha hb [Ha|Ha] [Hb|Hb].
      * inversion Ha; inversion Hb; subst. reflexivity.
      * inversion Ha; subst. rewrite Hpl2. eapply Hcons; eassumption.
      * inversion Hb; subst. rewrite Hpl2. eapply Hcons; eassumption.
      * eapply Hcons; eassumption.
  - unfold sf_ext. cbn. apply incl_tl, incl_refl.
Qed.

(* ---------------------------------------------------------------- the head-table rewrite of jls_track_wr_head *)
Lemma sf_seek_eq : forall fpos fend off hdr lpl disk log flt o, o <> 0 ->
  wm_raw_chunk_seek (wm_mk_raw fpos fend off hdr lpl disk log flt) o =
  wm_mk_raw o fend o (wm_hdr_set_tag hdr JLS_TAG_INVALID) lpl disk log flt.
Proof.
  intros. unfold wm_raw_chunk_seek. apply N.eqb_neq in H. rewrite H. reflexivity.
Qed.

Lemma sf_rd_header_reread_eq : forall fend o hdr lpl disk log h',
  fm_tag hdr = JLS_TAG_INVALID -> o < fend -> wm_disk_get disk o = Some h' ->
  wm_raw_rd_header (wm_mk_raw o fend o hdr lpl disk log false) = wm_mk_raw (o + 32) fend o h' lpl disk log false.
Proof.
  intros fend o hdr lpl disk log h' Htag Hlt Hget.
  unfold wm_raw_rd_header, wm_hdr_valid, wm_mk_raw.
  cbn [wm_fpos wm_fend wm_offset wm_hdr wm_last_pl wm_disk wm_rlog wm_fault].
  rewrite Htag, (N.eqb_refl JLS_TAG_INVALID). cbn [negb].
  assert (Hfe : (fend <=? o) = false) by (apply N.leb_gt; exact Hlt). rewrite Hfe, (N.eqb_refl o).
  unfold wm_set_offset, wm_set_fpos, wm_set_hdr.
  cbn [wm_fpos wm_fend wm_offset wm_hdr wm_last_pl wm_disk wm_rlog wm_fault]. rewrite Hget.
  reflexivity.
Qed.

Lemma sf_wr_payload_reread_eq : forall fend o hdr lpl disk log h' payload n,
  fm_tag hdr = JLS_TAG_INVALID -> o < fend -> wm_disk_get disk o = Some h' -> n <> 0 ->
  fm_payload_length h' <= N.of_nat (length payload) ->
  exists fpos' fend' lpl' log',
    wm_raw_wr_payload (wm_mk_raw o fend o hdr lpl disk log false) n payload =
    wm_mk_raw fpos' fend' o h' lpl' disk log' false /\ fpos' <= fend' /\ fend <= fend'.
Proof.
  intros fend o hdr lpl disk log h' payload n Htag Hlt Hget Hn Hlen.
  unfold wm_raw_wr_payload. rewrite (sf_rd_header_reread_eq fend o hdr lpl disk log h' Htag Hlt Hget).
  unfold wm_mk_raw. cbn [wm_fpos wm_fend wm_offset wm_hdr wm_last_pl wm_disk wm_rlog wm_fault].
  apply N.eqb_neq in Hn. rewrite Hn.
  assert (Hno : (N.of_nat (length payload) <? fm_payload_length h') = false) by (apply N.ltb_ge; exact Hlen). rewrite Hno.
  unfold wm_bk_fwrite. cbn [wm_fpos wm_fend wm_offset wm_hdr wm_last_pl wm_disk wm_rlog wm_fault].
  match goal with |- context [if ?c then wm_set_last_pl _ _ else _] => destruct c end;
    unfold wm_set_last_pl; cbn [wm_fpos wm_fend wm_offset wm_hdr wm_last_pl wm_disk wm_rlog wm_fault];
    do 4 eexists; (split; [reflexivity|]); lia.
Qed.

Lemma sf_raw_ok_mk : forall r, sf_raw_ok r ->
  r = wm_mk_raw (wm_fpos r) (wm_fend r) (wm_fpos r) (wm_hdr r) (wm_last_pl r) (wm_disk r) (wm_rlog r) false.
Proof.
  intros r (Hf & Ho & _). destruct r as [fpos fend off hdr lpl disk log flt].
  cbn [wm_fault wm_offset wm_fpos] in Hf, Ho. subst. reflexivity.
Qed.

Lemma sf_tbl_rewrite : forall r ho hh payload,
  sf_raw_ok r -> In (ho, hh) (wm_disk r) -> sf_plen hh = SIZEOF_track_head -> SIZEOF_track_head <= N.of_nat (length payload) ->
  let r' := wm_raw_chunk_seek (wm_raw_wr_payload (wm_raw_chunk_seek r ho) SIZEOF_track_head payload) (wm_raw_chunk_tell r) in
  sf_raw_ok r' /\ wm_disk r' = wm_disk r /\ wm_offset r' = wm_offset r.
Proof.
  intros r ho hh payload Hok Hin Hpl Hlen.
  destruct Hok as (Hflt & Hoff & Hpe & Hnz & Hlt & Hcons).
  destruct (Hlt _ _ Hin) as [Hho0 Hho].
  destruct (sf_disk_get_in _ _ _ Hin) as (h' & Hget & Hin').
  assert (Hpl' : fm_payload_length h' = 128).
  { transitivity (sf_plen hh); [eapply Hcons; eassumption | exact Hpl]. }
  destruct r as [fpos fend off hdr lpl disk log flt].
  cbn [wm_fault wm_offset wm_fpos wm_fend wm_disk] in *. subst flt off.
  unfold wm_raw_chunk_tell. cbn [wm_offset].
  change {| wm_fpos := fpos; wm_fend := fend; wm_offset := fpos; wm_hdr := hdr; wm_last_pl := lpl; wm_disk := disk; wm_rlog := log; wm_fault := false |}
    with (wm_mk_raw fpos fend fpos hdr lpl disk log false).
  rewrite sf_seek_eq by exact Hho0.
  destruct (sf_wr_payload_reread_eq fend ho (wm_hdr_set_tag hdr JLS_TAG_INVALID) lpl disk log h' payload SIZEOF_track_head)
    as (fpos' & fend' & lpl' & log' & Heq & Hle1 & Hle2); try assumption; try reflexivity; try lia; try discriminate.
  { rewrite Hpl'. exact Hlen. }
  rewrite Heq, sf_seek_eq by exact Hnz. cbv zeta.
  split; [|split; reflexivity].
  unfold sf_raw_ok, wm_mk_raw. cbn [wm_fpos wm_fend wm_offset wm_hdr wm_last_pl wm_disk wm_rlog wm_fault].
  split; [reflexivity|]. split; [reflexivity|]. split; [lia|]. split; [exact Hnz|]. split; assumption.
Qed.

(* ================================================================ core.c / track.c *)
Definition sf_bdisk (b : wm_base) := wm_disk (wm_b_raw b).
Definition sf_base_ok (b : wm_base) : Prop :=
  sf_raw_ok (wm_b_raw b) /\ sf_ck (sf_bdisk b) (wm_b_source_head b) /\ sf_ck (sf_bdisk b) (wm_b_signal_head b) /\
  sf_ck (sf_bdisk b) (wm_b_ud_head b).
Definition sf_bext (b b' : wm_base) : Prop := incl (sf_bdisk b) (sf_bdisk b').

Definition sf_tk (d : list (N * fm_chunk_header)) (t : wm_track) : Prop :=
  sf_ck d (wm_tk_head t) /\ (wm_ck_offset (wm_tk_head t) <> 0 -> sf_plen (wm_ck_hdr (wm_tk_head t)) = SIZEOF_track_head) /\
  sf_ck d (wm_tk_data_head t) /\ Forall (sf_ck d) (wm_tk_index_head t) /\ Forall (sf_ck d) (wm_tk_summary_head t) /\
  length (wm_tk_offsets t) = 16%nat.

Lemma sf_bext_refl : forall b, sf_bext b b.
Proof. intro b. apply incl_refl. Qed.
Lemma sf_bext_trans : forall a b c, sf_bext a b -> sf_bext b c -> sf_bext a c.
Proof. intros a b c H1 H2. eapply incl_tran; eassumption. Qed.

Lemma sf_tk_incl : forall d d' t, incl d d' -> sf_tk d t -> sf_tk d' t.
Proof.
  intros d d' t Hi (H1 & H2 & H3 & H4 & H5 & H6).
  split; [eapply sf_ck_incl; eassumption|]. split; [exact H2|]. split; [eapply sf_ck_incl; eassumption|].
  split; [eapply Forall_impl; [|exact H4]; intros c Hc; eapply sf_ck_incl; eassumption|].
  split; [eapply Forall_impl; [|exact H5]; intros c Hc; eapply sf_ck_incl; eassumption|]. exact H6.
Qed.

Lemma sf_tk0 : forall d ty, sf_tk d (wm_track0 ty).
Proof.
  intros d ty. unfold sf_tk, wm_track0. cbn [wm_tk_head wm_tk_data_head wm_tk_index_head wm_tk_summary_head wm_tk_offsets].
  split; [apply sf_ck0|]. split; [intro H; now elim H|]. split; [apply sf_ck0|].
  split; [apply Forall_forall; intros c Hc; apply repeat_spec in Hc; subst; apply sf_ck0|].
  split; [apply Forall_forall; intros c Hc; apply repeat_spec in Hc; subst; apply sf_ck0|]. reflexivity.
Qed.

Lemma sf_upd_length : forall (A : Type) n (x : A) l, length (wm_upd n x l) = length l.
Proof. intros A n x l. revert n. induction l as [|y l IH]; intros [|n]; cbn; auto. Qed.
Lemma sf_Forall_upd : forall (A : Type) (P : A -> Prop) n x l, Forall P l -> P x -> Forall P (wm_upd n x l).
Proof.
  intros A P n x l Hl Hx. revert n. induction Hl as [|y l Hy Hl IH]; intros [|n]; cbn; auto.
Qed.
Lemma sf_Forall_get : forall d l level, Forall (sf_ck d) l -> sf_ck d (wm_get_chunk l level).
Proof.
  intros d l level Hl. unfold wm_get_chunk.
  destruct (nth_in_or_default (N.to_nat level) l wm_chunk0) as [Hin|Heq].
  - rewrite Forall_forall in Hl. now apply Hl.
  - rewrite Heq. apply sf_ck0.
Qed.

Lemma sf_mk_hdr_tag : forall prev tag meta plen, fm_tag (wm_mk_hdr prev tag meta plen) = tag.
Proof. reflexivity. Qed.
Lemma sf_mk_hdr_plen : forall prev tag meta plen, sf_plen (wm_mk_hdr prev tag meta plen) = plen.
Proof. reflexivity. Qed.

Lemma sf_track_tag_nz : forall ty k, fm_track_tag ty k <> JLS_TAG_INVALID.
Proof.
  intros ty k H. unfold fm_track_tag, JLS_TAG_INVALID in H. apply N.lor_eq_0_l in H. discriminate H.
Qed.

(* a chunk appended and linked into one of the lists *)
Lemma sf_append_link : forall r head prev tag meta plen payload r1 h1 r2 c,
  sf_raw_ok r -> sf_ck (wm_disk r) head -> tag <> JLS_TAG_INVALID -> plen <= N.of_nat (length payload) ->
  wm_raw_wr r (wm_mk_hdr prev tag meta plen) payload = (r1, h1) ->
  wm_update_item_head r1 head {| wm_ck_offset := wm_raw_chunk_tell r; wm_ck_hdr := h1 |} = (r2, c) ->
  sf_raw_ok r2 /\ sf_ext r r2 /\ sf_ck (wm_disk r2) c /\ wm_ck_offset c = wm_offset r /\ wm_ck_offset c <> 0 /\
  sf_plen (wm_ck_hdr c) = plen /\ wm_offset r < wm_offset r2 /\
  c = {| wm_ck_offset := wm_raw_chunk_tell r; wm_ck_hdr := h1 |}.
Proof.
  intros r head prev tag meta plen payload r1 h1 r2 c Hok Hck Htag Hlen Hw Hu.
  destruct (sf_raw_wr r (wm_mk_hdr prev tag meta plen) payload r1 h1 Hok Htag Hlen Hw) as (Hok1 & Hext1 & Hin1 & Hpl1 & Hlt1).
  destruct (sf_update_item_head r1 head _ r2 c Hok1 (sf_ck_incl _ _ _ Hext1 Hck) Hu) as (Hok2 & Hext2 & Hc & Hoff2).
  subst c. unfold wm_raw_chunk_tell. cbn [wm_ck_offset wm_ck_hdr].
  split; [exact Hok2|]. split; [eapply sf_ext_trans; eassumption|].
  split; [right; cbn [wm_ck_offset wm_ck_hdr]; apply Hext2; exact Hin1|].
  split; [reflexivity|]. split; [apply Hok|]. split; [rewrite Hpl1; reflexivity|]. split; [rewrite Hoff2; exact Hlt1 | reflexivity].
Qed.

Lemma sf_base_set_raw : forall b r, sf_base_ok b -> sf_raw_ok r -> incl (sf_bdisk b) (wm_disk r) ->
  sf_base_ok (wm_b_set_raw b r).
Proof.
  intros b r (H0 & H1 & H2 & H3) Hr Hi. unfold sf_base_ok, sf_bdisk in *. cbn [wm_b_set_raw wm_b_raw wm_b_source_head wm_b_signal_head wm_b_ud_head].
  split; [exact Hr|]. split; [eapply sf_ck_incl; eassumption|]. split; eapply sf_ck_incl; eassumption.
Qed.

(* jls_track_wr_def *)
Lemma sf_track_wr_def : forall b sid ty, sf_base_ok b ->
  sf_base_ok (wm_track_wr_def b sid ty) /\ sf_bext b (wm_track_wr_def b sid ty).
Proof.
  intros b sid ty Hb. pose proof Hb as (Hr & Hs & Hg & Hu). unfold wm_track_wr_def.
  destruct (wm_raw_wr (wm_b_raw b) _ []) as [r1 h1] eqn:Ew.
  destruct (wm_update_item_head r1 (wm_b_signal_head b) _) as [r2 sh] eqn:Eu.
  destruct (sf_append_link _ _ _ _ _ _ _ _ _ _ _ Hr Hg (sf_track_tag_nz _ _) (N.le_0_l _) Ew Eu) as (Hok2 & Hext & Hck & _).
  split.
  - pose proof (sf_base_set_raw b r2 Hb Hok2 Hext) as (K0 & K1 & K2 & K3).
    unfold sf_base_ok, sf_bdisk in *. cbn [wm_b_set_signal_head wm_b_set_raw wm_b_raw wm_b_source_head wm_b_signal_head wm_b_ud_head] in *.
    split; [exact K0|]. split; [exact K1|]. split; [exact Hck | exact K3].
  - unfold sf_bext, sf_bdisk. cbn. exact Hext.
Qed.

Lemma sf_head_payload_length : forall l, length l = 16%nat -> N.of_nat (length (wm_head_payload l)) = SIZEOF_track_head.
Proof.
  intros l H. unfold wm_head_payload.
  assert (Hg : forall l, length (flat_map fm_enc_u64 l) = (8 * length l)%nat).
  { induction l0 as [|x l0 IH]; [reflexivity|]. cbn [flat_map]. rewrite app_length, IH. unfold fm_enc_u64. rewrite fm_enc_length. cbn [length]. lia. }
  rewrite Hg, H. reflexivity.
Qed.

(* jls_track_wr_head *)
Lemma sf_track_wr_head : forall b sid t b' t', sf_base_ok b -> sf_tk (sf_bdisk b) t ->
  wm_track_wr_head b sid t = (b', t') ->
  sf_base_ok b' /\ sf_bext b b' /\ sf_tk (sf_bdisk b') t' /\ wm_tk_offsets t' = wm_tk_offsets t /\
  wm_offset (wm_b_raw b) <= wm_offset (wm_b_raw b').
Proof.
  intros b sid t b' t' Hb Ht H. pose proof Hb as (Hr & Hs & Hg & Hu).
  pose proof Ht as (T1 & T2 & T3 & T4 & T5 & T6).
  unfold wm_track_wr_head in H.
  destruct (wm_ck_offset (wm_tk_head t) =? 0) eqn:E0.
  - destruct (wm_raw_wr (wm_b_raw b) _ (wm_head_payload (wm_tk_offsets t))) as [r1 h1] eqn:Ew.
    destruct (wm_update_item_head r1 (wm_b_signal_head b) _) as [r2 sh] eqn:Eu.
    inversion H; subst b' t'; clear H.
    assert (Hlen : SIZEOF_track_head <= N.of_nat (length (wm_head_payload (wm_tk_offsets t)))).
    { rewrite sf_head_payload_length by exact T6. apply N.le_refl. }
    destruct (sf_append_link _ _ _ _ _ _ _ _ _ _ _ Hr Hg (sf_track_tag_nz _ _) Hlen Ew Eu) as (Hok2 & Hext & Hck & Hoff & Hnz & Hpl & Hlt2 & Hsh).
    pose proof (sf_base_set_raw b r2 Hb Hok2 Hext) as (K0 & K1 & K2 & K3). rewrite <- Hsh.
    split; [|split; [|split; [|split]]].
    + unfold sf_base_ok, sf_bdisk in *. cbn [wm_b_set_signal_head wm_b_set_raw wm_b_raw wm_b_source_head wm_b_signal_head wm_b_ud_head] in *.
      split; [exact K0|]. split; [exact K1|]. split; [exact Hck | exact K3].
    + unfold sf_bext, sf_bdisk. cbn. exact Hext.
    + unfold sf_bdisk. cbn [wm_b_set_signal_head wm_b_set_raw wm_b_raw].
      pose proof (sf_tk_incl _ _ _ Hext Ht) as (U1 & U2 & U3 & U4 & U5 & U6).
      unfold sf_tk. cbn [wm_tk_set_head wm_tk_head wm_tk_data_head wm_tk_index_head wm_tk_summary_head wm_tk_offsets].
      split; [exact Hck|]. split; [intros _; exact Hpl|]. split; [exact U3|]. split; [exact U4|]. split; [exact U5 | exact U6].
    + reflexivity.
    + cbn [wm_b_set_signal_head wm_b_set_raw wm_b_raw]. lia.
  - apply N.eqb_neq in E0. inversion H; subst b' t'; clear H.
    destruct T1 as [Hz|Hin]; [congruence|].
    assert (Hlen : SIZEOF_track_head <= N.of_nat (length (wm_head_payload (wm_tk_offsets t)))).
    { rewrite sf_head_payload_length by exact T6. apply N.le_refl. }
    destruct (sf_tbl_rewrite (wm_b_raw b) _ _ (wm_head_payload (wm_tk_offsets t)) Hr Hin (T2 E0) Hlen) as (Hok' & Hd' & Ho').
    split; [|split; [|split; [|split]]].
    + apply sf_base_set_raw; [exact Hb | exact Hok' |]. unfold sf_bdisk. rewrite Hd'. apply incl_refl.
    + unfold sf_bext, sf_bdisk. cbn [wm_b_set_raw wm_b_raw]. rewrite Hd'. apply incl_refl.
    + unfold sf_bdisk. cbn [wm_b_set_raw wm_b_raw]. rewrite Hd'. exact Ht.
    + reflexivity.
    + cbn [wm_b_set_raw wm_b_raw]. rewrite Ho'. apply N.le_refl.
Qed.

Lemma sf_get_off_upd_other : forall l n m v, n <> m -> wm_get_off (wm_upd (N.to_nat n) v l) m = wm_get_off l m.
Proof.
  intros l n m v H. unfold wm_get_off.
  assert (Hnm : N.to_nat n <> N.to_nat m) by lia.
  generalize dependent (N.to_nat m). generalize (N.to_nat n). clear.
  induction l as [|y l IH]; intros a b Hab; [destruct a; reflexivity|].
  destruct a as [|a]; destruct b as [|b]; cbn; try reflexivity; try congruence.
  apply IH. congruence.
Qed.

(* jls_track_update *)
Lemma sf_track_update : forall b sid t level pos b' t', sf_base_ok b -> sf_tk (sf_bdisk b) t ->
  wm_track_update b sid t level pos = (b', t') ->
  sf_base_ok b' /\ sf_bext b b' /\ sf_tk (sf_bdisk b') t' /\
  (forall m, m <> level -> wm_get_off (wm_tk_offsets t') m = wm_get_off (wm_tk_offsets t) m) /\
  wm_offset (wm_b_raw b) <= wm_offset (wm_b_raw b').
Proof.
  intros b sid t level pos b' t' Hb Ht H. unfold wm_track_update in H.
  destruct (wm_get_off (wm_tk_offsets t) level =? 0).
  - assert (Ht1 : sf_tk (sf_bdisk b) (wm_tk_set_offsets t (wm_upd (N.to_nat level) pos (wm_tk_offsets t)))).
    { destruct Ht as (T1 & T2 & T3 & T4 & T5 & T6). unfold sf_tk.
      cbn [wm_tk_set_offsets wm_tk_head wm_tk_data_head wm_tk_index_head wm_tk_summary_head wm_tk_offsets].
      do 5 (split; [assumption|]). rewrite sf_upd_length. exact T6. }
    destruct (sf_track_wr_head _ _ _ _ _ Hb Ht1 H) as (K1 & K2 & K3 & K4 & K5).
    do 3 (split; [assumption|]). split; [|exact K5].
    intros m Hm. rewrite K4. cbn [wm_tk_set_offsets wm_tk_offsets]. apply sf_get_off_upd_other. congruence.
  - inversion H; subst. split; [exact Hb|]. split; [apply sf_bext_refl|]. split; [exact Ht|]. split; [reflexivity | apply N.le_refl].
Qed.

(* the common part of jls_core_wr_data / _index / _summary: append + link on a list head of the track *)
Lemma sf_core_append : forall b head prev tag meta plen payload r1 h1 r2 c,
  sf_base_ok b -> sf_ck (sf_bdisk b) head -> tag <> JLS_TAG_INVALID -> plen <= N.of_nat (length payload) ->
  wm_raw_wr (wm_b_raw b) (wm_mk_hdr prev tag meta plen) payload = (r1, h1) ->
  wm_update_item_head r1 head {| wm_ck_offset := wm_raw_chunk_tell (wm_b_raw b); wm_ck_hdr := h1 |} = (r2, c) ->
  sf_base_ok (wm_b_set_raw b r2) /\ sf_bext b (wm_b_set_raw b r2) /\ sf_ck (wm_disk r2) c /\
  wm_offset (wm_b_raw b) < wm_offset r2.
Proof.
  intros b head prev tag meta plen payload r1 h1 r2 c Hb Hck Htag Hlen Hw Hu.
  destruct (sf_append_link _ _ _ _ _ _ _ _ _ _ _ (proj1 Hb) Hck Htag Hlen Hw Hu) as (Hok2 & Hext & Hc & _ & _ & _ & Hlt & _).
  split; [apply sf_base_set_raw; assumption|]. split; [exact Hext|]. split; [exact Hc | exact Hlt].
Qed.

(* jls_core_wr_data *)
Lemma sf_core_wr_data : forall b sid t payload plen b' t', sf_base_ok b -> sf_tk (sf_bdisk b) t ->
  plen <= N.of_nat (length payload) ->
  wm_core_wr_data b sid t payload plen = (b', t') ->
  sf_base_ok b' /\ sf_bext b b' /\ sf_tk (sf_bdisk b') t' /\
  (forall m, m <> 0 -> wm_get_off (wm_tk_offsets t') m = wm_get_off (wm_tk_offsets t) m) /\
  wm_offset (wm_b_raw b) < wm_offset (wm_b_raw b').
Proof.
  intros b sid t payload plen b' t' Hb Ht Hlen H. unfold wm_core_wr_data in H.
  destruct (wm_raw_wr (wm_b_raw b) _ payload) as [r1 h1] eqn:Ew.
  destruct (wm_update_item_head r1 (wm_tk_data_head t) _) as [r2 dh] eqn:Eu.
  pose proof Ht as (T1 & T2 & T3 & T4 & T5 & T6).
  destruct (sf_core_append _ _ _ _ _ _ _ _ _ _ _ Hb T3 (sf_track_tag_nz _ _) Hlen Ew Eu) as (Hb2 & Hext & Hc & Hlt).
  pose proof (sf_tk_incl _ _ _ Hext Ht) as (U1 & U2 & U3 & U4 & U5 & U6).
  assert (Ht1 : sf_tk (sf_bdisk (wm_b_set_raw b r2)) (wm_tk_set_data_head t dh)).
  { unfold sf_tk, sf_bdisk. cbn [wm_b_set_raw wm_b_raw wm_tk_set_data_head wm_tk_head wm_tk_data_head wm_tk_index_head wm_tk_summary_head wm_tk_offsets].
    split; [exact U1|]. split; [exact U2|]. split; [exact Hc|]. split; [exact U4|]. split; [exact U5 | exact U6]. }
  cbn [wm_tk_set_data_head wm_tk_offsets] in H.
  destruct (wm_get_off (wm_tk_offsets t) 0 =? 0).
  - set (t2 := wm_tk_set_offsets (wm_tk_set_data_head t dh) (wm_upd 0 (wm_raw_chunk_tell (wm_b_raw b)) (wm_tk_offsets t))) in H.
    assert (Ht2 : sf_tk (sf_bdisk (wm_b_set_raw b r2)) t2).
    { destruct Ht1 as (V1 & V2 & V3 & V4 & V5 & V6). unfold sf_tk, t2.
      cbn [wm_tk_set_offsets wm_tk_set_data_head wm_tk_head wm_tk_data_head wm_tk_index_head wm_tk_summary_head wm_tk_offsets] in *.
      do 5 (split; [assumption|]). rewrite sf_upd_length. exact T6. }
    destruct (sf_track_wr_head _ _ _ _ _ Hb2 Ht2 H) as (K1 & K2 & K3 & K4 & K5).
    split; [exact K1|]. split; [eapply sf_bext_trans; eassumption|]. split; [exact K3|]. split.
    + intros m Hm. rewrite K4. unfold t2. cbn [wm_tk_set_offsets wm_tk_offsets].
      change 0%nat with (N.to_nat 0). apply sf_get_off_upd_other. congruence.
    + cbn [wm_b_set_raw wm_b_raw] in K5. lia.
  - inversion H; subst b' t'. split; [exact Hb2|]. split; [exact Hext|]. split; [exact Ht1|]. split; [reflexivity | exact Hlt].
Qed.

(* jls_core_wr_summary *)
Lemma sf_core_wr_summary : forall b sid t level payload plen b' t', sf_base_ok b -> sf_tk (sf_bdisk b) t ->
  plen <= N.of_nat (length payload) ->
  wm_core_wr_summary b sid t level payload plen = (b', t') ->
  sf_base_ok b' /\ sf_bext b b' /\ sf_tk (sf_bdisk b') t' /\ wm_tk_offsets t' = wm_tk_offsets t /\
  wm_offset (wm_b_raw b) < wm_offset (wm_b_raw b').
Proof.
  intros b sid t level payload plen b' t' Hb Ht Hlen H. unfold wm_core_wr_summary in H.
  destruct (wm_raw_wr (wm_b_raw b) _ payload) as [r1 h1] eqn:Ew.
  destruct (wm_update_item_head r1 (wm_get_chunk (wm_tk_summary_head t) level) _) as [r2 nh] eqn:Eu.
  pose proof Ht as (T1 & T2 & T3 & T4 & T5 & T6).
  destruct (sf_core_append _ _ _ _ _ _ _ _ _ _ _ Hb (sf_Forall_get _ _ level T5) (sf_track_tag_nz _ _) Hlen Ew Eu) as (Hb2 & Hext & Hc & Hlt).
  pose proof (sf_tk_incl _ _ _ Hext Ht) as (U1 & U2 & U3 & U4 & U5 & U6).
  inversion H; subst b' t'; clear H.
  split; [exact Hb2|]. split; [exact Hext|]. split; [|split; [reflexivity | exact Hlt]].
  unfold sf_tk, sf_bdisk. cbn [wm_b_set_raw wm_b_raw wm_tk_set_summary_head wm_tk_head wm_tk_data_head wm_tk_index_head wm_tk_summary_head wm_tk_offsets].
  do 4 (split; [assumption|]). split; [apply sf_Forall_upd; assumption | exact U6].
Qed.

(* jls_core_wr_index *)
Lemma sf_core_wr_index : forall b sid t level payload plen b' t', sf_base_ok b -> sf_tk (sf_bdisk b) t ->
  plen <= N.of_nat (length payload) ->
  wm_core_wr_index b sid t level payload plen = (b', t') ->
  sf_base_ok b' /\ sf_bext b b' /\ sf_tk (sf_bdisk b') t' /\
  (forall m, m <> level -> wm_get_off (wm_tk_offsets t') m = wm_get_off (wm_tk_offsets t) m) /\
  wm_offset (wm_b_raw b) < wm_offset (wm_b_raw b').
Proof.
  intros b sid t level payload plen b' t' Hb Ht Hlen H. unfold wm_core_wr_index in H.
  destruct (wm_raw_wr (wm_b_raw b) _ payload) as [r1 h1] eqn:Ew.
  destruct (wm_update_item_head r1 (wm_get_chunk (wm_tk_index_head t) level) _) as [r2 nh] eqn:Eu.
  pose proof Ht as (T1 & T2 & T3 & T4 & T5 & T6).
  destruct (sf_core_append _ _ _ _ _ _ _ _ _ _ _ Hb (sf_Forall_get _ _ level T4) (sf_track_tag_nz _ _) Hlen Ew Eu) as (Hb2 & Hext & Hc & Hlt).
  pose proof (sf_tk_incl _ _ _ Hext Ht) as (U1 & U2 & U3 & U4 & U5 & U6).
  assert (Ht1 : sf_tk (sf_bdisk (wm_b_set_raw b r2)) (wm_tk_set_index_head t (wm_upd (N.to_nat level) nh (wm_tk_index_head t)))).
  { unfold sf_tk, sf_bdisk. cbn [wm_b_set_raw wm_b_raw wm_tk_set_index_head wm_tk_head wm_tk_data_head wm_tk_index_head wm_tk_summary_head wm_tk_offsets].
    do 3 (split; [assumption|]). split; [apply sf_Forall_upd; assumption|]. split; [exact U5 | exact U6]. }
  destruct (sf_track_update _ _ _ _ _ _ _ Hb2 Ht1 H) as (K1 & K2 & K3 & K4 & K5).
  split; [exact K1|]. split; [eapply sf_bext_trans; eassumption|]. split; [exact K3|]. split; [exact K4|].
  cbn [wm_b_set_raw wm_b_raw] in K5. lia.
Qed.

(* jls_core_wr_end *)
Lemma sf_core_wr_end : forall b, sf_base_ok b -> sf_base_ok (wm_core_wr_end b) /\ sf_bext b (wm_core_wr_end b).
Proof.
  intros b Hb. unfold wm_core_wr_end.
  destruct (wm_raw_wr (wm_b_raw b) (wm_mk_hdr 0 JLS_TAG_END 0 0) []) as [r1 h1] eqn:Ew.
  assert (Htag : fm_tag (wm_mk_hdr 0 JLS_TAG_END 0 0) <> JLS_TAG_INVALID) by discriminate.
  destruct (sf_raw_wr _ _ _ _ _ (proj1 Hb) Htag (N.le_0_l _) Ew) as (Hok1 & Hext1 & _).
  split; [apply sf_base_set_raw; assumption | exact Hext1].
Qed.

(* jls_raw_flush / jls_raw_close keep everything but the log and the position *)
Lemma sf_raw_flush_fault : forall r, wm_fault (wm_raw_flush r) = wm_fault r.
Proof. reflexivity. Qed.
Lemma sf_raw_close_fault : forall r, wm_fault (wm_raw_close r) = wm_fault r.
Proof.
  intro r. unfold wm_raw_close, wm_wr_file_header.
  destruct (wm_fpos r =? 0); reflexivity.
Qed.
