(* Property C12, UTC track half (slice ts): "For every FSR signal, the (sample id, UTC) pairs
   written with increasing sample ids and non-decreasing times are returned by a closed file in
   order and unaltered, and iterating from a sample id delivers exactly the pairs at or after
   it."  (The id/time conversion half is coq/Properties_C12_tmap.v.)

   The theorems are about coq/TsModel.v: jls_wr_utc + jls_wr_ts_utc + commit + jls_wr_ts_close,
   jls_core_ts_seek to level 1 and the loop of jls_core_utc over the level-1 INDEX chunks (each
   followed by its SUMMARY chunk; leading entries below the requested id are skipped in every
   chunk; batches are handed to the callback).  They hold for EVERY number n of pairs, EVERY
   decimate factor d >= 2 with n < d^15 (see Properties_C11.v for what happens at d^15, d = 1
   and d = 0), EVERY non-decreasing id sequence - strictly increasing ids, the property's
   hypothesis, are a special case (C12_utc_from_exact_strict) - and EVERY requested id.
   Not modelled: sample_id_offset arithmetic, int64 wrap-around, the DATA-chunk fallback of an
   unclosed file is modelled but unreachable for closed files. *)
From Coq Require Import ZArith NArith List Bool Arith Sorted.
From JLS Require Import Generated Spec TsModel TsProofs.
Import ListNotations.

Theorem C12_utc_from_exact : forall (d : nat) (s : sigstate) (sid : Z),
  2 <= d -> length (ss_utcs s) < d ^ 15 -> StronglySorted Z.le (map fst (ss_utcs s)) ->
  concat (fst (ts_utc_read d (ss_utcs s) sid)) = utc_from s sid /\ snd (ts_utc_read d (ss_utcs s) sid) = true.
Proof. exact ts_spec_utc_from_exact. Qed.
Print Assumptions C12_utc_from_exact.

Theorem C12_utc_from_exact_strict : forall (d : nat) (s : sigstate) (sid : Z),
  2 <= d -> length (ss_utcs s) < d ^ 15 -> StronglySorted Z.lt (map fst (ss_utcs s)) ->
  concat (fst (ts_utc_read d (ss_utcs s) sid)) = utc_from s sid /\ snd (ts_utc_read d (ss_utcs s) sid) = true.
Proof. exact (fun d s sid Hd Hn Hs => ts_spec_utc_from_exact d s sid Hd Hn (ts_strict_sorted _ Hs)). Qed.
Print Assumptions C12_utc_from_exact_strict.

(* round trip: from an id at or below the first, all pairs come back in order, unaltered *)
Theorem C12_utc_roundtrip : forall (d : nat) (s : sigstate) (sid : Z),
  2 <= d -> length (ss_utcs s) < d ^ 15 -> StronglySorted Z.le (map fst (ss_utcs s)) ->
  (forall p, In p (ss_utcs s) -> (sid <= fst p)%Z) ->
  concat (fst (ts_utc_read d (ss_utcs s) sid)) = ss_utcs s.
Proof. exact ts_spec_utc_roundtrip. Qed.
Print Assumptions C12_utc_roundtrip.

(* generic form (any record / summary types with keyS (summ r) = key r) *)
Theorem C12_ts_utc_generic : forall (A SE : Type) (key : A -> Z) (summ : A -> SE) (keyS : SE -> Z) (d : nat),
  (forall r, keyS (summ r) = key r) ->
  forall (recs : list A) (sid : Z),
  2 <= d -> length recs < d ^ 15 -> StronglySorted Z.le (map key recs) ->
  let w := ts_file A SE key summ d recs in
  concat (fst (ts_utc_from A SE summ keyS (tw_disk w) (tw_head w) sid (fun _ => false))) = filter (ts_ge SE keyS sid) (map summ recs) /\
  snd (ts_utc_from A SE summ keyS (tw_disk w) (tw_head w) sid (fun _ => false)) = true.
Proof. exact ts_utc_exact_all. Qed.
Print Assumptions C12_ts_utc_generic.

Example C12_utc_from_example :
  let s := {| ss_def := signal0; ss_first := None; ss_samples := []; ss_annos := [];
              ss_utcs := [(0, 1000); (10, 1010); (20, 1021); (30, 1030); (40, 1041); (50, 1050); (60, 1060)]%Z |} in
  2 <= 2 /\ length (ss_utcs s) < 2 ^ 15 /\ StronglySorted Z.lt (map fst (ss_utcs s)) /\
  fst (ts_utc_read 2 (ss_utcs s) 25) = [[(30, 1030)]; [(40, 1041); (50, 1050)]; [(60, 1060)]]%Z /\
  utc_from s 25 = [(30, 1030); (40, 1041); (50, 1050); (60, 1060)]%Z.
Proof.
  split; [repeat constructor|].
  split; [apply Nat.lt_le_trans with (2 ^ 3); [vm_compute; repeat constructor|apply Nat.pow_le_mono_r; [discriminate|repeat constructor]]|].
  split; [cbn [ss_utcs map fst]; repeat (constructor; [|repeat constructor; reflexivity]); constructor|].
  split; vm_compute; reflexivity.
Qed.
