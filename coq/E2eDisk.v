(* END TO END, layer 4, part 3: the hypotheses of E2eFsr2 ("the abstract disk is in the file", record e2_env) hold for the
   disk PyramidModel's writer leaves at close (PyramidProofs.FinInv), whenever the chunks cs of the writer model's log are
   related to that disk by RefinePyr.rf_chunk_rel (refine_fsr_pyramid / refine_prog_fsr_partial), every chunk of cs stands
   complete in the file f (E2eModel.e2_model_file), and
     - G_adj: the chunk that follows an INDEX chunk in cs (its SUMMARY) starts where the INDEX chunk ends (the two are
       written by consecutive backend writes of jls_core_fsr: wr_index; wr_summary; no exported theorem of the refinement
       gives this for whole programs, it is decidable on a run);
     - G_big: every payload fits core->buf without realloc (ReaderModel has no realloc);
     - the file is shorter than 2^63, the sample ids stay inside +-2^61, the step sizes of the existing levels fit int64. *)
From Coq Require Import NArith ZArith List Bool Lia Arith.
From Coq Require Import ZifyBool ZifyN ZifyNat.
From JLS Require Import Generated CrcDefs CrcProofs Spec Format FormatProofs WmRaw WmCore WmTs WmFsr WriterModel
  WmProofs RefineLog RefineFsr RefinePyr RepairRaw RepairModel RawReadProofs ReaderModel
  PyramidModel PyramidProofs RefineDefs E2eLog E2eRead E2eFsr E2eFsr2.
Import ListNotations.
Local Open Scope N_scope.
Ltac Zify.zify_post_hook ::= Z.div_mod_to_equations.

Local Opaque crc32c.

(* ---- lists ---- *)
Lemma e2d_off_inj : forall disk c c', NoDup (map pc_off disk) -> In c disk -> In c' disk -> pc_off c = pc_off c' -> c = c'.
Proof.
  intros disk c c' Hnd Hc Hc' E. destruct (In_nth_error _ _ Hc) as (i & Hi). destruct (In_nth_error _ _ Hc') as (i' & Hi').
  assert (Hii : i = i').
  { apply (proj1 (NoDup_nth_error (map pc_off disk)) Hnd).
    - rewrite map_length. eapply nth_error_lt; exact Hi.
    - rewrite !nth_error_map, Hi, Hi'. cbn. f_equal. exact E. }
  subst i'. congruence.
Qed.

Lemma e2d_find_some : forall disk off c nx, py_find disk off = Some (c, nx) -> In c disk /\ pc_off c = off.
Proof.
  induction disk as [|a l IH]; intros off c nx H; [discriminate|]. cbn [py_find] in H.
  destruct (Z.eqb_spec (pc_off a) off) as [E|_].
  - inversion H; subst. split; [left; reflexivity|reflexivity].
  - destruct (IH _ _ _ H) as (A & B). split; [right; exact A|exact B].
Qed.

Lemma e2d_forall2_nth : forall (A B : Type) (R : A -> B -> Prop) la lb i b, Forall2 R la lb -> nth_error lb i = Some b ->
  exists a, nth_error la i = Some a /\ R a b.
Proof.
  intros A B R la lb i b H. revert i. induction H as [|a0 b0 la lb Hab H IH]; intros i Hi; [destruct i; discriminate|].
  destruct i as [|i]; cbn in Hi |- *.
  - inversion Hi; subst. exists a0. split; [reflexivity|exact Hab].
  - apply IH. exact Hi.
Qed.

Lemma e2d_in_ents : forall disk L c e, In c disk -> pc_kind c = PyIndex L -> In e (pc_entries c) -> In e (ents disk L).
Proof.
  intros disk L c e Hc Hk He. unfold ents. apply in_concat. exists (pc_entries c). split; [|exact He].
  apply in_map. apply idxs_In. split; assumption.
Qed.

Lemma e2d_dt_bits : forall dt, dt_bits dt < 256.
Proof.
  intro dt. unfold dt_bits. change 255 with (N.ones 8). rewrite N.land_ones. apply N.mod_lt. discriminate.
Qed.

(* ================================================================ the disk at close is in the file *)
Section E2D.
Variable f : list N.
Variable d : sigdef.
Variable pos0 t0 : Z.
Variable cs : list rf_chunk.
Variable blks : list (list N).
Variable st : py_wr.
Variable pb : list (Z * bool).
Variable T : nat.

Let pd := rf_pd d.
Let disk := pw_disk st.
Let heads := pw_heads st.
Let offs := map rc_off cs.
Let psi := rf_psi offs pos0.
Let sid := sg_id d.
Let w := dt_bits (sg_dtype d).

Hypothesis Hcons : py_consistent pd.
Hypothesis Hfin : FinInv pd t0 st pb T.
Hypothesis Hrel : Forall2 (rf_chunk_rel d pos0 t0 offs blks) cs disk.
Hypothesis Hfile : Forall (fun c => exists h, e2_chunk_at f (rc_off c) h (rc_pay c) /\ fm_tag h = rc_tag c /\ fm_chunk_meta h = rc_meta c) cs.
Hypothesis Hbig : Forall (fun c => fm_disk_len (rf_len (rc_pay c)) <= JLS_BUF_DEFAULT_SIZE) cs.
Hypothesis Hflen : rf_len f < rp_two63.
Hypothesis Hadj : forall i c c', nth_error cs i = Some c -> rc_tag c = JLS_TAG_TRACK_FSR_INDEX -> nth_error cs (S i) = Some c' ->
  rc_off c' = rc_off c + fm_chunk_size (rf_len (rc_pay c)).
Hypothesis Hsid : sid < 256.
Hypothesis Hw : 0 < w.
Hypothesis Hspd32 : sg_spd d < 4294967296.
Hypothesis Hts : (- e2_tsb <= t0)%Z /\ (t0 + Z.of_nat (length pb) * py_spd pd <= e2_tsb)%Z.
Hypothesis Hstep : forall k, (1 <= k <= T)%nat -> (py_step pd k < rdm_two63)%Z.

Lemma e2d_nd : NoDup (map pc_off disk).
Proof. exact (fin_nodup pd t0 st pb T Hfin). Qed.

Lemma e2d_off_pos : forall c, In c disk -> (0 < pc_off c)%Z.
Proof. intros c Hc. destruct Hfin as ((_ & H & _) & _). specialize (H c Hc). lia. Qed.

Lemma e2d_level : forall c, In c disk -> (py_chunk_level c <= 14)%nat /\ (pc_kind c = PyData \/ (1 <= py_chunk_level c)%nat).
Proof. intros c Hc. destruct Hfin as (_ & (_ & _ & _ & H) & _). exact (H c Hc). Qed.

Lemma e2d_T : (1 <= T <= 14)%nat.
Proof. destruct Hfin as (_ & _ & _ & H & _). exact H. Qed.

(* an INDEX chunk of the disk is one of idxs disk L, 1 <= L <= T *)
Lemma e2d_idx : forall c L, In c disk -> pc_kind c = PyIndex L ->
  (1 <= L <= T)%nat /\ exists j, nth_error (idxs disk L) j = Some c /\ chunk_ok pd t0 L disk pb (length (idxs disk L)) j c.
Proof.
  intros c L Hc Hk.
  assert (Hin : In c (idxs disk L)) by (apply idxs_In; split; assumption).
  assert (HL : (1 <= L <= T)%nat).
  { split.
    - destruct (e2d_level c Hc) as (_ & [E|H]); [congruence|]. unfold py_chunk_level in H. rewrite Hk in H. exact H.
    - destruct (Nat.leb_spec L T) as [Hle|Hgt]; [exact Hle|]. destruct Hfin as (_ & _ & _ & _ & _ & _ & Hab).
      destruct (Hab L Hgt) as (E & _). fold disk in E. rewrite E in Hin. destruct Hin. }
  split; [exact HL|]. destruct (In_nth_error _ _ Hin) as (j & Hj). exists j. split; [exact Hj|].
  destruct (fin_lvl pd t0 st pb T Hfin L HL) as (Hck & _). exact (Hck j c Hj).
Qed.

(* the entries of level 1: 0 (omitted block) or the DATA chunk of the block *)
Lemma e2d_ent1 : forall i e, nth_error (ents disk 1) i = Some e ->
  (i < length pb)%nat /\
  (e = 0%Z \/ exists c, In c disk /\ pc_off c = e /\ pc_kind c = PyData /\ pc_ts c = (t0 + Z.of_nat i * py_spd pd)%Z /\
                        (1 <= pc_count c <= py_spd pd)%Z).
Proof.
  intros i e Hi. destruct (fin_src1 pd t0 st pb T Hfin) as (Hl & Hsrc). fold disk in Hl, Hsrc.
  assert (Hlt : (i < length pb)%nat) by (rewrite <- Hl; eapply nth_error_lt; exact Hi).
  split; [exact Hlt|]. destruct (nth_error_ex _ pb i Hlt) as ((n & om) & Hn).
  specialize (Hsrc i e n om Hi Hn). destruct om; [left; exact Hsrc|right].
  destruct Hsrc as (c & A & B & C & D & E). exists c. repeat (split; [assumption|]).
  destruct Hfin as (_ & _ & (_ & Hb) & _). destruct (Hb i n false Hn) as (Hr & _). lia.
Qed.

Lemma e2d_entN : forall L e, (2 <= L <= T)%nat -> In e (ents disk L) ->
  exists c, In c disk /\ pc_off c = e /\ pc_kind c = PyIndex (pred L).
Proof.
  intros L e HL He. pose proof (fin_srcN pd t0 st pb T Hfin L HL) as Esrc. fold disk in Esrc. rewrite Esrc in He. apply in_map_iff in He. destruct He as (c & E & Hc).
  apply idxs_In in Hc. destruct Hc as (Hc & Hk). exists c. repeat split; assumption.
Qed.

(* a DATA chunk is the chunk of a block *)
Lemma e2d_data : forall c, In c disk -> pc_kind c = PyData ->
  exists i, (i < length pb)%nat /\ pc_ts c = (t0 + Z.of_nat i * py_spd pd)%Z /\ (1 <= pc_count c <= py_spd pd)%Z.
Proof.
  intros c Hc Hk. destruct Hfin as (_ & (_ & _ & H & _) & _). destruct (H c Hc Hk) as (i & Hi). fold disk in Hi.
  destruct (e2d_ent1 i _ Hi) as (Hlt & [E|(c' & Hc' & Eo & _ & Ets & Ecnt)]).
  - pose proof (e2d_off_pos c Hc). lia.
  - assert (c' = c) by (apply (e2d_off_inj disk); [exact e2d_nd|exact Hc'|exact Hc|exact Eo]). subst c'.
    exists i. repeat split; try assumption; lia.
Qed.

(* the sample id of an INDEX chunk is the sample id of a block *)
Lemma e2d_idx_ts : forall M, (1 <= M <= T)%nat -> forall j c, nth_error (idxs disk M) j = Some c ->
  exists i, (i < length pb)%nat /\ pc_ts c = (t0 + Z.of_nat i * py_spd pd)%Z.
Proof.
  induction M as [|M IH]; intros HM j c Hj; [lia|].
  destruct (fin_lvl pd t0 st pb T Hfin (S M) HM) as (Hck & _). fold disk in Hck.
  destruct (Hck j c Hj) as (Cts & Ccnt & Crng & _).
  assert (Hk : (0 < length (pc_entries c))%nat) by lia.
  pose proof (fin_ptr pd t0 st pb T Hfin (S M) j c 0%nat HM Hj Hk) as Hp. fold disk in Hp. rewrite Nat.add_0_r in Hp.
  destruct (nth_error (pc_entries c) 0) as [e|] eqn:Ee; [|apply nth_error_None in Ee; lia].
  pose proof (py_cap_pos pd (S M) Hcons) as Hcap.
  destruct (Nat.eq_dec M 0) as [->|HM0].
  - destruct (e2d_ent1 _ _ Hp) as (Hlt & _). exists (j * Z.to_nat (py_cap pd 1))%nat. split; [exact Hlt|].
    rewrite Cts, py_span_eq, py_step_1 by lia. rewrite Nat2Z.inj_mul, Z2Nat.id by lia. ring.
  - pose proof (fin_srcN pd t0 st pb T Hfin (S M) ltac:(lia)) as Esrc. cbn [pred] in Esrc. fold disk in Esrc. rewrite Esrc in Hp.
    rewrite nth_error_map in Hp. destruct (nth_error (idxs disk M) (j * Z.to_nat (py_cap pd (S M)))) as [c'|] eqn:Ec'; [|discriminate].
    destruct (IH ltac:(lia) _ c' Ec') as (i & Hi & Ets). exists i. split; [exact Hi|]. rewrite <- Ets.
    destruct (fin_lvl pd t0 st pb T Hfin M ltac:(lia)) as (Hck' & _). fold disk in Hck'.
    destruct (Hck' _ c' Ec') as (Cts' & _). rewrite Cts, Cts', py_span_succ by lia.
    rewrite Nat2Z.inj_mul, Z2Nat.id by lia. ring.
Qed.

Lemma e2d_blk_ts : forall i, (i < length pb)%nat -> (- e2_tsb <= t0 + Z.of_nat i * py_spd pd < e2_tsb)%Z.
Proof.
  intros i Hi. destruct Hts as (A & B). destruct (py_cons_facts pd Hcons) as (_ & _ & _ & _ & _ & _ & _ & _ & _ & Hspd & _). nia.
Qed.

(* the chunk of the log paired with a chunk of the disk *)
Lemma e2d_pair : forall pc, In pc disk -> exists i c, nth_error disk i = Some pc /\ nth_error cs i = Some c /\
  rf_chunk_rel d pos0 t0 offs blks c pc.
Proof.
  intros pc Hpc. destruct (In_nth_error _ _ Hpc) as (i & Hi).
  destruct (e2d_forall2_nth _ _ _ _ _ i pc Hrel Hi) as (c & Hc & R). exists i, c. split; [exact Hi|split; [exact Hc|exact R]].
Qed.

Lemma e2d_pc_ok : forall pc, In pc disk -> e2_pc_ok f d psi pc.
Proof.
  intros pc Hpc. destruct (e2d_pair pc Hpc) as (i & c & Hi & Hc & (Roff & Rv & Rk)).
  pose proof (nth_error_In _ _ Hc) as Hcin.
  rewrite Forall_forall in Hfile, Hbig. destruct (Hfile c Hcin) as (h & Hat & Htag & Hmeta). specialize (Hbig c Hcin).
  pose proof (e2d_off_pos pc Hpc) as Hop. fold psi in Roff.
  pose proof Hat as (_ & _ & _ & _ & Hlo & Hhi).
  destruct (e2d_level pc Hpc) as (Hl14 & Hl1).
  unfold e2_pc_ok. split; [exact Hop|]. rewrite <- Roff. split; [exact Hlo|].
  split. { pose proof (fm_chunk_size_ge (rf_len (rc_pay c))). unfold rp_two63 in *. lia. }
  destruct (py_cons_facts pd Hcons) as (Hsdf & Hepd & Espd & Hcap1 & Eeps & Hsumdf & Hq & Eeps2 & Heps & Hspd & Hprod).
  assert (Heps32 : (py_eps pd < 4294967296)%Z) by nia.
  split; [|split; [|split]].
  - (* sample id *)
    destruct (pc_kind pc) as [|L|L] eqn:Hk; [| |exact I].
    + destruct (e2d_data pc Hpc Hk) as (ib & Hib & Ets & _). rewrite Ets. apply e2d_blk_ts. exact Hib.
    + destruct (e2d_idx pc L Hpc Hk) as (HL & j & Hj & _). destruct (e2d_idx_ts L HL j pc Hj) as (ib & Hib & Ets).
      rewrite Ets. apply e2d_blk_ts. exact Hib.
  - (* entry count *)
    destruct (pc_kind pc) as [|L|L] eqn:Hk.
    + destruct (e2d_data pc Hpc Hk) as (ib & _ & _ & Hcnt). unfold pd, rf_pd in Hcnt. cbn [py_spd] in Hcnt. lia.
    + destruct (e2d_idx pc L Hpc Hk) as (HL & j & _ & (_ & _ & Crng & _)).
      assert (py_cap pd L <= py_eps pd)%Z; [|lia].
      destruct L as [|[|L]]; [lia| |].
      * rewrite Eeps. nia.
      * unfold py_cap. rewrite Eeps2. nia.
    + destruct Rk as (_ & _ & entries & Elen & Epay). rewrite Epay in Hbig.
      pose proof (e2_disk_len_ge (rf_len (wm_fsr_summary_payload (sg_dtype d) (pc_ts pc) (Z.to_N (pc_count pc)) entries))) as Hge.
      rewrite rf_summary_payload_len in Hge, Hbig. unfold JLS_BUF_DEFAULT_SIZE in Hbig.
      assert (Hbits : 128 <= wm_summary_entry_bits (sg_dtype d)).
      { unfold wm_summary_entry_bits, JLS_SUMMARY_FSR_COUNT. destruct (wm_summary_is64 _); lia. }
      unfold rf_ln in *. split; [lia|]. rewrite <- Elen.
      assert (N.of_nat (length entries) * 16 <= (N.of_nat (length entries) * wm_summary_entry_bits (sg_dtype d)) / 8).
      { apply N.div_le_lower_bound; [discriminate|]. nia. }
      lia.
  - unfold e2_pc_level, py_chunk_level in *. destruct (pc_kind pc); lia.
  - exists h, (rc_pay c). split; [exact Hat|].
    unfold e2_pc_tag, e2_pc_level, e2_pc_pay. rewrite Htag, Hmeta.
    destruct (pc_kind pc) as [|L|L] eqn:Hk.
    + destruct Rk as (R1 & R2 & blk & _ & _ & R3). split; [exact R1|]. split; [exact R2|]. split; [exact Hbig|].
      eexists. exact R3.
    + destruct Rk as (R1 & R2 & R3 & _). split; [exact R1|]. split; [exact R2|]. split; [exact Hbig|].
      split; [exact R3|]. destruct (e2d_idx pc L Hpc Hk) as (_ & j & _ & (_ & Ccnt & _)). lia.
    + destruct Rk as (R1 & R2 & entries & _ & R3). split; [exact R1|]. split; [exact R2|]. split; [exact Hbig|].
      eexists. exact R3.
Qed.

Lemma e2d_ent_valid : forall pc L e, In pc disk -> pc_kind pc = PyIndex L -> In e (pc_entries pc) ->
  e = 0%Z \/ exists c, In c disk /\ pc_off c = e.
Proof.
  intros pc L e Hpc Hk He. destruct (e2d_idx pc L Hpc Hk) as (HL & _).
  pose proof (e2d_in_ents disk L pc e Hpc Hk He) as Hin.
  destruct (Nat.eq_dec L 1) as [->|HL1].
  - destruct (In_nth_error _ _ Hin) as (i & Hi).
    destruct (e2d_ent1 i e Hi) as (_ & [E|(c & Hc & Eo & _)]); [left; exact E|right; exists c; split; assumption].
  - destruct (e2d_entN L e ltac:(lia) Hin) as (c & Hc & Eo & _). right. exists c. split; assumption.
Qed.

Lemma e2d_head_valid : forall L, nth L heads 0%Z = 0%Z \/ exists c, In c disk /\ pc_off c = nth L heads 0%Z.
Proof.
  intros L. change (nth L heads 0%Z) with (py_head_get st L).
  destruct (Nat.eq_dec L 0) as [->|HL0].
  - destruct Hfin as (_ & (_ & Hh & _) & _). fold disk in Hh. rewrite Hh.
    destruct (nth_error (ents disk 1) 0) as [e|] eqn:Ee.
    + rewrite (nth_error_nth _ _ 0%Z Ee).
      destruct (e2d_ent1 0 e Ee) as (_ & [E|(c & Hc & Eo & _)]); [left; exact E|right; exists c; split; assumption].
    + left. apply nth_error_None in Ee. apply nth_overflow. exact Ee.
  - destruct (Nat.leb_spec L T) as [Hle|Hgt].
    + destruct (fin_lvl pd t0 st pb T Hfin L ltac:(lia)) as (_ & _ & Hh). fold disk in Hh. rewrite Hh.
      destruct (idxs disk L) as [|c r] eqn:E; [left; reflexivity|right]. exists c. split; [|reflexivity].
      apply (idxs_In disk L c). rewrite E. left. reflexivity.
    + left. destruct Hfin as (_ & _ & _ & _ & _ & _ & Hab). apply (Hab L Hgt).
Qed.

Lemma e2d_idx_head : forall L c, (1 <= L)%nat -> In c disk -> pc_off c = nth L heads 0%Z -> pc_kind c = PyIndex L.
Proof.
  intros L c HL Hc Eo. change (nth L heads 0%Z) with (py_head_get st L) in Eo. pose proof (e2d_off_pos c Hc) as Hp.
  destruct (Nat.leb_spec L T) as [Hle|Hgt].
  - destruct (fin_lvl pd t0 st pb T Hfin L ltac:(lia)) as (_ & _ & Hh). fold disk in Hh. rewrite Hh in Eo.
    destruct (idxs disk L) as [|c0 r] eqn:E; [lia|].
    assert (Hin0 : In c0 (idxs disk L)) by (rewrite E; left; reflexivity). apply idxs_In in Hin0. destruct Hin0 as (Hc0 & Hk0).
    assert (c = c0) by (apply (e2d_off_inj disk); [exact e2d_nd|exact Hc|exact Hc0|exact Eo]). subst c0. exact Hk0.
  - destruct Hfin as (_ & _ & _ & _ & _ & _ & Hab). destruct (Hab L Hgt) as (_ & E0). rewrite E0 in Eo. lia.
Qed.

Lemma e2d_idx_ent : forall pc L e c, In pc disk -> pc_kind pc = PyIndex (S (S L)) -> In e (pc_entries pc) -> In c disk -> pc_off c = e ->
  pc_kind c = PyIndex (S L).
Proof.
  intros pc L e c Hpc Hk He Hc Eo. destruct (e2d_idx pc _ Hpc Hk) as (HL & _).
  destruct (e2d_entN (S (S L)) e ltac:(lia) (e2d_in_ents disk _ pc e Hpc Hk He)) as (c0 & Hc0 & Eo0 & Hk0). cbn [pred] in Hk0.
  assert (c = c0) by (apply (e2d_off_inj disk); [exact e2d_nd|exact Hc|exact Hc0|congruence]). subst c0. exact Hk0.
Qed.

Lemma e2d_data_ent : forall pc e c, In pc disk -> pc_kind pc = PyIndex 1 -> In e (pc_entries pc) -> In c disk -> pc_off c = e ->
  pc_kind c = PyData.
Proof.
  intros pc e c Hpc Hk He Hc Eo. destruct (In_nth_error _ _ (e2d_in_ents disk 1 pc e Hpc Hk He)) as (i & Hi).
  pose proof (e2d_off_pos c Hc) as Hp.
  destruct (e2d_ent1 i e Hi) as (_ & [E|(c0 & Hc0 & Eo0 & Hk0 & _)]); [lia|].
  assert (c = c0) by (apply (e2d_off_inj disk); [exact e2d_nd|exact Hc|exact Hc0|congruence]). subst c0. exact Hk0.
Qed.

Lemma e2d_head0 : forall c, In c disk -> pc_off c = nth 0 heads 0%Z -> pc_kind c = PyData.
Proof.
  intros c Hc Eo. change (nth 0 heads 0%Z) with (py_head_get st 0) in Eo. pose proof (e2d_off_pos c Hc) as Hp.
  destruct Hfin as (_ & (_ & Hh & _) & _). fold disk in Hh. rewrite Hh in Eo.
  destruct (nth_error (ents disk 1) 0) as [e|] eqn:Ee.
  - rewrite (nth_error_nth _ _ 0%Z Ee) in Eo. destruct (e2d_ent1 0 e Ee) as (_ & [E|(c0 & Hc0 & Eo0 & Hk0 & _)]); [lia|].
    assert (c = c0) by (apply (e2d_off_inj disk); [exact e2d_nd|exact Hc|exact Hc0|congruence]). subst c0. exact Hk0.
  - apply nth_error_None in Ee. rewrite nth_overflow in Eo by exact Ee. lia.
Qed.

(* the chunk behind an INDEX chunk: its SUMMARY, adjacent in the file, same sample id *)
Lemma e2d_next : forall pc nx L, py_find disk (pc_off pc) = Some (pc, Some nx) -> pc_kind pc = PyIndex L ->
  psi (pc_off nx) = psi (pc_off pc) + fm_chunk_size (SIZEOF_payload_header + 8 * Z.to_N (pc_count pc)) /\ pc_ts nx = pc_ts pc.
Proof.
  intros pc nx L Hf Hk. destruct (e2d_find_some _ _ _ _ Hf) as (Hpc & _).
  destruct (e2d_idx pc L Hpc Hk) as (HL & j & Hj & (_ & Ccnt & Crng & _ & i & s & Hi & Hs & _ & Ets & _)).
  fold disk in Hi, Hs. rewrite (find_nth disk i pc e2d_nd Hi) in Hf. rewrite Hs in Hf.
  assert (Enx : s = nx) by congruence. subst nx. clear Hf.
  split; [|exact Ets].
  destruct (e2d_forall2_nth _ _ _ _ _ i pc Hrel Hi) as (c & Hc & (Roff & _ & Rk)).
  destruct (e2d_forall2_nth _ _ _ _ _ (S i) s Hrel Hs) as (c' & Hc' & (Roff' & _)).
  rewrite Hk in Rk. destruct Rk as (Rtag & _ & Rpay & _).
  fold psi in Roff, Roff'. rewrite <- Roff, <- Roff'. rewrite (Hadj i c c' Hc Rtag Hc'). f_equal. f_equal.
  rewrite Rpay, rf_index_payload_len. unfold rf_len. rewrite map_length. change SIZEOF_payload_header with 16. lia.
Qed.

Theorem e2d_env : e2_env f d disk heads psi t0 T.
Proof.
  destruct (py_cons_facts pd Hcons) as (Hsdf & Hepd & Espd & Hcap1 & Eeps & Hsumdf & Hq & Eeps2 & Heps & Hspd & Hprod).
  constructor.
  - exact Hsid.
  - pose proof (e2d_dt_bits (sg_dtype d)) as Hb. fold w in Hb |- *. lia.
  - exact (div_ok_true pd Hcons).
  - fold pd. lia.
  - reflexivity.
  - apply Forall_forall. exact e2d_pc_ok.
  - exact e2d_nd.
  - exact e2d_ent_valid.
  - exact e2d_head_valid.
  - intros pc nx L Hf Hk. exact (proj1 (e2d_next pc nx L Hf Hk)).
  - intros L HL. destruct Hfin as (_ & _ & _ & _ & _ & _ & Hab). apply (Hab L HL).
  - intros k Hk. fold pd. split; [apply py_step_pos; [exact Hcons|lia]|apply Hstep; exact Hk].
  - destruct Hts as (A & B). split; [exact A|]. destruct Hfin as (_ & _ & (Hne & _) & _).
    destruct pb as [|b0 r]; [congruence|]. cbn [length] in B. nia.
  - exact e2d_idx_head.
  - exact e2d_idx_ent.
  - intros pc L Hpc Hk. destruct (e2d_idx pc L Hpc Hk) as (_ & j & _ & (_ & _ & Crng & _)). lia.
  - exact (sample_id_offset_ok pd t0 st pb T Hfin).
  - intros pc nx L Hf Hk. destruct (e2d_next pc nx L Hf Hk) as (_ & Ets). rewrite Ets.
    destruct (e2d_find_some _ _ _ _ Hf) as (Hpc & _). destruct (e2d_idx pc L Hpc Hk) as (HL & j & Hj & _).
    destruct (e2d_idx_ts L HL j pc Hj) as (ib & Hib & E). rewrite E. apply e2d_blk_ts. exact Hib.
  - exact e2d_data_ent.
  - exact e2d_head0.
Qed.

End E2D.
