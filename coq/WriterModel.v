(* Byte-faithful executable model of the SYNCHRONOUS WRITER: /repo/src/writer.c over WmRaw (raw.c,
   backend), WmCore (core.c, track.c), WmTs (wr_ts.c), WmFsr (wr_fsr.c).

     wm_run summ1 summN prog : wm_log      the backend log (truncate/write/fsync calls, in order) of
                                            jls_wr_open; <prog>; jls_wr_close
   is meant to be EXACTLY the log the harness records for the same program (tools/props/WM.py compares).

   State:
     wm_state   = { wm_st_base : wm_base     raw + source_head/signal_head/user_data_head
                  ; wm_st_srcs : list N      ids with source_info[id].chunk_def.offset != 0
                  ; wm_st_sigs : list wm_signal   defined signals (chunk_def.offset != 0), definition order }
     wm_signal  = aligned definition, the four jls_core_track_s, track_fsr / track_anno / track_utc
                  (None = NULL pointer: not opened, or closed)
   One function per API call, each returning the C return code:
     wm_api_open, wm_api_source_def, wm_api_signal_def, wm_api_user_data, wm_api_fsr, wm_api_fsr_omit_data,
     wm_api_annotation, wm_api_utc, wm_api_flush, wm_api_close
   wm_step_rc dispatches a Spec.wop; wm_step returns the log entries of one call.

   Acceptance = the C's checks in the C's order.  A rejected call writes nothing and changes nothing that
   later calls can observe (the C copies a rejected signal definition into signal_info[id].signal_def, but
   jls_core_signal_validate also needs chunk_def.offset != 0).
   Not modelled (outside the domain; see also the [wm_fault] flag of WmRaw): I/O errors, allocation failure; strings of JLS_BUF_STRING_SIZE - 2 bytes or more are rejected as the C does but the
   1 MiB string-block bookkeeping is not modelled beyond that.
   Definitions only. *)
From Coq Require Import NArith ZArith List Bool.
From JLS Require Import Generated CrcDefs Spec Format WmRaw WmCore WmTs WmFsr.
Import ListNotations.
Local Open Scope N_scope.

Record wm_signal := {
  wm_sg_def : sigdef;
  wm_sg_tk_fsr : wm_track; wm_sg_tk_vsr : wm_track; wm_sg_tk_anno : wm_track; wm_sg_tk_utc : wm_track;
  wm_sg_fsr : option wm_fsr; wm_sg_anno : option wm_ts; wm_sg_utc : option wm_ts }.

Record wm_state := { wm_st_base : wm_base; wm_st_srcs : list N; wm_st_sigs : list wm_signal }.

Definition wm_st_set_base (st : wm_state) (b : wm_base) : wm_state :=
  {| wm_st_base := b; wm_st_srcs := wm_st_srcs st; wm_st_sigs := wm_st_sigs st |}.
Definition wm_sig_id (s : wm_signal) : N := sg_id (wm_sg_def s).
Definition wm_find_sig (st : wm_state) (id : N) : option wm_signal := find (fun s => wm_sig_id s =? id) (wm_st_sigs st).
Definition wm_put_sig (st : wm_state) (b : wm_base) (s : wm_signal) : wm_state :=
  {| wm_st_base := b; wm_st_srcs := wm_st_srcs st;
     wm_st_sigs := map (fun x => if wm_sig_id x =? wm_sig_id s then s else x) (wm_st_sigs st) |}.

Definition wm_sg_set_fsr (s : wm_signal) (t : wm_track) (f : option wm_fsr) : wm_signal :=
  {| wm_sg_def := wm_sg_def s; wm_sg_tk_fsr := t; wm_sg_tk_vsr := wm_sg_tk_vsr s; wm_sg_tk_anno := wm_sg_tk_anno s;
     wm_sg_tk_utc := wm_sg_tk_utc s; wm_sg_fsr := f; wm_sg_anno := wm_sg_anno s; wm_sg_utc := wm_sg_utc s |}.
Definition wm_sg_set_anno (s : wm_signal) (t : wm_track) (a : option wm_ts) : wm_signal :=
  {| wm_sg_def := wm_sg_def s; wm_sg_tk_fsr := wm_sg_tk_fsr s; wm_sg_tk_vsr := wm_sg_tk_vsr s; wm_sg_tk_anno := t;
     wm_sg_tk_utc := wm_sg_tk_utc s; wm_sg_fsr := wm_sg_fsr s; wm_sg_anno := a; wm_sg_utc := wm_sg_utc s |}.
Definition wm_sg_set_utc (s : wm_signal) (t : wm_track) (u : option wm_ts) : wm_signal :=
  {| wm_sg_def := wm_sg_def s; wm_sg_tk_fsr := wm_sg_tk_fsr s; wm_sg_tk_vsr := wm_sg_tk_vsr s; wm_sg_tk_anno := wm_sg_tk_anno s;
     wm_sg_tk_utc := t; wm_sg_fsr := wm_sg_fsr s; wm_sg_anno := wm_sg_anno s; wm_sg_utc := u |}.

(* ---- C strings ---- *)
Fixpoint wm_cstr (l : list N) : list N :=      (* the bytes strlen() sees *)
  match l with [] => [] | b :: r => if b =? 0 then [] else b :: wm_cstr r end.
Definition wm_strv (s : strv) : list N := wm_cstr (str_read s).
(* jls_buf_string_save accepts strlen + 1 <= sizeof(buffer) - 1; NULL strings are not saved *)
Definition wm_str_fits (s : strv) : bool :=
  match s with SNull => true | SBytes l => N.of_nat (length (wm_cstr l)) + 1 <=? JLS_BUF_STRING_SIZE - 1 end.

(* ---- payloads built in writer.c ---- *)
Definition wm_source_payload (d : srcdef) : list N :=
  fm_encode_source_payload (wm_strv (so_name d)) (wm_strv (so_vendor d)) (wm_strv (so_model d))
                           (wm_strv (so_version d)) (wm_strv (so_serial d)).
Definition wm_signal_payload (d : sigdef) : list N :=
  fm_enc_u16 (sg_src d) ++ fm_enc_u8 (sg_type d) ++ fm_enc_u8 0 ++ fm_enc_u32 (sg_dtype d) ++ fm_enc_u32 (sg_rate d)
  ++ fm_enc_u32 (sg_spd d) ++ fm_enc_u32 (sg_sdf d) ++ fm_enc_u32 (sg_eps d) ++ fm_enc_u32 (sg_sumdf d)
  ++ fm_enc_u32 (sg_adf d) ++ fm_enc_u32 (sg_udf d) ++ repeat 0 (N.to_nat fm_signal_reserved)
  ++ fm_encode_str (wm_strv (sg_name d)) ++ fm_encode_str (wm_strv (sg_units d)).
Definition wm_anno_payload (a : anno) : list N :=
  let data_part :=
    if an_stype a =? JLS_STORAGE_TYPE_BINARY
    then fm_enc_u32 (N.of_nat (length (an_data a))) ++ an_data a
    else (let c := wm_cstr (an_data a) in fm_enc_u32 (N.of_nat (length c) + 1) ++ fm_encode_str c) in
  fm_enc_i64 (an_ts a) ++ fm_enc_u32 1 ++ fm_enc_u16 0 ++ fm_enc_u16 0
  ++ fm_enc_u8 (an_type a) ++ fm_enc_u8 (an_stype a) ++ fm_enc_u8 (an_group a) ++ fm_enc_u8 0 ++ fm_enc_u32 (an_y a)
  ++ data_part.
Definition wm_utc_payload (sample_id utc : Z) : list N := wm_payload_header sample_id 1 64 ++ fm_enc_i64 utc.

Definition wm_len (l : list N) : N := N.of_nat (length l).

(* ---- validation (core.c) ---- *)
Definition wm_signal_validate (st : wm_state) (sig : N) : N * option wm_signal :=
  if JLS_SIGNAL_COUNT <=? sig then (JLS_ERROR_PARAMETER_INVALID, None)
  else match wm_find_sig st sig with
       | None => (JLS_ERROR_NOT_FOUND, None)
       | Some s => (0, Some s)
       end.
Definition wm_signal_validate_typed (st : wm_state) (sig ty : N) : N * option wm_signal :=
  match wm_signal_validate st sig with
  | (0, Some s) => if sg_type (wm_sg_def s) =? ty then (0, Some s) else (JLS_ERROR_NOT_SUPPORTED, None)
  | r => r
  end.

(* ---- jls_wr_user_data ---- *)
Definition wm_api_user_data (st : wm_state) (u : udata) : wm_state * N :=
  let stype := ud_stype u in
  if 3 <? stype then (st, JLS_ERROR_PARAMETER_INVALID)
  else
    let data := if stype =? JLS_STORAGE_TYPE_INVALID then []
                else if stype =? JLS_STORAGE_TYPE_BINARY then ud_data u
                else wm_cstr (ud_data u) ++ [0] in
    let meta := N.lor (N.land (ud_meta u) 4095) (N.shiftl stype 12) in
    let b := wm_st_base st in
    let r := wm_b_raw b in
    let h := wm_mk_hdr (wm_ck_offset (wm_b_ud_head b)) JLS_TAG_USER_DATA meta (wm_len data) in
    let off := wm_raw_chunk_tell r in
    let '(r1, h1) := wm_raw_wr r h data in
    let '(r2, uh) := wm_update_item_head r1 (wm_b_ud_head b) {| wm_ck_offset := off; wm_ck_hdr := h1 |} in
    (wm_st_set_base st (wm_b_set_ud_head (wm_b_set_raw b r2) uh), 0).

(* ---- jls_wr_source_def: chunk, then link (source_head caches the header as stamped by jls_raw_wr) ---- *)
Definition wm_api_source_def (st : wm_state) (d : srcdef) : wm_state * N :=
  if JLS_SOURCE_COUNT <=? so_id d then (st, JLS_ERROR_PARAMETER_INVALID)
  else if existsb (N.eqb (so_id d)) (wm_st_srcs st) then (st, JLS_ERROR_ALREADY_EXISTS)
  else if negb (wm_str_fits (so_name d) && wm_str_fits (so_vendor d) && wm_str_fits (so_model d)
                && wm_str_fits (so_version d) && wm_str_fits (so_serial d)) then (st, JLS_ERROR_TOO_BIG)
  else
    let payload := wm_source_payload d in
    let b := wm_st_base st in
    let r := wm_b_raw b in
    let h := wm_mk_hdr (wm_ck_offset (wm_b_source_head b)) JLS_TAG_SOURCE_DEF (so_id d) (wm_len payload) in
    let off := wm_raw_chunk_tell r in
    let '(r1, h1) := wm_raw_wr r h payload in
    let '(r2, sh) := wm_update_item_head r1 (wm_b_source_head b) {| wm_ck_offset := off; wm_ck_hdr := h1 |} in
    ({| wm_st_base := wm_b_set_source_head (wm_b_set_raw b r2) sh; wm_st_srcs := so_id d :: wm_st_srcs st;
        wm_st_sigs := wm_st_sigs st |}, 0).

(* ---- jls_core_signal_def_validate (core.c): the data type word; ids and signal type are checked by the caller ---- *)
Definition wm_dt_valid (dt : N) : bool :=
  let k := N.land dt 65535 in
  existsb (N.eqb k) [JLS_DATATYPE_I4; JLS_DATATYPE_I8; JLS_DATATYPE_I16; JLS_DATATYPE_I24; JLS_DATATYPE_I32; JLS_DATATYPE_I64;
                     JLS_DATATYPE_U1; JLS_DATATYPE_U4; JLS_DATATYPE_U8; JLS_DATATYPE_U16; JLS_DATATYPE_U24; JLS_DATATYPE_U32;
                     JLS_DATATYPE_U64; JLS_DATATYPE_F32; JLS_DATATYPE_F64]
  && negb (negb (N.land (N.shiftr dt 16) 255 =? 0) && (N.land dt 15 =? 4)).      (* q != 0 on a float type; bits 24..31 are not looked at *)

(* ---- jls_core_signal_def_align (core.c) ----
   signal_def_defaults: per-width table for 1 4 8 16 24(=32's) 32 64 (every valid data type has one; other
   widths get no defaults and no clamp); annotation/utc decimate factors default to the 32-bit table's and are
   clamped to >= SUMMARY_DECIMATE_FACTOR_MIN.  round_up_to_multiple works in 64 bits and rejects results above
   UINT32_MAX; the block and summary buffer byte sizes must fit UINT32_MAX / 2.  None = JLS_ERROR_PARAMETER_INVALID.
   Inputs are uint32_t (the driver masks); no operation here can wrap. *)
Definition wm_default_of (w f : N) : N :=          (* f: 0 spd 1 sdf 2 eps 3 sumdf *)
  match w, f with
  | 1, 0 => DEF1_samples_per_data | 1, 1 => DEF1_sample_decimate_factor | 1, 2 => DEF1_entries_per_summary | 1, 3 => DEF1_summary_decimate_factor
  | 4, 0 => DEF4_samples_per_data | 4, 1 => DEF4_sample_decimate_factor | 4, 2 => DEF4_entries_per_summary | 4, 3 => DEF4_summary_decimate_factor
  | 8, 0 => DEF8_samples_per_data | 8, 1 => DEF8_sample_decimate_factor | 8, 2 => DEF8_entries_per_summary | 8, 3 => DEF8_summary_decimate_factor
  | 16, 0 => DEF16_samples_per_data | 16, 1 => DEF16_sample_decimate_factor | 16, 2 => DEF16_entries_per_summary | 16, 3 => DEF16_summary_decimate_factor
  | 24, 0 => DEF32_samples_per_data | 24, 1 => DEF32_sample_decimate_factor | 24, 2 => DEF32_entries_per_summary | 24, 3 => DEF32_summary_decimate_factor
  | 32, 0 => DEF32_samples_per_data | 32, 1 => DEF32_sample_decimate_factor | 32, 2 => DEF32_entries_per_summary | 32, 3 => DEF32_summary_decimate_factor
  | 64, 0 => DEF64_samples_per_data | 64, 1 => DEF64_sample_decimate_factor | 64, 2 => DEF64_entries_per_summary | 64, 3 => DEF64_summary_decimate_factor
  | _, _ => 0
  end.
Definition wm_has_defaults (w : N) : bool :=
  (w =? 1) || (w =? 4) || (w =? 8) || (w =? 16) || (w =? 24) || (w =? 32) || (w =? 64).
Definition wm_dflt (w : N) (v d : N) : N := if wm_has_defaults w && (v =? 0) then d else v.
Definition wm_u32_max : N := 4294967295.
Definition wm_round_up (x m : N) : option N :=
  let r := ((x + m - 1) / m) * m in if wm_u32_max <? r then None else Some r.
(* while (eps != (eps / epd) * epd) --epd;   (epd >= 1 on entry; the loop stops at 1 at the latest) *)
Fixpoint wm_fit_epd (fuel : nat) (eps epd : N) : N :=
  match fuel with
  | O => 1
  | S f => if epd =? 0 then 1 else if eps mod epd =? 0 then epd else wm_fit_epd f eps (epd - 1)
  end.
Definition wm_sig_align (d : sigdef) : option sigdef :=
  let w := dt_bits (sg_dtype d) in
  let spd0 := wm_dflt w (sg_spd d) (wm_default_of w 0) in
  let sdf0 := wm_dflt w (sg_sdf d) (wm_default_of w 1) in
  let eps0 := wm_dflt w (sg_eps d) (wm_default_of w 2) in
  let sumdf0 := wm_dflt w (sg_sumdf d) (wm_default_of w 3) in
  let adf0 := wm_dflt w (sg_adf d) DEF32_annotation_decimate_factor in
  let udf0 := wm_dflt w (sg_udf d) DEF32_utc_decimate_factor in
  let adf := if wm_has_defaults w then N.max adf0 SUMMARY_DECIMATE_FACTOR_MIN else adf0 in
  let udf := if wm_has_defaults w then N.max udf0 SUMMARY_DECIMATE_FACTOR_MIN else udf0 in
  let mult := if w =? 24 then 32 else (SAMPLE_SIZE_BYTES_MAX * 8) / w in
  match wm_round_up (N.max sdf0 SAMPLE_DECIMATE_FACTOR_MIN) mult with
  | None => None
  | Some sdf =>
    let spd1 := N.max spd0 SAMPLES_PER_DATA_MIN in
    let eps1 := N.max eps0 ENTRIES_PER_SUMMARY_MIN in
    let sumdf := N.max sumdf0 SUMMARY_DECIMATE_FACTOR_MIN in
    match wm_round_up eps1 sumdf with
    | None => None
    | Some eps =>
      match wm_round_up spd1 sdf with
      | None => None
      | Some spd2 =>
        (* the C counts down from spd2 / sdf; every value above eps fails the test (eps / epd = 0, eps >= 10), so
           starting at min (spd2 / sdf) eps gives the same result with fuel bounded by eps *)
        let epd0 := N.min (spd2 / sdf) eps in
        let epd := wm_fit_epd (N.to_nat epd0) eps epd0 in
        let spd := sdf * epd in
        if wm_u32_max / 2 <? (spd * w) / 8 then None
        else if wm_u32_max / 2 <? eps * JLS_SUMMARY_FSR_COUNT * 8 then None
        else Some
          {| sg_id := sg_id d; sg_src := sg_src d; sg_type := sg_type d; sg_dtype := sg_dtype d;
             sg_rate := if sg_type d =? JLS_SIGNAL_TYPE_VSR then 0 else sg_rate d;      (* jls_wr_signal_def, VSR branch *)
             sg_spd := spd; sg_sdf := sdf; sg_eps := eps; sg_sumdf := sumdf; sg_adf := adf; sg_udf := udf;
             sg_name := sg_name d; sg_units := sg_units d |}
      end
    end
  end.

(* jls_track_wr_def + jls_track_wr_head of a new track *)
Definition wm_def_track (b : wm_base) (signal_id track_type : N) : wm_base * wm_track :=
  wm_track_wr_head (wm_track_wr_def b signal_id track_type) signal_id (wm_track0 track_type).

(* ---- jls_wr_signal_def ---- *)
Definition wm_api_signal_def (st : wm_state) (d0 : sigdef) : wm_state * N :=
  if JLS_SIGNAL_COUNT <=? sg_id d0 then (st, JLS_ERROR_PARAMETER_INVALID)
  else if JLS_SOURCE_COUNT <=? sg_src d0 then (st, JLS_ERROR_PARAMETER_INVALID)
  else if negb (existsb (N.eqb (sg_src d0)) (wm_st_srcs st)) then (st, JLS_ERROR_NOT_FOUND)
  else match wm_find_sig st (sg_id d0) with Some _ => (st, JLS_ERROR_ALREADY_EXISTS) | None =>
  if negb ((sg_type d0 =? JLS_SIGNAL_TYPE_FSR) || (sg_type d0 =? JLS_SIGNAL_TYPE_VSR)) then (st, JLS_ERROR_PARAMETER_INVALID)
  else if negb (wm_str_fits (sg_name d0) && wm_str_fits (sg_units d0)) then (st, JLS_ERROR_TOO_BIG)
  else if negb (wm_dt_valid (sg_dtype d0)) then (st, JLS_ERROR_PARAMETER_INVALID)         (* jls_core_signal_def_validate *)
  else match wm_sig_align d0 with None => (st, JLS_ERROR_PARAMETER_INVALID) | Some d =>     (* jls_core_signal_def_align *)
    if (sg_type d =? JLS_SIGNAL_TYPE_FSR) && (sg_rate d =? 0) then (st, JLS_ERROR_PARAMETER_INVALID)
    else
      let sid := sg_id d in
      let payload := wm_signal_payload d in
      let b := wm_st_base st in
      let r := wm_b_raw b in
      let h := wm_mk_hdr (wm_ck_offset (wm_b_signal_head b)) JLS_TAG_SIGNAL_DEF sid (wm_len payload) in
      let off := wm_raw_chunk_tell r in
      let '(r1, h1) := wm_raw_wr r h payload in
      let '(r2, sh) := wm_update_item_head r1 (wm_b_signal_head b) {| wm_ck_offset := off; wm_ck_hdr := h1 |} in
      let b1 := wm_b_set_signal_head (wm_b_set_raw b r2) sh in
      let '(b4, s) :=
        if sg_type d =? JLS_SIGNAL_TYPE_FSR then
          let '(b2, tf) := wm_def_track b1 sid JLS_TRACK_TYPE_FSR in
          let '(b3, ta) := wm_def_track b2 sid JLS_TRACK_TYPE_ANNOTATION in
          let '(b4, tu) := wm_def_track b3 sid JLS_TRACK_TYPE_UTC in
          (b4, {| wm_sg_def := d; wm_sg_tk_fsr := tf; wm_sg_tk_vsr := wm_track0 JLS_TRACK_TYPE_VSR; wm_sg_tk_anno := ta;
                  wm_sg_tk_utc := tu; wm_sg_fsr := Some wm_fsr_open; wm_sg_anno := Some (wm_ts_open (sg_adf d));
                  wm_sg_utc := Some (wm_ts_open (sg_udf d)) |})
        else
          let '(b2, tv) := wm_def_track b1 sid JLS_TRACK_TYPE_VSR in
          let '(b3, ta) := wm_def_track b2 sid JLS_TRACK_TYPE_ANNOTATION in
          (b3, {| wm_sg_def := d; wm_sg_tk_fsr := wm_track0 JLS_TRACK_TYPE_FSR; wm_sg_tk_vsr := tv; wm_sg_tk_anno := ta;
                  wm_sg_tk_utc := wm_track0 JLS_TRACK_TYPE_UTC; wm_sg_fsr := None; wm_sg_anno := Some (wm_ts_open (sg_adf d));
                  wm_sg_utc := None |}) in
      ({| wm_st_base := b4; wm_st_srcs := wm_st_srcs st; wm_st_sigs := wm_st_sigs st ++ [s] |}, 0)
  end end.

(* ---- jls_wr_fsr_omit_data ---- *)
Definition wm_api_fsr_omit_data (st : wm_state) (sig enable : N) : wm_state * N :=
  match wm_signal_validate_typed st sig JLS_SIGNAL_TYPE_FSR with
  | (0, Some s) =>
    match wm_sg_fsr s with
    | Some f =>
      let r := if enable =? 0 then 0 else N.lor (wm_f_omit f) 1 in
      (wm_put_sig st (wm_st_base st) (wm_sg_set_fsr s (wm_sg_tk_fsr s) (Some (wm_f_set_omit f r))), 0)
    | None => (wm_st_set_base st (wm_b_fault (wm_st_base st)), 0)          (* NULL track_fsr *)
    end
  | (rc, _) => (st, rc)
  end.

(* ---- jls_wr_annotation: DATA chunk, link, head table (first), then the ts pyramid ---- *)
Definition wm_api_annotation (st : wm_state) (sig : N) (a : anno) : wm_state * N :=
  match wm_signal_validate st sig with
  | (0, Some s) =>
    if 256 <=? an_type a then (st, JLS_ERROR_PARAMETER_INVALID)
    else if 256 <=? an_stype a then (st, JLS_ERROR_PARAMETER_INVALID)
    else if negb ((1 <=? an_stype a) && (an_stype a <=? 3)) then (st, JLS_ERROR_PARAMETER_INVALID)
    else
      match wm_sg_anno s with
      | None => (wm_st_set_base st (wm_b_fault (wm_st_base st)), 0)
      | Some ts =>
        let payload := wm_anno_payload a in
        let b := wm_st_base st in
        let r := wm_b_raw b in
        let t := wm_sg_tk_anno s in
        let offset := wm_raw_chunk_tell r in
        let h := wm_mk_hdr (wm_ck_offset (wm_tk_data_head t)) JLS_TAG_TRACK_ANNOTATION_DATA sig (wm_len payload) in
        let '(r1, h1) := wm_raw_wr r h payload in
        let '(r2, dh) := wm_update_item_head r1 (wm_tk_data_head t) {| wm_ck_offset := offset; wm_ck_hdr := h1 |} in
        let '(b1, t1) := wm_track_update (wm_b_set_raw b r2) sig (wm_tk_set_data_head t dh) 0 offset in
        let x := wm_ts_add sig {| wm_tx_base := b1; wm_tx_tk := t1; wm_tx_ts := ts |} (an_ts a) offset
                           (wm_anno_summary_entry (an_ts a) (an_type a) (an_group a) (an_y a)) in
        (wm_put_sig st (wm_tx_base x) (wm_sg_set_anno s (wm_tx_tk x) (Some (wm_tx_ts x))), 0)
      end
  | (rc, _) => (st, rc)
  end.

(* ---- jls_wr_utc ---- *)
Definition wm_api_utc (st : wm_state) (sig : N) (sample_id utc : Z) : wm_state * N :=
  match wm_signal_validate_typed st sig JLS_SIGNAL_TYPE_FSR with
  | (0, Some s) =>
    match wm_sg_utc s with
    | None => (wm_st_set_base st (wm_b_fault (wm_st_base st)), 0)
    | Some ts =>
      let payload := wm_utc_payload sample_id utc in
      let b := wm_st_base st in
      let r := wm_b_raw b in
      let t := wm_sg_tk_utc s in
      let offset := wm_raw_chunk_tell r in
      let h := wm_mk_hdr (wm_ck_offset (wm_tk_data_head t)) JLS_TAG_TRACK_UTC_DATA sig SIZEOF_utc_data in
      let '(r1, h1) := wm_raw_wr r h payload in
      let '(r2, dh) := wm_update_item_head r1 (wm_tk_data_head t) {| wm_ck_offset := offset; wm_ck_hdr := h1 |} in
      let '(b1, t1) := wm_track_update (wm_b_set_raw b r2) sig (wm_tk_set_data_head t dh) 0 offset in
      let x := wm_ts_add sig {| wm_tx_base := b1; wm_tx_tk := t1; wm_tx_ts := ts |} sample_id offset
                         (wm_utc_summary_entry sample_id utc) in
      (wm_put_sig st (wm_tx_base x) (wm_sg_set_utc s (wm_tx_tk x) (Some (wm_tx_ts x))), 0)
    end
  | (rc, _) => (st, rc)
  end.

(* ---- jls_wr_flush ---- *)
Definition wm_api_flush (st : wm_state) : wm_state * N :=
  let b := wm_st_base st in (wm_st_set_base st (wm_b_set_raw b (wm_raw_flush (wm_b_raw b))), 0).

(* ---- jls_wr_open: raw open, USER_DATA(INVALID, empty), SOURCE 0, SIGNAL 0 ---- *)
Definition wm_signal0_raw : sigdef :=
  {| sg_id := 0; sg_src := 0; sg_type := JLS_SIGNAL_TYPE_VSR; sg_dtype := JLS_DATATYPE_F32; sg_rate := 0;
     sg_spd := 10; sg_sdf := 10; sg_eps := 10; sg_sumdf := 10; sg_adf := 100; sg_udf := 100;
     sg_name := sg_name signal0; sg_units := sg_units signal0 |}.
Definition wm_state0 : wm_state :=
  {| wm_st_base := {| wm_b_raw := wm_raw_open; wm_b_source_head := wm_chunk0; wm_b_signal_head := wm_chunk0;
                      wm_b_ud_head := wm_chunk0 |};
     wm_st_srcs := []; wm_st_sigs := [] |}.
Definition wm_api_open : wm_state :=
  let '(st1, _) := wm_api_user_data wm_state0 {| ud_meta := 0; ud_stype := JLS_STORAGE_TYPE_INVALID; ud_data := [] |} in
  let '(st2, _) := wm_api_source_def st1 source0 in
  let '(st3, _) := wm_api_signal_def st2 wm_signal0_raw in
  st3.

Section WM_API.
Variable summ1 : N -> list N -> wm_sentry.
Variable summN : bool -> list wm_sentry -> wm_sentry.

(* ---- jls_wr_fsr ---- *)
Definition wm_api_fsr (st : wm_state) (sig : N) (sample_id : Z) (samples : list N) : wm_state * N :=
  match wm_signal_validate_typed st sig JLS_SIGNAL_TYPE_FSR with
  | (0, Some s) =>
    match wm_sg_fsr s with
    | None => (wm_st_set_base st (wm_b_fault (wm_st_base st)), 0)
    | Some f =>
      let x := wm_fsr_data summ1 summN (wm_sg_def s)
                 {| wm_fx_base := wm_st_base st; wm_fx_tk := wm_sg_tk_fsr s; wm_fx_fsr := f |} sample_id samples in
      (wm_put_sig st (wm_fx_base x) (wm_sg_set_fsr s (wm_fx_tk x) (Some (wm_fx_fsr x))), 0)
    end
  | (rc, _) => (st, rc)
  end.

(* ---- jls_wr_close: per signal id 0..255: fsr close, annotation ts close, utc ts close; END; file header ---- *)
Definition wm_close_signal (st : wm_state) (id : N) : wm_state :=
  match wm_find_sig st id with
  | None => st
  | Some s =>
    let d := wm_sg_def s in
    let '(b1, s1) :=
      match wm_sg_fsr s with
      | None => (wm_st_base st, s)
      | Some f =>
        let x := wm_fsr_close summ1 summN d {| wm_fx_base := wm_st_base st; wm_fx_tk := wm_sg_tk_fsr s; wm_fx_fsr := f |} in
        (wm_fx_base x, wm_sg_set_fsr s (wm_fx_tk x) None)
      end in
    let '(b2, s2) :=
      match wm_sg_anno s1 with
      | None => (b1, s1)
      | Some ts =>
        let x := wm_ts_close id {| wm_tx_base := b1; wm_tx_tk := wm_sg_tk_anno s1; wm_tx_ts := ts |} in
        (wm_tx_base x, wm_sg_set_anno s1 (wm_tx_tk x) None)
      end in
    let '(b3, s3) :=
      match wm_sg_utc s2 with
      | None => (b2, s2)
      | Some ts =>
        let x := wm_ts_close id {| wm_tx_base := b2; wm_tx_tk := wm_sg_tk_utc s2; wm_tx_ts := ts |} in
        (wm_tx_base x, wm_sg_set_utc s2 (wm_tx_tk x) None)
      end in
    wm_put_sig st b3 s3
  end.
Definition wm_signal_ids : list N := map N.of_nat (seq 0 (N.to_nat JLS_SIGNAL_COUNT)).
Definition wm_api_close (st : wm_state) : wm_state :=
  let st1 := fold_left wm_close_signal wm_signal_ids st in
  let b := wm_core_wr_end (wm_st_base st1) in
  wm_st_set_base st1 (wm_b_set_raw b (wm_raw_close (wm_b_raw b))).

(* ---- one API call ---- *)
Definition wm_step_rc (st : wm_state) (o : wop) : wm_state * N :=
  match o with
  | WSrc d => wm_api_source_def st d
  | WSig d => wm_api_signal_def st d
  | WFsr sig sid samples => wm_api_fsr st sig sid samples
  | WOmit sig en => wm_api_fsr_omit_data st sig en
  | WAnno sig a => wm_api_annotation st sig a
  | WUtc sig sid utc => wm_api_utc st sig sid utc
  | WUd u => wm_api_user_data st u
  | WFlush => wm_api_flush st
  end.

Definition wm_st_log (st : wm_state) : wm_log := wm_rlog (wm_b_raw (wm_st_base st)).      (* newest first *)
Definition wm_st_fault (st : wm_state) : bool := wm_fault (wm_b_raw (wm_st_base st)).
Definition wm_st_clear_log (st : wm_state) : wm_state :=
  let b := wm_st_base st in wm_st_set_base st (wm_b_set_raw b (wm_set_rlog (wm_b_raw b) [])).

(* the backend calls of one API call, in order *)
Definition wm_step (st : wm_state) (o : wop) : wm_state * list wm_entry :=
  let st1 := fst (wm_step_rc (wm_st_clear_log st) o) in
  (wm_st_clear_log st1, wm_rev (wm_st_log st1)).

Fixpoint wm_steps (st : wm_state) (p : list wop) (rcs : list N) : wm_state * list N :=
  match p with
  | [] => (st, wm_rev rcs)
  | o :: r => let '(st1, rc) := wm_step_rc st o in wm_steps st1 r (rc :: rcs)
  end.

(* jls_wr_open; prog; jls_wr_close: final state (log inside, newest first) and the return code of every call *)
Definition wm_run_full (p : list wop) : wm_state * list N :=
  let '(st, rcs) := wm_steps wm_api_open p [] in (wm_api_close st, rcs).
Definition wm_run (p : list wop) : wm_log := wm_rev (wm_st_log (fst (wm_run_full p))).

End WM_API.
