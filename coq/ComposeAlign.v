(* COMPOSITION, part 6: the numeric guards of the refinement / pyramid theorems are consequences of the ACCEPTANCE of the
   signal definition by the byte-exact model (wm_api_signal_def returns 0 = jls_core_signal_def_validate and
   jls_core_signal_def_align passed) - all but two:
     sg_eps d * sg_sdf d < 2^32        (part of PyramidModel.py_consistent: keeps the reader's uint32 product
                                        entry_count * sample_decimate_factor exact; NOT established by the align code:
                                        see cmp_align_product_unbounded)
     wm_fill_sample = Spec.fill_value  (false for a float type with reserved data_type bits:
                                        Properties_C01_bits.C01_blocks_stream_refuted_reserved_dt_bits) *)
From Coq Require Import NArith ZArith List Bool Lia.
From Coq Require Import ZifyBool ZifyN ZifyNat.
From JLS Require Import Generated Spec Format WmRaw WmCore WmTs WmFsr WriterModel WmProofs PyramidModel PyramidProofs
  SafeProofs4 RefinePyr.
Import ListNotations.
Local Open Scope N_scope.

Lemma cmp_fit_epd_div : forall fuel eps epd, eps mod (wm_fit_epd fuel eps epd) = 0.
Proof.
  induction fuel as [|f IH]; intros eps epd; cbn [wm_fit_epd]; [apply N.mod_1_r|].
  destruct (epd =? 0); [apply N.mod_1_r|]. destruct (eps mod epd =? 0) eqn:E; [apply N.eqb_eq; exact E|apply IH].
Qed.

Lemma cmp_round_up_mod : forall x m r, 0 < m -> wm_round_up x m = Some r -> r mod m = 0 /\ x <= r /\ r <= wm_u32_max.
Proof.
  intros x m r Hm H. pose proof (sf_round_up_ge x m r Hm H) as Hge. unfold wm_round_up in H.
  destruct (N.ltb_spec wm_u32_max ((x + m - 1) / m * m)) as [|Hle]; [discriminate H|]. injection H as <-.
  split; [apply N.mod_mul; lia|]. split; [exact Hge|exact Hle].
Qed.

Lemma cmp_accept_valid : forall st d0, snd (wm_api_signal_def st d0) = 0 ->
  wm_dt_valid (sg_dtype d0) = true /\ sg_id d0 < 256.
Proof.
  intros st d0 H. unfold wm_api_signal_def in H.
  destruct (N.leb_spec JLS_SIGNAL_COUNT (sg_id d0)) as [|Hid]; [discriminate H|].
  destruct (JLS_SOURCE_COUNT <=? sg_src d0); [discriminate H|].
  destruct (negb (existsb (N.eqb (sg_src d0)) (wm_st_srcs st))); [discriminate H|].
  destruct (wm_find_sig st (sg_id d0)); [discriminate H|].
  destruct (negb ((sg_type d0 =? JLS_SIGNAL_TYPE_FSR) || (sg_type d0 =? JLS_SIGNAL_TYPE_VSR))); [discriminate H|].
  destruct (negb (wm_str_fits (sg_name d0) && wm_str_fits (sg_units d0))); [discriminate H|].
  destruct (wm_dt_valid (sg_dtype d0)); [|discriminate H]. split; [reflexivity|exact Hid].
Qed.

(* what jls_core_signal_def_align guarantees, in the form the refinement theorems ask for *)
Lemma cmp_align_guards : forall d0 d, wm_dt_valid (sg_dtype d0) = true -> wm_sig_align d0 = Some d ->
  let w := dt_bits (sg_dtype d) in
  sg_id d = sg_id d0 /\ 0 < sg_spd d /\ (w < 8 \/ w mod 8 = 0) /\ 0 < w /\
  0 < wm_fill_buf_samples (sg_dtype d) /\
  32 * sg_eps d + 16 < 4294967296 /\ 8 * sg_sumdf d + 16 < 4294967296 /\
  16 + (sg_spd d * w + 7) / 8 < 4294967296 /\
  (sg_eps d * sg_sdf d < 4294967296 -> py_consistent (rf_pd d)).
Proof.
  intros d0 d Hv H. pose proof (sf_dt_valid_bits _ Hv) as Hw. cbv zeta in Hw.
  unfold wm_sig_align in H. set (w0 := dt_bits (sg_dtype d0)) in *.
  assert (Hdef : wm_has_defaults w0 = true).
  { unfold wm_has_defaults. destruct Hw as [Hw|[Hw|[Hw|[Hw|[Hw|[Hw|Hw]]]]]]; rewrite Hw; reflexivity. }
  rewrite Hdef in H.
  set (mult := if w0 =? 24 then 32 else SAMPLE_SIZE_BYTES_MAX * 8 / w0) in H.
  assert (Hmult : 0 < mult).
  { subst mult. unfold SAMPLE_SIZE_BYTES_MAX. destruct Hw as [Hw|[Hw|[Hw|[Hw|[Hw|[Hw|Hw]]]]]]; rewrite Hw; reflexivity. }
  destruct (wm_round_up (N.max (wm_dflt w0 (sg_sdf d0) (wm_default_of w0 1)) SAMPLE_DECIMATE_FACTOR_MIN) mult) as [sdf|] eqn:E1; [|discriminate].
  set (sumdf := N.max (wm_dflt w0 (sg_sumdf d0) (wm_default_of w0 3)) SUMMARY_DECIMATE_FACTOR_MIN) in *.
  destruct (wm_round_up (N.max (wm_dflt w0 (sg_eps d0) (wm_default_of w0 2)) ENTRIES_PER_SUMMARY_MIN) sumdf) as [eps|] eqn:E2; [|discriminate].
  destruct (wm_round_up (N.max (wm_dflt w0 (sg_spd d0) (wm_default_of w0 0)) SAMPLES_PER_DATA_MIN) sdf) as [spd2|] eqn:E3; [|discriminate].
  cbv zeta in H.
  set (epd := wm_fit_epd (N.to_nat (N.min (spd2 / sdf) eps)) eps (N.min (spd2 / sdf) eps)) in *.
  destruct (N.ltb_spec (wm_u32_max / 2) (sdf * epd * w0 / 8)) as [|Hb1]; [discriminate H|].
  destruct (N.ltb_spec (wm_u32_max / 2) (eps * JLS_SUMMARY_FSR_COUNT * 8)) as [|Hb2]; [discriminate H|].
  injection H as <-. cbn [sg_id sg_spd sg_sdf sg_eps sg_sumdf sg_dtype]. fold w0.
  destruct (cmp_round_up_mod _ _ _ Hmult E1) as (_ & Hsdf & _). unfold SAMPLE_DECIMATE_FACTOR_MIN in Hsdf.
  assert (Hsumdf : 10 <= sumdf) by (subst sumdf; unfold SUMMARY_DECIMATE_FACTOR_MIN; lia).
  assert (Hs0 : 0 < sumdf) by lia.
  destruct (cmp_round_up_mod _ _ _ Hs0 E2) as (Hem & Heps & _). unfold ENTRIES_PER_SUMMARY_MIN in Heps.
  assert (Hepd : 1 <= epd) by apply sf_fit_epd_pos.
  assert (Hed : eps mod epd = 0) by apply cmp_fit_epd_div.
  unfold wm_u32_max, JLS_SUMMARY_FSR_COUNT in *. change (4294967295 / 2) with 2147483647 in *.
  assert (Heps0 : 0 < eps) by lia.
  assert (Hsle : sumdf <= eps).
  { pose proof (N.div_mod eps sumdf ltac:(lia)) as Hdm. rewrite Hem in Hdm. destruct (eps / sumdf) as [|q] eqn:Eq; [lia|]. nia. }
  split; [reflexivity|]. split; [nia|].
  split. { destruct Hw as [Hw|[Hw|[Hw|[Hw|[Hw|[Hw|Hw]]]]]]; rewrite Hw; [left; lia|left; lia|right; reflexivity|right; reflexivity|right; reflexivity|right; reflexivity|right; reflexivity]. }
  split; [lia|].
  split.
  { unfold wm_fill_buf_samples. destruct (sg_dtype d0 =? JLS_DATATYPE_F32); [reflexivity|]. destruct (sg_dtype d0 =? JLS_DATATYPE_F64); [reflexivity|].
    fold w0. destruct Hw as [Hw|[Hw|[Hw|[Hw|[Hw|[Hw|Hw]]]]]]; rewrite Hw; reflexivity. }
  split; [lia|]. split; [lia|].
  split.
  { clear Hb2. generalize dependent (sdf * epd * w0). intros X Hb1.
    pose proof (N.div_mod X 8 ltac:(discriminate)) as Hdm. pose proof (N.mod_lt X 8 ltac:(discriminate)).
    assert ((X + 7) / 8 < X / 8 + 2); [|lia].
    apply N.div_lt_upper_bound; [discriminate|]. lia. }
  intro Hprod. unfold py_consistent, rf_pd. cbn [py_spd py_sdf py_eps py_sumdf sg_spd sg_sdf sg_eps sg_sumdf].
  split; [lia|]. split; [nia|]. split; [lia|]. split; [lia|].
  split. { rewrite <- N2Z.inj_mod. rewrite N.mul_comm, N.mod_mul by lia. reflexivity. }
  split. { rewrite <- N2Z.inj_div, N.mul_comm, N.div_mul by lia. rewrite <- N2Z.inj_mod, Hed. reflexivity. }
  split; [rewrite <- N2Z.inj_mod, Hem; reflexivity|].
  change (2 ^ 32)%Z with 4294967296%Z. nia.
Qed.

(* a block is a whole number of bytes *)
Lemma cmp_align_block_bytes : forall d0 d, wm_dt_valid (sg_dtype d0) = true -> wm_sig_align d0 = Some d ->
  (sg_spd d * dt_bits (sg_dtype d)) mod 8 = 0.
Proof.
  intros d0 d Hv H. pose proof (sf_dt_valid_bits _ Hv) as Hw. cbv zeta in Hw.
  unfold wm_sig_align in H. set (w0 := dt_bits (sg_dtype d0)) in *.
  assert (Hdef : wm_has_defaults w0 = true).
  { unfold wm_has_defaults. destruct Hw as [Hw|[Hw|[Hw|[Hw|[Hw|[Hw|Hw]]]]]]; rewrite Hw; reflexivity. }
  rewrite Hdef in H.
  set (mult := if w0 =? 24 then 32 else SAMPLE_SIZE_BYTES_MAX * 8 / w0) in H.
  assert (Hmult : 0 < mult /\ (mult * w0) mod 8 = 0).
  { subst mult. unfold SAMPLE_SIZE_BYTES_MAX. destruct Hw as [Hw|[Hw|[Hw|[Hw|[Hw|[Hw|Hw]]]]]]; rewrite Hw; split; reflexivity. }
  destruct Hmult as (Hmult & Hm8).
  destruct (wm_round_up (N.max (wm_dflt w0 (sg_sdf d0) (wm_default_of w0 1)) SAMPLE_DECIMATE_FACTOR_MIN) mult) as [sdf|] eqn:E1; [|discriminate].
  set (sumdf := N.max (wm_dflt w0 (sg_sumdf d0) (wm_default_of w0 3)) SUMMARY_DECIMATE_FACTOR_MIN) in *.
  destruct (wm_round_up (N.max (wm_dflt w0 (sg_eps d0) (wm_default_of w0 2)) ENTRIES_PER_SUMMARY_MIN) sumdf) as [eps|] eqn:E2; [|discriminate].
  destruct (wm_round_up (N.max (wm_dflt w0 (sg_spd d0) (wm_default_of w0 0)) SAMPLES_PER_DATA_MIN) sdf) as [spd2|] eqn:E3; [|discriminate].
  cbv zeta in H.
  set (epd := wm_fit_epd (N.to_nat (N.min (spd2 / sdf) eps)) eps (N.min (spd2 / sdf) eps)) in *.
  destruct (N.ltb_spec (wm_u32_max / 2) (sdf * epd * w0 / 8)) as [|Hb1]; [discriminate H|].
  destruct (N.ltb_spec (wm_u32_max / 2) (eps * JLS_SUMMARY_FSR_COUNT * 8)) as [|Hb2]; [discriminate H|].
  injection H as <-. cbn [sg_spd sg_dtype]. fold w0.
  destruct (cmp_round_up_mod _ _ _ Hmult E1) as (Hsm & _).
  pose proof (N.div_mod sdf mult ltac:(lia)) as Hdm. rewrite Hsm, N.add_0_r in Hdm.
  pose proof (N.div_mod (mult * w0) 8 ltac:(discriminate)) as Hdm8. rewrite Hm8, N.add_0_r in Hdm8.
  set (q := sdf / mult) in *. set (k := mult * w0 / 8) in *.
  assert (E : sdf * epd * w0 = q * epd * k * 8).
  { rewrite Hdm. replace (mult * q * epd * w0) with (q * epd * (mult * w0)) by ring. rewrite Hdm8. ring. }
  rewrite E.
  apply N.mod_mul. discriminate.
Qed.

(* the product is not bounded by the align code: u1, sample_decimate_factor 2^31, entries_per_summary 2^20 is accepted
   (stored: samples_per_data 2^31, 2^28 bytes per block), and entries_per_summary * sample_decimate_factor = 2^51 *)
Definition cmp_big_def : sigdef :=
  {| sg_id := 5; sg_src := 3; sg_type := JLS_SIGNAL_TYPE_FSR; sg_dtype := JLS_DATATYPE_U1; sg_rate := 1000;
     sg_spd := 2147483648; sg_sdf := 2147483648; sg_eps := 1048576; sg_sumdf := 10; sg_adf := 10; sg_udf := 10;
     sg_name := SNull; sg_units := SNull |}.
Lemma cmp_align_product_unbounded :
  wm_dt_valid (sg_dtype cmp_big_def) = true /\
  exists d, wm_sig_align cmp_big_def = Some d /\ sg_sdf d = 2147483648 /\ sg_eps d = 1048580 /\ sg_spd d = 2147483648 /\
    4294967296 <= sg_eps d * sg_sdf d /\ py_consistentb (rf_pd d) = false.
Proof. split; [vm_compute; reflexivity|]. eexists. split; [vm_compute; reflexivity|]. repeat split; vm_compute; congruence. Qed.

(* the same from the acceptance of the definition by the byte-exact model *)
Lemma cmp_accept_guards : forall st d0 d, snd (wm_api_signal_def st d0) = 0 -> wm_sig_align d0 = Some d ->
  let w := dt_bits (sg_dtype d) in
  sg_id d < 256 /\ 0 < sg_spd d /\ (w < 8 \/ w mod 8 = 0) /\ 0 < w /\
  0 < wm_fill_buf_samples (sg_dtype d) /\
  32 * sg_eps d + 16 < 4294967296 /\ 8 * sg_sumdf d + 16 < 4294967296 /\
  16 + (sg_spd d * w + 7) / 8 < 4294967296 /\
  (sg_eps d * sg_sdf d < 4294967296 -> py_consistent (rf_pd d)).
Proof.
  intros st d0 d Hrc Hal. destruct (cmp_accept_valid st d0 Hrc) as (Hv & Hid).
  destruct (cmp_align_guards d0 d Hv Hal) as (Eid & Rest). cbv zeta. split; [rewrite Eid; exact Hid|exact Rest].
Qed.
