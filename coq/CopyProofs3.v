(* C17, part 3: acceptance does not depend on the interleaving.
   [cp_static] collects the order-independent facts about an accepted program; together with definitions-before-use
   ([cp_dbu]) they give back acceptance ([cp_wf_of_static]). *)
From Coq Require Import NArith ZArith List Bool Lia ZifyBool ZifyN ZifyNat.
From JLS Require Import Generated Spec SpecProofs CopyModel CopyProofs CopyProofs2.
Import ListNotations.
Local Open Scope N_scope.

(* ------------------------------------------------------------------ *)
(* membership in a track = presence of the call                         *)

Lemma cp_in_srcs : forall d p, In d (cp_srcs p) <-> In (WSrc d) p.
Proof.
  intros d p. unfold cp_srcs. rewrite in_flat_map. split.
  - intros (o & Ho & Hin). destruct o; cbn in Hin; try contradiction. destruct Hin as [<-|[]]. exact Ho.
  - intros H. exists (WSrc d). split; [exact H|left; reflexivity].
Qed.

Lemma cp_in_sigs : forall d p, In d (cp_sigs p) <-> In (WSig d) p.
Proof.
  intros d p. unfold cp_sigs. rewrite in_flat_map. split.
  - intros (o & Ho & Hin). destruct o; cbn in Hin; try contradiction. destruct Hin as [<-|[]]. exact Ho.
  - intros H. exists (WSig d). split; [exact H|left; reflexivity].
Qed.

Lemma cp_in_uds : forall u p, In u (cp_uds p) <-> In (WUd u) p.
Proof.
  intros u p. unfold cp_uds. rewrite in_flat_map. split.
  - intros (o & Ho & Hin). destruct o; cbn in Hin; try contradiction. destruct Hin as [<-|[]]. exact Ho.
  - intros H. exists (WUd u). split; [exact H|left; reflexivity].
Qed.

Lemma cp_in_fsr : forall i sid smp p, In (sid, smp) (cp_fsr i p) <-> In (WFsr i sid smp) p.
Proof.
  intros i sid smp p. unfold cp_fsr. rewrite in_flat_map. split.
  - intros (o & Ho & Hin). destruct o; cbn in Hin; try contradiction.
    destruct (sig =? i) eqn:E; [|contradiction]. apply N.eqb_eq in E. subst sig.
    destruct Hin as [Hin|[]]. injection Hin as <- <-. exact Ho.
  - intros H. exists (WFsr i sid smp). split; [exact H|]. rewrite N.eqb_refl. left. reflexivity.
Qed.

Lemma cp_in_annos : forall i a p, In a (cp_annos i p) <-> In (WAnno i a) p.
Proof.
  intros i a p. unfold cp_annos. rewrite in_flat_map. split.
  - intros (o & Ho & Hin). destruct o; cbn in Hin; try contradiction.
    destruct (sig =? i) eqn:E; [|contradiction]. apply N.eqb_eq in E. subst sig.
    destruct Hin as [<-|[]]. exact Ho.
  - intros H. exists (WAnno i a). split; [exact H|]. rewrite N.eqb_refl. left. reflexivity.
Qed.

Lemma cp_in_utcs : forall i sid utc p, In (sid, utc) (cp_utcs i p) <-> In (WUtc i sid utc) p.
Proof.
  intros i sid utc p. unfold cp_utcs. rewrite in_flat_map. split.
  - intros (o & Ho & Hin). destruct o; cbn in Hin; try contradiction.
    destruct (sig =? i) eqn:E; [|contradiction]. apply N.eqb_eq in E. subst sig.
    destruct Hin as [Hin|[]]. injection Hin as <- <-. exact Ho.
  - intros H. exists (WUtc i sid utc). split; [exact H|]. rewrite N.eqb_refl. left. reflexivity.
Qed.

Lemma cp_in_omits : forall i en p, In en (cp_omits i p) <-> In (WOmit i en) p.
Proof.
  intros i en p. unfold cp_omits. rewrite in_flat_map. split.
  - intros (o & Ho & Hin). destruct o; cbn in Hin; try contradiction.
    destruct (sig =? i) eqn:E; [|contradiction]. apply N.eqb_eq in E. subst sig.
    destruct Hin as [<-|[]]. exact Ho.
  - intros H. exists (WOmit i en). split; [exact H|]. rewrite N.eqb_refl. left. reflexivity.
Qed.

Lemma cp_nonempty_in : forall (A : Type) (l : list A), l <> [] -> exists x, In x l.
Proof. intros A [|x l] H; [congruence|exists x; left; reflexivity]. Qed.

Lemma cp_in_nonempty : forall (A : Type) (l : list A) x, In x l -> l <> [].
Proof. intros A l x H ->. destruct H. Qed.

(* ------------------------------------------------------------------ *)
(* the static facts                                                     *)

Definition cp_src_ok (d : srcdef) : bool :=
  (so_id d <? JLS_SOURCE_COUNT) && str_fits (so_name d) && str_fits (so_vendor d) && str_fits (so_model d)
  && str_fits (so_version d) && str_fits (so_serial d).
Definition cp_sig_ok (d : sigdef) : bool :=
  (sg_id d <? JLS_SIGNAL_COUNT) && (sg_src d <? JLS_SOURCE_COUNT)
  && ((sg_type d =? JLS_SIGNAL_TYPE_FSR) || (sg_type d =? JLS_SIGNAL_TYPE_VSR))
  && dt_valid (sg_dtype d)
  && ((sg_type d =? JLS_SIGNAL_TYPE_VSR) || negb (sg_rate d =? 0))
  && str_fits (sg_name d) && str_fits (sg_units d).
Definition cp_anno_ok (a : anno) : bool := stype_ok_anno (an_stype a) && (an_type a <? 256).

Definition cp_fsr_used (i : N) (w : list wop) : Prop := cp_fsr i w <> [] \/ cp_utcs i w <> [] \/ cp_omits i w <> [].

Record cp_static (w : list wop) : Prop := {
  cs_src : forall d, In d (cp_srcs w) -> cp_src_ok d = true;
  cs_src_nd : NoDup (0 :: map so_id (cp_srcs w));
  cs_sig : forall d, In d (cp_sigs w) -> cp_sig_ok d = true;
  cs_sig_nd : NoDup (0 :: map sg_id (cp_sigs w));
  cs_fsr : forall i, cp_fsr_used i w -> forall d, In d (cp_defs w) -> sg_id d = i -> sg_type d = JLS_SIGNAL_TYPE_FSR;
  cs_anno : forall i a, In a (cp_annos i w) -> cp_anno_ok a = true;
  cs_ud : forall u, In u (cp_uds w) -> stype_ok_ud (ud_stype u) = true }.

(* every call of an accepted program passed its check against the calls before it *)
Lemma cp_wf_split : forall q pre0, cp_wf_from pre0 q = true ->
  forall pre o post, q = pre ++ o :: post -> cp_wf_at (pre0 ++ pre) o = true.
Proof.
  induction q as [|x r IH]; intros pre0 W pre o post E.
  - destruct pre; discriminate.
  - cbn [cp_wf_from] in W. apply andb_prop in W. destruct W as [W1 W2].
    destruct pre as [|y pre]; cbn [app] in E; injection E as -> ->.
    + rewrite app_nil_r. exact W1.
    + specialize (IH (pre0 ++ [y]) W2 pre o post eq_refl). rewrite <- app_assoc in IH. exact IH.
Qed.

Lemma cp_wf_in : forall q o, cp_wf q = true -> In o q ->
  exists pre post, q = pre ++ o :: post /\ cp_wf_at pre o = true.
Proof.
  intros q o W Hin. apply in_split in Hin. destruct Hin as (pre & post & E).
  exists pre, post. split; [exact E|]. apply (cp_wf_split q [] W pre o post E).
Qed.

Lemma cp_defs_mono : forall pre x d, In d (cp_defs pre) -> In d (cp_defs (pre ++ x)).
Proof. intros pre x d H. rewrite cp_defs_app. apply in_or_app. left. exact H. Qed.

Lemma cp_src_ids_nodup : forall q pre, NoDup (0 :: map so_id (cp_srcs pre)) -> cp_wf_from pre q = true ->
  NoDup (0 :: map so_id (cp_srcs (pre ++ q))).
Proof.
  induction q as [|o r IH]; intros pre ND W; [rewrite app_nil_r; exact ND|].
  cbn [cp_wf_from] in W. apply andb_prop in W. destruct W as [W1 W2].
  replace (pre ++ o :: r) with ((pre ++ [o]) ++ r) by (rewrite <- app_assoc; reflexivity).
  apply IH; [|exact W2].
  destruct o; cp_snoc; try exact ND.
  rewrite map_app. cbn [map]. change (NoDup ((0 :: map so_id (cp_srcs pre)) ++ [so_id d])).
  apply cp_nodup_snoc; [exact ND|]. cbn [cp_wf_at] in W1.
  destruct (cp_mem (so_id d) (0 :: map so_id (cp_srcs pre))) eqn:M.
  - rewrite !andb_false_r in W1. cbn [andb] in W1. discriminate.
  - apply cp_mem_false. exact M.
Qed.

Theorem cp_static_of_wf : forall a, cp_wf a = true -> cp_static a.
Proof.
  intros a W. destruct (cp_wf_ok a W) as (_ & _ & _ & [ND Hun]).
  constructor.
  - intros d Hd. apply cp_in_srcs in Hd. destruct (cp_wf_in a _ W Hd) as (pre & post & E & Wat).
    cbn [cp_wf_at] in Wat. unfold cp_src_ok. rewrite !andb_true_iff in Wat. rewrite !andb_true_iff. tauto.
  - apply (cp_src_ids_nodup a []); [|exact W]. cbn. constructor; [intros []|constructor].
  - intros d Hd. apply cp_in_sigs in Hd. destruct (cp_wf_in a _ W Hd) as (pre & post & E & Wat).
    cbn [cp_wf_at] in Wat. unfold cp_sig_ok. rewrite !andb_true_iff in Wat. rewrite !andb_true_iff. tauto.
  - rewrite <- cp_defs_ids. exact ND.
  - intros i Hu d Hd Hid.
    assert (Hpre : exists pre post, a = pre ++ post /\ cp_is_fsr pre i = true).
    { destruct Hu as [Hu|[Hu|Hu]]; apply cp_nonempty_in in Hu; destruct Hu as [x Hx].
      - destruct x as [sid smp]. apply cp_in_fsr in Hx. destruct (cp_wf_in a _ W Hx) as (pre & post & E & Wat).
        exists pre, (WFsr i sid smp :: post). split; [exact E|exact Wat].
      - destruct x as [sid utc]. apply cp_in_utcs in Hx. destruct (cp_wf_in a _ W Hx) as (pre & post & E & Wat).
        exists pre, (WUtc i sid utc :: post). split; [exact E|exact Wat].
      - apply cp_in_omits in Hx. destruct (cp_wf_in a _ W Hx) as (pre & post & E & Wat).
        exists pre, (WOmit i x :: post). split; [exact E|exact Wat]. }
    destruct Hpre as (pre & post & E & Hf). unfold cp_is_fsr in Hf.
    destruct (cp_find_def pre i) as [d0|] eqn:F; [|discriminate].
    apply cp_find_def_in in F. destruct F as [F1 F2]. apply N.eqb_eq in Hf.
    assert (d = d0); [|subst d0; exact Hf].
    apply (cp_nodup_inj sigdef sg_id (cp_defs a)); try assumption; [|congruence].
    rewrite E. apply cp_defs_mono. exact F1.
  - intros i an Hin. apply cp_in_annos in Hin. destruct (cp_wf_in a _ W Hin) as (pre & post & E & Wat).
    cbn [cp_wf_at] in Wat. destruct (cp_find_def pre i); [exact Wat|discriminate].
  - intros u Hin. apply cp_in_uds in Hin. destruct (cp_wf_in a _ W Hin) as (pre & post & E & Wat). exact Wat.
Qed.

(* the source of every accepted signal definition is defined (somewhere before it) *)
Lemma cp_sig_src_defined : forall a d, cp_wf a = true -> In d (cp_sigs a) -> In (sg_src d) (0 :: map so_id (cp_srcs a)).
Proof.
  intros a d W Hd. apply cp_in_sigs in Hd. destruct (cp_wf_in a _ W Hd) as (pre & post & E & Wat).
  cbn [cp_wf_at] in Wat. rewrite !andb_true_iff in Wat.
  assert (M : cp_mem (sg_src d) (0 :: map so_id (cp_srcs pre)) = true) by tauto.
  apply cp_mem_in in M. destruct M as [H0|H]; [left; exact H0|right].
  rewrite E, cp_srcs_app, map_app. apply in_or_app. left. exact H.
Qed.

(* ------------------------------------------------------------------ *)
(* static facts + definitions before use = acceptance                   *)

Lemma cp_nodup_mid : forall (l1 l2 : list N) x, NoDup (l1 ++ x :: l2) -> ~ In x l1.
Proof.
  intros l1 l2 x ND Hin. apply NoDup_remove_2 in ND. apply ND. apply in_or_app. left. exact Hin.
Qed.

Lemma cp_wf_of_static_from : forall w, cp_static w ->
  forall q pre, w = pre ++ q -> cp_dbu_from pre q = true -> cp_wf_from pre q = true.
Proof.
  intros w S. induction q as [|o r IH]; intros pre E D; [reflexivity|].
  cbn [cp_dbu_from] in D. apply andb_prop in D. destruct D as [D1 D2].
  cbn [cp_wf_from]. rewrite (IH (pre ++ [o])); [|rewrite <- app_assoc; exact E|exact D2].
  rewrite andb_true_r.
  assert (Hin : In o w) by (rewrite E; apply in_or_app; right; left; reflexivity).
  assert (Hdefs : forall i, cp_mem i (0 :: map sg_id (cp_sigs pre)) = true ->
                  exists d0, cp_find_def pre i = Some d0 /\ In d0 (cp_defs w) /\ sg_id d0 = i).
  { intros i M. apply cp_mem_in in M. rewrite <- cp_defs_ids in M. apply cp_find_def_ids in M.
    destruct M as (d0 & F). exists d0. split; [exact F|]. apply cp_find_def_in in F. destruct F as [F1 F2].
    split; [|exact F2]. rewrite E. apply cp_defs_mono. exact F1. }
  destruct o as [d|d|i sid smp|i en|i a|i sid utc|u|]; cbn [cp_wf_at cp_dbu_at] in *.
  - assert (Hok : cp_src_ok d = true) by (apply (cs_src w S); apply cp_in_srcs; exact Hin).
    assert (Hnew : cp_mem (so_id d) (0 :: map so_id (cp_srcs pre)) = false).
    { apply cp_mem_false. pose proof (cs_src_nd w S) as ND. rewrite E, cp_srcs_app, map_app in ND.
      cbn [cp_srcs flat_map app map] in ND.
      apply (cp_nodup_mid (0 :: map so_id (cp_srcs pre)) _ _ ND). }
    unfold cp_src_ok in Hok. rewrite Hnew. cbn [negb]. rewrite !andb_true_iff in Hok. rewrite !andb_true_iff. tauto.
  - assert (Hok : cp_sig_ok d = true) by (apply (cs_sig w S); apply cp_in_sigs; exact Hin).
    assert (Hnew : cp_mem (sg_id d) (0 :: map sg_id (cp_sigs pre)) = false).
    { apply cp_mem_false. pose proof (cs_sig_nd w S) as ND. rewrite E, cp_sigs_app, map_app in ND.
      cbn [cp_sigs flat_map app map] in ND.
      apply (cp_nodup_mid (0 :: map sg_id (cp_sigs pre)) _ _ ND). }
    unfold cp_sig_ok in Hok. rewrite Hnew. cbn [negb]. rewrite !andb_true_iff in Hok. rewrite !andb_true_iff. tauto.
  - destruct (Hdefs i D1) as (d0 & F & F1 & F2). unfold cp_is_fsr. rewrite F. apply N.eqb_eq.
    apply (cs_fsr w S i); try assumption. left. apply (cp_in_nonempty _ _ (sid, smp)). apply cp_in_fsr. exact Hin.
  - destruct (Hdefs i D1) as (d0 & F & F1 & F2). unfold cp_is_fsr. rewrite F. apply N.eqb_eq.
    apply (cs_fsr w S i); try assumption. right. right. apply (cp_in_nonempty _ _ en). apply cp_in_omits. exact Hin.
  - destruct (Hdefs i D1) as (d0 & F & F1 & F2). rewrite F.
    apply (cs_anno w S i a). apply cp_in_annos. exact Hin.
  - destruct (Hdefs i D1) as (d0 & F & F1 & F2). unfold cp_is_fsr. rewrite F. apply N.eqb_eq.
    apply (cs_fsr w S i); try assumption. right. left. apply (cp_in_nonempty _ _ (sid, utc)). apply cp_in_utcs. exact Hin.
  - apply (cs_ud w S). apply cp_in_uds. exact Hin.
  - reflexivity.
Qed.

Theorem cp_wf_of_static : forall q, cp_static q -> cp_dbu q = true -> cp_wf q = true.
Proof. intros q S D. apply (cp_wf_of_static_from q S q []); [reflexivity|exact D]. Qed.
