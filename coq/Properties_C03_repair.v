(* C03 (reader side) - "... and never exposes data that was not written": WHAT THE REPAIR-ON-OPEN WRITES.
   Model: coq/RepairRaw.v + coq/RepairModel.v, `rp_open summ1 summN f` = jls_rd_open on the file with bytes f, its
   backend calls rp_events (byte-exact correspondence with the C at /repo cf5fc54: tools/props/RP.py).  summ1 / summN
   are the floating-point summary oracles: every theorem holds for ALL oracles and ALL byte strings f.

   rw_check strict f pos evs (RepairWo.v) classifies the events of an open, oldest first; it accepts exactly
     (e) no event at all, or only the 32-byte file header at offset 0 carrying the current file length, or
     (a) ONE truncation to T = pos + 32 + disk length of the chunk at pos, pos = rw_pos f = where the backward scan of
         the open stopped (the last complete chunk), then
     (g) the re-write of that last chunk: its header re-encoded at pos, its payload with the identical bytes of f at
         pos + 32, zero pad + CRC-32C of that payload (nothing but the header when the payload is empty), then any number of
     (b) 32-byte in-place header writes strictly inside the file: a CRC-consistent header image whose bytes 8..27
         (item_prev, tag, rsv0, chunk_meta, payload_length, payload_prev_length) are those of a CRC-valid header that stood at
         that offset in the given file or in one of the versions of it during this open: only item_next and crc32 change
         (jls_core_update_chunk_header, jls_core_update_item_head); strict = false also accepts bytes 8..27 all zero,
     (c) in-place writes of at most 128 bytes (strict: exactly 128) at o + 32 where a CRC-valid header with that
         payload_length stands / stood at o, the given file has a header of chunk kind HEAD (tag & 7 = 1) with payload_length
         128 at o, and o + 168 <= file length - each immediately followed by zero pad + CRC-32C of exactly those bytes
         (jls_track_wr_head on an existing head chunk),
     (d) appends at exactly the current end of the file of complete chunks: a CRC-valid 32-byte header with item_next 0
         and tag TRACK_FSR_INDEX or TRACK_FSR_SUMMARY, a non-empty payload of the length in the header, zero pad + CRC; or
         the 32 bytes of an END chunk header with payload_length 0,
     (e) last the 32-byte file header at offset 0 carrying the length of the file at that moment.
   No fsync, no second truncation, no write after the file header; in particular no DATA / annotation / UTC / user-data /
   definition chunk is appended, no append leaves a hole, and the only write into the payload of a chunk that is not a
   HEAD chunk is the re-write (g) of the last chunk with its own bytes.

   Guards of C03_repair_writes_classified (each excludes a class of byte strings no writer produces; see the _refuted
   statements and the report):
     rp_fault = 0                  the model stays in its domain
     rw_heads_below f              every HEAD chunk registered by jls_core_scan_signals lies completely below T
     rp_rc not PARAMETER_INVALID / NOT_SUPPORTED
                                   jls_core_repair_fsr did not give up: when it does, jls_rd_open -> jls_rd_close ->
                                   jls_fsr_close writes INDEX / SUMMARY chunks WHERE THE RAW STANDS, over whatever chunks
                                   follow (C03_repair_error_path_refuted; the C does the same: report)
   Only `exact` + Print Assumptions here; proofs in RepairWo*.v. *)
From Coq Require Import NArith List Bool.
From JLS Require Import Generated CrcDefs Format WriteOnce WmRaw WmCore WmFsr WmProofs WmWriteOnce RepairRaw RepairModel
  RepairProofsData RepairWo RepairWo2 RepairWo8 RepairWo10 RepairWo11 RepairWo12 RepairWo13 RepairWo14 RepairWoData.
Import ListNotations.
Local Open Scope N_scope.

(* ---------------------------------------------------------------- goal 1: classification of the repair's writes *)
Theorem C03_repair_writes_classified :
  forall (summ1 : N -> list N -> wm_sentry) (summN : bool -> list wm_sentry -> wm_sentry) (f : list N),
  rp_fault (rp_open summ1 summN f) = 0 -> rw_heads_below f = true ->
  rp_rc (rp_open summ1 summN f) <> JLS_ERROR_PARAMETER_INVALID -> rp_rc (rp_open summ1 summN f) <> JLS_ERROR_NOT_SUPPORTED ->
  rw_check false f (rw_pos f) (rp_events (rp_open summ1 summN f)) = true.
Proof. exact ro_open_classified. Qed.
Print Assumptions C03_repair_writes_classified.

(* the strict classification (no all-zero header, head tables of exactly 128 bytes) implies the lenient one *)
Theorem C03_repair_strict_is_classified : forall (f : list N) (pos : N) (evs : list wm_entry),
  rw_check true f pos evs = true -> rw_check false f pos evs = true.
Proof. exact rw_check_strict. Qed.
Print Assumptions C03_repair_strict_is_classified.

(* Examples on real crash images (the writer stopped between two complete writes): the strict classification holds.
   rpp_crash_image: annotations + user data, 10 events.  rwd_fsr_image: a u8 FSR signal with one INDEX / SUMMARY pair on
   disk, 34 events, among them the appended INDEX / SUMMARY chunks of levels 1 and 2, 28 chunks in the file. *)
Example C03_repair_classified_crash_image :
  let r := rp_open wm_zero_summ1 wm_zero_summN rpp_crash_image in
  rp_fault r = 0 /\ rp_rc r = 0 /\ rw_pos rpp_crash_image = 912 /\ rw_T rpp_crash_image 912 = 952 /\ rw_heads_below rpp_crash_image = true /\
  rw_check true rpp_crash_image 912 (rp_events r) = true /\ rs_all_clear rpp_crash_image 912 (rp_events r) = true /\ length (rp_events r) = 10%nat.
Proof. exact rs_ex_crash_image. Qed.
Example C03_repair_classified_fsr_image :
  let r := rp_open wm_zero_summ1 wm_zero_summN rwd_fsr_image in
  rp_fault r = 0 /\ rp_rc r = 0 /\ rw_pos rwd_fsr_image = 2928 /\ rw_T rwd_fsr_image 2928 = 3016 /\ rw_heads_below rwd_fsr_image = true /\
  rw_check true rwd_fsr_image 2928 (rp_events r) = true /\ rs_all_clear rwd_fsr_image 2928 (rp_events r) = true /\
  length (rp_events r) = 34%nat /\ length (rs_chain (S (length rwd_fsr_image)) rwd_fsr_image 32) = 28%nat /\
  In (1696, fm_ch_fields (fm_sub 1696 32 rwd_fsr_image)) (rs_chain (S (length rwd_fsr_image)) rwd_fsr_image 32) /\
  fm_tag (fm_ch_fields (fm_sub 1696 32 rwd_fsr_image)) = JLS_TAG_TRACK_FSR_DATA.
Proof. exact rs_ex_fsr_image. Qed.

(* "every header rewrite keeps tag and payload_length" is FALSE for arbitrary byte strings: a file (2744 bytes: a real
   image that ends with its first FSR INDEX chunk, followed by a copy of a CRC-valid empty chunk of the same file) on which
   the open succeeds and overwrites the header of the INDEX chunk at 2576 with a header whose bytes 8..27 are zero (tag 0,
   payload_length 0).  jls_track_repair_pointers sets track->index_head[level].offset only; jls_core_repair_fsr breaks at
   "the chunk that follows is not this index's summary" before it loads index_head[level]; jls_fsr_close then links
   through the never-loaded header.  The C does the same (report). *)
Theorem C03_repair_zero_header_refuted :
  let r := rp_open wm_zero_summ1 wm_zero_summN rwd_forged_zero in
  rp_fault r = 0 /\ rp_rc r = 0 /\ rw_heads_below rwd_forged_zero = true /\
  rw_check true rwd_forged_zero (rw_pos rwd_forged_zero) (rp_events r) = false /\
  rw_check false rwd_forged_zero (rw_pos rwd_forged_zero) (rp_events r) = true /\
  (exists b, nth_error (rp_events r) 17 = Some (WmWrite 2576 b) /\ fm_sub 8 20 b = repeat 0 20 /\
             fm_tag (fm_ch_fields (fm_sub 2576 32 rwd_forged_zero)) = JLS_TAG_TRACK_FSR_INDEX).
Proof. exact rs_ex_forged_zero. Qed.
Print Assumptions C03_repair_zero_header_refuted.

(* the classification is FALSE on the error path of jls_core_repair_fsr: a file (3016 bytes: rwd_fsr_image with
   entry_size_bits 32 in its INDEX chunk and a recomputed payload CRC) on which jls_rd_open returns
   JLS_ERROR_PARAMETER_INVALID after it has written an FSR INDEX chunk header over the FSR DATA chunk at 2928 *)
Theorem C03_repair_error_path_refuted :
  let r := rp_open wm_zero_summ1 wm_zero_summN rwd_forged_esb in
  rp_fault r = 0 /\ rp_rc r = JLS_ERROR_PARAMETER_INVALID /\ rw_heads_below rwd_forged_esb = true /\
  rw_check false rwd_forged_esb (rw_pos rwd_forged_esb) (rp_events r) = false /\
  (exists b, nth_error (rp_events r) 16 = Some (WmWrite 2928 b) /\ nth 16 b 0 = JLS_TAG_TRACK_FSR_INDEX /\
             fm_tag (fm_ch_fields (fm_sub 2928 32 rwd_forged_esb)) = JLS_TAG_TRACK_FSR_DATA /\ 2928 + 32 < rp_len rwd_forged_esb).
Proof. exact rs_ex_forged_esb. Qed.
Print Assumptions C03_repair_error_path_refuted.

(* ---------------------------------------------------------------- goal 2: no chunk below the last one loses a byte *)
(* Event level (no model): events classified strictly; a chunk (o, h) of the given file that ends at or before pos;
   no write of the events straddles or enters its extent: every write ends at or before o, starts at or behind
   o + size, or is a 32-byte write exactly at o (rs_clear, decidable).  Then after the events every byte of its payload,
   pad and payload CRC is the given file's, and its header is a CRC-valid header with the same bytes 8..27. *)
Theorem C03_repair_chunk_bytes_preserved_events :
  forall (f : list N) (pos o : N) (h : fm_chunk_header),
  rw_hdr_at f o = Some h -> 32 <= o -> o + fm_chunk_size (fm_payload_length h) <= pos ->
  forall (evs : list wm_entry) (st' : rw_st),
  o + fm_chunk_size (fm_payload_length h) <= rp_len f ->
  In st' (rw_runs true f pos (rw_st0 f) evs) -> rs_clear o (fm_chunk_size (fm_payload_length h)) evs = true ->
  (forall i, o + 32 <= i -> i < o + fm_chunk_size (fm_payload_length h) -> nth (N.to_nat i) (rw_g st') 0 = nth (N.to_nat i) f 0) /\
  (exists h', rw_hdr_at (rw_g st') o = Some h' /\ rw_rest h' = rw_rest h).
Proof. exact rs_sound. Qed.
Print Assumptions C03_repair_chunk_bytes_preserved_events.

(* the same about the file jls_rd_open leaves (rp_after) *)
Theorem C03_repair_chunk_bytes_preserved :
  forall (summ1 : N -> list N -> wm_sentry) (summN : bool -> list wm_sentry -> wm_sentry) (f : list N) (o : N) (h : fm_chunk_header),
  let r := rp_open summ1 summN f in
  let size := fm_chunk_size (fm_payload_length h) in
  rw_check true f (rw_pos f) (rp_events r) = true ->
  rw_hdr_at f o = Some h -> 32 <= o -> o + size <= rw_pos f -> o + size <= rp_len f ->
  rs_clear o size (rp_events r) = true ->
  (forall i, o + 32 <= i -> i < o + size -> nth (N.to_nat i) (rp_after r) 0 = nth (N.to_nat i) f 0) /\
  (exists h', rw_hdr_at (rp_after r) o = Some h' /\ rw_rest h' = rw_rest h).
Proof. exact rs_open_preserved. Qed.
Print Assumptions C03_repair_chunk_bytes_preserved.

(* ... for every chunk of the chain from offset 32 that is not a HEAD chunk (kind HEAD with 128 bytes) and ends at or before
   the last chunk, when the decidable condition rs_all_clear holds (it does on the real images above; it says that the
   open's in-place writes start at chunk starts: no chunk embedded in another, links pointing to chunk starts) *)
Theorem C03_repair_chain_bytes_preserved :
  forall (summ1 : N -> list N -> wm_sentry) (summN : bool -> list wm_sentry -> wm_sentry) (f : list N),
  let r := rp_open summ1 summN f in
  rw_check true f (rw_pos f) (rp_events r) = true -> rs_all_clear f (rw_pos f) (rp_events r) = true ->
  forall o h, In (o, h) (rs_chain (S (length f)) f 32) -> rs_is_head h = false -> o + fm_chunk_size (fm_payload_length h) <= rw_pos f ->
    (forall i, o + 32 <= i -> i < o + fm_chunk_size (fm_payload_length h) -> nth (N.to_nat i) (rp_after r) 0 = nth (N.to_nat i) f 0) /\
    (exists h', rw_hdr_at (rp_after r) o = Some h' /\ rw_rest h' = rw_rest h).
Proof. exact rs_chain_preserved. Qed.
Print Assumptions C03_repair_chain_bytes_preserved.

(* which fields "bytes 8..27 unchanged" pins down: all but item_next (and the header CRC) *)
Theorem C03_repair_header_fields : forall h h' : fm_chunk_header, rw_rest h' = rw_rest h ->
  fm_item_prev h' mod 18446744073709551616 = fm_item_prev h mod 18446744073709551616 /\ fm_tag h' mod 256 = fm_tag h mod 256 /\
  fm_rsv0 h' mod 256 = fm_rsv0 h mod 256 /\ fm_chunk_meta h' mod 65536 = fm_chunk_meta h mod 65536 /\
  fm_payload_length h' mod 4294967296 = fm_payload_length h mod 4294967296 /\
  fm_payload_prev_length h' mod 4294967296 = fm_payload_prev_length h mod 4294967296.
Proof. exact rs_rest_fields. Qed.
Print Assumptions C03_repair_header_fields.

(* ---------------------------------------------------------------- goal 3: the write-once checker of C14 on the repair *)
(* checker level: a payload that is stored is never written again, not even with the same bytes: in a state that tracks a
   completed chunk at o which is not a HEAD chunk, an in-place write at o + 32 is rejected with WoR_tbl_not_head.  This is
   the ONE write of the repair the strict checker rejects: (g), "rewrite last full chunk" of reader.c, when that chunk has
   a payload and is not a HEAD chunk. *)
Theorem C03_repair_checker_rejects_payload_rewrite : forall (s : wo_st) (o : N) (x : wo_ext) (b : list N),
  wo_pending s = WoIdle -> wo_len s <> 0 -> o <> 0 -> o + 32 < wo_len s ->
  wo_find o (wo_exts s) = Some x -> wo_find (o + 32) (wo_exts s) = None ->
  fm_is_head_tag (fm_tag (wo_e_hdr x)) = false ->
  wo_step false s (WoWrite (o + 32) b) = inr WoR_tbl_not_head.
Proof. exact rq_payload_rewrite_rejected. Qed.
Print Assumptions C03_repair_checker_rejects_payload_rewrite.

(* on the real image: the 33 backend calls of the writer before the stop are accepted (10 appends, 5 links, 1 head table,
   1 file header) and produce the image; continued with the 10 events of the open, the checker stops at index 35 = the
   payload re-write (944, the 3 stored bytes); with the two events of that re-write left out it accepts the whole open
   (984 bytes, 11 appends, 6 links, 3 head tables, 2 file headers) *)
Example C03_repair_checker_on_crash_image :
  let evs := rq_evs (rp_events (rp_open wm_zero_summ1 wm_zero_summN rpp_crash_image)) in
  rq_counts (wo_run false wo_st0 0 rwd_crash_log) = inl (952, 10, 5, 1, 1) /\
  wo_file_after rwd_crash_log = rpp_crash_image /\
  wo_run false wo_st0 0 (rwd_crash_log ++ evs) = inr (35, WoR_tbl_not_head) /\
  nth_error evs 2 = Some (WoWrite 944 (fm_sub 944 3 rpp_crash_image)) /\
  rq_counts (wo_run false wo_st0 0 (rwd_crash_log ++ firstn 2 evs ++ skipn 4 evs)) = inl (984, 11, 6, 3, 2).
Proof. exact rq_ex_crash_image. Qed.

(* ---------------------------------------------------------------- goal 4: termination of the repair branch, PARTIAL *)
(* Properties_C03_open.v covers the scan phase and the opens that do not repair.  Here: the loop of jls_rd_open over
   jls_track_repair_pointers (all signals, all tracks: level walk + data walk + head table) does not exhaust the model's
   fuel.  Stated on the state of the model after that loop (w7), the model's steps from the scan result c written out.
   Guards: rp_links_forward f (the scan phase terminates: C03_scan_phase_terminates), rw_heads_below f, and
   rt_guard_b f (log of w7): in the given file and in every version of it that this loop produces, every CRC-valid chunk
   header image links forward by at least one header (item_next = 0 or offset + 32 <= item_next) - decidable on
   (file, events); that the repair's own writes keep this is NOT proved (a head table or an INDEX payload written by the
   repair could contain a CRC-valid header image with a backward link).
   MISSING: the two walks of jls_core_repair_fsr (rp_fsr_levels, rp_fsr_data).  Their fuel is computed from the file
   length before the walk while the walk appends chunks; a bound needs that a walk never continues into the chunks it
   appended (it stops there because their tag / level differ - classified, not used for a bound), and the same
   "first fault wins" bookkeeping as in RepairWo13.v for every writer-model function the walks call. *)
Theorem C03_repair_pointer_walks_terminate_partial :
  forall (f : list N) (c : rp_rd) (s1 : rp_io) (rc1 : N) (s2 s3 s5 : rp_io) (r6 : wm_raw) (h6 : fm_chunk_header),
  rp_scan f = inr c -> rp_links_forward f = true -> rw_heads_below f = true ->
  let pos := rp_offset (rp_r (rp_io_ c)) in
  rp_raw_open (rp_io_ c) true = (s1, rc1) -> rp_chunk_seek s1 pos = (s2, 0) -> rp_rd_chunk s2 = (s3, 0) ->
  let w1 := rp_w_set_io (rp_w0 c) s1 in
  let w4 := rp_bk_truncate (rp_w_set_io w1 s3) in
  rp_chunk_seek (rp_w_io w4) pos = (s5, 0) ->
  let w5 := rp_w_set_io w4 s5 in
  wm_raw_wr (wm_b_raw (rp_wm_base w5 0)) (wm_ck_hdr (rp_cur s5)) (rp_payload s5) = (r6, h6) ->
  let w6 := rp_commit w5 (wm_b_set_raw (rp_wm_base w5 0) r6) in
  let w6a := rp_w_set_io w6 (rp_io_set_cur (rp_w_io w6) {| wm_ck_offset := wm_ck_offset (rp_cur s5); wm_ck_hdr := h6 |}) in
  let w7 := rp_repair_all_pointers w6a in
  rt_guard_b f (rp_log w7) = true -> rp_flt (rp_w_io w7) <> RpF_fuel.
Proof. exact rt_open_pointer_walks_nf. Qed.
Print Assumptions C03_repair_pointer_walks_terminate_partial.

(* the hypotheses are satisfiable: the real crash image, with s1 := fst o1, rc1 := snd o1, s2 := fst o2, s3 := fst o3,
   s5 := fst o5, r6 := fst o6, h6 := snd o6; the log of w7 has 8 entries (truncation, 3 + 4 in-place writes) *)
Example C03_repair_pointer_walks_example :
  match rp_scan rpp_crash_image with
  | inr c =>
    let pos := rp_offset (rp_r (rp_io_ c)) in
    let o1 := rp_raw_open (rp_io_ c) true in
    let o2 := rp_chunk_seek (fst o1) pos in
    let o3 := rp_rd_chunk (fst o2) in
    let w4 := rp_bk_truncate (rp_w_set_io (rp_w_set_io (rp_w0 c) (fst o1)) (fst o3)) in
    let o5 := rp_chunk_seek (rp_w_io w4) pos in
    let w5 := rp_w_set_io w4 (fst o5) in
    let o6 := wm_raw_wr (wm_b_raw (rp_wm_base w5 0)) (wm_ck_hdr (rp_cur (fst o5))) (rp_payload (fst o5)) in
    let w6 := rp_commit w5 (wm_b_set_raw (rp_wm_base w5 0) (fst o6)) in
    let w6a := rp_w_set_io w6 (rp_io_set_cur (rp_w_io w6) {| wm_ck_offset := wm_ck_offset (rp_cur (fst o5)); wm_ck_hdr := snd o6 |}) in
    rp_links_forward rpp_crash_image = true /\ rw_heads_below rpp_crash_image = true /\
    snd o2 = 0 /\ snd o3 = 0 /\ snd o5 = 0 /\
    rt_guard_b rpp_crash_image (rp_log (rp_repair_all_pointers w6a)) = true /\
    length (rp_log (rp_repair_all_pointers w6a)) = 8%nat
  | inl _ => False
  end.
Proof. exact rt_ex_crash_image. Qed.
