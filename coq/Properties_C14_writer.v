(* C14 as a WRITER theorem: every backend log that the byte-exact model of the synchronous writer
   (WmRaw / WmCore / WmTs / WmFsr / WriterModel: raw.c, core.c, track.c, wr_ts.c, wr_fsr.c, writer.c; tied to the C
   by the byte-for-byte comparison of write logs, tools/props/WM.py) can emit is accepted by the STRICT write-once
   checker wo_check_log (WriteOnce.v; soundness in Properties_C14.v) - for every program (list of API calls, any
   arguments, accepted or rejected), for arbitrary summary oracles, with or without jls_wr_close, and for every
   prefix of the log.  Composed with the checker's soundness: the semantic write-once statement on file bytes.

   Guards (both are about the final state of the run, both decidable on a concrete run):
     wm_st_fault st = false     the model did not leave its domain (sticky flag of WmRaw.v: I/O error paths, NULL
                                track pointer, summary level 16, payload shorter than announced ...); after a fault
                                the model's log is not the C's
     wmw_bounded (wm_st_log st) every write is shorter than 2^32 bytes and ends below 2^64: the model's integers are
                                unbounded, the C's payload_length is uint32_t and offsets are int64_t; beyond the
                                bound the model's header fields are encoded modulo 2^32 / 2^64 while its payload is not
   wmw_evs turns the writer's log (newest first) into the checker's event list (oldest first).
   Proofs: WmWriteOnce.v (simulation writer state / checker state, raw and core layers), WmWriteOnce2.v (ts and fsr
   pyramids), WmWriteOnce3.v (API layer, state invariant, top-level theorems), WmWriteOnce4.v (compositions, example). *)
From Coq Require Import NArith ZArith List Bool.
From JLS Require Import Generated CrcDefs Spec Format WriteOnce WriteOnceProofs WmRaw WmCore WmTs WmFsr WriterModel WmProofs
                        WmWriteOnce WmWriteOnce2 WmWriteOnce3 WmWriteOnce4.
Import ListNotations.
Local Open Scope N_scope.

(* (a) jls_wr_open; p; jls_wr_close *)
Theorem C14_writer_log_accepted :
  forall (summ1 : N -> list N -> wm_sentry) (summN : bool -> list wm_sentry -> wm_sentry) (p : list wop),
  let st := fst (wm_run_full summ1 summN p) in
  wm_st_fault st = false ->
  (forall off b, In (WmWrite off b) (wm_st_log st) ->
     off + N.of_nat (length b) < 18446744073709551616 /\ N.of_nat (length b) < 4294967296) ->
  wo_check_log (wmw_evs (wm_st_log st)) = true.
Proof. exact wmw_run_accepted. Qed.
Print Assumptions C14_writer_log_accepted.

(* the same, on wm_run = the log oldest first, as the correspondence driver prints and compares it *)
Theorem C14_writer_run_accepted :
  forall (summ1 : N -> list N -> wm_sentry) (summN : bool -> list wm_sentry -> wm_sentry) (p : list wop),
  let st := fst (wm_run_full summ1 summN p) in
  wm_st_fault st = false ->
  (forall off b, In (WmWrite off b) (wm_st_log st) ->
     off + N.of_nat (length b) < 18446744073709551616 /\ N.of_nat (length b) < 4294967296) ->
  wo_check_log (map wmw_to_wo (wm_run summ1 summN p)) = true.
Proof. exact wmw_wm_run_accepted. Qed.
Print Assumptions C14_writer_run_accepted.

(* (a') jls_wr_open; p   (no close: the writer is still open, or was killed between two calls) *)
Theorem C14_writer_log_accepted_open :
  forall (summ1 : N -> list N -> wm_sentry) (summN : bool -> list wm_sentry -> wm_sentry) (p : list wop),
  let st := fst (wm_steps summ1 summN wm_api_open p []) in
  wm_st_fault st = false ->
  (forall off b, In (WmWrite off b) (wm_st_log st) ->
     off + N.of_nat (length b) < 18446744073709551616 /\ N.of_nat (length b) < 4294967296) ->
  wo_check_log (wmw_evs (wm_st_log st)) = true.
Proof. exact wmw_steps_accepted. Qed.
Print Assumptions C14_writer_log_accepted_open.

(* the log without close is a prefix of the log with close *)
Theorem C14_writer_open_log_is_prefix :
  forall (summ1 : N -> list N -> wm_sentry) (summN : bool -> list wm_sentry -> wm_sentry) (p : list wop), exists l2,
  wmw_evs (wm_st_log (fst (wm_run_full summ1 summN p))) =
  wmw_evs (wm_st_log (fst (wm_steps summ1 summN wm_api_open p []))) ++ l2.
Proof. exact wmw_open_log_prefix. Qed.
Print Assumptions C14_writer_open_log_is_prefix.

(* (a'') every prefix of the log (the first k backend calls), in particular a stop inside an API call *)
Theorem C14_writer_log_prefix_accepted :
  forall (summ1 : N -> list N -> wm_sentry) (summN : bool -> list wm_sentry -> wm_sentry) (p : list wop),
  let st := fst (wm_run_full summ1 summN p) in
  wm_st_fault st = false ->
  (forall off b, In (WmWrite off b) (wm_st_log st) ->
     off + N.of_nat (length b) < 18446744073709551616 /\ N.of_nat (length b) < 4294967296) ->
  forall k, wo_check_log (firstn k (wmw_evs (wm_st_log st))) = true.
Proof. exact wmw_prefix_accepted. Qed.
Print Assumptions C14_writer_log_prefix_accepted.

(* prefix closure of the checker itself *)
Theorem C14_check_log_prefix_closed : forall l1 l2, wo_check_log (l1 ++ l2) = true -> wo_check_log l1 = true.
Proof. exact wmw_check_log_prefix. Qed.
Print Assumptions C14_check_log_prefix_closed.

(* (b) the semantic statement for every write w of every program (l1 = the log before w): the file does not shrink;
   every completed chunk of the file before w (found in the bytes by CRC-valid headers and payload lengths from
   offset 32: wo_completed) keeps a CRC-valid header with the same item_prev, tag, rsv0, chunk_meta, payload_length
   and payload_prev_length; unless it is a TRACK_*_HEAD chunk, every byte of its payload, pad and payload CRC is
   unchanged *)
Theorem C14_writer_write_once :
  forall (summ1 : N -> list N -> wm_sentry) (summN : bool -> list wm_sentry -> wm_sentry) (p : list wop),
  let st := fst (wm_run_full summ1 summN p) in
  wm_st_fault st = false ->
  (forall off b, In (WmWrite off b) (wm_st_log st) ->
     off + N.of_nat (length b) < 18446744073709551616 /\ N.of_nat (length b) < 4294967296) ->
  forall l1 w l2, wmw_evs (wm_st_log st) = l1 ++ w :: l2 ->
    let f := wo_file_after l1 in
    let f' := wo_file_after (l1 ++ [w]) in
    (length f <= length f')%nat /\
    forall o h, wo_completed f o h ->
      (exists h', fm_decode_chunk_header (skipn (N.to_nat o) f') = Some h' /\
         fm_item_prev h' = fm_item_prev h /\ fm_tag h' = fm_tag h /\ fm_rsv0 h' = fm_rsv0 h /\
         fm_chunk_meta h' = fm_chunk_meta h /\ fm_payload_length h' = fm_payload_length h /\
         fm_payload_prev_length h' = fm_payload_prev_length h) /\
      (fm_is_head_tag (fm_tag h) = false ->
         forall i, o + 32 <= i -> i < o + fm_chunk_size (fm_payload_length h) -> nth (N.to_nat i) f' 0 = nth (N.to_nat i) f 0).
Proof. exact wmw_run_write_once. Qed.
Print Assumptions C14_writer_write_once.

(* (b') the same without jls_wr_close *)
Theorem C14_writer_write_once_open :
  forall (summ1 : N -> list N -> wm_sentry) (summN : bool -> list wm_sentry -> wm_sentry) (p : list wop),
  let st := fst (wm_steps summ1 summN wm_api_open p []) in
  wm_st_fault st = false ->
  (forall off b, In (WmWrite off b) (wm_st_log st) ->
     off + N.of_nat (length b) < 18446744073709551616 /\ N.of_nat (length b) < 4294967296) ->
  forall l1 w l2, wmw_evs (wm_st_log st) = l1 ++ w :: l2 ->
    let f := wo_file_after l1 in
    let f' := wo_file_after (l1 ++ [w]) in
    (length f <= length f')%nat /\
    forall o h, wo_completed f o h ->
      (exists h', fm_decode_chunk_header (skipn (N.to_nat o) f') = Some h' /\
         fm_item_prev h' = fm_item_prev h /\ fm_tag h' = fm_tag h /\ fm_rsv0 h' = fm_rsv0 h /\
         fm_chunk_meta h' = fm_chunk_meta h /\ fm_payload_length h' = fm_payload_length h /\
         fm_payload_prev_length h' = fm_payload_prev_length h) /\
      (fm_is_head_tag (fm_tag h) = false ->
         forall i, o + 32 <= i -> i < o + fm_chunk_size (fm_payload_length h) -> nth (N.to_nat i) f' 0 = nth (N.to_nat i) f 0).
Proof. exact wmw_steps_write_once. Qed.
Print Assumptions C14_writer_write_once_open.

(* the guard in boolean form, for concrete logs *)
Theorem C14_writer_bounded_decidable : forall l, wmw_bounded_b l = true ->
  forall off b, In (WmWrite off b) l -> off + N.of_nat (length b) < 18446744073709551616 /\ N.of_nat (length b) < 4294967296.
Proof. exact wmw_bounded_b_sound. Qed.
Print Assumptions C14_writer_bounded_decidable.

(* (c) the hypotheses are satisfiable by a non-trivial program: two sources, a u8 and an f32 signal; 3000 + 200 u8
   samples with a gap (49 DATA chunks of 64 samples, FSR INDEX/SUMMARY pairs at levels 1 (12), 2 (2) and 3 (1)); 700 + 40
   f32 samples with gaps (15 DATA chunks, INDEX/SUMMARY at levels 1 and 2); 26 annotations and 12 UTC entries (decimate
   10: ts INDEX/SUMMARY pairs at levels 1 and 2); user data, omit, flush, close.  All 49 calls return 0, no fault, the
   log (709 backend calls) is bounded and the checker accepts it with 181 chunks appended, 152 item_next rewrites,
   15 head-table updates, 2 file-header writes, final size 23344 bytes. *)
Example C14_writer_example :
  let r := wm_run_full wm_zero_summ1 wm_zero_summN wmw_ex_prog in
  let st := fst r in
  forallb (N.eqb 0) (snd r) = true /\ length (snd r) = 49%nat /\
  wm_st_fault st = false /\
  (forall off b, In (WmWrite off b) (wm_st_log st) ->
     off + N.of_nat (length b) < 18446744073709551616 /\ N.of_nat (length b) < 4294967296) /\
  length (wm_st_log st) = 709%nat /\
  exists s, wo_run false wo_st0 0 (wmw_evs (wm_st_log st)) = inl s /\
            wo_n_app s = 181 /\ wo_n_link s = 152 /\ wo_n_tbl s = 15 /\ wo_n_fh s = 2 /\ wo_len s = 23344.
Proof. exact wmw_ex_facts. Qed.
Print Assumptions C14_writer_example.
