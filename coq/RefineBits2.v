(* Refinement glue, FSR data, part 2: the blocks handed to wr_data by the byte-exact model (rf_blocks,
   RefinePyr2.v) are Spec's stream cut into blocks, and, packed with Spec.pack (= wm_pack, RefineBits.v),
   exactly the blocks of FsrPackModel.fp_write_all on the same calls.
   Definitions + proofs (glue file; nothing here changes a model). *)
From Coq Require Import NArith ZArith List Bool Lia Arith.
From Coq Require Import ZifyBool ZifyN ZifyNat.
From JLS Require Import Generated CrcDefs Spec Format BitCopyModel BitCopyProofs FsrPackModel FsrPackProofs
  WmRaw WmCore WmFsr RefineLog RefineFsr RefineBits RefinePyr2.
Import ListNotations.
Local Open Scope N_scope.

(* the jls_wr_fsr_data calls of a call sequence *)
Fixpoint rf_calls (ops : list rf_op) : list (Z * list N) :=
  match ops with
  | [] => []
  | RfData sid samples :: r => (sid, samples) :: rf_calls r
  | RfOmit _ :: r => rf_calls r
  end.

(* every block but the last is full; the last holds 1 .. spd samples *)
Definition rb_shape (spd : nat) (blocks : list (list N)) : Prop :=
  forall k b, nth_error blocks k = Some b ->
    (0 < length b <= spd)%nat /\ ((S k < length blocks)%nat -> length b = spd).

Lemma rb_shape_app_full : forall spd bl rest, (0 < spd)%nat ->
  Forall (fun b => length b = spd) bl -> rb_shape spd rest -> rb_shape spd (bl ++ rest).
Proof.
  intros spd bl rest Hs Hf Hr k b Hk. rewrite Forall_forall in Hf.
  destruct (lt_dec k (length bl)) as [Hlt|Hge].
  - rewrite nth_error_app1 in Hk by exact Hlt. apply nth_error_In in Hk. rewrite (Hf b Hk). split; [lia|reflexivity].
  - rewrite nth_error_app2 in Hk by lia. destruct (Hr _ _ Hk) as (A & B). split; [exact A|].
    intro Hl. apply B. rewrite app_length in Hl. lia.
Qed.

Section RB.
Variable d : sigdef.
Hypothesis Hspd : 0 < sg_spd d.
Hypothesis Hfillv : wm_fill_sample (sg_dtype d) = fill_value (sg_dtype d).

Definition rb_rel (s : rf_bs) (g : sigstate) (F : list N) : Prop :=
  sg_dtype (ss_def g) = sg_dtype d /\
  (bs_alloc s = false -> ss_first g = None /\ ss_samples g = [] /\ F = [] /\ bs_pend s = []) /\
  (bs_alloc s = true -> exists f, ss_first g = Some f /\ ss_samples g = F ++ bs_pend s /\
                                   bs_ts s = (f + Z.of_nat (length F))%Z /\ (length (bs_pend s) < N.to_nat (sg_spd d))%nat).

Lemma rb_extend_eq : forall next sid samples (old : list N),
  old ++ rf_extend (sg_dtype d) next sid samples =
  if (sid >=? next)%Z then old ++ repeat (fill_value (sg_dtype d)) (Z.to_nat (sid - next)) ++ samples
  else old ++ skipn (Z.to_nat (next - sid)) samples.
Proof.
  intros next sid samples old. unfold rf_extend. rewrite Hfillv.
  destruct (Z.eqb_spec sid next) as [->|Hne].
  - rewrite Z.geb_leb, Z.leb_refl, Z.sub_diag. reflexivity.
  - destruct (Z.ltb_spec sid next) as [Hlt|Hge].
    + destruct (Z.geb_spec sid next) as [|_]; [lia|].
      destruct (Z.leb_spec (sid + Z.of_nat (length samples)) next) as [Hle|Hgt]; [|reflexivity].
      rewrite skipn_all2 by lia. reflexivity.
    + destruct (Z.geb_spec sid next) as [_|]; [reflexivity|lia].
Qed.

Lemma rb_concat_len : forall spd (bl : list (list N)), Forall (fun b => length b = spd) bl -> length (concat bl) = (length bl * spd)%nat.
Proof. intros spd bl H. induction H as [|b bl Hb Hbl IH]; [reflexivity|]. cbn [concat length]. rewrite app_length, IH, Hb. lia. Qed.

(* one data call *)
Lemma rb_data_step : forall s g F sid samples, rb_rel s g F ->
  let '(s1, bl) := rf_bs_data d s sid samples in
  rb_rel s1 (fsr_write g sid samples) (F ++ concat bl) /\ Forall (fun b => length b = N.to_nat (sg_spd d)) bl.
Proof.
  intros s g F sid samples (Hdt & Hna & Ha).
  destruct samples as [|s0 sm] eqn:Esm.
  - cbn [rf_bs_data fsr_write concat]. rewrite app_nil_r. split; [|constructor]. split; [exact Hdt|]. split; assumption.
  - rewrite <- Esm. assert (Hne : samples <> []) by (rewrite Esm; discriminate).
    rewrite (rf_bs_data_ne d s sid samples Hne). cbv zeta.
    set (s1 := if bs_alloc s then s else {| bs_alloc := true; bs_ts := sid; bs_pend := [] |}).
    set (next := (bs_ts s1 + Z.of_nat (length (bs_pend s1)))%Z).
    set (all := bs_pend s1 ++ rf_extend (sg_dtype d) next sid samples).
    pose proof (rf_cut_spec (S (length all)) (N.to_nat (sg_spd d)) all ltac:(lia) ltac:(lia)) as Hcut.
    destruct (rf_cut (S (length all)) (N.to_nat (sg_spd d)) all) as [bl r]. destruct Hcut as (Hr & Hcat & Hfull).
    split; [|exact Hfull].
    assert (Hw : fsr_write g sid samples =
                 match ss_first g with
                 | None => {| ss_def := ss_def g; ss_first := Some sid; ss_samples := samples; ss_annos := ss_annos g; ss_utcs := ss_utcs g |}
                 | Some f => let next := (f + Z.of_nat (length (ss_samples g)))%Z in
                             {| ss_def := ss_def g; ss_first := Some f;
                                ss_samples := if (sid >=? next)%Z
                                              then ss_samples g ++ repeat (fill_value (sg_dtype (ss_def g))) (Z.to_nat (sid - next)) ++ samples
                                              else ss_samples g ++ skipn (Z.to_nat (next - sid)) samples;
                                ss_annos := ss_annos g; ss_utcs := ss_utcs g |}
                 end).
    { unfold fsr_write. rewrite Esm. reflexivity. }
    rewrite Hw.
    destruct (bs_alloc s) eqn:Eal.
    + destruct (Ha eq_refl) as (f & Hf & Hsm & Hts & Hpl). rewrite Hf. cbv zeta.
      subst s1. 
      assert (Hnext : next = (f + Z.of_nat (length (ss_samples g)))%Z).
      { subst next. rewrite Hts, Hsm, app_length. lia. }
      split; [exact Hdt|]. cbn [bs_alloc ss_first ss_samples]. split; [intro X; discriminate X|]. intros _.
      exists f. split; [reflexivity|]. cbn [bs_pend bs_ts].
      split; [|split; [|exact Hr]].
      * rewrite Hdt, <- Hnext. rewrite <- (rb_extend_eq next sid samples (ss_samples g)).
        rewrite Hsm, <- app_assoc. fold all. rewrite <- Hcat, app_assoc. reflexivity.
      * rewrite Hts, app_length, (rb_concat_len _ _ Hfull). lia.
    + destruct (Hna eq_refl) as (Hf & Hsm & HF & Hp). rewrite Hf.
      subst s1. cbn [bs_ts bs_pend length] in next.
      assert (Hnext : next = sid) by (subst next; cbn; lia).
      split; [exact Hdt|]. cbn [bs_alloc ss_first ss_samples]. split; [intro X; discriminate X|]. intros _.
      exists sid. split; [reflexivity|]. cbn [bs_pend bs_ts].
      split; [|split; [|exact Hr]].
      * subst F. cbn [app]. rewrite Hcat. subst all. cbn [bs_pend app]. unfold rf_extend. rewrite Hnext, Z.eqb_refl. reflexivity.
      * subst F. cbn [app length]. rewrite (rb_concat_len _ _ Hfull). lia.
Qed.

Lemma rb_blocks_stream_gen : forall ops s g F, rb_rel s g F ->
  let g' := fold_left (fun g c => fsr_write g (fst c) (snd c)) (rf_calls ops) g in
  F ++ concat (rf_blocks d s ops) = ss_samples g' /\ rb_shape (N.to_nat (sg_spd d)) (rf_blocks d s ops).
Proof.
  induction ops as [|o ops IH]; intros s g F Hrel.
  - cbn [rf_calls fold_left rf_blocks]. destruct Hrel as (Hdt & Hna & Ha).
    destruct (bs_alloc s) eqn:Eal.
    + destruct (Ha eq_refl) as (f & Hf & Hsm & Hts & Hpl). rewrite Hsm.
      destruct (bs_pend s) as [|p0 pr] eqn:Ep.
      * cbn [concat]. split; [reflexivity|]. intros k b Hk. destruct k; discriminate Hk.
      * cbn [concat]. rewrite app_nil_r. split; [reflexivity|].
        intros k b Hk. destruct k as [|k]; [|destruct k; discriminate Hk]. injection Hk as <-.
        split; [cbn [length] in *; lia|cbn [length]; lia].
    + destruct (Hna eq_refl) as (Hf & Hsm & HF & Hp). rewrite Hsm, HF. cbn [concat]. split; [reflexivity|].
      intros k b Hk. destruct k; discriminate Hk.
  - destruct o as [sid samples|en].
    + cbn [rf_calls fold_left rf_blocks fst snd].
      pose proof (rb_data_step s g F sid samples Hrel) as Hstep.
      destruct (rf_bs_data d s sid samples) as [s1 bl]. destruct Hstep as (Hrel1 & Hfull).
      destruct (IH s1 _ _ Hrel1) as (A & B). cbv zeta in A. split.
      * rewrite concat_app, app_assoc. exact A.
      * apply rb_shape_app_full; [lia|exact Hfull|exact B].
    + cbn [rf_calls rf_blocks]. apply IH. exact Hrel.
Qed.

(* B1: the blocks are the stream of Spec.fsr_write over the same calls, cut at samples_per_data *)
Lemma rb_blocks_stream : forall ops,
  let g := fold_left (fun g c => fsr_write g (fst c) (snd c)) (rf_calls ops) (new_sig d) in
  concat (rf_blocks d rf_bs0 ops) = ss_samples g /\ rb_shape (N.to_nat (sg_spd d)) (rf_blocks d rf_bs0 ops).
Proof.
  intros ops. apply (rb_blocks_stream_gen ops rf_bs0 (new_sig d) []).
  split; [reflexivity|]. split; [intros _; repeat split|intro X; discriminate X].
Qed.

End RB.

(* ------------------------------------------------------------------ B2: FsrPackModel's blocks *)
Fixpoint rb_fp_blocks (w spd : N) (first : Z) (k : nat) (blocks : list (list N)) : list (Z * N * list N) :=
  match blocks with
  | [] => []
  | b :: r => ((first + Z.of_nat k * Z.of_N spd)%Z, N.of_nat (length b), pack w b) :: rb_fp_blocks w spd first (S k) r
  end.

Definition rb_nshape (spd : nat) (l : list nat) : Prop :=
  forall k c, nth_error l k = Some c -> (0 < c <= spd)%nat /\ ((S k < length l)%nat -> c = spd).

Lemma rb_nshape_tl : forall spd c l, rb_nshape spd (c :: l) -> rb_nshape spd l.
Proof. intros spd c l H k c' Hk. destruct (H (S k) c' Hk) as (A & B). split; [exact A|]. intro Hl. apply B. cbn [length]. lia. Qed.

Lemma rb_sizes_unique : forall spd l1 l2, rb_nshape spd l1 -> rb_nshape spd l2 ->
  fold_right Nat.add 0%nat l1 = fold_right Nat.add 0%nat l2 -> l1 = l2.
Proof.
  intros spd l1. induction l1 as [|c1 r1 IH]; intros l2 H1 H2 Hsum.
  - destruct l2 as [|c2 r2]; [reflexivity|]. destruct (H2 0%nat c2 eq_refl) as (A & _). cbn in Hsum. lia.
  - destruct l2 as [|c2 r2]; [destruct (H1 0%nat c1 eq_refl) as (A & _); cbn in Hsum; lia|].
    destruct (H1 0%nat c1 eq_refl) as (A1 & B1). destruct (H2 0%nat c2 eq_refl) as (A2 & B2).
    cbn [fold_right] in Hsum. cbn [length] in B1, B2.
    assert (Hpos : forall l, rb_nshape spd l -> l <> [] -> (0 < fold_right Nat.add 0%nat l)%nat).
    { intros l Hl Hne. destruct l as [|c r]; [congruence|]. destruct (Hl 0%nat c eq_refl) as (A & _). cbn. lia. }
    assert (Ec : c1 = c2).
    { destruct r1 as [|x1 r1']; destruct r2 as [|x2 r2'].
      - cbn in Hsum. lia.
      - pose proof (Hpos (x2 :: r2') (rb_nshape_tl _ _ _ H2) ltac:(discriminate)). pose proof (B2 ltac:(cbn [length]; lia)) as E2. cbn [fold_right] in *. lia.
      - pose proof (Hpos (x1 :: r1') (rb_nshape_tl _ _ _ H1) ltac:(discriminate)). pose proof (B1 ltac:(cbn [length]; lia)) as E1. cbn [fold_right] in *. lia.
      - pose proof (B1 ltac:(cbn [length]; lia)) as E1. pose proof (B2 ltac:(cbn [length]; lia)) as E2. lia. }
    subst c2. f_equal. apply IH; [eapply rb_nshape_tl; eauto|eapply rb_nshape_tl; eauto|lia].
Qed.

Section RB2.
Variables (w spd : N).
Hypothesis Hw : 0 < w.

Definition rb_blk_bits (b : Z * N * list N) : list bool :=
  let '(_, cnt, p) := b in firstn (N.to_nat (cnt * w)) (bc_bits p).

Lemma rb_fp_unique : forall B blocks first k0,
  (forall k ts cnt p, nth_error B k = Some (ts, cnt, p) ->
     ts = (first + Z.of_nat (k0 + k) * Z.of_N spd)%Z /\ N.of_nat (length p) = (cnt * w + 7) / 8 /\
     bc_bytes_ok p /\ Forall (fun b => b = false) (skipn (N.to_nat (cnt * w)) (bc_bits p))) ->
  map (fun b => snd (fst b)) B = map (fun b => N.of_nat (length b)) blocks ->
  flat_map rb_blk_bits B = sbits w (concat blocks) ->
  B = rb_fp_blocks w spd first k0 blocks.
Proof.
  induction B as [|[[ts cnt] p] B IH]; intros blocks first k0 Hprop Hsz Hbits.
  - destruct blocks; [reflexivity|discriminate Hsz].
  - destruct blocks as [|b blocks]; [discriminate Hsz|].
    cbn [map fst snd] in Hsz. injection Hsz as Hcnt Hsz.
    destruct (Hprop 0%nat ts cnt p eq_refl) as (Hts & Hlen & Hok & Hpad).
    cbn [flat_map rb_blk_bits concat] in Hbits. rewrite sbits_app in Hbits.
    assert (Hl1 : length (firstn (N.to_nat (cnt * w)) (bc_bits p)) = length (sbits w b)).
    { rewrite firstn_length, bc_bits_length, sbits_length. subst cnt. lia. }
    destruct (app_inj_len _ _ _ _ Hl1 Hbits) as (Hb1 & Hb2).
    cbn [rb_fp_blocks]. f_equal.
    + f_equal; [f_equal; [rewrite Hts; f_equal; lia|exact Hcnt]|].
      (* the payload *)
      destruct (pack_spec w b) as (pad & Hpd & Hpb & Hpok).
      apply bc_bits_inj; [exact Hok|exact Hpok|].
      rewrite <- (firstn_skipn (N.to_nat (cnt * w)) (bc_bits p)), Hb1, Hpb. f_equal.
      assert (Hlp : length (pack w b) = length p).
      { pose proof (pack_length w b). subst cnt. lia. }
      assert (Hsk : length (skipn (N.to_nat (cnt * w)) (bc_bits p)) = pad).
      { apply (f_equal (@length bool)) in Hpb. rewrite bc_bits_length, app_length, repeat_length, sbits_length in Hpb.
        rewrite skipn_length, bc_bits_length. subst cnt. lia. }
      rewrite <- Hsk. clear - Hpad. induction Hpad as [|x l Hx Hl IHl]; [reflexivity|]. cbn [length repeat]. subst x. f_equal. exact IHl.
    + apply IH; [|exact Hsz|exact Hb2].
      intros k ts' cnt' p' Hk. destruct (Hprop (S k) ts' cnt' p' Hk) as (A & B' & C & D).
      split; [rewrite A; f_equal; f_equal; lia|]. split; [exact B'|]. split; assumption.
Qed.

End RB2.

Lemma rb_first : forall calls g,
  ss_first (fold_left (fun g c => fsr_write g (fst c) (snd c)) calls g) =
  match ss_first g with
  | Some f => Some f
  | None => (fix go (l : list (Z * list N)) := match l with [] => None | (sid, _ :: _) :: _ => Some sid | _ :: r => go r end) calls
  end.
Proof.
  induction calls as [|[sid samples] calls IH]; intros g; cbn [fold_left fst snd].
  - destruct (ss_first g); reflexivity.
  - rewrite IH. unfold fsr_write. destruct samples as [|s0 sm]; [reflexivity|].
    destruct (ss_first g); reflexivity.
Qed.

Lemma rb_t0_first : forall ops,
  (fix go (l : list (Z * list N)) := match l with [] => None | (sid, _ :: _) :: _ => Some sid | _ :: r => go r end) (rf_calls ops) = None \/
  (fix go (l : list (Z * list N)) := match l with [] => None | (sid, _ :: _) :: _ => Some sid | _ :: r => go r end) (rf_calls ops) = Some (rf_t0 ops).
Proof.
  induction ops as [|o ops IH]; [left; reflexivity|].
  destruct o as [sid [|s0 sm]|en]; cbn [rf_calls rf_t0]; [exact IH|right; reflexivity|exact IH].
Qed.

(* B: for any calls on a signal of one of the 15 data types, FsrPackModel's writer produces exactly the blocks of
   the byte-exact model, packed: timestamps first + k * spd, counts, payload bytes *)
Theorem rb_fp_blocks_eq : forall d ops buf0,
  In (sg_dtype d) fp_dt_list ->
  0 < sg_spd d -> (sg_spd d * dt_bits (sg_dtype d)) mod 8 = 0 -> sg_spd d * dt_bits (sg_dtype d) + 7 < 4294967296 ->
  8 * N.of_nat (length buf0) = sg_spd d * dt_bits (sg_dtype d) -> Forall (fun b => b < 256) buf0 ->
  Forall (fun c => N.of_nat (length (snd c)) < 4294967296) (rf_calls ops) ->
  exists st, fp_write_all (sg_dtype d) (sg_spd d) buf0 (rf_calls ops) = FP_ok st /\
    fp_blocks st = rb_fp_blocks (dt_bits (sg_dtype d)) (sg_spd d) (rf_t0 ops) 0 (rf_blocks d rf_bs0 ops).
Proof.
  intros d ops buf0 Hdt Hspd Hmul Hbnd Hbuf Hok Hcalls.
  destruct (blocks_stream_lemma (sg_dtype d) (sg_spd d) buf0 d (rf_calls ops) Hdt eq_refl Hspd Hmul Hbnd Hbuf Hok Hcalls)
    as (st & Hrun & Hbits & Htot & Hnone & Hfirst & Hblk).
  cbv zeta in *. exists st. split; [exact Hrun|].
  set (w := dt_bits (sg_dtype d)) in *.
  set (g := fold_left (fun s c => fsr_write s (fst c) (snd c)) (rf_calls ops) (new_sig d)) in *.
  assert (Hfv : wm_fill_sample (sg_dtype d) = fill_value (sg_dtype d)).
  { unfold fp_dt_list in Hdt. cbn [In] in Hdt. repeat (destruct Hdt as [<-|Hdt]; [reflexivity|]). contradiction. }
  assert (Hwpos : 0 < w).
  { subst w. unfold fp_dt_list in Hdt. cbn [In] in Hdt. repeat (destruct Hdt as [<-|Hdt]; [reflexivity|]). contradiction. }
  destruct (rb_blocks_stream d Hspd Hfv ops) as (Hcat & Hshape). cbv zeta in Hcat. fold g in Hcat.
  destruct (ss_first g) as [first|] eqn:Ef.
  - assert (Et0 : first = rf_t0 ops).
    { subst g. rewrite rb_first in Ef. cbn [new_sig ss_first] in Ef. destruct (rb_t0_first ops) as [E|E]; rewrite E in Ef; congruence. }
    subst first.
    apply (rb_fp_unique w (sg_spd d) Hwpos).
    + intros k ts cnt p Hk. destruct (Hblk k ts cnt p Hk) as (A & B & C & D & E & F).
      split; [injection A as A; lia|]. split; [exact D|]. split; [exact E|exact F].
    + (* sizes *)
      assert (Hn1 : rb_nshape (N.to_nat (sg_spd d)) (map (fun b => N.to_nat (snd (fst b))) (fp_blocks st))).
      { intros k c Hk. rewrite nth_error_map in Hk. destruct (nth_error (fp_blocks st) k) as [[[ts cnt] p]|] eqn:Ek; [|discriminate].
        cbn in Hk. injection Hk as <-. destruct (Hblk k ts cnt p Ek) as (_ & B & C & _).
        split; [lia|]. rewrite map_length. intro Hl. rewrite (C Hl). reflexivity. }
      assert (Hn2 : rb_nshape (N.to_nat (sg_spd d)) (map (@length N) (rf_blocks d rf_bs0 ops))).
      { intros k c Hk. rewrite nth_error_map in Hk. destruct (nth_error (rf_blocks d rf_bs0 ops) k) as [b|] eqn:Ek; [|discriminate].
        cbn in Hk. injection Hk as <-. destruct (Hshape k b Ek) as (A & B). split; [exact A|]. rewrite map_length. exact B. }
      assert (Hsum : fold_right Nat.add 0%nat (map (fun b => N.to_nat (snd (fst b))) (fp_blocks st)) =
                     fold_right Nat.add 0%nat (map (@length N) (rf_blocks d rf_bs0 ops))).
      { assert (S1 : forall B, N.of_nat (fold_right Nat.add 0%nat (map (fun b : Z * N * list N => N.to_nat (snd (fst b))) B)) = fp_total B).
        { induction B as [|[[ts cnt] p] B IHB]; [reflexivity|]. unfold fp_total in *. cbn [map fold_right fst snd] in *. rewrite <- IHB. lia. }
        assert (S2 : forall bl : list (list N), fold_right Nat.add 0%nat (map (@length N) bl) = length (concat bl)).
        { induction bl as [|b bl IHbl]; [reflexivity|]. cbn [map fold_right concat]. rewrite app_length, IHbl. reflexivity. }
        rewrite S2, Hcat. pose proof (S1 (fp_blocks st)) as E. rewrite Htot in E. lia. }
      pose proof (rb_sizes_unique _ _ _ Hn1 Hn2 Hsum) as Hsz.
      rewrite <- (map_map (@length N) N.of_nat), <- Hsz, map_map.
      apply map_ext. intros [[ts cnt] p]. cbn. lia.
    + rewrite Hcat. exact Hbits.
  - destruct (Hnone eq_refl) as (Hb0 & Hs0). rewrite Hb0.
    rewrite Hs0 in Hcat.
    destruct (rf_blocks d rf_bs0 ops) as [|b bl]; [reflexivity|].
    destruct (Hshape 0%nat b eq_refl) as (A & _). cbn [concat] in Hcat. destruct b; [cbn in A; lia|discriminate Hcat].
Qed.

(* the vocabulary of rb_fp_blocks_eq, for Properties_refine.v *)
Lemma rb_vocab_fp_blocks :
  (forall w spd first k, rb_fp_blocks w spd first k [] = []) /\
  (forall w spd first k b r, rb_fp_blocks w spd first k (b :: r) =
     ((first + Z.of_nat k * Z.of_N spd)%Z, N.of_nat (length b), pack w b) :: rb_fp_blocks w spd first (S k) r).
Proof. split; reflexivity. Qed.
