(* Refinement glue, FSR track: WmFsr (byte-exact writer model) against FsrPackModel (sample packing),
   Spec (the stream) and PyramidModel (index/summary pyramid).

   Part 1 (blocks).  The block buffer of WmFsr is a list of samples; every jls_wr_fsr_data call is
   [rf_feed]: the caller's samples (after Spec's gap fill / overlap skip) are appended to the pending
   samples, every full block of samples_per_data samples is flushed by wr_data ([rf_flush]) and the rest
   stays pending.  [rf_cut] cuts a sample list into full blocks and a rest.
   Part 2 (pyramid).  A step simulation between wr_data / summary1 / summaryN + flush / close of WmFsr over
   WmCore and the same functions of PyramidModel, through the chunk view of the log (RefineLog.v).
   Definitions + proofs (glue file; nothing here changes a model). *)
From Coq Require Import NArith ZArith List Bool Lia Arith.
From Coq Require Import ZifyBool ZifyN ZifyNat.
From JLS Require Import Generated CrcDefs Spec Format FormatProofs WmRaw WmCore WmFsr WmProofs RefineLog.
Import ListNotations.
Local Open Scope N_scope.

(* ------------------------------------------------------------------ blocks *)
(* full blocks of spd samples, and the rest (fewer than spd samples); fuel > length l suffices *)
Fixpoint rf_cut (fuel spd : nat) (l : list N) : list (list N) * list N :=
  match fuel with
  | O => ([], l)
  | S f => if (length l <? spd)%nat then ([], l)
           else let '(bl, r) := rf_cut f spd (skipn spd l) in (firstn spd l :: bl, r)
  end.

(* ---- rf_cut ---- *)
Lemma rf_cut_fuel : forall spd f1 f2 l, (0 < spd)%nat -> (length l < f1)%nat -> (length l < f2)%nat ->
  rf_cut f1 spd l = rf_cut f2 spd l.
Proof.
  intros spd. induction f1 as [|f1 IH]; intros f2 l Hs H1 H2; [lia|].
  destruct f2 as [|f2]; [lia|]. cbn [rf_cut].
  destruct (Nat.ltb_spec (length l) spd) as [|Hge]; [reflexivity|].
  rewrite (IH f2 (skipn spd l)); [reflexivity | exact Hs | rewrite skipn_length; lia | rewrite skipn_length; lia].
Qed.
Lemma rf_cut_small : forall fuel spd l, (length l < spd)%nat -> rf_cut (S fuel) spd l = ([], l).
Proof. intros. cbn [rf_cut]. destruct (Nat.ltb_spec (length l) spd); [reflexivity|lia]. Qed.
Lemma rf_cut_big : forall fuel spd l, (0 < spd)%nat -> (spd <= length l)%nat -> (length l < S fuel)%nat ->
  rf_cut (S fuel) spd l = (firstn spd l :: fst (rf_cut (S (length (skipn spd l))) spd (skipn spd l)),
                           snd (rf_cut (S (length (skipn spd l))) spd (skipn spd l))).
Proof.
  intros fuel spd l Hs Hge Hf.
  remember (rf_cut (S (length (skipn spd l))) spd (skipn spd l)) as rest eqn:Er.
  cbn [rf_cut]. destruct (Nat.ltb_spec (length l) spd); [lia|].
  rewrite (rf_cut_fuel spd fuel (S (length (skipn spd l))) (skipn spd l)); [|exact Hs|rewrite skipn_length; lia|lia].
  rewrite <- Er. destruct rest; reflexivity.
Qed.
(* the rest is shorter than a block; blocks and rest give the list back; every block is full *)
Lemma rf_cut_spec : forall fuel spd l, (0 < spd)%nat -> (length l < fuel)%nat ->
  let '(bl, r) := rf_cut fuel spd l in
  (length r < spd)%nat /\ concat bl ++ r = l /\ Forall (fun b => length b = spd) bl.
Proof.
  induction fuel as [|fu IH]; intros spd l Hs Hf; [lia|]. cbn [rf_cut].
  destruct (Nat.ltb_spec (length l) spd) as [Hlt|Hge].
  - split; [exact Hlt|]. split; [reflexivity|constructor].
  - specialize (IH spd (skipn spd l) Hs ltac:(rewrite skipn_length; lia)).
    destruct (rf_cut fu spd (skipn spd l)) as [bl r]. destruct IH as (A & B & C).
    split; [exact A|]. split.
    + cbn [concat]. rewrite <- app_assoc, B. apply firstn_skipn.
    + constructor; [rewrite firstn_length; lia|exact C].
Qed.
Lemma rf_cut_app : forall fuel spd l b, (0 < spd)%nat -> (length l < fuel)%nat ->
  let '(bl, r) := rf_cut fuel spd l in
  rf_cut (S (length (l ++ b))) spd (l ++ b) =
  (bl ++ fst (rf_cut (S (length (r ++ b))) spd (r ++ b)), snd (rf_cut (S (length (r ++ b))) spd (r ++ b))).
Proof.
  induction fuel as [|fu IH]; intros spd l b Hs Hf; [lia|].
  destruct (Nat.ltb_spec (length l) spd) as [Hlt|Hge].
  - rewrite rf_cut_small by exact Hlt. cbn [app]. destruct (rf_cut (S (length (l ++ b))) spd (l ++ b)); reflexivity.
  - specialize (IH spd (skipn spd l) b Hs ltac:(rewrite skipn_length; lia)).
    rewrite (rf_cut_fuel spd fu (S (length (skipn spd l))) (skipn spd l)) in IH; [|exact Hs|rewrite skipn_length; lia|lia].
    rewrite rf_cut_big; [|exact Hs|exact Hge|lia].
    destruct (rf_cut (S (length (skipn spd l))) spd (skipn spd l)) as [bl r]. cbn [fst snd].
    rewrite (rf_cut_big (length (l ++ b))); [|exact Hs|rewrite app_length; lia|lia].
    assert (E1 : firstn spd (l ++ b) = firstn spd l).
    { rewrite firstn_app. replace (spd - length l)%nat with 0%nat by lia. cbn. apply app_nil_r. }
    assert (E2 : skipn spd (l ++ b) = skipn spd l ++ b).
    { rewrite skipn_app. replace (spd - length l)%nat with 0%nat by lia. reflexivity. }
    rewrite E1, E2, IH. reflexivity.
Qed.


Section RF_FSR.
Variable summ1 : N -> list N -> wm_sentry.
Variable summN : bool -> list wm_sentry -> wm_sentry.

(* the pending samples of the block buffer replaced by [blk] (oldest first) *)
Definition rf_set_buf (x : wm_fx) (blk : list N) : wm_fx :=
  let f := wm_fx_fsr x in
  wm_fx_set_fsr x (wm_f_set_block f (wm_f_alloc f) (wm_f_ts f) (rf_len blk) (rev blk)).

(* wr_data on a buffer holding exactly [blk] *)
Definition rf_flush (d : sigdef) (x : wm_fx) (blk : list N) : wm_fx :=
  wm_fsr_wr_data summ1 summN d (rf_set_buf x blk).

(* samples [data] arrive after the pending ones *)
Definition rf_feed (d : sigdef) (x : wm_fx) (data : list N) : wm_fx :=
  let all := rev (wm_f_buf (wm_fx_fsr x)) ++ data in
  let '(bl, r) := rf_cut (S (length all)) (N.to_nat (sg_spd d)) all in
  rf_set_buf (fold_left (rf_flush d) bl x) r.


(* ---- the block fields of wm_fsr: untouched by the summary levels ---- *)
Definition rf_blk_eq (f f' : wm_fsr) : Prop :=
  wm_f_alloc f' = wm_f_alloc f /\ wm_f_sid0 f' = wm_f_sid0 f /\ wm_f_ts f' = wm_f_ts f /\
  wm_f_count f' = wm_f_count f /\ wm_f_buf f' = wm_f_buf f /\ wm_f_omit f' = wm_f_omit f.
Lemma rf_blk_eq_refl : forall f, rf_blk_eq f f.
Proof. intro f. repeat split. Qed.
Lemma rf_blk_eq_trans : forall a b c, rf_blk_eq a b -> rf_blk_eq b c -> rf_blk_eq a c.
Proof. intros a b c (A1 & A2 & A3 & A4 & A5 & A6) (B1 & B2 & B3 & B4 & B5 & B6). repeat split; congruence. Qed.
Lemma rf_blk_eq_set_level : forall f l v, rf_blk_eq f (wm_f_set_level f l v).
Proof. intros. repeat split. Qed.
Lemma rf_blk_eq_level_alloc : forall f l, rf_blk_eq f (wm_fsr_level_alloc f l).
Proof. intros f l. unfold wm_fsr_level_alloc. destruct (wm_f_get_level f l); [apply rf_blk_eq_refl|apply rf_blk_eq_set_level]. Qed.
Lemma rf_blk_eq_summaryN_add : forall d level pos src se f, rf_blk_eq f (wm_fsr_summaryN_add summN d level pos src se f).
Proof.
  intros. unfold wm_fsr_summaryN_add.
  pose proof (rf_blk_eq_level_alloc f level) as H.
  destruct (wm_f_get_level (wm_fsr_level_alloc f level) level); [|exact H].
  eapply rf_blk_eq_trans; [exact H|apply rf_blk_eq_set_level].
Qed.

Lemma rf_wr_summary_blk : forall fuel d level x,
  rf_blk_eq (wm_fx_fsr x) (wm_fx_fsr (wm_fsr_wr_summary summN fuel d level x)).
Proof.
  induction fuel as [|fu IH]; intros d level x; cbn [wm_fsr_wr_summary]; [apply rf_blk_eq_refl|].
  destruct (wm_f_get_level (wm_fx_fsr x) level) as [lv|]; [|apply rf_blk_eq_refl].
  match goal with |- context [if ?c then x else _] => destruct c end; [apply rf_blk_eq_refl|].
  match goal with |- context [let '(b1, t1) := ?e in _] => destruct e as [b1 t1] end.
  match goal with |- context [let '(b2, t2) := ?e in _] => destruct e as [b2 t2] end.
  destruct (JLS_SUMMARY_LEVEL_COUNT <=? level + 1); [apply rf_blk_eq_refl|].
  set (f3 := wm_fsr_summaryN_add summN d (level + 1) _ lv _ (wm_fx_fsr x)).
  set (x3 := {| wm_fx_base := b2; wm_fx_tk := t2; wm_fx_fsr := f3 |}).
  assert (H3 : rf_blk_eq (wm_fx_fsr x) (wm_fx_fsr x3)) by (subst x3 f3; cbn [wm_fx_fsr]; apply rf_blk_eq_summaryN_add).
  set (x4 := match wm_f_get_level f3 (level + 1) with
             | Some up => if sg_eps d <=? wm_fl_nsum up then wm_fsr_wr_summary summN fu d (level + 1) x3 else x3
             | None => x3 end).
  assert (H4 : rf_blk_eq (wm_fx_fsr x) (wm_fx_fsr x4)).
  { subst x4. destruct (wm_f_get_level f3 (level + 1)) as [up|]; [|exact H3].
    destruct (sg_eps d <=? wm_fl_nsum up); [|exact H3]. eapply rf_blk_eq_trans; [exact H3|apply IH]. }
  destruct (wm_f_get_level (wm_fx_fsr x4) level); [|exact H4].
  eapply rf_blk_eq_trans; [exact H4|]. cbn [wm_fx_set_fsr wm_fx_fsr]. apply rf_blk_eq_set_level.
Qed.

Lemma rf_summary1_blk : forall d pos samples x,
  rf_blk_eq (wm_fx_fsr x) (wm_fx_fsr (wm_fsr_summary1 summ1 summN d pos samples x)).
Proof.
  intros. unfold wm_fsr_summary1.
  pose proof (rf_blk_eq_level_alloc (wm_fx_fsr x) 1) as H.
  destruct (wm_f_get_level (wm_fsr_level_alloc (wm_fx_fsr x) 1) 1) as [dst|]; [|apply rf_blk_eq_refl].
  match goal with |- context [if ?c then _ else _] => destruct c end.
  - eapply rf_blk_eq_trans; [|apply rf_wr_summary_blk]. cbn [wm_fx_set_fsr wm_fx_fsr].
    eapply rf_blk_eq_trans; [exact H|apply rf_blk_eq_set_level].
  - cbn [wm_fx_set_fsr wm_fx_fsr]. eapply rf_blk_eq_trans; [exact H|apply rf_blk_eq_set_level].
Qed.

(* wr_data: what it does to the block fields *)
Lemma rf_wr_data_blk : forall d x, wm_f_count (wm_fx_fsr x) <> 0 ->
  let f := wm_fx_fsr x in
  let f' := wm_fx_fsr (wm_fsr_wr_data summ1 summN d x) in
  wm_f_alloc f' = wm_f_alloc f /\ wm_f_sid0 f' = wm_f_sid0 f /\ wm_f_ts f' = (wm_f_ts f + Z.of_N (sg_spd d))%Z /\
  wm_f_count f' = 0 /\ wm_f_buf f' = [] /\
  wm_f_omit f' = N.lor (N.shiftl (wm_f_omit f) 1) (N.land (wm_f_omit f) 1) mod 256.
Proof.
  intros d x Hc f f'. subst f'. unfold wm_fsr_wr_data. fold f.
  destruct (N.eqb_spec (wm_f_count f) 0) as [E|_]; [contradiction|].
  match goal with |- context [let '(x1, pos1) := ?e in _] => set (e1 := e) end.
  assert (He1 : rf_blk_eq f (wm_fx_fsr (fst e1))).
  { subst e1. match goal with |- context [if ?c then _ else _] => destruct c end; [apply rf_blk_eq_refl|].
    match goal with |- context [let '(b1, t1) := ?e in _] => destruct e as [b1 t1] end. cbn [fst wm_fx_fsr]. apply rf_blk_eq_refl. }
  destruct e1 as [x1 pos1]. cbn [fst] in He1.
  pose proof (rf_summary1_blk d pos1 (wm_rev (wm_f_buf f)) x1) as H2.
  destruct (rf_blk_eq_trans _ _ _ He1 H2) as (A1 & A2 & A3 & A4 & A5 & A6).
  cbn [wm_fx_set_fsr wm_fx_fsr wm_f_set_omit wm_f_set_block wm_f_alloc wm_f_sid0 wm_f_ts wm_f_count wm_f_buf wm_f_omit].
  rewrite A1, A2, A3, A6. repeat split.
Qed.

(* ---- set_buf / flush ---- *)
Definition rf_binv (spd : N) (f : wm_fsr) : Prop := wm_f_count f = rf_len (wm_f_buf f) /\ rf_len (wm_f_buf f) < spd.

Lemma rf_set_buf_set_buf : forall x a b, rf_set_buf (rf_set_buf x a) b = rf_set_buf x b.
Proof. intros. reflexivity. Qed.
Lemma rf_set_buf_same : forall x, wm_f_count (wm_fx_fsr x) = rf_len (wm_f_buf (wm_fx_fsr x)) ->
  rf_set_buf x (rev (wm_f_buf (wm_fx_fsr x))) = x.
Proof.
  intros [b t f] H. cbn [wm_fx_fsr] in H. unfold rf_set_buf. cbn [wm_fx_fsr wm_fx_set_fsr wm_f_set_block].
  rewrite rev_involutive. unfold rf_len. rewrite rev_length. fold (rf_len (wm_f_buf f)). rewrite <- H.
  destruct f; reflexivity.
Qed.
Lemma rf_flush_set_buf : forall d x a b, rf_flush d (rf_set_buf x a) b = rf_flush d x b.
Proof. intros. reflexivity. Qed.
Lemma rf_fold_flush_set_buf : forall d bl x a r,
  rf_set_buf (fold_left (rf_flush d) bl (rf_set_buf x a)) r = rf_set_buf (fold_left (rf_flush d) bl x) r.
Proof. intros d bl x a r. destruct bl as [|b bl]; reflexivity. Qed.

Lemma rf_flush_blk : forall d x blk, blk <> [] ->
  let f := wm_fx_fsr x in let f' := wm_fx_fsr (rf_flush d x blk) in
  wm_f_alloc f' = wm_f_alloc f /\ wm_f_sid0 f' = wm_f_sid0 f /\ wm_f_ts f' = (wm_f_ts f + Z.of_N (sg_spd d))%Z /\
  wm_f_count f' = 0 /\ wm_f_buf f' = [] /\
  wm_f_omit f' = N.lor (N.shiftl (wm_f_omit f) 1) (N.land (wm_f_omit f) 1) mod 256.
Proof.
  intros d x blk Hne. unfold rf_flush.
  assert (Hc : wm_f_count (wm_fx_fsr (rf_set_buf x blk)) <> 0).
  { cbn. unfold rf_len. destruct blk; [congruence|cbn [length]; lia]. }
  exact (rf_wr_data_blk d (rf_set_buf x blk) Hc).
Qed.

Lemma rf_fold_flush_binv : forall d bl x, 0 < sg_spd d -> Forall (fun b => b <> []) bl -> bl <> [] ->
  let f' := wm_fx_fsr (fold_left (rf_flush d) bl x) in wm_f_count f' = 0 /\ wm_f_buf f' = [].
Proof.
  intros d bl. induction bl as [|b bl IH]; intros x Hs Hall Hne; [congruence|].
  cbn [fold_left]. inversion Hall as [|? ? Hb Hbl]; subst.
  destruct bl as [|b2 bl].
  - cbn [fold_left]. destruct (rf_flush_blk d x b Hb) as (_ & _ & _ & A & B & _). split; assumption.
  - apply IH; [exact Hs|exact Hbl|discriminate].
Qed.

(* the state after feeding: pending = the rest *)
Lemma rf_feed_binv : forall d x data, 0 < sg_spd d -> rf_binv (sg_spd d) (wm_fx_fsr (rf_feed d x data)).
Proof.
  intros d x data Hs. unfold rf_feed.
  set (all := rev (wm_f_buf (wm_fx_fsr x)) ++ data).
  pose proof (rf_cut_spec (S (length all)) (N.to_nat (sg_spd d)) all ltac:(lia) ltac:(lia)) as H.
  destruct (rf_cut (S (length all)) (N.to_nat (sg_spd d)) all) as [bl r]. destruct H as (A & _ & _).
  unfold rf_binv. cbn. unfold rf_len. rewrite rev_length. split; [reflexivity|lia].
Qed.

Lemma rf_feed_nil : forall d x, 0 < sg_spd d -> rf_binv (sg_spd d) (wm_fx_fsr x) -> rf_feed d x [] = x.
Proof.
  intros d x Hs (Hc & Hl). unfold rf_feed. rewrite app_nil_r.
  rewrite rf_cut_small by (rewrite rev_length; unfold rf_len in Hl; lia).
  cbn [fold_left]. apply rf_set_buf_same. exact Hc.
Qed.

Lemma rf_feed_app : forall d x a b, 0 < sg_spd d ->
  rf_feed d (rf_feed d x a) b = rf_feed d x (a ++ b).
Proof.
  intros d x a b Hs. unfold rf_feed at 2 3.
  set (all := rev (wm_f_buf (wm_fx_fsr x)) ++ a).
  replace (rev (wm_f_buf (wm_fx_fsr x)) ++ a ++ b) with (all ++ b) by (subst all; rewrite app_assoc; reflexivity).
  pose proof (rf_cut_app (S (length all)) (N.to_nat (sg_spd d)) all b ltac:(lia) ltac:(lia)) as H.
  destruct (rf_cut (S (length all)) (N.to_nat (sg_spd d)) all) as [bl r].
  rewrite H.
  unfold rf_feed. cbn [wm_fx_fsr rf_set_buf wm_fx_set_fsr wm_f_set_block wm_f_buf]. rewrite rev_involutive.
  destruct (rf_cut (S (length (r ++ b))) (N.to_nat (sg_spd d)) (r ++ b)) as [bl2 r2]. cbn [fst snd].
  rewrite fold_left_app.
  exact (rf_fold_flush_set_buf d bl2 (fold_left (rf_flush d) bl x) r r2).
Qed.

(* ---- wr_data_inner = feed ---- *)
Lemma rf_inner_feed : forall fuel d x data, 0 < sg_spd d -> rf_binv (sg_spd d) (wm_fx_fsr x) -> (length data < fuel)%nat ->
  wm_fsr_wr_inner summ1 summN fuel d x data (rf_len data) = rf_feed d x data.
Proof.
  induction fuel as [|fu IH]; intros d x data Hs Hinv Hf; [lia|].
  cbn [wm_fsr_wr_inner].
  destruct data as [|s0 data'].
  - cbn [rf_len length N.of_nat N.eqb]. symmetry. apply rf_feed_nil; assumption.
  - set (data := s0 :: data') in *.
    destruct (N.eqb_spec (rf_len data) 0) as [E|_]; [unfold rf_len in E; subst data; cbn [length] in E; lia|].
    destruct Hinv as (Hc & Hl).
    set (f := wm_fx_fsr x) in *.
    set (room := sg_spd d - wm_f_count f).
    set (len := if rf_len data <? room then rf_len data else room).
    set (take := firstn (N.to_nat len) data).
    assert (Hlen : 1 <= len /\ len <= rf_len data /\ len <= room).
    { subst len room. assert (1 <= rf_len data) by (unfold rf_len; subst data; cbn [length]; lia). destruct (N.ltb_spec (rf_len data) (sg_spd d - wm_f_count f)); lia. }
    assert (Htl : rf_len take = len).
    { subst take. unfold rf_len. rewrite firstn_length. unfold rf_len in Hlen. lia. }
    set (x1 := wm_fx_set_fsr x _).
    assert (Ex1 : x1 = rf_set_buf x (rev (wm_f_buf f) ++ take)).
    { subst x1. unfold rf_set_buf. fold f. f_equal. f_equal.
      - unfold rf_len. rewrite app_length, rev_length, Nat2N.inj_add. fold (rf_len (wm_f_buf f)). fold (rf_len take). rewrite Htl, Hc. reflexivity.
      - rewrite rev_app_distr, rev_involutive, rev_append_rev. reflexivity. }
    cbn [wm_f_count wm_f_set_block].
    assert (Hsk : rf_len (skipn (N.to_nat len) data) = rf_len data - len).
    { unfold rf_len. rewrite skipn_length. unfold rf_len in Hlen. lia. }
    rewrite <- Hsk.
    set (all := rev (wm_f_buf f) ++ data).
    assert (Hall : all = (rev (wm_f_buf f) ++ take) ++ skipn (N.to_nat len) data).
    { subst all take. rewrite <- app_assoc, firstn_skipn. reflexivity. }
    destruct (N.leb_spec (sg_spd d) (wm_f_count f + len)) as [Hfull|Hpart].
    + (* the block is full *)
      assert (Hlr : len = room) by lia.
      assert (Hbl : length (rev (wm_f_buf f) ++ take) = N.to_nat (sg_spd d)).
      { rewrite app_length, rev_length. unfold rf_len in *. lia. }
      rewrite IH; [|exact Hs| |rewrite skipn_length; subst data; cbn [length] in *; lia].
      2:{ rewrite Ex1. fold (rf_flush d x (rev (wm_f_buf f) ++ take)).
          destruct (rf_flush_blk d x (rev (wm_f_buf f) ++ take)) as (_ & _ & _ & A & B & _).
          { intro E. rewrite E in Hbl. cbn in Hbl. lia. }
          unfold rf_binv. rewrite A, B. cbn. split; [reflexivity|lia]. }
      rewrite Ex1. fold (rf_flush d x (rev (wm_f_buf f) ++ take)).
      unfold rf_feed at 2. fold f. fold all.
      rewrite rf_cut_big; [| lia | rewrite Hall, app_length; lia | lia].
      assert (E1 : firstn (N.to_nat (sg_spd d)) all = rev (wm_f_buf f) ++ take).
      { rewrite Hall. rewrite <- Hbl. rewrite firstn_app, Nat.sub_diag, firstn_all. cbn. apply app_nil_r. }
      assert (E2 : skipn (N.to_nat (sg_spd d)) all = skipn (N.to_nat len) data).
      { rewrite Hall. rewrite <- Hbl. rewrite skipn_app, Nat.sub_diag, skipn_all. reflexivity. }
      rewrite E1, E2. cbn [fold_left].
      unfold rf_feed.
      destruct (rf_flush_blk d x (rev (wm_f_buf f) ++ take)) as (_ & _ & _ & _ & B & _).
      { intro E. rewrite E in Hbl. cbn in Hbl. lia. }
      rewrite B. cbn [rev app].
      destruct (rf_cut (S (length (skipn (N.to_nat len) data))) (N.to_nat (sg_spd d)) (skipn (N.to_nat len) data)) as [bl r].
      reflexivity.
    + (* everything fits *)
      assert (Hld : len = rf_len data) by (subst len room; destruct (N.ltb_spec (rf_len data) (sg_spd d - wm_f_count f)); lia).
      assert (Htk : take = data) by (subst take; rewrite Hld; unfold rf_len; rewrite Nat2N.id; apply firstn_all).
      assert (Hsn : skipn (N.to_nat len) data = []) by (rewrite Hld; unfold rf_len; rewrite Nat2N.id; apply skipn_all).
      rewrite Hsn. 
      assert (E0 : wm_fsr_wr_inner summ1 summN fu d x1 [] (rf_len []) = x1) by (destruct fu; reflexivity).
      rewrite E0. rewrite Ex1, Htk.
      unfold rf_feed. fold f. fold all.
      rewrite rf_cut_small; [reflexivity|].
      subst all. rewrite app_length, rev_length. unfold rf_len in *. lia.
Qed.

(* ---- the gap-fill loop = feeding the fill value ---- *)
Lemma rf_gap_loop_feed : forall fuel d x skip buf_sz, 0 < sg_spd d -> rf_binv (sg_spd d) (wm_fx_fsr x) ->
  0 < buf_sz -> (N.to_nat (skip / buf_sz) < fuel)%nat ->
  wm_fsr_gap_loop summ1 summN fuel d x skip buf_sz = rf_feed d x (repeat (wm_fill_sample (sg_dtype d)) (N.to_nat skip)).
Proof.
  induction fuel as [|fu IH]; intros d x skip buf_sz Hs Hinv Hb Hf; [exfalso; exact (Nat.nlt_0_r _ Hf)|].
  cbn [wm_fsr_gap_loop].
  destruct (N.eqb_spec skip 0) as [->|Hne].
  - cbn [N.to_nat repeat]. symmetry. apply rf_feed_nil; assumption.
  - set (n := if skip <? buf_sz then skip else buf_sz).
    assert (Hn : 1 <= n /\ n <= skip /\ n <= buf_sz) by (subst n; destruct (N.ltb_spec skip buf_sz); lia).
    set (fill := repeat (wm_fill_sample (sg_dtype d)) (N.to_nat n)).
    assert (Hfl : rf_len fill = n) by (subst fill; unfold rf_len; rewrite repeat_length; lia).
    rewrite <- Hfl at 2.
    rewrite rf_inner_feed; [|exact Hs|exact Hinv|subst fill; rewrite repeat_length; lia].
    assert (Hrep : repeat (wm_fill_sample (sg_dtype d)) (N.to_nat skip) = fill ++ repeat (wm_fill_sample (sg_dtype d)) (N.to_nat (skip - n))).
    { subst fill. rewrite <- repeat_app. f_equal. lia. }
    rewrite Hrep, <- rf_feed_app by exact Hs.
    destruct (N.eqb_spec (skip - n) 0) as [E0|Hn0].
    + rewrite E0. cbn [N.to_nat repeat].
      rewrite rf_feed_nil; [|exact Hs|apply rf_feed_binv; exact Hs].
      destruct fu; cbn [wm_fsr_gap_loop N.eqb]; reflexivity.
    + assert (Hnb : n = buf_sz) by (subst n; destruct (N.ltb_spec skip buf_sz); lia).
      apply IH; [exact Hs|apply rf_feed_binv; exact Hs|lia|].
      rewrite Hnb.
      assert (skip / buf_sz = (skip - buf_sz) / buf_sz + 1).
      { replace skip with ((skip - buf_sz) + 1 * buf_sz) at 1 by lia. rewrite N.div_add by lia. reflexivity. }
      lia.
Qed.

End RF_FSR.

(* ------------------------------------------------------------------ jls_wr_fsr_data = feed of Spec's extension *)
Section RF_FSR2.
Variable summ1 : N -> list N -> wm_sentry.
Variable summN : bool -> list wm_sentry -> wm_sentry.

(* the first call allocates the block buffer: timestamp = sample_id_offset = the call's sample id *)
Definition rf_alloc (x : wm_fx) (sid : Z) : wm_fx :=
  let f := wm_fx_fsr x in
  if wm_f_alloc f then x else wm_fx_set_fsr x (wm_f_set_sid0 (wm_f_set_block f true sid 0 []) sid).

(* what a call appends to the stream when the next expected sample id is [next]: Spec.fsr_write's three cases,
   with the writer's fill value *)
Definition rf_extend (dt : N) (next sid : Z) (samples : list N) : list N :=
  if (sid =? next)%Z then samples
  else if (sid <? next)%Z
       then (if (sid + Z.of_nat (length samples) <=? next)%Z then [] else skipn (Z.to_nat (next - sid)) samples)
       else repeat (wm_fill_sample dt) (Z.to_nat (sid - next)) ++ samples.

Definition rf_next (x : wm_fx) : Z := (wm_f_ts (wm_fx_fsr x) + Z.of_N (wm_f_count (wm_fx_fsr x)))%Z.

Lemma rf_alloc_binv : forall spd x sid, 0 < spd ->
  (wm_f_alloc (wm_fx_fsr x) = true -> rf_binv spd (wm_fx_fsr x)) -> rf_binv spd (wm_fx_fsr (rf_alloc x sid)).
Proof.
  intros spd x sid Hs H. unfold rf_alloc. destruct (wm_f_alloc (wm_fx_fsr x)) eqn:E; [apply H; reflexivity|].
  unfold rf_binv. cbn. split; [reflexivity|exact Hs].
Qed.

Lemma rf_fsr_data_feed : forall d x sid samples,
  0 < sg_spd d -> 0 < wm_fill_buf_samples (sg_dtype d) ->
  (wm_f_alloc (wm_fx_fsr x) = true -> rf_binv (sg_spd d) (wm_fx_fsr x)) -> samples <> [] ->
  wm_fsr_data summ1 summN d x sid samples =
  rf_feed summ1 summN d (rf_alloc x sid) (rf_extend (sg_dtype d) (rf_next (rf_alloc x sid)) sid samples).
Proof.
  intros d x sid samples Hs Hb Hinv Hne. unfold wm_fsr_data.
  fold (rf_len samples).
  destruct (N.eqb_spec (rf_len samples) 0) as [E|_]; [unfold rf_len in E; destruct samples; [congruence|cbn [length] in E; lia]|].
  pose proof (rf_alloc_binv (sg_spd d) x sid Hs Hinv) as Hinv1.
  change (wm_fx_set_fsr x (if wm_f_alloc (wm_fx_fsr x) then wm_fx_fsr x
                           else wm_f_set_sid0 (wm_f_set_block (wm_fx_fsr x) true sid 0 []) sid))
    with (wm_fx_set_fsr x (if wm_f_alloc (wm_fx_fsr x) then wm_fx_fsr x
                           else wm_f_set_sid0 (wm_f_set_block (wm_fx_fsr x) true sid 0 []) sid)).
  assert (Ex1 : wm_fx_set_fsr x (if wm_f_alloc (wm_fx_fsr x) then wm_fx_fsr x
                                 else wm_f_set_sid0 (wm_f_set_block (wm_fx_fsr x) true sid 0 []) sid) = rf_alloc x sid).
  { unfold rf_alloc. destruct (wm_f_alloc (wm_fx_fsr x)); [destruct x; reflexivity|reflexivity]. }
  assert (Ef1 : (if wm_f_alloc (wm_fx_fsr x) then wm_fx_fsr x
                 else wm_f_set_sid0 (wm_f_set_block (wm_fx_fsr x) true sid 0 []) sid) = wm_fx_fsr (rf_alloc x sid)).
  { unfold rf_alloc. destruct (wm_f_alloc (wm_fx_fsr x)); reflexivity. }
  rewrite Ex1, Ef1.
  set (x1 := rf_alloc x sid) in *.
  fold (rf_next x1). unfold rf_extend.
  set (next := rf_next x1).
  destruct (Z.eqb_spec sid next) as [Eq|Hneq].
  - apply rf_inner_feed; [exact Hs|exact Hinv1|lia].
  - destruct (Z.ltb_spec sid next) as [Hlt|Hge].
    + replace (Z.of_N (rf_len samples)) with (Z.of_nat (length samples)) by (unfold rf_len; lia).
      destruct (Z.leb_spec (sid + Z.of_nat (length samples)) next) as [Hle|Hgt].
      * symmetry. apply rf_feed_nil; assumption.
      * set (ffwd := Z.to_N (next - sid)).
        assert (Hsk : rf_len (skipn (N.to_nat ffwd) samples) = rf_len samples - ffwd).
        { unfold rf_len. rewrite skipn_length. subst ffwd. lia. }
        rewrite <- Hsk.
        replace (Z.to_nat (next - sid)) with (N.to_nat ffwd) by (subst ffwd; lia).
        apply rf_inner_feed; [exact Hs|exact Hinv1|rewrite skipn_length; lia].
    + set (skip := Z.to_N (sid - next)).
      rewrite rf_gap_loop_feed; [|exact Hs|exact Hinv1|exact Hb|lia].
      rewrite rf_inner_feed; [|exact Hs|apply rf_feed_binv; exact Hs|lia].
      rewrite rf_feed_app by exact Hs.
      replace (Z.to_nat (sid - next)) with (N.to_nat skip) by (subst skip; lia). reflexivity.
Qed.

End RF_FSR2.

(* ------------------------------------------------------------------ wm_pack: length *)
Ltac Zify.zify_post_hook ::= Z.div_mod_to_equations.

Lemma rf_pack_sub_len : forall w l acc nbits, w < 8 -> nbits < 8 ->
  rf_len (wm_pack_sub w l acc nbits) = (nbits + rf_len l * w + 7) / 8.
Proof.
  intros w l. induction l as [|s r IH]; intros acc nbits Hw Hn; cbn [wm_pack_sub].
  - unfold rf_len. cbn [length]. destruct (N.eqb_spec nbits 0) as [->|Hne]; cbn [length]; lia.
  - destruct (N.leb_spec 8 (nbits + w)) as [Hge|Hlt].
    + unfold rf_len in *. cbn [length]. rewrite Nat2N.inj_succ, <- N.add_1_l. rewrite IH by lia. lia.
    + rewrite IH by lia. unfold rf_len. cbn [length]. lia.
Qed.

Lemma rf_pack_len : forall w l, (w < 8 \/ w mod 8 = 0) ->
  rf_len (wm_pack w l) = (rf_len l * w + 7) / 8.
Proof.
  intros w l Hw. unfold wm_pack. destruct (N.ltb_spec w 8) as [Hlt|Hge].
  - rewrite rf_pack_sub_len by lia. f_equal.
  - destruct Hw as [Hw|Hw]; [lia|].
    unfold rf_len. induction l as [|s r IH]; cbn [flat_map length]; [reflexivity|].
    rewrite app_length, fm_enc_length, Nat2N.inj_add, IH. lia.
Qed.
