(* C04 (algebra part): guaranteed error detection of the CRC-32C that protects jls
   headers and payloads.  Setting (see CrcAlg.v): a message m is followed by the 4
   bytes of crc_spec m, little endian; an error xors e onto the message (same
   length) and the 4 bytes esb onto the stored CRC, so the reader compares
   crc_spec (xor_bytes m e)  with  crc_spec m xor le esb.  The error pattern of
   the whole protected region, read as one little-endian integer, is
   le (e ++ esb)  (bit 8*i+j = bit j of byte i), the region has
   8 * length (e ++ esb) bits, and  weight  counts one bits
   (weight (le l) = list_sum (map weight l) on bytes: CrcAlg.weight_le).
   Proofs are in CrcAlg.v. *)
From Coq Require Import NArith List.
From JLS Require Import Generated CrcDefs CrcProofs CrcAlg.
Import ListNotations.
Local Open Scope N_scope.

(* every error with an odd number of flipped bits (message and stored CRC taken
   together) fails the check; any length *)
Theorem C04_odd_weight_detected :
  forall m e esb : list N,
  length m = length e -> length esb = 4%nat -> bytes_ok e -> bytes_ok esb ->
  Nat.odd (weight (le (e ++ esb))) = true ->
  (crc_spec (xor_bytes m e) =? N.lxor (crc_spec m) (le esb)) = false.
Proof. exact odd_weight_detected. Qed.
Print Assumptions C04_odd_weight_detected.

(* every non-zero error confined to 32 consecutive bits v << k of the region
   (including windows that straddle the message / stored-CRC boundary) fails the
   check; any length *)
Theorem C04_burst_detected :
  forall m e esb : list N,
  length m = length e -> length esb = 4%nat -> bytes_ok e -> bytes_ok esb ->
  (exists (v : N) (k : nat), 0 < v /\ v < 2 ^ 32 /\ (k <= 8 * length (e ++ esb))%nat /\
     le (e ++ esb) = N.shiftl v (N.of_nat k)) ->
  (crc_spec (xor_bytes m e) =? N.lxor (crc_spec m) (le esb)) = false.
Proof. exact burst_detected. Qed.
Print Assumptions C04_burst_detected.

(* the LFSR never maps the word 1 to itself in fewer than 2^31-1 steps:
   direct sweep for d <= 2^24 ... *)
Theorem C04_two_bit_detected_bounded :
  forall d : nat, (0 < d)%nat -> N.of_nat d <= 16777216 -> U d 1 <> 1.
Proof. exact two_bit_bounded. Qed.
Print Assumptions C04_two_bit_detected_bounded.

(* ... and for every d below the period 2^31-1 (matrix order + primality) *)
Theorem C04_two_bit_detected_unbounded :
  forall d : nat, (0 < d)%nat -> N.of_nat d < 2147483647 -> U d 1 <> 1.
Proof. exact two_bit_unbounded. Qed.
Print Assumptions C04_two_bit_detected_unbounded.

(* hence any two flipped bits i < j of a region of at most 2^31-1 bits fail the
   check *)
Theorem C04_two_bit_detected :
  forall m e esb : list N,
  length m = length e -> length esb = 4%nat -> bytes_ok e -> bytes_ok esb ->
  forall i j : nat,
  N.of_nat (8 * length (e ++ esb)) <= 2147483647 ->
  (i < j)%nat -> (j < 8 * length (e ++ esb))%nat ->
  le (e ++ esb) = N.lxor (N.shiftl 1 (N.of_nat i)) (N.shiftl 1 (N.of_nat j)) ->
  (crc_spec (xor_bytes m e) =? N.lxor (crc_spec m) (le esb)) = false.
Proof. exact two_bit_detected. Qed.
Print Assumptions C04_two_bit_detected.

(* combined: in a region of at most 2^31-1 bits every non-zero error with at most
   three flipped bits, and every 32-bit burst, fails the check *)
Theorem C04_detects :
  forall m e esb : list N,
  length m = length e -> length esb = 4%nat -> bytes_ok e -> bytes_ok esb ->
  N.of_nat (8 * length (e ++ esb)) <= 2147483647 ->
  le (e ++ esb) <> 0 ->
  ((weight (le (e ++ esb)) <= 3)%nat \/
   (exists (v : N) (k : nat), 0 < v /\ v < 2 ^ 32 /\ (k <= 8 * length (e ++ esb))%nat /\
      le (e ++ esb) = N.shiftl v (N.of_nat k))) ->
  (crc_spec (xor_bytes m e) =? N.lxor (crc_spec m) (le esb)) = false.
Proof. exact detects. Qed.
Print Assumptions C04_detects.

(* the exact criterion behind all of the above: the corrupted data passes the check
   iff the region error, shifted through the LFSR once per region bit, vanishes *)
Theorem C04_undetected_iff :
  forall m e esb : list N,
  length m = length e -> length esb = 4%nat -> bytes_ok e -> bytes_ok esb ->
  ((crc_spec (xor_bytes m e) =? N.lxor (crc_spec m) (le esb)) = true <->
   U (8 * length (e ++ esb)) (le (e ++ esb)) = 0).
Proof. exact region_undetected_iff. Qed.
Print Assumptions C04_undetected_iff.
