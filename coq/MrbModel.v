(* Message ring buffer: /repo/src/msg_ring_buffer.c (jls_mrb_init / clear / alloc /
   peek / pop), statement by statement.  Definitions only; proofs are in MrbProofs.v.

   Memory is `buf : list N` (bytes are N < 256) of `size` bytes.  Every byte the C
   writes goes through `set`, every byte it reads through `get`; outside [0,size)
   they return the explicit results `Fault (OOB_write i)` / `Fault (OOB_read i)`
   (the C would touch memory outside its buffer there).
   uint32_t arithmetic is `u32` (mod 2^32) wherever the C computes in uint32_t.
   `x & 0xff` / `x >> k` are N.land / N.shiftr, `|` / `<<` are N.lor / N.shiftl. *)
From Coq Require Import NArith List Bool.
Import ListNotations.
Local Open Scope N_scope.

Inductive fault := OOB_write (i : N) | OOB_read (i : N).
Inductive res (A : Type) := Ok (a : A) | Fault (f : fault).
Arguments Ok {A} a.
Arguments Fault {A} f.
Definition bind {A B : Type} (r : res A) (k : A -> res B) : res B :=
  match r with Ok a => k a | Fault f => Fault f end.

Definition msg := list N.

(* struct jls_mrb_s *)
Record mrb := mk_mrb { head : N; tail : N; count : N; buf : list N; size : N }.

Definition u32 (x : N) : N := x mod 4294967296.
Definition len (d : list N) : N := N.of_nat (length d).

(* ---- checked memory access ---- *)
Definition byte_at (b : list N) (i : N) : N := nth (N.to_nat i) b 0.
Fixpoint upd (b : list N) (i : nat) (v : N) : list N :=
  match b with
  | [] => []
  | x :: r => match i with O => v :: r | S i' => x :: upd r i' v end
  end.
Definition get (b : list N) (B i : N) : res N :=
  if i <? B then Ok (byte_at b i) else Fault (OOB_read i).
Definition set (b : list N) (B i v : N) : res (list N) :=
  if i <? B then Ok (upd b (N.to_nat i) v) else Fault (OOB_write i).

(* static inline uint8_t * add_sz(uint8_t * p, uint32_t sz): p[0..3] = sz little-endian *)
Definition add_sz (b : list N) (B p sz : N) : res (list N) :=
  bind (set b B p (N.land sz 255)) (fun b1 =>
  bind (set b1 B (p + 1) (N.land (N.shiftr sz 8) 255)) (fun b2 =>
  bind (set b2 B (p + 2) (N.land (N.shiftr sz 16) 255)) (fun b3 =>
  set b3 B (p + 3) (N.land (N.shiftr sz 24) 255)))).

(* static inline uint32_t get_sz(uint8_t const * p) *)
Definition get_sz (b : list N) (B p : N) : res N :=
  bind (get b B p) (fun b0 =>
  bind (get b B (p + 1)) (fun b1 =>
  bind (get b B (p + 2)) (fun b2 =>
  bind (get b B (p + 3)) (fun b3 =>
  Ok (N.lor (N.lor (N.lor b0 (N.shiftl b1 8)) (N.shiftl b2 16)) (N.shiftl b3 24)))))).

(* ---- jls_mrb_init / jls_mrb_clear (memset 0) ---- *)
Definition init (B : N) : mrb :=
  mk_mrb 0 0 0 (repeat 0 (N.to_nat B)) B.
Definition clear (s : mrb) : mrb :=
  mk_mrb 0 0 0 (repeat 0 (N.to_nat (size s))) (size s).

(* ---- jls_mrb_alloc ----
   Result: Ok (s', Some p) = returned pointer is buf + p;  Ok (s', None) = NULL. *)

(* the common tail of jls_mrb_alloc:
     p = add_sz(p, size); head = (p - buf) + size; if (head >= buf_size) head = 0;
     self->head = head; ++self->count; return p;
   s0 carries the head/tail fields as they are in *self at that point, b the memory *)
Definition place (s0 : mrb) (b : list N) (p sz : N) : res (mrb * option N) :=
  let B := size s0 in
  bind (add_sz b B p sz) (fun b' =>
    let p' := p + 4 in
    let h1 := u32 (u32 p' + sz) in
    let h2 := if B <=? h1 then 0 else h1 in
    Ok (mk_mrb h2 (tail s0) (u32 (count s0 + 1)) b' B, Some p')).

(* everything after the `size > buf_size` test *)
Definition alloc_body (s : mrb) (sz : N) : res (mrb * option N) :=
  let B := size s in
  let h := head s in
  let t := tail s in
  if t <=? h then
    let end_idx := u32 (h + 4 + sz + 4 + (if t =? 0 then 1 else 0)) in
    if end_idx <? B then
      place s (buf s) h sz                               (* fits as is, no wrap *)
    else if u32 (sz + 5) <? t then                       (* fits after wrap *)
      bind (add_sz (buf s) B h 4294967295) (fun b' => place s b' 0 sz)
    else if h =? t then                                  (* empty: reset pointers *)
      place (mk_mrb 0 0 (count s) (buf s) B) (buf s) 0 sz
    else Ok (s, None)
  else if u32 (h + sz + 5) <? t then
    place s (buf s) h sz
  else Ok (s, None).

(* the function as it is in /repo *)
Definition alloc (s : mrb) (sz : N) : res (mrb * option N) :=
  if size s <? sz then Ok (s, None) else alloc_body s sz.

(* the intended function: the first test becomes
     if ((self->buf_size < 8) || (size > (self->buf_size - 8)))
   i.e. 4 bytes of length prefix plus the 4 bytes that stay reserved for the wrap marker *)
Definition alloc_fixed (s : mrb) (sz : N) : res (mrb * option N) :=
  if (size s <? 8) || (size s - 8 <? sz) then Ok (s, None) else alloc_body s sz.

(* the caller copies its message into the region it was handed (memcpy(p, data, n)):
   one checked byte write after the other *)
Fixpoint fill_bytes (b : list N) (B p : N) (d : list N) : res (list N) :=
  match d with
  | [] => Ok b
  | x :: r => bind (set b B p x) (fun b' => fill_bytes b' B (p + 1) r)
  end.
Definition fill (s : mrb) (p : N) (d : list N) : res mrb :=
  bind (fill_bytes (buf s) (size s) p d) (fun b' =>
    Ok (mk_mrb (head s) (tail s) (count s) b' (size s))).

(* single-pass form of fill (proved equal in MrbProofs.fill_fast_eq); used by the driver *)
Definition blit (b : list N) (p : nat) (d : list N) : list N :=
  firstn p b ++ d ++ skipn (p + length d) b.
Definition fill_fast (s : mrb) (p : N) (d : list N) : res mrb :=
  if p + len d <=? size s then
    Ok (mk_mrb (head s) (tail s) (count s) (blit (buf s) (N.to_nat p) d) (size s))
  else if len d =? 0 then Ok s
  else Fault (OOB_write (N.max p (size s))).

(* ---- jls_mrb_peek ----  Ok (s', Some (p, sz)): returns buf + p, *size = sz *)
Definition set_tail (s : mrb) (t : N) : mrb := mk_mrb (head s) t (count s) (buf s) (size s).

Definition peek (s : mrb) : res (mrb * option (N * N)) :=
  let B := size s in
  let h := head s in
  if tail s =? h then Ok (s, None) else
  bind (get_sz (buf s) B (tail s)) (fun sz =>
    if 2147483648 <=? sz then
      (* rollover *)
      if tail s <? h then Ok (clear s, None)           (* "buffer overflow": jls_mrb_clear *)
      else
        let s1 := set_tail s 0 in
        if 0 =? h then Ok (s1, None)
        else bind (get_sz (buf s) B 0) (fun sz' => Ok (s1, Some (4, sz')))
    else Ok (s, Some (tail s + 4, sz))).

(* ---- jls_mrb_pop ---- *)
Definition pop (s : mrb) : res (mrb * option (N * N)) :=
  bind (peek s) (fun r =>
    match r with
    | (s1, None) => Ok (s1, None)
    | (s1, Some (p, sz)) =>
      let t1 := u32 (tail s1 + u32 (4 + sz)) in
      let t2 := if size s1 <=? t1 then u32 (t1 - size s1) else t1 in
      let c := if count s1 =? 0 then 0 else count s1 - 1 in
      Ok (mk_mrb (head s1) t2 c (buf s1) (size s1), Some (p, sz))
    end).

(* the consumer reads the message it was handed: sz checked byte reads at p.. *)
Definition slice (b : list N) (p sz : N) : list N :=
  firstn (N.to_nat sz) (skipn (N.to_nat p) b).
Definition read_msg (s : mrb) (p sz : N) : res msg :=
  if p + sz <=? size s then Ok (slice (buf s) p sz)
  else Fault (OOB_read (N.max p (size s))).

(* ---- operation programs ---- *)
Inductive op := OAlloc (d : msg) | OPeek | OPop.
Inductive out := RAlloc (p : option N) | RMsg (r : option (N * msg)).

Definition deliver (r : res (mrb * option (N * N))) : res (mrb * out) :=
  bind r (fun x =>
    match x with
    | (s1, None) => Ok (s1, RMsg None)
    | (s1, Some (p, sz)) => bind (read_msg s1 p sz) (fun m => Ok (s1, RMsg (Some (p, m))))
    end).

Definition step (al : mrb -> N -> res (mrb * option N)) (s : mrb) (o : op) : res (mrb * out) :=
  match o with
  | OAlloc d =>
    bind (al s (len d)) (fun x =>
      match x with
      | (s1, None) => Ok (s1, RAlloc None)
      | (s1, Some p) => bind (fill s1 p d) (fun s2 => Ok (s2, RAlloc (Some p)))
      end)
  | OPeek => deliver (peek s)
  | OPop => deliver (pop s)
  end.

Fixpoint run (al : mrb -> N -> res (mrb * option N)) (s : mrb) (ops : list op) : res (mrb * list out) :=
  match ops with
  | [] => Ok (s, [])
  | o :: r => bind (step al s o) (fun x => bind (run al (fst x) r) (fun y => Ok (fst y, snd x :: snd y)))
  end.

(* ---- abstraction: walk from tail to head following the size prefixes and the
   wrap marker; extents = (payload offset, size) of every un-popped message ---- *)
Definition rd_sz (b : list N) (p : N) : N :=
  N.lor (N.lor (N.lor (byte_at b p) (N.shiftl (byte_at b (p + 1)) 8))
               (N.shiftl (byte_at b (p + 2)) 16)) (N.shiftl (byte_at b (p + 3)) 24).

Fixpoint walk (fuel : nat) (b : list N) (h pos : N) : list (N * N) :=
  match fuel with
  | O => []
  | S f =>
    if pos =? h then [] else
    let sz := rd_sz b pos in
    if 2147483648 <=? sz then walk f b h 0
    else (pos + 4, sz) :: walk f b h (pos + 4 + sz)
  end.

Definition extents (s : mrb) : list (N * N) :=
  walk (N.to_nat (size s / 4) + 2) (buf s) (head s) (tail s).
Definition mrb_abs (s : mrb) : list msg :=
  map (fun e => slice (buf s) (fst e) (snd e)) (extents s).

(* ---- the abstract FIFO: consistency of an observed run with a queue of messages ---- *)
Fixpoint fifo (q : list msg) (ops : list op) (outs : list out) : option (list msg) :=
  match ops, outs with
  | [], [] => Some q
  | OAlloc d :: ops', RAlloc (Some _) :: outs' => fifo (q ++ [d]) ops' outs'
  | OAlloc d :: ops', RAlloc None :: outs' => fifo q ops' outs'
  | OPeek :: ops', RMsg None :: outs' => match q with [] => fifo q ops' outs' | _ => None end
  | OPeek :: ops', RMsg (Some (_, m)) :: outs' =>
    match q with m' :: _ => if list_eq_dec N.eq_dec m m' then fifo q ops' outs' else None | [] => None end
  | OPop :: ops', RMsg None :: outs' => match q with [] => fifo q ops' outs' | _ => None end
  | OPop :: ops', RMsg (Some (_, m)) :: outs' =>
    match q with m' :: q' => if list_eq_dec N.eq_dec m m' then fifo q' ops' outs' else None | [] => None end
  | _, _ => None
  end.

(* ---- what "fits" means (see MrbProofs.alloc_fail_sound) ----
   Free space is the run [head, size) and the run [0, tail) when tail <= head, and the
   run [head, tail) when head < tail.  A message of sz bytes needs 4 + sz bytes.  The
   layout additionally keeps, after a message placed in the run that ends at `size`,
   4 bytes for a future wrap marker plus 1 byte (2 when tail = 0) so that head never
   reaches `size`; and after a message placed in a run that ends at tail, 2 bytes so
   that head never reaches tail (head = tail means empty).  An empty queue always
   fits a message of at most usable_capacity bytes (pointers are reset). *)
Definition usable_capacity (B : N) : N := B - 8.
Definition usable (B sz : N) : Prop := sz + 8 <= B.
Definition free_runs (s : mrb) : list N :=
  if tail s <=? head s then [size s - head s; tail s] else [tail s - head s].
Definition fits (s : mrb) (sz : N) : Prop :=
  usable (size s) sz /\
  (head s = tail s \/
   (tail s <= head s /\ head s + (4 + sz) + 4 + (if tail s =? 0 then 2 else 1) <= size s) \/
   (tail s <= head s /\ (4 + sz) + 2 <= tail s) \/
   (head s < tail s /\ head s + (4 + sz) + 2 <= tail s)).

(* ================= specification-level definitions (used in the theorem statements) ============ *)
Definition nlen (es : list (N * N)) : N := N.of_nat (length es).

(* [a,e) is exactly tiled by the messages es = (payload offset, size), each preceded by
   its 4-byte little-endian size *)
Fixpoint SegE (b : list N) (a e : N) (es : list (N * N)) : Prop :=
  match es with
  | [] => a = e
  | x :: r => fst x = a + 4 /\ snd x < 2147483648 /\ fst x + snd x <= e /\ rd_sz b a = snd x /\
              SegE b (fst x + snd x) e r
  end.

(* representation invariant: es are the un-popped messages in order.  Either tail <= head and
   [tail, head) is tiled by es (and 4 bytes for a wrap marker remain after head), or the queue
   is wrapped: [tail, m) tiled by es1, a marker (bit 31 set) at m, [0, head) tiled by es2 *)
Definition is_marker (b : list N) (m : N) : Prop := 2147483648 <= rd_sz b m.

Definition Rep (s : mrb) (es : list (N * N)) : Prop :=
  len (buf s) = size s /\ size s <= 2147483648 /\
  ((tail s <= head s /\ (head s + 4 <= size s \/ head s = 0) /\ SegE (buf s) (tail s) (head s) es)
   \/ (exists m es1 es2,
         head s < tail s /\ tail s <= m /\ m + 4 <= size s /\ is_marker (buf s) m /\
         SegE (buf s) (tail s) m es1 /\ SegE (buf s) 0 (head s) es2 /\ es2 <> [] /\ es = es1 ++ es2)).

Definition MInv (s : mrb) : Prop := exists es, Rep s es /\ count s = nlen es.

(* the region [p-4, p+sz) (length prefix and payload of the new message) does not meet
   [o-4, o+z) for any un-popped message (o, z) *)
Definition disjoint_from_live (s : mrb) (p sz : N) : Prop :=
  Forall (fun x => p + sz + 4 <= fst x \/ fst x + snd x + 4 <= p) (extents s).

(* guard for the function as it is in /repo: no message size in (capacity-8, capacity] *)
Definition op_guard (B : N) (o : op) : Prop :=
  match o with OAlloc d => len d + 8 <= B \/ B < len d | _ => True end.

(* the three-operation program used to show that the guard is tight *)
Definition misbehaves (al : mrb -> N -> res (mrb * option N)) (B sz : N) : bool :=
  let prog := [OAlloc (repeat 7 (N.to_nat sz)); OPop; OAlloc []] in
  match run al (init B) prog with
  | Fault _ => true
  | Ok (_, outs) => match fifo [] prog outs with None => true | Some _ => false end
  end.

(* example program: leaves a wrapped queue of capacity 48 holding three messages *)
Definition ex_ops : list op :=
  [OAlloc (repeat 1 10); OAlloc (repeat 2 10); OPop; OAlloc (repeat 3 10); OAlloc (repeat 4 2)].
