(* COMPOSITION, part 1 (C14 with C10, C14 with C06): theorems that chain results of separate layers; no new model.

   cmp_wo_*          the write-once theorems of the byte-exact writer model (Properties_C14_writer.v, guard
                     "wm_st_fault = false": the model stayed in its domain) composed with the fault-freedom theorem of
                     the same model (Properties_C10.v: C10_sync_writer_never_faults): the no-fault guard is REPLACED by
                     C10's two modelling guards on the PROGRAM (fewer than 10^15 calls; the sample ids of the jls_wr_fsr
                     calls lie in one window of 10^15).  The size guard on the LOG (every write shorter than 2^32 bytes
                     and ending below 2^64) stays: no theorem of the development bounds the log by the program.
   cmp_twr_*         the threaded-writer protocol model (TwrModel.v) abstracts the synchronous writer completely: its
                     ghost field tw_applied lists the operations handed to the writer (TwADef i d: a definition call of
                     producer i, identified by a number; TwAMsg m: a queued message as bytes; TwAEnd: jls_wr_close) and
                     "the file" is a fold of ANY function over that list (tw_writer_run).  What C06_file_refines_sync
                     gives is therefore a statement about that LIST.  The corollary here: for every schedule, every
                     reading [dec] of the applied operations as writer calls (the message formats of
                     threaded_writer.c are not modelled: [dec] is universally quantified), the backend log of the
                     synchronous writer model run on the decoded call sequence - which is, by C06, the accepted
                     messages in acceptance order with the definitions at their process-lock positions, then the close,
                     nothing after it - passes the write-once checker, and so does every prefix of it.
                     NOT covered: the interleaving of the backend writes themselves.  In the protocol model a writer
                     call is atomic at the step that takes process_mutex; that the backend writes of a definition call
                     (producer thread) and of the consumer never interleave in the C rests on C06_mutex_excl (m = 1)
                     and on the scheduling harness with every backend write a scheduling point (tools/props/C14.py). *)
From Coq Require Import NArith ZArith List Bool Lia.
From JLS Require Import Generated CrcDefs Spec Format WriteOnce WriteOnceProofs WmRaw WmCore WmTs WmFsr WriterModel WmProofs
                        WmWriteOnce WmWriteOnce2 WmWriteOnce3 WmWriteOnce4 SafeProofs3 SafeProofs5
                        MrbModel TwrModel TwrProofs.
Import ListNotations.
Local Open Scope N_scope.

(* ================================================================ C14 under C10's guards *)
Section CMP_WO.
Variable summ1 : N -> list N -> wm_sentry.
Variable summN : bool -> list wm_sentry -> wm_sentry.
Variable p : list wop.
Variable lo : Z.
Hypothesis G1 : N.of_nat (length p) < 1000000000000000.
Hypothesis G2 : forall sig sid samples, In (WFsr sig sid samples) p ->
  (lo <= sid /\ sid + Z.of_nat (length samples) < lo + 1000000000000000)%Z.

Lemma cmp_nofault_full : wm_st_fault (fst (wm_run_full summ1 summN p)) = false.
Proof. exact (proj1 (sf_C10_writer summ1 summN p lo G1 G2)). Qed.
Lemma cmp_nofault_open : wm_st_fault (fst (wm_steps summ1 summN wm_api_open p [])) = false.
Proof. exact (proj2 (sf_C10_writer summ1 summN p lo G1 G2)). Qed.

Lemma cmp_wo_log_accepted :
  let st := fst (wm_run_full summ1 summN p) in
  wmw_bounded (wm_st_log st) -> wo_check_log (wmw_evs (wm_st_log st)) = true.
Proof. intros st Hb. exact (wmw_run_accepted summ1 summN p cmp_nofault_full Hb). Qed.

Lemma cmp_wo_log_accepted_open :
  let st := fst (wm_steps summ1 summN wm_api_open p []) in
  wmw_bounded (wm_st_log st) -> wo_check_log (wmw_evs (wm_st_log st)) = true.
Proof. intros st Hb. exact (wmw_steps_accepted summ1 summN p cmp_nofault_open Hb). Qed.

Lemma cmp_wo_prefix_accepted :
  let st := fst (wm_run_full summ1 summN p) in
  wmw_bounded (wm_st_log st) -> forall k, wo_check_log (firstn k (wmw_evs (wm_st_log st))) = true.
Proof. intros st Hb. exact (wmw_prefix_accepted summ1 summN p cmp_nofault_full Hb). Qed.

Lemma cmp_wo_write_once :
  let st := fst (wm_run_full summ1 summN p) in
  wmw_bounded (wm_st_log st) ->
  forall l1 w l2, wmw_evs (wm_st_log st) = l1 ++ w :: l2 ->
    let f := wo_file_after l1 in
    let f' := wo_file_after (l1 ++ [w]) in
    (length f <= length f')%nat /\
    forall o h, wo_completed f o h ->
      (exists h', fm_decode_chunk_header (skipn (N.to_nat o) f') = Some h' /\
         fm_item_prev h' = fm_item_prev h /\ fm_tag h' = fm_tag h /\ fm_rsv0 h' = fm_rsv0 h /\
         fm_chunk_meta h' = fm_chunk_meta h /\ fm_payload_length h' = fm_payload_length h /\
         fm_payload_prev_length h' = fm_payload_prev_length h) /\
      (fm_is_head_tag (fm_tag h) = false ->
         forall i, o + 32 <= i -> i < o + fm_chunk_size (fm_payload_length h) -> nth (N.to_nat i) f' 0 = nth (N.to_nat i) f 0).
Proof. intros st Hb. exact (wmw_run_write_once summ1 summN p cmp_nofault_full Hb). Qed.

Lemma cmp_wo_write_once_open :
  let st := fst (wm_steps summ1 summN wm_api_open p []) in
  wmw_bounded (wm_st_log st) ->
  forall l1 w l2, wmw_evs (wm_st_log st) = l1 ++ w :: l2 ->
    let f := wo_file_after l1 in
    let f' := wo_file_after (l1 ++ [w]) in
    (length f <= length f')%nat /\
    forall o h, wo_completed f o h ->
      (exists h', fm_decode_chunk_header (skipn (N.to_nat o) f') = Some h' /\
         fm_item_prev h' = fm_item_prev h /\ fm_tag h' = fm_tag h /\ fm_rsv0 h' = fm_rsv0 h /\
         fm_chunk_meta h' = fm_chunk_meta h /\ fm_payload_length h' = fm_payload_length h /\
         fm_payload_prev_length h' = fm_payload_prev_length h) /\
      (fm_is_head_tag (fm_tag h) = false ->
         forall i, o + 32 <= i -> i < o + fm_chunk_size (fm_payload_length h) -> nth (N.to_nat i) f' 0 = nth (N.to_nat i) f 0).
Proof. intros st Hb. exact (wmw_steps_write_once summ1 summN p cmp_nofault_open Hb). Qed.

End CMP_WO.

(* the guards are satisfiable: C10's misuse program (48 calls, sample ids from -5), its log is bounded and accepted *)
Lemma cmp_wo_example :
  N.of_nat (length sf_ex_prog) < 1000000000000000 /\
  (forall sig sid samples, In (WFsr sig sid samples) sf_ex_prog ->
     ((-5) <= sid /\ sid + Z.of_nat (length samples) < (-5) + 1000000000000000)%Z) /\
  wmw_bounded (wm_st_log (fst (wm_run_full wm_zero_summ1 wm_zero_summN sf_ex_prog))) /\
  (48 <= length (wm_st_log (fst (wm_run_full wm_zero_summ1 wm_zero_summN sf_ex_prog))))%nat.
Proof.
  destruct sf_ex_prog_in_guard as (A & B & _).
  split; [exact A|]. split; [exact B|].
  split; [apply wmw_bounded_b_sound; vm_compute; reflexivity|].
  apply Nat.leb_le. vm_compute. reflexivity.
Qed.

(* ================================================================ C14 for the threaded writer (protocol model) *)
(* the writer calls denoted by the applied operations before the close, under a reading [dec] of one operation
   (None: the operation makes no writer call, e.g. the CLOSE message) *)
Definition cmp_twr_calls (dec : tw_aop -> option wop) (l : list tw_aop) : list wop :=
  flat_map (fun a => match dec a with Some o => [o] | None => [] end) l.

Lemma cmp_twr_write_once : forall (fx : bool) (cap : N) (progs : list (list tw_call)) (s : tw_state),
  tw_wf cap progs -> tw_wf_close progs -> tw_reach fx cap progs s -> In TwAEnd (tw_applied s) ->
  exists l, tw_applied s = l ++ [TwAEnd] /\ ~ In TwAEnd l /\ tw_msgs_of l = tw_acc_msgs s /\
    forall (dec : tw_aop -> option wop) summ1 summN (lo : Z),
      let p := cmp_twr_calls dec l in
      let st := fst (wm_run_full summ1 summN p) in
      N.of_nat (length p) < 1000000000000000 ->
      (forall sig sid samples, In (WFsr sig sid samples) p ->
         (lo <= sid /\ sid + Z.of_nat (length samples) < lo + 1000000000000000)%Z) ->
      wmw_bounded (wm_st_log st) ->
      wm_st_fault st = false /\
      wo_check_log (wmw_evs (wm_st_log st)) = true /\
      forall k, wo_check_log (firstn k (wmw_evs (wm_st_log st))) = true.
Proof.
  intros fx cap progs s Hwf Hcl Hreach Hend.
  destruct (tw_close_post fx cap progs s Hwf Hcl Hreach Hend) as (_ & _ & _ & _ & Hmsgs & l & Hl & Hnin).
  exists l. split; [exact Hl|]. split; [exact Hnin|]. split.
  - rewrite <- Hmsgs, Hl. clear. induction l as [|a l IH]; [reflexivity|]. cbn [app tw_msgs_of]. destruct a; rewrite <- ?IH; reflexivity.
  - intros dec summ1 summN lo p st G1 G2 Hb.
    split; [exact (cmp_nofault_full summ1 summN p lo G1 G2)|].
    split; [exact (cmp_wo_log_accepted summ1 summN p lo G1 G2 Hb)|exact (cmp_wo_prefix_accepted summ1 summN p lo G1 G2 Hb)].
Qed.

(* satisfiable: the complete run of Properties_C06 (two producers: flush, user data, flush, close | omit), with a
   reading that maps the user-data message to a jls_wr_user_data call and the flush messages to jls_wr_flush *)
Definition cmp_twr_ex_dec (a : tw_aop) : option wop :=
  match a with
  | TwAMsg m => if tw_kind_of m =? 1 then Some WFlush
                else if tw_kind_of m =? 2 then Some (WUd {| ud_meta := 1; ud_stype := 1; ud_data := tl m |})
                else if tw_kind_of m =? 4 then Some (WOmit 1 1)
                else None
  | _ => None
  end.

Definition cmp_twr_ex_check : bool :=
  match tw_run false (tw_init 128 tw_ex_prog) tw_ex_sched with
  | Some s =>
    let l := removelast (tw_applied s) in
    let p := cmp_twr_calls cmp_twr_ex_dec l in
    existsb (fun a => match a with TwAEnd => true | _ => false end) (tw_applied s) &&
    Nat.eqb (length p) 4 &&
    forallb (fun o => match o with WFsr _ _ _ => false | _ => true end) p &&
    wmw_bounded_b (wm_st_log (fst (wm_run_full wm_zero_summ1 wm_zero_summN p))) &&
    Nat.leb 20 (length (wm_st_log (fst (wm_run_full wm_zero_summ1 wm_zero_summN p))))
  | None => false
  end.
Lemma cmp_twr_ex_check_true : cmp_twr_ex_check = true.
Proof. vm_compute. reflexivity. Qed.

Lemma cmp_twr_example : exists s,
  tw_wf 128 tw_ex_prog /\ tw_wf_close tw_ex_prog /\ tw_reach false 128 tw_ex_prog s /\ In TwAEnd (tw_applied s) /\
  let p := cmp_twr_calls cmp_twr_ex_dec (removelast (tw_applied s)) in
  length p = 4%nat /\
  N.of_nat (length p) < 1000000000000000 /\
  (forall sig sid samples, In (WFsr sig sid samples) p -> (0 <= sid /\ sid + Z.of_nat (length samples) < 0 + 1000000000000000)%Z) /\
  wmw_bounded (wm_st_log (fst (wm_run_full wm_zero_summ1 wm_zero_summN p))) /\
  (20 <= length (wm_st_log (fst (wm_run_full wm_zero_summ1 wm_zero_summN p))))%nat.
Proof.
  pose proof cmp_twr_ex_check_true as H. unfold cmp_twr_ex_check in H.
  destruct (tw_run false (tw_init 128 tw_ex_prog) tw_ex_sched) as [s|] eqn:E; [|discriminate H].
  destruct tw_ex_wf as (Hwf & Hwc). cbv zeta in H.
  apply andb_prop in H. destruct H as (H & C5). apply andb_prop in H. destruct H as (H & C4).
  apply andb_prop in H. destruct H as (H & C3). apply andb_prop in H. destruct H as (C1 & C2).
  exists s. split; [exact Hwf|]. split; [exact Hwc|].
  split; [eapply tw_run_reach; [apply tw_reach_init|exact E]|]. clear E.
  split. { apply existsb_exists in C1. destruct C1 as (a & Hin & Ha). destruct a; try discriminate Ha. exact Hin. }
  cbv zeta. apply Nat.eqb_eq in C2. split; [exact C2|]. split; [rewrite C2; reflexivity|].
  split. { intros sig sid samples Hin. rewrite forallb_forall in C3. specialize (C3 _ Hin). discriminate C3. }
  split; [apply wmw_bounded_b_sound; exact C4|apply Nat.leb_le; exact C5].
Qed.
