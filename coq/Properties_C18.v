(* C18: the CRC-32C implementations in /repo/src (byte-wise table, slicing-by-8,
   SSE4.2 / ARM CRC instructions, and the three header variants) compute the
   bit-serial CRC-32C reference crc_spec (CrcDefs.v) on every byte list, for every
   length and every pointer alignment.  Proofs are in CrcProofs.v. *)
From Coq Require Import NArith List.
From JLS Require Import Generated CrcDefs CrcProofs.
Import ListNotations.
Local Open Scope N_scope.

(* every entry of the eight tables parsed from crc32c_sw.c is the
   8*(k+1)-fold LFSR image of its index *)
Theorem C18_table_tables :
  forall (k : nat) (i : N), (k < 8)%nat -> i < 256 -> tbl k i = U (8 * (k + 1)) i.
Proof. exact tables_ok. Qed.
Print Assumptions C18_table_tables.

Theorem C18_bytewise :
  forall l : list N, bytes_ok l -> crc32c l = crc_spec l.
Proof. exact crc32c_eq. Qed.
Print Assumptions C18_bytewise.

Theorem C18_slicing8 :
  forall (a : N) (l : list N), bytes_ok l -> crc_slice8 a l = crc_spec l.
Proof. exact crc_slice8_eq. Qed.
Print Assumptions C18_slicing8.

Theorem C18_hw :
  forall (a : N) (l : list N), bytes_ok l -> crc_hw a l = crc_spec l.
Proof. exact crc_hw_eq. Qed.
Print Assumptions C18_hw.

Theorem C18_hdr_hw :
  forall h : list N, bytes_ok h -> length h = 32%nat ->
  crc_hdr_hw h = crc_spec (firstn 28 h).
Proof. exact crc_hdr_hw_eq. Qed.
Print Assumptions C18_hdr_hw.

Theorem C18_hdr_hw32 :
  forall h : list N, bytes_ok h -> length h = 32%nat ->
  crc_hdr_hw32 h = crc_spec (firstn 28 h).
Proof. exact crc_hdr_hw32_eq. Qed.
Print Assumptions C18_hdr_hw32.

Theorem C18_hdr_slicing8 :
  forall (a : N) (h : list N), bytes_ok h -> length h = 32%nat ->
  crc_hdr_slice8 a h = crc_spec (firstn 28 h).
Proof. exact crc_hdr_slice8_eq. Qed.
Print Assumptions C18_hdr_slicing8.

Theorem C18_check_value :
  crc_spec [49;50;51;52;53;54;55;56;57] = 0xE3069283.
Proof. exact crc_check. Qed.
Print Assumptions C18_check_value.
