(* Refinement glue, FSR data: the sample packing of WmFsr (wm_pack: an accumulator for sub-byte widths,
   little-endian bytes for byte-multiple widths) is Spec.pack; the blocks handed to wr_data by any sequence of
   jls_wr_fsr_data calls (rf_blocks, RefinePyr2.v) are Spec's stream cut into blocks of samples_per_data
   samples, and, packed, they are exactly the blocks of FsrPackModel.fp_write_all.
   Definitions + proofs (glue file; nothing here changes a model). *)
From Coq Require Import NArith ZArith List Bool Lia Arith.
From Coq Require Import ZifyBool ZifyN ZifyNat.
From JLS Require Import Generated CrcDefs Spec Format FormatProofs BitCopyModel BitCopyProofs FsrPackModel FsrPackProofs
  WmRaw WmCore WmFsr RefineLog RefineFsr.
Import ListNotations.
Local Open Scope N_scope.

(* ------------------------------------------------------------------ bits of numbers *)
Lemma rb_bits_of_app : forall a b x, bits_of (a + b) x = bits_of a x ++ bits_of b (x / 2 ^ N.of_nat a).
Proof.
  intros a b x. apply (list_eq_nth false).
  - rewrite app_length, !bits_of_length. reflexivity.
  - intros i Hi. rewrite bits_of_length in Hi. rewrite bits_of_nth by exact Hi.
    destruct (Nat.ltb_spec i a) as [Hlt|Hge].
    + rewrite app_nth1 by (rewrite bits_of_length; exact Hlt). rewrite bits_of_nth by exact Hlt. reflexivity.
    + rewrite app_nth2 by (rewrite bits_of_length; exact Hge). rewrite bits_of_length.
      rewrite bits_of_nth by lia. rewrite N.div_pow2_bits. f_equal. lia.
Qed.
Lemma rb_bits_of_mod : forall a x, bits_of a (x mod 2 ^ N.of_nat a) = bits_of a x.
Proof.
  intros a x. apply (list_eq_nth false); [rewrite !bits_of_length; reflexivity|].
  intros i Hi. rewrite bits_of_length in Hi. rewrite !bits_of_nth by exact Hi.
  apply N.mod_pow2_bits_low. lia.
Qed.
Lemma rb_bits_of_small : forall a b x, x < 2 ^ N.of_nat a -> bits_of (a + b) x = bits_of a x ++ repeat false b.
Proof. intros a b x H. rewrite rb_bits_of_app, N.div_small by exact H. rewrite bits_of_0. reflexivity. Qed.

(* ------------------------------------------------------------------ sub-byte widths: the accumulator *)
Lemma rb_pack_sub_bits : forall w l acc nbits, w < 8 -> nbits < 8 -> acc < 2 ^ nbits ->
  exists pad, (pad < 8)%nat /\
    bc_bits (wm_pack_sub w l acc nbits) = bits_of (N.to_nat nbits) acc ++ sbits w l ++ repeat false pad /\
    bc_bytes_ok (wm_pack_sub w l acc nbits).
Proof.
  intros w l. induction l as [|s r IH]; intros acc nbits Hw Hn Hacc; cbn [wm_pack_sub].
  - destruct (N.eqb_spec nbits 0) as [->|Hne].
    + exists 0%nat. split; [lia|]. split; [reflexivity|constructor].
    + exists (8 - N.to_nat nbits)%nat. split; [lia|]. split.
      * rewrite bc_bits_cons. unfold bc_bits, sbits. cbn [flat_map]. rewrite !app_nil_r.
        replace 8%nat with (N.to_nat nbits + (8 - N.to_nat nbits))%nat at 1 by lia.
        apply rb_bits_of_small. rewrite N2Nat.id. exact Hacc.
      * constructor; [|constructor]. apply N.lt_le_trans with (2 ^ nbits); [exact Hacc|].
        change 256 with (2 ^ 8). apply N.pow_le_mono_r; lia.
  - set (acc' := acc + s mod 2 ^ w * 2 ^ nbits).
    assert (Hacc' : acc' < 2 ^ (nbits + w)).
    { subst acc'. rewrite N.pow_add_r. assert (s mod 2 ^ w < 2 ^ w) by (apply N.mod_lt, N.pow_nonzero; discriminate). nia. }
    assert (Hbits : bits_of (N.to_nat (nbits + w)) acc' = bits_of (N.to_nat nbits) acc ++ bits_of (N.to_nat w) s).
    { rewrite N2Nat.inj_add, rb_bits_of_app, N2Nat.id. f_equal.
      - rewrite <- (rb_bits_of_mod (N.to_nat nbits) acc'), N2Nat.id. subst acc'.
        rewrite N.mod_add by (apply N.pow_nonzero; discriminate). rewrite N.mod_small by exact Hacc. reflexivity.
      - subst acc'. rewrite N.div_add by (apply N.pow_nonzero; discriminate). rewrite N.div_small by exact Hacc.
        cbn [N.add]. pose proof (rb_bits_of_mod (N.to_nat w) s) as X. rewrite N2Nat.id in X. exact X. }
    destruct (N.leb_spec 8 (nbits + w)) as [Hge|Hlt].
    + destruct (IH (acc' / 256) (nbits + w - 8) Hw ltac:(lia)) as (pad & Hp & Hb & Hok).
      { apply N.div_lt_upper_bound; [discriminate|]. change 256 with (2 ^ 8). rewrite <- N.pow_add_r.
        replace (8 + (nbits + w - 8)) with (nbits + w) by lia. exact Hacc'. }
      exists pad. split; [exact Hp|]. split.
      * rewrite bc_bits_cons, Hb, sbits_cons.
        rewrite <- (app_assoc (bits_of (N.to_nat w) s)).
        rewrite (app_assoc (bits_of (N.to_nat nbits) acc)), <- Hbits.
        rewrite (app_assoc (bits_of 8 (acc' mod 256))). f_equal.
        replace (N.to_nat (nbits + w)) with (8 + N.to_nat (nbits + w - 8))%nat by lia.
        rewrite rb_bits_of_app. f_equal. change (2 ^ N.of_nat 8) with 256. apply (rb_bits_of_mod 8).
      * constructor; [apply N.mod_lt; discriminate|exact Hok].
    + destruct (IH acc' (nbits + w) Hw Hlt Hacc') as (pad & Hp & Hb & Hok).
      exists pad. split; [exact Hp|]. split; [|exact Hok].
      rewrite Hb, Hbits, sbits_cons, <- !app_assoc. reflexivity.
Qed.

(* ------------------------------------------------------------------ byte-multiple widths *)
Lemma rb_enc_bits : forall k x, bc_bits (fm_enc k x) = bits_of (8 * k) x.
Proof.
  induction k as [|k IH]; intros x; [reflexivity|].
  cbn [fm_enc]. rewrite bc_bits_cons, IH.
  replace (8 * S k)%nat with (8 + 8 * k)%nat by lia. rewrite rb_bits_of_app. f_equal. apply (rb_bits_of_mod 8).
Qed.
Lemma rb_enc_ok : forall k x, bc_bytes_ok (fm_enc k x).
Proof. induction k as [|k IH]; intros x; cbn [fm_enc]; constructor; [apply N.mod_lt; discriminate|apply IH]. Qed.

Lemma rb_pack_bits : forall w l, (w < 8 \/ w mod 8 = 0) ->
  exists pad, (pad < 8)%nat /\ bc_bits (wm_pack w l) = sbits w l ++ repeat false pad /\ bc_bytes_ok (wm_pack w l).
Proof.
  intros w l Hw. unfold wm_pack. destruct (N.ltb_spec w 8) as [Hlt|Hge].
  - destruct (rb_pack_sub_bits w l 0 0 Hlt ltac:(lia) ltac:(cbn; lia)) as (pad & Hp & Hb & Hok).
    exists pad. split; [exact Hp|]. split; [exact Hb|exact Hok].
  - destruct Hw as [Hw|Hw]; [lia|].
    exists 0%nat. split; [lia|]. cbn [repeat]. rewrite app_nil_r.
    assert (Hk : N.to_nat w = (8 * N.to_nat (w / 8))%nat).
    { pose proof (N.div_mod w 8 ltac:(discriminate)) as E. rewrite Hw in E. lia. }
    induction l as [|s r IH]; [split; [reflexivity|constructor]|].
    cbn [flat_map]. destruct IH as (IH1 & IH2). split.
    + rewrite bc_bits_app, IH1, sbits_cons, rb_enc_bits, Hk. reflexivity.
    + apply Forall_app. split; [apply rb_enc_ok|exact IH2].
Qed.

(* B3: the writer model's packing is Spec.pack *)
Lemma rb_pack_eq : forall w l, (w < 8 \/ w mod 8 = 0) -> wm_pack w l = pack w l.
Proof.
  intros w l Hw.
  destruct (rb_pack_bits w l Hw) as (p1 & Hp1 & Hb1 & Hok1).
  destruct (pack_spec w l) as (p2 & Hp2 & Hb2 & Hok2).
  apply bc_bits_inj; [exact Hok1|exact Hok2|].
  assert (Hlen : length (wm_pack w l) = length (pack w l)).
  { pose proof (rf_pack_len w l Hw) as E1. pose proof (pack_length w l) as E2. unfold rf_len in E1. lia. }
  assert (Hpe : p1 = p2).
  { apply (f_equal (@length bool)) in Hb1. apply (f_equal (@length bool)) in Hb2.
    rewrite bc_bits_length, app_length, repeat_length in Hb1, Hb2. lia. }
  rewrite Hb1, Hb2, Hpe. reflexivity.
Qed.
