(* END TO END, layer 1 (reader side): a complete chunk (h, p) standing at offset o of the file (E2eLog.e2_chunk_at: CRC-valid
   header, payload bytes, valid payload CRC) is READ by jls_raw_chunk_seek + jls_core_rd_chunk of the byte-level reader
   model (RepairRaw.rp_chunk_seek / rp_rd_chunk): return code 0, chunk_cur = (o, h), the buffer holds p, and the raw
   layer stands at the chunk that follows.  The converse direction (success implies valid CRCs) is RawReadProofs /
   Properties_C04_struct.  Guard: the payload with pad and CRC fits the 1 MiB buffer (the reader model does not model
   jls_buf_realloc). *)
From Coq Require Import NArith ZArith List Bool Lia Arith.
From Coq Require Import ZifyBool ZifyN ZifyNat.
From JLS Require Import Generated CrcDefs CrcProofs Format FormatProofs WriteOnce WriteOnceProofs WmRaw WmCore WmProofs
                        RefineLog RepairRaw RawReadProofs E2eLog.
Import ListNotations.
Local Open Scope N_scope.
Ltac Zify.zify_post_hook ::= Z.div_mod_to_equations.

Local Opaque crc32c.

(* the raw layer of a reader of the file f stands at offset o with no cached header *)
Definition e2_pos (s : rp_io) (f : list N) (o : N) : Prop :=
  rp_file s = f /\ rp_flen s = rp_len f /\ rp_fend (rp_r s) = rp_len f /\ rp_r_valid (rp_r s) = false /\
  rp_offset (rp_r s) = o /\ rp_fpos (rp_r s) = o.

(* the reader has the file f open (whatever its position) *)
Definition e2_rdr (s : rp_io) (f : list N) : Prop :=
  rp_file s = f /\ rp_flen s = rp_len f /\ rp_fend (rp_r s) = rp_len f.

Lemma e2_pos_rdr : forall s f o, e2_pos s f o -> e2_rdr s f.
Proof. intros s f o (A & B & C & _). repeat split; assumption. Qed.

Lemma e2_invalid_tag : forall h, rp_r_valid {| rp_fpos := 0; rp_fend := 0; rp_offset := 0; rp_hdr := wm_hdr_set_tag h JLS_TAG_INVALID; rp_last_pl := 0 |} = false.
Proof. reflexivity. Qed.

(* jls_raw_chunk_seek *)
Lemma e2_seek : forall s f o, e2_rdr s f -> o <> 0 -> o < rp_two63 ->
  exists s', rp_chunk_seek s o = (s', 0) /\ e2_pos s' f o /\
             rp_buf s' = rp_buf s /\ rp_buf_len s' = rp_buf_len s /\ rp_cur s' = rp_cur s /\ rp_flt s' = rp_flt s.
Proof.
  intros s f o (Hf & Hl & He) Ho Hlt. unfold rp_chunk_seek.
  destruct (N.eqb_spec o 0) as [E|_]; [contradiction|].
  unfold rp_bk_fseek. destruct (N.leb_spec rp_two63 o) as [E|_]; [lia|].
  eexists. split; [reflexivity|]. unfold e2_pos. cbn. repeat split; assumption.
Qed.

Lemma e2_fields_of_decode : forall f o h, fm_decode_chunk_header (skipn (N.to_nat o) f) = Some h ->
  let hb := fm_sub o 32 f in length hb = 32%nat /\ fm_ch_complete hb = true /\ fm_ch_crc_ok hb = true /\ fm_ch_fields hb = h.
Proof.
  intros f o h H hb. subst hb. unfold fm_sub. change (N.to_nat 32) with 32%nat.
  rewrite <- fm_decode_chunk_header_firstn in H. unfold fm_decode_chunk_header in H.
  destruct (fm_ch_complete (firstn 32 (skipn (N.to_nat o) f))) eqn:E1; [|discriminate].
  destruct (fm_ch_crc_ok (firstn 32 (skipn (N.to_nat o) f))) eqn:E2; [|discriminate]. cbn in H. inversion H.
  split; [|repeat split; reflexivity].
  unfold fm_ch_complete in E1. apply fm_has_true in E1. change (N.to_nat SIZEOF_chunk_header) with 32%nat in E1.
  pose proof (firstn_le_length 32 (skipn (N.to_nat o) f)). lia.
Qed.

(* jls_core_rd_chunk on a complete chunk *)
Theorem e2_rd_chunk : forall s f o h p, e2_pos s f o -> e2_chunk_at f o h p -> fm_tag h <> JLS_TAG_INVALID ->
  fm_disk_len (rf_len p) <= JLS_BUF_DEFAULT_SIZE ->
  exists s', rp_rd_chunk s = (s', 0) /\ e2_pos s' f (o + fm_chunk_size (rf_len p)) /\
             rp_cur s' = {| wm_ck_offset := o; wm_ck_hdr := h |} /\ rp_buf_len s' = rf_len p /\ rp_payload s' = p /\
             rp_buf s' = rp_buf_put (rp_buf s) (fm_sub (o + 32) (fm_disk_len (rf_len p)) f) /\ rp_flt s' = rp_flt s.
Proof.
  intros s f o h p (Hf & Hl & He & Hv & Ho & Hp) (Hd & Hpl & Hpay & Hcrc & Ho32 & Hsz) Htg Hbig.
  destruct (e2_fields_of_decode f o h Hd) as (Hb32 & Hcomp & Hcrcok & Hfields).
  destruct s as [sf sl r B n c e]. destruct r as [fpos fend off hd lp].
  cbn [rp_file rp_flen rp_r rp_fend rp_offset rp_fpos] in *. subst sf sl fend off fpos.
  unfold rp_r_valid in Hv. cbn [rp_hdr] in Hv.
  unfold rf_len, fm_chunk_size, SIZEOF_chunk_header in *.
  assert (Hlt : rp_len f <=? o = false) by (apply N.leb_gt; unfold rp_len; pose proof (e2_disk_len_ge (N.of_nat (length p))); lia).
  Ltac e2_red := cbv [rp_io_set_cur rp_io_set_r rp_io_set_buf rp_r_set_offset rp_r_set_fpos rp_r_set_hdr rp_r_invalidate
                      rp_file rp_flen rp_r rp_buf rp_buf_len rp_cur rp_flt rp_fpos rp_fend rp_offset rp_hdr rp_last_pl
                      wm_ck_offset wm_ck_hdr rp_r_valid].
  unfold rp_rd_chunk, rp_raw_rd_header. e2_red. rewrite Hv. cbn [negb]. rewrite Hlt, N.eqb_refl. e2_red.
  unfold rp_bk_fread. e2_red. rewrite rr_file_read_sub. change SIZEOF_chunk_header with 32.
  rewrite Hcomp, Hcrcok. cbn [negb]. rewrite Hfields. e2_red. cbn [N.eqb negb].
  unfold rp_raw_rd_payload. e2_red.
  assert (Htag : fm_tag h =? JLS_TAG_INVALID = false) by (apply N.eqb_neq; exact Htg).
  rewrite Htag. cbn [negb N.eqb]. rewrite <- Hpl.
  assert (Hh32 : rp_len (fm_sub o 32 f) = 32) by (unfold rp_len; rewrite Hb32; reflexivity). rewrite Hh32.
  destruct (N.eqb_spec (N.of_nat (length p)) 0) as [E0|Hne].
  - (* empty payload *)
    eexists. split; [reflexivity|].
    assert (Hp0 : p = []) by (destruct p; [reflexivity|cbn in E0; lia]). subst p. cbn [length] in *.
    change (fm_disk_len (N.of_nat 0)) with 0.
    unfold e2_pos, rp_payload. e2_red. cbn [N.eqb]. rewrite <- Hpl. repeat split; try reflexivity; lia.
  - destruct Hcrc as [E0|(Hin & Hc)]; [contradiction|].
    destruct (N.ltb_spec JLS_BUF_DEFAULT_SIZE (fm_disk_len (N.of_nat (length p)))) as [E|_]; [lia|].
    change SIZEOF_chunk_header with 32. rewrite N.eqb_refl.
    unfold rp_bk_fread. e2_red. rewrite rr_file_read_sub.
    set (dl := fm_disk_len (N.of_nat (length p))) in *.
    set (region := fm_sub (o + 32) dl f).
    assert (Hrl : rp_len region = dl) by (unfold rp_len; subst region; rewrite e2_sub_length by (unfold rf_len in *; lia); lia).
    rewrite Hrl. rewrite N.ltb_irrefl.
    pose proof (rr_pad_ge _ Hne) as Hpad. fold dl in Hpad.
    assert (Htake : rp_take (N.of_nat (length p)) region = p).
    { rewrite rr_take_eq. subst region. transitivity (fm_sub (o + 32) (N.of_nat (length p)) f); [|exact Hpay].
      unfold fm_sub. rewrite firstn_firstn. f_equal. lia. }
    assert (Hskip : fm_dec_u32 (rp_skip (dl - 4) region) = crc32c p).
    { rewrite rr_skip_eq. subst region. rewrite rr_skipn_sub by lia. rewrite Hpay in Hc. rewrite <- Hc.
      unfold fm_dec_u32. replace (dl - (dl - 4)) with 4 by lia. replace (o + 32 + (dl - 4)) with (o + 32 + dl - 4) by lia.
      unfold fm_sub. rewrite firstn_firstn. reflexivity. }
    rewrite Htake, Hskip, N.eqb_refl. cbn [negb]. e2_red. cbn [N.eqb].
    eexists. split; [reflexivity|]. unfold e2_pos, rp_payload. e2_red. rewrite <- Hpl.
    repeat split; try reflexivity; try lia.
    unfold rp_buf_put. rewrite rr_take_eq, firstn_app.
    replace (N.to_nat (N.of_nat (length p)) - length region)%nat with 0%nat by (unfold rp_len in Hrl; lia).
    cbn [firstn]. rewrite app_nil_r. rewrite <- rr_take_eq. exact Htake.
Qed.
