(* END TO END, layer 4, top: for a program of compose's class P (one data-carrying FSR signal, anything else interleaved),
   the byte-level reader (ReaderModel.rdm_fsr_length / rdm_fsr) on the FILE the byte-exact writer model produces
   (E2eModel.e2_file = wo_file_after of the complete backend log) returns what Spec says (rd_length / rd_window),
   from every reader state that satisfies e2_P (what jls_rd_open leaves: E2eOpen; preserved by every read).
   Assembled from: Properties_compose (abstract reader on PyramidModel's disk = Spec), E2eProg (head offsets of the
   writer at close), E2eModel (every chunk of the log stands complete in the file), E2eDisk (the abstract disk is in
   the file), E2eFsr2 (byte-level reader simulates the abstract reader). *)
From Coq Require Import NArith ZArith List Bool Lia Arith.
From Coq Require Import ZifyBool ZifyN ZifyNat.
From JLS Require Import Generated CrcDefs CrcProofs Spec Format FormatProofs WriteOnce WriteOnceProofs WmRaw WmCore WmTs WmFsr WriterModel
  WmProofs WmWriteOnce BitCopyModel BitCopyProofs FsrPackModel FsrPackProofs PyramidModel PyramidProofs
  RefineLog RefineFsr RefinePyr RefinePyr2 RefineBits2 RefineProg RepairRaw RepairModel ReaderModel
  ComposeGuards ComposeFsr ComposeC01 ComposeTop
  E2eLog E2eNoTrunc E2eRead E2eModel E2eFsr E2eFsr2 E2eProg E2eDisk.
Import ListNotations.
Local Open Scope N_scope.
Ltac Zify.zify_post_hook ::= Z.div_mod_to_equations.

Local Opaque crc32c.

(* ================================================================ FsrPackModel's block list of the blocks handed to wr_data *)
Lemma e2t_blocks_nth : forall w spd first bl k0 i b, nth_error bl i = Some b ->
  nth_error (rb_fp_blocks w spd first k0 bl) i = Some ((first + Z.of_nat (k0 + i) * Z.of_N spd)%Z, N.of_nat (length b), pack w b).
Proof.
  induction bl as [|b0 bl IH]; intros k0 i b Hi; [destruct i; discriminate Hi|]. destruct i as [|i]; cbn [nth_error rb_fp_blocks] in *.
  - injection Hi as ->. rewrite Nat.add_0_r. reflexivity.
  - rewrite (IH (S k0) i b Hi). f_equal. f_equal. f_equal. f_equal. lia.
Qed.

Lemma e2t_blocks_len : forall w spd first bl k0, length (rb_fp_blocks w spd first k0 bl) = length bl.
Proof. induction bl as [|b bl IH]; intros k0; cbn [rb_fp_blocks length]; [reflexivity|]. rewrite IH. reflexivity. Qed.

Lemma e2t_blocks_nth_inv : forall w spd first bl k0 i x, nth_error (rb_fp_blocks w spd first k0 bl) i = Some x ->
  exists b, nth_error bl i = Some b /\ x = ((first + Z.of_nat (k0 + i) * Z.of_N spd)%Z, N.of_nat (length b), pack w b).
Proof.
  intros w spd first bl k0 i x Hi.
  assert (Hlt : (i < length bl)%nat) by (rewrite <- (e2t_blocks_len w spd first bl k0); apply nth_error_Some; congruence).
  destruct (nth_error bl i) as [b|] eqn:Eb; [|apply nth_error_None in Eb; lia].
  exists b. split; [reflexivity|]. rewrite (e2t_blocks_nth w spd first bl k0 i b Eb) in Hi. congruence.
Qed.

Lemma e2t_blocks_bits : forall w spd first bl k0,
  flat_map (fun b : Z * N * list N => let '(_, cnt, p) := b in firstn (N.to_nat (cnt * w)) (bc_bits p)) (rb_fp_blocks w spd first k0 bl) =
  flat_map (bits_of (N.to_nat w)) (concat bl).
Proof.
  induction bl as [|b bl IH]; intros k0; [reflexivity|]. cbn [rb_fp_blocks flat_map concat]. rewrite flat_map_app, IH. f_equal.
  destruct (pack_spec w b) as (pad & _ & Hb & _). rewrite Hb. fold (sbits w b).
  replace (N.to_nat (N.of_nat (length b) * w)) with (length (sbits w b)) by (rewrite sbits_length; lia).
  apply FsrPackProofs.firstn_app_exact.
Qed.

Lemma e2t_find_block : forall blocks t ts cnt p, fp_find_block blocks t = Some (ts, cnt, p) ->
  In (ts, cnt, p) blocks /\ (ts <= t < ts + Z.of_N cnt)%Z.
Proof.
  intros blocks t ts cnt p H. unfold fp_find_block in H. apply find_some in H. destruct H as [Hin Hb].
  apply andb_true_iff in Hb. split; [exact Hin|lia].
Qed.

(* ================================================================ a chunk of the file is determined by its offset *)
Lemma e2t_chunk_at_unique : forall f o h p h' p', e2_chunk_at f o h p -> e2_chunk_at f o h' p' -> h = h' /\ p = p'.
Proof.
  intros f o h p h' p' (A1 & A2 & A3 & _) (B1 & B2 & B3 & _). rewrite A1 in B1. assert (h = h') by congruence. subst h'.
  split; [reflexivity|]. rewrite <- A3, <- B3. rewrite A2, B2. reflexivity.
Qed.

Lemma e2t_mine_not_head : forall d c, rf_mine d c = true -> fm_is_head_tag (rc_tag c) = false.
Proof.
  intros d c H. unfold rf_mine in H. apply andb_true_iff in H. destruct H as (H & _).
  apply orb_true_iff in H. destruct H as [H|H]; [apply orb_true_iff in H; destruct H as [H|H]|]; apply N.eqb_eq in H; rewrite H; reflexivity.
Qed.

Lemma e2t_app_tail1 : forall (A : Type) (a b : list A) c x, a ++ c = b ++ [x] -> length c = 1%nat -> c = [x].
Proof.
  intros A a b c x E Hl. destruct c as [|y [|z r]]; try discriminate Hl. apply app_inj_tail in E. destruct E as (_ & ->). reflexivity.
Qed.

(* ================================================================ the program class of Properties_compose *)
Section E2T.
Variable summ1 : N -> list N -> wm_sentry.
Variable summN : bool -> list wm_sentry -> wm_sentry.
Variables d0 d : sigdef.
Variable pos0 : Z.
Variables p1 p2 : list wop.
Variable stf : py_wr.

Let sid := sg_id d.
Let w := dt_bits (sg_dtype d).
Let p := p1 ++ WSig d0 :: p2.
Let ops := rp_proj sid p2.
Let stF := fst (wm_run_full summ1 summN p).
Let f := e2_file summ1 summN p.
Let cs := filter (rf_mine d) (rf_chunks (wm_st_log stF)).
Let offs := map rc_off cs.
Let psi := rf_psi offs pos0.
Let BLKS := rf_blocks d rf_bs0 ops.
Let pd := rf_pd d.
Let g := fold_left (fun g c => fsr_write g (fst c) (snd c)) (rf_calls ops) (new_sig d).
Let T0 := rf_t0 ops.
Let disk := pw_disk stf.
Let heads := pw_heads stf.
Let total := Z.of_N (rd_length g).
Let blocks := rb_fp_blocks w (sg_spd d) T0 0 BLKS.

(* the class (Properties_compose) *)
Hypothesis Hpos0 : (0 < pos0)%Z.
Hypothesis Hsid0 : sg_id d <> 0.
Hypothesis Hty : sg_type d = JLS_SIGNAL_TYPE_FSR.
Hypothesis Hprod : sg_eps d * sg_sdf d < 4294967296.
Hypothesis Hok : Forall (rp_ok sid) p.
Hypothesis Hns : Forall (fun o => match o with WSig d' => sg_id d' <> sid | _ => True end) p1.
Hypothesis Hrc : snd (wm_api_signal_def (fst (wm_steps summ1 summN wm_api_open p1 [])) d0) = 0.
Hypothesis Hal : wm_sig_align d0 = Some d.
Hypothesis Hpy : py_srun pd (w <=? 8) (rf_t0 ops) pos0 (rf_script d rf_bs0 ops) = PyOk stf.
Hypothesis Hfillv : wm_fill_sample (sg_dtype d) = fill_value (sg_dtype d).
(* the signal is not empty *)
Hypothesis Hne : rd_length g <> 0.
(* the writer model stayed inside uint32 / uint64 (Properties_C14_writer) *)
Hypothesis Hbnd : wmw_bounded (wm_st_log stF).
(* G_adj, G_big, sizes *)
Hypothesis Gadj : forall i c c', nth_error cs i = Some c -> rc_tag c = JLS_TAG_TRACK_FSR_INDEX -> nth_error cs (S i) = Some c' ->
  rc_off c' = rc_off c + fm_chunk_size (rf_len (rc_pay c)).
Hypothesis Gbig : Forall (fun c => fm_disk_len (rf_len (rc_pay c)) <= JLS_BUF_DEFAULT_SIZE) cs.
Hypothesis Gflen : rf_len f < rp_two63.
Hypothesis Gspd : sg_spd d < 4294967296.
Hypothesis Gts : (- e2_tsb <= T0)%Z /\ (T0 + Z.of_N (rd_length g) + Z.of_N (sg_spd d) <= e2_tsb)%Z.
Hypothesis Gstep : forall k, (1 <= k)%nat -> nth k heads 0%Z <> 0%Z -> (py_step pd k < rdm_two63)%Z.

Lemma e2t_in_file : wm_st_fault stF = false -> forall c, In c (rf_chunks (wm_st_log stF)) -> fm_is_head_tag (rc_tag c) = false ->
  exists h, e2_chunk_at f (rc_off c) h (rc_pay c) /\ fm_tag h = rc_tag c /\ fm_chunk_meta h = rc_meta c.
Proof.
  intros Hflt c Hc Hnh. destruct (e2_model_file summ1 summN p Hflt Hbnd) as ((_ & _ & _ & _ & Hall & _) & _).
  rewrite Forall_forall in Hall. destruct (Hall c Hc) as (h & p' & Hat & Ht & Hm & _ & Hp). rewrite (Hp Hnh) in Hat.
  exists h. split; [exact Hat|]. split; [exact Ht|exact Hm].
Qed.

Lemma e2t_stream : concat BLKS = ss_samples g /\ rb_shape (N.to_nat (sg_spd d)) BLKS /\ 0 < sg_spd d /\ BLKS <> [].
Proof.
  destruct (cmp_top_guards summ1 summN d0 d p1 Hprod Hrc Hal) as (_ & A2 & _).
  destruct (rb_blocks_stream d A2 Hfillv ops) as (Hcat & Hshape). cbv zeta in Hcat. fold ops g BLKS in Hcat, Hshape.
  split; [exact Hcat|]. split; [exact Hshape|]. split; [exact A2|].
  intro E. apply Hne. unfold rd_length. rewrite <- Hcat, E. reflexivity.
Qed.

Lemma e2t_blk_bound : forall k b, nth_error BLKS k = Some b ->
  (0 < length b <= N.to_nat (sg_spd d))%nat /\ (k * N.to_nat (sg_spd d) + length b <= N.to_nat (rd_length g))%nat.
Proof.
  intros k b Hk. destruct e2t_stream as (Hcat & Hshape & _). destruct (Hshape k b Hk) as (A & _). split; [exact A|].
  destruct (cmp_block_window (N.to_nat (sg_spd d)) BLKS k b 0 0 Hshape Hk ltac:(lia)) as (_ & Hb).
  unfold rd_length. rewrite <- Hcat. lia.
Qed.

(* the abstract disk at close is in the file *)
Lemma e2t_env : wm_st_fault stF = false /\ exists T, e2_env f d disk heads psi T0 T.
Proof.
  destruct (cmp_top_guards summ1 summN d0 d p1 Hprod Hrc Hal) as (A1 & A2 & A3 & A4 & A5 & A6 & A7 & A8 & A9).
  destruct (cmp_c01_top summ1 summN d0 d pos0 p1 p2 stf Hpos0 Hsid0 Hty Hprod Hok Hns Hrc Hal Hpy Hfillv) as (Hflt & _).
  split; [exact Hflt|].
  destruct (e2_model_file summ1 summN p Hflt Hbnd) as (Hwf & (cs0 & Ecs0 & Hl0) & _).
  destruct (e2_prog_fsr_heads summ1 summN d0 d pos0 p1 p2 stf Hpos0 A1 Hsid0 Hty A2 A3 A5 A6 A7 A8 Hok Hns Hrc Hal Hpy)
    as (cs' & s3 & Ecs' & HF2 & _).
  (* the chunks of the signal in the complete log = those before the END chunk *)
  assert (Ecs : cs' = cs).
  { destruct Hwf as (_ & _ & _ & _ & _ & (cs1 & Eend)).
    fold p stF in Ecs0, Eend. rewrite Ecs0 in Eend. pose proof (e2t_app_tail1 _ _ _ _ _ Eend Hl0) as E0.
    unfold cs. fold p stF in Ecs'. rewrite Ecs0, filter_app, E0. cbn [filter]. unfold rf_mine at 2. cbn [rc_tag rc_meta].
    change ((JLS_TAG_END =? JLS_TAG_TRACK_FSR_DATA) || (JLS_TAG_END =? JLS_TAG_TRACK_FSR_INDEX) || (JLS_TAG_END =? JLS_TAG_TRACK_FSR_SUMMARY)) with false.
    cbn [andb]. rewrite app_nil_r. symmetry. exact Ecs'. }
  rewrite Ecs in HF2. clear Ecs Ecs'. fold sid ops in HF2. fold BLKS offs in HF2.
  destruct e2t_stream as (Hcat & Hshape & _ & HBne).
  destruct (cmp_setup d (w <=? 8) ops A2) as (_ & _ & Hfst & [(EB & _)|(pre & n & req & Eplan & Hpre & Hn & _)]); [contradiction|].
  unfold py_srun in Hpy. fold pd in Eplan. rewrite Eplan in Hpy.
  destruct (run_Fin pd T0 pos0 pre n req [] stf A9 Hpos0 Hpre (Forall_nil _) Hn Hpy) as (T & HFin).
  exists T.
  assert (Hlenpb : length (py_blocks (pre ++ [PyBlk n req])) = length BLKS).
  { rewrite <- Eplan. fold pd BLKS in Hfst. apply (f_equal (@length Z)) in Hfst. rewrite !map_length in Hfst. exact Hfst. }
  apply (e2d_env f d pos0 T0 cs BLKS stf (py_blocks (pre ++ [PyBlk n req])) T A9 HFin HF2).
  - apply Forall_forall. intros c Hc. unfold cs in Hc. apply filter_In in Hc. destruct Hc as (Hc & Hm).
    apply (e2t_in_file Hflt c Hc). exact (e2t_mine_not_head d c Hm).
  - exact Gbig.
  - exact Gflen.
  - exact Gadj.
  - exact A1.
  - exact A4.
  - exact Gspd.
  - destruct Gts as (G1 & G2). split; [exact G1|]. rewrite Hlenpb.
    destruct (nth_error BLKS (length BLKS - 1)) as [b|] eqn:Eb.
    + destruct (e2t_blk_bound _ b Eb) as (B1 & B2). unfold pd, rf_pd. cbn [py_spd]. nia.
    + apply nth_error_None in Eb. destruct BLKS; [congruence|cbn [length] in Eb; lia].
  - intros k Hk. apply Gstep; [lia|].
    destruct HFin as ((_ & Hoffs & _) & _ & _ & _ & Hlv & _). destruct (Hlv k Hk) as ((_ & _ & Hh) & Hnn).
    change (nth k heads 0%Z) with (py_head_get stf k). rewrite Hh.
    destruct (idxs (pw_disk stf) k) as [|c r] eqn:E; [congruence|].
    assert (Hin : In c (pw_disk stf)) by (apply (idxs_In (pw_disk stf) k c); rewrite E; left; reflexivity).
    specialize (Hoffs c Hin). lia.
Qed.

(* ---------------------------------------------------------------- jls_fsr_length, under the exact condition of Properties_compose *)
Lemma e2t_length_gen : (w <= 8 \/ cmp_no_omit ops \/ rd_length g mod sg_sdf d = 0) -> py_fsr_length pd disk heads = PyOk total.
Proof.
  intro Hcond.
  destruct (cmp_c01_top summ1 summN d0 d pos0 p1 p2 stf Hpos0 Hsid0 Hty Hprod Hok Hns Hrc Hal Hpy Hfillv)
    as (_ & _ & _ & (len & Hl & _ & Hex) & _).
  fold pd disk heads in Hl. rewrite Hl. f_equal. apply Hex. exact Hcond.
Qed.

Theorem e2t_fsr_length_gen : (w <= 8 \/ cmp_no_omit ops \/ rd_length g mod sg_sdf d = 0) ->
  forall st, e2_P f d disk heads psi T0 total st ->
  exists st', rdm_fsr_length st sid = (st', 0, Z.of_N (rd_length g)) /\ e2_P f d disk heads psi T0 total st' /\
              rdm_stale st' = rdm_stale st /\ rdm_flt st' = rdm_flt st.
Proof.
  intros Hcond st (cc & R & C & Hre & L). destruct e2t_env as (_ & T & Henv).
  destruct (e2_env_fsr_length f d disk heads psi T0 T st cc total Henv R C L ltac:(unfold total; lia) (e2t_length_gen Hcond))
    as (st' & E & R' & C' & L' & S1 & S2).
  exists st'. split; [exact E|]. split; [exists cc; split; [exact R'|split; [exact C'|split; [exact Hre|exact L']]]|]. split; assumption.
Qed.

(* every block is stored *)
Hypothesis Hw8 : 8 < w.
Hypothesis Hno : cmp_no_omit ops.

Lemma e2t_length : py_fsr_length pd disk heads = PyOk total.
Proof. apply e2t_length_gen. right. left. exact Hno. Qed.

(* what the abstract reader delivers for a sample id inside a block, and where the bytes are in the file *)
Lemma e2t_delivers : forall cc t ts cnt payload, e2_reach d disk heads cc -> fp_find_block blocks t = Some (ts, cnt, payload) ->
  (forall off, py_fsr_seek pd disk heads 1 t = PyOk off -> exists c, In c disk /\ pc_off c = off /\ pc_kind c = PyIndex 1) /\
  exists cd, fst (py_rd_data0 pd disk heads (Z.of_N sid) cc t) = PyOk (PyStored cd) /\ pc_kind cd = PyData /\
             pc_ts cd = ts /\ Z.to_N (pc_count cd) = cnt /\
             forall h data, e2_chunk_at f (psi (pc_off cd)) h (wm_fsr_data_payload ts cnt w data) -> data = payload.
Proof.
  intros cc t ts cnt payload Hreach Hfb.
  destruct (cmp_top_guards summ1 summN d0 d p1 Hprod Hrc Hal) as (A1 & A2 & _).
  destruct (cmp_c01_top summ1 summN d0 d pos0 p1 p2 stf Hpos0 Hsid0 Hty Hprod Hok Hns Hrc Hal Hpy Hfillv) as (Hflt & _ & _ & _ & Hpos).
  pose proof (cmp_no_omission_lemma d ops Hw8 Hno) as Hnoom.
  destruct (e2t_find_block _ _ _ _ _ Hfb) as (Hin & Hrng).
  destruct (In_nth_error _ _ Hin) as (k & Hk). unfold blocks in Hk.
  destruct (e2t_blocks_nth_inv _ _ _ _ _ _ _ Hk) as (b & Hb & Ex). rewrite Nat.add_0_l in Ex.
  assert (Ets : ts = (T0 + Z.of_nat k * Z.of_N (sg_spd d))%Z) by congruence.
  assert (Ecnt : cnt = N.of_nat (length b)) by congruence.
  assert (Epl : payload = pack w b) by congruence. clear Ex.
  destruct (e2t_blk_bound k b Hb) as (B1 & B2).
  assert (Hspdz : py_spd pd = Z.of_N (sg_spd d)) by reflexivity.
  set (x := (t - T0)%Z).
  assert (Hx : (0 <= x < Z.of_N (rd_length g))%Z) by (unfold x; lia).
  assert (Hdiv : (x / py_spd pd = Z.of_nat k)%Z).
  { symmetry. apply (Z.div_unique x (py_spd pd) (Z.of_nat k) (x - Z.of_nat k * py_spd pd)); [left; rewrite Hspdz; unfold x; lia|ring]. }
  destruct Hreach as (cache0 & starts & Hforeign & Ecc).
  assert (Hsig : (0 <= Z.of_N sid < 256)%Z) by (unfold sid; lia).
  specialize (Hpos (Z.of_N sid) cache0 starts x Hsig Hforeign Hx). cbv zeta in Hpos.
  assert (Et : (rf_t0 (rp_proj (sg_id d) p2) + x)%Z = t) by (unfold x, T0, ops, sid; lia).
  assert (Hdiv' : (x / py_spd (rf_pd d))%Z = Z.of_nat k) by exact Hdiv.
  rewrite Et, Hdiv', Nat2Z.id in Hpos. subst cc.
  destruct Hpos as ((c1 & ci & Hseek & Hc1 & Hk1 & _) & blk' & om & Hb' & Hpb & _ & Hres).
  assert (Eblk : Some blk' = Some b) by (rewrite <- Hb'; exact Hb). injection Eblk as Eblk. subst blk'.
  assert (Hom : om = false).
  { rewrite Forall_forall in Hnoom. exact (Hnoom _ (nth_error_In _ _ Hpb)). }
  subst om. destruct Hres as (cd & c & Hr & Hcd & Hkd & Hts & Hcnt & _ & Hc & Hoff & Hnz & Htag & Hmeta & Hpay & _).
  split.
  - intros off Hs. assert (Eo : PyOk off = PyOk (pc_off c1)) by (rewrite <- Hs; exact Hseek). injection Eo as Eo. subst off.
    exists c1. split; [exact Hc1|]. split; [reflexivity|exact Hk1].
  - exists cd. split; [exact Hr|]. split; [exact Hkd|]. split; [rewrite Hts, Ets; reflexivity|]. split; [rewrite Hcnt, Ecnt; lia|].
    intros h data Hat.
    assert (Hnh : fm_is_head_tag (rc_tag c) = false) by (rewrite Htag; reflexivity).
    destruct (e2t_in_file Hflt c Hc Hnh) as (h' & Hat' & _). fold offs psi in Hoff. rewrite Hoff in Hat'.
    destruct (e2t_chunk_at_unique _ _ _ _ _ _ Hat Hat') as (_ & Ep). rewrite Hpay in Ep. unfold wm_fsr_data_payload in Ep.
    assert (Ehdr : wm_payload_header ts cnt w = wm_payload_header (pc_ts cd) (N.of_nat (length b)) w).
    { rewrite Hts, Ets, Ecnt. reflexivity. }
    fold w in Ep. rewrite Ehdr in Ep. apply app_inv_head in Ep. rewrite Ep, Epl. reflexivity.
Qed.

Lemma e2t_blocks_rng : forall ts cnt q, In (ts, cnt, q) blocks ->
  (- e2_tsb <= ts)%Z /\ (ts + Z.of_N cnt < e2_tsb)%Z /\ cnt < rdm_two32 /\ N.of_nat (length q) = (cnt * w + 7) / 8.
Proof.
  intros ts cnt q Hin. destruct (In_nth_error _ _ Hin) as (k & Hk). unfold blocks in Hk.
  destruct (e2t_blocks_nth_inv _ _ _ _ _ _ _ Hk) as (b & Hb & Ex). rewrite Nat.add_0_l in Ex.
  assert (Ets : ts = (T0 + Z.of_nat k * Z.of_N (sg_spd d))%Z) by congruence.
  assert (Ecnt : cnt = N.of_nat (length b)) by congruence.
  assert (Epl : q = pack w b) by congruence. clear Ex.
  destruct (e2t_blk_bound k b Hb) as (B1 & B2). destruct Gts as (G1 & G2). destruct e2t_stream as (_ & _ & A2 & _).
  unfold rdm_two32. split; [nia|]. split; [nia|]. split; [lia|]. rewrite Epl, Ecnt. apply pack_length.
Qed.

Lemma e2t_blocks_shape : forall k ts cnt q, nth_error blocks k = Some (ts, cnt, q) ->
  ts = (T0 + Z.of_nat k * Z.of_N (sg_spd d))%Z /\ 0 < cnt <= sg_spd d /\ ((S k < length blocks)%nat -> cnt = sg_spd d) /\
  N.of_nat (length q) = (cnt * w + 7) / 8 /\ Forall (fun x => x < 256) q.
Proof.
  intros k ts cnt q Hk. unfold blocks in Hk |- *.
  destruct (e2t_blocks_nth_inv _ _ _ _ _ _ _ Hk) as (b & Hb & Ex). rewrite Nat.add_0_l in Ex.
  assert (Ets : ts = (T0 + Z.of_nat k * Z.of_N (sg_spd d))%Z) by congruence.
  assert (Ecnt : cnt = N.of_nat (length b)) by congruence.
  assert (Epl : q = pack w b) by congruence. clear Ex.
  destruct e2t_stream as (_ & Hshape & _). destruct (Hshape k b Hb) as (S1 & S2).
  split; [exact Ets|]. split; [lia|]. split; [rewrite e2t_blocks_len; intro Hl; specialize (S2 Hl); lia|].
  split; [rewrite Epl, Ecnt; apply pack_length|]. rewrite Epl. destruct (pack_spec w b) as (_ & _ & _ & Hok'). exact Hok'.
Qed.

Theorem e2t_fsr_length : forall st, e2_P f d disk heads psi T0 total st ->
  exists st', rdm_fsr_length st sid = (st', 0, Z.of_N (rd_length g)) /\ e2_P f d disk heads psi T0 total st' /\
              rdm_stale st' = rdm_stale st /\ rdm_flt st' = rdm_flt st.
Proof. apply e2t_fsr_length_gen. right. left. exact Hno. Qed.

(* ---------------------------------------------------------------- jls_fsr (jls_rd_fsr): every window *)
Theorem e2t_fsr_window : forall recon f32_of_f64 st start len dst, e2_P f d disk heads psi T0 total st ->
  (0 <= start)%Z -> (0 < len)%Z -> (start + len <= total)%Z -> Z.to_N len * w <= 8 * N.of_nat (length dst) ->
  exists st' pcs out,
    rdm_fsr recon f32_of_f64 st sid start len dst = (st', 0, out, pcs) /\ e2_P f d disk heads psi T0 total st' /\
    rdm_stale st' = rdm_stale st /\ rdm_flt st' = rdm_flt st /\ length out = length dst /\
    firstn (N.to_nat (Z.to_N len * w)) (bc_bits out) =
      flat_map (bits_of (N.to_nat w)) (firstn (Z.to_nat len) (skipn (Z.to_nat start) (ss_samples g))) /\
    skipn (N.to_nat (Z.to_N len * w)) (bc_bits out) = skipn (N.to_nat (Z.to_N len * w)) (bc_bits dst) /\
    (dst = repeat 0 (N.to_nat ((Z.to_N len * w + 7) / 8)) -> rd_window g (Z.to_N start) (Z.to_N len) = Some out).
Proof.
  intros recon f32_of_f64 st start len dst HP Hs Hl He Hc. destruct e2t_env as (_ & T & Henv).
  destruct e2t_stream as (Hcat & _).
  assert (Hstr : total = Z.of_nat (length (ss_samples g))) by (unfold total, rd_length; lia).
  assert (Hrng : (T0 + total < e2_tsb)%Z) by (destruct Gts as (_ & G2); destruct e2t_stream as (_ & _ & A2 & _); unfold total; lia).
  assert (Hbits : flat_map (fun b : Z * N * list N => let '(_, cnt, q) := b in firstn (N.to_nat (cnt * w)) (bc_bits q)) blocks =
                  flat_map (bits_of (N.to_nat w)) (ss_samples g)).
  { rewrite <- Hcat. apply e2t_blocks_bits. }
  destruct (e2_env_fsr f d disk heads psi T0 T recon f32_of_f64 blocks (ss_samples g) total Henv e2t_length Hstr Hrng
              e2t_delivers e2t_blocks_rng e2t_blocks_shape Hbits st start len dst HP Hs Hl He Hc)
    as (st' & pcs & out & E & HP' & S1 & S2 & Hlen & Hb1 & Hb2 & Hz).
  exists st', pcs, out. repeat (split; [assumption|]).
  intro Hd. rewrite (Hz Hd). unfold rd_window.
  assert (Edef : ss_def g = d) by (unfold g; rewrite fold_fsr_write_def; reflexivity).
  rewrite Edef. fold w.
  destruct (N.leb_spec (Z.to_N start + Z.to_N len) (rd_length g)) as [_|Hx]; [|unfold total in He; lia].
  rewrite !Z_N_nat. reflexivity.
Qed.

End E2T.

(* ================================================================ the guards G_adj / G_big in boolean form (decidable on a run) *)
Fixpoint e2t_adjb (cs : list rf_chunk) : bool :=
  match cs with
  | c :: r =>
    match r with
    | c' :: _ => (if rc_tag c =? JLS_TAG_TRACK_FSR_INDEX then rc_off c' =? rc_off c + fm_chunk_size (rf_len (rc_pay c)) else true) && e2t_adjb r
    | [] => true
    end
  | [] => true
  end.

Lemma e2t_adjb_sound : forall cs, e2t_adjb cs = true ->
  forall i c c', nth_error cs i = Some c -> rc_tag c = JLS_TAG_TRACK_FSR_INDEX -> nth_error cs (S i) = Some c' ->
    rc_off c' = rc_off c + fm_chunk_size (rf_len (rc_pay c)).
Proof.
  induction cs as [|a r IH]; intros H i c c' Hi Ht Hi'; [destruct i; discriminate Hi|].
  cbn [e2t_adjb] in H. destruct r as [|b r']; [destruct i; [discriminate Hi'|destruct i; discriminate Hi]|].
  apply andb_true_iff in H. destruct H as (H1 & H2).
  destruct i as [|i].
  - cbn in Hi, Hi'. injection Hi as ->. injection Hi' as ->. rewrite Ht, N.eqb_refl in H1. apply N.eqb_eq in H1. exact H1.
  - apply (IH H2 i c c'); [exact Hi|exact Ht|exact Hi'].
Qed.

Definition e2t_bigb (cs : list rf_chunk) : bool := forallb (fun c => fm_disk_len (rf_len (rc_pay c)) <=? JLS_BUF_DEFAULT_SIZE) cs.
Lemma e2t_bigb_sound : forall cs, e2t_bigb cs = true -> Forall (fun c => fm_disk_len (rf_len (rc_pay c)) <= JLS_BUF_DEFAULT_SIZE) cs.
Proof.
  intros cs H. apply Forall_forall. intros c Hc. unfold e2t_bigb in H. rewrite forallb_forall in H. specialize (H c Hc). apply N.leb_le. exact H.
Qed.
