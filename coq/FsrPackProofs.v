(* Proofs about FsrPackModel.v *)
From Coq Require Import NArith ZArith List Bool Lia Arith.
From Coq Require Import ZifyBool ZifyN ZifyNat.
From JLS Require Import Generated Spec BitCopyModel BitCopyProofs FsrPackModel.
Import ListNotations.
Ltac Zify.zify_post_hook ::= Z.div_mod_to_equations.

(* ------------------------------------------------------------------ *)
(* sample bits and Spec.pack                                           *)
(* ------------------------------------------------------------------ *)
Definition sbits (w : N) (l : list N) : list bool := flat_map (bits_of (N.to_nat w)) l.

Lemma sbits_length : forall w l, length (sbits w l) = (length l * N.to_nat w)%nat.
Proof.
  induction l as [|a l IH]; [reflexivity|].
  unfold sbits in *. cbn [flat_map length]. rewrite app_length, IH, bits_of_length. lia.
Qed.

Lemma sbits_app : forall w a b, sbits w (a ++ b) = sbits w a ++ sbits w b.
Proof. intros. apply flat_map_app. Qed.

Lemma sbits_cons : forall w a l, sbits w (a :: l) = bits_of (N.to_nat w) a ++ sbits w l.
Proof. reflexivity. Qed.

Lemma firstn_app_len {A} : forall (a b : list A) n, firstn (length a + n) (a ++ b) = a ++ firstn n b.
Proof. intros. apply firstn_app_2. Qed.

Lemma sbits_firstn : forall w l n, sbits w (firstn n l) = firstn (n * N.to_nat w) (sbits w l).
Proof.
  induction l as [|a l IH]; intros n.
  - rewrite !firstn_nil. reflexivity.
  - destruct n as [|n]; [reflexivity|].
    rewrite firstn_cons, !sbits_cons, IH.
    replace (S n * N.to_nat w)%nat with (length (bits_of (N.to_nat w) a) + n * N.to_nat w)%nat
      by (rewrite bits_of_length; lia).
    rewrite firstn_app_len. reflexivity.
Qed.

Lemma sbits_skipn : forall w l n, sbits w (skipn n l) = skipn (n * N.to_nat w) (sbits w l).
Proof.
  induction l as [|a l IH]; intros n.
  - rewrite !skipn_nil. reflexivity.
  - destruct n as [|n]; [reflexivity|].
    rewrite skipn_cons, sbits_cons, IH.
    replace (S n * N.to_nat w)%nat with (length (bits_of (N.to_nat w) a) + n * N.to_nat w)%nat
      by (rewrite bits_of_length; lia).
    rewrite skipn_app_len. reflexivity.
Qed.

Lemma sbits_repeat : forall w v n, sbits w (repeat v n) = concat (repeat (bits_of (N.to_nat w) v) n).
Proof. induction n; [reflexivity|]. cbn [repeat concat]. rewrite sbits_cons, IHn. reflexivity. Qed.

(* byte_of_bits / bytes_of_bits *)
Lemma odd_bit_add : forall (b : bool) x, N.odd ((if b then 1 else 0) + 2 * x) = b.
Proof. intros b x. rewrite N.odd_add_mul_2. destruct b; reflexivity. Qed.

Lemma div2_bit_add : forall (b : bool) x, N.div2 ((if b then 1 else 0) + 2 * x) = x.
Proof. intros b x. destruct b; destruct x; reflexivity. Qed.

Lemma bits_of_0 : forall k, bits_of k 0 = repeat false k.
Proof. induction k; [reflexivity|]. cbn [bits_of repeat]. change (N.div2 0) with 0%N. rewrite IHk. reflexivity. Qed.

Lemma byte_of_bits_nil : forall k, byte_of_bits [] k = 0%N.
Proof. destruct k; reflexivity. Qed.

Lemma bits_of_byte_of_bits : forall k l,
  bits_of k (byte_of_bits l k) = firstn k l ++ repeat false (k - length l).
Proof.
  induction k as [|k IH]; intros l; [destruct l; reflexivity|].
  destruct l as [|b r].
  - rewrite byte_of_bits_nil, bits_of_0, firstn_nil. cbn [app length]. f_equal; lia.
  - cbn [byte_of_bits bits_of firstn length]. rewrite odd_bit_add, div2_bit_add, IH.
    replace (S k - S (length r))%nat with (k - length r)%nat by lia. reflexivity.
Qed.

Lemma byte_of_bits_lt : forall k l, (byte_of_bits l k < 2 ^ N.of_nat k)%N.
Proof.
  induction k as [|k IH]; intros l; [destruct l; reflexivity|].
  rewrite Nat2N.inj_succ, N.pow_succ_r'.
  destruct l as [|b r]; cbn [byte_of_bits].
  - assert (0 < 2 ^ N.of_nat k)%N by (apply N.neq_0_lt_0, N.pow_nonzero; discriminate). lia.
  - specialize (IH r). destruct b; lia.
Qed.

Lemma bytes_of_bits_spec : forall fuel L, (length L < fuel)%nat ->
  exists pad, (pad < 8)%nat /\ bc_bits (bytes_of_bits fuel L) = L ++ repeat false pad /\
              bytes_ok (bytes_of_bits fuel L).
Proof.
  induction fuel as [|fuel IH]; intros L HL; [lia|].
  destruct L as [|b L].
  - exists 0%nat. split; [lia|]. split; [reflexivity|constructor].
  - cbn [bytes_of_bits]. set (L0 := b :: L) in *.
    destruct (le_lt_dec 8 (length L0)) as [Hge|Hlt].
    + destruct (IH (skipn 8 L0)) as (pad & Hp & Hb & Hok).
      { rewrite skipn_length. lia. }
      exists pad. split; [exact Hp|]. split.
      * rewrite bc_bits_cons, Hb, bits_of_byte_of_bits.
        replace (8 - length L0)%nat with 0%nat by lia. cbn [repeat]. rewrite app_nil_r, app_assoc.
        rewrite firstn_skipn. reflexivity.
      * constructor; [|exact Hok]. apply (byte_of_bits_lt 8).
    + exists (8 - length L0)%nat. split; [subst L0; simpl length in *; lia|].
      rewrite (skipn_all2 L0) by lia.
      assert (Hnil : bytes_of_bits fuel [] = []) by (destruct fuel; reflexivity).
      rewrite Hnil. split.
      * rewrite bc_bits_cons, bits_of_byte_of_bits. unfold bc_bits. cbn [flat_map]. rewrite app_nil_r.
        rewrite firstn_all2 by lia. reflexivity.
      * constructor; [apply (byte_of_bits_lt 8)|constructor].
Qed.

Lemma pack_spec : forall w l,
  exists pad, (pad < 8)%nat /\ bc_bits (pack w l) = sbits w l ++ repeat false pad /\ bytes_ok (pack w l).
Proof.
  intros w l. unfold pack. apply bytes_of_bits_spec. fold (sbits w l). lia.
Qed.

(* length of pack: ceil(n*w/8) *)
Lemma pack_length : forall w l,
  N.of_nat (length (pack w l)) = ((N.of_nat (length l) * w + 7) / 8)%N.
Proof.
  intros w l. destruct (pack_spec w l) as (pad & Hp & Hb & _).
  apply (f_equal (@length bool)) in Hb.
  rewrite bc_bits_length, app_length, repeat_length, sbits_length in Hb.
  assert (E : (8 * N.of_nat (length (pack w l)) = N.of_nat (length l) * w + N.of_nat pad)%N) by lia.
  lia.
Qed.
