(* Proofs about FsrPackModel.v *)
From Coq Require Import NArith ZArith List Bool Lia Arith.
From Coq Require Import ZifyBool ZifyN ZifyNat.
From JLS Require Import Generated Spec BitCopyModel BitCopyProofs FsrPackModel.
Import ListNotations.
Ltac Zify.zify_post_hook ::= Z.div_mod_to_equations.

(* ------------------------------------------------------------------ *)
(* sample bits and Spec.pack                                           *)
(* ------------------------------------------------------------------ *)
Definition sbits (w : N) (l : list N) : list bool := flat_map (bits_of (N.to_nat w)) l.

Lemma sbits_length : forall w l, length (sbits w l) = (length l * N.to_nat w)%nat.
Proof.
  induction l as [|a l IH]; [reflexivity|].
  unfold sbits in *. cbn [flat_map length]. rewrite app_length, IH, bits_of_length. lia.
Qed.

Lemma sbits_app : forall w a b, sbits w (a ++ b) = sbits w a ++ sbits w b.
Proof. intros. apply flat_map_app. Qed.

Lemma sbits_cons : forall w a l, sbits w (a :: l) = bits_of (N.to_nat w) a ++ sbits w l.
Proof. reflexivity. Qed.

Lemma firstn_app_len {A} : forall (a b : list A) n, firstn (length a + n) (a ++ b) = a ++ firstn n b.
Proof. intros. apply firstn_app_2. Qed.

Lemma sbits_firstn : forall w l n, sbits w (firstn n l) = firstn (n * N.to_nat w) (sbits w l).
Proof.
  induction l as [|a l IH]; intros n.
  - rewrite !firstn_nil. reflexivity.
  - destruct n as [|n]; [reflexivity|].
    rewrite firstn_cons, !sbits_cons, IH.
    replace (S n * N.to_nat w)%nat with (length (bits_of (N.to_nat w) a) + n * N.to_nat w)%nat
      by (rewrite bits_of_length; lia).
    rewrite firstn_app_len. reflexivity.
Qed.

Lemma sbits_skipn : forall w l n, sbits w (skipn n l) = skipn (n * N.to_nat w) (sbits w l).
Proof.
  induction l as [|a l IH]; intros n.
  - rewrite !skipn_nil. reflexivity.
  - destruct n as [|n]; [reflexivity|].
    rewrite skipn_cons, sbits_cons, IH.
    replace (S n * N.to_nat w)%nat with (length (bits_of (N.to_nat w) a) + n * N.to_nat w)%nat
      by (rewrite bits_of_length; lia).
    rewrite skipn_app_len. reflexivity.
Qed.

Lemma sbits_repeat : forall w v n, sbits w (repeat v n) = concat (repeat (bits_of (N.to_nat w) v) n).
Proof. induction n; [reflexivity|]. cbn [repeat concat]. rewrite sbits_cons, IHn. reflexivity. Qed.

(* byte_of_bits / bytes_of_bits *)
Lemma odd_bit_add : forall (b : bool) x, N.odd ((if b then 1 else 0) + 2 * x) = b.
Proof. intros b x. rewrite N.odd_add_mul_2. destruct b; reflexivity. Qed.

Lemma div2_bit_add : forall (b : bool) x, N.div2 ((if b then 1 else 0) + 2 * x) = x.
Proof. intros b x. destruct b; destruct x; reflexivity. Qed.

Lemma bits_of_0 : forall k, bits_of k 0 = repeat false k.
Proof. induction k; [reflexivity|]. cbn [bits_of repeat]. change (N.div2 0) with 0%N. rewrite IHk. reflexivity. Qed.

Lemma byte_of_bits_nil : forall k, byte_of_bits [] k = 0%N.
Proof. destruct k; reflexivity. Qed.

Lemma bits_of_byte_of_bits : forall k l,
  bits_of k (byte_of_bits l k) = firstn k l ++ repeat false (k - length l).
Proof.
  induction k as [|k IH]; intros l; [destruct l; reflexivity|].
  destruct l as [|b r].
  - rewrite byte_of_bits_nil, bits_of_0, firstn_nil. cbn [app length]. f_equal; lia.
  - cbn [byte_of_bits bits_of firstn length]. rewrite odd_bit_add, div2_bit_add, IH.
    replace (S k - S (length r))%nat with (k - length r)%nat by lia. reflexivity.
Qed.

Lemma byte_of_bits_lt : forall k l, (byte_of_bits l k < 2 ^ N.of_nat k)%N.
Proof.
  induction k as [|k IH]; intros l; [destruct l; reflexivity|].
  rewrite Nat2N.inj_succ, N.pow_succ_r'.
  destruct l as [|b r]; cbn [byte_of_bits].
  - assert (0 < 2 ^ N.of_nat k)%N by (apply N.neq_0_lt_0, N.pow_nonzero; discriminate). lia.
  - specialize (IH r). destruct b; lia.
Qed.

Lemma bytes_of_bits_spec : forall fuel L, (length L < fuel)%nat ->
  exists pad, (pad < 8)%nat /\ bc_bits (bytes_of_bits fuel L) = L ++ repeat false pad /\
              bc_bytes_ok (bytes_of_bits fuel L).
Proof.
  induction fuel as [|fuel IH]; intros L HL; [lia|].
  destruct L as [|b L].
  - exists 0%nat. split; [lia|]. split; [reflexivity|constructor].
  - cbn [bytes_of_bits]. set (L0 := b :: L) in *.
    destruct (le_lt_dec 8 (length L0)) as [Hge|Hlt].
    + destruct (IH (skipn 8 L0)) as (pad & Hp & Hb & Hok).
      { rewrite skipn_length. lia. }
      exists pad. split; [exact Hp|]. split.
      * rewrite bc_bits_cons, Hb, bits_of_byte_of_bits.
        replace (8 - length L0)%nat with 0%nat by lia. cbn [repeat]. rewrite app_nil_r, app_assoc.
        rewrite firstn_skipn. reflexivity.
      * constructor; [|exact Hok]. apply (byte_of_bits_lt 8).
    + exists (8 - length L0)%nat. split; [subst L0; simpl length in *; lia|].
      rewrite (skipn_all2 L0) by lia.
      assert (Hnil : bytes_of_bits fuel [] = []) by (destruct fuel; reflexivity).
      rewrite Hnil. split.
      * rewrite bc_bits_cons, bits_of_byte_of_bits. unfold bc_bits. cbn [flat_map]. rewrite app_nil_r.
        rewrite firstn_all2 by lia. reflexivity.
      * constructor; [apply (byte_of_bits_lt 8)|constructor].
Qed.

Lemma pack_spec : forall w l,
  exists pad, (pad < 8)%nat /\ bc_bits (pack w l) = sbits w l ++ repeat false pad /\ bc_bytes_ok (pack w l).
Proof.
  intros w l. unfold pack. apply bytes_of_bits_spec. fold (sbits w l). lia.
Qed.

(* length of pack: ceil(n*w/8) *)
Lemma pack_length : forall w l,
  N.of_nat (length (pack w l)) = ((N.of_nat (length l) * w + 7) / 8)%N.
Proof.
  intros w l. destruct (pack_spec w l) as (pad & Hp & Hb & _).
  apply (f_equal (@length bool)) in Hb.
  rewrite bc_bits_length, app_length, repeat_length, sbits_length in Hb.
  assert (E : (8 * N.of_nat (length (pack w l)) = N.of_nat (length l) * w + N.of_nat pad)%N) by lia.
  lia.
Qed.
Lemma skipn_add {A} : forall p (l : list A) a, skipn a (skipn p l) = skipn (p + a) l.
Proof.
  induction p as [|p IH]; intros l a; [reflexivity|].
  destruct l as [|x l]; [rewrite !skipn_nil; reflexivity|]. cbn [skipn plus]. apply IH.
Qed.

Lemma firstn_skipn_add {A} : forall (l : list A) p a b,
  firstn a (skipn p l) ++ firstn b (skipn (p + a) l) = firstn (a + b) (skipn p l).
Proof.
  intros l p a b. rewrite <- (firstn_skipn a (skipn p l)) at 2.
  destruct (le_lt_dec a (length (skipn p l))) as [H|H].
  - replace (a + b)%nat with (length (firstn a (skipn p l)) + b)%nat by (rewrite firstn_length; lia).
    rewrite firstn_app_len. f_equal. f_equal. rewrite skipn_add. reflexivity.
  - rewrite (firstn_all2 (n := a)) by lia.
    rewrite skipn_length in H.
    rewrite (skipn_all2 (n := p + a)) by lia. rewrite firstn_nil, app_nil_r.
    rewrite (skipn_all2 (n := a)) by (rewrite skipn_length; lia). rewrite app_nil_r.
    rewrite firstn_all2 by (rewrite skipn_length; lia). reflexivity.
Qed.

Lemma firstn_splice_prefix {A} : forall (a x c : list A), firstn (length a + length x) (a ++ x ++ c) = a ++ x.
Proof.
  intros. rewrite firstn_app_len. f_equal.
  replace (length x) with (length x + 0)%nat by lia. rewrite firstn_app_len. cbn. apply app_nil_r.
Qed.

Lemma fp_u32_small : forall x, (x < 4294967296)%N -> fp_u32 x = x.
Proof. intros. unfold fp_u32. apply N.mod_small. assumption. Qed.

Section Writer.
Variables (w spd : N).
Hypothesis Hw : (0 < w)%N.
Hypothesis Hspd : (0 < spd)%N.
Hypothesis Hmul : ((spd * w) mod 8 = 0)%N.
Hypothesis Hbnd : (spd * w + 7 < 4294967296)%N.

Definition blk_bits (b : Z * N * list N) : list bool :=
  let '(_, cnt, p) := b in firstn (N.to_nat (cnt * w)) (bc_bits p).
Definition stream_bits (st : fp_state) : list bool :=
  flat_map blk_bits (fp_blocks st) ++ firstn (N.to_nat (fp_ec st * w)) (bc_bits (fp_buf st)).
Definition fp_count (st : fp_state) : N := (N.of_nat (length (fp_blocks st)) * spd + fp_ec st)%N.

Definition full_blocks (first : Z) (blocks : list (Z * N * list N)) : Prop :=
  forall k ts cnt p, nth_error blocks k = Some (ts, cnt, p) ->
    ts = (first + Z.of_nat k * Z.of_N spd)%Z /\ cnt = spd /\
    (8 * N.of_nat (length p) = spd * w)%N /\ bc_bytes_ok p.

Record fp_Inv (first : Z) (st : fp_state) : Prop := {
  inv_open : fp_open st = true;
  inv_first : fp_first st = first;
  inv_ec : (fp_ec st < spd)%N;
  inv_buf : (8 * N.of_nat (length (fp_buf st)) = spd * w)%N;
  inv_ok : bc_bytes_ok (fp_buf st);
  inv_ts : fp_ts st = (first + Z.of_nat (length (fp_blocks st)) * Z.of_N spd)%Z;
  inv_blocks : full_blocks first (fp_blocks st) }.

Lemma spd_lt32 : (spd < 4294967296)%N.
Proof. assert (spd * 1 <= spd * w)%N by (apply N.mul_le_mono_l; lia). lia. Qed.

Lemma full_blocks_snoc : forall first blocks p,
  full_blocks first blocks -> (8 * N.of_nat (length p) = spd * w)%N -> bc_bytes_ok p ->
  full_blocks first (blocks ++ [((first + Z.of_nat (length blocks) * Z.of_N spd)%Z, spd, p)]).
Proof.
  intros first blocks p Hf Hl Hp k ts cnt q Hk.
  destruct (lt_dec k (length blocks)) as [Hlt|Hge].
  - rewrite nth_error_app1 in Hk by exact Hlt. eapply Hf; eauto.
  - rewrite nth_error_app2 in Hk by lia.
    destruct (k - length blocks)%nat as [|m] eqn:E; cbn in Hk.
    + inversion Hk; subst. replace k with (length blocks) by lia. auto.
    + destruct m; discriminate.
Qed.

(* wr_data on a full block buffer *)
Lemma wr_data_full : forall st, fp_ec st = spd -> (8 * N.of_nat (length (fp_buf st)) = spd * w)%N ->
  fp_wr_data w spd st =
  FP_ok {| fp_open := fp_open st; fp_first := fp_first st; fp_ts := (fp_ts st + Z.of_N spd)%Z; fp_ec := 0;
           fp_buf := fp_buf st; fp_blocks := fp_blocks st ++ [(fp_ts st, spd, fp_buf st)] |}.
Proof.
  intros st Hec Hl. unfold fp_wr_data. rewrite Hec.
  destruct (N.eqb_spec spd 0); [lia|].
  rewrite (fp_u32_small (spd * w)) by lia. rewrite (fp_u32_small (spd * w + 7)) by lia.
  rewrite land7, Hmul. cbn [N.eqb].
  assert (Hdl : ((spd * w + 7) / 8 = N.of_nat (length (fp_buf st)))%N) by lia.
  rewrite Hdl. rewrite N.leb_refl. rewrite Nat2N.id, firstn_all. reflexivity.
Qed.

Lemma wr_inner_spec : forall fuel st first src src_bit n,
  fp_Inv first st -> bc_bytes_ok src -> (N.to_nat n <= fuel)%nat ->
  (src_bit + n * w <= 8 * N.of_nat (length src))%N ->
  exists st', fp_wr_inner fuel w spd st src src_bit n = FP_ok st' /\ fp_Inv first st' /\
    stream_bits st' = stream_bits st ++ firstn (N.to_nat (n * w)) (skipn (N.to_nat src_bit) (bc_bits src)) /\
    fp_count st' = (fp_count st + n)%N.
Proof.
  induction fuel as [|fuel IH]; intros st first src src_bit n HI Hsrc Hfuel Hb.
  - assert (n = 0%N) by lia. subst n. exists st. cbn [fp_wr_inner N.eqb].
    split; [reflexivity|]. split; [exact HI|]. split; [|lia].
    cbn [N.mul N.to_nat firstn]. rewrite app_nil_r. reflexivity.
  - cbn [fp_wr_inner]. destruct (N.eqb_spec n 0) as [->|Hn0].
    + exists st. split; [reflexivity|]. split; [exact HI|]. split; [|lia].
      cbn [N.mul N.to_nat firstn]. rewrite app_nil_r. reflexivity.
    + destruct HI as [Hopen Hfirst Hec Hbuf Hok Hts Hblocks].
      pose proof spd_lt32 as H32.
      assert (Hroom : fp_u32 (spd + 4294967296 - fp_ec st) = (spd - fp_ec st)%N) by (unfold fp_u32; lia).
      rewrite Hroom.
      set (room := (spd - fp_ec st)%N) in *.
      set (len := if (n <? room)%N then n else room).
      assert (Hlen : (1 <= len /\ len <= n /\ fp_ec st + len <= spd)%N).
      { subst len room. destruct (N.ltb_spec n (spd - fp_ec st)); lia. }
      destruct Hlen as (Hl1 & Hl2 & Hl3).
      assert (Hm1 : ((fp_ec st + len) * w <= spd * w)%N) by (apply N.mul_le_mono_r; exact Hl3).
      assert (Hm2 : (len * w <= n * w)%N) by (apply N.mul_le_mono_r; exact Hl2).
      rewrite N.mul_add_distr_r in Hm1.
      destruct (bit_copy_spec (fp_buf st) (fp_ec st * w) src src_bit (len * w)) as (buf' & Hcp & Hbits & Hlen' & Hok' & _);
        [lia | lia |].
      rewrite Hcp.
      rewrite (fp_u32_small (fp_ec st + len)) by lia.
      set (X := firstn (N.to_nat (len * w)) (skipn (N.to_nat src_bit) (bc_bits src))) in *.
      assert (HX : length X = N.to_nat (len * w)).
      { subst X. rewrite firstn_length, skipn_length, bc_bits_length. lia. }
      set (A := firstn (N.to_nat (fp_ec st * w)) (bc_bits (fp_buf st))) in *.
      assert (HA : length A = N.to_nat (fp_ec st * w)).
      { subst A. rewrite firstn_length, bc_bits_length. lia. }
      assert (Hrest : ((n - len) * w = n * w - len * w)%N) by (rewrite N.mul_sub_distr_r; reflexivity).
      assert (Hcat : X ++ firstn (N.to_nat ((n - len) * w)) (skipn (N.to_nat (src_bit + len * w)) (bc_bits src))
                     = firstn (N.to_nat (n * w)) (skipn (N.to_nat src_bit) (bc_bits src))).
      { subst X. replace (N.to_nat (src_bit + len * w)) with (N.to_nat src_bit + N.to_nat (len * w))%nat by lia.
        rewrite firstn_skipn_add. f_equal. lia. }
      cbn [fp_ec].
      destruct (N.leb_spec spd (fp_ec st + len)) as [Hfull|Hpart].
      * (* the block is full: flush *)
        assert (Hecl : (fp_ec st + len = spd)%N) by lia.
        rewrite Hecl.
        rewrite wr_data_full by (cbn [fp_ec fp_buf]; first [reflexivity | rewrite Hlen'; exact Hbuf]).
        cbn [fp_open fp_first fp_ts fp_buf fp_blocks].
        set (st2 := {| fp_open := fp_open st; fp_first := fp_first st; fp_ts := (fp_ts st + Z.of_N spd)%Z;
                       fp_ec := 0; fp_buf := buf'; fp_blocks := fp_blocks st ++ [(fp_ts st, spd, buf')] |}).
        assert (HI2 : fp_Inv first st2).
        { constructor; cbn [st2 fp_open fp_first fp_ts fp_ec fp_buf fp_blocks].
          - exact Hopen.
          - exact Hfirst.
          - lia.
          - rewrite Hlen'; exact Hbuf.
          - apply Hok'; assumption.
          - rewrite app_length. cbn [length]. lia.
          - rewrite Hts. apply full_blocks_snoc; [exact Hblocks | rewrite Hlen'; exact Hbuf | apply Hok'; assumption]. }
        destruct (IH st2 first src (src_bit + len * w)%N (n - len)%N HI2 Hsrc) as (st' & Hrun & HI' & Hs' & Hc'); [lia | lia |].
        exists st'. split; [exact Hrun|]. split; [exact HI'|]. split.
        -- rewrite Hs'. unfold stream_bits. cbn [st2 fp_blocks fp_ec fp_buf].
           rewrite flat_map_app. cbn [flat_map blk_bits]. cbn [N.mul N.to_nat firstn]. rewrite !app_nil_r.
           rewrite firstn_all2 by (rewrite bc_bits_length; lia).
           rewrite Hbits. fold A.
           rewrite (skipn_all2 (n := N.to_nat (fp_ec st * w + len * w))) by (rewrite bc_bits_length; lia).
           rewrite app_nil_r. rewrite <- !app_assoc. rewrite Hcat. reflexivity.
        -- rewrite Hc'. unfold fp_count. cbn [st2 fp_blocks fp_ec]. rewrite app_length. cbn [length]. lia.
      * set (st1 := {| fp_open := fp_open st; fp_first := fp_first st; fp_ts := fp_ts st;
                       fp_ec := fp_ec st + len; fp_buf := buf'; fp_blocks := fp_blocks st |}).
        assert (HI1 : fp_Inv first st1).
        { constructor; cbn [st1 fp_open fp_first fp_ts fp_ec fp_buf fp_blocks].
          - exact Hopen.
          - exact Hfirst.
          - lia.
          - rewrite Hlen'; exact Hbuf.
          - apply Hok'; assumption.
          - exact Hts.
          - exact Hblocks. }
        destruct (IH st1 first src (src_bit + len * w)%N (n - len)%N HI1 Hsrc) as (st' & Hrun & HI' & Hs' & Hc'); [lia | lia |].
        exists st'. split; [exact Hrun|]. split; [exact HI'|]. split.
        -- rewrite Hs'. unfold stream_bits. cbn [st1 fp_blocks fp_ec fp_buf].
           rewrite Hbits. fold A.
           replace (N.to_nat ((fp_ec st + len) * w)) with (length A + length X)%nat by (rewrite N.mul_add_distr_r; lia).
           rewrite firstn_splice_prefix. rewrite <- !app_assoc. rewrite Hcat. reflexivity.
        -- rewrite Hc'. unfold fp_count. cbn [st1 fp_blocks fp_ec]. lia.
Qed.

(* ---------------- the final (possibly partial) block ---------------- *)
Definition blocks_wf (first : Z) (blocks : list (Z * N * list N)) : Prop :=
  forall k ts cnt p, nth_error blocks k = Some (ts, cnt, p) ->
    ts = (first + Z.of_nat k * Z.of_N spd)%Z /\ (0 < cnt <= spd)%N /\
    ((S k < length blocks)%nat -> cnt = spd) /\
    N.of_nat (length p) = ((cnt * w + 7) / 8)%N /\ bc_bytes_ok p /\
    Forall (fun b => b = false) (skipn (N.to_nat (cnt * w)) (bc_bits p)).

Lemma Forall_false_skipn : forall (l : list bool) n,
  (forall i, (n <= i)%nat -> nth i l false = false) -> Forall (fun b => b = false) (skipn n l).
Proof.
  intros l n H. apply Forall_forall. intros x Hx.
  destruct (In_nth _ _ false Hx) as (i & Hi & <-).
  rewrite nth_skipn_add. apply H. lia.
Qed.

Lemma full_blocks_wf : forall first blocks, full_blocks first blocks -> blocks_wf first blocks.
Proof.
  intros first blocks Hf k ts cnt p Hk. destruct (Hf k ts cnt p Hk) as (Hts & -> & Hl & Hok).
  split; [exact Hts|]. split; [lia|]. split; [auto|]. split; [lia|]. split; [exact Hok|].
  rewrite skipn_all2 by (rewrite bc_bits_length; lia). constructor.
Qed.

Lemma testbit_low_mask : forall b r k, (r < 8)%N -> (k < 8)%N ->
  N.testbit (N.land b (N.land (N.shiftl 1 r - 1) 255)) k = N.testbit b k && (k <? r)%N.
Proof.
  intros b r k Hr Hk. rewrite !N.land_spec, testbit_mask, testbit_255.
  destruct (N.ltb_spec k 8); [|lia]. rewrite andb_true_r. reflexivity.
Qed.

Lemma low_mask_lt : forall b r, (b < 256)%N -> (N.land b (N.land (N.shiftl 1 r - 1) 255) < 256)%N.
Proof.
  intros b r Hb. rewrite N.land_assoc. apply land_255_lt.
Qed.

(* wr_data with a partially filled block buffer: the payload is the first ceil(ec*w/8) bytes,
   its bits below ec*w are the buffer's, the rest of the last byte is zero *)
Lemma wr_data_partial : forall st, (0 < fp_ec st < spd)%N ->
  (8 * N.of_nat (length (fp_buf st)) = spd * w)%N -> bc_bytes_ok (fp_buf st) ->
  exists buf' p,
    fp_wr_data w spd st =
      FP_ok {| fp_open := fp_open st; fp_first := fp_first st; fp_ts := (fp_ts st + Z.of_N spd)%Z; fp_ec := 0;
               fp_buf := buf'; fp_blocks := fp_blocks st ++ [(fp_ts st, fp_ec st, p)] |} /\
    N.of_nat (length p) = ((fp_ec st * w + 7) / 8)%N /\ bc_bytes_ok p /\
    (forall i, nth i (bc_bits p) false =
               if (i <? N.to_nat (fp_ec st * w))%nat then nth i (bc_bits (fp_buf st)) false else false).
Proof.
  intros st Hec Hl Hok. unfold fp_wr_data.
  destruct (N.eqb_spec (fp_ec st) 0); [lia|].
  assert (Hm : (fp_ec st * w <= spd * w)%N) by (apply N.mul_le_mono_r; lia).
  rewrite (fp_u32_small (fp_ec st * w)) by lia. rewrite (fp_u32_small (fp_ec st * w + 7)) by lia.
  rewrite land7.
  set (nb := (fp_ec st * w)%N) in *. set (dl := ((nb + 7) / 8)%N).
  assert (Hdl : (dl <= N.of_nat (length (fp_buf st)))%N) by (subst dl; lia).
  destruct (N.eqb_spec (nb mod 8) 0) as [Hr|Hr].
  - destruct (N.leb_spec dl (N.of_nat (length (fp_buf st)))); [|lia].
    exists (fp_buf st), (firstn (N.to_nat dl) (fp_buf st)). split; [reflexivity|].
    split; [rewrite firstn_length; lia|]. split; [apply Forall_firstn'; exact Hok|].
    intros i. rewrite bc_bits_firstn, nth_firstn_if.
    replace (8 * N.to_nat dl)%nat with (N.to_nat nb) by (subst dl; lia). reflexivity.
  - assert (Hd1 : (N.to_nat (dl - 1) < length (fp_buf st))%nat) by (subst dl; lia).
    unfold bc_get, bc_set. rewrite (nth_error_nth' (fp_buf st) 0%N Hd1).
    rewrite bc_set_nat_some by exact Hd1.
    set (b := nth (N.to_nat (dl - 1)) (fp_buf st) 0%N).
    set (m := N.land b (N.land (N.shiftl 1 (nb mod 8) - 1) 255)).
    set (buf' := firstn (N.to_nat (dl - 1)) (fp_buf st) ++ m :: skipn (S (N.to_nat (dl - 1))) (fp_buf st)).
    assert (Hl' : length buf' = length (fp_buf st)) by (apply set_length; exact Hd1).
    destruct (N.leb_spec dl (N.of_nat (length buf'))); [|lia].
    exists buf', (firstn (N.to_nat dl) buf'). split; [reflexivity|].
    assert (Hb : (b < 256)%N).
    { subst b. apply (proj1 (Forall_forall _ _) Hok). apply nth_In. exact Hd1. }
    split; [rewrite firstn_length; lia|]. split.
    { apply Forall_firstn'. apply set_bytes_ok; [exact Hok | apply low_mask_lt; exact Hb]. }
    intros i. rewrite bc_bits_firstn, nth_firstn_if.
    destruct (split8 i) as (j & k & -> & Hk).
    rewrite !bc_bits_nth by exact Hk. unfold buf'. rewrite set_nth by exact Hd1. fold b m.
    destruct (Nat.eqb_spec j (N.to_nat (dl - 1))) as [Hj|Hj].
    + unfold m. rewrite testbit_low_mask by lia. fold b. subst j.
      destruct (Nat.ltb_spec (8 * N.to_nat (dl - 1) + k) (8 * N.to_nat dl)); [|subst dl; lia].
      destruct (N.ltb_spec (N.of_nat k) (nb mod 8)); destruct (Nat.ltb_spec (8 * N.to_nat (dl - 1) + k) (N.to_nat nb));
        try (exfalso; subst dl; lia).
      * rewrite andb_true_r. reflexivity.
      * rewrite andb_false_r. reflexivity.
    + destruct (Nat.ltb_spec (8 * j + k) (8 * N.to_nat dl)); destruct (Nat.ltb_spec (8 * j + k) (N.to_nat nb));
        try reflexivity; exfalso; subst dl; lia.
Qed.

Definition fp_total_is (blocks : list (Z * N * list N)) (n : N) : Prop := fp_total blocks = n.

Lemma fp_total_app : forall a b, fp_total (a ++ b) = (fp_total a + fp_total b)%N.
Proof.
  induction a as [|[[ts c] p] a IH]; intros b; [reflexivity|].
  cbn [app]. unfold fp_total in *. cbn [fold_right]. rewrite IH. lia.
Qed.

Lemma full_blocks_total : forall first blocks, full_blocks first blocks ->
  fp_total blocks = (N.of_nat (length blocks) * spd)%N.
Proof.
  intros first blocks. revert first. induction blocks as [|[[ts c] p] r IH]; intros first Hf; [reflexivity|].
  assert (Hc : c = spd) by (destruct (Hf 0%nat ts c p eq_refl) as (_ & -> & _); reflexivity).
  assert (Hr : full_blocks (first + Z.of_N spd)%Z r).
  { intros k ts' c' p' Hk. destruct (Hf (S k) ts' c' p' Hk) as (Hts & Hrest). split; [lia|exact Hrest]. }
  unfold fp_total in *. cbn [fold_right length]. rewrite (IH _ Hr). lia.
Qed.

Lemma close_spec : forall st first, fp_Inv first st ->
  exists st', fp_wr_data w spd st = FP_ok st' /\
    flat_map blk_bits (fp_blocks st') = stream_bits st /\
    blocks_wf first (fp_blocks st') /\ fp_total (fp_blocks st') = fp_count st /\
    fp_first st' = first.
Proof.
  intros st first [Hopen Hfirst Hec Hbuf Hok Hts Hblocks].
  destruct (N.eq_dec (fp_ec st) 0) as [Hz|Hnz].
  - exists st. unfold fp_wr_data. rewrite Hz. cbn [N.eqb]. split; [reflexivity|].
    split; [|split; [|split]].
    + unfold stream_bits. rewrite Hz. cbn [N.mul N.to_nat firstn]. rewrite app_nil_r. reflexivity.
    + apply full_blocks_wf; exact Hblocks.
    + unfold fp_count. rewrite Hz, (full_blocks_total _ _ Hblocks). lia.
    + exact Hfirst.
  - destruct (wr_data_partial st ltac:(lia) Hbuf Hok) as (buf' & p & Hrun & Hlp & Hokp & Hbits).
    eexists. split; [exact Hrun|]. cbn [fp_blocks fp_first].
    assert (Hm : (fp_ec st * w <= spd * w)%N) by (apply N.mul_le_mono_r; lia).
    split; [|split; [|split]].
    + unfold stream_bits. rewrite flat_map_app. cbn [flat_map blk_bits]. rewrite app_nil_r. f_equal.
      apply (list_eq_nth false).
      * rewrite !firstn_length, !bc_bits_length. lia.
      * intros i _. rewrite !nth_firstn_if, Hbits.
        destruct (Nat.ltb_spec i (N.to_nat (fp_ec st * w))); reflexivity.
    + intros k ts cnt q Hk.
      destruct (lt_dec k (length (fp_blocks st))) as [Hlt|Hge].
      * rewrite nth_error_app1 in Hk by exact Hlt.
        destruct (full_blocks_wf _ _ Hblocks k ts cnt q Hk) as (H1 & H2 & H3 & H4).
        split; [exact H1|]. split; [exact H2|]. split; [|exact H4].
        intros _. destruct (Hblocks k ts cnt q Hk) as (_ & -> & _). reflexivity.
      * rewrite nth_error_app2 in Hk by lia.
        destruct (k - length (fp_blocks st))%nat as [|m] eqn:E; cbn in Hk; [|destruct m; discriminate].
        inversion Hk; subst ts cnt q. clear Hk.
        assert (Hkl : k = length (fp_blocks st)) by lia. subst k.
        split; [exact Hts|]. split; [lia|].
        split; [rewrite app_length; cbn [length]; lia|]. split; [exact Hlp|]. split; [exact Hokp|].
        apply Forall_false_skipn. intros i Hi. rewrite Hbits.
        destruct (Nat.ltb_spec i (N.to_nat (fp_ec st * w))); [lia|reflexivity].
    + rewrite fp_total_app, (full_blocks_total _ _ Hblocks). unfold fp_count, fp_total. cbn [fold_right]. lia.
    + exact Hfirst.
Qed.

(* ---------------- gap fill ---------------- *)
Section Gap.
Variables (fill : list N) (fillv : N) (B : N).
Hypothesis Hfill_ok : bc_bytes_ok fill.
Hypothesis HB : (B < 4294967296)%N.
Hypothesis Hfill_len : (B * w <= 8 * N.of_nat (length fill))%N.
Hypothesis Hfill_bits : forall n, (n <= B)%N ->
  firstn (N.to_nat (n * w)) (bc_bits fill) = sbits w (repeat fillv (N.to_nat n)).

Lemma gap_loop_spec : forall fuel st first skip bufsz,
  fp_Inv first st -> (1 <= bufsz <= B)%N -> (N.to_nat skip <= fuel)%nat ->
  exists st', fp_gap_loop fuel w spd st fill skip bufsz = FP_ok st' /\ fp_Inv first st' /\
    stream_bits st' = stream_bits st ++ sbits w (repeat fillv (N.to_nat skip)) /\
    fp_count st' = (fp_count st + skip)%N.
Proof.
  induction fuel as [|fuel IH]; intros st first skip bufsz HI Hbz Hfuel.
  - assert (skip = 0%N) by lia. subst skip. exists st. split; [reflexivity|]. split; [exact HI|].
    split; [|lia]. cbn. rewrite app_nil_r. reflexivity.
  - cbn [fp_gap_loop]. destruct (N.eqb_spec skip 0) as [->|Hs0].
    + exists st. split; [reflexivity|]. split; [exact HI|]. split; [|lia]. cbn. rewrite app_nil_r. reflexivity.
    + set (bz := if (skip <? bufsz)%N then skip else bufsz).
      assert (Hbz' : (1 <= bz /\ bz <= skip /\ bz <= bufsz)%N).
      { subst bz. destruct (N.ltb_spec skip bufsz); lia. }
      destruct Hbz' as (Hz1 & Hz2 & Hz3).
      rewrite (fp_u32_small bz) by lia.
      assert (Hm : (bz * w <= B * w)%N) by (apply N.mul_le_mono_r; lia).
      destruct (wr_inner_spec (N.to_nat bz) st first fill 0 bz HI Hfill_ok (le_n _)) as (st1 & Hrun & HI1 & Hs1 & Hc1); [lia|].
      rewrite Hrun.
      destruct (IH st1 first (skip - bz)%N bz HI1) as (st' & Hrun' & HI' & Hs' & Hc'); [lia | lia |].
      exists st'. split; [exact Hrun'|]. split; [exact HI'|]. split; [|lia].
      rewrite Hs', Hs1. cbn [N.to_nat skipn]. rewrite Hfill_bits by lia.
      rewrite <- app_assoc, <- sbits_app, <- repeat_app. do 3 f_equal. lia.
Qed.
End Gap.
End Writer.
(* ------------------------------------------------------------------ *)
(* one jls_wr_fsr_data call against Spec.fsr_write                     *)
(* ------------------------------------------------------------------ *)
Definition fp_bufsz (dt : N) : N :=
  if (dt =? JLS_DATATYPE_F32)%N then (FP_FILL_BYTES / 4)%N
  else if (dt =? JLS_DATATYPE_F64)%N then (FP_FILL_BYTES / 8)%N
  else ((FP_FILL_BYTES * 8) / dt_bits dt)%N.

(* what the proofs need to know about a data type: its width and its gap-fill buffer *)
Definition dt_fill_ok (dt : N) : Prop :=
  let w := dt_bits dt in
  (0 < w)%N /\ (1 <= fp_bufsz dt < 4294967296)%N /\ bc_bytes_ok (fp_fill_buf dt) /\
  (fp_bufsz dt * w <= 8 * N.of_nat (length (fp_fill_buf dt)))%N /\
  forall n, (n <= fp_bufsz dt)%N ->
    firstn (N.to_nat (n * w)) (bc_bits (fp_fill_buf dt)) = sbits w (repeat (fill_value dt) (N.to_nat n)).

Definition spd_ok (w spd : N) : Prop :=
  (0 < spd)%N /\ ((spd * w) mod 8 = 0)%N /\ (spd * w + 7 < 4294967296)%N.

Definition fp_Rel (dt spd : N) (st : fp_state) (s : sigstate) : Prop :=
  sg_dtype (ss_def s) = dt /\
  match ss_first s with
  | None => fp_open st = false /\ fp_blocks st = [] /\ ss_samples s = [] /\
            (8 * N.of_nat (length (fp_buf st)) = spd * dt_bits dt)%N /\ bc_bytes_ok (fp_buf st)
  | Some first => fp_Inv (dt_bits dt) spd first st /\
                  stream_bits (dt_bits dt) st = sbits (dt_bits dt) (ss_samples s) /\
                  fp_count spd st = N.of_nat (length (ss_samples s))
  end.

Lemma slice_sbits : forall w l z a b, (a + b <= length l)%nat ->
  firstn (b * N.to_nat w) (skipn (a * N.to_nat w) (sbits w l ++ z)) = sbits w (firstn b (skipn a l)).
Proof.
  intros w l z a b Hab.
  rewrite sbits_firstn, sbits_skipn.
  rewrite skipn_app. rewrite firstn_app.
  assert (Hz : (a * N.to_nat w - length (sbits w l) = 0)%nat).
  { rewrite sbits_length. assert (a * N.to_nat w <= length l * N.to_nat w)%nat by (apply Nat.mul_le_mono_r; lia). lia. }
  assert (Hy : (b * N.to_nat w - length (skipn (a * N.to_nat w) (sbits w l)) = 0)%nat).
  { rewrite skipn_length, sbits_length.
    assert ((a + b) * N.to_nat w <= length l * N.to_nat w)%nat by (apply Nat.mul_le_mono_r; lia). lia. }
  rewrite Hy, Hz. cbn [firstn skipn]. apply app_nil_r.
Qed.

Lemma fp_Inv_next : forall w spd first st, fp_Inv w spd first st ->
  fp_next st = (first + Z.of_N (fp_count spd st))%Z.
Proof. intros w spd first st HI. unfold fp_next, fp_count. rewrite (inv_ts _ _ _ _ HI). lia. Qed.

Lemma wr_call_spec : forall dt spd st s sid samples,
  dt_fill_ok dt -> spd_ok (dt_bits dt) spd -> fp_Rel dt spd st s ->
  (N.of_nat (length samples) < 4294967296)%N ->
  exists st', fp_wr_call dt spd st sid (pack (dt_bits dt) samples) (N.of_nat (length samples)) = FP_ok st' /\
              fp_Rel dt spd st' (fsr_write s sid samples).
Proof.
  intros dt spd st s sid samples (Hw & Hbz & Hfok & Hflen & Hfbits) (Hspd & Hmul & Hbnd) (Hdt & HR) Hn32.
  set (w := dt_bits dt) in *.
  unfold fp_wr_call. fold w.
  destruct samples as [|x r].
  { cbn [length N.of_nat N.eqb]. exists st. split; [reflexivity|]. cbn [fsr_write]. split; assumption. }
  set (samples := x :: r) in *. set (n := N.of_nat (length samples)) in *.
  assert (Hn0 : (1 <= n)%N) by (subst n samples; cbn [length]; lia).
  destruct (N.eqb_spec n 0); [lia|].
  destruct (pack_spec w samples) as (pad & _ & Hpb & Hpok).
  assert (Hpl : (8 * N.of_nat (length (pack w samples)) = n * w + N.of_nat pad)%N).
  { apply (f_equal (@length bool)) in Hpb. rewrite bc_bits_length, app_length, repeat_length, sbits_length in Hpb.
    subst n. lia. }
  assert (Hslice : forall a b, (a + b <= n)%N ->
     firstn (N.to_nat (b * w)) (skipn (N.to_nat (a * w)) (bc_bits (pack w samples))) =
     sbits w (firstn (N.to_nat b) (skipn (N.to_nat a) samples))).
  { intros a b Hab. rewrite Hpb, !N2Nat.inj_mul. apply slice_sbits. subst n. lia. }
  unfold fsr_write. fold samples.
  change (match samples with [] => s | _ :: _ => ?X end) with X.
  destruct (ss_first s) as [first|] eqn:Efirst.
  - (* already open *)
    destruct HR as (HI & Hstream & Hcount).
    rewrite (inv_open _ _ _ _ HI).
    rewrite (fp_Inv_next _ _ _ _ HI). rewrite Hcount.
    replace (Z.of_N (N.of_nat (length (ss_samples s)))) with (Z.of_nat (length (ss_samples s))) by lia.
    set (next := (first + Z.of_nat (length (ss_samples s)))%Z).
    destruct (Z.eqb_spec sid next) as [Heq|Hne].
    + (* normal *)
      destruct (wr_inner_spec w spd Hw Hspd Hmul Hbnd (N.to_nat n) st first (pack w samples) 0 n HI Hpok (le_n _))
        as (st' & Hrun & HI' & Hs' & Hc'); [lia|].
      exists st'. split; [exact Hrun|]. split; [exact Hdt|]. cbn [ss_first ss_samples ss_def]. fold w.
      split; [exact HI'|].
      destruct (Z.geb_spec sid next); [|lia].
      replace (Z.to_nat (sid - next)) with 0%nat by lia. cbn [repeat app].
      split.
      * rewrite Hs', Hstream, sbits_app. f_equal.
        specialize (Hslice 0%N n ltac:(lia)). cbn [N.mul] in Hslice. rewrite Hslice.
        cbn [N.to_nat skipn]. rewrite firstn_all2 by (subst n; lia). reflexivity.
      * rewrite Hc', Hcount, app_length. subst n. lia.
    + destruct (Z.ltb_spec sid next) as [Hlt|Hgt].
      * (* overlap *)
        destruct (Z.geb_spec sid next); [lia|].
        destruct (Z.leb_spec (sid + Z.of_N n) next) as [Hpast|Hpart].
        -- exists st. split; [reflexivity|]. split; [exact Hdt|]. cbn [ss_first ss_samples ss_def]. fold w.
           rewrite skipn_all2 by (subst n; lia). rewrite app_nil_r. split; [exact HI|]. split; assumption.
        -- set (ffwd := Z.to_N (next - sid)).
           assert (Hff : (1 <= ffwd /\ ffwd < n)%N) by (subst ffwd; lia).
           rewrite (fp_u32_small ffwd) by lia.
           assert (Hn' : fp_u32 (n + 4294967296 - ffwd) = (n - ffwd)%N) by (unfold fp_u32; lia).
           rewrite Hn'.
           assert (Hmm : ((n - ffwd) * w = n * w - ffwd * w)%N) by (apply N.mul_sub_distr_r).
           assert (Hmle : (ffwd * w <= n * w)%N) by (apply N.mul_le_mono_r; lia).
           destruct (wr_inner_spec w spd Hw Hspd Hmul Hbnd (N.to_nat (n - ffwd)) st first (pack w samples) (ffwd * w) (n - ffwd) HI Hpok (le_n _))
             as (st' & Hrun & HI' & Hs' & Hc'); [lia|].
           exists st'. split; [exact Hrun|]. split; [exact Hdt|]. cbn [ss_first ss_samples ss_def]. fold w.
           split; [exact HI'|]. split.
           ++ rewrite Hs', Hstream, sbits_app. f_equal. rewrite Hslice by lia.
              replace (N.to_nat ffwd) with (Z.to_nat (next - sid)) by (subst ffwd; lia).
              rewrite firstn_all2; [reflexivity|]. rewrite skipn_length. subst n ffwd. lia.
           ++ rewrite Hc', Hcount, app_length, skipn_length. subst n ffwd. lia.
      * (* gap *)
        assert (Hgap : (next < sid)%Z) by lia.
        destruct (Z.geb_spec sid next); [|lia].
        assert (Hnd : (negb (dt =? JLS_DATATYPE_F32)%N && negb (dt =? JLS_DATATYPE_F64)%N && (w =? 0)%N) = false).
        { destruct (N.eqb_spec w 0); [lia|]. rewrite andb_false_r. reflexivity. }
        rewrite Hnd.
        set (skip := Z.to_N (sid - next)).
        destruct (gap_loop_spec w spd Hw Hspd Hmul Hbnd (fp_fill_buf dt) (fill_value dt) (fp_bufsz dt) Hfok ltac:(lia) Hflen Hfbits
                    (N.to_nat skip) st first skip (fp_bufsz dt) HI ltac:(lia) (le_n _)) as (st1 & Hrun1 & HI1 & Hs1 & Hc1).
        unfold fp_bufsz in Hrun1. fold w in Hrun1. rewrite Hrun1.
        destruct (wr_inner_spec w spd Hw Hspd Hmul Hbnd (N.to_nat n) st1 first (pack w samples) 0 n HI1 Hpok (le_n _))
          as (st' & Hrun & HI' & Hs' & Hc'); [lia|].
        exists st'. split; [exact Hrun|]. split; [exact Hdt|]. cbn [ss_first ss_samples ss_def]. fold w.
        split; [exact HI'|]. rewrite Hdt. split.
        -- rewrite Hs', Hs1, Hstream, !sbits_app, <- app_assoc. f_equal. f_equal.
           ++ f_equal. f_equal. subst skip. lia.
           ++ specialize (Hslice 0%N n ltac:(lia)). cbn [N.mul] in Hslice. rewrite Hslice.
              cbn [N.to_nat skipn]. rewrite firstn_all2 by (subst n; lia). reflexivity.
        -- rewrite Hc', Hc1, Hcount, !app_length, repeat_length. subst n skip. lia.
  - (* first call: allocate *)
    destruct HR as (Hopen & Hblk & Hsam & Hbuf & Hbok).
    rewrite Hopen.
    set (st1 := {| fp_open := true; fp_first := sid; fp_ts := sid; fp_ec := 0; fp_buf := fp_buf st; fp_blocks := fp_blocks st |}).
    assert (HI1 : fp_Inv w spd sid st1).
    { constructor; cbn [st1 fp_open fp_first fp_ts fp_ec fp_buf fp_blocks]; try assumption; try reflexivity.
      - rewrite Hblk. cbn [length]. lia.
      - rewrite Hblk. intros k ts cnt p Hk. destruct k; discriminate. }
    assert (Hnx : fp_next st1 = sid) by (unfold fp_next; cbn [st1 fp_ts fp_ec]; lia).
    rewrite Hnx, Z.eqb_refl.
    destruct (wr_inner_spec w spd Hw Hspd Hmul Hbnd (N.to_nat n) st1 sid (pack w samples) 0 n HI1 Hpok (le_n _))
      as (st' & Hrun & HI' & Hs' & Hc'); [lia|].
    exists st'. split; [exact Hrun|]. split; [exact Hdt|]. cbn [ss_first ss_samples ss_def]. fold w.
    split; [exact HI'|]. split.
    + rewrite Hs'. unfold stream_bits at 1. cbn [st1 fp_blocks fp_ec fp_buf]. rewrite Hblk.
      cbn [flat_map]. change (N.to_nat (0 * w)) with 0%nat. cbn [firstn app].
      specialize (Hslice 0%N n ltac:(lia)). cbn [N.mul] in Hslice. rewrite Hslice.
      cbn [N.to_nat skipn]. rewrite firstn_all2 by (subst n; lia). reflexivity.
    + rewrite Hc'. unfold fp_count. cbn [st1 fp_blocks fp_ec]. rewrite Hblk. cbn [length]. subst n. lia.
Qed.
(* ------------------------------------------------------------------ *)
(* the gap-fill buffer of each data type                               *)
(* ------------------------------------------------------------------ *)
Lemma concat_repeat_false : forall a b, concat (repeat (repeat false a) b) = repeat false (b * a).
Proof. induction b; [reflexivity|]. cbn [repeat concat]. rewrite IHb, <- repeat_app. reflexivity. Qed.

Lemma firstn_repeat_le {A} : forall (x : A) k m, (k <= m)%nat -> firstn k (repeat x m) = repeat x k.
Proof.
  induction k as [|k IH]; intros m H; [reflexivity|].
  destruct m as [|m]; [lia|]. cbn [repeat firstn]. rewrite IH by lia. reflexivity.
Qed.

Lemma bc_bits_repeat0 : forall m, bc_bits (repeat 0%N m) = repeat false (8 * m).
Proof.
  induction m as [|m IH]; [reflexivity|]. cbn [repeat]. rewrite bc_bits_cons, IH.
  change (bits_of 8 0) with (repeat false 8). rewrite <- repeat_app. f_equal. lia.
Qed.

Lemma bc_bits_concat_repeat : forall pat k, bc_bits (concat (repeat pat k)) = concat (repeat (bc_bits pat) k).
Proof. induction k; [reflexivity|]. cbn [repeat concat]. rewrite bc_bits_app, IHk. reflexivity. Qed.

Lemma firstn_concat_repeat {A} : forall (X : list A) n k, (n <= k)%nat ->
  firstn (n * length X) (concat (repeat X k)) = concat (repeat X n).
Proof.
  induction n as [|n IH]; intros k H; [reflexivity|].
  destruct k as [|k]; [lia|]. cbn [repeat concat].
  replace (S n * length X)%nat with (length X + n * length X)%nat by lia.
  rewrite firstn_app_len, IH by lia. reflexivity.
Qed.

Lemma bytes_ok_repeat : forall v m, (v < 256)%N -> bc_bytes_ok (repeat v m).
Proof. intros v m Hv. apply Forall_forall. intros x Hx. apply repeat_spec in Hx. subst. exact Hv. Qed.

Lemma bytes_ok_concat_repeat : forall pat k, bc_bytes_ok pat -> bc_bytes_ok (concat (repeat pat k)).
Proof.
  intros pat k Hp. induction k; [constructor|]. cbn [repeat concat]. apply Forall_app. split; assumption.
Qed.

Lemma concat_repeat_length {A} : forall (X : list A) k, length (concat (repeat X k)) = (k * length X)%nat.
Proof. induction k; [reflexivity|]. cbn [repeat concat]. rewrite app_length, IHk. lia. Qed.

Lemma dt_fill_ok_int : forall dt,
  (dt =? JLS_DATATYPE_F32)%N = false -> (dt =? JLS_DATATYPE_F64)%N = false -> fill_value dt = 0%N ->
  (0 < dt_bits dt <= 262144)%N -> dt_fill_ok dt.
Proof.
  intros dt H32 H64 Hfv Hw. unfold dt_fill_ok, fp_bufsz, fp_fill_buf. rewrite H32, H64, Hfv.
  set (w := dt_bits dt) in *. unfold FP_FILL_BYTES. change (32768 * 8)%N with 262144%N.
  assert (Hq : (w * (262144 / w) <= 262144)%N) by (apply N.mul_div_le; lia).
  assert (Hq1 : (0 < 262144 / w)%N) by (apply N.div_str_pos; lia).
  assert (Hq2 : (262144 / w <= 262144)%N).
  { assert (1 * (262144 / w) <= w * (262144 / w))%N by (apply N.mul_le_mono_r; lia). lia. }
  split; [lia|]. split; [lia|]. split; [apply bytes_ok_repeat; lia|].
  rewrite repeat_length. split; [lia|].
  intros n Hn. rewrite bc_bits_repeat0, sbits_repeat, bits_of_0, concat_repeat_false.
  assert (Hnw : (n * w <= w * (262144 / w))%N) by (rewrite (N.mul_comm w); apply N.mul_le_mono_r; exact Hn).
  rewrite firstn_repeat_le by lia. f_equal. lia.
Qed.

Lemma dt_fill_ok_float : forall dt pat (k W : N),
  dt_bits dt = W -> (0 < W)%N -> N.of_nat (length pat) = (W / 8)%N -> (W mod 8 = 0)%N ->
  (1 <= k < 4294967296)%N -> bc_bytes_ok pat ->
  fp_bufsz dt = k -> fp_fill_buf dt = concat (repeat pat (N.to_nat k)) ->
  bc_bits pat = bits_of (N.to_nat W) (fill_value dt) ->
  dt_fill_ok dt.
Proof.
  intros dt pat k W HW HW0 Hpl Hpm Hk Hpok Hbz Hfb Hbits. unfold dt_fill_ok. rewrite HW, Hbz, Hfb.
  split; [exact HW0|]. split; [exact Hk|]. split; [apply bytes_ok_concat_repeat; exact Hpok|].
  rewrite concat_repeat_length. split; [rewrite Nat2N.inj_mul, N2Nat.id; assert (HW8 : (W = 8 * N.of_nat (length pat))%N) by lia; rewrite HW8; lia|].
  intros n Hn. rewrite bc_bits_concat_repeat, sbits_repeat, Hbits.
  replace (N.to_nat (n * W)) with (N.to_nat n * length (bits_of (N.to_nat W) (fill_value dt)))%nat
    by (rewrite bits_of_length; lia).
  apply firstn_concat_repeat. lia.
Qed.

Definition fp_dt_list : list N :=
  [JLS_DATATYPE_I4; JLS_DATATYPE_I8; JLS_DATATYPE_I16; JLS_DATATYPE_I24; JLS_DATATYPE_I32; JLS_DATATYPE_I64;
   JLS_DATATYPE_U1; JLS_DATATYPE_U4; JLS_DATATYPE_U8; JLS_DATATYPE_U16; JLS_DATATYPE_U24; JLS_DATATYPE_U32;
   JLS_DATATYPE_U64; JLS_DATATYPE_F32; JLS_DATATYPE_F64].

Lemma dt_fill_ok_all : forall dt, In dt fp_dt_list -> dt_fill_ok dt.
Proof.
  intros dt H. unfold fp_dt_list in H. cbn [In] in H.
  repeat (destruct H as [<-|H];
          [first [ apply dt_fill_ok_int; [reflexivity | reflexivity | reflexivity | vm_compute; split; [reflexivity | discriminate]]
                 | idtac ] |]); try contradiction.
  - apply (dt_fill_ok_float JLS_DATATYPE_F32 [0; 0; 192; 127]%N 8192 32); try reflexivity; try (vm_compute; split; [discriminate|reflexivity]).
    repeat constructor.
  - apply (dt_fill_ok_float JLS_DATATYPE_F64 [0; 0; 0; 0; 0; 0; 248; 127]%N 4096 64); try reflexivity; try (vm_compute; split; [discriminate|reflexivity]).
    repeat constructor.
Qed.
(* ------------------------------------------------------------------ *)
(* any list of calls                                                   *)
(* ------------------------------------------------------------------ *)
Lemma run_spec : forall dt spd calls st s,
  dt_fill_ok dt -> spd_ok (dt_bits dt) spd -> fp_Rel dt spd st s ->
  Forall (fun c => (N.of_nat (length (snd c)) < 4294967296)%N) calls ->
  exists st', fp_run dt spd st calls = FP_ok st' /\
              fp_Rel dt spd st' (fold_left (fun s c => fsr_write s (fst c) (snd c)) calls s).
Proof.
  intros dt spd calls. induction calls as [|[sid samples] r IH]; intros st s Hdt Hspd HR Hall.
  - exists st. split; [reflexivity|exact HR].
  - inversion Hall as [|c l Hc Hr]; subst. cbn [snd] in Hc.
    destruct (wr_call_spec dt spd st s sid samples Hdt Hspd HR Hc) as (st1 & Hrun1 & HR1).
    cbn [fp_run fold_left fst snd]. rewrite Hrun1. apply IH; assumption.
Qed.

Lemma fp_Rel_init : forall dt spd buf0 d, sg_dtype d = dt ->
  (8 * N.of_nat (length buf0) = spd * dt_bits dt)%N -> bc_bytes_ok buf0 ->
  fp_Rel dt spd (fp_init buf0) (new_sig d).
Proof. intros. split; [assumption|]. cbn. auto. Qed.

Lemma blocks_stream_lemma : forall dt spd buf0 d calls,
  In dt fp_dt_list -> sg_dtype d = dt ->
  (0 < spd)%N -> ((spd * dt_bits dt) mod 8 = 0)%N -> (spd * dt_bits dt + 7 < 4294967296)%N ->
  (8 * N.of_nat (length buf0) = spd * dt_bits dt)%N -> Forall (fun b => (b < 256)%N) buf0 ->
  Forall (fun c => (N.of_nat (length (snd c)) < 4294967296)%N) calls ->
  let w := dt_bits dt in
  let s := fold_left (fun s c => fsr_write s (fst c) (snd c)) calls (new_sig d) in
  exists st, fp_write_all dt spd buf0 calls = FP_ok st /\
    flat_map (fun b => let '(_, cnt, p) := b in firstn (N.to_nat (cnt * w)) (bc_bits p)) (fp_blocks st)
      = flat_map (bits_of (N.to_nat w)) (ss_samples s) /\
    fp_total (fp_blocks st) = N.of_nat (length (ss_samples s)) /\
    (ss_first s = None -> fp_blocks st = [] /\ ss_samples s = []) /\
    (forall first, ss_first s = Some first -> fp_first st = first) /\
    (forall k ts cnt p, nth_error (fp_blocks st) k = Some (ts, cnt, p) ->
       ss_first s = Some (ts - Z.of_nat k * Z.of_N spd)%Z /\ (0 < cnt <= spd)%N /\
       ((S k < length (fp_blocks st))%nat -> cnt = spd) /\
       N.of_nat (length p) = ((cnt * w + 7) / 8)%N /\ Forall (fun b => (b < 256)%N) p /\
       Forall (fun b => b = false) (skipn (N.to_nat (cnt * w)) (bc_bits p))).
Proof.
  intros dt spd buf0 d calls Hin Hd Hspd Hmul Hbnd Hbuf Hok Hcalls w s.
  pose proof (dt_fill_ok_all dt Hin) as Hfo.
  destruct (run_spec dt spd calls (fp_init buf0) (new_sig d) Hfo (conj Hspd (conj Hmul Hbnd))
              (fp_Rel_init dt spd buf0 d Hd Hbuf Hok) Hcalls) as (st1 & Hrun & (Hdt & HR)).
  fold s in HR. unfold fp_write_all. rewrite Hrun. unfold fp_close. fold w in HR |- *.
  destruct (ss_first s) as [first|] eqn:Efirst.
  - destruct HR as (HI & Hstream & Hcount).
    rewrite (inv_open _ _ _ _ HI).
    destruct Hfo as (Hw & _).
    destruct (close_spec w spd Hw Hspd Hmul Hbnd st1 first HI) as (st' & Hcl & Hbits & Hwf & Htot & Hfst).
    exists st'. split; [exact Hcl|]. split; [change (flat_map (blk_bits w) (fp_blocks st') = sbits w (ss_samples s)); rewrite <- Hstream; exact Hbits|].
    split; [rewrite Htot; exact Hcount|]. split; [discriminate|].
    split; [intros f Hf; inversion Hf; subst f; exact Hfst|].
    intros k ts cnt p Hk. destruct (Hwf k ts cnt p Hk) as (H1 & H2 & H3 & H4 & H5 & H6).
    split; [f_equal; lia|]. auto.
  - destruct HR as (Hopen & Hblk & Hsam & _).
    rewrite Hopen. exists st1. split; [reflexivity|]. rewrite Hblk, Hsam.
    split; [reflexivity|]. split; [reflexivity|]. split; [auto|]. split; [discriminate|].
    intros k ts cnt p Hk. destruct k; discriminate.
Qed.
(* ------------------------------------------------------------------ *)
(* the reader                                                          *)
(* ------------------------------------------------------------------ *)
Lemma skipn_firstn_sub {A} : forall (l : list A) m n, skipn m (firstn n l) = firstn (n - m) (skipn m l).
Proof.
  induction l as [|x l IH]; intros m n.
  - rewrite firstn_nil, !skipn_nil, firstn_nil. reflexivity.
  - destruct n as [|n]; destruct m as [|m]; cbn [firstn skipn Nat.sub]; try reflexivity.
    apply IH.
Qed.

Lemma firstn_firstn_le {A} : forall (l : list A) i j, (i <= j)%nat -> firstn i (firstn j l) = firstn i l.
Proof. intros. rewrite firstn_firstn. f_equal. lia. Qed.

Section Reader.
Variables (w spd : N).
Hypothesis Hw : (0 < w)%N.
Hypothesis Hspd : (0 < spd)%N.

Fixpoint wf_rec (first : Z) (blocks : list (Z * N * list N)) (stream : list N) : Prop :=
  match blocks with
  | [] => stream = []
  | (ts, cnt, p) :: r =>
    ts = first /\ (0 < cnt <= spd)%N /\ (r <> [] -> cnt = spd) /\
    (cnt * w <= 8 * N.of_nat (length p))%N /\ bc_bytes_ok p /\
    (N.to_nat cnt <= length stream)%nat /\
    firstn (N.to_nat (cnt * w)) (bc_bits p) = sbits w (firstn (N.to_nat cnt) stream) /\
    wf_rec (first + Z.of_N spd)%Z r (skipn (N.to_nat cnt) stream)
  end.

Definition blocks_shape (first : Z) (blocks : list (Z * N * list N)) : Prop :=
  forall k ts cnt p, nth_error blocks k = Some (ts, cnt, p) ->
    ts = (first + Z.of_nat k * Z.of_N spd)%Z /\ (0 < cnt <= spd)%N /\
    ((S k < length blocks)%nat -> cnt = spd) /\
    N.of_nat (length p) = ((cnt * w + 7) / 8)%N /\ bc_bytes_ok p.

Lemma wf_rec_of_shape : forall blocks first stream,
  blocks_shape first blocks -> flat_map (blk_bits w) blocks = sbits w stream ->
  wf_rec first blocks stream.
Proof.
  induction blocks as [|[[ts cnt] p] r IH]; intros first stream Hsh Hbits.
  - cbn in *. apply (f_equal (@length bool)) in Hbits. rewrite sbits_length in Hbits. cbn in Hbits.
    destruct stream; [reflexivity|]. cbn [length] in Hbits. lia.
  - destruct (Hsh 0%nat ts cnt p eq_refl) as (Hts & Hcnt & Hfull & Hlp & Hokp).
    assert (Hcw : (cnt * w <= 8 * N.of_nat (length p))%N) by lia.
    cbn [flat_map blk_bits] in Hbits.
    assert (Hbl : length (firstn (N.to_nat (cnt * w)) (bc_bits p)) = N.to_nat (cnt * w)).
    { rewrite firstn_length, bc_bits_length. lia. }
    assert (Hlen : (N.to_nat cnt <= length stream)%nat).
    { pose proof (f_equal (@length bool) Hbits) as HL. rewrite app_length, Hbl, sbits_length in HL.
      assert (N.to_nat cnt * N.to_nat w <= length stream * N.to_nat w)%nat by lia.
      apply Nat.mul_le_mono_pos_r in H; lia. }
    pose proof (f_equal (firstn (N.to_nat (cnt * w))) Hbits) as H1.
    pose proof (f_equal (skipn (N.to_nat (cnt * w))) Hbits) as H2.
    rewrite <- Hbl in H1 at 1. rewrite firstn_app_len with (n := 0%nat) in H1 || (replace (length (firstn (N.to_nat (cnt * w)) (bc_bits p))) with (length (firstn (N.to_nat (cnt * w)) (bc_bits p)) + 0)%nat in H1 at 1 by lia; rewrite firstn_app_len in H1).
    cbn [firstn] in H1. rewrite app_nil_r in H1.
    rewrite <- Hbl in H2 at 1.
    replace (length (firstn (N.to_nat (cnt * w)) (bc_bits p))) with (length (firstn (N.to_nat (cnt * w)) (bc_bits p)) + 0)%nat in H2 at 1 by lia.
    rewrite skipn_app_len in H2. cbn [skipn] in H2.
    rewrite N2Nat.inj_mul, <- sbits_firstn in H1. rewrite N2Nat.inj_mul, <- sbits_skipn in H2.
    cbn [wf_rec]. split; [lia|]. split; [exact Hcnt|]. split.
    { intros Hr. apply Hfull. destruct r; [contradiction|]. cbn [length]. lia. }
    split; [exact Hcw|]. split; [exact Hokp|]. split; [exact Hlen|]. split; [rewrite N2Nat.inj_mul; exact H1|].
    apply IH; [|exact H2].
    intros k ts' c' p' Hk. destruct (Hsh (S k) ts' c' p' Hk) as (A1 & A2 & A3 & A4 & A5).
    split; [lia|]. split; [exact A2|]. split; [|split; assumption].
    intros Hlt. apply A3. cbn [length]. lia.
Qed.

Lemma find_block_spec : forall blocks first stream s,
  wf_rec first blocks stream -> (s < length stream)%nat ->
  exists ts cnt p o,
    fp_find_block blocks (first + Z.of_nat s)%Z = Some (ts, cnt, p) /\
    (first + Z.of_nat s = ts + Z.of_nat o)%Z /\ (o < N.to_nat cnt)%nat /\ (o <= s)%nat /\
    (cnt * w <= 8 * N.of_nat (length p))%N /\ bc_bytes_ok p /\
    (s - o + N.to_nat cnt <= length stream)%nat /\
    firstn (N.to_nat (cnt * w)) (bc_bits p) = sbits w (firstn (N.to_nat cnt) (skipn (s - o) stream)).
Proof.
  induction blocks as [|[[ts cnt] p] r IH]; intros first stream s Hwf Hs.
  - cbn in Hwf. subst stream. cbn in Hs. lia.
  - destruct Hwf as (Hts & Hcnt & Hfull & Hcw & Hokp & Hlen & Hbits & Hrest).
    unfold fp_find_block. cbn [find].
    destruct (lt_dec s (N.to_nat cnt)) as [Hin|Hout].
    + destruct (Z.leb_spec ts (first + Z.of_nat s)); [|lia].
      destruct (Z.ltb_spec (first + Z.of_nat s) (ts + Z.of_N cnt)); [|lia]. cbn [andb].
      exists ts, cnt, p, s. split; [reflexivity|]. split; [lia|]. split; [exact Hin|]. split; [lia|].
      split; [exact Hcw|]. split; [exact Hokp|]. replace (s - s)%nat with 0%nat by lia. cbn [skipn].
      split; [lia|exact Hbits].
    + assert (Hrne : r <> []).
      { intros ->. cbn in Hrest. apply (f_equal (@length N)) in Hrest. rewrite skipn_length in Hrest. cbn in Hrest. lia. }
      specialize (Hfull Hrne). subst cnt.
      destruct (Z.ltb_spec (first + Z.of_nat s) (ts + Z.of_N spd)); [lia|].
      rewrite andb_false_r.
      destruct (IH (first + Z.of_N spd)%Z (skipn (N.to_nat spd) stream) (s - N.to_nat spd)%nat Hrest)
        as (ts' & c' & p' & o & Hfind & Heq & Ho & Hos & Hcw' & Hok' & Hl' & Hb').
      { rewrite skipn_length. lia. }
      exists ts', c', p', o.
      replace (first + Z.of_N spd + Z.of_nat (s - N.to_nat spd))%Z with (first + Z.of_nat s)%Z in * by lia.
      split; [exact Hfind|]. split; [exact Heq|]. split; [exact Ho|]. split; [lia|].
      split; [exact Hcw'|]. split; [exact Hok'|].
      rewrite skipn_length in Hl'. split; [lia|].
      rewrite Hb', skipn_add. do 3 f_equal. lia.
Qed.

Lemma rd_loop_spec : forall blocks first stream, wf_rec first blocks stream ->
  forall fuel s len dst dst_bit,
  (s + len <= length stream)%nat -> (len <= fuel)%nat ->
  (dst_bit + N.of_nat len * w <= 8 * N.of_nat (length dst))%N ->
  exists out, fp_rd_loop fuel w blocks (first + Z.of_nat s)%Z (Z.of_nat len) dst dst_bit = RD_ok out /\
    length out = length dst /\ (bc_bytes_ok dst -> bc_bytes_ok out) /\
    bc_bits out = firstn (N.to_nat dst_bit) (bc_bits dst) ++ sbits w (firstn len (skipn s stream))
                  ++ skipn (N.to_nat (dst_bit + N.of_nat len * w)) (bc_bits dst).
Proof.
  intros blocks first stream Hwf. induction fuel as [|fuel IH]; intros s len dst dst_bit Hs Hfuel Hd.
  - assert (len = 0)%nat by lia. subst len. exists dst. cbn [fp_rd_loop Z.of_nat Z.leb Z.compare].
    split; [reflexivity|]. split; [reflexivity|]. split; [auto|].
    cbn [firstn sbits flat_map app]. replace (dst_bit + N.of_nat 0 * w)%N with dst_bit by lia.
    rewrite firstn_skipn. reflexivity.
  - cbn [fp_rd_loop]. destruct (Z.leb_spec (Z.of_nat len) 0) as [Hl0|Hl0].
    + assert (len = 0)%nat by lia. subst len. exists dst.
      split; [reflexivity|]. split; [reflexivity|]. split; [auto|].
      cbn [firstn sbits flat_map app]. replace (dst_bit + N.of_nat 0 * w)%N with dst_bit by lia.
      rewrite firstn_skipn. reflexivity.
    + destruct (find_block_spec blocks first stream s Hwf ltac:(lia))
        as (ts & cnt & p & o & Hfind & Heq & Ho & Hos & Hcw & Hokp & Hl & Hb).
      rewrite Hfind.
      set (sid := (first + Z.of_nat s)%Z) in *.
      set (idx := if (sid >? ts)%Z then (sid - ts)%Z else 0%Z).
      assert (Hidx : idx = Z.of_nat o).
      { subst idx. destruct (Z.gtb_spec sid ts); lia. }
      set (sz0 := if (sid >? ts)%Z then (Z.of_N cnt - idx)%Z else Z.of_N cnt).
      assert (Hsz0 : sz0 = (Z.of_N cnt - Z.of_nat o)%Z).
      { subst sz0. rewrite Hidx. destruct (Z.gtb_spec sid ts); lia. }
      set (sz := if (sz0 >? Z.of_nat len)%Z then Z.of_nat len else sz0).
      set (szn := Nat.min (N.to_nat cnt - o) len).
      assert (Hsz : sz = Z.of_nat szn).
      { subst sz szn. rewrite Hsz0. destruct (Z.gtb_spec (Z.of_N cnt - Z.of_nat o) (Z.of_nat len)); lia. }
      assert (Hszn : (1 <= szn /\ szn <= len /\ o + szn <= N.to_nat cnt)%nat) by (subst szn; lia).
      destruct Hszn as (Hz1 & Hz2 & Hz3).
      destruct (Z.leb_spec sz 0); [lia|].
      set (a := N.of_nat o). set (z := N.of_nat szn).
      replace (Z.to_N idx) with a by (subst a; lia). replace (Z.to_N sz) with z by (subst z; lia).
      assert (Hm1 : (z * w <= N.of_nat len * w)%N) by (apply N.mul_le_mono_r; subst z; lia).
      assert (Hm2 : ((a + z) * w <= cnt * w)%N) by (apply N.mul_le_mono_r; subst a z; lia).
      rewrite N.mul_add_distr_r in Hm2.
      destruct (bit_copy_spec dst dst_bit p (a * w) (z * w)) as (dst1 & Hcp & Hbits1 & Hlen1 & Hok1 & _); [lia | lia |].
      rewrite Hcp.
      assert (HX : firstn (N.to_nat (z * w)) (skipn (N.to_nat (a * w)) (bc_bits p))
                   = sbits w (firstn szn (skipn s stream))).
      { rewrite <- (firstn_skipn (N.to_nat (cnt * w)) (bc_bits p)). rewrite Hb.
        rewrite !N2Nat.inj_mul. unfold a, z. rewrite !Nat2N.id.
        rewrite slice_sbits by (rewrite firstn_length, skipn_length; lia).
        f_equal. rewrite skipn_firstn_sub, firstn_firstn_le by lia. rewrite skipn_add.
        do 2 f_equal. lia. }
      rewrite HX in Hbits1.
      destruct (IH (s + szn)%nat (len - szn)%nat dst1 (dst_bit + z * w)%N) as (out & Hrun & Hlo & Hoko & Hbo);
        [lia | lia | |].
      { rewrite Hlen1. assert (Hm3 : (N.of_nat (len - szn) * w = N.of_nat len * w - z * w)%N).
        { replace (N.of_nat (len - szn)) with (N.of_nat len - z)%N by (subst z; lia). apply N.mul_sub_distr_r. }
        lia. }
      replace (sid + sz)%Z with (first + Z.of_nat (s + szn))%Z by (subst sid; lia).
      replace (Z.of_nat len - sz)%Z with (Z.of_nat (len - szn)) by lia.
      exists out. split; [exact Hrun|]. split; [lia|]. split; [intros Hbd; apply Hoko, Hok1; assumption|].
      rewrite Hbo, Hbits1.
      set (A := firstn (N.to_nat dst_bit) (bc_bits dst)).
      set (X := sbits w (firstn szn (skipn s stream))).
      assert (HA : length A = N.to_nat dst_bit) by (subst A; rewrite firstn_length, bc_bits_length; lia).
      assert (HXl : length X = N.to_nat (z * w)).
      { subst X. rewrite sbits_length, firstn_length, skipn_length, N2Nat.inj_mul. subst z. rewrite Nat2N.id. rewrite Nat.min_l by lia. reflexivity. }
      assert (Hm3 : (N.of_nat (len - szn) * w = N.of_nat len * w - z * w)%N).
      { replace (N.of_nat (len - szn)) with (N.of_nat len - z)%N by (subst z; lia). apply N.mul_sub_distr_r. }
      replace (N.to_nat (dst_bit + z * w)) with (length A + length X)%nat by lia.
      rewrite firstn_splice_prefix.
      replace (N.to_nat (dst_bit + z * w + N.of_nat (len - szn) * w))
        with (length A + (length X + N.to_nat (N.of_nat (len - szn) * w)))%nat by lia.
      rewrite skipn_app_len, skipn_app_len, skipn_add.
      rewrite <- !app_assoc. f_equal. rewrite app_assoc. f_equal.
      * subst X. rewrite <- sbits_app. f_equal.
        rewrite firstn_skipn_add. f_equal. lia.
      * f_equal. lia.
Qed.
End Reader.
Lemma skipn_repeat {A} : forall (x : A) k m, skipn k (repeat x m) = repeat x (m - k).
Proof.
  induction k as [|k IH]; intros m; [rewrite Nat.sub_0_r; reflexivity|].
  destruct m as [|m]; [reflexivity|]. cbn [repeat skipn Nat.sub]. apply IH.
Qed.

Lemma firstn_app_exact {A} : forall (a b : list A), firstn (length a) (a ++ b) = a.
Proof. intros. replace (length a) with (length a + 0)%nat by lia. rewrite firstn_app_len. cbn. apply app_nil_r. Qed.
Lemma skipn_app_exact {A} : forall (a b : list A), skipn (length a) (a ++ b) = b.
Proof. intros. replace (length a) with (length a + 0)%nat by lia. rewrite skipn_app_len. reflexivity. Qed.

Lemma wf_rec_total : forall w spd blocks first stream, wf_rec w spd first blocks stream ->
  fp_total blocks = N.of_nat (length stream).
Proof.
  intros w spd. induction blocks as [|[[ts cnt] p] r IH]; intros first stream Hwf.
  - cbn in Hwf. subst. reflexivity.
  - destruct Hwf as (_ & _ & _ & _ & _ & Hlen & _ & Hrest).
    unfold fp_total in *. cbn [fold_right]. rewrite (IH _ _ Hrest), skipn_length. lia.
Qed.

(* reading any in-range window of well-formed blocks *)
Lemma rd_blocks_spec_lemma : forall w spd first blocks stream start len dst,
  (0 < w)%N -> (0 < spd)%N ->
  (forall k ts cnt p, nth_error blocks k = Some (ts, cnt, p) ->
     ts = (first + Z.of_nat k * Z.of_N spd)%Z /\ (0 < cnt <= spd)%N /\
     ((S k < length blocks)%nat -> cnt = spd) /\
     N.of_nat (length p) = ((cnt * w + 7) / 8)%N /\ Forall (fun b => (b < 256)%N) p) ->
  flat_map (fun b => let '(_, cnt, p) := b in firstn (N.to_nat (cnt * w)) (bc_bits p)) blocks
    = flat_map (bits_of (N.to_nat w)) stream ->
  (0 <= start)%Z -> (0 < len)%Z -> (start + len <= Z.of_nat (length stream))%Z ->
  (Z.to_N len * w <= 8 * N.of_nat (length dst))%N ->
  exists out, fp_rd_blocks w first blocks start len dst = RD_ok out /\ length out = length dst /\
    firstn (N.to_nat (Z.to_N len * w)) (bc_bits out)
      = flat_map (bits_of (N.to_nat w)) (firstn (Z.to_nat len) (skipn (Z.to_nat start) stream)) /\
    skipn (N.to_nat (Z.to_N len * w)) (bc_bits out) = skipn (N.to_nat (Z.to_N len * w)) (bc_bits dst) /\
    (dst = repeat 0%N (N.to_nat ((Z.to_N len * w + 7) / 8)) ->
     out = pack w (firstn (Z.to_nat len) (skipn (Z.to_nat start) stream))).
Proof.
  intros w spd first blocks stream start len dst Hw Hspd Hshape Hbits Hst Hlen Hrange Hdst.
  assert (Hwf : wf_rec w spd first blocks stream) by (apply wf_rec_of_shape; assumption).
  unfold fp_rd_blocks.
  destruct (Z.leb_spec len 0); [lia|]. destruct (Z.ltb_spec start 0); [lia|].
  rewrite (wf_rec_total _ _ _ _ _ Hwf).
  destruct (Z.gtb_spec (start + len) (Z.of_N (N.of_nat (length stream)))); [lia|].
  destruct (rd_loop_spec w spd Hw Hspd blocks first stream Hwf (Z.to_nat len) (Z.to_nat start) (Z.to_nat len) dst 0)
    as (out & Hrun & Hlo & Hoko & Hbo); [lia | lia | lia |].
  replace (first + Z.of_nat (Z.to_nat start))%Z with (start + first)%Z in Hrun by lia.
  rewrite Z2Nat.id in Hrun by lia.
  exists out. split; [exact Hrun|]. split; [exact Hlo|].
  set (slice := firstn (Z.to_nat len) (skipn (Z.to_nat start) stream)) in *.
  fold (sbits w slice) in *.
  cbn [N.to_nat firstn app] in Hbo. replace (0 + N.of_nat (Z.to_nat len) * w)%N with (Z.to_N len * w)%N in Hbo by lia.
  assert (Hsl : length (sbits w slice) = N.to_nat (Z.to_N len * w)).
  { rewrite sbits_length. unfold slice. rewrite firstn_length, skipn_length, Nat.min_l by lia. lia. }
  split; [|split].
  - rewrite Hbo, <- Hsl. apply firstn_app_exact.
  - rewrite Hbo, <- Hsl. apply skipn_app_exact.
  - intros Hz. destruct (pack_spec w slice) as (pad & Hpad & Hpb & Hpok).
    apply bc_bits_inj; [apply Hoko; rewrite Hz; apply bytes_ok_repeat; lia | exact Hpok |].
    rewrite Hbo, Hpb. f_equal. rewrite Hz, bc_bits_repeat0, skipn_repeat. f_equal.
    pose proof (f_equal (@length bool) Hpb) as HL.
    rewrite bc_bits_length, app_length, repeat_length, Hsl in HL.
    pose proof (pack_length w slice) as HPL.
    assert (Hsll : N.of_nat (length slice) = Z.to_N len).
    { unfold slice. rewrite firstn_length, skipn_length, Nat.min_l by lia. lia. }
    rewrite Hsll in HPL. lia.
Qed.
(* ------------------------------------------------------------------ *)
(* writer + reader against Spec.rd_window                              *)
(* ------------------------------------------------------------------ *)
Lemma fsr_write_def : forall s sid l, ss_def (fsr_write s sid l) = ss_def s.
Proof. intros s sid l. unfold fsr_write. destruct l; [reflexivity|]. destruct (ss_first s); reflexivity. Qed.

Lemma fold_fsr_write_def : forall calls s,
  ss_def (fold_left (fun s c => fsr_write s (fst c) (snd c)) calls s) = ss_def s.
Proof. induction calls as [|c r IH]; intros s; [reflexivity|]. cbn [fold_left]. rewrite IH. apply fsr_write_def. Qed.

Lemma pack_roundtrip_lemma : forall dt spd buf0 d calls,
  In dt fp_dt_list -> sg_dtype d = dt ->
  (0 < spd)%N -> ((spd * dt_bits dt) mod 8 = 0)%N -> (spd * dt_bits dt + 7 < 4294967296)%N ->
  (8 * N.of_nat (length buf0) = spd * dt_bits dt)%N -> Forall (fun b => (b < 256)%N) buf0 ->
  Forall (fun c => (N.of_nat (length (snd c)) < 4294967296)%N) calls ->
  let w := dt_bits dt in
  let s := fold_left (fun s c => fsr_write s (fst c) (snd c)) calls (new_sig d) in
  exists st, fp_write_all dt spd buf0 calls = FP_ok st /\
    fp_total (fp_blocks st) = rd_length s /\
    forall start count, (0 < count)%N ->
      match rd_window s start count with
      | Some win =>
        fp_rd_blocks w (rd_offset s) (fp_blocks st) (Z.of_N start) (Z.of_N count)
                     (repeat 0%N (N.to_nat ((count * w + 7) / 8))) = RD_ok win /\
        forall dst, (count * w <= 8 * N.of_nat (length dst))%N ->
          exists out, fp_rd_blocks w (rd_offset s) (fp_blocks st) (Z.of_N start) (Z.of_N count) dst = RD_ok out /\
            length out = length dst /\
            firstn (N.to_nat (count * w)) (bc_bits out) = firstn (N.to_nat (count * w)) (bc_bits win) /\
            skipn (N.to_nat (count * w)) (bc_bits out) = skipn (N.to_nat (count * w)) (bc_bits dst)
      | None => forall dst, fp_rd_blocks w (rd_offset s) (fp_blocks st) (Z.of_N start) (Z.of_N count) dst = RD_param_invalid
      end.
Proof.
  intros dt spd buf0 d calls Hin Hd Hspd Hmul Hbnd Hbuf Hok Hcalls w s.
  destruct (blocks_stream_lemma dt spd buf0 d calls Hin Hd Hspd Hmul Hbnd Hbuf Hok Hcalls)
    as (st & Hrun & Hbits & Htot & Hnone & Hfirst & Hshape).
  fold w s in Hbits, Htot, Hnone, Hfirst, Hshape.
  exists st. split; [exact Hrun|]. split; [exact Htot|].
  intros start count Hc. unfold rd_window, rd_length.
  assert (Hsdt : dt_bits (sg_dtype (ss_def s)) = w).
  { unfold s. rewrite fold_fsr_write_def. cbn [new_sig ss_def]. rewrite Hd. reflexivity. }
  rewrite Hsdt.
  destruct (N.leb_spec (start + count) (N.of_nat (length (ss_samples s)))) as [Hin_range|Hout].
  - destruct (ss_first s) as [first|] eqn:Efirst.
    2:{ destruct (Hnone eq_refl) as (_ & Hsam). rewrite Hsam in Hin_range. cbn in Hin_range. lia. }
    assert (Hoff : rd_offset s = first) by (unfold rd_offset; rewrite Efirst; reflexivity).
    rewrite Hoff.
    assert (Hw : (0 < w)%N) by (destruct (dt_fill_ok_all dt Hin) as (H & _); exact H).
    assert (Hsh : forall k ts cnt p, nth_error (fp_blocks st) k = Some (ts, cnt, p) ->
       ts = (first + Z.of_nat k * Z.of_N spd)%Z /\ (0 < cnt <= spd)%N /\
       ((S k < length (fp_blocks st))%nat -> cnt = spd) /\
       N.of_nat (length p) = ((cnt * w + 7) / 8)%N /\ Forall (fun b => (b < 256)%N) p).
    { intros k ts cnt p Hk. destruct (Hshape k ts cnt p Hk) as (H1 & H2 & H3 & H4 & H5 & _).
      inversion H1. split; [lia|]. auto. }
    set (slice := firstn (N.to_nat count) (skipn (N.to_nat start) (ss_samples s))).
    assert (Hrd : forall dst, (count * w <= 8 * N.of_nat (length dst))%N ->
      exists out, fp_rd_blocks w first (fp_blocks st) (Z.of_N start) (Z.of_N count) dst = RD_ok out /\ length out = length dst /\
        firstn (N.to_nat (count * w)) (bc_bits out) = sbits w slice /\
        skipn (N.to_nat (count * w)) (bc_bits out) = skipn (N.to_nat (count * w)) (bc_bits dst) /\
        (dst = repeat 0%N (N.to_nat ((count * w + 7) / 8)) -> out = pack w slice)).
    { intros dst Hdst.
      destruct (rd_blocks_spec_lemma w spd first (fp_blocks st) (ss_samples s) (Z.of_N start) (Z.of_N count) dst
                  Hw Hspd Hsh Hbits ltac:(lia) ltac:(lia) ltac:(lia)) as (out & H1 & H2 & H3 & H4 & H5).
      { rewrite N2Z.id. exact Hdst. }
      rewrite !N2Z.id in H3, H4, H5.
      replace (Z.to_nat (Z.of_N count)) with (N.to_nat count) in H3, H5 by lia.
      replace (Z.to_nat (Z.of_N start)) with (N.to_nat start) in H3, H5 by lia.
      exists out. auto. }
    split.
    + destruct (Hrd (repeat 0%N (N.to_nat ((count * w + 7) / 8)))) as (out & H1 & _ & _ & _ & H5).
      { rewrite repeat_length. lia. }
      rewrite H1, (H5 eq_refl). reflexivity.
    + intros dst Hdst. destruct (Hrd dst Hdst) as (out & H1 & H2 & H3 & H4 & _).
      exists out. split; [exact H1|]. split; [exact H2|]. split; [|exact H4].
      rewrite H3. destruct (pack_spec w slice) as (pad & _ & Hpb & _). fold slice. rewrite Hpb.
      assert (Hsl : length (sbits w slice) = N.to_nat (count * w)).
      { rewrite sbits_length. unfold slice. rewrite firstn_length, skipn_length, Nat.min_l by lia. lia. }
      rewrite <- Hsl. symmetry. apply firstn_app_exact.
  - intros dst. unfold fp_rd_blocks. rewrite Htot.
    destruct (Z.leb_spec (Z.of_N count) 0); [lia|]. destruct (Z.ltb_spec (Z.of_N start) 0); [lia|].
    destruct (Z.gtb_spec (Z.of_N start + Z.of_N count) (Z.of_N (N.of_nat (length (ss_samples s))))); [reflexivity|lia].
Qed.
(* ------------------------------------------------------------------ *)
(* satisfiability of the hypotheses, on concrete non-trivial runs      *)
(* ------------------------------------------------------------------ *)
Definition ex_sigdef (dt : N) : sigdef :=
  {| sg_id := 1; sg_src := 1; sg_type := JLS_SIGNAL_TYPE_FSR; sg_dtype := dt; sg_rate := 1000;
     sg_spd := 64; sg_sdf := 64; sg_eps := 64; sg_sumdf := 64; sg_adf := 100; sg_udf := 100;
     sg_name := SNull; sg_units := SNull |}.

(* u4, block of 64 samples = 32 bytes with garbage initial content, first id 5, an overlap
   (second call repeats two samples), a gap of 66 samples crossing the block boundary *)
Example pack_roundtrip_example_u4 :
  let dt := JLS_DATATYPE_U4 in let spd := 64%N in let buf0 := repeat 165%N 32 in
  let calls := [(5%Z, [1; 2; 3]%N); (6%Z, [9; 9; 4; 5]%N); (76%Z, [6; 7; 8]%N)] in
  let s := fold_left (fun s c => fsr_write s (fst c) (snd c)) calls (new_sig (ex_sigdef dt)) in
  In dt fp_dt_list /\ (0 < spd)%N /\ ((spd * dt_bits dt) mod 8 = 0)%N /\ (spd * dt_bits dt + 7 < 4294967296)%N /\
  (8 * N.of_nat (length buf0) = spd * dt_bits dt)%N /\ Forall (fun b => (b < 256)%N) buf0 /\
  Forall (fun c => (N.of_nat (length (snd c)) < 4294967296)%N) calls /\
  ss_first s = Some 5%Z /\ rd_length s = 74%N /\
  exists st win, fp_write_all dt spd buf0 calls = FP_ok st /\
    map (fun b => (fst (fst b), snd (fst b))) (fp_blocks st) = [(5%Z, 64%N); (69%Z, 10%N)] /\
    rd_window s 3 71 = Some win /\ length win = 36%nat /\
    fp_rd_blocks 4 5 (fp_blocks st) 3 71 (repeat 0%N 36) = RD_ok win.
Proof.
  cbv zeta. split; [cbn; tauto|]. split; [reflexivity|]. split; [reflexivity|]. split; [reflexivity|].
  split; [reflexivity|]. split; [apply bytes_ok_repeat; reflexivity|].
  split; [repeat constructor|]. split; [reflexivity|]. split; [reflexivity|].
  eexists. eexists. split; [vm_compute; reflexivity|]. split; [vm_compute; reflexivity|].
  split; [vm_compute; reflexivity|]. split; vm_compute; reflexivity.
Qed.

(* f32 with a gap: the gap reads back as quiet NaN *)
Example pack_roundtrip_example_f32 :
  let dt := JLS_DATATYPE_F32 in let spd := 8%N in let buf0 := repeat 0%N 32 in
  let calls := [(0%Z, [1065353216]%N); (3%Z, [1073741824]%N)] in
  let s := fold_left (fun s c => fsr_write s (fst c) (snd c)) calls (new_sig (ex_sigdef dt)) in
  ss_samples s = [1065353216; 2143289344; 2143289344; 1073741824]%N /\
  exists st win, fp_write_all dt spd buf0 calls = FP_ok st /\ rd_window s 0 4 = Some win /\
    fp_rd_blocks 32 0 (fp_blocks st) 0 4 (repeat 0%N 16) = RD_ok win.
Proof.
  cbv zeta. split; [reflexivity|]. eexists. eexists.
  split; [vm_compute; reflexivity|]. split; vm_compute; reflexivity.
Qed.

(* ------------------------------------------------------------------ *)
(* a data type the writer accepts but fills wrongly                    *)
(* ------------------------------------------------------------------ *)
(* jls_core_signal_def_validate (and Spec.dt_valid) look at data_type & 0xffff and the q field only, so
   data_type = 0x01002004 (f32 with a bit set in the reserved top byte) is accepted; the gap branch of
   jls_wr_fsr_data compares data_type == JLS_DATATYPE_F32 exactly and falls to the integer branch: the
   gap is filled with 0.0 instead of NaN.  Hence the guard [In dt fp_dt_list] of blocks_stream. *)
Lemma blocks_stream_refuted_reserved_dt_bits :
  exists dt spd buf0 calls,
    dt_valid dt = true /\ dt_is_float dt = true /\
    (0 < spd)%N /\ ((spd * dt_bits dt) mod 8 = 0)%N /\ (spd * dt_bits dt + 7 < 4294967296)%N /\
    (8 * N.of_nat (length buf0) = spd * dt_bits dt)%N /\ Forall (fun b => (b < 256)%N) buf0 /\
    Forall (fun c => (N.of_nat (length (snd c)) < 4294967296)%N) calls /\
    let w := dt_bits dt in
    let s := fold_left (fun s c => fsr_write s (fst c) (snd c)) calls (new_sig (ex_sigdef dt)) in
    exists st, fp_write_all dt spd buf0 calls = FP_ok st /\
      flat_map (fun b => let '(_, cnt, p) := b in firstn (N.to_nat (cnt * w)) (bc_bits p)) (fp_blocks st)
        <> flat_map (bits_of (N.to_nat w)) (ss_samples s).
Proof.
  exists 16785412%N, 8%N, (repeat 0%N 32), [(0%Z, [1065353216]%N); (2%Z, [1073741824]%N)].
  split; [reflexivity|]. split; [reflexivity|]. split; [reflexivity|]. split; [reflexivity|]. split; [reflexivity|].
  split; [reflexivity|]. split; [apply bytes_ok_repeat; reflexivity|]. split; [repeat constructor|].
  cbv zeta. eexists. split; [vm_compute; reflexivity|].
  vm_compute. intro H. discriminate H.
Qed.
