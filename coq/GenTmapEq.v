(* Equivalence of the GENERATED binary search of interp_i64 (/repo/src/tmap.c; GenTmap.v is written
   by tools/c2gallina.py from the current source: the statements of interp_i64 from `size_t low = 0;`
   to the clamp `if (low >= entries_length - 1) low = entries_length - 2;`) and the hand-written
   TmapModel.search (search_loop + clamp).  The floating-point interpolation that follows in
   interp_i64 is outside the translator's subset and stays tied by differential testing only.

   x (int64_t const * ) is the list xs of the entries_length valid elements: a read at or beyond
   entries_length would be the fault OOB_read - the theorem shows there is none, for every list of
   at least 2 elements (the caller's guard) and every fuel of at least entries_length. *)
From Coq Require Import NArith ZArith List Bool Arith Lia.
From Coq Require Import ZifyBool ZifyN ZifyNat.
From JLS Require Import GenLib GenTmap TmapModel TmapProofs.
Import ListNotations.
Ltac Zify.zify_post_hook ::= Z.div_mod_to_equations.

Lemma search_loop_mono : forall f j ph xs x0 low high r,
  search_loop f j ph xs x0 low high = TmOk r ->
  forall f', (f <= f')%nat -> search_loop f' j ph xs x0 low high = TmOk r.
Proof.
  induction f as [|f IH]; intros j ph xs x0 low high r H f' Hf; [discriminate|].
  destruct f' as [|f']; [lia|]. cbn [search_loop] in *.
  destruct (low <? high)%nat; [|exact H].
  destruct (rd j ph xs ((low + high + 1) / 2)) as [xm|e]; [|discriminate].
  destruct (x0 =? xm)%Z; [exact H|].
  destruct (x0 <? xm)%Z; apply (IH _ _ _ _ _ _ _ H); lia.
Qed.

Lemma loadZ_in : forall xs i, (i < length xs)%nat -> loadZ xs (N.of_nat i) = Ok (nth i xs 0%Z).
Proof.
  intros xs i H. unfold loadZ, lenZ.
  assert ((N.of_nat i <? N.of_nat (length xs))%N = true) as -> by lia. now rewrite Nat2N.id.
Qed.

Lemma gen_search_loop_eq : forall f xs x0 low high r,
  (low <= high)%nat -> (high < length xs)%nat -> (N.of_nat (length xs) < 9223372036854775808)%N ->
  search_loop f 0%Z 0%nat xs x0 low high = TmOk r ->
  exists h', interp_i64'search'loop1 f x0 xs (N.of_nat low) (N.of_nat high) = Ok (N.of_nat r, h').
Proof.
  induction f as [|f IH]; intros xs x0 low high r Hlh Hh HL H; [discriminate|].
  cbn [search_loop interp_i64'search'loop1] in *.
  assert ((N.of_nat low <? N.of_nat high)%N = (low <? high)%nat) as -> by lia.
  destruct (low <? high)%nat eqn:Elt; [|inversion H; subst; eexists; reflexivity].
  pose proof (mid_bounds low high ltac:(lia)) as Hm.
  set (mid := ((low + high + 1) / 2)%nat) in *.
  assert (Emid : udiv (u64 (u64 (N.of_nat low + N.of_nat high) + 1)) 2 = Ok (N.of_nat mid)).
  { unfold udiv. cbn [N.eqb]. f_equal. unfold u64, mid. lia. }
  rewrite Emid. cbn [bind].
  rewrite (loadZ_in xs mid) by lia. cbn [bind].
  unfold rd in H. assert ((mid <? length xs)%nat = true) as Hin by lia. rewrite Hin in H.
  set (xm := nth mid xs 0%Z) in *.
  destruct (x0 =? xm)%Z eqn:Eeq; [inversion H; subst; eexists; reflexivity|].
  destruct (x0 <? xm)%Z eqn:Elt2; cbn [bind].
  - assert (Eh : u64 (N.of_nat mid + 18446744073709551616 - 1) = N.of_nat (mid - 1)) by (unfold u64; lia).
    rewrite Eh. apply IH; try assumption; lia.
  - assert ((xm <? x0)%Z = true) as -> by lia. apply IH; try assumption; lia.
Qed.

Theorem gen_search_eq : forall (fuel : nat) (g : jls_tmap_s) (xs : list Z) (x0 : Z),
  g.(jls_tmap_s_entries_length) = N.of_nat (length xs) -> (2 <= length xs)%nat ->
  (N.of_nat (length xs) < 9223372036854775808)%N -> (length xs <= fuel)%nat ->
  exists c, search xs x0 = TmOk c /\ interp_i64'search fuel g x0 xs = Ok (N.of_nat c) /\
            (c + 2 <= length xs)%nat.
Proof.
  intros fuel g xs x0 Hg H2 HL Hf. unfold search, interp_i64'search. rewrite Hg. cbv zeta.
  destruct (search_loop_total (length xs) 0%Z 0%nat xs x0 0%nat (length xs - 1)%nat ltac:(lia) ltac:(lia)) as [r [ER Hb]].
  rewrite ER.
  pose proof (search_loop_mono _ _ _ _ _ _ _ _ ER fuel Hf) as ER'.
  assert (E1 : u64 (N.of_nat (length xs) + 18446744073709551616 - 1) = N.of_nat (length xs - 1)) by (unfold u64; lia).
  assert (E2 : u64 (N.of_nat (length xs) + 18446744073709551616 - 2) = N.of_nat (length xs - 2)) by (unfold u64; lia).
  rewrite E1, E2. change 0%N with (N.of_nat 0).
  destruct (gen_search_loop_eq fuel xs x0 0%nat (length xs - 1)%nat r ltac:(lia) ltac:(lia) HL ER') as [h' EG].
  rewrite EG. cbn [bind]. exists (clamp (length xs) r). split; [reflexivity|]. unfold clamp.
  assert ((N.of_nat (length xs - 1) <=? N.of_nat r)%N = (length xs - 1 <=? r)%nat) as -> by lia.
  destruct (length xs - 1 <=? r)%nat eqn:E; split; try reflexivity; lia.
Qed.
