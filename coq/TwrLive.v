(* Progress of the threaded writer (TwrModel.v), repaired protocol (fx = true):
   from every reachable state some schedule (thread steps and time advances) leads to a state in which
   every thread has finished (tw_can_always_finish / tw_can_always_close: AG EF final).
   Proofs only; the theorem statements are in Properties_C07_live.v.
   Architecture:
     tw_cm / tw_cm_dec / tw_consumer_runs   every consumer step decreases a measure: the consumer alone blocks after finitely many steps
     tw_pwork / tw_pstep_work               every producer step decreases the producer's remaining work, except the two polling
                                            loops (left through their time-out after a tick) and a failed CLOSE send
     tw_holder_step / tw_prod_advance       a producer blocked on a mutex: the holder (producer: its step reduces the work;
                                            consumer: releases with one step) is run first
     tw_phase1                              all producers finish all calls except jls_twr_close
     tw_phase2a                             producer 0 gets CLOSE queued (the consumer drains the queue first: 40 bytes fit in an empty queue)
     tw_phase2b                             producer 0 signals, the consumer drains and ends, producer 0 joins and calls jls_wr_close
     tw_done_end                            producer 0 is at TwPDone only after TwAEnd
   Not proved: termination under every fair schedule (the witness schedule is chosen here). *)
From Coq Require Import NArith List Bool Lia Arith.
From JLS Require Import Generated MrbModel MrbProofs TwrModel TwrProofs.
Import ListNotations.
Local Open Scope N_scope.

(* ---------- schedules ---------- *)
Lemma tw_run_app : forall fx l1 l2 s s1, tw_run fx s l1 = Some s1 -> tw_run fx s (l1 ++ l2) = tw_run fx s1 l2.
Proof.
  induction l1 as [|d r IH]; intros l2 s s1 H; cbn [tw_run app] in *.
  - injection H as <-. reflexivity.
  - destruct d as [t|d].
    + destruct (tw_step fx s t) as [s2|]; [|discriminate]. apply IH. exact H.
    + apply IH. exact H.
Qed.

(* ---------- the consumer alone: every consumer step decreases tw_cm ---------- *)
Definition tw_crank (s : tw_state) : nat :=
  match tw_cpc s with
  | TwCStart => 21
  | TwCLockP => match tw_held s with None => 20 | Some _ => 16 end
  | TwCUnlockP => 19 | TwCLockM => 18 | TwCUnlockM => 17
  | TwCWaitLock => 10
  | TwCWaitReacq => if tw_signalled s then 9 else 7
  | TwCWaitCond => 8
  | TwCWaitUnlock => 30
  | TwCDone => 0
  end%nat.
Definition tw_cm (s : tw_state) : nat :=
  ((length (tw_accepted s) - length (tw_processed s)) * 100 + (if tw_flag s then 40 else 0) + tw_crank s)%nat.

Lemma tw_fifo_len : forall cap s, tw_fifo cap s -> (length (tw_processed s) <= length (tw_accepted s))%nat.
Proof.
  intros cap s (_ & _ & es & _ & _ & _ & _ & HA).
  assert (E : length (tw_acc_msgs s) = length (tw_accepted s)) by (unfold tw_acc_msgs; apply map_length).
  rewrite HA, app_length in E. lia.
Qed.

Ltac tw_rw_state :=
  repeat match goal with
  | H : _ && _ = true |- _ => apply andb_prop in H; destruct H
  end;
  repeat match goal with
  | H : tw_flag ?s = _ |- _ => rewrite H in *; clear H
  | H : tw_signalled ?s = _ |- _ => rewrite H in *; clear H
  | H : tw_held ?s = _ |- _ => rewrite H in *; clear H
  | H : tw_quit ?s = _ |- _ => rewrite H in *; clear H
  end.

Lemma tw_cm_dec : forall cap s s', tw_fifo cap s' -> tw_cstep s = Some s' -> (tw_cm s' < tw_cm s)%nat.
Proof.
  intros cap s s' HF' HS. pose proof (tw_fifo_len _ _ HF') as Hle.
  destruct HF' as (Hf' & _). unfold tw_cstep in HS.
  destruct (tw_cpc s) eqn:Ecpc; tw_ccases HS.
  all: try solve [injection HS as <-; unfold tw_cm, tw_crank, tw_processed in *; tw_proj; rewrite ?Ecpc; tw_rw_state; lia].
  - (* CLockM *)
    match type of HS with match ?X with _ => _ end = _ => destruct X as [s3|f] eqn:EX end; injection HS as <-.
    + apply tw_cstep_lockM in EX; [|reflexivity]. destruct EX as (qa & ra & qb & rb & tr & _ & _ & -> & _).
      unfold tw_cm, tw_crank, tw_processed in *; tw_proj; rewrite ?Ecpc. lia.
    + tw_proj. discriminate.
  - (* CLockP, message read *)
    injection HS as <-. unfold tw_dispatch in *.
    destruct (tw_kind_of rm =? 0); [|destruct (tw_kind_of rm =? 1)];
      unfold tw_cm, tw_crank, tw_processed in *; tw_proj; rewrite ?Ecpc, ?Eh;
      rewrite tw_msgs_of_app, app_length in *; cbn [tw_msgs_of length] in *; lia.
  - (* CLockP fault *)
    injection HS as <-. tw_proj. discriminate.
Qed.

(* the consumer alone runs until it blocks (or ends); producers are not touched *)
Lemma tw_consumer_runs : forall fx cap progs, tw_wf cap progs -> forall m s, tw_cm s = m -> tw_reach fx cap progs s ->
  exists n s', tw_run fx s (repeat (TwDStep TwTCons) n) = Some s' /\ tw_step fx s' TwTCons = None /\
    tw_prods s' = tw_prods s /\ tw_reach fx cap progs s'.
Proof.
  intros fx cap progs Hwf m. induction m as [m IH] using lt_wf_ind. intros s Em HR.
  destruct (tw_step fx s TwTCons) as [s1|] eqn:E.
  - pose proof (tw_reach_step _ _ _ _ _ _ HR E) as HR1.
    pose proof (tw_fifo_reach _ _ _ _ Hwf HR1) as HF1.
    assert (HS : tw_cstep s = Some s1).
    { unfold tw_step in E. destruct (tw_fault s); [discriminate|exact E]. }
    pose proof (tw_cm_dec _ _ _ HF1 HS) as Hlt.
    destruct (IH (tw_cm s1) ltac:(lia) s1 eq_refl HR1) as (n & s' & Hrun & Hb & Hp & HR').
    exists (S n), s'. cbn [repeat tw_run]. rewrite E. split; [exact Hrun|]. split; [exact Hb|]. split; [|exact HR'].
    rewrite Hp. apply tw_cstep_prods. exact HS.
  - exists 0%nat, s. cbn [repeat tw_run]. auto.
Qed.

Lemma tw_consumer_runs_reach : forall fx cap progs s, tw_wf cap progs -> tw_reach fx cap progs s ->
  exists n s', tw_run fx s (repeat (TwDStep TwTCons) n) = Some s' /\ tw_step fx s' TwTCons = None /\
    tw_prods s' = tw_prods s /\ tw_reach fx cap progs s'.
Proof. intros fx cap progs s Hwf HR. exact (tw_consumer_runs fx cap progs Hwf (tw_cm s) s eq_refl HR). Qed.

(* ---------- remaining work of a producer: decreases with every producer step, except for the polling loops ---------- *)
Definition tw_prank (pc : tw_ppc) : nat :=
  match pc with
  | TwPStart => 95
  | TwPHJoin | TwPDefLock _ | TwPTicketLock => 90
  | TwPDefUnlock | TwPTicketUnlock _ _ => 89
  | TwPSendLock _ => 85
  | TwPSendUnlock _ false => 84
  | TwPSendSleep _ => 83
  | TwPSendWake _ _ => 82
  | TwPSendUnlock _ true => 70
  | TwPSigLock _ => 69 | TwPSigSignal _ => 68 | TwPSigUnlock _ => 67
  | TwPFlushSleep _ _ _ => 50 | TwPFlushWake _ _ _ _ => 49
  | TwPJoin => 40
  | TwPDone => 0
  end%nat.
Definition tw_pwork (p : tw_pthread) : nat := (100 * length (tw_pt_calls p) + tw_prank (tw_pt_pc p))%nat.

Lemma tw_begin_work : forall cs i s idx s' p', tw_begin i s cs idx = (s', p') -> (tw_pwork p' <= 100 * length cs + 90)%nat.
Proof.
  induction cs as [|c r IH]; intros i s idx s' p' H; cbn [tw_begin] in H.
  - injection H as <- <-. unfold tw_pwork. cbn [tw_pt_calls tw_pt_pc tw_prank length]. lia.
  - destruct c.
    + injection H as <- <-. unfold tw_pwork. cbn [tw_pt_calls tw_pt_pc tw_prank length]. lia.
    + destruct (tw_is_fsr k && tw_drop s); [|unfold tw_send_begin in H]; injection H as <- <-;
        unfold tw_pwork; cbn [tw_pt_calls tw_pt_pc tw_prank length]; lia.
    + injection H as <- <-. unfold tw_pwork. cbn [tw_pt_calls tw_pt_pc tw_prank length]. lia.
    + apply IH in H. cbn [length]. lia.
    + destruct (Nat.ltb 1 (tw_nprod s)); [|unfold tw_send_begin in H]; injection H as <- <-;
        unfold tw_pwork; cbn [tw_pt_calls tw_pt_pc tw_prank length]; lia.
Qed.

Lemma tw_ret_work : forall i s p rc s' p' c r, tw_pt_calls p = c :: r -> tw_ret i s p rc = (s', p') ->
  (tw_pwork p' <= 100 * length r + 90)%nat.
Proof. intros i s p rc s' p' c r Ec H. unfold tw_ret in H. rewrite Ec in H. eapply tw_begin_work; eauto. Qed.

Lemma tw_send_done_work : forall i s p k ok s' p' c r, tw_pt_calls p = c :: r -> tw_send_done true i s p k ok = (s', p') ->
  (tw_pwork p' <= 100 * length (c :: r) + match k with TwKClose => if ok then 40 else 85 | _ => 50 end)%nat.
Proof.
  intros i s p k ok s' p' c r Ec H. unfold tw_send_done in H. destruct k as [|id mark|].
  - apply (tw_ret_work _ _ _ _ _ _ _ _ Ec) in H. cbn [length]. lia.
  - destruct (id <=? _).
    + apply (tw_ret_work _ _ _ _ _ _ _ _ Ec) in H. cbn [length]. lia.
    + injection H as <- <-. unfold tw_pwork. cbn [tw_with_pc tw_pt_calls tw_pt_pc tw_prank]. rewrite Ec. lia.
  - destruct ok; cbn [orb negb] in H; [|unfold tw_send_begin in H]; injection H as <- <-;
      unfold tw_pwork; cbn [tw_with_pc tw_pt_calls tw_pt_pc tw_prank]; rewrite Ec; lia.
Qed.

Lemma tw_head_cons : forall p, tw_head_ok p -> tw_pt_pc p <> TwPStart -> tw_pt_pc p <> TwPDone ->
  exists c r, tw_pt_calls p = c :: r.
Proof.
  intros p H H1 H2. unfold tw_head_ok in H. destruct (tw_pt_pc p); cbn [tw_pc_head] in H; try congruence;
    unfold tw_send_head, tw_cont_head in H;
    repeat match goal with
    | H : match ?k with TwKRet => _ | TwKFlush _ _ => _ | TwKClose => _ end |- _ => destruct k
    | H : exists _, _ |- _ => destruct H
    | H : _ /\ _ |- _ => destruct H
    end; eauto.
Qed.

(* steps that leave a polling loop through its time-out, and no failed CLOSE send *)
Definition tw_pgood (s : tw_state) (p : tw_pthread) : Prop :=
  match tw_pt_pc p with
  | TwPSendWake c w => tw_sd_stop c < tw_now s /\ tw_sd_k c <> TwKClose
  | TwPFlushWake _ _ stop _ => stop < tw_now s
  | TwPSendUnlock c false => tw_sd_k c <> TwKClose
  | _ => True
  end.

Lemma tw_pstep_work : forall s i p s', tw_head_ok p -> tw_pgood s p -> tw_pstep true s i p = Some s' ->
  (exists s1 p1, s' = tw_setp s1 i p1 /\ tw_prods s1 = tw_prods s /\ (tw_pwork p1 < tw_pwork p)%nat) \/
  (exists f, s' = tw_set_fault s (Some f)).
Proof.
  intros s i p s' Hp Hg HS.
  assert (Hc : tw_pt_pc p <> TwPStart -> tw_pt_pc p <> TwPDone -> exists c r, tw_pt_calls p = c :: r)
    by (apply tw_head_cons; exact Hp).
  unfold tw_pgood in Hg. unfold tw_pstep in HS.
  destruct (tw_pt_pc p) eqn:Epc.
  7: { (* PSendLock *)
    destruct (tw_free (tw_mM s)) eqn:Ef; [|discriminate].
    destruct (alloc_fixed (tw_q s) (len (tw_sd_msg c))) as [[q1 [a|]]|f] eqn:Eal.
    - destruct (fill_fast q1 a (tw_sd_msg c)) as [q2|f] eqn:Efi; [|right; injection HS as <-; eexists; reflexivity].
      left. injection HS as <-. cbn [fst snd]. eexists. eexists. split; [reflexivity|]. split; [tw_proj; reflexivity|].
      unfold tw_pwork. tw_proj. rewrite Epc. cbn [tw_prank]. lia.
    - left. injection HS as <-. cbn [fst snd]. eexists. eexists. split; [reflexivity|]. split; [tw_proj; reflexivity|].
      unfold tw_pwork. tw_proj. rewrite Epc. cbn [tw_prank]. lia.
    - right. injection HS as <-. eexists; reflexivity. }
  all: tw_pcases HS; try (right; injection HS as <-; eexists; reflexivity).
  all: left.
  all: try solve [exfalso; repeat match goal with H : _ /\ _ |- _ => destruct H end;
                  repeat match goal with H : (_ <=? _) = true |- _ => apply N.leb_le in H
                                       | H : (_ <? _) = false |- _ => apply N.ltb_ge in H end; lia].
  all: try match type of HS with context [if (?j =? 0)%nat then tw_set_opened ?s0 true else ?s0] => destruct (j =? 0)%nat eqn:Ei0 end.
  all: try (tw_helper HS; injection HS as <-; exists s2, p2; split; [reflexivity|];
            split; [pose proof F as F0; tw_use_frame F0; tw_proj; congruence|];
            first [ pose proof (tw_begin_work _ _ _ _ _ _ EX) as HW; unfold tw_pwork in *; rewrite ?Epc in *; cbn [tw_prank] in *; lia
                  | destruct (Hc ltac:(congruence) ltac:(congruence)) as (c0 & r0 & Ecs);
                    first [ pose proof (tw_ret_work _ _ _ _ _ _ _ _ Ecs EX) as HW
                          | pose proof (tw_send_done_work _ _ _ _ _ _ _ _ _ Ecs EX) as HW ];
                    unfold tw_pwork in *; rewrite ?Epc, ?Ecs in *; cbn [tw_prank length] in *;
                    try match type of HW with context [match ?k with TwKRet => _ | TwKFlush _ _ => _ | TwKClose => _ end] => destruct k end;
                    try (exfalso; repeat match goal with H : _ /\ _ |- _ => destruct H end; congruence);
                    lia ]).
  all: try (injection HS as <-; cbn [fst snd]; eexists; eexists; split; [reflexivity|];
            split; [tw_proj; try (destruct (tw_cpc s)); reflexivity|];
            unfold tw_pwork; tw_proj; rewrite ?Epc; cbn [tw_prank]; lia).
Qed.

Definition tw_work (s : tw_state) : nat := list_sum (map tw_pwork (tw_prods s)).

Lemma tw_sum_upd : forall (l : list tw_pthread) i p v, nth_error l i = Some p ->
  (list_sum (map tw_pwork (tw_upd l i v)) + tw_pwork p = list_sum (map tw_pwork l) + tw_pwork v)%nat.
Proof.
  unfold list_sum. induction l as [|x r IH]; intros [|i] p v H; cbn [nth_error tw_upd map fold_right] in *; try discriminate.
  - injection H as <-. lia.
  - specialize (IH _ _ v H). lia.
Qed.

Lemma tw_step_prod : forall fx s i p, tw_fault s = None -> nth_error (tw_prods s) i = Some p ->
  tw_step fx s (TwTProd i) = tw_pstep fx s i p.
Proof. intros fx s i p Hf Hn. unfold tw_step. rewrite Hf, Hn. reflexivity. Qed.

Lemma tw_reach_fault : forall fx cap progs s, tw_wf cap progs -> tw_reach fx cap progs s -> tw_fault s = None.
Proof. intros fx cap progs s Hwf HR. destruct (tw_fifo_reach _ _ _ _ Hwf HR) as (Hf & _). exact Hf. Qed.

Lemma tw_step_work : forall cap progs s i p s', tw_wf cap progs -> tw_reach true cap progs s ->
  nth_error (tw_prods s) i = Some p -> tw_pgood s p -> tw_step true s (TwTProd i) = Some s' -> (tw_work s' < tw_work s)%nat.
Proof.
  intros cap progs s i p s' Hwf HR Hn Hg HS.
  pose proof (tw_reach_fault _ _ _ _ Hwf HR) as Hf.
  pose proof (tw_reach_fault _ _ _ _ Hwf (tw_reach_step _ _ _ _ _ _ HR HS)) as Hf'.
  rewrite (tw_step_prod _ _ _ _ Hf Hn) in HS.
  destruct (tw_pstep_work _ _ _ _ (tw_head_reach _ _ _ _ HR _ _ Hn) Hg HS) as [(s1 & p1 & -> & Sp & Hlt)|(f & ->)].
  - unfold tw_work. tw_proj. rewrite Sp. pose proof (tw_sum_upd _ _ _ p1 Hn). lia.
  - tw_proj. discriminate.
Qed.

Definition tw_is_wake (pc : tw_ppc) : bool :=
  match pc with TwPSendWake _ _ | TwPFlushWake _ _ _ _ => true | _ => false end.

Lemma tw_pgood_nowake : forall s p, tw_is_wake (tw_pt_pc p) = false ->
  (tw_in_close (tw_pt_pc p) = false \/ tw_closing_pc (tw_pt_pc p) = true) -> tw_pgood s p.
Proof.
  intros s p Hw Hc. unfold tw_pgood. destruct (tw_pt_pc p) as [| | | | | |c|c ok| | | |c|c w| | | |]; try exact I; try discriminate.
  destruct ok; [exact I|]. intro Ek. cbn [tw_in_close tw_closing_pc] in Hc. rewrite Ek in Hc. destruct Hc; discriminate.
Qed.

Lemma tw_cons_release : forall s, tw_fault s = None ->
  tw_choldsM (tw_cpc s) = true \/ tw_choldsP (tw_cpc s) = true \/ tw_choldsE (tw_cpc s) = true ->
  exists s1, tw_step true s TwTCons = Some s1 /\
    (tw_choldsM (tw_cpc s) = true -> tw_mM s1 = None) /\ (tw_choldsP (tw_cpc s) = true -> tw_mP s1 = None) /\
    (tw_choldsE (tw_cpc s) = true -> tw_mE s1 = None).
Proof.
  intros s Hf H. unfold tw_step. rewrite Hf. unfold tw_cstep.
  destruct (tw_cpc s); cbn [tw_choldsM tw_choldsP tw_choldsE] in *; try (destruct H as [H|[H|H]]; discriminate).
  - eexists. split; [reflexivity|]. tw_proj. repeat split; intros; try reflexivity; discriminate.
  - eexists. split; [reflexivity|]. tw_proj. repeat split; intros; try reflexivity; discriminate.
  - destruct (tw_held s); [|destruct (tw_quit s)]; (eexists; split; [reflexivity|]); tw_proj; repeat split; intros; try reflexivity; discriminate.
  - eexists. split; [reflexivity|]. tw_proj. repeat split; intros; try reflexivity; discriminate.
Qed.

(* the holder of a mutex: a producer that can take a step that reduces the work, or the consumer,
   which releases the mutex with its next step *)
Lemma tw_holder_step : forall cap progs s t, tw_wf cap progs -> tw_reach true cap progs s ->
  (forall j q, nth_error (tw_prods s) j = Some q -> tw_in_close (tw_pt_pc q) = false \/ tw_closing_pc (tw_pt_pc q) = true) ->
  tw_mM s = Some t \/ tw_mP s = Some t \/ tw_mE s = Some t ->
  (exists j s', t = TwTProd j /\ tw_step true s t = Some s' /\ (tw_work s' < tw_work s)%nat) \/
  (t = TwTCons /\ exists s1, tw_step true s TwTCons = Some s1 /\
     (tw_mM s = Some t -> tw_mM s1 = None) /\ (tw_mP s = Some t -> tw_mP s1 = None) /\ (tw_mE s = Some t -> tw_mE s1 = None)).
Proof.
  intros cap progs s t Hwf HR Hnc Hown.
  pose proof (tw_reach_fault _ _ _ _ Hwf HR) as Hf.
  pose proof (tw_lock_reach _ _ _ _ HR) as HL. pose proof HL as ((M1 & M2) & (P1 & P2) & (E1 & E2)).
  destruct t as [j|].
  - left. assert (Hp : exists q, nth_error (tw_prods s) j = Some q /\
               (tw_pholdsM (tw_pt_pc q) = true \/ tw_pholdsP (tw_pt_pc q) = true \/ tw_pholdsE (tw_pt_pc q) = true)).
    { destruct Hown as [H|[H|H]]; [apply M1 in H|apply P1 in H|apply E1 in H]; destruct H as (q & Hq & Hh); exists q; auto. }
    destruct Hp as (q & Hq & Hh).
    destruct (tw_step true s (TwTProd j)) as [s'|] eqn:Es.
    2: { exfalso. apply (tw_holder_enabled true s (TwTProd j) HL Hf Hown). exact Es. }
    exists j, s'. split; [reflexivity|]. split; [reflexivity|].
    eapply tw_step_work; eauto. apply tw_pgood_nowake; [|apply (Hnc _ _ Hq)].
    destruct (tw_pt_pc q); cbn in Hh |- *; try reflexivity; destruct Hh as [Hh|[Hh|Hh]]; discriminate.
  - right. split; [reflexivity|].
    assert (Hc : tw_choldsM (tw_cpc s) = true \/ tw_choldsP (tw_cpc s) = true \/ tw_choldsE (tw_cpc s) = true).
    { destruct Hown as [H|[H|H]]; [apply M2 in H|apply P2 in H|apply E2 in H]; auto. }
    destruct (tw_cons_release s Hf Hc) as (s1 & Es1 & RM & RP & RE). exists s1. split; [exact Es1|].
    split; [intro H; apply RM, M2, H|]. split; [intro H; apply RP, P2, H|intro H; apply RE, E2, H].
Qed.

Lemma tw_cons_step_prods : forall fx s s1, tw_step fx s TwTCons = Some s1 -> tw_prods s1 = tw_prods s.
Proof. intros fx s s1 H. unfold tw_step in H. destruct (tw_fault s); [discriminate|]. apply tw_cstep_prods. exact H. Qed.

(* a producer that is not finished, does not sleep, and does not wait for another thread to finish
   can be advanced (after the holder of the mutex it needs has released it): the work decreases *)
Lemma tw_prod_advance : forall cap progs s i p, tw_wf cap progs -> tw_reach true cap progs s ->
  (forall j q, nth_error (tw_prods s) j = Some q -> tw_in_close (tw_pt_pc q) = false \/ tw_closing_pc (tw_pt_pc q) = true) ->
  nth_error (tw_prods s) i = Some p -> tw_is_wake (tw_pt_pc p) = false ->
  tw_pt_pc p <> TwPDone -> tw_pt_pc p <> TwPHJoin -> (tw_pt_pc p = TwPStart -> i = 0%nat \/ tw_opened s = true) ->
  (tw_pt_pc p = TwPJoin -> tw_cpc s = TwCDone) ->
  exists l s', tw_run true s l = Some s' /\ (tw_work s' < tw_work s)%nat.
Proof.
  intros cap progs s i p Hwf HR Hnc Hn Hw Hnd Hnh Hst Hjo.
  pose proof (tw_reach_fault _ _ _ _ Hwf HR) as Hf.
  assert (Hg : forall s0, tw_pgood s0 p) by (intro s0; apply tw_pgood_nowake; [exact Hw|exact (Hnc _ _ Hn)]).
  destruct (tw_step true s (TwTProd i)) as [s'|] eqn:E.
  { exists [TwDStep (TwTProd i)], s'. cbn [tw_run]. rewrite E. split; [reflexivity|]. eapply tw_step_work; eauto. }
  assert (Hmut : forall t, tw_mM s = Some t \/ tw_mP s = Some t \/ tw_mE s = Some t ->
            (forall s1, (tw_mM s = Some t -> tw_mM s1 = None) -> (tw_mP s = Some t -> tw_mP s1 = None) ->
                        (tw_mE s = Some t -> tw_mE s1 = None) -> tw_pstep true s1 i p <> None) ->
            exists l s', tw_run true s l = Some s' /\ (tw_work s' < tw_work s)%nat).
  { intros t Hown Hen.
    destruct (tw_holder_step _ _ _ _ Hwf HR Hnc Hown) as [(j & s' & -> & Es & Hlt)|(-> & s1 & Es1 & RM & RP & RE)].
    - exists [TwDStep (TwTProd j)], s'. cbn [tw_run]. rewrite Es. auto.
    - pose proof (tw_reach_step _ _ _ _ _ _ HR Es1) as HR1.
      pose proof (tw_reach_fault _ _ _ _ Hwf HR1) as Hf1.
      pose proof (tw_cons_step_prods _ _ _ Es1) as Hp1.
      assert (Hn1 : nth_error (tw_prods s1) i = Some p) by (rewrite Hp1; exact Hn).
      destruct (tw_step true s1 (TwTProd i)) as [s2|] eqn:E2.
      2: { exfalso. rewrite (tw_step_prod _ _ _ _ Hf1 Hn1) in E2. exact (Hen s1 RM RP RE E2). }
      exists [TwDStep TwTCons; TwDStep (TwTProd i)], s2. cbn [tw_run]. rewrite Es1, E2. split; [reflexivity|].
      assert (Hlt : (tw_work s2 < tw_work s1)%nat) by (eapply tw_step_work; eauto).
      unfold tw_work in *. rewrite Hp1 in Hlt. exact Hlt. }
  rewrite (tw_step_prod _ _ _ _ Hf Hn) in E.
  destruct (tw_pstep_none _ _ _ _ E) as [H|[(H&Hi&Ho)|[(H&_)|[(H&Hc)|[H|[((d0&H)&Hm)|[(H&Hm)|((k0&H)&Hm)]]]]]]].
  - contradiction.
  - exfalso. destruct (Hst H) as [Hx|Hx]; [contradiction|congruence].
  - contradiction.
  - exfalso. apply Hc. auto.
  - exfalso. unfold tw_psleeping in H. destruct (tw_pt_pc p); discriminate.
  - destruct (tw_mP s) as [t|] eqn:Em; [|congruence]. apply (Hmut t); [auto|].
    intros s1 _ RP _ E1. destruct (tw_pstep_none _ _ _ _ E1) as [H1|[(H1&_)|[(H1&_)|[(H1&_)|[H1|[(_&Hm1)|[([H1|(c1&H1)]&_)|((k1&H1)&_)]]]]]]]; try congruence.
    + unfold tw_psleeping in H1. rewrite H in H1. discriminate.
    + apply Hm1. apply RP. reflexivity.
  - destruct (tw_mM s) as [t|] eqn:Em; [|congruence]. apply (Hmut t); [auto|].
    intros s1 RM _ _ E1. destruct (tw_pstep_none _ _ _ _ E1) as [H1|[(H1&_)|[(H1&_)|[(H1&_)|[H1|[((d1&H1)&_)|[(_&Hm1)|((k1&H1)&_)]]]]]]]; try (destruct H as [H|(c0&H)]; congruence).
    + unfold tw_psleeping in H1. destruct H as [H|(c0&H)]; rewrite H in H1; discriminate.
    + apply Hm1. apply RM. reflexivity.
  - destruct (tw_mE s) as [t|] eqn:Em; [|congruence]. apply (Hmut t); [auto|].
    intros s1 _ _ RE E1. destruct (tw_pstep_none _ _ _ _ E1) as [H1|[(H1&_)|[(H1&_)|[(H1&_)|[H1|[((d1&H1)&_)|[([H1|(c1&H1)]&_)|(_&Hm1)]]]]]]]; try congruence.
    + unfold tw_psleeping in H1. rewrite H in H1. discriminate.
    + apply Hm1. apply RE. reflexivity.
Qed.

(* a producer in a polling loop (send retry, flush poll; not the CLOSE send): let time pass until its
   time-out has expired, then its next step leaves the loop *)
Lemma tw_prod_wake : forall cap progs s i p, tw_wf cap progs -> tw_reach true cap progs s ->
  nth_error (tw_prods s) i = Some p -> tw_is_wake (tw_pt_pc p) = true -> tw_in_close (tw_pt_pc p) = false ->
  exists l s', tw_run true s l = Some s' /\ (tw_work s' < tw_work s)%nat.
Proof.
  intros cap progs s i p Hwf HR Hn Hw Hc.
  assert (G : forall d, (forall w, (exists c, tw_pt_pc p = TwPSendWake c w) \/ (exists a b c, tw_pt_pc p = TwPFlushWake a b c w) -> w <= tw_now s + d) ->
              tw_pgood (tw_tick s d) p -> exists l s', tw_run true s l = Some s' /\ (tw_work s' < tw_work s)%nat).
  { intros d Hd Hg. pose proof (tw_reach_tick _ _ _ _ d HR) as HRt.
    pose proof (tw_reach_fault _ _ _ _ Hwf HRt) as Hft.
    assert (Hnt : nth_error (tw_prods (tw_tick s d)) i = Some p) by exact Hn.
    destruct (tw_step true (tw_tick s d) (TwTProd i)) as [s'|] eqn:E.
    - exists [TwDTick d; TwDStep (TwTProd i)], s'. cbn [tw_run]. rewrite E. split; [reflexivity|].
      assert (Hlt : (tw_work s' < tw_work (tw_tick s d))%nat) by (eapply tw_step_work; eauto). exact Hlt.
    - exfalso. rewrite (tw_step_prod _ _ _ _ Hft Hnt) in E.
      destruct (tw_pstep_none _ _ _ _ E) as [H|[(H&_)|[(H&_)|[(H&_)|[H|[((d0&H)&_)|[([H|(c0&H)]&_)|((k0&H)&_)]]]]]]];
        try (rewrite H in Hw; discriminate).
      unfold tw_psleeping in H. destruct (tw_pt_pc p) eqn:Epc; try discriminate; apply N.ltb_lt in H; tw_proj.
      + assert (wake <= tw_now s + d) by (apply Hd; left; eauto). lia.
      + assert (wake <= tw_now s + d) by (apply Hd; right; eauto). lia. }
  destruct (tw_pt_pc p) eqn:Epc; try discriminate.
  - apply (G (wake + tw_sd_stop c + 1)).
    + intros w [(c0 & E)|(a & b & c0 & E)]; [injection E as _ <-; lia|discriminate].
    + unfold tw_pgood. rewrite Epc. tw_proj. split; [lia|]. intro Ek. cbn [tw_in_close] in Hc. rewrite Ek in Hc. discriminate.
  - apply (G (wake + stop + 1)).
    + intros w [(c0 & E)|(a & b & c0 & E)]; [discriminate|injection E as _ _ _ <-; lia].
    + unfold tw_pgood. rewrite Epc. tw_proj. lia.
Qed.

(* ---------- phase 1: every producer finishes all its calls except jls_twr_close ---------- *)
Definition tw_fin1 (p : tw_pthread) : bool :=
  match tw_pt_pc p with TwPDone | TwPHJoin => true | pc => tw_in_close pc end.

Lemma tw_phase1_step : forall cap progs s i p, tw_wf cap progs -> tw_wf_close progs -> tw_wf_live progs ->
  tw_reach true cap progs s -> nth_error (tw_prods s) i = Some p -> tw_fin1 p = false ->
  exists l s', tw_run true s l = Some s' /\ (tw_work s' < tw_work s)%nat.
Proof.
  intros cap progs s i p Hwf Hwc Hwl HR Hn Hfin.
  destruct (tw_all_reach _ _ _ _ Hwf Hwc HR) as (HL & HF & HH & HW & (K1 & K2 & K3 & K4 & K5) & HJ).
  destruct (tw_live_reach _ _ _ _ Hwf Hwc Hwl HR) as (W0 & W1 & W2 & J1 & Q2 & O1 & D1).
  assert (Hpc : tw_pt_pc p <> TwPDone /\ tw_pt_pc p <> TwPHJoin /\ tw_in_close (tw_pt_pc p) = false).
  { unfold tw_fin1 in Hfin. destruct (tw_pt_pc p); try discriminate; repeat split; try discriminate; exact Hfin. }
  destruct Hpc as (Hnd & Hnh & Hnic).
  assert (Hnc : forall j q, nth_error (tw_prods s) j = Some q -> tw_in_close (tw_pt_pc q) = false \/ tw_closing_pc (tw_pt_pc q) = true).
  { intros j q Hq. left. destruct (tw_in_close (tw_pt_pc q)) eqn:E; auto. exfalso.
    destruct (K1 _ _ Hq E) as (-> & Ho). destruct (Nat.eq_dec i 0) as [->|Hne].
    - rewrite Hq in Hn. injection Hn as <-. congruence.
    - apply Hnd. exact (Ho _ _ Hn Hne). }
  destruct (tw_is_wake (tw_pt_pc p)) eqn:Hw.
  { eapply tw_prod_wake; eauto. }
  destruct (Nat.eq_dec i 0) as [->|Hne].
  { eapply (tw_prod_advance cap progs s 0 p); eauto. intro Ej. rewrite Ej in Hnic. discriminate. }
  destruct (tw_opened s) eqn:Eop.
  { eapply (tw_prod_advance cap progs s i p); eauto. intro Ej. rewrite Ej in Hnic. discriminate. }
  destruct D1 as (p0 & Hn0 & _). pose proof (O1 eq_refl _ _ Hn0) as E0.
  eapply (tw_prod_advance cap progs s 0 p0); eauto; rewrite E0; try discriminate. reflexivity.
Qed.

Lemma tw_phase1 : forall cap progs, tw_wf cap progs -> tw_wf_close progs -> tw_wf_live progs ->
  forall m s, tw_work s = m -> tw_reach true cap progs s ->
  exists l s', tw_run true s l = Some s' /\ tw_reach true cap progs s' /\
    forall i p, nth_error (tw_prods s') i = Some p -> tw_fin1 p = true.
Proof.
  intros cap progs Hwf Hwc Hwl m. induction m as [m IH] using lt_wf_ind. intros s Em HR.
  destruct (forallb tw_fin1 (tw_prods s)) eqn:Ef.
  - exists [], s. split; [reflexivity|]. split; [exact HR|]. intros i p Hn.
    rewrite forallb_forall in Ef. apply Ef. eapply nth_error_In; eauto.
  - apply tw_forallb_false in Ef. destruct Ef as (p & Hin & Hp). apply In_nth_error in Hin. destruct Hin as (i & Hn).
    destruct (tw_phase1_step _ _ _ _ _ Hwf Hwc Hwl HR Hn Hp) as (l1 & s1 & Hr1 & Hlt).
    pose proof (tw_run_reach _ _ _ _ _ _ HR Hr1) as HR1.
    destruct (IH (tw_work s1) ltac:(lia) s1 eq_refl HR1) as (l2 & s2 & Hr2 & HR2 & Hall).
    exists (l1 ++ l2), s2. split; [|split; [exact HR2|exact Hall]].
    rewrite (tw_run_app _ _ _ _ _ Hr1). exact Hr2.
Qed.

(* ---------- phase 2: producer 0 is in jls_twr_close, every other producer has finished ---------- *)
Lemma tw_step_has_close : forall cap progs s t s', tw_wf cap progs -> tw_reach true cap progs s ->
  tw_step true s t = Some s' -> tw_has_close s -> tw_has_close s'.
Proof.
  intros cap progs s t s' Hwf HR HS Hc. pose proof (tw_head_reach _ _ _ _ HR) as HH.
  unfold tw_step in HS. destruct (tw_fault s); [discriminate|]. destruct t as [i|].
  - destruct (nth_error (tw_prods s) i) as [p|] eqn:Hn; [|discriminate].
    destruct (tw_pstep_sum _ _ _ _ _ (HH _ _ Hn) HS) as [SUM|(f & ->)]; [|exact Hc].
    destruct SUM as (s1 & p1 & -> & _ & _ & _ & _ & _ & _ & Sa & _).
    destruct Sa as [(_ & Sa)|(c & q1 & a & _ & _ & _ & _ & Sa & _)].
    + eapply tw_has_close_mono with (x := []); [exact Hc|left; tw_proj; exact Sa].
    + eapply tw_has_close_mono; [exact Hc|right; tw_proj; exact Sa].
  - destruct (tw_cstep_facts _ _ HS) as (_ & Ha & _).
    eapply tw_has_close_mono with (x := []); [exact Hc|left; exact Ha].
Qed.

Lemma tw_run_has_close : forall cap progs, tw_wf cap progs -> forall l s s', tw_reach true cap progs s ->
  tw_run true s l = Some s' -> tw_has_close s -> tw_has_close s'.
Proof.
  intros cap progs Hwf. induction l as [|d r IH]; intros s s' HR H Hc; cbn [tw_run] in H.
  - injection H as <-. exact Hc.
  - destruct d as [t|d].
    + destruct (tw_step true s t) as [s1|] eqn:E; [|discriminate].
      eapply IH; [eapply tw_reach_step; eauto|exact H|eapply tw_step_has_close; eauto].
    + eapply IH; [apply tw_reach_tick; exact HR|exact H|exact Hc].
Qed.

Lemma tw_final_done : forall s, (forall i p, nth_error (tw_prods s) i = Some p -> tw_pt_pc p = TwPDone) ->
  tw_cpc s = TwCDone -> tw_final s = true.
Proof.
  intros s Hall Ec. unfold tw_final. rewrite Ec, Bool.andb_true_r. apply forallb_forall. intros p Hp.
  apply In_nth_error in Hp. destruct Hp as (i & Hp). unfold tw_pdone. rewrite (Hall _ _ Hp). reflexivity.
Qed.

Lemma tw_closing_in_close : forall pc, tw_closing_pc pc = true -> pc <> TwPDone -> tw_in_close pc = true.
Proof.
  intros pc H Hd. destruct pc as [| | | | | |c|c ok| | | |c|c w| | | |]; cbn [tw_closing_pc tw_in_close] in *; try discriminate; try congruence.
  destruct ok; [exact H|discriminate].
Qed.

Lemma tw_close_head : forall q, tw_head_ok q -> tw_pt_pc q = TwPHJoin \/ tw_in_close (tw_pt_pc q) = true ->
  exists r, tw_pt_calls q = TwCClose :: r.
Proof.
  intros q H Hc. unfold tw_head_ok in H.
  destruct (tw_pt_pc q) as [| | | | | |c|c ok| k | k | k |c|c w| | | |]; cbn [tw_pc_head tw_in_close] in *;
    try (destruct Hc as [Hc|Hc]; discriminate); try exact H.
  all: try (unfold tw_send_head in H; destruct (tw_sd_k c); try (destruct Hc as [Hc|Hc]; discriminate); destruct H as (H & _); exact H).
  all: destruct k; try (destruct Hc as [Hc|Hc]; discriminate); exact H.
Qed.

(* the consumer is blocked while no producer is about to signal it or holds a mutex: it has ended, or it
   waits for the event with an empty queue *)
Lemma tw_cons_blocked : forall cap progs s, tw_wf cap progs -> tw_wf_close progs -> tw_wf_live progs ->
  tw_reach true cap progs s ->
  (forall j q, nth_error (tw_prods s) j = Some q ->
     tw_pholdsM (tw_pt_pc q) = false /\ tw_pholdsP (tw_pt_pc q) = false /\ tw_pholdsE (tw_pt_pc q) = false /\
     tw_on_way (tw_pt_pc q) = false /\ tw_at_signal (tw_pt_pc q) = false) ->
  tw_step true s TwTCons = None ->
  tw_cpc s = TwCDone \/ (tw_cpc s = TwCWaitReacq /\ tw_unprocessed s = [] /\ tw_mM s = None /\ mrb_abs (tw_q s) = []).
Proof.
  intros cap progs s Hwf Hwc Hwl HR Hq HS.
  destruct (tw_all_reach _ _ _ _ Hwf Hwc HR) as (HL & HF & HH & HW & (K1 & K2 & K3 & K4 & K5) & HJ).
  destruct (tw_live_reach _ _ _ _ Hwf Hwc Hwl HR) as (W0 & W1 & W2 & J1 & Q2 & O1 & D1).
  destruct HL as ((M1 & M2) & (P1 & P2) & (E1 & E2)).
  pose proof (tw_reach_fault _ _ _ _ Hwf HR) as Hf. unfold tw_step in HS. rewrite Hf in HS.
  assert (HM : forall t, tw_mM s = Some t -> t = TwTCons /\ tw_choldsM (tw_cpc s) = true).
  { intros [j|] E; [|split; [reflexivity|apply M2; exact E]]. apply M1 in E. destruct E as (q & Hn & Hh).
    destruct (Hq _ _ Hn) as (X & _). congruence. }
  assert (HP : forall t, tw_mP s = Some t -> t = TwTCons /\ tw_choldsP (tw_cpc s) = true).
  { intros [j|] E; [|split; [reflexivity|apply P2; exact E]]. apply P1 in E. destruct E as (q & Hn & Hh).
    destruct (Hq _ _ Hn) as (_ & X & _). congruence. }
  assert (HE : forall t, tw_mE s = Some t -> t = TwTCons /\ tw_choldsE (tw_cpc s) = true).
  { intros [j|] E; [|split; [reflexivity|apply E2; exact E]]. apply E1 in E. destruct E as (q & Hn & Hh).
    destruct (Hq _ _ Hn) as (_ & _ & X & _). congruence. }
  destruct (tw_cstep_none _ HS) as [H|[(Hc & Hsg)|[(Hc & Hm)|[(Hc & Hm)|(Hc & Hm)]]]].
  - left. exact H.
  - right. split; [exact Hc|].
    assert (Hun : tw_unprocessed s = []).
    { destruct (tw_unprocessed s) as [|m r] eqn:Eu; [reflexivity|]. exfalso.
      assert (Hid : tw_cidle s = true) by (unfold tw_cidle; rewrite Hc; reflexivity).
      assert (Hne : m :: r <> []) by discriminate.
      destruct (W2 Hid Hne) as [Hfl|(j & q & Hj & Hw)].
      - destruct (W1 Hc Hsg Hfl) as (j & q & Hj & Hs). destruct (Hq _ _ Hj) as (_ & _ & _ & _ & X). congruence.
      - destruct (Hq _ _ Hj) as (_ & _ & _ & X & _). congruence. }
    split; [exact Hun|]. split.
    + destruct (tw_mM s) as [t|] eqn:Em; [|reflexivity]. destruct (HM _ eq_refl) as (_ & X). rewrite Hc in X. discriminate.
    + unfold tw_unprocessed, tw_cdone in Hun. rewrite Hc in Hun. exact Hun.
  - exfalso. destruct (tw_mE s) as [t|] eqn:Em; [|congruence]. destruct (HE _ eq_refl) as (_ & X).
    destruct Hc as [Hc|Hc]; rewrite Hc in X; discriminate.
  - exfalso. destruct (tw_mM s) as [t|] eqn:Em; [|congruence]. destruct (HM _ eq_refl) as (_ & X). rewrite Hc in X; discriminate.
  - exfalso. destruct (tw_mP s) as [t|] eqn:Em; [|congruence]. destruct (HP _ eq_refl) as (_ & X). rewrite Hc in X; discriminate.
Qed.

(* 2b: the CLOSE message has been queued: producer 0 signals, joins the consumer (which drains the queue
   and ends), calls jls_wr_close and finishes *)
Lemma tw_phase2b : forall cap progs, tw_wf cap progs -> tw_wf_close progs -> tw_wf_live progs ->
  forall m s, tw_work s = m -> tw_reach true cap progs s -> tw_has_close s ->
  exists l s', tw_run true s l = Some s' /\ tw_final s' = true.
Proof.
  intros cap progs Hwf Hwc Hwl m. induction m as [m IH] using lt_wf_ind. intros s Em HR Hcl.
  destruct (tw_all_reach _ _ _ _ Hwf Hwc HR) as (HL & HF & HH & HW & (K1 & K2 & K3 & K4 & K5) & HJ).
  destruct (tw_live_reach _ _ _ _ Hwf Hwc Hwl HR) as (W0 & W1 & W2 & J1 & Q2 & O1 & D1).
  destruct (K2 (or_intror Hcl)) as (p0 & Hn0 & Hc0 & Ho).
  destruct D1 as (p0' & Hn0' & D1). rewrite Hn0 in Hn0'. injection Hn0' as <-.
  destruct D1 as [(Hnd & _)|(Hd & Hcd & _)].
  2: { exists [], s. split; [reflexivity|]. apply tw_final_done; [|exact Hcd].
       intros i p Hp. destruct (Nat.eq_dec i 0) as [->|Hne]; [congruence|eauto]. }
  assert (Hnc : forall s1, tw_prods s1 = tw_prods s -> forall j q, nth_error (tw_prods s1) j = Some q ->
            tw_in_close (tw_pt_pc q) = false \/ tw_closing_pc (tw_pt_pc q) = true).
  { intros s1 E j q Hq. rewrite E in Hq. destruct (Nat.eq_dec j 0) as [->|Hne].
    - right. congruence.
    - left. rewrite (Ho _ _ Hq Hne). reflexivity. }
  assert (Hw : tw_is_wake (tw_pt_pc p0) = false) by (destruct (tw_pt_pc p0); cbn in Hc0 |- *; congruence).
  assert (Hnh : tw_pt_pc p0 <> TwPHJoin) by (intro E; rewrite E in Hc0; discriminate).
  assert (Hst : tw_pt_pc p0 = TwPStart -> 0%nat = 0%nat \/ tw_opened s = true) by (intros _; left; reflexivity).
  assert (Hdr : exists l1 s1, tw_run true s l1 = Some s1 /\ tw_reach true cap progs s1 /\ tw_prods s1 = tw_prods s /\
                  (tw_pt_pc p0 = TwPJoin -> tw_cpc s1 = TwCDone)).
  { destruct (tw_pt_pc p0) eqn:Epc; try (exists [], s; repeat split; auto; discriminate).
    destruct (tw_consumer_runs true cap progs Hwf _ s eq_refl HR) as (n & s1 & Hr1 & Hb1 & Hp1 & HR1).
    exists (repeat (TwDStep TwTCons) n), s1. split; [exact Hr1|]. split; [exact HR1|]. split; [exact Hp1|]. intros _.
    assert (Hquiet : forall j q, nth_error (tw_prods s1) j = Some q ->
              tw_pholdsM (tw_pt_pc q) = false /\ tw_pholdsP (tw_pt_pc q) = false /\ tw_pholdsE (tw_pt_pc q) = false /\
              tw_on_way (tw_pt_pc q) = false /\ tw_at_signal (tw_pt_pc q) = false).
    { intros j q Hq. rewrite Hp1 in Hq. destruct (Nat.eq_dec j 0) as [->|Hne].
      - rewrite Hn0 in Hq. injection Hq as <-. rewrite Epc. cbn. auto.
      - rewrite (Ho _ _ Hq Hne). cbn. auto. }
    destruct (tw_cons_blocked _ _ _ Hwf Hwc Hwl HR1 Hquiet Hb1) as [Hd|(Hc & Hun & _)]; [exact Hd|exfalso].
    pose proof (tw_run_has_close _ _ Hwf _ _ _ HR Hr1 Hcl) as (e & Hin & Hk).
    destruct (tw_all_reach _ _ _ _ Hwf Hwc HR1) as (_ & HF1 & _ & _ & (_ & _ & _ & _ & K5') & _).
    destruct (tw_live_reach _ _ _ _ Hwf Hwc Hwl HR1) as (_ & _ & _ & _ & Q2' & _).
    destruct HF1 as (_ & _ & es & _ & _ & _ & _ & HA).
    assert (Hm : In (snd e) (tw_acc_msgs s1)) by (unfold tw_acc_msgs; apply in_map; exact Hin).
    rewrite HA, Hun, app_nil_r in Hm.
    assert (Hq : tw_quit s1 = true) by (apply Q2'; exists (snd e); auto).
    destruct (K5' Hq) as [Hx|Hx]; rewrite Hc in Hx; discriminate. }
  destruct Hdr as (l1 & s1 & Hr1 & HR1 & Hp1 & Hj1).
  assert (Hn1 : nth_error (tw_prods s1) 0 = Some p0) by (rewrite Hp1; exact Hn0).
  destruct (tw_prod_advance cap progs s1 0 p0 Hwf HR1 (Hnc s1 Hp1) Hn1 Hw Hnd Hnh
              ltac:(intros _; left; reflexivity) Hj1) as (l2 & s2 & Hr2 & Hlt).
  pose proof (tw_run_reach _ _ _ _ _ _ HR1 Hr2) as HR2.
  pose proof (tw_run_has_close _ _ Hwf _ _ _ HR Hr1 Hcl) as Hcl1.
  pose proof (tw_run_has_close _ _ Hwf _ _ _ HR1 Hr2 Hcl1) as Hcl2.
  assert (Hlt' : (tw_work s2 < m)%nat) by (unfold tw_work in *; rewrite Hp1 in Hlt; lia).
  destruct (IH (tw_work s2) Hlt' s2 eq_refl HR2 Hcl2) as (l3 & s3 & Hr3 & Hfin).
  exists (l1 ++ l2 ++ l3), s3. split; [|exact Hfin].
  rewrite (tw_run_app _ _ _ _ _ Hr1). rewrite (tw_run_app _ _ _ _ _ Hr2). exact Hr3.
Qed.

(* 2a: producer 0 waits for the other producers (all finished) or is sending CLOSE: it gets the message queued
   (before the allocation the consumer drains the queue, so that the 40 bytes fit) *)
Definition tw_rank2 (pc : tw_ppc) : nat :=
  match pc with TwPHJoin => 5 | TwPSendUnlock _ false => 4 | TwPSendSleep _ => 3 | TwPSendWake _ _ => 2 | TwPSendLock _ => 1 | _ => 0 end%nat.

Lemma tw_close_len : len tw_close_msg = 40.
Proof. reflexivity. Qed.

Lemma tw_phase2a : forall cap progs, tw_wf cap progs -> tw_wf_close progs -> tw_wf_live progs ->
  forall r s p, tw_rank2 (tw_pt_pc p) = r -> tw_reach true cap progs s -> nth_error (tw_prods s) 0 = Some p ->
  tw_pt_pc p = TwPHJoin \/ tw_in_close (tw_pt_pc p) = true -> tw_others_done_p s 0 ->
  exists l s', tw_run true s l = Some s' /\ tw_reach true cap progs s' /\ tw_has_close s'.
Proof.
  intros cap progs Hwf Hwc Hwl r. induction r as [r IH] using lt_wf_ind. intros s p Er HR Hn Hpc Ho.
  pose proof (tw_reach_fault _ _ _ _ Hwf HR) as Hf.
  assert (Hcont : forall l s' p', tw_run true s l = Some s' -> nth_error (tw_prods s') 0 = Some p' ->
            tw_in_close (tw_pt_pc p') = true -> (tw_rank2 (tw_pt_pc p') < r)%nat ->
            exists l0 s0, tw_run true s l0 = Some s0 /\ tw_reach true cap progs s0 /\ tw_has_close s0).
  { intros l s' p' Hr Hn' Hic Hlt. pose proof (tw_run_reach _ _ _ _ _ _ HR Hr) as HR'.
    destruct (tw_all_reach _ _ _ _ Hwf Hwc HR') as (_ & _ & _ & _ & (K1' & _) & _).
    destruct (K1' _ _ Hn' Hic) as (_ & Ho').
    destruct (IH _ Hlt s' p' eq_refl HR' Hn' (or_intror Hic) Ho') as (l2 & s2 & Hr2 & HR2 & Hc2).
    exists (l ++ l2), s2. split; [|split; [exact HR2|exact Hc2]]. rewrite (tw_run_app _ _ _ _ _ Hr). exact Hr2. }
  assert (Hbase : tw_closing_pc (tw_pt_pc p) = true -> tw_pt_pc p <> TwPDone ->
            exists l0 s0, tw_run true s l0 = Some s0 /\ tw_reach true cap progs s0 /\ tw_has_close s0).
  { intros Hcl Hnd. exists [], s. split; [reflexivity|]. split; [exact HR|].
    destruct (tw_live_reach _ _ _ _ Hwf Hwc Hwl HR) as (_ & _ & _ & J1 & _). exact (J1 eq_refl _ _ Hn Hcl Hnd). }
  pose proof (tw_head_reach _ _ _ _ HR _ _ Hn) as Hhd. unfold tw_head_ok in Hhd.
  destruct (tw_pt_pc p) as [| | | | | |c|c ok| k | k | k |c|c w| | | |] eqn:Epc; cbn [tw_in_close] in Hpc;
    try (destruct Hpc as [Hpc|Hpc]; discriminate).
  - (* HJoin *)
    assert (Eod : tw_others_done s 0 = true).
    { destruct (tw_others_done s 0) eqn:E; [reflexivity|]. exfalso.
      destruct (tw_others_done_false _ _ E) as (j & q & Hq & Hne & Hqd). apply Hqd. eapply Ho; eauto. }
    subst r. eapply (Hcont [TwDStep (TwTProd 0)]).
    + cbn [tw_run]. rewrite (tw_step_prod _ _ _ _ Hf Hn). unfold tw_pstep. rewrite Epc, Eod. unfold tw_send_begin. cbn [fst snd]. reflexivity.
    + unfold tw_setp. tw_proj. eapply tw_nth_upd_eq. exact Hn.
    + reflexivity.
    + cbn. lia.
  - (* SendLock: the consumer drains the queue first *)
    assert (Hk : tw_sd_k c = TwKClose) by (destruct (tw_sd_k c); try (destruct Hpc as [Hpc|Hpc]; discriminate); reflexivity).
    cbn [tw_pc_head] in Hhd. unfold tw_send_head in Hhd. rewrite Hk in Hhd. destruct Hhd as (_ & Emsg).
    destruct (tw_consumer_runs true cap progs Hwf _ s eq_refl HR) as (n & s1 & Hr1 & Hb1 & Hp1 & HR1).
    assert (Hn1 : nth_error (tw_prods s1) 0 = Some p) by (rewrite Hp1; exact Hn).
    pose proof (tw_reach_fault _ _ _ _ Hwf HR1) as Hf1.
    assert (Hquiet : forall j q, nth_error (tw_prods s1) j = Some q ->
              tw_pholdsM (tw_pt_pc q) = false /\ tw_pholdsP (tw_pt_pc q) = false /\ tw_pholdsE (tw_pt_pc q) = false /\
              tw_on_way (tw_pt_pc q) = false /\ tw_at_signal (tw_pt_pc q) = false).
    { intros j q Hq. rewrite Hp1 in Hq. destruct (Nat.eq_dec j 0) as [->|Hne].
      - rewrite Hn in Hq. injection Hq as <-. rewrite Epc. cbn. auto.
      - rewrite (Ho _ _ Hq Hne). cbn. auto. }
    destruct (tw_all_reach _ _ _ _ Hwf Hwc HR1) as (_ & HF1 & _ & _ & (_ & K2' & _ & K4' & _) & _).
    destruct (tw_cons_blocked _ _ _ Hwf Hwc Hwl HR1 Hquiet Hb1) as [Hd|(Hc & Hun & Em1 & Eabs)].
    { exfalso. destruct (K4' Hd) as (Hq & _). destruct (K2' (or_introl Hq)) as (p0 & Hn0 & Hcl0 & _).
      rewrite Hn1 in Hn0. injection Hn0 as <-. rewrite Epc in Hcl0. discriminate. }
    destruct HF1 as (_ & _ & es & HRep & HC & HSz & _ & _).
    assert (Ees : es = []).
    { rewrite (abs_Rep _ _ HRep) in Eabs. destruct es; [reflexivity|discriminate]. }
    subst es.
    assert (HU : usable (size (tw_q s1)) (len (tw_sd_msg c))).
    { rewrite Emsg, tw_close_len, HSz. unfold usable. destruct Hwf as (Hlo & _). lia. }
    destruct (tw_alloc_ok (tw_q s1) [] (tw_sd_msg c) cap HRep HC HSz) as [Enone|(q1 & a & q2 & Eal & Efi & _)].
    { exfalso. destruct (alloc_usable _ _ HU) as (_ & EA). rewrite EA in Enone.
      destruct (alloc_body_spec _ _ _ HRep HU) as [(_ & _ & Hne)|(q1 & a & E & _)]; [apply Hne; reflexivity|congruence]. }
    subst r. eapply (Hcont (repeat (TwDStep TwTCons) n ++ [TwDStep (TwTProd 0)])).
    + rewrite (tw_run_app _ _ _ _ _ Hr1). cbn [tw_run]. rewrite (tw_step_prod _ _ _ _ Hf1 Hn1).
      unfold tw_pstep. rewrite Epc, Em1. cbn [tw_free]. rewrite Eal, Efi. cbn [fst snd]. reflexivity.
    + unfold tw_setp. tw_proj. eapply tw_nth_upd_eq. exact Hn1.
    + cbn [tw_with_pc tw_pt_pc tw_in_close]. rewrite Hk. reflexivity.
    + cbn. lia.
  - (* SendUnlock *)
    assert (Hk : tw_sd_k c = TwKClose) by (destruct (tw_sd_k c); try (destruct Hpc as [Hpc|Hpc]; discriminate); reflexivity).
    destruct ok.
    { apply Hbase; [cbn [tw_closing_pc]; rewrite Hk; reflexivity|discriminate]. }
    subst r. destruct (tw_sd_retry c) eqn:Ert.
    + eapply (Hcont [TwDStep (TwTProd 0)]).
      * cbn [tw_run]. rewrite (tw_step_prod _ _ _ _ Hf Hn). unfold tw_pstep. rewrite Epc, Ert. cbn [fst snd]. reflexivity.
      * unfold tw_setp. tw_proj. eapply tw_nth_upd_eq. exact Hn.
      * cbn [tw_with_pc tw_pt_pc tw_in_close]. rewrite Hk. reflexivity.
      * cbn. lia.
    + eapply (Hcont [TwDStep (TwTProd 0)]).
      * cbn [tw_run]. rewrite (tw_step_prod _ _ _ _ Hf Hn). unfold tw_pstep. rewrite Epc, Ert, Hk.
        unfold tw_send_done. cbn [orb negb]. unfold tw_send_begin. cbn [fst snd]. reflexivity.
      * unfold tw_setp. tw_proj. eapply tw_nth_upd_eq. exact Hn.
      * reflexivity.
      * cbn. lia.
  - destruct k; try (destruct Hpc as [Hpc|Hpc]; discriminate). apply Hbase; [reflexivity|discriminate].
  - destruct k; try (destruct Hpc as [Hpc|Hpc]; discriminate). apply Hbase; [reflexivity|discriminate].
  - destruct k; try (destruct Hpc as [Hpc|Hpc]; discriminate). apply Hbase; [reflexivity|discriminate].
  - (* SendSleep *)
    assert (Hk : tw_sd_k c = TwKClose) by (destruct (tw_sd_k c); try (destruct Hpc as [Hpc|Hpc]; discriminate); reflexivity).
    subst r. eapply (Hcont [TwDStep (TwTProd 0)]).
    + cbn [tw_run]. rewrite (tw_step_prod _ _ _ _ Hf Hn). unfold tw_pstep. rewrite Epc. cbn [fst snd]. reflexivity.
    + unfold tw_setp. tw_proj. eapply tw_nth_upd_eq. exact Hn.
    + cbn [tw_with_pc tw_pt_pc tw_in_close]. rewrite Hk. reflexivity.
    + cbn. lia.
  - (* SendWake: let time pass *)
    assert (Hk : tw_sd_k c = TwKClose) by (destruct (tw_sd_k c); try (destruct Hpc as [Hpc|Hpc]; discriminate); reflexivity).
    assert (Hf' : tw_fault (tw_tick s w) = None) by exact Hf.
    assert (Hn' : nth_error (tw_prods (tw_tick s w)) 0 = Some p) by exact Hn.
    assert (Ew : (w <=? tw_now (tw_tick s w)) = true) by (tw_proj; apply N.leb_le; lia).
    subst r. destruct (tw_now (tw_tick s w) <=? tw_sd_stop c) eqn:Est.
    + eapply (Hcont [TwDTick w; TwDStep (TwTProd 0)]).
      * cbn [tw_run]. rewrite (tw_step_prod _ _ _ _ Hf' Hn'). unfold tw_pstep. rewrite Epc, Ew, Est. cbn [fst snd]. reflexivity.
      * unfold tw_setp. tw_proj. eapply tw_nth_upd_eq. exact Hn.
      * cbn [tw_with_pc tw_pt_pc tw_in_close]. rewrite Hk. reflexivity.
      * cbn. lia.
    + eapply (Hcont [TwDTick w; TwDStep (TwTProd 0)]).
      * cbn [tw_run]. rewrite (tw_step_prod _ _ _ _ Hf' Hn'). unfold tw_pstep. rewrite Epc, Ew, Est, Hk.
        unfold tw_send_done. cbn [orb negb]. unfold tw_send_begin. cbn [fst snd]. reflexivity.
      * unfold tw_setp. tw_proj. eapply tw_nth_upd_eq. exact Hn.
      * reflexivity.
      * cbn. lia.
  - (* Join *)
    apply Hbase; [reflexivity|discriminate].
Qed.

(* ---------- possibility of termination: no reachable state is doomed ---------- *)
Theorem tw_can_always_finish : forall cap progs s, tw_wf cap progs -> tw_wf_close progs -> tw_wf_live progs ->
  tw_reach true cap progs s ->
  exists sched s', tw_run true s sched = Some s' /\ tw_final s' = true.
Proof.
  intros cap progs s Hwf Hwc Hwl HR.
  destruct (tw_phase1 _ _ Hwf Hwc Hwl _ s eq_refl HR) as (l1 & s1 & Hr1 & HR1 & Hall).
  destruct (tw_all_reach _ _ _ _ Hwf Hwc HR1) as (HL & HF & HH & HW & _).
  destruct (tw_live_reach _ _ _ _ Hwf Hwc Hwl HR1) as (_ & _ & _ & _ & _ & _ & D1).
  destruct D1 as (p0 & Hn0 & [(Hnd & _)|(Hd & Hcd & Ho)]).
  2: { exists l1, s1. split; [exact Hr1|]. apply tw_final_done; [|exact Hcd].
       intros i p Hp. destruct (Nat.eq_dec i 0) as [->|Hne]; [congruence|eauto]. }
  assert (Hcl : forall q, tw_fin1 q = true -> tw_pt_pc q <> TwPDone -> tw_pt_pc q = TwPHJoin \/ tw_in_close (tw_pt_pc q) = true).
  { intros q Hq Hqd. unfold tw_fin1 in Hq. destruct (tw_pt_pc q); auto; congruence. }
  assert (Ho : tw_others_done_p s1 0).
  { intros j q Hq Hne. destruct (tw_pt_pc q) eqn:Epc; try reflexivity; exfalso.
    all: assert (Hx : tw_pt_pc q = TwPHJoin \/ tw_in_close (tw_pt_pc q) = true) by (apply Hcl; [eapply Hall; eauto|rewrite Epc; discriminate]).
    all: destruct (tw_close_head q (HH _ _ Hq) Hx) as (r & Er).
    all: pose proof (HW _ _ Hq) as Hc; destruct j as [|j']; [congruence|]; cbn [tw_close_ok] in Hc; apply Hc; rewrite Er; left; reflexivity. }
  destruct (tw_phase2a _ _ Hwf Hwc Hwl _ s1 p0 eq_refl HR1 Hn0 (Hcl _ (Hall _ _ Hn0) Hnd) Ho) as (l2 & s2 & Hr2 & HR2 & Hc2).
  destruct (tw_phase2b _ _ Hwf Hwc Hwl _ s2 eq_refl HR2 Hc2) as (l3 & s3 & Hr3 & Hfin).
  exists (l1 ++ l2 ++ l3), s3. split; [|exact Hfin].
  rewrite (tw_run_app _ _ _ _ _ Hr1). rewrite (tw_run_app _ _ _ _ _ Hr2). exact Hr3.
Qed.

(* in a reachable final state the queue is empty and every accepted message has been handed to the writer *)
Lemma tw_final_all_applied : forall cap progs s, tw_wf cap progs -> tw_wf_close progs -> tw_reach true cap progs s ->
  tw_final s = true -> tw_cpc s = TwCDone /\ mrb_abs (tw_q s) = [] /\ tw_processed s = tw_acc_msgs s.
Proof.
  intros cap progs s Hwf Hwc HR Hfin.
  destruct (tw_all_reach _ _ _ _ Hwf Hwc HR) as (_ & HF & _ & _ & (_ & _ & _ & K4 & _) & _).
  unfold tw_final in Hfin. apply andb_prop in Hfin. destruct Hfin as (_ & Hc).
  assert (Ec : tw_cpc s = TwCDone) by (destruct (tw_cpc s); try discriminate; reflexivity).
  destruct (K4 Ec) as (_ & Ha). destruct HF as (_ & _ & es & _ & _ & _ & _ & HA).
  split; [exact Ec|]. split; [exact Ha|].
  unfold tw_unprocessed, tw_cdone in HA. rewrite Ec, Ha, app_nil_r in HA. symmetry. exact HA.
Qed.

Theorem tw_can_always_finish_applied : forall cap progs s, tw_wf cap progs -> tw_wf_close progs -> tw_wf_live progs ->
  tw_reach true cap progs s ->
  exists sched s', tw_run true s sched = Some s' /\ tw_reach true cap progs s' /\ tw_final s' = true /\
    tw_cpc s' = TwCDone /\ mrb_abs (tw_q s') = [] /\ tw_processed s' = tw_acc_msgs s' /\
    (forall e, In e (tw_accepted s) -> In e (tw_accepted s')).
Proof.
  intros cap progs s Hwf Hwc Hwl HR.
  destruct (tw_can_always_finish _ _ _ Hwf Hwc Hwl HR) as (l & s' & Hr & Hfin).
  pose proof (tw_run_reach _ _ _ _ _ _ HR Hr) as HR'.
  destruct (tw_final_all_applied _ _ _ Hwf Hwc HR' Hfin) as (A & B & C).
  exists l, s'. repeat (split; [assumption|]).
  (* accepted only grows *)
  clear Hfin A B C HR'. revert s HR Hr. induction l as [|d r IH]; intros s HR Hr e He; cbn [tw_run] in Hr.
  - injection Hr as <-. exact He.
  - destruct d as [t|d].
    + destruct (tw_step true s t) as [s1|] eqn:E; [|discriminate].
      apply (IH s1 (tw_reach_step _ _ _ _ _ _ HR E) Hr).
      pose proof (tw_head_reach _ _ _ _ HR) as HH.
      unfold tw_step in E. destruct (tw_fault s); [discriminate|]. destruct t as [i|].
      * destruct (nth_error (tw_prods s) i) as [p|] eqn:Hn; [|discriminate].
        destruct (tw_pstep_sum _ _ _ _ _ (HH _ _ Hn) E) as [SUM|(f & ->)]; [|exact He].
        destruct SUM as (s0 & p1 & -> & _ & _ & _ & _ & _ & _ & Sa & _). tw_proj.
        destruct Sa as [(_ & Sa)|(c & q1 & a & _ & _ & _ & _ & Sa & _)]; rewrite Sa; [exact He|apply in_or_app; left; exact He].
      * destruct (tw_cstep_facts _ _ E) as (_ & Ha & _). rewrite Ha. exact He.
    + apply (IH (tw_tick s d) (tw_reach_tick _ _ _ _ d HR) Hr). exact He.
Qed.

(* the premises are satisfiable: the example program, and a reachable state that is not final *)
Lemma tw_ex_live_hyps :
  tw_wf 128 tw_ex_prog /\ tw_wf_close tw_ex_prog /\ tw_wf_live tw_ex_prog /\
  exists s, tw_reach true 128 tw_ex_prog s /\ tw_final s = false.
Proof.
  destruct tw_ex_wf as (A & B). destruct tw_ex_wf_live as (C & _).
  split; [exact A|]. split; [exact B|]. split; [exact C|].
  exists (tw_init 128 tw_ex_prog). split; [apply tw_reach_init|reflexivity].
Qed.

(* ---------- producer 0 has finished only after it has called jls_wr_close ---------- *)
Lemma tw_done_end : forall cap progs s, tw_wf cap progs -> tw_wf_close progs -> tw_wf_live progs ->
  tw_reach true cap progs s ->
  forall p0, nth_error (tw_prods s) 0 = Some p0 -> tw_pt_pc p0 = TwPDone -> In TwAEnd (tw_applied s).
Proof.
  intros cap progs s Hwf Hwc Hwl HR. induction HR as [|s t s' HR IH HS|s d HR IH]; intros p0 Hn0 Hd.
  - exfalso. unfold tw_init in Hn0. tw_proj. apply nth_error_In, in_map_iff in Hn0. destruct Hn0 as (cs & <- & _). discriminate.
  - pose proof (tw_head_reach _ _ _ _ HR) as HH.
    pose proof (tw_head_reach _ _ _ _ (tw_reach_step _ _ _ _ _ _ HR HS)) as HH'.
    destruct (tw_live_reach _ _ _ _ Hwf Hwc Hwl HR) as (_ & _ & _ & _ & _ & _ & D1).
    unfold tw_step in HS. destruct (tw_fault s) eqn:Hf; [discriminate|]. destruct t as [i|].
    + destruct (nth_error (tw_prods s) i) as [p|] eqn:Hn; [|discriminate].
      destruct (tw_pstep_sum _ _ _ _ _ (HH _ _ Hn) HS) as [SUM|(f & ->)].
      2: { tw_proj. eapply IH; eauto. }
      destruct SUM as (s1 & p1 & Es' & Sp & _ & _ & _ & _ & _ & _ & _ & _ & _ & Sap & Scs).
      assert (Hgrow : In TwAEnd (tw_applied s) -> In TwAEnd (tw_applied s')).
      { intro Hin. rewrite Es'. tw_proj. destruct Sap as [Sap|[(d & Sap)|(_ & _ & Sap & _)]]; rewrite Sap; auto; apply in_or_app; auto. }
      destruct (Nat.eq_dec i 0) as [->|Hne].
      * assert (Ep1 : p1 = p0).
        { rewrite Es' in Hn0. tw_proj. rewrite Sp in Hn0. rewrite (tw_nth_upd_eq _ _ _ _ _ Hn) in Hn0. congruence. }
        subst p1.
        assert (Hnd : tw_pt_pc p <> TwPDone).
        { intro E. rewrite (tw_done_no_step _ _ _ _ E) in HS. discriminate. }
        destruct D1 as (q0 & Hq0 & D1). rewrite Hn in Hq0. injection Hq0 as <-.
        destruct D1 as [(_ & Hec)|(Hx & _)]; [|contradiction].
        assert (Hcs0 : tw_pt_calls p0 = []).
        { pose proof (HH' _ _ Hn0) as Hh. unfold tw_head_ok in Hh. rewrite Hd in Hh. exact Hh. }
        assert (Epj : tw_pt_pc p = TwPJoin).
        { destruct Scs as [Scs|[(Eps & fl & Efl & Hfl)|(c0 & r0 & fl & Ec0 & Er0 & Hfl & Hcl)]].
          - exfalso. rewrite Hcs0 in Scs. destruct Hec as (pre & E). rewrite <- Scs in E. destruct pre; discriminate.
          - exfalso. rewrite Hcs0, app_nil_r in Efl. rewrite Efl in Hec. eapply tw_flags_not_close; eauto.
          - rewrite Hcs0, app_nil_r in Er0. subst r0. rewrite Ec0 in Hec.
            assert (fl = [] /\ c0 = TwCClose) as (-> & ->).
            { destruct Hec as (pre0 & Epre). destruct fl as [|f0 fl'] using rev_ind.
              - destruct pre0 as [|y pre0]; cbn in Epre; [injection Epre as ->; auto|].
                injection Epre as _ Epre. destruct pre0; discriminate.
              - exfalso. rewrite app_comm_cons in Epre. apply app_inj_tail in Epre. destruct Epre as (_ & ->).
                apply Forall_app in Hfl. destruct Hfl as (_ & Hfl). inversion Hfl as [|? ? (b & Hb) _]. discriminate. }
            exact (Hcl eq_refl). }
        unfold tw_pstep in HS. rewrite Epj in HS. destruct (tw_cpc s); try discriminate.
        match type of HS with Some (tw_setp (fst ?X) _ (snd ?X)) = Some _ => destruct X as [s2 p2] eqn:EX end.
        cbn [fst snd] in HS. injection HS as <-.
        pose proof (tw_ret_frame _ _ _ _ _ _ EX) as (F & _ & _).
        destruct F as (_ & _ & _ & _ & _ & _ & _ & _ & _ & _ & _ & _ & _ & _ & _ & Fap).
        tw_proj. rewrite Fap. apply in_or_app. right. left. reflexivity.
      * apply Hgrow. apply (IH p0); [|exact Hd].
        rewrite Es' in Hn0. tw_proj. rewrite Sp in Hn0. rewrite tw_nth_upd_neq in Hn0 by congruence. exact Hn0.
    + pose proof (tw_cstep_prods _ _ HS) as Hp. rewrite Hp in Hn0.
      destruct (tw_cstep_facts _ _ HS) as (_ & _ & _ & _ & _ & Hap).
      destruct Hap as [Hap|(m & Hap)]; rewrite Hap; [|apply in_or_app; left]; eapply IH; eauto.
  - tw_proj. eapply IH; eauto.
Qed.

Theorem tw_can_always_close : forall cap progs s, tw_wf cap progs -> tw_wf_close progs -> tw_wf_live progs ->
  tw_reach true cap progs s ->
  exists sched s', tw_run true s sched = Some s' /\ tw_reach true cap progs s' /\ tw_final s' = true /\
    In TwAEnd (tw_applied s') /\ tw_processed s' = tw_acc_msgs s' /\
    (forall e, In e (tw_accepted s) -> In e (tw_accepted s')).
Proof.
  intros cap progs s Hwf Hwc Hwl HR.
  destruct (tw_can_always_finish_applied _ _ _ Hwf Hwc Hwl HR) as (l & s' & Hr & HR' & Hfin & _ & _ & Hpa & Hacc).
  exists l, s'. split; [exact Hr|]. split; [exact HR'|]. split; [exact Hfin|]. split; [|split; [exact Hpa|exact Hacc]].
  destruct (tw_live_reach _ _ _ _ Hwf Hwc Hwl HR') as (_ & _ & _ & _ & _ & _ & (p0 & Hn0 & _)).
  apply (tw_done_end _ _ _ Hwf Hwc Hwl HR' p0 Hn0).
  unfold tw_final in Hfin. apply andb_prop in Hfin. destruct Hfin as (Hall & _). rewrite forallb_forall in Hall.
  pose proof (Hall p0 (nth_error_In _ _ Hn0)) as Hx. unfold tw_pdone in Hx. destruct (tw_pt_pc p0); try discriminate. reflexivity.
Qed.
