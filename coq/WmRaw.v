(* Byte-faithful model of the SYNCHRONOUS WRITER, layer 1: the backend write log and
   /repo/src/raw.c (write side) over /repo/src/backend_posix.c.

   Output alphabet = the interposed backend log of the harness (`logdump`):
     WmWrite off bytes   one write(2) call at file position off          `w <off> <hex>`
     WmTrunc len         O_TRUNC at open / ftruncate                     `t <len>`
     WmSync              fsync                                           `s`
   lseek and read calls are not log entries; their effect on the position is modelled.

   State [wm_raw] = struct jls_raw_s + struct jls_bkf_s:
     wm_fpos, wm_fend     backend.fpos / backend.fend (fend = size of the file: opened with O_TRUNC)
     wm_offset            self->offset   (offset of the current chunk)
     wm_hdr               self->hdr      (cached header; tag = JLS_TAG_INVALID means "no current chunk")
     wm_last_pl           self->last_payload_length
     wm_disk              GHOST: the chunk headers written so far, by offset, most recent first.
                          Only used by [wm_raw_rd_header] (the C re-reads the header of a TRACK_*_HEAD
                          chunk from the file before it rewrites the head table).
     wm_rlog              the log, most recent entry FIRST
     wm_fault             sticky: the model left its domain (a C error path that needs an I/O error,
                          a NULL dereference, an out-of-bounds level, an exhausted fuel).  Provers show
                          it stays false; the correspondence driver prints it.
   I/O errors (short writes, failed seeks) are not modelled.
   Definitions only.  Every top-level name starts with wm_ / Wm. *)
From Coq Require Import NArith ZArith List Bool.
From JLS Require Import Generated CrcDefs Format.
Import ListNotations.
Local Open Scope N_scope.

Inductive wm_entry :=
| WmWrite (offset : N) (bytes : list N)
| WmTrunc (len : N)
| WmSync.
Definition wm_log := list wm_entry.

(* linear-time reverse (List.rev is quadratic when extracted); List.rev_alt: rev l = rev_append l [] *)
Definition wm_rev {A} (l : list A) : list A := rev_append l [].

Definition wm_hdr0 : fm_chunk_header :=
  {| fm_item_next := 0; fm_item_prev := 0; fm_tag := JLS_TAG_INVALID; fm_rsv0 := 0; fm_chunk_meta := 0;
     fm_payload_length := 0; fm_payload_prev_length := 0 |}.

Definition wm_hdr_set_tag (h : fm_chunk_header) (t : N) : fm_chunk_header :=
  {| fm_item_next := fm_item_next h; fm_item_prev := fm_item_prev h; fm_tag := t; fm_rsv0 := fm_rsv0 h;
     fm_chunk_meta := fm_chunk_meta h; fm_payload_length := fm_payload_length h;
     fm_payload_prev_length := fm_payload_prev_length h |}.
Definition wm_hdr_set_next (h : fm_chunk_header) (x : N) : fm_chunk_header :=
  {| fm_item_next := x; fm_item_prev := fm_item_prev h; fm_tag := fm_tag h; fm_rsv0 := fm_rsv0 h;
     fm_chunk_meta := fm_chunk_meta h; fm_payload_length := fm_payload_length h;
     fm_payload_prev_length := fm_payload_prev_length h |}.
Definition wm_hdr_set_ppl (h : fm_chunk_header) (x : N) : fm_chunk_header :=
  {| fm_item_next := fm_item_next h; fm_item_prev := fm_item_prev h; fm_tag := fm_tag h; fm_rsv0 := fm_rsv0 h;
     fm_chunk_meta := fm_chunk_meta h; fm_payload_length := fm_payload_length h;
     fm_payload_prev_length := x |}.

Record wm_raw := {
  wm_fpos : N; wm_fend : N; wm_offset : N; wm_hdr : fm_chunk_header; wm_last_pl : N;
  wm_disk : list (N * fm_chunk_header); wm_rlog : wm_log; wm_fault : bool }.

Definition wm_raw0 : wm_raw :=
  {| wm_fpos := 0; wm_fend := 0; wm_offset := 0; wm_hdr := wm_hdr0; wm_last_pl := 0;
     wm_disk := []; wm_rlog := []; wm_fault := false |}.

(* ---- field updates ---- *)
Definition wm_set_fpos (r : wm_raw) (p : N) : wm_raw :=
  {| wm_fpos := p; wm_fend := wm_fend r; wm_offset := wm_offset r; wm_hdr := wm_hdr r; wm_last_pl := wm_last_pl r;
     wm_disk := wm_disk r; wm_rlog := wm_rlog r; wm_fault := wm_fault r |}.
Definition wm_set_offset (r : wm_raw) (o : N) : wm_raw :=
  {| wm_fpos := wm_fpos r; wm_fend := wm_fend r; wm_offset := o; wm_hdr := wm_hdr r; wm_last_pl := wm_last_pl r;
     wm_disk := wm_disk r; wm_rlog := wm_rlog r; wm_fault := wm_fault r |}.
Definition wm_set_hdr (r : wm_raw) (h : fm_chunk_header) : wm_raw :=
  {| wm_fpos := wm_fpos r; wm_fend := wm_fend r; wm_offset := wm_offset r; wm_hdr := h; wm_last_pl := wm_last_pl r;
     wm_disk := wm_disk r; wm_rlog := wm_rlog r; wm_fault := wm_fault r |}.
Definition wm_set_last_pl (r : wm_raw) (x : N) : wm_raw :=
  {| wm_fpos := wm_fpos r; wm_fend := wm_fend r; wm_offset := wm_offset r; wm_hdr := wm_hdr r; wm_last_pl := x;
     wm_disk := wm_disk r; wm_rlog := wm_rlog r; wm_fault := wm_fault r |}.
Definition wm_disk_put (r : wm_raw) (o : N) (h : fm_chunk_header) : wm_raw :=
  {| wm_fpos := wm_fpos r; wm_fend := wm_fend r; wm_offset := wm_offset r; wm_hdr := wm_hdr r; wm_last_pl := wm_last_pl r;
     wm_disk := (o, h) :: wm_disk r; wm_rlog := wm_rlog r; wm_fault := wm_fault r |}.
Definition wm_log_add (r : wm_raw) (e : wm_entry) : wm_raw :=
  {| wm_fpos := wm_fpos r; wm_fend := wm_fend r; wm_offset := wm_offset r; wm_hdr := wm_hdr r; wm_last_pl := wm_last_pl r;
     wm_disk := wm_disk r; wm_rlog := e :: wm_rlog r; wm_fault := wm_fault r |}.
Definition wm_set_rlog (r : wm_raw) (l : wm_log) : wm_raw :=
  {| wm_fpos := wm_fpos r; wm_fend := wm_fend r; wm_offset := wm_offset r; wm_hdr := wm_hdr r; wm_last_pl := wm_last_pl r;
     wm_disk := wm_disk r; wm_rlog := l; wm_fault := wm_fault r |}.
Definition wm_set_fault (r : wm_raw) : wm_raw :=
  {| wm_fpos := wm_fpos r; wm_fend := wm_fend r; wm_offset := wm_offset r; wm_hdr := wm_hdr r; wm_last_pl := wm_last_pl r;
     wm_disk := wm_disk r; wm_rlog := wm_rlog r; wm_fault := true |}.

Fixpoint wm_disk_get (d : list (N * fm_chunk_header)) (o : N) : option fm_chunk_header :=
  match d with
  | [] => None
  | (o', h) :: r => if o' =? o then Some h else wm_disk_get r o
  end.

(* ---- backend_posix.c ---- *)
(* jls_bk_fwrite: one write(2) of all the bytes at the current position *)
Definition wm_bk_fwrite (r : wm_raw) (b : list N) : wm_raw :=
  let p := wm_fpos r in
  let p' := p + N.of_nat (length b) in
  {| wm_fpos := p'; wm_fend := N.max (wm_fend r) p'; wm_offset := wm_offset r; wm_hdr := wm_hdr r;
     wm_last_pl := wm_last_pl r; wm_disk := wm_disk r; wm_rlog := WmWrite p b :: wm_rlog r; wm_fault := wm_fault r |}.
(* jls_bk_fseek(SEEK_SET) *)
Definition wm_bk_fseek (r : wm_raw) (p : N) : wm_raw := wm_set_fpos r p.
(* jls_bk_fflush *)
Definition wm_bk_fflush (r : wm_raw) : wm_raw := wm_log_add r WmSync.

(* ---- raw.c ---- *)
Definition wm_hdr_valid (r : wm_raw) : bool := negb (fm_tag (wm_hdr r) =? JLS_TAG_INVALID).
Definition wm_invalidate (r : wm_raw) : wm_raw := wm_set_hdr r (wm_hdr_set_tag (wm_hdr r) JLS_TAG_INVALID).

Definition wm_file_header_bytes (file_sz : N) : list N :=
  fm_encode_file_header {| fm_fh_length := file_sz; fm_fh_version := JLS_FORMAT_VERSION_U32 |}.

(* wr_file_header: ftell; seek END (size); seek 0; write; seek back (or offset := 32 when pos = 0) *)
Definition wm_wr_file_header (r : wm_raw) : wm_raw :=
  let pos := wm_fpos r in
  let file_sz := wm_fend r in
  let r1 := wm_bk_fwrite (wm_bk_fseek r 0) (wm_file_header_bytes file_sz) in
  if pos =? 0 then wm_set_offset r1 (wm_fpos r1) else wm_bk_fseek r1 pos.

(* jls_raw_open(path, "w"): open(O_TRUNC), wr_file_header, offset := fpos *)
Definition wm_raw_open : wm_raw :=
  let r1 := wm_wr_file_header (wm_log_add wm_raw0 (WmTrunc 0)) in
  wm_set_offset r1 (wm_fpos r1).
(* jls_raw_close (write_en) *)
Definition wm_raw_close (r : wm_raw) : wm_raw := wm_wr_file_header r.
Definition wm_raw_flush (r : wm_raw) : wm_raw := wm_bk_fflush r.

Definition wm_raw_chunk_tell (r : wm_raw) : N := wm_offset r.

(* jls_raw_chunk_seek: offset 0 is an error (JLS_ERROR_IO) *)
Definition wm_raw_chunk_seek (r : wm_raw) (o : N) : wm_raw :=
  let r1 := wm_invalidate r in
  if o =? 0 then wm_set_fault r1
  else let r2 := wm_bk_fseek r1 o in wm_set_offset r2 (wm_fpos r2).

(* jls_raw_wr_header: payload_prev_length is stamped only when appending (fpos >= fend); the seek to
   self->offset comes after that test.  Returns the header as the C leaves it in the caller's struct. *)
Definition wm_raw_wr_header (r : wm_raw) (h : fm_chunk_header) : wm_raw * fm_chunk_header :=
  let h1 := if wm_fend r <=? wm_fpos r then wm_hdr_set_ppl h (wm_last_pl r) else h in
  let r1 := if wm_offset r =? wm_fpos r then r else wm_bk_fseek (wm_invalidate r) (wm_offset r) in
  let o := wm_fpos r1 in
  let r2 := wm_bk_fwrite r1 (fm_encode_chunk_header h1) in
  (wm_set_hdr (wm_disk_put r2 o h1) h1, h1).

(* jls_raw_rd_header(self, &self->hdr) as used by jls_raw_wr_payload: no-op when a header is cached,
   else read the 32 bytes at self->offset from the file (ghost [wm_disk]); fpos advances, fend does not. *)
Definition wm_raw_rd_header (r : wm_raw) : wm_raw :=
  if wm_hdr_valid r then r
  else if wm_fend r <=? wm_fpos r then wm_set_fault r                 (* JLS_ERROR_EMPTY *)
  else
    let r1 := if wm_offset r =? wm_fpos r then r else wm_bk_fseek r (wm_offset r) in
    let r2 := wm_set_offset r1 (wm_fpos r1) in
    match wm_disk_get (wm_disk r2) (wm_fpos r2) with
    | Some h => wm_set_fpos (wm_set_hdr r2 h) (wm_fpos r2 + SIZEOF_chunk_header)
    | None => wm_set_fault r2                                           (* not a chunk header: CRC error *)
    end.

Definition wm_footer (hdr_len : N) (crc : N) : list N :=
  repeat 0 (N.to_nat (fm_pad_len hdr_len)) ++ fm_enc_u32 crc.

(* jls_raw_wr_payload: on length 0 nothing is written (last_payload_length := 0 when appending); pad and
   CRC length come from the cached header, last_payload_length from the argument; two write calls. *)
Definition wm_raw_wr_payload (r : wm_raw) (payload_length : N) (payload : list N) : wm_raw :=
  let r1 := wm_raw_rd_header r in
  if wm_fault r1 then r1
  else if payload_length =? 0 then (if wm_fend r1 <=? wm_fpos r1 then wm_set_last_pl r1 0 else r1)
  else
    let hl := fm_payload_length (wm_hdr r1) in
    let body := firstn (N.to_nat hl) payload in
    let r2 := if N.of_nat (length payload) <? hl then wm_set_fault r1 else r1 in    (* C reads past the caller's buffer *)
    let r3 := wm_bk_fwrite r2 body in
    let r4 := wm_bk_fwrite r3 (wm_footer hl (crc32c body)) in
    if wm_fend r4 <=? wm_fpos r4 then wm_set_last_pl r4 payload_length else r4.

(* jls_raw_wr *)
Definition wm_raw_wr (r : wm_raw) (h : fm_chunk_header) (payload : list N) : wm_raw * fm_chunk_header :=
  let '(r1, h1) := wm_raw_wr_header r h in
  let r2 := wm_raw_wr_payload r1 (fm_payload_length h1) payload in
  let r3 := wm_invalidate r2 in
  (wm_set_offset r3 (wm_fpos r3), h1).
